/-
Props/C08.lean — property C08: EUI text round-trips in every dialect; derived identifiers
follow the standards.  Property theorems only; helper lemmas are in Lemmas/C08L*.lean.

Cross-reading of properties.jsonl: "eui64() inserts FF-FE after the first three octets" =
`eui64_spec`; "modified_eui64() additionally inverts the universal/local bit" =
`modified_flips_bit57`; "ipv6(prefix) / ipv6_link_local() place that interface identifier under
the prefix" = `ipv6_spec`, `link_local`; "oui / ei / is_iab / iab split the value at the
standard bit positions" = `oui_ei_split`, `iab_split`, `splitIabMac_spec`; "EUIs compare and
hash by (version, value) regardless of dialect" = `eq_hash_by_value`; "word indexing /
assignment under the object's own dialect … never fail because of the dialect chosen" =
`getIdx_spec`, `setItem_spec`, `setItem_reject`; the text round trip and the accepted
spellings are further down (`roundtrip_*`, `spellings`).  Second part in Props/C08Ext.lean:
exception classes of the constructor the driver runs (`ofAnyF`), decimal-string fallback, final
newline, slicing, `format(dialect)`, `is_iab` / `iab` on EUI-64 receivers.
-/
import NetaddrVerif.Lemmas.C08L
import NetaddrVerif.Lemmas.C08LText
import NetaddrVerif.Props.C15
namespace NV.C08
open NV NV.Eui NV.Codec NV.Gen

/-! ## derived identifiers -/

/-- `eui64()`: an EUI-48 gets FF-FE inserted after its first three octets (the OUI moves up by
    16 bits, the low three octets stay); an EUI-64 is returned unchanged; always version 64 -/
theorem eui64_spec (v : Nat) :
    (v < 2 ^ 48 → eui64 48 v = .ok (64, (v / 2 ^ 24) * 2 ^ 40 + 0xFFFE * 2 ^ 24 + v % 2 ^ 24)) ∧
    (v < 2 ^ 64 → eui64 64 v = .ok (64, v)) := by
  have key : ∀ n : Nat, n ≤ 2 ^ 64 - 1 → ofAny (.int (n : Int)) (some 64) = .ok (64, n) := by
    intro n h
    have hm : Eui.maxInt 64 = 2 ^ 64 - 1 := by decide
    have hr : (n : Int) ≤ ((Eui.maxInt 64 : Nat) : Int) := by rw [hm]; exact_mod_cast h
    unfold ofAny
    simp only []
    rw [if_pos (by decide)]
    show setExplicit 64 (.int (n : Int)) = _
    unfold setExplicit
    simp only []
    rw [if_pos ⟨Int.natCast_nonneg _, hr⟩, Int.toNat_natCast]
  constructor
  · intro hv
    unfold eui64
    rw [key _ (by rw [eui64Value_48]; omega), eui64Value_48]
  · intro hv
    have e : eui64Value 64 v = v := by simp [eui64Value]
    unfold eui64
    rw [e, key v (by omega)]

example : eui64 48 0x001b774954fd = .ok (64, 0x001b77fffe4954fd) := by rfl

/-- `modified_eui64()`: the EUI-64 with bit 57 (the universal/local bit, 0x02 of the first
    octet) inverted and every other bit unchanged -/
theorem modified_flips_bit57 (ver v e : Nat) (h : eui64 ver v = .ok (64, e)) :
    modifiedEui64 ver v = .ok (64, e ^^^ 2 ^ 57) ∧
    ∀ i, (e ^^^ 2 ^ 57).testBit i = (if i = 57 then !e.testBit i else e.testBit i) := by
  constructor
  · simp only [modifiedEui64, h]; rfl
  · intro i
    rw [Nat.testBit_xor, Nat.testBit_two_pow]
    by_cases hi : i = 57
    · subst hi; simp
    · have : ¬ (57 = i) := fun e => hi e.symm
      simp [hi, this]

example : modifiedEui64 48 0x001b774954fd = .ok (64, 0x021b77fffe4954fd) := by rfl

/-- `ipv6(prefix)`: prefix + interface identifier (an AddrFormatError when that leaves the
    128-bit space); for a prefix whose low 64 bits are zero this is `prefix | iid` -/
theorem ipv6_spec (ver v m pfx : Nat) (h : modifiedEui64 ver v = .ok (64, m)) :
    (pfx + m < 2 ^ 128 → ipv6 ver v pfx = .ok (pfx + m)) ∧
    (¬ pfx + m < 2 ^ 128 → ipv6 ver v pfx = .error .addrFormat) ∧
    (m < 2 ^ 64 → pfx % 2 ^ 64 = 0 → pfx < 2 ^ 128 → ipv6 ver v pfx = .ok (pfx ||| m)) := by
  have hu : ipv6 ver v pfx = if pfx + m ≤ 2 ^ 128 - 1 then .ok (pfx + m) else .error .addrFormat := by
    simp only [ipv6, h]; rfl
  refine ⟨fun hs => by rw [hu, if_pos (by omega)], fun hs => by rw [hu, if_neg (by omega)], ?_⟩
  intro hm hp hlt
  have e : pfx = (pfx / 2 ^ 64) <<< 64 := by
    rw [Nat.shiftLeft_eq]; have := Nat.div_add_mod pfx (2 ^ 64); omega
  have hor : pfx ||| m = pfx + m := by
    conv => lhs; rw [e]
    rw [← Nat.shiftLeft_add_eq_or_of_lt hm, ← e]
  have : pfx + m ≤ 2 ^ 128 - 1 := by
    have := Nat.div_add_mod pfx (2 ^ 64)
    have hq : pfx / 2 ^ 64 < 2 ^ 64 := by omega
    omega
  rw [hu, if_pos this, hor]

/-- the interface identifier always fits 64 bits -/
theorem modified_lt (ver v m : Nat) (hv : v < 2 ^ (if ver = 48 then 48 else 64))
    (h : modifiedEui64 ver v = .ok (64, m)) (hver : ver = 48 ∨ ver = 64) : m < 2 ^ 64 := by
  rcases hver with rfl | rfl
  · have h1 := (eui64_spec v).1 (by simpa using hv)
    have h2 := (modified_flips_bit57 48 v _ h1).1
    rw [h2] at h
    have : m = (v / 2 ^ 24 * 2 ^ 40 + 0xFFFE * 2 ^ 24 + v % 2 ^ 24) ^^^ 2 ^ 57 := by
      injection h with h; injection h with _ h; exact h.symm
    rw [this]
    exact Nat.xor_lt_two_pow (by simp at hv; omega) (by decide)
  · have h1 := (eui64_spec v).2 (by simpa using hv)
    have h2 := (modified_flips_bit57 64 v _ h1).1
    rw [h2] at h
    have : m = v ^^^ 2 ^ 57 := by injection h with h; injection h with _ h; exact h.symm
    rw [this]
    exact Nat.xor_lt_two_pow (by simpa using hv) (by decide)

/-- `ipv6_link_local()` = the interface identifier under fe80::/64 -/
theorem link_local (ver v m : Nat) (h : modifiedEui64 ver v = .ok (64, m)) (hm : m < 2 ^ 64) :
    Eui.ipv6LinkLocal ver v = .ok (0xfe80 * 2 ^ 112 + m) := by
  have := (ipv6_spec ver v m 0xfe800000000000000000000000000000 h).1 (by omega)
  simpa [Eui.ipv6LinkLocal] using this

example : Eui.ipv6LinkLocal 48 0x001b774954fd = .ok 0xfe80000000000000021b77fffe4954fd := by rfl
example : ipv6 48 0x001b774954fd (2 ^ 128 - 1) = .error .addrFormat := by rfl

/-! ## oui / ei / iab -/

private theorem and255 (x : Nat) : x &&& 2 ^ 8 - 1 = x % 256 := Nat.and_two_pow_sub_one_eq_mod x 8

/-- `oui` is the top 24 bits, `ei` the remaining octets (three for EUI-48, five for EUI-64)
    printed `%02X` and joined by '-' -/
theorem oui_ei_split (v : Nat) :
    (v < 2 ^ 48 → oui 48 v = .ok (v / 2 ^ 24) ∧
      ei 48 v = .ok (['-'].intercalate ([v / 2 ^ 16 % 256, v / 2 ^ 8 % 256, v % 256].map (fmtHex 2 true)))) ∧
    (v < 2 ^ 64 → oui 64 v = .ok (v / 2 ^ 40) ∧
      ei 64 v = .ok (['-'].intercalate
        ([v / 2 ^ 32 % 256, v / 2 ^ 24 % 256, v / 2 ^ 16 % 256, v / 2 ^ 8 % 256, v % 256].map (fmtHex 2 true)))) := by
  constructor
  · intro hv
    constructor
    · simp only [oui, if_true, Nat.shiftRight_eq_div_pow]
      rw [if_pos (by omega)]
    · have h2 : v ≤ 2 ^ (6 * 8) - 1 := by omega
      simp only [ei, words, defaultDialect, macDefault, if_true, intToWords, if_pos h2, wordsLoop,
        Nat.shiftRight_eq_div_pow, and255]
      simp only [bind, Except.bind, List.reverse_cons, List.reverse_nil, List.nil_append, List.cons_append,
        List.drop_succ_cons, List.drop_zero, List.take_succ_cons, List.take_zero, List.length_cons,
        List.length_nil, ne_eq, not_true_eq_false, if_false, pure, Except.pure]
      have e1 : v / 2 ^ 8 / 2 ^ 8 % 256 = v / 2 ^ 16 % 256 := by omega
      rw [e1]
  · intro hv
    constructor
    · simp only [oui, show ¬ (64 = 48) by decide, if_false, Nat.shiftRight_eq_div_pow]
      rw [if_pos (by omega)]
    · have h2 : v ≤ 2 ^ (8 * 8) - 1 := by omega
      simp only [ei, words, defaultDialect, eui64Default, show ¬ (64 = 48) by decide, if_false, intToWords,
        if_pos h2, wordsLoop, Nat.shiftRight_eq_div_pow, and255]
      simp only [bind, Except.bind, List.reverse_cons, List.reverse_nil, List.nil_append, List.cons_append,
        List.drop_succ_cons, List.drop_zero, List.take_succ_cons, List.take_zero, List.length_cons,
        List.length_nil, ne_eq, not_true_eq_false, if_false, pure, Except.pure]
      have e1 : v / 2 ^ 8 / 2 ^ 8 % 256 = v / 2 ^ 16 % 256 := by omega
      have e2 : v / 2 ^ 8 / 2 ^ 8 / 2 ^ 8 % 256 = v / 2 ^ 24 % 256 := by omega
      have e3 : v / 2 ^ 8 / 2 ^ 8 / 2 ^ 8 / 2 ^ 8 % 256 = v / 2 ^ 32 % 256 := by omega
      rw [e1, e2, e3]

example : ei 48 0x001b774954fd = .ok "49-54-FD".toList := by rfl
example : oui 48 0x001b774954fd = .ok 0x001b77 := by rfl

/-- the IAB base OUIs of the generated table are the two IEEE ones -/
theorem iab_values : iabEuiValues = [0x0050c2, 0x40d855] := by decide

/-- `is_iab()` tests the top 24 bits of an EUI-48 against the IAB base OUIs; `iab` is then
    the top 36 bits (the value the IAB object is built from), otherwise None -/
theorem iab_split (v : Nat) :
    (isIab v = true ↔ (v / 2 ^ 24 = 0x0050c2 ∨ v / 2 ^ 24 = 0x40d855)) ∧
    (isIab v = true → iab v = .ok (some (v / 2 ^ 12))) ∧
    (isIab v = false → iab v = .ok none) := by
  refine ⟨?_, ?_, ?_⟩
  · simp [isIab, iabEuiValues, Nat.shiftRight_eq_div_pow]
  · intro h
    have h' : iabEuiValues.contains (v / 2 ^ 12 / 2 ^ 12) = true := by
      have : v / 2 ^ 12 / 2 ^ 12 = v >>> 24 := by simp [Nat.shiftRight_eq_div_pow, Nat.div_div_eq_div_mul]
      rw [this]; exact h
    simp only [iab, h, if_true, splitIabMac, Nat.shiftRight_eq_div_pow, h']
    rfl
  · intro h; simp [iab, h]; rfl

/-- `IAB.split_iab_mac`: a 36-bit IAB value is returned as is; a 48-bit MAC under an IAB base
    OUI splits into (top 36 bits, low 12 bits) — rejected in strict mode when the low bits are
    not zero; everything else is rejected -/
theorem splitIabMac_spec (e : Nat) (strict : Bool) (he : e < 2 ^ 48) :
    (iabEuiValues.contains (e / 2 ^ 12) = true → splitIabMac e strict = .ok (e, 0)) ∧
    (iabEuiValues.contains (e / 2 ^ 12) = false → iabEuiValues.contains (e / 2 ^ 24) = true →
      (strict = false ∨ e % 2 ^ 12 = 0) → splitIabMac e strict = .ok (e / 2 ^ 12, e % 2 ^ 12)) ∧
    (iabEuiValues.contains (e / 2 ^ 12) = false → iabEuiValues.contains (e / 2 ^ 24) = true →
      strict = true → e % 2 ^ 12 ≠ 0 → splitIabMac e strict = .error .value) ∧
    (iabEuiValues.contains (e / 2 ^ 12) = false → iabEuiValues.contains (e / 2 ^ 24) = false →
      splitIabMac e strict = .error .value) := by
  have hub : (e ||| (2 ^ 48 - 1) ^^^ (2 ^ 12 - 1)) - ((2 ^ 48 - 1) ^^^ (2 ^ 12 - 1)) = e % 2 ^ 12 := by
    have hm : ((2 : Nat) ^ 48 - 1) ^^^ (2 ^ 12 - 1) = (2 ^ 36 - 1) <<< 12 := by decide
    have hsplit : e = (e / 2 ^ 12) <<< 12 + e % 2 ^ 12 := by
      rw [Nat.shiftLeft_eq]; have := Nat.div_add_mod e (2 ^ 12); omega
    have hlow : e % 2 ^ 12 < 2 ^ 12 := Nat.mod_lt _ (by decide)
    have hq : e / 2 ^ 12 < 2 ^ 36 := by omega
    have hqor : e / 2 ^ 12 ||| (2 ^ 36 - 1) = 2 ^ 36 - 1 := by
      apply Nat.eq_of_testBit_eq; intro i
      rw [Nat.testBit_or, Nat.testBit_two_pow_sub_one]
      by_cases hi : i < 36
      · simp [hi]
      · have : (e / 2 ^ 12).testBit i = false := by
          apply Nat.testBit_lt_two_pow
          exact Nat.lt_of_lt_of_le hq (Nat.pow_le_pow_right (by decide) (by omega))
        simp [hi, this]
    rw [hm]
    conv => lhs; lhs; lhs; rw [hsplit, Nat.shiftLeft_add_eq_or_of_lt hlow]
    have : ((e / 2 ^ 12) <<< 12 ||| e % 2 ^ 12) ||| (2 ^ 36 - 1) <<< 12
        = ((e / 2 ^ 12 ||| (2 ^ 36 - 1)) <<< 12) ||| e % 2 ^ 12 := by
      rw [Nat.shiftLeft_or_distrib, Nat.or_assoc, Nat.or_comm (e % 2 ^ 12), ← Nat.or_assoc]
    rw [this, hqor, ← Nat.shiftLeft_add_eq_or_of_lt hlow]
    omega
  have hd : e >>> 12 >>> 12 = e / 2 ^ 24 := by simp [Nat.shiftRight_eq_div_pow, Nat.div_div_eq_div_mul]
  refine ⟨?_, ?_, ?_, ?_⟩
  · intro h; simp only [splitIabMac, Nat.shiftRight_eq_div_pow, h, if_true]
  · intro h1 h2 h3
    simp only [splitIabMac, Nat.shiftRight_eq_div_pow] at *
    simp only [h1, Bool.false_eq_true, if_false, Nat.div_div_eq_div_mul, h2, if_true, hub]
    rcases h3 with h3 | h3
    · simp [h3]
    · simp [h3]
  · intro h1 h2 h3 h4
    simp only [splitIabMac, Nat.shiftRight_eq_div_pow] at *
    simp only [h1, Bool.false_eq_true, if_false, Nat.div_div_eq_div_mul, h2, if_true, hub, h3]
    simp [h4]
  · intro h1 h2
    simp only [splitIabMac, Nat.shiftRight_eq_div_pow] at *
    simp only [h1, Bool.false_eq_true, if_false, Nat.div_div_eq_div_mul, h2]

example : splitIabMac 0x0050c2000123 false = .ok (0x0050c2000, 0x123) := by rfl
example : splitIabMac 0x0050c2000123 true = .error .value := by rfl
example : isIab 0x0050c2000123 = true := by rfl

/-! ## comparison and hashing -/

/-- the comparison / hash key is (version, value) — the dialect is not part of it — and the six
    comparison operators are the lexicographic order on that pair -/
theorem eq_hash_by_value (ver1 v1 ver2 v2 : Nat) :
    (key ver1 v1 = key ver2 v2 ↔ ver1 = ver2 ∧ v1 = v2) ∧
    (tupleCmp (key ver1 v1) (key ver2 v2) = .eq ↔ ver1 = ver2 ∧ v1 = v2) ∧
    (tupleCmp (key ver1 v1) (key ver2 v2) = .lt ↔ ver1 < ver2 ∨ (ver1 = ver2 ∧ v1 < v2)) ∧
    (tupleCmp (key ver1 v1) (key ver2 v2) = .gt ↔ ver2 < ver1 ∨ (ver1 = ver2 ∧ v2 < v1)) := by
  refine ⟨?_, ?_, ?_, ?_⟩
  · simp only [key, List.cons.injEq, and_true]; omega
  all_goals
    simp only [key, tupleCmp]
    by_cases h1 : (ver1 : Int) < ver2
    · have : ver1 < ver2 := by exact_mod_cast h1
      simp [h1]; omega
    · by_cases h2 : (ver1 : Int) > ver2
      · have : ver2 < ver1 := by exact_mod_cast h2
        simp [h1, h2]; omega
      · have hv : ver1 = ver2 := by
          have a : ¬ ver1 < ver2 := fun h => h1 (by exact_mod_cast h)
          have b : ¬ ver2 < ver1 := fun h => h2 (by exact_mod_cast h)
          omega
        subst hv
        by_cases h3 : (v1 : Int) < v2
        · have : v1 < v2 := by exact_mod_cast h3
          simp [h3]; omega
        · by_cases h4 : (v1 : Int) > v2
          · have : v2 < v1 := by exact_mod_cast h4
            simp [h3, h4]; omega
          · have a : ¬ v1 < v2 := fun h => h3 (by exact_mod_cast h)
            have b : ¬ v2 < v1 := fun h => h4 (by exact_mod_cast h)
            have : v1 = v2 := by omega
            subst this
            simp

example : tupleCmp (key 48 5) (key 64 4) = .lt := by rfl

/-! ## word access under the object's own dialect -/

private theorem words_ok (v : Nat) (d : Dialect) (hv : v < 2 ^ (d.numWords * d.wordSize)) :
    intToWords v d.wordSize d.numWords = .ok (wordsLoop d.wordSize d.numWords v).reverse := by
  have := pow_pos2 (d.numWords * d.wordSize)
  simp only [intToWords]; rw [if_pos (by omega)]

/-- `e[i]` for `0 ≤ i < num_words` is digit `num_words-1-i` of the value in base 2^word_size,
    a negative index counts from the end, anything else is an IndexError — for every dialect
    (every word size / word count), never a failure caused by the dialect -/
theorem getIdx_spec (v : Nat) (d : Dialect) (hv : v < 2 ^ (d.numWords * d.wordSize)) (idx : Int) :
    (∀ i : Nat, idx = i → i < d.numWords →
        getIdx v d idx = .ok (v / 2 ^ (d.wordSize * (d.numWords - 1 - i)) % 2 ^ d.wordSize)) ∧
    (∀ i : Nat, idx = (i : Int) - d.numWords → i < d.numWords →
        getIdx v d idx = .ok (v / 2 ^ (d.wordSize * (d.numWords - 1 - i)) % 2 ^ d.wordSize)) ∧
    (idx < -(d.numWords : Int) ∨ (d.numWords : Int) ≤ idx → getIdx v d idx = .error .index) := by
  have hlen : (wordsLoop d.wordSize d.numWords v).reverse.length = d.numWords := by simp [wordsLoop_length]
  refine ⟨?_, ?_, ?_⟩
  · intro i hi hlt
    subst hi
    have hg : ¬ ¬ (-(d.numWords : Int) ≤ (i : Int) ∧ (i : Int) ≤ (d.numWords : Int) - 1) := by omega
    simp only [getIdx, hg, if_false, words_ok v d hv]
    have hp : pyIndex (wordsLoop d.wordSize d.numWords v).reverse (i : Int) =
        some (v / 2 ^ (d.wordSize * (d.numWords - 1 - i)) % 2 ^ d.wordSize) := by
      simp only [pyIndex]
      rw [if_neg (by omega), if_neg (by omega), Int.toNat_natCast]
      exact beWords_get _ _ _ _ hlt
    simp only [bind, Except.bind, hp]; rfl
  · intro i hi hlt
    subst hi
    have hg : ¬ ¬ (-(d.numWords : Int) ≤ (i : Int) - d.numWords ∧ (i : Int) - d.numWords ≤ (d.numWords : Int) - 1) := by
      omega
    simp only [getIdx, hg, if_false, words_ok v d hv]
    have hp : pyIndex (wordsLoop d.wordSize d.numWords v).reverse ((i : Int) - d.numWords) =
        some (v / 2 ^ (d.wordSize * (d.numWords - 1 - i)) % 2 ^ d.wordSize) := by
      have hneg : ((i : Int) - d.numWords < 0) := by omega
      have e : (i : Int) - d.numWords + d.numWords = i := by omega
      have hnn : ¬ ((i : Int) < 0) := by omega
      simp only [pyIndex, hlen, hneg, if_true, e, hnn, if_false, Int.toNat_natCast]
      exact beWords_get _ _ _ _ hlt
    simp only [bind, Except.bind, hp]; rfl
  · intro h
    have hg : ¬ (-(d.numWords : Int) ≤ idx ∧ idx ≤ (d.numWords : Int) - 1) := by omega
    simp only [getIdx, hg, not_false_eq_true, if_true]

example : getIdx 0x001b774954fd ⟨"mac_cisco", 16, 3, ['.'], 4, false⟩ 1 = .ok 0x7749 := by rfl
example : getIdx 0x001b774954fd ⟨"mac_cisco", 16, 3, ['.'], 4, false⟩ (-1) = .ok 0x54fd := by rfl
example : getIdx 0x001b774954fd ⟨"mac_cisco", 16, 3, ['.'], 4, false⟩ 3 = .error .index := by rfl

/-- `e[i] = x` succeeds for every index `0 ≤ i < num_words` and every `0 ≤ x < 2^word_size` of
    the object's own dialect; afterwards word i reads x, every other word is unchanged, and the
    value is still in range -/
theorem setItem_spec (v : Nat) (d : Dialect) (hv : v < 2 ^ (d.numWords * d.wordSize)) (i x : Nat)
    (hi : i < d.numWords) (hx : x < 2 ^ d.wordSize) :
    ∃ r, setItem v d i x = .ok r ∧ r < 2 ^ (d.numWords * d.wordSize) ∧ getIdx r d i = .ok x ∧
      ∀ j : Nat, j < d.numWords → j ≠ i → getIdx r d j = getIdx v d j := by
  let W := (wordsLoop d.wordSize d.numWords v).reverse
  have hWlen : W.length = d.numWords := by simp [W, wordsLoop_length]
  have hWlt : ∀ a ∈ W, a < 2 ^ d.wordSize := fun a ha => wordsLoop_lt _ _ _ a (by simpa [W] using ha)
  let W' := W.set i x
  have hW'len : W'.length = d.numWords := by simp [W', hWlen]
  have hW'lt : ∀ a ∈ W', a < 2 ^ d.wordSize := by
    intro a ha
    rcases List.mem_or_eq_of_mem_set ha with h | h
    · exact hWlt a h
    · rw [h]; exact hx
  let r := beWordsValue d.wordSize W'
  have hr : r < 2 ^ (d.numWords * d.wordSize) := by
    have := leValue_lt d.wordSize W'.reverse (fun a ha => hW'lt a (by simpa using ha))
    simpa [r, beWordsValue, hW'len, Nat.mul_comm] using this
  have hset : setItem v d i x = .ok r := by
    have g1 : ¬ ¬ ((0 : Int) ≤ (i : Int) ∧ (i : Int) ≤ (d.numWords : Int) - 1) := by omega
    have g2 : ¬ ¬ ((0 : Int) ≤ (x : Int) ∧ (x : Int) ≤ (2 : Int) ^ d.wordSize - 1) := by
      have : (x : Int) < (2 : Int) ^ d.wordSize := by exact_mod_cast hx
      omega
    simp only [setItem, g1, g2, if_false, words_ok v d hv, Int.toNat_natCast]
    simp only [bind, Except.bind]
    exact (C15.wordsToInt_spec _ _ _).1 ⟨hW'len, hW'lt⟩
  -- reading the words of r gives back W'
  have hback : (wordsLoop d.wordSize d.numWords r).reverse = W' := by
    have h1 : leValue d.wordSize (wordsLoop d.wordSize d.numWords r) = r := by
      rw [leValue_wordsLoop, Nat.mul_comm]; exact Nat.mod_eq_of_lt hr
    have h2 : leValue d.wordSize W'.reverse = r := rfl
    have := leValue_inj d.wordSize (wordsLoop d.wordSize d.numWords r) W'.reverse
      (by simp [wordsLoop_length, hW'len]) (wordsLoop_lt _ _ _)
      (fun a ha => hW'lt a (by simpa using ha)) (by rw [h1, h2])
    rw [this, List.reverse_reverse]
  have hget : ∀ (u : Nat) (hu : u < 2 ^ (d.numWords * d.wordSize)) (j : Nat), j < d.numWords →
      getIdx u d j = match (wordsLoop d.wordSize d.numWords u).reverse[j]? with
        | some a => .ok a | none => .error .index := by
    intro u hu j hj
    have hg : ¬ ¬ (-(d.numWords : Int) ≤ (j : Int) ∧ (j : Int) ≤ (d.numWords : Int) - 1) := by omega
    simp only [getIdx, hg, if_false, words_ok u d hu, bind, Except.bind, pyIndex]
    rw [if_neg (by omega), if_neg (by omega), Int.toNat_natCast]
    cases (wordsLoop d.wordSize d.numWords u).reverse[j]? <;> rfl
  refine ⟨r, hset, hr, ?_, ?_⟩
  · rw [hget r hr i hi, hback]
    simp [W', hWlen, hi]
  · intro j hj hne
    rw [hget r hr j hj, hget v hv j hj, hback]
    have : ¬ i = j := fun e => hne e.symm
    simp [W', W, this]

/-- assignment is rejected (IndexError) exactly for an index outside `0 .. num_words-1` or a
    value outside `0 .. 2^word_size-1` -/
theorem setItem_reject (v : Nat) (d : Dialect) (idx value : Int)
    (h : idx < 0 ∨ (d.numWords : Int) ≤ idx ∨ value < 0 ∨ (2 : Int) ^ d.wordSize ≤ value) :
    setItem v d idx value = .error .index := by
  by_cases g1 : (0 : Int) ≤ idx ∧ idx ≤ (d.numWords : Int) - 1
  · have g2 : ¬ ((0 : Int) ≤ value ∧ value ≤ (2 : Int) ^ d.wordSize - 1) := by omega
    simp only [setItem, g1, not_true_eq_false, if_false, g2, not_false_eq_true, if_true, and_self]
  · simp only [setItem, g1, not_false_eq_true, if_true]

example : setItem 0x001b774954fd ⟨"mac_cisco", 16, 3, ['.'], 4, false⟩ 0 0xffff = .ok 0xffff774954fd := by rfl
example : setItem 0x001b774954fd ⟨"mac_cisco", 16, 3, ['.'], 4, false⟩ 0 0x10000 = .error .index := by rfl

/-! ## text: accepted spellings and the print / parse round trip -/

private def padOk (padOf : Nat → Option Nat) (width : Nat) (f : MacFmt) : Bool :=
  match padOf f.groups with
  | some p => decide (f.hi ≤ p) && decide (1 ≤ p) && decide (4 * p * f.groups = width)
  | none => false

private theorem padOk48 : ∀ f ∈ macFormats, padOk pad48 48 f = true := by decide
private theorem padOk64 : ∀ f ∈ eui64Formats, padOk pad64 64 f = true := by decide

/-- no EUI-48 pattern has the group count and digit counts of an EUI-64 pattern -/
private theorem cross : ∀ g ∈ macFormats, ∀ f ∈ eui64Formats, g.groups = f.groups → g.hi < f.lo ∨ f.hi < g.lo := by
  decide

private theorem padOk_elim {padOf width f} (h : padOk padOf width f = true) :
    ∃ p, padOf f.groups = some p ∧ f.hi ≤ p ∧ 1 ≤ p ∧ 4 * p * f.groups = width := by
  unfold padOk at h
  cases hp : padOf f.groups with
  | none => rw [hp] at h; cases h
  | some p =>
    rw [hp] at h
    simp only [Bool.and_eq_true, decide_eq_true_eq] at h
    exact ⟨p, rfl, h.1.1, h.1.2, h.2⟩

private theorem ofAny_some48 (a : AddrArg) : ofAny a (some 48) = setExplicit 48 a := by
  unfold ofAny; simp only []; rw [if_pos (by decide)]; rfl

private theorem ofAny_some64 (a : AddrArg) : ofAny a (some 64) = setExplicit 64 a := by
  unfold ofAny; simp only []; rw [if_pos (by decide)]; rfl

private theorem setExplicit_int (ver n : Nat) :
    setExplicit ver (.int n) = if n ≤ Eui.maxInt ver then .ok (ver, n) else .error .addrFormat := by
  unfold setExplicit
  simp only []
  by_cases h : n ≤ Eui.maxInt ver
  · have h' : (n : Int) ≤ ((Eui.maxInt ver : Nat) : Int) := by exact_mod_cast h
    rw [if_pos ⟨Int.natCast_nonneg _, h'⟩, if_pos h, Int.toNat_natCast]
  · have h' : ¬ ((0 : Int) ≤ (n : Int) ∧ (n : Int) ≤ ((Eui.maxInt ver : Nat) : Int)) := by
      intro ⟨_, x⟩; exact h (by exact_mod_cast x)
    rw [if_neg h', if_neg h]

/-- **every accepted EUI-48 spelling**: hex tokens joined by one separator (or one bare token)
    that fit a row of `RE_MAC_FORMATS` — 6 groups of 1-2 digits with ':' or '-', 3 groups of
    1-4 digits with ':', '-' or '.', 2 groups of 5-6 digits, 12 or 11 bare digits, any letter
    case — denote the big-endian value of the tokens read as words of 48/groups bits, with
    implicit and with explicit version -/
theorem spellings48 (f : MacFmt) (hf : f ∈ macFormats) (c : Char) (toks : List (List Char))
    (h : Spelling c toks) (hsep : f.sep = [c] ∨ (f.sep = [] ∧ toks.length = 1)) (hg : f.groups = toks.length)
    (hl : ∀ t ∈ toks, f.lo ≤ t.length ∧ t.length ≤ f.hi) :
    ∃ p, pad48 f.groups = some p ∧ 4 * p * f.groups = 48 ∧
      strToInt48 ([c].intercalate toks) = .ok (beWordsValue (4 * p) (toks.map tokVal)) ∧
      ofAny (.str ([c].intercalate toks)) none = .ok (48, beWordsValue (4 * p) (toks.map tokVal)) ∧
      ofAny (.str ([c].intercalate toks)) (some 48) = .ok (48, beWordsValue (4 * p) (toks.map tokVal)) := by
  obtain ⟨p, hp, hhi, hp1, hw⟩ := padOk_elim (padOk48 f hf)
  obtain ⟨hfm, hj⟩ := parse_spelling macFormats mac_fmts_ok f hf c toks h hsep hg hl p hhi hp1
  have hs : strToInt48 ([c].intercalate toks) = .ok (beWordsValue (4 * p) (toks.map tokVal)) := by
    rw [strToInt48_eq, hfm]
    simp only [← hg, hp, hj, beWordsValue]
  refine ⟨p, hp, hw, hs, ?_, ?_⟩
  · simp only [ofAny, setImplicitStr, hs]
  · rw [ofAny_some48]
    simp only [setExplicit, strToInt, if_true, hs]

/-- **every accepted EUI-64 spelling** (8 groups of 1-2 digits with ':' or '-', 4 groups of 1-4
    digits with ':', '-' or '.', 16 bare digits) denotes the value of its tokens; with implicit
    version it is recognised as version 64 because no EUI-48 pattern captures it -/
theorem spellings64 (f : MacFmt) (hf : f ∈ eui64Formats) (c : Char) (toks : List (List Char))
    (h : Spelling c toks) (hsep : f.sep = [c] ∨ (f.sep = [] ∧ toks.length = 1)) (hg : f.groups = toks.length)
    (hl : ∀ t ∈ toks, f.lo ≤ t.length ∧ t.length ≤ f.hi) :
    ∃ p, pad64 f.groups = some p ∧ 4 * p * f.groups = 64 ∧
      strToInt64 ([c].intercalate toks) = .ok (beWordsValue (4 * p) (toks.map tokVal)) ∧
      strToInt48 ([c].intercalate toks) = .error .addrFormat ∧
      ofAny (.str ([c].intercalate toks)) none = .ok (64, beWordsValue (4 * p) (toks.map tokVal)) ∧
      ofAny (.str ([c].intercalate toks)) (some 64) = .ok (64, beWordsValue (4 * p) (toks.map tokVal)) := by
  obtain ⟨p, hp, hhi, hp1, hw⟩ := padOk_elim (padOk64 f hf)
  obtain ⟨hfm, hj⟩ := parse_spelling eui64Formats eui64_fmts_ok f hf c toks h hsep hg hl p hhi hp1
  have hs : strToInt64 ([c].intercalate toks) = .ok (beWordsValue (4 * p) (toks.map tokVal)) := by
    rw [strToInt64_eq, hfm]
    simp only [← hg, hp, hj, beWordsValue]
  have hno : strToInt48 ([c].intercalate toks) = .error .addrFormat := by
    have := parse_none macFormats mac_fmts_ok c toks h (by
      intro g hgm ⟨hgg, hgl⟩
      match toks, h.ne with
      | t :: r, _ =>
        have a := hgl t (by simp)
        have b := hl t (by simp)
        rcases cross g hgm f hf (by rw [hgg, hg]) with x | x <;> omega)
    rw [strToInt48_eq, this]
  refine ⟨p, hp, hw, hs, hno, ?_, ?_⟩
  · simp only [ofAny, setImplicitStr, hno, hs]
  · rw [ofAny_some64]
    simp only [setExplicit, strToInt, show ¬ (64 = 48) by decide, if_false, hs]

example : strToInt48 "00-1B-77-49-54-FD".toList = .ok 0x001b774954fd := by rfl
example : strToInt48 "1b.7749.54fd".toList = .ok 0x001b774954fd := by rfl
example : strToInt48 "001b77:4954fd".toList = .ok 0x001b774954fd := by rfl
example : strToInt48 "001B774954FD".toList = .ok 0x001b774954fd := by rfl
example : ofAny (.str "0000000041000000".toList) none = .ok (64, 0x41000000) := by rfl
example : ofAny (.str "00-1B-77-49-54-FD".toList) (some 64) = .error .addrFormat := by rfl

/-- **round trip, general form** (covers user subclasses): a dialect whose attributes fit a row
    of `RE_MAC_FORMATS` prints every EUI-48 value as a text that parses back to (48, value),
    with implicit and with explicit version -/
theorem roundtrip_fit48 (d : Dialect) (f : MacFmt) (p : Nat) (hf : f ∈ macFormats)
    (hfit : fits d f p 48 = true) (v : Nat) (hv : v < 2 ^ 48) :
    ∃ s, intToStr d v = .ok s ∧ strToInt48 s = .ok v ∧ ofAny (.str s) none = .ok (48, v) ∧
      ofAny (.str s) (some 48) = .ok (48, v) := by
  obtain ⟨h1, h2, h3, h4, h5, h6, h7, h8⟩ := print_spelling d f p 48 hfit v hv
  obtain ⟨p', hp', _, a, b, c⟩ := spellings48 f hf _ _ h2 h3 h4 h5
  obtain ⟨q, hq, hqhi, hq1, hqw⟩ := padOk_elim (padOk48 f hf)
  -- the decode width chosen by the group count is the dialect's word width
  have hpp : p' = p := by
    have e1 : p' = q := by rw [hq] at hp'; exact (Option.some.inj hp').symm
    simp only [fits, Bool.and_eq_true, beq_iff_eq, decide_eq_true_eq] at hfit
    obtain ⟨⟨⟨⟨⟨⟨⟨⟨⟨g1, g2⟩, g3⟩, g4⟩, g5⟩, g6⟩, g7⟩, g8⟩, g9⟩, g10⟩ := hfit
    have : 4 * q * f.groups = 4 * p * f.groups := by rw [hqw, g2, ← g5, g8]
    have hgpos : 0 < f.groups := by rw [g2]; omega
    have := Nat.eq_of_mul_eq_mul_right hgpos this
    omega
  subst hpp
  simp only [beWordsValue, h8] at a b c
  exact ⟨_, h1, a, b, c⟩

/-- the EUI-64 counterpart -/
theorem roundtrip_fit64 (d : Dialect) (f : MacFmt) (p : Nat) (hf : f ∈ eui64Formats)
    (hfit : fits d f p 64 = true) (v : Nat) (hv : v < 2 ^ 64) :
    ∃ s, intToStr d v = .ok s ∧ strToInt64 s = .ok v ∧ ofAny (.str s) none = .ok (64, v) ∧
      ofAny (.str s) (some 64) = .ok (64, v) := by
  obtain ⟨h1, h2, h3, h4, h5, h6, h7, h8⟩ := print_spelling d f p 64 hfit v hv
  obtain ⟨p', hp', _, a, _, b, c⟩ := spellings64 f hf _ _ h2 h3 h4 h5
  obtain ⟨q, hq, hqhi, hq1, hqw⟩ := padOk_elim (padOk64 f hf)
  have hpp : p' = p := by
    have e1 : p' = q := by rw [hq] at hp'; exact (Option.some.inj hp').symm
    simp only [fits, Bool.and_eq_true, beq_iff_eq, decide_eq_true_eq] at hfit
    obtain ⟨⟨⟨⟨⟨⟨⟨⟨⟨g1, g2⟩, g3⟩, g4⟩, g5⟩, g6⟩, g7⟩, g8⟩, g9⟩, g10⟩ := hfit
    have : 4 * q * f.groups = 4 * p * f.groups := by rw [hqw, g2, ← g5, g8]
    have hgpos : 0 < f.groups := by rw [g2]; omega
    have := Nat.eq_of_mul_eq_mul_right hgpos this
    omega
  subst hpp
  simp only [beWordsValue, h8] at a b c
  exact ⟨_, h1, a, b, c⟩

private def fitsSome (fmts : List MacFmt) (padOf : Nat → Option Nat) (width : Nat) (d : Dialect) : Bool :=
  fmts.any (fun f => match padOf f.groups with
    | some p => fits d f p width
    | none => false)

private theorem builtin48_fit : ∀ d ∈ macDialects, fitsSome macFormats pad48 48 d = true := by decide
private theorem builtin64_fit : ∀ d ∈ eui64Dialects, fitsSome eui64Formats pad64 64 d = true := by decide

private theorem fitsSome_elim {fmts padOf width d} (h : fitsSome fmts padOf width d = true) :
    ∃ f ∈ fmts, ∃ p, fits d f p width = true := by
  unfold fitsSome at h
  rw [List.any_eq_true] at h
  obtain ⟨f, hf, hm⟩ := h
  cases hp : padOf f.groups with
  | none => rw [hp] at hm; cases hm
  | some p => rw [hp] at hm; exact ⟨f, hf, p, hm⟩

/-- **round trip for every built-in EUI-48 dialect** (mac_eui48, mac_unix, mac_unix_expanded,
    mac_cisco, mac_bare, mac_pgsql — as generated from the source): the printed text of every
    value parses back, with implicit or explicit version, to the same value and version 48 -/
theorem roundtrip48 (d : Dialect) (hd : d ∈ macDialects) (v : Nat) (hv : v < 2 ^ 48) :
    ∃ s, intToStr d v = .ok s ∧ ofAny (.str s) none = .ok (48, v) ∧ ofAny (.str s) (some 48) = .ok (48, v) := by
  obtain ⟨f, hf, p, hfit⟩ := fitsSome_elim (builtin48_fit d hd)
  obtain ⟨s, a, _, b, c⟩ := roundtrip_fit48 d f p hf hfit v hv
  exact ⟨s, a, b, c⟩

/-- **round trip for every built-in EUI-64 dialect** (eui64_base, eui64_unix,
    eui64_unix_expanded, eui64_cisco, eui64_bare) -/
theorem roundtrip64 (d : Dialect) (hd : d ∈ eui64Dialects) (v : Nat) (hv : v < 2 ^ 64) :
    ∃ s, intToStr d v = .ok s ∧ ofAny (.str s) none = .ok (64, v) ∧ ofAny (.str s) (some 64) = .ok (64, v) := by
  obtain ⟨f, hf, p, hfit⟩ := fitsSome_elim (builtin64_fit d hd)
  obtain ⟨s, a, _, b, c⟩ := roundtrip_fit64 d f p hf hfit v hv
  exact ⟨s, a, b, c⟩

example : intToStr ⟨"mac_pgsql", 24, 2, [':'], 6, false⟩ 0x001b774954fd = .ok "001b77:4954fd".toList := by rfl
example : (⟨"mac_pgsql", 24, 2, [':'], 6, false⟩ : Dialect) ∈ macDialects := by decide

/-- integers: implicit version 48 up to 2^48-1, 64 up to 2^64-1, otherwise rejected; explicit
    version: exactly the range of that version -/
theorem ofAny_int (n : Nat) :
    (n < 2 ^ 48 → ofAny (.int n) none = .ok (48, n)) ∧
    (2 ^ 48 ≤ n → n < 2 ^ 64 → ofAny (.int n) none = .ok (64, n)) ∧
    (2 ^ 64 ≤ n → ofAny (.int n) none = .error .type_) ∧
    (n < 2 ^ 48 → ofAny (.int n) (some 48) = .ok (48, n)) ∧
    (2 ^ 48 ≤ n → ofAny (.int n) (some 48) = .error .addrFormat) ∧
    (n < 2 ^ 64 → ofAny (.int n) (some 64) = .ok (64, n)) ∧
    (2 ^ 64 ≤ n → ofAny (.int n) (some 64) = .error .addrFormat) := by
  have m48 : Eui.maxInt 48 = 2 ^ 48 - 1 := by decide
  have m64 : Eui.maxInt 64 = 2 ^ 64 - 1 := by decide
  have key : ofAny (.int n) none =
      if (0 : Int) ≤ (n : Int) ∧ (n : Int) ≤ 0xffffffffffff then setExplicit 48 (.int n)
      else if (0xffffffffffff : Int) < (n : Int) ∧ (n : Int) ≤ 0xffffffffffffffff then setExplicit 64 (.int n)
      else .error .type_ := rfl
  refine ⟨?_, ?_, ?_, ?_, ?_, ?_, ?_⟩
  · intro h
    rw [key, if_pos (by omega), setExplicit_int, m48, if_pos (by omega)]
  · intro h1 h2
    rw [key, if_neg (by omega), if_pos (by omega), setExplicit_int, m64, if_pos (by omega)]
  · intro h
    rw [key, if_neg (by omega), if_neg (by omega)]
  · intro h
    rw [ofAny_some48, setExplicit_int, m48, if_pos (by omega)]
  · intro h
    rw [ofAny_some48, setExplicit_int, m48, if_neg (by omega)]
  · intro h
    rw [ofAny_some64, setExplicit_int, m64, if_pos (by omega)]
  · intro h
    rw [ofAny_some64, setExplicit_int, m64, if_neg (by omega)]

/-! ## value-level accessors -/

/-- `words`, `packed`, `bits()`, `bits(sep)` of an EUI do not involve the object's dialect at
    all (the model functions have no dialect argument; the harness varies the dialect on the
    implementation side): they are the C15 codecs with octet words — `words` the big-endian
    octets, `packed` the big-endian bytes, `bits(sep)` the zero-padded octets joined by any
    separator string, `bits()` joined by '-'. (`ei` is in `oui_ei_split`.) -/
theorem accessors_dialect_free (v : Nat) :
    (Eui.words 48 v = intToWords v 8 6 ∧ Eui.words 64 v = intToWords v 8 8) ∧
    (v < 2 ^ 48 → Eui.packed 48 v = .ok (beBytes 6 v)) ∧ (v < 2 ^ 64 → Eui.packed 64 v = .ok (beBytes 8 v)) ∧
    (∀ sep, Eui.bits 48 v (some sep) = intToBits v 8 6 sep ∧ Eui.bits 64 v (some sep) = intToBits v 8 8 sep) ∧
    (Eui.bits 48 v none = intToBits v 8 6 ['-'] ∧ Eui.bits 64 v none = intToBits v 8 8 ['-']) := by
  refine ⟨⟨rfl, rfl⟩, ?_, ?_, fun sep => ⟨rfl, rfl⟩, ⟨rfl, rfl⟩⟩
  · intro h; exact (C15.e48_intToPacked_spec v).1 h
  · intro h; exact (C15.e64_intToPacked_spec v).1 h

/-- no EUI-64 pattern has the group count and digit counts of an EUI-48 pattern either -/
private theorem cross' : ∀ g ∈ eui64Formats, ∀ f ∈ macFormats, g.groups = f.groups → g.hi < f.lo ∨ f.hi < g.lo := by
  decide

/-- with an explicit version, a spelling of the other family is rejected (AddrFormatError) -/
theorem spellings_other_version (c : Char) (toks : List (List Char)) (h : Spelling c toks) :
    (∀ f ∈ eui64Formats, (f.sep = [c] ∨ (f.sep = [] ∧ toks.length = 1)) → f.groups = toks.length →
      (∀ t ∈ toks, f.lo ≤ t.length ∧ t.length ≤ f.hi) →
      ofAny (.str ([c].intercalate toks)) (some 48) = .error .addrFormat) ∧
    (∀ f ∈ macFormats, (f.sep = [c] ∨ (f.sep = [] ∧ toks.length = 1)) → f.groups = toks.length →
      (∀ t ∈ toks, f.lo ≤ t.length ∧ t.length ≤ f.hi) →
      ofAny (.str ([c].intercalate toks)) (some 64) = .error .addrFormat) := by
  constructor
  · intro f hf hsep hg hl
    obtain ⟨_, _, _, _, hno, _, _⟩ := spellings64 f hf c toks h hsep hg hl
    rw [ofAny_some48]
    simp only [setExplicit, strToInt, if_true, hno]
  · intro f hf hsep hg hl
    have hnone := parse_none eui64Formats eui64_fmts_ok c toks h (by
      intro g hgm ⟨hgg, hgl⟩
      match toks, h.ne with
      | t :: r, _ =>
        have a := hgl t (by simp)
        have b := hl t (by simp)
        rcases cross' g hgm f hf (by rw [hgg, hg]) with x | x <;> omega)
    have hno : strToInt64 ([c].intercalate toks) = .error .addrFormat := by rw [strToInt64_eq, hnone]
    rw [ofAny_some64]
    simp only [setExplicit, strToInt, show ¬ (64 = 48) by decide, if_false, hno]

end NV.C08
