import NetaddrVerif.Model.Eui
namespace NV.C08
open NV.Eui

theorem placeholder : key 48 5 = [48, 5] := rfl

end NV.C08
