/-
Props/C07.lean — property C07 "IPSet algebra and queries agree with plain set theory on
addresses".  Property theorems only; lemmas in Lemmas/IPSetL1..L10, IPSetDiff1..5.
-/
import NetaddrVerif.Lemmas.IPSetL10
import NetaddrVerif.Lemmas.IPSetDiff5
import NetaddrVerif.Lemmas.IPSetL10b
import NetaddrVerif.Lemmas.IPSetQ4
namespace NV.C07
open NV NV.IPSet

/-- membership: `ip in ipset` (address or network, host bits allowed) is True exactly when
    every address of the argument is denoted by the set -/
theorem contains_iff (s : St) (hs : Inv s) (n : Net) (hn : n.WF) :
    contains s n = true ↔ ∀ a, n.first ≤ a → a ≤ n.last → denS s n.ver a :=
  IPSet.contains_iff s hs n hn

/-- `issubset` / `<=`: every address of `s` is in `t` -/
theorem issubset_iff (s t : St) (hs : Inv s) (ht : Inv t) :
    issubset s t = true ↔ ∀ ver a, denS s ver a → denS t ver a := IPSet.issubset_iff s t hs ht

/-- `issuperset` / `>=` -/
theorem issuperset_iff (s t : St) (hs : Inv s) (ht : Inv t) :
    issuperset s t = true ↔ ∀ ver a, denS t ver a → denS s ver a := IPSet.issuperset_iff s t hs ht

/-- `A & B` (`intersection`): for canonical operands the result is canonical and contains
    exactly the addresses common to both — for every pair of sets, any mix of families -/
theorem intersection_spec (s t : St) (hs : Inv s) (ht : Inv t) :
    Inv (intersection s t) ∧
    ∀ ver a, denS (intersection s t) ver a ↔ denS s ver a ∧ denS t ver a :=
  IPSet.intersection_spec s t hs ht

/-- `A | B` (`union`) and `update(B)` -/
theorem union_spec (s t : St) (hs : Inv s) (ht : Inv t) :
    Inv (union s t) ∧ ∀ u a, denS (union s t) u a ↔ denS s u a ∨ denS t u a := IPSet.union_spec s t hs ht

/-- `A - B` (`difference`): for canonical operands (any mix of families) the result is
    canonical and contains exactly the addresses of `A` that are not in `B`.  Covers the
    two-cursor sweep, `_subtract` (gaps before, between and after the subtracted blocks),
    `_iter_merged_ranges`, `iprange_to_cidrs` on every merged range, and the fact that whole
    kept blocks and the blocks of the ranges never form a combinable pair. -/
theorem difference_spec (s t : St) (hs : Inv s) (ht : Inv t) :
    Inv (difference s t) ∧ ∀ ver a, denS (difference s t) ver a ↔ denS s ver a ∧ ¬ denS t ver a :=
  IPSet.difference_spec s t hs ht

/-- `A ^ B` (`symmetric_difference`): for canonical operands the result is canonical and
    contains exactly the addresses that are in one operand and not in the other -/
theorem symmetric_difference_spec (s t : St) (hs : Inv s) (ht : Inv t) :
    Inv (symmetricDifference s t) ∧
    ∀ ver a, denS (symmetricDifference s t) ver a ↔
      (denS s ver a ∧ ¬ denS t ver a) ∨ (denS t ver a ∧ ¬ denS s ver a) :=
  IPSet.symmetricDifference_spec s t hs ht

/-- a concrete instance of the hypotheses, and what the two theorems say about it:
    10.0.0.0/24 minus (and also xor) 10.0.0.128/25 keeps 10.0.0.1 and drops 10.0.0.129 -/
example : Inv (newOfNet ⟨4, 0x0a000005, 24⟩) ∧ Inv (newOfNet ⟨4, 0x0a000080, 25⟩) :=
  ⟨(newOfNet_spec _ (by simp [Net.WF, width])).1, (newOfNet_spec _ (by simp [Net.WF, width])).1⟩
example : denS (difference (newOfNet ⟨4, 0x0a000005, 24⟩) (newOfNet ⟨4, 0x0a000080, 25⟩)) 4 0x0a000001 ∧
    ¬ denS (difference (newOfNet ⟨4, 0x0a000005, 24⟩) (newOfNet ⟨4, 0x0a000080, 25⟩)) 4 0x0a000081 := by
  have hA := newOfNet_spec ⟨4, 0x0a000005, 24⟩ (by simp [Net.WF, width])
  have hB := newOfNet_spec ⟨4, 0x0a000080, 25⟩ (by simp [Net.WF, width])
  have hD := (difference_spec _ _ hA.1 hB.1).2
  rw [hD, hD, hA.2, hA.2, hB.2, hB.2]
  unfold argDen
  decide +kernel
example : denS (symmetricDifference (newOfNet ⟨4, 0x0a000005, 24⟩) (newOfNet ⟨4, 0x0a000080, 25⟩)) 4 0x0a000001 ∧
    ¬ denS (symmetricDifference (newOfNet ⟨4, 0x0a000005, 24⟩) (newOfNet ⟨4, 0x0a000080, 25⟩)) 4 0x0a000081 := by
  have hA := newOfNet_spec ⟨4, 0x0a000005, 24⟩ (by simp [Net.WF, width])
  have hB := newOfNet_spec ⟨4, 0x0a000080, 25⟩ (by simp [Net.WF, width])
  have hD := (symmetric_difference_spec _ _ hA.1 hB.1).2
  rw [hD, hD, hA.2, hA.2, hB.2, hB.2]
  unfold argDen
  decide +kernel

/-- `isdisjoint` -/
theorem isdisjoint_iff (s t : St) (hs : Inv s) (ht : Inv t) :
    isdisjoint s t = true ↔ ∀ ver a, ¬ (denS s ver a ∧ denS t ver a) := IPSet.isdisjoint_iff s t hs ht

/-- iteration order: `iter_cidrs()` (hence `__iter__`, `repr`) ascends by address with IPv4
    before IPv6 (`lin` places the IPv6 space after the IPv4 space) -/
theorem iter_order (s : St) (hs : Inv s) :
    ((iterCidrs s).map lin).Pairwise (fun b c => b.base < c.base) := (canon_shown s hs).sorted

example : contains [⟨4, 0x0a000000, 24⟩] ⟨4, 0x0a000005, 32⟩ = true := by decide +kernel
example : contains [⟨4, 0x0a000000, 24⟩] ⟨4, 0x0a000005, 23⟩ = false := by decide +kernel

/-! ### queries: iter_ipranges / iscontiguous / iprange / size / len / < / > -/

/-- `iter_ipranges()` is, per family, the interval normal form of the set: every range is
    valid and of a real family, the list ascends with IPv4 before IPv6, any two ranges of one
    family are separated by a gap (so none can be merged), and the ranges cover exactly the
    denoted addresses -/
theorem iter_ipranges_spec (s : St) (hs : Inv s) :
    (∀ r ∈ iterIpranges s, (r.1 = 4 ∨ r.1 = 6) ∧ r.2.1 ≤ r.2.2) ∧
    (iterIpranges s).Pairwise (fun x y => x.1 < y.1 ∨ (x.1 = y.1 ∧ x.2.2 + 1 < y.2.1)) ∧
    (∀ ver a, (∃ r ∈ iterIpranges s, r.1 = ver ∧ r.2.1 ≤ a ∧ a ≤ r.2.2) ↔ denS s ver a) := by
  obtain ⟨i1, i2, i3⟩ := IPSet.iterIpranges_spec s hs
  exact ⟨fun r hr => ⟨iterIpranges_ver s hs r hr, i1 r hr⟩, i2, i3⟩

/-- the ranges are determined by the denoted addresses alone -/
theorem iter_ipranges_unique (s t : St) (hs : Inv s) (ht : Inv t)
    (h : ∀ ver a, denS s ver a ↔ denS t ver a) : iterIpranges s = iterIpranges t :=
  IPSet.iterIpranges_unique s t hs ht h

/-- `iscontiguous()` is True exactly when `iter_ipranges()` yields at most one range
    (no canonicity needed: this is a fact about the two loops) -/
theorem iscontiguous_iff_ranges (s : St) : iscontiguous s = true ↔ (iterIpranges s).length ≤ 1 :=
  IPSet.iscontiguous_iff_len s

/-- `iscontiguous()`: the set is empty or exactly one interval of one family; in particular a
    set with addresses of both families is not contiguous -/
theorem iscontiguous_iff (s : St) (hs : Inv s) :
    iscontiguous s = true ↔
      (∀ ver a, ¬ denS s ver a) ∨
      ∃ v lo hi, lo ≤ hi ∧ ∀ u a, denS s u a ↔ u = v ∧ lo ≤ a ∧ a ≤ hi :=
  IPSet.iscontiguous_iff s hs

/-- `iprange()` returns None exactly for the empty set -/
theorem iprange_none_iff (s : St) (hs : Inv s) : iprange s = .ok none ↔ ∀ ver a, ¬ denS s ver a :=
  IPSet.iprange_none_iff s hs

/-- `iprange()` returns `r` exactly when the set is the non-empty interval `[r.lo, r.hi]` of
    family `r.ver` -/
theorem iprange_some_iff (s : St) (hs : Inv s) (r : Rng) :
    iprange s = .ok (some r) ↔
      r.lo ≤ r.hi ∧ ∀ u a, denS s u a ↔ u = r.ver ∧ r.lo ≤ a ∧ a ≤ r.hi :=
  IPSet.iprange_some_iff s hs r

/-- `iprange()` raises exactly when the set is not contiguous, and then it is ValueError —
    never any other error (no IndexError at the top address, no error for mixed families) -/
theorem iprange_error_iff (s : St) (e : Err) :
    iprange s = .error e ↔ e = .value ∧ iscontiguous s = false := IPSet.iprange_error_iff s e

/-- the three outcomes of `iprange()`, read off `iter_ipranges()`: no range → None, one range →
    that range, two or more → ValueError -/
theorem iprange_by_ranges (s : St) :
    iprange s = match iterIpranges s with
      | [] => .ok none
      | [r] => .ok (some ⟨r.1, r.2.1, r.2.2⟩)
      | _ :: _ :: _ => .error .value := IPSet.iprange_eq s

/-- `size` is the number of addresses: the sum of the lengths of the merged ranges -/
theorem size_eq_ranges (s : St) (hs : Inv s) :
    size s = ((iterIpranges s).map (fun r => r.2.2 - r.2.1 + 1)).sum := by
  rw [IPSet.size_eq_ranges s hs, vrSum_eq_sum]

/-- `size` depends on the denoted addresses only -/
theorem size_unique (s t : St) (hs : Inv s) (ht : Inv t)
    (h : ∀ ver a, denS s ver a ↔ denS t ver a) : size s = size t := IPSet.size_unique s t hs ht h

/-- `len()`: IndexError exactly above `sys.maxsize`, else the size; nothing else -/
theorem len_spec (maxint : Nat) (s : St) :
    (len maxint s = .error .index ↔ size s > maxint) ∧
    (¬ size s > maxint → len maxint s = .ok (size s)) ∧
    (len maxint s = .error .index ∨ len maxint s = .ok (size s)) := IPSet.len_spec maxint s

/-- inclusion bounds the sizes … -/
theorem size_mono (s t : St) (hs : Inv s) (ht : Inv t)
    (h : ∀ ver a, denS s ver a → denS t ver a) : size s ≤ size t := size_le_of_sub s t hs ht h

/-- … with equality exactly for equal sets -/
theorem size_eq_iff_of_sub (s t : St) (hs : Inv s) (ht : Inv t)
    (h : ∀ ver a, denS s ver a → denS t ver a) :
    size s = size t ↔ ∀ ver a, denS s ver a ↔ denS t ver a :=
  ⟨fun he ver a => ⟨h ver a, sup_of_sub_of_size_eq s t hs ht h he ver a⟩,
   fun hd => IPSet.size_unique s t hs ht hd⟩

/-- `s < t`: strict inclusion of the address sets -/
theorem lt_iff (s t : St) (hs : Inv s) (ht : Inv t) :
    lt s t = true ↔
      (∀ ver a, denS s ver a → denS t ver a) ∧ ¬ (∀ ver a, denS t ver a → denS s ver a) :=
  IPSet.lt_iff s t hs ht

/-- `s > t`: strict inclusion the other way round -/
theorem gt_iff (s t : St) (hs : Inv s) (ht : Inv t) :
    gt s t = true ↔
      (∀ ver a, denS t ver a → denS s ver a) ∧ ¬ (∀ ver a, denS s ver a → denS t ver a) :=
  IPSet.lt_iff t s ht hs

/-! ### concrete instances -/

/-- a canonical mixed-family state: two adjacent but not combinable IPv4 blocks
    (10.0.1.0/24, 10.0.2.0/24), a separate one (10.0.4.0/24) and ::1/128 -/
def exS : St := [⟨4, 0x0a000100, 24⟩, ⟨4, 0x0a000200, 24⟩, ⟨4, 0x0a000400, 24⟩, ⟨6, 1, 128⟩]

/-- it is reachable through `add` from the empty set, hence satisfies the hypotheses -/
theorem exS_inv : Inv exS := by
  have e : exS = add (add (add (add [] (.net ⟨4, 0x0a000100, 24⟩)) (.net ⟨4, 0x0a000200, 24⟩))
      (.net ⟨4, 0x0a000400, 24⟩)) (.net ⟨6, 1, 128⟩) := by decide +kernel
  rw [e]
  have ok : ∀ n : Net, (n.ver = 4 ∨ n.ver = 6) → n.val < 2 ^ width n.ver → n.plen ≤ width n.ver →
      ArgOK (.net n) := fun n a b c => ⟨a, b, c⟩
  have h1 := (add_spec [] inv_nil (.net ⟨4, 0x0a000100, 24⟩) (ok _ (by decide) (by decide) (by decide))).1
  have h2 := (add_spec _ h1 (.net ⟨4, 0x0a000200, 24⟩) (ok _ (by decide) (by decide) (by decide))).1
  have h3 := (add_spec _ h2 (.net ⟨4, 0x0a000400, 24⟩) (ok _ (by decide) (by decide) (by decide))).1
  exact (add_spec _ h3 (.net ⟨6, 1, 128⟩) (ok _ (by decide) (by decide) (by decide))).1

example : iterIpranges exS = [(4, 0x0a000100, 0x0a0002ff), (4, 0x0a000400, 0x0a0004ff), (6, 1, 1)] := by
  rw [iterIpranges, iterCidrs_sorted _ (by decide +kernel)]; decide +kernel
example : iscontiguous exS = false := by
  rw [iscontiguous, iterCidrs_sorted _ (by decide +kernel)]; decide +kernel
example : iprange exS = .error .value := by
  rw [iprange, iscontiguous, iterCidrs_sorted _ (by decide +kernel)]; decide +kernel
example : iprange [⟨4, 0x0a000100, 24⟩, ⟨4, 0x0a000200, 24⟩] = .ok (some ⟨4, 0x0a000100, 0x0a0002ff⟩) := by
  rw [iprange, iscontiguous, iterCidrs_sorted _ (by decide +kernel)]; decide +kernel
/-- the top address: no IndexError -/
example : iprange [⟨4, 0xffffffff, 32⟩] = .ok (some ⟨4, 0xffffffff, 0xffffffff⟩) := by decide +kernel
/-- both families, numerically "adjacent" ends: not contiguous -/
example : iprange [⟨4, 0xffffffff, 32⟩, ⟨6, 0, 128⟩] = .error .value := by
  rw [iprange, iscontiguous, iterCidrs_sorted _ (by decide +kernel)]; decide +kernel
example : iprange [] = .ok none := by decide +kernel
example : size exS = 769 := by decide +kernel
example : len (2 ^ 63 - 1) [⟨6, 0, 64⟩] = .error .index := by decide +kernel
example : len (2 ^ 63 - 1) exS = .ok 769 := by decide +kernel
example : lt [⟨4, 0x0a000200, 24⟩] exS = true := by decide +kernel
example : lt exS exS = false := by decide +kernel
example : gt [⟨4, 0x0a000200, 23⟩] [⟨4, 0x0a000200, 24⟩] = true := by decide +kernel
/-- fewer addresses but not a subset: not `<` -/
example : lt [⟨4, 0x0a000200, 24⟩] [⟨4, 0x0a000400, 24⟩, ⟨6, 1, 128⟩] = false := by decide +kernel

end NV.C07
