/-
Props/C07.lean — property C07 "IPSet algebra and queries agree with plain set theory on
addresses".  Property theorems only; lemmas in Lemmas/IPSetL1..L10, IPSetDiff1..5.
-/
import NetaddrVerif.Lemmas.IPSetL10
import NetaddrVerif.Lemmas.IPSetDiff5
namespace NV.C07
open NV NV.IPSet

/-- membership: `ip in ipset` (address or network, host bits allowed) is True exactly when
    every address of the argument is denoted by the set -/
theorem contains_iff (s : St) (hs : Inv s) (n : Net) (hn : n.WF) :
    contains s n = true ↔ ∀ a, n.first ≤ a → a ≤ n.last → denS s n.ver a :=
  IPSet.contains_iff s hs n hn

/-- `issubset` / `<=`: every address of `s` is in `t` -/
theorem issubset_iff (s t : St) (hs : Inv s) (ht : Inv t) :
    issubset s t = true ↔ ∀ ver a, denS s ver a → denS t ver a := IPSet.issubset_iff s t hs ht

/-- `issuperset` / `>=` -/
theorem issuperset_iff (s t : St) (hs : Inv s) (ht : Inv t) :
    issuperset s t = true ↔ ∀ ver a, denS t ver a → denS s ver a := IPSet.issuperset_iff s t hs ht

/-- `A & B` (`intersection`): for canonical operands the result is canonical and contains
    exactly the addresses common to both — for every pair of sets, any mix of families -/
theorem intersection_spec (s t : St) (hs : Inv s) (ht : Inv t) :
    Inv (intersection s t) ∧
    ∀ ver a, denS (intersection s t) ver a ↔ denS s ver a ∧ denS t ver a :=
  IPSet.intersection_spec s t hs ht

/-- `A | B` (`union`) and `update(B)` -/
theorem union_spec (s t : St) (hs : Inv s) (ht : Inv t) :
    Inv (union s t) ∧ ∀ u a, denS (union s t) u a ↔ denS s u a ∨ denS t u a := IPSet.union_spec s t hs ht

/-- `A - B` (`difference`): for canonical operands (any mix of families) the result is
    canonical and contains exactly the addresses of `A` that are not in `B`.  Covers the
    two-cursor sweep, `_subtract` (gaps before, between and after the subtracted blocks),
    `_iter_merged_ranges`, `iprange_to_cidrs` on every merged range, and the fact that whole
    kept blocks and the blocks of the ranges never form a combinable pair. -/
theorem difference_spec (s t : St) (hs : Inv s) (ht : Inv t) :
    Inv (difference s t) ∧ ∀ ver a, denS (difference s t) ver a ↔ denS s ver a ∧ ¬ denS t ver a :=
  IPSet.difference_spec s t hs ht

/-- `A ^ B` (`symmetric_difference`): for canonical operands the result is canonical and
    contains exactly the addresses that are in one operand and not in the other -/
theorem symmetric_difference_spec (s t : St) (hs : Inv s) (ht : Inv t) :
    Inv (symmetricDifference s t) ∧
    ∀ ver a, denS (symmetricDifference s t) ver a ↔
      (denS s ver a ∧ ¬ denS t ver a) ∨ (denS t ver a ∧ ¬ denS s ver a) :=
  IPSet.symmetricDifference_spec s t hs ht

/-- a concrete instance of the hypotheses, and what the two theorems say about it:
    10.0.0.0/24 minus (and also xor) 10.0.0.128/25 keeps 10.0.0.1 and drops 10.0.0.129 -/
example : Inv (newOfNet ⟨4, 0x0a000005, 24⟩) ∧ Inv (newOfNet ⟨4, 0x0a000080, 25⟩) :=
  ⟨(newOfNet_spec _ (by simp [Net.WF, width])).1, (newOfNet_spec _ (by simp [Net.WF, width])).1⟩
example : denS (difference (newOfNet ⟨4, 0x0a000005, 24⟩) (newOfNet ⟨4, 0x0a000080, 25⟩)) 4 0x0a000001 ∧
    ¬ denS (difference (newOfNet ⟨4, 0x0a000005, 24⟩) (newOfNet ⟨4, 0x0a000080, 25⟩)) 4 0x0a000081 := by
  have hA := newOfNet_spec ⟨4, 0x0a000005, 24⟩ (by simp [Net.WF, width])
  have hB := newOfNet_spec ⟨4, 0x0a000080, 25⟩ (by simp [Net.WF, width])
  have hD := (difference_spec _ _ hA.1 hB.1).2
  rw [hD, hD, hA.2, hA.2, hB.2, hB.2]
  unfold argDen
  decide +kernel
example : denS (symmetricDifference (newOfNet ⟨4, 0x0a000005, 24⟩) (newOfNet ⟨4, 0x0a000080, 25⟩)) 4 0x0a000001 ∧
    ¬ denS (symmetricDifference (newOfNet ⟨4, 0x0a000005, 24⟩) (newOfNet ⟨4, 0x0a000080, 25⟩)) 4 0x0a000081 := by
  have hA := newOfNet_spec ⟨4, 0x0a000005, 24⟩ (by simp [Net.WF, width])
  have hB := newOfNet_spec ⟨4, 0x0a000080, 25⟩ (by simp [Net.WF, width])
  have hD := (symmetric_difference_spec _ _ hA.1 hB.1).2
  rw [hD, hD, hA.2, hA.2, hB.2, hB.2]
  unfold argDen
  decide +kernel

/-- `isdisjoint` -/
theorem isdisjoint_iff (s t : St) (hs : Inv s) (ht : Inv t) :
    isdisjoint s t = true ↔ ∀ ver a, ¬ (denS s ver a ∧ denS t ver a) := IPSet.isdisjoint_iff s t hs ht

/-- iteration order: `iter_cidrs()` (hence `__iter__`, `repr`) ascends by address with IPv4
    before IPv6 (`lin` places the IPv6 space after the IPv4 space) -/
theorem iter_order (s : St) (hs : Inv s) :
    ((iterCidrs s).map lin).Pairwise (fun b c => b.base < c.base) := (canon_shown s hs).sorted

example : contains [⟨4, 0x0a000000, 24⟩] ⟨4, 0x0a000005, 32⟩ = true := by decide +kernel
example : contains [⟨4, 0x0a000000, 24⟩] ⟨4, 0x0a000005, 23⟩ = false := by decide +kernel

end NV.C07
