import NetaddrVerif.Model.IPSet
namespace NV.C07
end NV.C07
