/-
Props/C07.lean — property C07 "IPSet algebra and queries agree with plain set theory on
addresses".  Property theorems only; lemmas in Lemmas/IPSetL1..L5.
-/
import NetaddrVerif.Lemmas.IPSetL5
namespace NV.C07
open NV NV.IPSet

/-- membership: `ip in ipset` (address or network, host bits allowed) is True exactly when
    every address of the argument is denoted by the set -/
theorem contains_iff (s : St) (hs : Inv s) (n : Net) (hn : n.WF) :
    contains s n = true ↔ ∀ a, n.first ≤ a → a ≤ n.last → denS s n.ver a :=
  IPSet.contains_iff s hs n hn

example : contains [⟨4, 0x0a000000, 24⟩] ⟨4, 0x0a000005, 32⟩ = true := by decide +kernel
example : contains [⟨4, 0x0a000000, 24⟩] ⟨4, 0x0a000005, 23⟩ = false := by decide +kernel

end NV.C07
