/-
Props/C07.lean — property C07 "IPSet algebra and queries agree with plain set theory on
addresses".  Property theorems only; lemmas in Lemmas/IPSetL1..L5.
-/
import NetaddrVerif.Lemmas.IPSetL10
namespace NV.C07
open NV NV.IPSet

/-- membership: `ip in ipset` (address or network, host bits allowed) is True exactly when
    every address of the argument is denoted by the set -/
theorem contains_iff (s : St) (hs : Inv s) (n : Net) (hn : n.WF) :
    contains s n = true ↔ ∀ a, n.first ≤ a → a ≤ n.last → denS s n.ver a :=
  IPSet.contains_iff s hs n hn

/-- `issubset` / `<=`: every address of `s` is in `t` -/
theorem issubset_iff (s t : St) (hs : Inv s) (ht : Inv t) :
    issubset s t = true ↔ ∀ ver a, denS s ver a → denS t ver a := IPSet.issubset_iff s t hs ht

/-- `issuperset` / `>=` -/
theorem issuperset_iff (s t : St) (hs : Inv s) (ht : Inv t) :
    issuperset s t = true ↔ ∀ ver a, denS t ver a → denS s ver a := IPSet.issuperset_iff s t hs ht

/-- `A & B` (`intersection`): for canonical operands the result is canonical and contains
    exactly the addresses common to both — for every pair of sets, any mix of families -/
theorem intersection_spec (s t : St) (hs : Inv s) (ht : Inv t) :
    Inv (intersection s t) ∧
    ∀ ver a, denS (intersection s t) ver a ↔ denS s ver a ∧ denS t ver a :=
  IPSet.intersection_spec s t hs ht

/-- `A | B` (`union`) and `update(B)` -/
theorem union_spec (s t : St) (hs : Inv s) (ht : Inv t) :
    Inv (union s t) ∧ ∀ u a, denS (union s t) u a ↔ denS s u a ∨ denS t u a := IPSet.union_spec s t hs ht

/-- `isdisjoint` -/
theorem isdisjoint_iff (s t : St) (hs : Inv s) (ht : Inv t) :
    isdisjoint s t = true ↔ ∀ ver a, ¬ (denS s ver a ∧ denS t ver a) := IPSet.isdisjoint_iff s t hs ht

/-- iteration order: `iter_cidrs()` (hence `__iter__`, `repr`) ascends by address with IPv4
    before IPv6 (`lin` places the IPv6 space after the IPv4 space) -/
theorem iter_order (s : St) (hs : Inv s) :
    ((iterCidrs s).map lin).Pairwise (fun b c => b.base < c.base) := (canon_shown s hs).sorted

example : contains [⟨4, 0x0a000000, 24⟩] ⟨4, 0x0a000005, 32⟩ = true := by decide +kernel
example : contains [⟨4, 0x0a000000, 24⟩] ⟨4, 0x0a000005, 23⟩ = false := by decide +kernel

end NV.C07
