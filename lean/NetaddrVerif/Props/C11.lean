/-
Props/C11.lean — property C11 "Subnetting, supernetting and stepping follow CIDR arithmetic".
Property theorems only; helper lemmas are in Lemmas/C11L, NetworkL.

Statement (properties.jsonl): for every network N=/p and target prefix q: subnet(q) yields, in
ascending order, exactly the 2^(q-p) aligned /q blocks that tile N (the first `count` of them when
count is given, ValueError when count is out of range, nothing when q<p); supernet(q) for q<=p
lists exactly the blocks /q../(p-1) that contain N, outermost first, each host-bit-free.
next(k)/previous(k) and N+=k / N-=k give the aligned block k block-sizes above/below N's network
address with the same prefix, raising IndexError instead of leaving the address space, and
iter_hosts() yields first+1..last-1 for IPv4 blocks of 4 or more addresses, every address of
IPv4 /31 and /32, and first+1..last for IPv6 (nothing for /128).

Notation: `w = width n.ver`, `S = 2^(w-p)` the block size, `F = n.val / S * S` the network
address, `T = 2^(w-q)` the size of a /q block.
-/
import NetaddrVerif.Lemmas.C11L
namespace NV.C11
open NV NV.Subnet

/-! ### subnet -/

/-- the `i`-th /q block inside `n` -/
def sub (n : Net) (q i : Nat) : Net :=
  ⟨n.ver, n.val / 2 ^ (width n.ver - n.plen) * 2 ^ (width n.ver - n.plen) + 2 ^ (width n.ver - q) * i, q⟩

theorem subnetItem_ok (n : Net) (hn : n.WF) (q : Nat) (hpq : n.plen ≤ q) (hq : q ≤ width n.ver)
    (i : Nat) (hi : i < 2 ^ (q - n.plen)) : subnetItem n q i = .ok (sub n q i) := by
  obtain ⟨_, hv, hp⟩ := hn
  have hF := first_lt (width n.ver) n.val n.plen hv
  unfold subnetItem
  have h1 : ¬ q > width n.ver := by omega
  simp only [h1, ite_false, netSize_eq _ _ q hF]
  rw [netFirst_eq _ _ _ hv]
  have hrun := block_in_run (n.val / 2 ^ (width n.ver - n.plen) * 2 ^ (width n.ver - n.plen))
    (2 ^ (width n.ver - q)) (2 ^ (q - n.plen)) i hi
  have hsplit : 2 ^ (q - n.plen) * 2 ^ (width n.ver - q) = 2 ^ (width n.ver - n.plen) := by
    rw [← Nat.pow_add]; congr 1; omega
  have hblk := block_lt (width n.ver) n.val n.plen hv hp
  have hT := pw (width n.ver - q)
  have : n.val / 2 ^ (width n.ver - n.plen) * 2 ^ (width n.ver - n.plen) + 2 ^ (width n.ver - q) * i
      ≤ maxInt n.ver := by
    unfold maxInt; rw [hsplit] at hrun; omega
  simp only [this, ite_true, sub]

/-- the loop run for any number of turns up to `2^(q-p)` yields that many blocks of the grid -/
theorem loop_all (n : Net) (hn : n.WF) (q : Nat) (hpq : n.plen ≤ q) (hq : q ≤ width n.ver)
    (c : Nat) (hc : c ≤ 2 ^ (q - n.plen)) :
    subnetLoop n q c 0 [] = .ok ((List.range c).map (sub n q)) := by
  rw [subnetLoop_eq n q c (sub n q)
    (fun i hi => subnetItem_ok n hn q hpq hq i (by omega)) _ 0 [] rfl]
  simp [List.range_eq_range']

/-- **subnet, closed form** (as the driver runs it: the generator read through `islice(limit)`).
    * `q < p` (including negative `q`): nothing;
    * `p ≤ q ≤ width`: `ValueError` iff the count (default: all `2^(q-p)`) is outside `1 .. 2^(q-p)`;
      otherwise blocks number `0 .. count-1` of the `/q` grid starting at N's network address,
      in ascending order.
    The `ValueError` clause carries `0 < limit` (added after audit 2b finding 2: the statement
    without it was FALSE of the code at `limit = 0` — `subnet` is a generator, its checks run
    at the first `next()`, and `islice(gen, 0)` never asks; `Subnet.subnetTake` now answers
    `.ok []` there, see `C11A2.subnetTake_zero`).  The other two clauses hold at `limit = 0` as
    they stand (`min count 0 = 0` blocks). -/
theorem subnetTake_spec (n : Net) (hn : n.WF) (q : Int) (count : Option Int) (limit : Nat) :
    (q < n.plen → subnetTake n q count limit = .ok []) ∧
    ((n.plen : Int) ≤ q → q ≤ (width n.ver : Nat) →
      (¬ (1 ≤ count.getD ((2 ^ (q.toNat - n.plen) : Nat) : Int) ∧
          count.getD ((2 ^ (q.toNat - n.plen) : Nat) : Int) ≤ ((2 ^ (q.toNat - n.plen) : Nat) : Int)) →
        0 < limit → subnetTake n q count limit = .error .value) ∧
      (1 ≤ count.getD ((2 ^ (q.toNat - n.plen) : Nat) : Int) ∧
          count.getD ((2 ^ (q.toNat - n.plen) : Nat) : Int) ≤ ((2 ^ (q.toNat - n.plen) : Nat) : Int) →
        subnetTake n q count limit =
          .ok ((List.range (min (count.getD ((2 ^ (q.toNat - n.plen) : Nat) : Int)).toNat limit)).map
            (sub n q.toNat)))) := by
  have hp := hn.2.2
  by_cases h0 : limit = 0
  · subst h0
    unfold subnetTake
    rw [if_pos rfl]
    exact ⟨fun _ => rfl, fun _ _ => ⟨fun _ h => absurd h (Nat.lt_irrefl 0), fun _ => by simp⟩⟩
  unfold subnetTake
  rw [if_neg h0, subnetCount_eq n hp]
  constructor
  · intro hlt; rw [if_pos hlt]
  · intro h1 h2
    have hqn : n.plen ≤ q.toNat := by omega
    have hqw : q.toNat ≤ width n.ver := by omega
    rw [if_neg (by omega), maxSubnets_eq (width n.ver) n.plen q.toNat hqn hqw]
    constructor
    · intro hbad _; rw [if_neg hbad]
    · intro hok
      rw [if_pos hok]
      simp only
      apply loop_all n hn q.toNat hqn hqw
      have : ((count.getD ((2 ^ (q.toNat - n.plen) : Nat) : Int)).toNat : Int) ≤ ((2 ^ (q.toNat - n.plen) : Nat) : Int) := by
        omega
      have : (count.getD ((2 ^ (q.toNat - n.plen) : Nat) : Int)).toNat ≤ 2 ^ (q.toNat - n.plen) := by
        exact_mod_cast this
      omega

/-- **subnet(q)** read to its end (`list(n.subnet(q, count))`): all `2^(q-p)` blocks when no
    count is given, the first `count` when `1 ≤ count ≤ 2^(q-p)`, `ValueError` for every other
    count, nothing for `q < p` -/
theorem subnet_spec (n : Net) (hn : n.WF) (q : Nat) (hpq : n.plen ≤ q) (hq : q ≤ width n.ver) :
    subnet n q none = .ok ((List.range (2 ^ (q - n.plen))).map (sub n q)) ∧
    (∀ c : Int, 1 ≤ c → c ≤ ((2 ^ (q - n.plen) : Nat) : Int) →
      subnet n q (some c) = .ok ((List.range c.toNat).map (sub n q))) ∧
    (∀ c : Int, ¬ (1 ≤ c ∧ c ≤ ((2 ^ (q - n.plen) : Nat) : Int)) → subnet n q (some c) = .error .value) := by
  have hp := hn.2.2
  have hM := pw (q - n.plen)
  have hmax := maxSubnets_eq (width n.ver) n.plen q hpq hq
  refine ⟨?_, ?_, ?_⟩
  · unfold subnet
    rw [subnetCount_eq n hp, if_neg (by omega)]
    simp only [Int.toNat_natCast, hmax, Option.getD_none]
    rw [if_pos ⟨by omega, Int.le_refl _⟩]
    simp only [Int.toNat_natCast]
    exact loop_all n hn q hpq hq _ (Nat.le_refl _)
  · intro c h1 h2
    unfold subnet
    rw [subnetCount_eq n hp, if_neg (by omega)]
    simp only [Int.toNat_natCast, hmax, Option.getD_some]
    rw [if_pos ⟨h1, h2⟩]
    simp only
    apply loop_all n hn q hpq hq
    have : (c.toNat : Int) ≤ ((2 ^ (q - n.plen) : Nat) : Int) := by omega
    exact_mod_cast this
  · intro c hbad
    unfold subnet
    rw [subnetCount_eq n hp, if_neg (by omega)]
    simp only [Int.toNat_natCast, hmax, Option.getD_some]
    rw [if_neg hbad]

theorem subnet_shorter (n : Net) (hn : n.WF) (q : Int) (count : Option Int) (h : q < n.plen) :
    subnet n q count = .ok [] := by
  unfold subnet
  rw [subnetCount_eq n hn.2.2, if_pos h]

/-- **the blocks are aligned /q networks of the family, ascending, and tile N**: block `i` is
    `F + i·T .. F + (i+1)·T - 1`; an address lies in one of the `2^(q-p)` blocks iff it lies in N -/
theorem subnet_tiles (n : Net) (hn : n.WF) (q : Nat) (hpq : n.plen ≤ q) (hq : q ≤ width n.ver) :
    (∀ i, i < 2 ^ (q - n.plen) →
      (sub n q i).WF ∧ (sub n q i).val % 2 ^ (width n.ver - q) = 0 ∧
      (sub n q i).first = (sub n q i).val ∧
      (sub n q i).last + 1 = (sub n q (i + 1)).val) ∧
    (∀ a, (∃ i, i < 2 ^ (q - n.plen) ∧ (sub n q i).first ≤ a ∧ a ≤ (sub n q i).last) ↔
      (n.first ≤ a ∧ a ≤ n.last)) := by
  have hn' := hn
  obtain ⟨hver, hv, hp⟩ := hn
  have hT := pw (width n.ver - q)
  have hS := pw (width n.ver - n.plen)
  have hsplit : 2 ^ (q - n.plen) * 2 ^ (width n.ver - q) = 2 ^ (width n.ver - n.plen) := by
    rw [← Nat.pow_add]; congr 1; omega
  have hblk := block_lt (width n.ver) n.val n.plen hv hp
  -- F is a multiple of T
  have hFT : (n.val / 2 ^ (width n.ver - n.plen) * 2 ^ (width n.ver - n.plen)) % 2 ^ (width n.ver - q) = 0 := by
    rw [← hsplit, ← Nat.mul_assoc]; exact Nat.mul_mod_left _ _
  have hval : ∀ i, (sub n q i).val % 2 ^ (width n.ver - q) = 0 := by
    intro i
    simp only [sub]
    rw [Nat.add_mod, hFT, Nat.mul_mod_right]; simp
  have hlt : ∀ i, i < 2 ^ (q - n.plen) → (sub n q i).val + 2 ^ (width n.ver - q) ≤ 2 ^ width n.ver := by
    intro i hi
    have hrun := block_in_run (n.val / 2 ^ (width n.ver - n.plen) * 2 ^ (width n.ver - n.plen))
      (2 ^ (width n.ver - q)) (2 ^ (q - n.plen)) i hi
    rw [hsplit] at hrun
    simp only [sub]; omega
  have hfirst : ∀ i, i < 2 ^ (q - n.plen) → (sub n q i).first = (sub n q i).val := by
    intro i hi
    have := hlt i hi
    show netFirst (width n.ver) (sub n q i).val q = _
    rw [netFirst_eq _ _ _ (by omega)]
    have hm := hval i
    have := Nat.div_add_mod (sub n q i).val (2 ^ (width n.ver - q))
    rw [hm] at this; rw [Nat.mul_comm]; omega
  have hlast : ∀ i, i < 2 ^ (q - n.plen) → (sub n q i).last + 1 = (sub n q i).val + 2 ^ (width n.ver - q) := by
    intro i hi
    have hf := hfirst i hi
    have := hlt i hi
    show netLast (width n.ver) (sub n q i).val q + 1 = _
    rw [netLast_eq]
    have : netFirst (width n.ver) (sub n q i).val q = (sub n q i).val := hf
    rw [netFirst_eq _ _ _ (by omega)] at this
    rw [this]; omega
  constructor
  · intro i hi
    have := hlt i hi
    refine ⟨⟨hver, by show (sub n q i).val < 2 ^ width n.ver; omega, hq⟩, hval i, hfirst i hi, ?_⟩
    rw [hlast i hi]; simp only [sub]; rw [Nat.mul_succ]; omega
  · intro a
    have hnf : n.first = n.val / 2 ^ (width n.ver - n.plen) * 2 ^ (width n.ver - n.plen) :=
      netFirst_eq _ _ _ hv
    have hnl : n.last + 1 = n.first + 2 ^ (width n.ver - n.plen) := by
      show netLast (width n.ver) n.val n.plen + 1 = _
      rw [netLast_eq, hnf]; omega
    have hrt := run_tiles n.first (2 ^ (width n.ver - q)) (2 ^ (q - n.plen)) a hT
    rw [hsplit] at hrt
    constructor
    · rintro ⟨i, hi, h1, h2⟩
      have := hfirst i hi
      have := hlast i hi
      have hs : (sub n q i).val = n.first + 2 ^ (width n.ver - q) * i := by simp only [sub, hnf]
      have := hrt.1 ⟨i, hi, by omega, by omega⟩
      omega
    · intro h
      obtain ⟨i, hi, h1, h2⟩ := hrt.2 (by omega)
      have := hfirst i hi
      have := hlast i hi
      have hs : (sub n q i).val = n.first + 2 ^ (width n.ver - q) * i := by simp only [sub, hnf]
      exact ⟨i, hi, by omega, by omega⟩

example : subnet ⟨4, 0xAC180005, 23⟩ 25 none =
    .ok [⟨4, 0xAC180000, 25⟩, ⟨4, 0xAC180080, 25⟩, ⟨4, 0xAC180100, 25⟩, ⟨4, 0xAC180180, 25⟩] := by decide +kernel
example : subnet ⟨4, 0xAC180005, 23⟩ 25 (some 5) = .error .value := by decide +kernel
example : subnet ⟨4, 0xAC180005, 23⟩ 22 none = .ok [] := by decide +kernel

/-! ### supernet -/

/-- **supernet(q)**: `ValueError` for `q` outside `0..width`; for `0 ≤ q ≤ p` the list of the
    blocks `/q, /q+1, …, /p-1` around N's value, outermost first, host bits cleared -/
theorem supernet_spec (n : Net) (hn : n.WF) (q : Int) :
    ((q < 0 ∨ (width n.ver : Nat) < q) → supernet n q = .error .value) ∧
    (0 ≤ q → q ≤ n.plen → supernet n q = .ok ((List.range' q.toNat (n.plen - q.toNat)).map
        (fun k => ⟨n.ver, n.val / 2 ^ (width n.ver - k) * 2 ^ (width n.ver - k), k⟩))) := by
  obtain ⟨_, hv, hp⟩ := hn
  constructor
  · intro h
    have : ¬ (0 ≤ q ∧ q ≤ (width n.ver : Nat)) := by omega
    simp [supernet, this]
  · intro h0 hqp
    have hg : (0 ≤ q ∧ q ≤ (width n.ver : Nat)) := by omega
    unfold supernet
    rw [if_neg (fun h => h hg)]
    rw [supernetLoop_le n.ver (width n.ver) _ n.plen _ q.toNat [] rfl (by omega) hp]
    simp only [List.nil_append]
    congr 1
    apply List.map_congr_left
    intro k hk
    have hk2 := List.mem_range'_1.1 hk
    have hkp : k ≤ n.plen := by omega
    have hF := first_lt (width n.ver) n.val n.plen hv
    simp only [netCidr]
    congr 1
    show netFirst (width n.ver) (netFirst (width n.ver) n.val n.plen) k = _
    rw [netFirst_eq _ _ _ hF, netFirst_eq _ _ _ hv, pow_split' (width n.ver) n.plen k hkp hp]
    exact floor_coarse _ _ _ (pw _)

/-- every listed supernet contains N and has no host bits -/
theorem supernet_contains (n : Net) (hn : n.WF) (k : Nat) (hk : k ≤ n.plen) :
    let s : Net := ⟨n.ver, n.val / 2 ^ (width n.ver - k) * 2 ^ (width n.ver - k), k⟩
    s.WF ∧ s.val % 2 ^ (width n.ver - k) = 0 ∧ s.first = s.val ∧ s.first ≤ n.first ∧ n.last ≤ s.last := by
  intro s
  obtain ⟨hver, hv, hp⟩ := hn
  have hB := pw (width n.ver - n.plen)
  have hC := pw (n.plen - k)
  have hsplit := pow_split' (width n.ver) n.plen k hk hp
  have hsv : s.val < 2 ^ width n.ver := Nat.lt_of_le_of_lt (Nat.div_mul_le_self _ _) hv
  have hsf : s.first = s.val := by
    show netFirst (width n.ver) s.val k = _
    rw [netFirst_eq _ _ _ hsv]; exact floor_floor _ _ (pw _)
  have hsl : s.last = s.val + (2 ^ (width n.ver - k) - 1) := by
    show netLast (width n.ver) s.val k = _
    rw [netLast_eq]; congr 1; exact floor_floor _ _ (pw _)
  have hnf : n.first = n.val / 2 ^ (width n.ver - n.plen) * 2 ^ (width n.ver - n.plen) := netFirst_eq _ _ _ hv
  have hnl : n.last = n.first + (2 ^ (width n.ver - n.plen) - 1) := by
    show netLast (width n.ver) n.val n.plen = _; rw [netLast_eq, hnf]
  -- floor of F to the coarser grid is s.val
  have hfc : n.first / 2 ^ (width n.ver - k) * 2 ^ (width n.ver - k) = s.val := by
    show n.first / 2 ^ (width n.ver - k) * 2 ^ (width n.ver - k) =
      n.val / 2 ^ (width n.ver - k) * 2 ^ (width n.ver - k)
    rw [hnf, hsplit]; exact floor_coarse _ _ _ hB
  refine ⟨⟨hver, hsv, by show k ≤ width n.ver; omega⟩, Nat.mul_mod_left _ _, hsf, ?_, ?_⟩
  · rw [hsf, ← hfc]; exact Nat.div_mul_le_self _ _
  · -- F = s.val + r with r a multiple of B below B*C, so F + B ≤ s.val + B*C
    rw [hsl, hnl]
    have hmod : n.first % 2 ^ (width n.ver - n.plen) = 0 := by rw [hnf]; exact Nat.mul_mod_left _ _
    have hdm := Nat.div_add_mod n.first (2 ^ (width n.ver - k))
    have hr := Nat.mod_lt n.first (pw (width n.ver - k))
    have hrm : (n.first % 2 ^ (width n.ver - k)) % 2 ^ (width n.ver - n.plen) = 0 := by
      rw [hsplit, Nat.mod_mul_right_mod]; exact hmod
    have hgap := mult_gap (2 ^ (width n.ver - n.plen)) (2 ^ (width n.ver - k)) (n.first % 2 ^ (width n.ver - k))
      (by rw [hsplit]; exact Nat.mul_mod_right _ _) hrm hr
    rw [Nat.mul_comm] at hdm
    rw [hfc] at hdm
    omega

/-- outside the property (documented, not generated): a target prefix longer than N's own ends
    in the ValueError of `.cidr`'s negative shift -/
theorem supernet_longer (n : Net) (q : Int) (h1 : n.plen < q) (h2 : q ≤ (width n.ver : Nat)) :
    supernet n q = .error .value := by
  have hg : (0 ≤ q ∧ q ≤ (width n.ver : Nat)) := by omega
  unfold supernet
  rw [if_neg (fun h => h hg)]
  exact supernetLoop_gt _ _ _ _ _ _ _ rfl (by omega)

example : supernet ⟨4, 0xC0000272, 29⟩ 26 =
    .ok [⟨4, 0xC0000240, 26⟩, ⟨4, 0xC0000260, 27⟩, ⟨4, 0xC0000270, 28⟩] := by decide +kernel

/-! ### stepping -/

/-- **N += k**: with `S` the block size and `F` the network address, the statement succeeds
    exactly when `0 ≤ F + k·S` and the whole block stays at or below `max_int`; the object then
    holds the aligned block `F + k·S` with the same prefix.  Otherwise `IndexError`. -/
theorem iadd_spec (n : Net) (hn : n.WF) (k : Int) :
    let S : Int := ((2 ^ (width n.ver - n.plen) : Nat) : Int)
    let F : Int := (n.first : Nat)
    (0 ≤ F + S * k ∧ F + S * k + S ≤ ((2 ^ width n.ver : Nat) : Int) →
      ∃ n', iadd n k = .ok n' ∧ n'.ver = n.ver ∧ n'.plen = n.plen ∧ (n'.val : Int) = F + S * k ∧ n'.WF) ∧
    (¬ (0 ≤ F + S * k ∧ F + S * k + S ≤ ((2 ^ width n.ver : Nat) : Int)) → iadd n k = .error .index) := by
  intro S F
  obtain ⟨hver, hv, hp⟩ := hn
  have hW := pw (width n.ver)
  have hSp := pw (width n.ver - n.plen)
  have hsz := netSize_eq (width n.ver) n.val n.plen hv
  have hF : F = ((netNetwork (width n.ver) n.val n.plen : Nat) : Int) := rfl
  unfold iadd
  simp only [hsz, maxInt]
  rw [← hF]
  generalize hm : S * k = m
  constructor
  · rintro ⟨h1, h2⟩
    have c1 : ¬ (F + m + (S - 1) > ((2 ^ width n.ver - 1 : Nat) : Int)) := by omega
    have c2 : ¬ (F + m < 0) := by omega
    rw [if_neg c1, if_neg c2]
    refine ⟨_, rfl, rfl, rfl, ?_, hver, ?_, hp⟩
    · show ((F + m).toNat : Int) = F + m; omega
    · show (F + m).toNat < 2 ^ width n.ver
      have : ((F + m).toNat : Int) < ((2 ^ width n.ver : Nat) : Int) := by omega
      exact_mod_cast this
  · intro hbad
    by_cases c1 : F + m + (S - 1) > ((2 ^ width n.ver - 1 : Nat) : Int)
    · rw [if_pos c1]
    · rw [if_neg c1]
      have c2 : F + m < 0 := by omega
      rw [if_pos c2]

/-- **N -= k**: the mirror image -/
theorem isub_spec (n : Net) (hn : n.WF) (k : Int) :
    let S : Int := ((2 ^ (width n.ver - n.plen) : Nat) : Int)
    let F : Int := (n.first : Nat)
    (0 ≤ F - S * k ∧ F - S * k + S ≤ ((2 ^ width n.ver : Nat) : Int) →
      ∃ n', isub n k = .ok n' ∧ n'.ver = n.ver ∧ n'.plen = n.plen ∧ (n'.val : Int) = F - S * k ∧ n'.WF) ∧
    (¬ (0 ≤ F - S * k ∧ F - S * k + S ≤ ((2 ^ width n.ver : Nat) : Int)) → isub n k = .error .index) := by
  intro S F
  obtain ⟨hver, hv, hp⟩ := hn
  have hW := pw (width n.ver)
  have hSp := pw (width n.ver - n.plen)
  have hsz := netSize_eq (width n.ver) n.val n.plen hv
  have hF : F = ((netNetwork (width n.ver) n.val n.plen : Nat) : Int) := rfl
  unfold isub
  simp only [hsz, maxInt]
  rw [← hF]
  generalize hm : S * k = m
  constructor
  · rintro ⟨h1, h2⟩
    have c1 : ¬ (F - m + (S - 1) > ((2 ^ width n.ver - 1 : Nat) : Int)) := by omega
    have c2 : ¬ (F - m < 0) := by omega
    rw [if_neg c2, if_neg c1]
    refine ⟨_, rfl, rfl, rfl, ?_, hver, ?_, hp⟩
    · show ((F - m).toNat : Int) = F - m; omega
    · show (F - m).toNat < 2 ^ width n.ver
      have : ((F - m).toNat : Int) < ((2 ^ width n.ver : Nat) : Int) := by omega
      exact_mod_cast this
  · intro hbad
    by_cases c2 : F - m < 0
    · rw [if_pos c2]
    · rw [if_neg c2]
      have c1 : F - m + (S - 1) > ((2 ^ width n.ver - 1 : Nat) : Int) := by omega
      rw [if_pos c1]

/-- the stepped value is again block-aligned: `F + k·S` is a multiple of `S` -/
theorem stepped_aligned (n : Net) (hn : n.WF) (k : Int) (v : Nat)
    (h : (v : Int) = ((n.first : Nat) : Int) + ((2 ^ (width n.ver - n.plen) : Nat) : Int) * k ∨
         (v : Int) = ((n.first : Nat) : Int) - ((2 ^ (width n.ver - n.plen) : Nat) : Int) * k) :
    v % 2 ^ (width n.ver - n.plen) = 0 := by
  obtain ⟨_, hv, _⟩ := hn
  have hnf : n.first = n.val / 2 ^ (width n.ver - n.plen) * 2 ^ (width n.ver - n.plen) := netFirst_eq _ _ _ hv
  have hd : ((2 ^ (width n.ver - n.plen) : Nat) : Int) ∣ (v : Int) := by
    rcases h with h | h <;> rw [h, hnf]
    · apply Int.dvd_add
      · rw [Int.natCast_mul]; exact Int.dvd_mul_left _ _
      · exact Int.dvd_mul_right _ _
    · apply Int.dvd_sub
      · rw [Int.natCast_mul]; exact Int.dvd_mul_left _ _
      · exact Int.dvd_mul_right _ _
  exact Nat.mod_eq_zero_of_dvd (Int.natCast_dvd_natCast.1 hd)

/-- **next / previous** work on a host-bit-free copy: they are `+=` / `-=` applied to the network
    `(F, p)`, so the two theorems above apply with the same `F` and `S` (the copy's network
    address is `F` again), and the receiver is not modified (the model is a function of `n`) -/
theorem next_previous (n : Net) (hn : n.WF) (k : Int) :
    next n k = iadd (netCopy n) k ∧ previous n k = isub (netCopy n) k ∧
    (netCopy n).WF ∧ (netCopy n).first = n.first ∧ (netCopy n).plen = n.plen ∧ (netCopy n).ver = n.ver := by
  obtain ⟨hver, hv, hp⟩ := hn
  have hF := first_lt (width n.ver) n.val n.plen hv
  refine ⟨rfl, rfl, ⟨hver, hF, hp⟩, ?_, rfl, rfl⟩
  show netFirst (width n.ver) (netFirst (width n.ver) n.val n.plen) n.plen = netFirst (width n.ver) n.val n.plen
  rw [netFirst_eq _ _ _ hF, netFirst_eq _ _ _ hv]
  exact floor_floor _ _ (pw _)

/-- **a failed `+=` / `-=` leaves the object unchanged**, and the only error is IndexError -/
theorem step_failure (n : Net) (k : Int) :
    (∀ e, (stepIadd n k).2 = some e → (stepIadd n k).1 = n ∧ e = .index) ∧
    (∀ e, (stepIsub n k).2 = some e → (stepIsub n k).1 = n ∧ e = .index) ∧
    ((stepIadd n k).2 = none → iadd n k = .ok (stepIadd n k).1) ∧
    ((stepIsub n k).2 = none → isub n k = .ok (stepIsub n k).1) := by
  refine ⟨?_, ?_, ?_, ?_⟩
  · intro e h
    unfold stepIadd at h ⊢
    cases hc : iadd n k with
    | ok n' => rw [hc] at h; simp at h
    | error e' =>
      rw [hc] at h; simp only at h ⊢
      have : e' = e := by simpa using h
      subst this
      refine ⟨by first | rfl | trivial, ?_⟩
      unfold iadd at hc
      simp only at hc
      split at hc
      · simpa using hc.symm
      · split at hc
        · simpa using hc.symm
        · simp at hc
  · intro e h
    unfold stepIsub at h ⊢
    cases hc : isub n k with
    | ok n' => rw [hc] at h; simp at h
    | error e' =>
      rw [hc] at h; simp only at h ⊢
      have : e' = e := by simpa using h
      subst this
      refine ⟨by first | rfl | trivial, ?_⟩
      unfold isub at hc
      simp only at hc
      split at hc
      · simpa using hc.symm
      · split at hc
        · simpa using hc.symm
        · simp at hc
  · intro h
    unfold stepIadd at h ⊢
    cases hc : iadd n k with
    | ok n' => rfl
    | error e' => rw [hc] at h; simp at h
  · intro h
    unfold stepIsub at h ⊢
    cases hc : isub n k with
    | ok n' => rfl
    | error e' => rw [hc] at h; simp at h

example : next ⟨4, 0xC0000205, 28⟩ 1 = .ok ⟨4, 0xC0000210, 28⟩ := by decide +kernel
example : next ⟨4, 0xFFFFFFF5, 28⟩ 1 = .error .index := by decide +kernel
example : previous ⟨4, 5, 28⟩ 1 = .error .index := by decide +kernel
example : stepIadd ⟨4, 0xFFFFFFF5, 28⟩ 1 = (⟨4, 0xFFFFFFF5, 28⟩, some .index) := by decide +kernel

/-! ### iter_hosts -/

/-- **iter_hosts()**: IPv4 blocks of 4 or more addresses: `first+1 .. last-1`; IPv4 /31 and /32:
    every address; IPv6: `first+1 .. last` (nothing for /128).  `List.range' a len` is
    `a, a+1, …, a+len-1`; with `S = 2^(width-p)` the block size, `last = first + S - 1`. -/
theorem hosts_spec (n : Net) (hn : n.WF) :
    (n.ver = 4 → 4 ≤ 2 ^ (width n.ver - n.plen) →
      iterHosts n = List.range' (n.first + 1) (2 ^ (width n.ver - n.plen) - 2)) ∧
    (n.ver = 4 → 2 ^ (width n.ver - n.plen) < 4 →
      iterHosts n = List.range' n.first (2 ^ (width n.ver - n.plen))) ∧
    (n.ver = 6 → iterHosts n = List.range' (n.first + 1) (2 ^ (width n.ver - n.plen) - 1)) := by
  obtain ⟨hver, hv, hp⟩ := hn
  have hsz := netSize_eq (width n.ver) n.val n.plen hv
  have hSp := pw (width n.ver - n.plen)
  have hl : netLast (width n.ver) n.val n.plen = n.first + (2 ^ (width n.ver - n.plen) - 1) := by
    rw [netLast_eq]; show _ = netFirst _ _ _ + _; rw [netFirst_eq _ _ _ hv]
  have hf : netFirst (width n.ver) n.val n.plen = n.first := rfl
  generalize hSdef : 2 ^ (width n.ver - n.plen) = S at *
  refine ⟨?_, ?_, ?_⟩
  · intro h4 hS
    simp only [iterHosts, hostBounds, hsz, hl, hf]
    rw [if_pos h4, if_pos hS]
    simp only [iterRange_eq]
    congr 1; omega
  · intro h4 hS
    simp only [iterHosts, hostBounds, hsz, hl, hf]
    rw [if_pos h4, if_neg (by omega)]
    simp only [iterRange_eq]
    congr 1; omega
  · intro h6
    have h4 : ¬ n.ver = 4 := by omega
    simp only [iterHosts, hostBounds, hsz, hl, hf]
    rw [if_neg h4]
    by_cases hS : S ≥ 2
    · rw [if_pos hS]
      simp only [iterRange_eq]
      congr 1; omega
    · rw [if_neg hS]
      have : S - 1 = 0 := by omega
      rw [this]; rfl

/-- what the driver prints: the generator read through `islice(limit)` is the prefix of the full list -/
theorem hostsTake_eq (n : Net) (limit : Nat) : hostsTake n limit = (iterHosts n).take limit := by
  unfold hostsTake iterHosts
  cases hostBounds n with
  | none => simp
  | some b =>
    obtain ⟨lo, hi⟩ := b
    simp only [iterRange_eq, take_range']
    congr 1; omega

example : iterHosts ⟨4, 0x0A000005, 30⟩ = [0x0A000005, 0x0A000006] := by decide +kernel
example : iterHosts ⟨4, 0x0A000005, 31⟩ = [0x0A000004, 0x0A000005] := by decide +kernel
example : iterHosts ⟨6, 5, 127⟩ = [5] := by decide +kernel
example : iterHosts ⟨6, 5, 128⟩ = [] := by decide +kernel

end NV.C11
