import NetaddrVerif.Model.Subnet
namespace NV.C11
open NV NV.Subnet

/-- `next`/`previous` work on a copy: they are `+=`/`-=` on the host-bit-free copy -/
theorem next_eq (n : Net) (k : Int) : next n k = iadd (netCopy n) k := rfl

end NV.C11
