import NetaddrVerif.Model.Address
namespace NV.C14
open NV NV.Address

theorem bool_spec (a : Addr) : nonzero a = true ↔ a.val ≠ 0 := by
  simp [nonzero]

end NV.C14
