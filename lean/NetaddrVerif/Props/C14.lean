/-
Props/C14.lean — property C14 "Address arithmetic and bitwise operators are exact and
range-checked".  Property theorems only; helper lemmas are in Lemmas/C14L.

Statement (properties.jsonl): for every address a and integer n, a+n, n+a, a-n, n-a, a+=n,
a-=n, a|n, a&n, a^n, a<<n, a>>n (n an int or another address for the bitwise forms) return an
address of the same version whose value is exactly the mathematical result whenever that
result lies in 0..2^width-1, and otherwise raise (IndexError for + and -, AddrFormatError for
the bitwise forms) without changing the operands.  Constructing an address from an integer
yields exactly that value — IPv4 when it fits in 32 bits unless version 6 is requested, IPv6
above that — and an integer outside the requested or any family's range is rejected with
AddrFormatError; no operation ever yields an out-of-range value, a different version, or a
silently wrapped result, and bool(a) is value != 0 while int()/index/hex() return the value.

How it is stated here.  `checked ver x e` is the specification: the exact (unbounded,
`Int`) result `x` as an address of version `ver` if `0 ≤ x < 2^width`, otherwise the error
`e`.  Every operator of the model (Model/Address.lean — the definitions the driver
executes) is proved equal to `checked` of its exact mathematical result, for all addresses
(both versions), all `n : Int`, all shift counts.  `checked_ok`/`checked_err` spell out what
that means (same version, exact value, in range / rejected exactly outside the range).
For `|`, `&`, `^` with a negative right operand the "mathematical result" is the infinite
two's-complement one; `ibit` is that reading of an `Int` and `pyOr_bit/pyAnd_bit/pyXor_bit`
prove the model's closed forms bit for bit.

Second layer: Props/C14Deep.lean — shifts for every right operand (negative counts, addresses
as counts, reflected `n << a`; `operators_exact_all`), `a += n`/`a -= n` statement by statement
with an event log (`iadd_program`, `inplace_write_after_checks`), and the exact `hex()` string
(`hex_exact`, `hex_unique`).
-/
import NetaddrVerif.Lemmas.C14L
namespace NV.C14
open NV NV.Address

/-! ### what "exact and range-checked" means -/

/-- `checked` accepts exactly `0 ≤ x < 2^width`, with the exact value and the same version … -/
theorem checked_ok (ver : Nat) (x : Int) (e : Err) (r : Addr) (h : checked ver x e = .ok r) :
    r.ver = ver ∧ (r.val : Int) = x ∧ r.val < 2 ^ width ver := by
  unfold checked at h
  split at h
  · rename_i hr
    injection h with h; subst h
    refine ⟨rfl, ?_, ?_⟩ <;> simp only <;> omega
  · simp at h

/-- … and rejects, with the named error, exactly the results outside the range. -/
theorem checked_err (ver : Nat) (x : Int) (e e' : Err) (h : checked ver x e = .error e') :
    e' = e ∧ (x < 0 ∨ ((2 ^ width ver : Nat) : Int) ≤ x) := by
  unfold checked at h
  split at h
  · simp at h
  · rename_i hr
    injection h with h
    exact ⟨h.symm, by omega⟩

theorem checked_in (ver : Nat) (x : Int) (e : Err) (h0 : 0 ≤ x) (h1 : x < ((2 ^ width ver : Nat) : Int)) :
    checked ver x e = .ok ⟨ver, x.toNat⟩ := by
  unfold checked; rw [if_pos ⟨h0, h1⟩]

theorem checked_out (ver : Nat) (x : Int) (e : Err) (h : x < 0 ∨ ((2 ^ width ver : Nat) : Int) ≤ x) :
    checked ver x e = .error e := by
  unfold checked; rw [if_neg (by omega)]

/-! ### `+` and `-` in all six forms: exact, else IndexError -/

/-- `a + n` -/
theorem add_exact (a : Addr) (n : Int) (h : a.WF) :
    add a n = checked a.ver ((a.val : Int) + n) .index := guardNew_spec a _ h

/-- `n + a` -/
theorem radd_exact (a : Addr) (n : Int) (h : a.WF) :
    radd a n = checked a.ver (n + (a.val : Int)) .index := by
  rw [Int.add_comm]; exact guardNew_spec a _ h

/-- `a - n` -/
theorem sub_exact (a : Addr) (n : Int) (h : a.WF) :
    sub a n = checked a.ver ((a.val : Int) - n) .index := guardNew_spec a _ h

/-- `n - a` -/
theorem rsub_exact (a : Addr) (n : Int) (h : a.WF) :
    rsub a n = checked a.ver (n - (a.val : Int)) .index := guardNew_spec a _ h

/-- `a += n` : the new state of the object (no well-formedness needed: the constructor is
    not involved) -/
theorem iadd_exact (a : Addr) (n : Int) :
    iadd a n = checked a.ver ((a.val : Int) + n) .index := guardInplace_spec a _

/-- `a -= n` -/
theorem isub_exact (a : Addr) (n : Int) :
    isub a n = checked a.ver ((a.val : Int) - n) .index := guardInplace_spec a _

/-- in-place forms are atomic: after a failing `a += n` / `a -= n` the object is what it was,
    after a successful one it is the result -/
theorem inplace_atomic (a : Addr) (r : R Addr) :
    (∀ e, r = .error e → stepInplace a r = (a, some e)) ∧
    (∀ a', r = .ok a' → stepInplace a r = (a', none)) := by
  constructor
  · intro e h; subst h; rfl
  · intro a' h; subst h; rfl

/-- `a += n` on a live object: in range, the object now holds exactly `a + n` (same version);
    out of range, IndexError and the object is untouched -/
theorem iadd_step (a : Addr) (n : Int) :
    stepInplace a (iadd a n) =
      if 0 ≤ (a.val : Int) + n ∧ (a.val : Int) + n < ((2 ^ width a.ver : Nat) : Int)
      then (⟨a.ver, ((a.val : Int) + n).toNat⟩, none) else (a, some .index) := by
  rw [iadd_exact]; unfold checked; split <;> rfl

/-- `a -= n` on a live object -/
theorem isub_step (a : Addr) (n : Int) :
    stepInplace a (isub a n) =
      if 0 ≤ (a.val : Int) - n ∧ (a.val : Int) - n < ((2 ^ width a.ver : Nat) : Int)
      then (⟨a.ver, ((a.val : Int) - n).toNat⟩, none) else (a, some .index) := by
  rw [isub_exact]; unfold checked; split <;> rfl

/-- non-vacuity: the top IPv4 address, `+ 1` overflows, `- 1` and `+= -1` do not;
    `2^32 - a` is the reflected form -/
example : add ⟨4, 4294967295⟩ 1 = .error .index ∧ sub ⟨4, 4294967295⟩ 1 = .ok ⟨4, 4294967294⟩ ∧
    rsub ⟨4, 4294967295⟩ 4294967296 = .ok ⟨4, 1⟩ ∧ radd ⟨6, 0⟩ (-1) = .error .index ∧
    stepInplace ⟨4, 0⟩ (isub ⟨4, 0⟩ 1) = (⟨4, 0⟩, some .index) ∧
    stepInplace ⟨6, 5⟩ (iadd ⟨6, 5⟩ (2 ^ 128 - 6)) = (⟨6, 2 ^ 128 - 1⟩, none) := by decide

/-! ### `|`, `&`, `^` : exact (two's complement for a negative operand), else AddrFormatError -/

/-- `a | x`, x an int or an address of any version -/
theorem or_exact (a : Addr) (x : Operand) (h : a.WF) :
    or_ a x = checked a.ver (pyOr a.val x.toInt) .addrFormat := ctor_some _ _ h.1

/-- `a & x` -/
theorem and_exact (a : Addr) (x : Operand) (h : a.WF) :
    and_ a x = checked a.ver (pyAnd a.val x.toInt) .addrFormat := ctor_some _ _ h.1

/-- `a ^ x` -/
theorem xor_exact (a : Addr) (x : Operand) (h : a.WF) :
    xor_ a x = checked a.ver (pyXor a.val x.toInt) .addrFormat := ctor_some _ _ h.1

/-- `pyOr` is bitwise OR of the infinite two's-complement expansions -/
theorem pyOr_bit (a : Nat) (n : Int) (i : Nat) : ibit (pyOr a n) i = (a.testBit i || ibit n i) := by
  cases n with
  | ofNat n => simp [pyOr, ibit]
  | negSucc m => simp only [pyOr, ibit, Nat.testBit_xor, Nat.testBit_and]; cases m.testBit i <;> cases a.testBit i <;> rfl

/-- `pyAnd` is bitwise AND of the infinite two's-complement expansions -/
theorem pyAnd_bit (a : Nat) (n : Int) (i : Nat) : ibit (pyAnd a n) i = (a.testBit i && ibit n i) := by
  cases n with
  | ofNat n => simp [pyAnd, ibit]
  | negSucc m => simp only [pyAnd, ibit, Nat.testBit_xor, Nat.testBit_and]; cases m.testBit i <;> cases a.testBit i <;> rfl

/-- `pyXor` is bitwise XOR of the infinite two's-complement expansions -/
theorem pyXor_bit (a : Nat) (n : Int) (i : Nat) : ibit (pyXor a n) i = (a.testBit i ^^ ibit n i) := by
  cases n with
  | ofNat n => simp [pyXor, ibit]
  | negSucc m => simp only [pyXor, ibit, Nat.testBit_xor]; cases m.testBit i <;> cases a.testBit i <;> rfl

/-- the two's-complement reading determines the integer: `ibit` is injective -/
theorem ibit_ext (x y : Int) (h : ∀ i, ibit x i = ibit y i) : x = y := ibit_inj x y h

/-- for a non-negative operand (in particular another address) these are the `Nat` operators -/
theorem bitops_nonneg (a n : Nat) :
    pyOr a (n : Int) = ((a ||| n : Nat) : Int) ∧ pyAnd a (n : Int) = ((a &&& n : Nat) : Int) ∧
    pyXor a (n : Int) = ((a ^^^ n : Nat) : Int) := ⟨rfl, rfl, rfl⟩

/-- `|` and `^` with a negative int always raise AddrFormatError (the exact result is
    negative); `&` never raises, whatever the operand (the result is a sub-mask of `a`) -/
theorem bitops_sign (a : Addr) (h : a.WF) :
    (∀ n : Int, n < 0 → or_ a (.int n) = .error .addrFormat ∧ xor_ a (.int n) = .error .addrFormat) ∧
    (∀ x : Operand, ∃ r, and_ a x = .ok r ∧ r.ver = a.ver ∧ r.val ≤ a.val) := by
  constructor
  · intro n hn
    rw [or_exact a _ h, xor_exact a _ h]
    cases n with
    | ofNat n => exact absurd hn (by simp)
    | negSucc m =>
      constructor <;> apply checked_out <;> left <;> simp only [Operand.toInt, pyOr, pyXor] <;> exact Int.negSucc_lt_zero _
  · intro x
    rw [and_exact a x h]
    obtain ⟨k, hk, hle⟩ := pyAnd_le a.val x.toInt
    rw [hk, checked_in _ _ _ (by omega) (by have := h.2; omega)]
    exact ⟨_, rfl, rfl, by simpa using hle⟩

example : or_ ⟨4, 5⟩ (.int 2) = .ok ⟨4, 7⟩ ∧ or_ ⟨4, 5⟩ (.int (-1)) = .error .addrFormat ∧
    and_ ⟨4, 5⟩ (.int (-2)) = .ok ⟨4, 4⟩ ∧ xor_ ⟨4, 5⟩ (.addr ⟨6, 2 ^ 127⟩) = .error .addrFormat ∧
    xor_ ⟨6, 5⟩ (.addr ⟨4, 4⟩) = .ok ⟨6, 1⟩ ∧ or_ ⟨4, 0⟩ (.int (2 ^ 32)) = .error .addrFormat := by decide

/-! ### shifts -/

/-- `a << n` is `a · 2^n`, exact, else AddrFormatError — never wrapped -/
theorem shl_exact (a : Addr) (n : Nat) (h : a.WF) :
    shl a n = checked a.ver (((a.val * 2 ^ n : Nat)) : Int) .addrFormat := by
  unfold shl; rw [ctor_some _ _ h.1, Nat.shiftLeft_eq]

/-- `a >> n` is `⌊a / 2^n⌋` and never fails -/
theorem shr_exact (a : Addr) (n : Nat) (h : a.WF) :
    shr a n = .ok ⟨a.ver, a.val / 2 ^ n⟩ := by
  unfold shr
  rw [ctor_some _ _ h.1, Nat.shiftRight_eq_div_pow]
  have hle : a.val / 2 ^ n ≤ a.val := Nat.div_le_self _ _
  have := h.2
  generalize a.val / 2 ^ n = q at hle ⊢
  rw [checked_in _ _ _ (by omega) (by omega)]; rfl

example : shl ⟨4, 1⟩ 31 = .ok ⟨4, 2 ^ 31⟩ ∧ shl ⟨4, 1⟩ 32 = .error .addrFormat ∧
    shl ⟨6, 3⟩ 127 = .error .addrFormat ∧ shr ⟨6, 2 ^ 128 - 1⟩ 127 = .ok ⟨6, 1⟩ ∧
    shr ⟨4, 7⟩ 200 = .ok ⟨4, 0⟩ := by decide

/-! ### closure: never out of range, never another version, never another error -/

/-- the eleven operators (and the two in-place forms) as one family -/
inductive Op where
  | add (n : Int) | radd (n : Int) | sub (n : Int) | rsub (n : Int) | iadd (n : Int) | isub (n : Int)
  | or_ (x : Operand) | and_ (x : Operand) | xor_ (x : Operand) | shl (n : Nat) | shr (n : Nat)

def Op.run (a : Addr) : Op → R Addr
  | .add n => Address.add a n | .radd n => Address.radd a n | .sub n => Address.sub a n
  | .rsub n => Address.rsub a n | .iadd n => Address.iadd a n | .isub n => Address.isub a n
  | .or_ x => Address.or_ a x | .and_ x => Address.and_ a x | .xor_ x => Address.xor_ a x
  | .shl n => Address.shl a n | .shr n => Address.shr a n

/-- the exact mathematical result of each operator -/
def Op.exact (a : Addr) : Op → Int
  | .add n => a.val + n | .radd n => n + a.val | .sub n => a.val - n
  | .rsub n => n - a.val | .iadd n => a.val + n | .isub n => a.val - n
  | .or_ x => pyOr a.val x.toInt | .and_ x => pyAnd a.val x.toInt | .xor_ x => pyXor a.val x.toInt
  | .shl n => ((a.val * 2 ^ n : Nat) : Int) | .shr n => ((a.val / 2 ^ n : Nat) : Int)

/-- IndexError for `+`/`-`, AddrFormatError for the bitwise forms -/
def Op.err : Op → Err
  | .add _ | .radd _ | .sub _ | .rsub _ | .iadd _ | .isub _ => .index
  | _ => .addrFormat

/-- **C14, operators.** Every operator on every well-formed address returns exactly
    `checked` of its mathematical result: an address of the same version with exactly that
    value when it lies in `0 .. 2^width-1`, and otherwise the error the property names. -/
theorem operators_exact (a : Addr) (op : Op) (h : a.WF) :
    op.run a = checked a.ver (op.exact a) op.err := by
  cases op with
  | add n => exact add_exact a n h
  | radd n => exact radd_exact a n h
  | sub n => exact sub_exact a n h
  | rsub n => exact rsub_exact a n h
  | iadd n => exact iadd_exact a n
  | isub n => exact isub_exact a n
  | or_ x => exact or_exact a x h
  | and_ x => exact and_exact a x h
  | xor_ x => exact xor_exact a x h
  | shl n => exact shl_exact a n h
  | shr n =>
    show Address.shr a n = checked a.ver ((a.val / 2 ^ n : Nat) : Int) .addrFormat
    have hle : a.val / 2 ^ n ≤ a.val := Nat.div_le_self _ _
    have := h.2
    rw [shr_exact a n h]
    generalize a.val / 2 ^ n = q at hle ⊢
    rw [checked_in _ _ _ (by omega) (by omega)]; rfl

/-- no operation ever yields an out-of-range value, a different version or a wrapped
    result; and a failure is exactly the named error, exactly when the exact result is
    outside `0 .. 2^width-1` -/
theorem operators_closed (a : Addr) (op : Op) (h : a.WF) :
    (∀ r, op.run a = .ok r → r.WF ∧ r.ver = a.ver ∧ (r.val : Int) = op.exact a) ∧
    (∀ e, op.run a = .error e → e = op.err ∧
      (op.exact a < 0 ∨ ((2 ^ width a.ver : Nat) : Int) ≤ op.exact a)) := by
  rw [operators_exact a op h]
  constructor
  · intro r hr
    obtain ⟨h1, h2, h3⟩ := checked_ok _ _ _ _ hr
    exact ⟨⟨by rw [h1]; exact h.1, by rw [h1]; exact h3⟩, h1, h2⟩
  · intro e he
    exact checked_err _ _ _ _ he

/-- non-vacuity of `operators_exact` / `operators_closed`: a success, both kinds of failure, and
    the exact results they are compared with -/
example : (Op.add 1).run ⟨4, 4294967295⟩ = .error .index ∧ (Op.add 1).exact ⟨4, 4294967295⟩ = 4294967296 ∧
    (Op.rsub 3).run ⟨6, 4⟩ = .error .index ∧ (Op.rsub 3).exact ⟨6, 4⟩ = -1 ∧
    (Op.shl 4).run ⟨4, 3⟩ = .ok ⟨4, 48⟩ ∧ (Op.shl 4).exact ⟨4, 3⟩ = 48 ∧
    (Op.and_ (.int (-2))).run ⟨6, 7⟩ = .ok ⟨6, 6⟩ ∧ (Op.xor_ (.int (-2))).run ⟨6, 7⟩ = .error .addrFormat ∧
    (Op.xor_ (.int (-2))).exact ⟨6, 7⟩ = -7 := by decide

/-! ### the integer branch of the constructor -/

/-- explicit version 4 or 6: exactly `0 .. 2^width-1` is accepted, with exactly that value and
    the requested version; everything else is AddrFormatError -/
theorem ctor_explicit (x : Int) (v : Nat) (hv : v = 4 ∨ v = 6) :
    ctor x (some v) = checked v x .addrFormat := ctor_some x v hv

/-- no version given: IPv4 when it fits in 32 bits, IPv6 above that up to 2^128-1, otherwise
    (negative, or ≥ 2^128) AddrFormatError -/
theorem ctor_auto (x : Int) :
    ctor x none =
      if 0 ≤ x ∧ x < 2 ^ 32 then .ok ⟨4, x.toNat⟩
      else if 2 ^ 32 ≤ x ∧ x < 2 ^ 128 then .ok ⟨6, x.toNat⟩
      else .error .addrFormat := by
  have h4 : ((maxInt 4 : Nat) : Int) = 2 ^ 32 - 1 := by decide
  have h6 : ((maxInt 6 : Nat) : Int) = 2 ^ 128 - 1 := by decide
  simp only [ctor, h4, h6]
  by_cases c1 : 0 ≤ x ∧ x < 2 ^ 32
  · rw [if_pos c1, if_pos (by omega)]
  · rw [if_neg c1, if_neg (by omega)]
    by_cases c2 : 2 ^ 32 ≤ x ∧ x < 2 ^ 128
    · rw [if_pos c2, if_pos (by omega)]
    · rw [if_neg c2, if_neg (by omega)]

/-- whatever the constructor accepts is well formed and has exactly the offered value -/
theorem ctor_sound (x : Int) (ver : Option Nat) (r : Addr) (h : ctor x ver = .ok r) :
    r.WF ∧ (r.val : Int) = x ∧ (∀ v, ver = some v → r.ver = v) ∧
    (ver = none → (r.ver = 4 ↔ x < 2 ^ 32)) := by
  cases ver with
  | some v =>
    by_cases hv : v = 4 ∨ v = 6
    · rw [ctor_explicit x v hv] at h
      obtain ⟨h1, h2, h3⟩ := checked_ok _ _ _ _ h
      refine ⟨⟨by rw [h1]; exact hv, by rw [h1]; exact h3⟩, h2, ?_, by simp⟩
      intro v' hv'; injection hv' with hv'; rw [h1, hv']
    · simp [ctor, hv] at h
  | none =>
    rw [ctor_auto] at h
    split at h
    · rename_i c; injection h with h; subst h
      refine ⟨⟨Or.inl rfl, ?_⟩, ?_, by simp, ?_⟩
      · show x.toNat < 2 ^ 32; omega
      · show ((x.toNat : Nat) : Int) = x; omega
      · intro _; simp only [true_iff]; omega
    · split at h
      · rename_i c1 c; injection h with h; subst h
        refine ⟨⟨Or.inr rfl, ?_⟩, ?_, by simp, ?_⟩
        · show x.toNat < 2 ^ 128; omega
        · show ((x.toNat : Nat) : Int) = x; omega
        · intro _; constructor
          · intro h; simp at h
          · intro h; omega
      · simp at h

/-- the constructor's only error on the integer branch (version 4, 6 or absent) is AddrFormatError,
    raised exactly outside the range -/
theorem ctor_rejects (x : Int) (ver : Option Nat) (e : Err) (hver : ver = none ∨ ver = some 4 ∨ ver = some 6)
    (h : ctor x ver = .error e) :
    e = .addrFormat ∧ (x < 0 ∨ (ver = some 4 ∧ 2 ^ 32 ≤ x) ∨ 2 ^ 128 ≤ x) := by
  rcases hver with hv | hv | hv <;> subst hv
  · rw [ctor_auto] at h
    split at h
    · simp at h
    · split at h
      · simp at h
      · rename_i c1 c2
        injection h with h
        refine ⟨h.symm, ?_⟩
        by_cases hx : x < 0
        · exact Or.inl hx
        · exact Or.inr (Or.inr (by omega))
  · rw [ctor_explicit x 4 (Or.inl rfl)] at h
    obtain ⟨h1, h2⟩ := checked_err _ _ _ _ h
    have : ((2 ^ width 4 : Nat) : Int) = 2 ^ 32 := by decide
    refine ⟨h1, ?_⟩
    rcases h2 with h2 | h2
    · exact Or.inl h2
    · exact Or.inr (Or.inl ⟨rfl, by omega⟩)
  · rw [ctor_explicit x 6 (Or.inr rfl)] at h
    obtain ⟨h1, h2⟩ := checked_err _ _ _ _ h
    have : ((2 ^ width 6 : Nat) : Int) = 2 ^ 128 := by decide
    refine ⟨h1, ?_⟩
    rcases h2 with h2 | h2
    · exact Or.inl h2
    · exact Or.inr (Or.inr (by omega))

example : ctor 4294967295 none = .ok ⟨4, 4294967295⟩ ∧ ctor 4294967296 none = .ok ⟨6, 4294967296⟩ ∧
    ctor 5 (some 6) = .ok ⟨6, 5⟩ ∧ ctor 4294967296 (some 4) = .error .addrFormat ∧
    ctor (-1) none = .error .addrFormat ∧ ctor (2 ^ 128) none = .error .addrFormat ∧
    ctor (2 ^ 128 - 1) (some 6) = .ok ⟨6, 2 ^ 128 - 1⟩ := by decide

/-! ### observers -/

/-- `bool(a)` is `value != 0`; `int(a)` and `a.__index__()` are the value; `hex(a)` is `0x`
    followed by a hexadecimal numeral that reads back as the value -/
theorem observers (a : Addr) :
    (nonzero a = true ↔ a.val ≠ 0) ∧ toInt a = a.val ∧ index a = a.val ∧
    (hex a).take 2 = ['0', 'x'] ∧ ofHex ((hex a).drop 2) = some a.val := by
  refine ⟨by simp [nonzero], rfl, rfl, rfl, ?_⟩
  show ofHex (Nat.toDigits 16 a.val) = some a.val
  exact ofHex_toHex a.val

example : hex ⟨4, 255⟩ = "0xff".toList ∧ nonzero ⟨6, 0⟩ = false ∧ nonzero ⟨4, 1⟩ = true := by decide

end NV.C14
