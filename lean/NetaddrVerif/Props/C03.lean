/-
Props/C03.lean — C03: all network notations denote the same network; str() round-trips.

Property (properties.jsonl): for every address a and prefix p, the strings 'a/p',
'a/<netmask of p>', 'a/<hostmask of p>', the tuple (int(a), p) and copy-construction all build the
same IPNetwork (same version, same stored address including host bits, same prefix); str() of
any IPNetwork parses back to an identical one; a bare address gets the full-width prefix; NOHOST
clears exactly the host bits; partial / classful IPv4 abbreviations expand by the documented
octet-padding and class rules; a prefix outside 0..width, a non-contiguous mask or a malformed
address raises AddrFormatError.

Reading of the `p ∈ {0, width}` corner (DESIGN.md, C03): the all-zeros / all-ones mask strings
are netmasks first, so the hostmask spelling of /0 reads as /width and vice versa.

The theorems are about `NV.NetParse.ipNetwork` / `parseIpNetwork` / `netStr` /
`cidrAbbrevToVerbose` / `expandPartialAddress` (Model/NetParse.lean), for both back ends.
-/
import NetaddrVerif.Lemmas.C03L
import NetaddrVerif.Lemmas.C03LErr
namespace NV.C03
open NV NV.Text4 NV.AddrParse NV.NetParse NV.C01L NV.C03L

/-- string = address text + '/' + prefix text that resolves to `q ≤ width` -/
theorem parse_with_prefix (be : Backend) (ver : Nat) (hver : VerOK ver) (v : Nat) (hv : v < 2 ^ width ver)
    (T : List Char) (q : Nat) (hT : T.contains '/' = false)
    (hres : resolvePrefix be ver (some T) = .ok (q : Int)) (hq : q ≤ width ver) (fl : Nat) :
    parseIpNetwork be ver (.str (intToStr be ver v ++ '/' :: T)) false fl = applyNohost ver fl v q := by
  have hns := addr_noslash be ver hver v hv
  have hrange : ¬ ¬ (0 ≤ (q : Int) ∧ (q : Int) ≤ (width ver : Int)) := by
    intro h; apply h; constructor <;> omega
  unfold parseIpNetwork
  simp only [Bool.false_eq_true, if_false, splitSlash_app _ T hns, secondSlash, parseStrCore, hT, addr_rt be ver hver v hv, hres, hrange,
    Int.toNat_natCast]

/-- a bare address -/
theorem parse_bare (be : Backend) (ver : Nat) (hver : VerOK ver) (v : Nat) (hv : v < 2 ^ width ver) (fl : Nat) :
    parseIpNetwork be ver (.str (intToStr be ver v)) false fl = applyNohost ver fl v (width ver) := by
  have hns := addr_noslash be ver hver v hv
  have hrange : ¬ ¬ (0 ≤ (width ver : Int) ∧ (width ver : Int) ≤ (width ver : Int)) := by
    intro h; apply h; constructor <;> omega
  unfold parseIpNetwork
  simp only [Bool.false_eq_true, if_false, splitSlash_none _ hns, secondSlash, parseStrCore, addr_rt be ver hver v hv, resolve_none, hrange,
    Int.toNat_natCast]

/-- from `parse_ip_network` to `IPNetwork(...)`: explicit version, or detection (IPv4 first) -/
theorem net_of_parse (be : Backend) (ver : Nat) (hver : VerOK ver) (s : List Char) (i : Bool) (fl v' p : Nat)
    (pver : Option Nat) (hpver : pver = none ∨ pver = some ver)
    (h4 : ver = 6 → parseIpNetwork be 4 (.str s) i fl = .error .addrFormat)
    (h : parseIpNetwork be ver (.str s) i fl = .ok (v', p)) :
    ipNetwork be (.str s) i pver fl = .ok ⟨ver, v', p⟩ := by
  unfold ipNetwork
  rcases hpver with hp | hp <;> subst hp
  · rcases hver with hv | hv <;> subst hv
    · simp only [h]
    · simp only [h4 rfl, h]
  · have hver' : ver = 4 ∨ ver = 6 := hver
    simp only [if_pos hver', h]

/-- the result for address text `a` + a prefix text resolving to `q` -/
theorem net_with_prefix (be : Backend) (ver : Nat) (hver : VerOK ver) (v : Nat) (hv : v < 2 ^ width ver)
    (T : List Char) (q : Nat) (hT : T.contains '/' = false)
    (hres : resolvePrefix be ver (some T) = .ok (q : Int)) (hq : q ≤ width ver) (fl : Nat)
    (pver : Option Nat) (hpver : pver = none ∨ pver = some ver) :
    ipNetwork be (.str (intToStr be ver v ++ '/' :: T)) false pver fl =
      .ok ⟨ver, if hasFlag fl NOHOST then v &&& netNetmask (width ver) q else v, q⟩ := by
  apply net_of_parse be ver hver _ _ _ _ _ pver hpver
  · intro h6; subst h6
    exact parse4_v6text be v hv (some T) (by intro t ht; cases ht; exact hT) fl
  · rw [parse_with_prefix be ver hver v hv T q hT hres hq, applyNohost_ok ver hver fl v q hq]

/-- **All spellings agree.**  For every family, value `v` and prefix `p`: 'a/p', 'a/<netmask of p>',
    'a/<hostmask of p>', the tuple `(v, p)` and copy construction build `⟨ver, v, p⟩` — host bits
    kept — with explicit or detected version; the hostmask spelling at `p ∈ {0, width}` is the
    all-ones / all-zeros mask and reads as the netmask of `width - p` (netmask precedence). -/
theorem spellings_agree (be : Backend) (ver : Nat) (hver : VerOK ver) (v : Nat) (hv : v < 2 ^ width ver)
    (p : Nat) (hp : p ≤ width ver) (pver : Option Nat) (hpver : pver = none ∨ pver = some ver) :
    let a := intToStr be ver v
    let w := width ver
    ipNetwork be (.str (a ++ '/' :: dec p)) false pver 0 = .ok ⟨ver, v, p⟩ ∧
    ipNetwork be (.str (a ++ '/' :: intToStr be ver (netNetmask w p))) false pver 0 = .ok ⟨ver, v, p⟩ ∧
    ipNetwork be (.str (a ++ '/' :: intToStr be ver (netHostmask w p))) false pver 0
      = .ok ⟨ver, v, if p = 0 ∨ p = w then w - p else p⟩ ∧
    ipNetwork be (.tuple v p) false (some ver) 0 = .ok ⟨ver, v, p⟩ ∧
    ipNetwork be (.copyNet ⟨ver, v, p⟩) false pver 0 = .ok ⟨ver, v, p⟩ := by
  intro a w
  have hf := maskFacts_all ver hver p hp
  simp only [maskFacts, Bool.and_eq_true, Bool.or_eq_true, decide_eq_true_eq, beq_iff_eq, Bool.not_eq_true'] at hf
  obtain ⟨⟨⟨⟨⟨⟨⟨⟨⟨⟨⟨hnm, hhm⟩, hisn⟩, hish⟩, hnoth⟩, hlkn⟩, hlkh⟩, _⟩, hlk0⟩, hlkw⟩, hisn0⟩, hisnw⟩ := hf
  have hfl : hasFlag 0 NOHOST = false := by decide
  refine ⟨?_, ?_, ?_, ?_, rfl⟩
  · have := net_with_prefix be ver hver v hv (dec p) p (slash_not_in_dec p) (resolve_dec be ver p) hp 0 pver hpver
    simpa [hfl] using this
  · have hres : resolvePrefix be ver (some (intToStr be ver (netNetmask w p))) = .ok (p : Int) := by
      rw [resolve_mask be ver hver _ hnm, hisn, hlkn]; rfl
    have := net_with_prefix be ver hver v hv _ p (addr_noslash be ver hver _ hnm) hres hp 0 pver hpver
    simpa [hfl] using this
  · by_cases hpe : p = 0 ∨ p = w
    · -- all-ones / all-zeros: a netmask
      have hq : w - p ≤ width ver := by omega
      have hres : resolvePrefix be ver (some (intToStr be ver (netHostmask w p))) = .ok ((w - p : Nat) : Int) := by
        rw [resolve_mask be ver hver _ hhm]
        rcases hpe with e | e
        · subst e; rw [hisn0, hlk0]; rfl
        · rw [e]; rw [hisnw, hlkw]; simp
      have := net_with_prefix be ver hver v hv _ (w - p) (addr_noslash be ver hver _ hhm) hres hq 0 pver hpver
      simpa [hfl, hpe] using this
    · have hn : isNetmask w (netHostmask w p) = false := by
        rcases hnoth with h | h
        · exact absurd h hpe
        · exact h
      have hres : resolvePrefix be ver (some (intToStr be ver (netHostmask w p))) = .ok (p : Int) := by
        rw [resolve_mask be ver hver _ hhm, hn, hish, hlkh]; rfl
      have := net_with_prefix be ver hver v hv _ p (addr_noslash be ver hver _ hhm) hres hp 0 pver hpver
      simpa [hfl, hpe] using this
  · have hmax : (v : Int) ≤ (maxInt ver : Int) := by
      have : v ≤ maxInt ver := by unfold maxInt; omega
      omega
    have h1 : ¬ ¬ (0 ≤ (v : Int) ∧ (v : Int) ≤ (maxInt ver : Int)) := by
      intro h; apply h; exact ⟨by omega, hmax⟩
    have h2 : ¬ ¬ (0 ≤ (p : Int) ∧ (p : Int) ≤ (width ver : Int)) := by
      intro h; apply h; constructor <;> omega
    have hver' : ver = 4 ∨ ver = 6 := hver
    unfold ipNetwork
    simp only [if_pos hver']
    unfold parseIpNetwork
    simp only [h1, h2, if_false, Int.toNat_natCast, applyNohost_ok ver hver 0 v p hp, hfl, Bool.false_eq_true]

example : VerOK 6 ∧ (0xfe80 <<< 112 ||| 5) < 2 ^ width 6 ∧ 10 ≤ width 6 := ⟨Or.inr rfl, by decide, by decide⟩

/-- **str() round trip.**  `IPNetwork(str(n)) = n` (version, value with host bits, prefix), with
    or without an explicit version, on both back ends. -/
theorem str_roundtrip (be : Backend) (n : Net) (hn : n.WF) (pver : Option Nat) (hpver : pver = none ∨ pver = some n.ver) :
    ipNetwork be (.str (netStr be n)) false pver 0 = .ok n := by
  obtain ⟨hver, hv, hp⟩ := hn
  have := (spellings_agree be n.ver hver n.val hv n.plen hp pver hpver).1
  unfold netStr
  rw [List.append_assoc]
  exact this

example : (⟨4, 0xC0A80105, 24⟩ : Net).WF := by simp [Net.WF, width]

/-- **A bare address gets the full-width prefix** (string or IPAddress copy). -/
theorem bare_gets_width (be : Backend) (ver : Nat) (hver : VerOK ver) (v : Nat) (hv : v < 2 ^ width ver)
    (pver : Option Nat) (hpver : pver = none ∨ pver = some ver) :
    ipNetwork be (.str (intToStr be ver v)) false pver 0 = .ok ⟨ver, v, width ver⟩ ∧
    ipNetwork be (.copyAddr ⟨ver, v⟩) false pver 0 = .ok ⟨ver, v, width ver⟩ := by
  refine ⟨?_, rfl⟩
  apply net_of_parse be ver hver _ _ _ _ _ pver hpver
  · intro h6; subst h6
    have := parse4_v6text be v hv none (by intro t ht; cases ht) 0
    simpa using this
  · rw [parse_bare be ver hver v hv, applyNohost_ok ver hver 0 v _ (Nat.le_refl _)]
    rfl

/-- **NOHOST clears exactly the host bits**: the stored value becomes `v / 2^(w-p) * 2^(w-p)`
    (prefix kept), for the string and the tuple form. -/
theorem nohost_clears_exactly (be : Backend) (ver : Nat) (hver : VerOK ver) (v : Nat) (hv : v < 2 ^ width ver)
    (p : Nat) (hp : p ≤ width ver) (pver : Option Nat) (hpver : pver = none ∨ pver = some ver) :
    ipNetwork be (.str (intToStr be ver v ++ '/' :: dec p)) false pver NOHOST
      = .ok ⟨ver, v / 2 ^ (width ver - p) * 2 ^ (width ver - p), p⟩ ∧
    ipNetwork be (.tuple v p) false (some ver) NOHOST
      = .ok ⟨ver, v / 2 ^ (width ver - p) * 2 ^ (width ver - p), p⟩ := by
  have hfl : hasFlag NOHOST NOHOST = true := by decide
  have hand : v &&& netNetmask (width ver) p = v / 2 ^ (width ver - p) * 2 ^ (width ver - p) := by
    show v &&& ((2 ^ width ver - 1) ^^^ hostmaskInt (width ver) p) = _
    rw [hostmaskInt_eq]
    exact and_netmask (width ver) (width ver - p) v hv (by omega)
  constructor
  · have := net_with_prefix be ver hver v hv (dec p) p (slash_not_in_dec p) (resolve_dec be ver p) hp NOHOST pver hpver
    rw [this]; simp only [hfl, if_true, hand]
  · have hmax : (v : Int) ≤ (maxInt ver : Int) := by
      have : v ≤ maxInt ver := by unfold maxInt; omega
      omega
    have h1 : ¬ ¬ (0 ≤ (v : Int) ∧ (v : Int) ≤ (maxInt ver : Int)) := by
      intro h; apply h; exact ⟨by omega, hmax⟩
    have h2 : ¬ ¬ (0 ≤ (p : Int) ∧ (p : Int) ≤ (width ver : Int)) := by
      intro h; apply h; constructor <;> omega
    have hver' : ver = 4 ∨ ver = 6 := hver
    unfold ipNetwork
    simp only [if_pos hver']
    unfold parseIpNetwork
    simp only [h1, h2, if_false, Int.toNat_natCast, applyNohost_ok ver hver NOHOST v p hp, hfl, if_true, hand]

example : (0xC0A80105 : Nat) / 2 ^ (32 - 24) * 2 ^ (32 - 24) = 0xC0A80100 := by decide

/-- without a version a tuple is IPv4 when value and prefix fit IPv4, else IPv6 -/
theorem tuple_implicit (be : Backend) (v p : Nat) :
    (v < 2 ^ 32 → p ≤ 32 → ipNetwork be (.tuple v p) false none 0 = .ok ⟨4, v, p⟩) ∧
    (v < 2 ^ 128 → p ≤ 128 → ¬ (v < 2 ^ 32 ∧ p ≤ 32) → ipNetwork be (.tuple v p) false none 0 = .ok ⟨6, v, p⟩) := by
  have hfl : hasFlag 0 NOHOST = false := by decide
  have m4 : maxInt 4 = 4294967295 := by decide
  have w4 : width 4 = 32 := rfl
  have m6 : maxInt 6 = 340282366920938463463374607431768211455 := by decide
  have w6 : width 6 = 128 := rfl
  constructor
  · intro hv hp
    have h1 : ¬ ¬ (0 ≤ (v : Int) ∧ (v : Int) ≤ (maxInt 4 : Int)) := by
      intro h; apply h; rw [m4]; constructor <;> omega
    have h2 : ¬ ¬ (0 ≤ (p : Int) ∧ (p : Int) ≤ (width 4 : Int)) := by
      intro h; apply h; rw [w4]; constructor <;> omega
    unfold ipNetwork parseIpNetwork
    simp only [h1, h2, if_false, Int.toNat_natCast, applyNohost_ok 4 (Or.inl rfl) 0 v p (by rw [w4]; exact hp), hfl,
      Bool.false_eq_true]
  · intro hv hp hno
    have h1 : ¬ ¬ (0 ≤ (v : Int) ∧ (v : Int) ≤ (maxInt 6 : Int)) := by
      intro h; apply h; rw [m6]; constructor <;> omega
    have h2 : ¬ ¬ (0 ≤ (p : Int) ∧ (p : Int) ≤ (width 6 : Int)) := by
      intro h; apply h; rw [w6]; constructor <;> omega
    have h4 : parseIpNetwork be 4 (.tuple v p) false 0 = .error .addrFormat := by
      unfold parseIpNetwork
      by_cases hv4 : v < 2 ^ 32
      · have hp4 : ¬ (p ≤ 32) := fun h => hno ⟨hv4, h⟩
        have g1 : ¬ ¬ (0 ≤ (v : Int) ∧ (v : Int) ≤ (maxInt 4 : Int)) := by
          intro h; apply h; rw [m4]; constructor <;> omega
        have g2 : ¬ (0 ≤ (p : Int) ∧ (p : Int) ≤ (width 4 : Int)) := by
          rw [w4]; omega
        simp only [g1, g2, if_false, not_false_eq_true, if_true]
      · have g1 : ¬ (0 ≤ (v : Int) ∧ (v : Int) ≤ (maxInt 4 : Int)) := by
          rw [m4]; omega
        simp only [g1, not_false_eq_true, if_true]
    have h6 : parseIpNetwork be 6 (.tuple v p) false 0 = .ok (v, p) := by
      unfold parseIpNetwork
      simp only [h1, h2, if_false, Int.toNat_natCast, applyNohost_ok 6 (Or.inr rfl) 0 v p (by rw [w6]; exact hp), hfl,
        Bool.false_eq_true]
    unfold ipNetwork
    simp only [h4, h6]

/-- an IPv4 text is no IPv6 network address -/
theorem parse6_v4text (be : Backend) (v : Nat) (hv : v < 2 ^ 32) (rest : Option (List Char))
    (hrest : ∀ t, rest = some t → t.contains '/' = false) (fl : Nat) :
    parseIpNetwork be 6 (.str (intToStr be 4 v ++ (match rest with | none => [] | some t => '/' :: t))) false fl
      = .error .addrFormat := by
  have hns := addr_noslash be 4 (Or.inl rfl) v hv
  have hx : ipAddress be (intToStr be 4 v) (some 6) INET_PTON = .error .addrFormat :=
    (C01.no_cross_family be INET_PTON).1 v hv
  have h64 : ¬ ((6 : Nat) = 4) := by decide
  unfold parseIpNetwork
  cases rest with
  | none =>
    simp only [List.append_nil, Bool.false_eq_true, if_false, splitSlash_none _ hns, secondSlash, parseStrCore, hx, h64]
  | some t =>
    have ht := hrest t rfl
    simp only [Bool.false_eq_true, if_false, splitSlash_app _ t hns, secondSlash, parseStrCore, ht, hx, h64]

/-- **Rejections.**  (1) a decimal prefix beyond the width, (2) a tuple whose value or prefix is
    out of range (negative or too large), (3) a mask text that is neither a netmask nor a
    hostmask: each raises AddrFormatError, with explicit or detected version. -/
theorem rejects (be : Backend) (ver : Nat) (hver : VerOK ver) (v : Nat) (hv : v < 2 ^ width ver)
    (pver : Option Nat) (hpver : pver = none ∨ pver = some ver) (fl : Nat) :
    (∀ q, q > width ver →
      ipNetwork be (.str (intToStr be ver v ++ '/' :: dec q)) false pver fl = .error .addrFormat) ∧
    (∀ value prefixlen : Int, ¬ (0 ≤ value ∧ value ≤ (maxInt ver : Int)) ∨ ¬ (0 ≤ prefixlen ∧ prefixlen ≤ (width ver : Int)) →
      ipNetwork be (.tuple value prefixlen) false (some ver) fl = .error .addrFormat) ∧
    (∀ m, m < 2 ^ width ver → isNetmask (width ver) m = false → isHostmask m = false →
      ipNetwork be (.str (intToStr be ver v ++ '/' :: intToStr be ver m)) false pver fl = .error .addrFormat) := by
  have hns := addr_noslash be ver hver v hv
  have hver' : ver = 4 ∨ ver = 6 := hver
  -- a string whose own-family parse is AddrFormatError, and whose other-family parse too
  have lift : ∀ T : List Char, T.contains '/' = false →
      parseIpNetwork be ver (.str (intToStr be ver v ++ '/' :: T)) false fl = .error .addrFormat →
      ipNetwork be (.str (intToStr be ver v ++ '/' :: T)) false pver fl = .error .addrFormat := by
    intro T hT h
    unfold ipNetwork
    rcases hpver with hp | hp <;> subst hp
    · rcases hver' with e | e <;> subst e
      · have h6 := parse6_v4text be v hv (some T) (by intro t ht; cases ht; exact hT) fl
        simp only [h, h6]
      · have h4 := parse4_v6text be v hv (some T) (by intro t ht; cases ht; exact hT) fl
        simp only [h4, h]
    · simp only [if_pos hver', h]
  refine ⟨?_, ?_, ?_⟩
  · intro q hq
    apply lift _ (C03L.slash_not_in_dec q)
    have hrange : ¬ (0 ≤ (q : Int) ∧ (q : Int) ≤ (width ver : Int)) := by omega
    unfold parseIpNetwork
    simp only [Bool.false_eq_true, if_false, splitSlash_app _ _ hns, secondSlash, parseStrCore, C03L.slash_not_in_dec q, addr_rt be ver hver v hv,
      resolve_dec, hrange, not_false_eq_true, if_true]
  · intro value prefixlen h
    unfold ipNetwork
    simp only [if_pos hver']
    unfold parseIpNetwork
    rcases h with h | h
    · simp only [h, not_false_eq_true, if_true]
    · by_cases h1 : (0 ≤ value ∧ value ≤ (maxInt ver : Int))
      · have hnn : ¬ ¬ (0 ≤ value ∧ value ≤ (maxInt ver : Int)) := fun hn => hn h1
        simp only [hnn, h, if_false, not_false_eq_true, if_true]
      · simp only [h1, not_false_eq_true, if_true]
  · intro m hm hn hh
    have hT := addr_noslash be ver hver m hm
    apply lift _ hT
    have hres : resolvePrefix be ver (some (intToStr be ver m)) = .error .addrFormat := by
      rw [resolve_mask be ver hver m hm, hn, hh]; rfl
    unfold parseIpNetwork
    simp only [Bool.false_eq_true, if_false, splitSlash_app _ _ hns, secondSlash, parseStrCore, hT, addr_rt be ver hver v hv, hres]

example : isNetmask 32 0xff00ff00 = false ∧ isHostmask 0xff00ff00 = false ∧ 0xff00ff00 < 2 ^ width 4 := by decide

/-- the documented class rules -/
def classOf (o : Nat) : Nat :=
  if o ≤ 127 then 8 else if o ≤ 191 then 16 else if o ≤ 223 then 24 else if o ≤ 239 then 4 else 32

/-- **Classful rules**: `classful_prefix` is exactly 0-127 → 8, 128-191 → 16, 192-223 → 24,
    224-239 → 4, 240-255 → 32, and IndexError outside 0..255. -/
theorem classful_rules (o : Int) :
    classfulPrefix o = if 0 ≤ o ∧ o ≤ 255 then some (classOf o.toNat) else none := by
  unfold classfulPrefix classOf
  by_cases h : 0 ≤ o ∧ o ≤ 255
  · simp only [h, not_true_eq_false, if_false, and_self, if_true]
    by_cases h1 : o ≤ 127
    · have : o.toNat ≤ 127 := by omega
      simp [h.1, h1, this]
    · by_cases h2 : o ≤ 191
      · have a : ¬ o.toNat ≤ 127 := by omega
        have b : o.toNat ≤ 191 := by omega
        have c : (128 : Int) ≤ o := by omega
        simp [h1, h2, a, b, c]
      · by_cases h3 : o ≤ 223
        · have a : ¬ o.toNat ≤ 127 := by omega
          have b : ¬ o.toNat ≤ 191 := by omega
          have c : o.toNat ≤ 223 := by omega
          have d : (192 : Int) ≤ o := by omega
          simp [h1, h2, h3, a, b, c, d]
        · by_cases h4 : o ≤ 239
          · have a : ¬ o.toNat ≤ 127 := by omega
            have b : ¬ o.toNat ≤ 191 := by omega
            have c : ¬ o.toNat ≤ 223 := by omega
            have d : o.toNat ≤ 239 := by omega
            have e : (224 : Int) ≤ o := by omega
            simp [h1, h2, h3, h4, a, b, c, d, e]
          · have a : ¬ o.toNat ≤ 127 := by omega
            have b : ¬ o.toNat ≤ 191 := by omega
            have c : ¬ o.toNat ≤ 223 := by omega
            have d : ¬ o.toNat ≤ 239 := by omega
            simp [h1, h2, h3, h4, a, b, c, d]
  · simp [h]

/-- a single octet `a` abbreviates `a.0.0.0/<class prefix>`; with `implicit_prefix=True` the
    network is `⟨4, a·2^24, class prefix⟩` -/
theorem abbrev_single (be : Backend) (a : Nat) (ha : a < 256) :
    cidrAbbrevToVerbose (dec a) = dec a ++ ".0.0.0/".toList ++ dec (classOf a) ∧
    ipNetwork be (.str (dec a)) true (some 4) 0 = .ok ⟨4, a * 16777216, classOf a⟩ := by
  have hcol : (dec a).contains ':' = false := contains_false_of_not_mem (colon_not_in_dec a)
  have hne : (dec a == []) = false := by
    cases h : dec a with
    | nil => exact absurd h (dec_ne_nil a)
    | cons _ _ => rfl
  have hcls : classfulPrefix (a : Int) = some (classOf a) := by
    rw [classful_rules]
    have : 0 ≤ (a : Int) ∧ (a : Int) ≤ 255 := by omega
    simp [this]
  have habb : cidrAbbrevToVerbose (dec a) = dec a ++ ".0.0.0/".toList ++ dec (classOf a) := by
    unfold cidrAbbrevToVerbose
    simp only [hcol, hne, Bool.or_self, Bool.false_eq_true, if_false, pyInt_dec, hcls, showInt_nat]
  refine ⟨habb, ?_⟩
  have w4 : width 4 = 32 := rfl
  have hcl : classOf a ≤ width 4 := by
    rw [w4]; unfold classOf; split <;> (try split) <;> (try split) <;> (try split) <;> omega
  have hv : a * 16777216 < 2 ^ width 4 := by rw [w4]; omega
  have htext : dec a ++ ".0.0.0/".toList ++ dec (classOf a) = intToStr be 4 (a * 16777216) ++ '/' :: dec (classOf a) := by
    show _ = ntoa (a * 16777216) ++ _
    rw [ntoa_eq]
    have e0 : a * 16777216 / 16777216 = a := by omega
    have e1 : a * 16777216 / 65536 % 256 = 0 := by omega
    have e2 : a * 16777216 / 256 % 256 = 0 := by omega
    have e3 : a * 16777216 % 256 = 0 := by omega
    rw [e0, e1, e2, e3]
    simp [List.intercalate, dec]
  have hparse : parseIpNetwork be 4 (.str (dec a)) true 0 =
      parseIpNetwork be 4 (.str (cidrAbbrevToVerbose (dec a))) false 0 := by
    unfold parseIpNetwork; simp
  unfold ipNetwork
  have h44 : (4 : Nat) = 4 ∨ (4 : Nat) = 6 := Or.inl rfl
  simp only [if_pos h44, hparse, habb, htext]
  rw [parse_with_prefix be 4 (Or.inl rfl) _ hv _ _ (C03L.slash_not_in_dec _) (resolve_dec be 4 _) hcl,
    applyNohost_ok 4 (Or.inl rfl) 0 _ _ hcl]
  rfl

example : classOf 10 = 8 ∧ classOf 128 = 16 ∧ classOf 192 = 24 ∧ classOf 224 = 4 ∧ classOf 240 = 32 := by decide

/-- a string that is not a strict dotted quad but expands (`expand_partial_address`) to one -/
theorem net_of_partial (be : Backend) (txt : List Char) (val p : Nat)
    (h1 : txt.contains '/' = false) (h2 : inetPton4 be txt = none)
    (h3 : expandPartialAddress txt = .ok (ntoa val)) (hval : val < 2 ^ 32) (hp : p ≤ 32) :
    ipNetwork be (.str (txt ++ '/' :: dec p)) false (some 4) 0 = .ok ⟨4, val, p⟩ := by
  have hw : width 4 = 32 := rfl
  have hfl : hasFlag 0 NOHOST = false := by decide
  have hip : ipAddress be txt (some 4) INET_PTON = .error .addrFormat := by
    have : ¬ ((4 : Nat) ≠ 4 ∧ (4 : Nat) ≠ 6) := by decide
    have hpt : hasFlag INET_PTON INET_PTON = true := by decide
    have hzf : hasFlag INET_PTON ZEROFILL = false := by decide
    simp only [ipAddress, this, if_false, h1, Bool.false_eq_true, strToInt, if_true, strToInt4, hpt, hzf, h2]
  have hrt : ipAddress be (ntoa val) (some 4) INET_PTON = .ok ⟨4, val⟩ :=
    addr_rt be 4 (Or.inl rfl) val (by rw [hw]; exact hval)
  have hrange : ¬ ¬ (0 ≤ (p : Int) ∧ (p : Int) ≤ (width 4 : Int)) := by
    intro h; apply h; rw [hw]; constructor <;> omega
  have h44 : (4 : Nat) = 4 ∨ (4 : Nat) = 6 := Or.inl rfl
  unfold ipNetwork
  simp only [if_pos h44]
  unfold parseIpNetwork
  simp only [Bool.false_eq_true, if_false, splitSlash_app _ _ h1, secondSlash, parseStrCore, C03L.slash_not_in_dec p, hip, if_true, h3, hrt,
    resolve_dec, hrange, Int.toNat_natCast, applyNohost_ok 4 (Or.inl rfl) 0 val p (by rw [hw]; exact hp), hfl]
  simp

theorem pton4_short (be : Backend) (toks : List (List Char)) (hd : ∀ t ∈ toks, '.' ∉ t) (hne : toks ≠ [])
    (hlen : toks.length ≠ 4) : inetPton4 be (['.'].intercalate toks) = none := by
  have hs : (['.'].intercalate toks).splitOn '.' = toks := List.splitOn_intercalate _ hd hne
  have hp : Text4.pton4 (['.'].intercalate toks) = none := by
    unfold Text4.pton4
    rw [hs]
    match toks, hlen with
    | [], _ => rfl
    | [_], _ => rfl
    | [_, _], _ => rfl
    | [_, _, _], _ => rfl
    | [_, _, _, _], h => exact absurd rfl h
    | _ :: _ :: _ :: _ :: _ :: _, _ => rfl
  cases be
  · exact hp
  · show FbSocket.pton4 _ = none
    rw [fb_pton4_eq]; exact hp

/-- **Partial IPv4 addresses expand by octet padding**: one, two or three decimal octets
    (`a`, `a.b`, `a.b.c`) followed by '/p' denote `a.0.0.0/p`, `a.b.0.0/p`, `a.b.c.0/p`. -/
theorem partial_expands (be : Backend) (a b c p : Nat) (ha : a < 256) (hb : b < 256) (hc : c < 256) (hp : p ≤ 32) :
    ipNetwork be (.str (dec a ++ '/' :: dec p)) false (some 4) 0 = .ok ⟨4, a * 16777216, p⟩ ∧
    ipNetwork be (.str (dec a ++ '.' :: dec b ++ '/' :: dec p)) false (some 4) 0
      = .ok ⟨4, a * 16777216 + b * 65536, p⟩ ∧
    ipNetwork be (.str (dec a ++ '.' :: (dec b ++ '.' :: dec c) ++ '/' :: dec p)) false (some 4) 0
      = .ok ⟨4, a * 16777216 + b * 65536 + c * 256, p⟩ := by
  have hda := C03L.dot_not_in_dec a
  have hdb := C03L.dot_not_in_dec b
  have hdc := C03L.dot_not_in_dec c
  have ntoa_of : ∀ x y z : Nat, x < 256 → y < 256 → z < 256 →
      ntoa (x * 16777216 + y * 65536 + z * 256) = dec x ++ '.' :: (dec y ++ '.' :: (dec z ++ '.' :: dec 0)) := by
    intro x y z hx hy hz
    rw [ntoa_eq]
    have e0 : (x * 16777216 + y * 65536 + z * 256) / 16777216 = x := by omega
    have e1 : (x * 16777216 + y * 65536 + z * 256) / 65536 % 256 = y := by omega
    have e2 : (x * 16777216 + y * 65536 + z * 256) / 256 % 256 = z := by omega
    have e3 : (x * 16777216 + y * 65536 + z * 256) % 256 = 0 := by omega
    rw [e0, e1, e2, e3]
    simp [List.intercalate]
  have noslash : ∀ t : List Char, (∀ ch ∈ t, ch = '.' ∨ ∃ n, ch ∈ dec n) → t.contains '/' = false := by
    intro t ht
    apply contains_false_of_not_mem
    intro hm
    rcases ht _ hm with e | ⟨n, hn⟩
    · exact absurd e (by decide)
    · exact (dec_decCh n _ hn).2.2.2.2.2.2.1 rfl
  refine ⟨?_, ?_, ?_⟩
  · -- a
    apply net_of_partial be (dec a) _ p (C03L.slash_not_in_dec a)
    · have := pton4_short be [dec a] (by intro t ht; simp at ht; subst ht; exact hda) (by simp) (by simp)
      simpa [List.intercalate] using this
    · have hcol : (dec a).contains ':' = false := contains_false_of_not_mem (C03L.colon_not_in_dec a)
      have hdot : (dec a).contains '.' = false := contains_false_of_not_mem hda
      have := ntoa_of a 0 0 ha (by decide) (by decide)
      simp only [Nat.zero_mul, Nat.add_zero] at this
      unfold expandPartialAddress
      simp only [hcol, hdot, Bool.false_eq_true, if_false, pyInt_dec, Option.map_some, showInt_nat]
      simp [this, List.intercalate, show dec 0 = ['0'] from by decide]
    · omega
    · exact hp
  · -- a.b
    have htxt : dec a ++ '.' :: dec b = ['.'].intercalate [dec a, dec b] := by simp [List.intercalate]
    have hns : (dec a ++ '.' :: dec b).contains '/' = false := by
      apply noslash; intro ch hch
      simp only [List.mem_append, List.mem_cons] at hch
      rcases hch with h | h | h
      · exact Or.inr ⟨a, h⟩
      · exact Or.inl h
      · exact Or.inr ⟨b, h⟩
    apply net_of_partial be _ _ p hns
    · rw [htxt]
      exact pton4_short be _ (by intro t ht; simp at ht; rcases ht with e | e <;> subst e <;> assumption) (by simp) (by simp)
    · have hcol : (dec a ++ '.' :: dec b).contains ':' = false := by
        apply contains_false_of_not_mem
        simp only [List.mem_append, List.mem_cons, not_or]
        exact ⟨C03L.colon_not_in_dec a, by decide, C03L.colon_not_in_dec b⟩
      have hdot : (dec a ++ '.' :: dec b).contains '.' = true := by simp
      have hsplit : (dec a ++ '.' :: dec b).splitOn '.' = [dec a, dec b] := by
        rw [htxt]; exact List.splitOn_intercalate _ (by intro t ht; simp at ht; rcases ht with e | e <;> subst e <;> assumption) (by simp)
      have := ntoa_of a b 0 ha hb (by decide)
      simp only [Nat.zero_mul, Nat.add_zero] at this
      unfold expandPartialAddress
      simp only [hcol, hdot, Bool.false_eq_true, if_false, if_true, hsplit, List.mapM_cons, List.mapM_nil, pyInt_dec,
        Option.map_some, showInt_nat, Option.bind_eq_bind, Option.bind_some, Option.pure_def]
      simp [this, List.intercalate, show dec 0 = ['0'] from by decide]
    · omega
    · exact hp
  · -- a.b.c
    have htxt : dec a ++ '.' :: (dec b ++ '.' :: dec c) = ['.'].intercalate [dec a, dec b, dec c] := by
      simp [List.intercalate]
    have hns : (dec a ++ '.' :: (dec b ++ '.' :: dec c)).contains '/' = false := by
      apply noslash; intro ch hch
      simp only [List.mem_append, List.mem_cons] at hch
      rcases hch with h | h | h | h | h
      · exact Or.inr ⟨a, h⟩
      · exact Or.inl h
      · exact Or.inr ⟨b, h⟩
      · exact Or.inl h
      · exact Or.inr ⟨c, h⟩
    apply net_of_partial be _ _ p hns
    · rw [htxt]
      exact pton4_short be _ (by intro t ht; simp at ht; rcases ht with e | e | e <;> subst e <;> assumption) (by simp) (by simp)
    · have hcol : (dec a ++ '.' :: (dec b ++ '.' :: dec c)).contains ':' = false := by
        apply contains_false_of_not_mem
        simp only [List.mem_append, List.mem_cons, not_or]
        exact ⟨C03L.colon_not_in_dec a, by decide, C03L.colon_not_in_dec b, by decide, C03L.colon_not_in_dec c⟩
      have hdot : (dec a ++ '.' :: (dec b ++ '.' :: dec c)).contains '.' = true := by simp
      have hsplit : (dec a ++ '.' :: (dec b ++ '.' :: dec c)).splitOn '.' = [dec a, dec b, dec c] := by
        rw [htxt]; exact List.splitOn_intercalate _ (by intro t ht; simp at ht; rcases ht with e | e | e <;> subst e <;> assumption) (by simp)
      have := ntoa_of a b c ha hb hc
      unfold expandPartialAddress
      simp only [hcol, hdot, Bool.false_eq_true, if_false, if_true, hsplit, List.mapM_cons, List.mapM_nil, pyInt_dec,
        Option.map_some, showInt_nat, Option.bind_eq_bind, Option.bind_some, Option.pure_def]
      simp [this, List.intercalate, show dec 0 = ['0'] from by decide]
    · omega
    · exact hp

example : (192 : Nat) * 16777216 + 168 * 65536 = 0xC0A80000 := by decide

/-- `cidr_abbrev_to_verbose` on 2-4 dotted decimal octets without a prefix: pad with zero octets,
    append the class prefix of the first octet -/
theorem abbrev_tokens (os : List Nat) (a : Nat) (rest : List Nat) (hos : os = a :: rest) (ha : a < 256)
    (hlen : 2 ≤ os.length ∧ os.length ≤ 4) :
    cidrAbbrevToVerbose (['.'].intercalate (os.map dec)) =
      ['.'].intercalate (os.map dec ++ List.replicate (4 - os.length) ['0']) ++ ['/'] ++ dec (classOf a) := by
  have hd : ∀ t ∈ os.map dec, '.' ∉ t := by
    intro t ht; obtain ⟨n, _, rfl⟩ := List.mem_map.mp ht; exact C03L.dot_not_in_dec n
  have hne : os.map dec ≠ [] := by rw [hos]; simp
  have hsplit : (['.'].intercalate (os.map dec)).splitOn '.' = os.map dec := List.splitOn_intercalate _ hd hne
  generalize htxt : ['.'].intercalate (os.map dec) = txt at *
  have hmem : ∀ ch ∈ txt, ch = '.' ∨ ∃ n, ch ∈ dec n := by
    intro ch hch
    rw [← htxt] at hch
    rcases mem_intercalate '.' _ ch hch with e | ⟨t, ht, hc⟩
    · exact Or.inl e
    · obtain ⟨n, _, rfl⟩ := List.mem_map.mp ht; exact Or.inr ⟨n, hc⟩
  have hcol : txt.contains ':' = false := by
    apply contains_false_of_not_mem
    intro h; rcases hmem _ h with e | ⟨n, hn⟩
    · exact absurd e (by decide)
    · exact C03L.colon_not_in_dec n hn
  have hsl : txt.contains '/' = false := by
    apply contains_false_of_not_mem
    intro h; rcases hmem _ h with e | ⟨n, hn⟩
    · exact absurd e (by decide)
    · exact (dec_decCh n _ hn).2.2.2.2.2.2.1 rfl
  have hdot : '.' ∈ txt := by
    rw [← htxt, hos]
    cases rest with
    | nil => simp [hos] at hlen
    | cons b r => simp only [List.map_cons]; rw [intercalate_cons_cons]; simp
  have hnil : (txt == []) = false := by
    cases txt with
    | nil => simp at hdot
    | cons _ _ => rfl
  have hcls : classfulPrefix (a : Int) = some (classOf a) := by
    rw [classful_rules]
    have : 0 ≤ (a : Int) ∧ (a : Int) ≤ 255 := by omega
    simp [this]
  have hlen4 : ¬ ((os.map dec).length > 4) := by simp; omega
  have hhead : (os.map dec ++ List.replicate (4 - (os.map dec).length) ['0']).headD [] = dec a := by
    rw [hos]; simp
  unfold cidrAbbrevToVerbose
  simp only [hcol, hnil, Bool.or_self, Bool.false_eq_true, if_false, pyInt_dot _ hdot, splitSlash_none _ hsl,
    Bool.not_true, hsplit, hlen4, hhead, pyInt_dec, hcls]
  simp

/-- **Classful abbreviations with `implicit_prefix=True`**: `a.b` is `a.b.0.0/<class of a>` and
    `a.b.c` is `a.b.c.0/<class of a>`. -/
theorem abbrev_multi (be : Backend) (a b c : Nat) (ha : a < 256) (hb : b < 256) (hc : c < 256) :
    ipNetwork be (.str (dec a ++ '.' :: dec b)) true (some 4) 0 = .ok ⟨4, a * 16777216 + b * 65536, classOf a⟩ ∧
    ipNetwork be (.str (dec a ++ '.' :: (dec b ++ '.' :: dec c))) true (some 4) 0
      = .ok ⟨4, a * 16777216 + b * 65536 + c * 256, classOf a⟩ := by
  have w4 : width 4 = 32 := rfl
  have hcl : classOf a ≤ width 4 := by
    rw [w4]; unfold classOf; split <;> (try split) <;> (try split) <;> (try split) <;> omega
  have d0 : dec 0 = ['0'] := by decide
  have ntoa_of : ∀ x y z : Nat, x < 256 → y < 256 → z < 256 →
      ntoa (x * 16777216 + y * 65536 + z * 256) = dec x ++ '.' :: (dec y ++ '.' :: (dec z ++ '.' :: dec 0)) := by
    intro x y z hx hy hz
    rw [ntoa_eq]
    have e0 : (x * 16777216 + y * 65536 + z * 256) / 16777216 = x := by omega
    have e1 : (x * 16777216 + y * 65536 + z * 256) / 65536 % 256 = y := by omega
    have e2 : (x * 16777216 + y * 65536 + z * 256) / 256 % 256 = z := by omega
    have e3 : (x * 16777216 + y * 65536 + z * 256) % 256 = 0 := by omega
    rw [e0, e1, e2, e3]
    simp [List.intercalate]
  have h44 : (4 : Nat) = 4 ∨ (4 : Nat) = 6 := Or.inl rfl
  have hparse : ∀ s, parseIpNetwork be 4 (.str s) true 0 = parseIpNetwork be 4 (.str (cidrAbbrevToVerbose s)) false 0 := by
    intro s; unfold parseIpNetwork; simp
  constructor
  · have hab := abbrev_tokens [a, b] a [b] rfl ha (by simp)
    have e1 : ['.'].intercalate ([a, b].map dec) = dec a ++ '.' :: dec b := by simp [List.intercalate]
    have hv : a * 16777216 + b * 65536 < 2 ^ width 4 := by rw [w4]; omega
    have e2 : ['.'].intercalate ([a, b].map dec ++ List.replicate (4 - [a, b].length) ['0']) ++ ['/'] ++ dec (classOf a)
        = intToStr be 4 (a * 16777216 + b * 65536) ++ '/' :: dec (classOf a) := by
      show _ = ntoa (a * 16777216 + b * 65536) ++ _
      have := ntoa_of a b 0 ha hb (by decide)
      simp only [Nat.zero_mul, Nat.add_zero] at this
      rw [this, d0]; simp [List.intercalate]
    rw [e1, e2] at hab
    unfold ipNetwork
    simp only [if_pos h44, hparse, hab]
    rw [parse_with_prefix be 4 (Or.inl rfl) _ hv _ _ (C03L.slash_not_in_dec _) (resolve_dec be 4 _) hcl,
      applyNohost_ok 4 (Or.inl rfl) 0 _ _ hcl]
    rfl
  · have hab := abbrev_tokens [a, b, c] a [b, c] rfl ha (by simp)
    have e1 : ['.'].intercalate ([a, b, c].map dec) = dec a ++ '.' :: (dec b ++ '.' :: dec c) := by simp [List.intercalate]
    have hv : a * 16777216 + b * 65536 + c * 256 < 2 ^ width 4 := by rw [w4]; omega
    have e2 : ['.'].intercalate ([a, b, c].map dec ++ List.replicate (4 - [a, b, c].length) ['0']) ++ ['/'] ++ dec (classOf a)
        = intToStr be 4 (a * 16777216 + b * 65536 + c * 256) ++ '/' :: dec (classOf a) := by
      show _ = ntoa (a * 16777216 + b * 65536 + c * 256) ++ _
      rw [ntoa_of a b c ha hb hc, d0]; simp [List.intercalate]
    rw [e1, e2] at hab
    unfold ipNetwork
    simp only [if_pos h44, hparse, hab]
    rw [parse_with_prefix be 4 (Or.inl rfl) _ hv _ _ (C03L.slash_not_in_dec _) (resolve_dec be 4 _) hcl,
      applyNohost_ok 4 (Or.inl rfl) 0 _ _ hcl]
    rfl

example : classOf 192 = 24 ∧ (192 : Nat) * 16777216 + 168 * 65536 = 0xC0A80000 := by decide

theorem resolvePrefix_err (be : Backend) (ver : Nat) (hver : VerOK ver) (val2 : Option (List Char)) (e : Err)
    (hno : ∀ t, val2 = some t → t.contains '/' = false) (h : resolvePrefix be ver val2 = .error e) : e = .addrFormat := by
  have hver3 : some ver = none ∨ some ver = some 4 ∨ some ver = some 6 := by
    rcases hver with r | r <;> subst r <;> simp
  unfold resolvePrefix at h
  cases val2 with
  | none => cases h
  | some t =>
    have ht := hno t rfl
    simp only at h
    cases hpi : Py.pyInt 10 t with
    | some i => simp [hpi] at h
    | none =>
      simp only [hpi] at h
      cases hip : ipAddress be t (some ver) INET_PTON with
      | error e' =>
        simp only [hip] at h
        cases h
        exact C01.reject_is_addrformat be t (some ver) INET_PTON _ hver3 ht hip
      | ok mask =>
        simp only [hip] at h
        obtain ⟨_, hlt⟩ := ipAddress_ok_lt be t ver hver mask hip
        by_cases hn : isNetmask (width ver) mask.val = true
        · obtain ⟨p, _, hl⟩ := lookup_netmask ver hver mask.val hlt hn
          simp [hn, hl] at h
        · by_cases hh : isHostmask mask.val = true
          · obtain ⟨p, _, hl⟩ := lookup_hostmask ver hver mask.val hlt hh
            simp [hn, hh, hl] at h
          · simp [hn, hh] at h
            exact h.symm

/-- every failure of the string branch after the split is AddrFormatError -/
theorem core_err (be : Backend) (ver : Nat) (hver : VerOK ver) (val1 : List Char) (val2 : Option (List Char))
    (fl : Nat) (e : Err) (hfst : val1.contains '/' = false) (hno : ∀ t, val2 = some t → t.contains '/' = false)
    (h : parseStrCore be ver val1 val2 fl = .error e) : e = .addrFormat := by
  have hver3 : some ver = none ∨ some ver = some 4 ∨ some ver = some 6 := by
    rcases hver with r | r <;> subst r <;> simp
  unfold parseStrCore at h
  simp only at h
  cases h1 : ipAddress be val1 (some ver) INET_PTON with
  | ok a =>
    simp only [h1] at h
    cases hr : resolvePrefix be ver val2 with
    | error e' =>
      simp only [hr] at h; cases h
      exact resolvePrefix_err be ver hver val2 _ hno hr
    | ok q =>
      simp only [hr] at h
      split at h
      · cases h; rfl
      · rename_i hq
        have hq' : 0 ≤ q ∧ q ≤ (width ver : Int) := Classical.not_not.mp hq
        have : q.toNat ≤ width ver := by omega
        rw [applyNohost_ok ver hver fl a.val q.toNat this] at h
        cases h
  | error e1 =>
    have e1f := C01.reject_is_addrformat be val1 (some ver) INET_PTON e1 hver3 hfst h1
    subst e1f
    simp only [h1] at h
    by_cases hv4 : ver = 4
    · simp only [hv4, if_true] at h
      cases hx : expandPartialAddress val1 with
      | error ex =>
        simp only [hx] at h
        cases h
        unfold expandPartialAddress at hx
        split at hx
        · cases hx; rfl
        · simp only at hx
          split at hx
          · cases hx; rfl
          · split at hx
            · cases hx
            · cases hx; rfl
      | ok expanded =>
        simp only [hx] at h
        cases h2 : ipAddress be expanded (some 4) INET_PTON with
        | error e2 =>
          simp only [h2] at h; cases h
          exact C01.reject_is_addrformat be expanded (some 4) INET_PTON _ (Or.inr (Or.inl rfl)) (expand_noslash _ _ hx) h2
        | ok a =>
          simp only [h2] at h
          subst hv4
          cases hr : resolvePrefix be 4 val2 with
          | error e' =>
            simp only [hr] at h; cases h
            exact resolvePrefix_err be 4 hver val2 _ hno hr
          | ok q =>
            simp only [hr] at h
            split at h
            · cases h; rfl
            · rename_i hq
              have hq' : 0 ≤ q ∧ q ≤ (width 4 : Int) := Classical.not_not.mp hq
              have : q.toNat ≤ width 4 := by omega
              rw [applyNohost_ok 4 hver fl a.val q.toNat this] at h
              cases h
    · simp only [hv4, if_false] at h
      cases h; rfl

/-- every failure of `parse_ip_network` on a string is AddrFormatError -/
theorem parse_err (be : Backend) (ver : Nat) (hver : VerOK ver) (s : List Char) (i : Bool) (fl : Nat) (e : Err)
    (h : parseIpNetwork be ver (.str s) i fl = .error e) : e = .addrFormat := by
  unfold parseIpNetwork at h
  simp only at h
  generalize (if i = true then cidrAbbrevToVerbose s else s) = addr at h
  have hfst := splitSlash_fst addr
  generalize splitSlash addr = sp at h hfst
  obtain ⟨val1, val2⟩ := sp
  simp only at h hfst
  by_cases hss : secondSlash val2 = true
  · rw [if_pos hss] at h; cases h; rfl
  · rw [if_neg hss] at h
    have hno : ∀ t, val2 = some t → t.contains '/' = false := by
      intro t ht; subst ht
      cases hc : t.contains '/' with
      | false => rfl
      | true => exact absurd (show secondSlash (some t) = true from hc) hss
    exact core_err be ver hver val1 val2 fl e hfst hno h

/-- **A malformed network string raises AddrFormatError**: whatever string is given (with a valid
    or absent version argument, any flags, implicit_prefix or not), `IPNetwork(s)` either builds a
    network or raises AddrFormatError — never another exception class. -/
theorem error_is_addrformat (be : Backend) (s : List Char) (i : Bool) (pver : Option Nat) (fl : Nat) (e : Err)
    (hpver : pver = none ∨ pver = some 4 ∨ pver = some 6)
    (h : ipNetwork be (.str s) i pver fl = .error e) : e = .addrFormat := by
  unfold ipNetwork at h
  simp only at h
  rcases hpver with r | r | r <;> subst r <;> simp only at h
  · cases h4 : parseIpNetwork be 4 (.str s) i fl with
    | ok r => obtain ⟨v, p⟩ := r; simp [h4] at h
    | error e4 =>
      have := parse_err be 4 (Or.inl rfl) s i fl e4 h4
      subst this
      simp only [h4] at h
      cases h6 : parseIpNetwork be 6 (.str s) i fl with
      | ok r => obtain ⟨v, p⟩ := r; simp [h6] at h
      | error e6 =>
        simp only [h6] at h; cases h
        exact parse_err be 6 (Or.inr rfl) s i fl _ h6
  · have h44 : True ∨ (4 : Nat) = 6 := Or.inl trivial
    rw [if_pos h44] at h
    cases h4 : parseIpNetwork be 4 (.str s) i fl with
    | ok r => obtain ⟨v, p⟩ := r; simp [h4] at h
    | error e4 => simp only [h4] at h; cases h; exact parse_err be 4 (Or.inl rfl) s i fl _ h4
  · have h66 : (6 : Nat) = 4 ∨ True := Or.inr trivial
    rw [if_pos h66] at h
    cases h6 : parseIpNetwork be 6 (.str s) i fl with
    | ok r => obtain ⟨v, p⟩ := r; simp [h6] at h
    | error e6 => simp only [h6] at h; cases h; exact parse_err be 6 (Or.inr rfl) s i fl _ h6

example : (match ipNetwork .platform (.str "1.2.3.4//".toList) false none 0 with | .error .addrFormat => true | _ => false) = true := by
  decide

end NV.C03
