/-
Props/C03.lean — C03: all network notations denote the same network; str() round-trips.
-/
import NetaddrVerif.Model.NetParse
namespace NV.C03
open NV NV.AddrParse NV.NetParse

/-- copy construction of an IPNetwork returns the same (version, value, prefixlen) -/
theorem copy_same (be : Backend) (n : Net) (i : Bool) (ver : Option Nat) (fl : Nat) :
    ipNetwork be (.copyNet n) i ver fl = .ok n := rfl

end NV.C03
