/-
Props/C03.lean — C03: all network notations denote the same network; str() round-trips.

Property (properties.jsonl): for every address a and prefix p, the strings 'a/p',
'a/<netmask of p>', 'a/<hostmask of p>', the tuple (int(a), p) and copy-construction all build the
same IPNetwork (same version, same stored address including host bits, same prefix); str() of
any IPNetwork parses back to an identical one; a bare address gets the full-width prefix; NOHOST
clears exactly the host bits; partial / classful IPv4 abbreviations expand by the documented
octet-padding and class rules; a prefix outside 0..width, a non-contiguous mask or a malformed
address raises AddrFormatError.

Reading of the `p ∈ {0, width}` corner (DESIGN.md, C03): the all-zeros / all-ones mask strings
are netmasks first, so the hostmask spelling of /0 reads as /width and vice versa.

The theorems are about `NV.NetParse.ipNetwork` / `parseIpNetwork` / `netStr` /
`cidrAbbrevToVerbose` / `expandPartialAddress` (Model/NetParse.lean), for both back ends.
-/
import NetaddrVerif.Lemmas.C03L
namespace NV.C03
open NV NV.Text4 NV.AddrParse NV.NetParse NV.C01L NV.C03L

/-- string = address text + '/' + prefix text that resolves to `q ≤ width` -/
theorem parse_with_prefix (be : Backend) (ver : Nat) (hver : VerOK ver) (v : Nat) (hv : v < 2 ^ width ver)
    (T : List Char) (q : Nat) (hT : T.contains '/' = false)
    (hres : resolvePrefix be ver (some T) = .ok (q : Int)) (hq : q ≤ width ver) (fl : Nat) :
    parseIpNetwork be ver (.str (intToStr be ver v ++ '/' :: T)) false fl = applyNohost ver fl v q := by
  have hns := addr_noslash be ver hver v hv
  have hrange : ¬ ¬ (0 ≤ (q : Int) ∧ (q : Int) ≤ (width ver : Int)) := by
    intro h; apply h; constructor <;> omega
  unfold parseIpNetwork
  simp only [Bool.false_eq_true, if_false, splitSlash_app _ T hns, hT, addr_rt be ver hver v hv, hres, hrange,
    Int.toNat_natCast]

/-- a bare address -/
theorem parse_bare (be : Backend) (ver : Nat) (hver : VerOK ver) (v : Nat) (hv : v < 2 ^ width ver) (fl : Nat) :
    parseIpNetwork be ver (.str (intToStr be ver v)) false fl = applyNohost ver fl v (width ver) := by
  have hns := addr_noslash be ver hver v hv
  have hrange : ¬ ¬ (0 ≤ (width ver : Int) ∧ (width ver : Int) ≤ (width ver : Int)) := by
    intro h; apply h; constructor <;> omega
  unfold parseIpNetwork
  simp only [Bool.false_eq_true, if_false, splitSlash_none _ hns, addr_rt be ver hver v hv, resolve_none, hrange,
    Int.toNat_natCast]

/-- from `parse_ip_network` to `IPNetwork(...)`: explicit version, or detection (IPv4 first) -/
theorem net_of_parse (be : Backend) (ver : Nat) (hver : VerOK ver) (s : List Char) (i : Bool) (fl v' p : Nat)
    (pver : Option Nat) (hpver : pver = none ∨ pver = some ver)
    (h4 : ver = 6 → parseIpNetwork be 4 (.str s) i fl = .error .addrFormat)
    (h : parseIpNetwork be ver (.str s) i fl = .ok (v', p)) :
    ipNetwork be (.str s) i pver fl = .ok ⟨ver, v', p⟩ := by
  unfold ipNetwork
  rcases hpver with hp | hp <;> subst hp
  · rcases hver with hv | hv <;> subst hv
    · simp only [h]
    · simp only [h4 rfl, h]
  · have hver' : ver = 4 ∨ ver = 6 := hver
    simp only [if_pos hver', h]

/-- the result for address text `a` + a prefix text resolving to `q` -/
theorem net_with_prefix (be : Backend) (ver : Nat) (hver : VerOK ver) (v : Nat) (hv : v < 2 ^ width ver)
    (T : List Char) (q : Nat) (hT : T.contains '/' = false)
    (hres : resolvePrefix be ver (some T) = .ok (q : Int)) (hq : q ≤ width ver) (fl : Nat)
    (pver : Option Nat) (hpver : pver = none ∨ pver = some ver) :
    ipNetwork be (.str (intToStr be ver v ++ '/' :: T)) false pver fl =
      .ok ⟨ver, if hasFlag fl NOHOST then v &&& netNetmask (width ver) q else v, q⟩ := by
  apply net_of_parse be ver hver _ _ _ _ _ pver hpver
  · intro h6; subst h6
    exact parse4_v6text be v hv (some T) (by intro t ht; cases ht; exact hT) fl
  · rw [parse_with_prefix be ver hver v hv T q hT hres hq, applyNohost_ok ver hver fl v q hq]

/-- **All spellings agree.**  For every family, value `v` and prefix `p`: 'a/p', 'a/<netmask of p>',
    'a/<hostmask of p>', the tuple `(v, p)` and copy construction build `⟨ver, v, p⟩` — host bits
    kept — with explicit or detected version; the hostmask spelling at `p ∈ {0, width}` is the
    all-ones / all-zeros mask and reads as the netmask of `width - p` (netmask precedence). -/
theorem spellings_agree (be : Backend) (ver : Nat) (hver : VerOK ver) (v : Nat) (hv : v < 2 ^ width ver)
    (p : Nat) (hp : p ≤ width ver) (pver : Option Nat) (hpver : pver = none ∨ pver = some ver) :
    let a := intToStr be ver v
    let w := width ver
    ipNetwork be (.str (a ++ '/' :: dec p)) false pver 0 = .ok ⟨ver, v, p⟩ ∧
    ipNetwork be (.str (a ++ '/' :: intToStr be ver (netNetmask w p))) false pver 0 = .ok ⟨ver, v, p⟩ ∧
    ipNetwork be (.str (a ++ '/' :: intToStr be ver (netHostmask w p))) false pver 0
      = .ok ⟨ver, v, if p = 0 ∨ p = w then w - p else p⟩ ∧
    ipNetwork be (.tuple v p) false (some ver) 0 = .ok ⟨ver, v, p⟩ ∧
    ipNetwork be (.copyNet ⟨ver, v, p⟩) false pver 0 = .ok ⟨ver, v, p⟩ := by
  intro a w
  have hf := maskFacts_all ver hver p hp
  simp only [maskFacts, Bool.and_eq_true, Bool.or_eq_true, decide_eq_true_eq, beq_iff_eq, Bool.not_eq_true'] at hf
  obtain ⟨⟨⟨⟨⟨⟨⟨⟨⟨⟨⟨hnm, hhm⟩, hisn⟩, hish⟩, hnoth⟩, hlkn⟩, hlkh⟩, _⟩, hlk0⟩, hlkw⟩, hisn0⟩, hisnw⟩ := hf
  have hfl : hasFlag 0 NOHOST = false := by decide
  refine ⟨?_, ?_, ?_, ?_, rfl⟩
  · have := net_with_prefix be ver hver v hv (dec p) p (slash_not_in_dec p) (resolve_dec be ver p) hp 0 pver hpver
    simpa [hfl] using this
  · have hres : resolvePrefix be ver (some (intToStr be ver (netNetmask w p))) = .ok (p : Int) := by
      rw [resolve_mask be ver hver _ hnm, hisn, hlkn]; rfl
    have := net_with_prefix be ver hver v hv _ p (addr_noslash be ver hver _ hnm) hres hp 0 pver hpver
    simpa [hfl] using this
  · by_cases hpe : p = 0 ∨ p = w
    · -- all-ones / all-zeros: a netmask
      have hq : w - p ≤ width ver := by omega
      have hres : resolvePrefix be ver (some (intToStr be ver (netHostmask w p))) = .ok ((w - p : Nat) : Int) := by
        rw [resolve_mask be ver hver _ hhm]
        rcases hpe with e | e
        · subst e; rw [hisn0, hlk0]; rfl
        · rw [e]; rw [hisnw, hlkw]; simp
      have := net_with_prefix be ver hver v hv _ (w - p) (addr_noslash be ver hver _ hhm) hres hq 0 pver hpver
      simpa [hfl, hpe] using this
    · have hn : isNetmask w (netHostmask w p) = false := by
        rcases hnoth with h | h
        · exact absurd h hpe
        · exact h
      have hres : resolvePrefix be ver (some (intToStr be ver (netHostmask w p))) = .ok (p : Int) := by
        rw [resolve_mask be ver hver _ hhm, hn, hish, hlkh]; rfl
      have := net_with_prefix be ver hver v hv _ p (addr_noslash be ver hver _ hhm) hres hp 0 pver hpver
      simpa [hfl, hpe] using this
  · have hmax : (v : Int) ≤ (maxInt ver : Int) := by
      have : v ≤ maxInt ver := by unfold maxInt; omega
      omega
    have h1 : ¬ ¬ (0 ≤ (v : Int) ∧ (v : Int) ≤ (maxInt ver : Int)) := by
      intro h; apply h; exact ⟨by omega, hmax⟩
    have h2 : ¬ ¬ (0 ≤ (p : Int) ∧ (p : Int) ≤ (width ver : Int)) := by
      intro h; apply h; constructor <;> omega
    have hver' : ver = 4 ∨ ver = 6 := hver
    unfold ipNetwork
    simp only [if_pos hver']
    unfold parseIpNetwork
    simp only [h1, h2, if_false, Int.toNat_natCast, applyNohost_ok ver hver 0 v p hp, hfl, Bool.false_eq_true]

example : VerOK 6 ∧ (0xfe80 <<< 112 ||| 5) < 2 ^ width 6 ∧ 10 ≤ width 6 := ⟨Or.inr rfl, by decide, by decide⟩

/-- **str() round trip.**  `IPNetwork(str(n)) = n` (version, value with host bits, prefix), with
    or without an explicit version, on both back ends. -/
theorem str_roundtrip (be : Backend) (n : Net) (hn : n.WF) (pver : Option Nat) (hpver : pver = none ∨ pver = some n.ver) :
    ipNetwork be (.str (netStr be n)) false pver 0 = .ok n := by
  obtain ⟨hver, hv, hp⟩ := hn
  have := (spellings_agree be n.ver hver n.val hv n.plen hp pver hpver).1
  unfold netStr
  rw [List.append_assoc]
  exact this

example : (⟨4, 0xC0A80105, 24⟩ : Net).WF := by simp [Net.WF, width]

/-- **A bare address gets the full-width prefix** (string or IPAddress copy). -/
theorem bare_gets_width (be : Backend) (ver : Nat) (hver : VerOK ver) (v : Nat) (hv : v < 2 ^ width ver)
    (pver : Option Nat) (hpver : pver = none ∨ pver = some ver) :
    ipNetwork be (.str (intToStr be ver v)) false pver 0 = .ok ⟨ver, v, width ver⟩ ∧
    ipNetwork be (.copyAddr ⟨ver, v⟩) false pver 0 = .ok ⟨ver, v, width ver⟩ := by
  refine ⟨?_, rfl⟩
  apply net_of_parse be ver hver _ _ _ _ _ pver hpver
  · intro h6; subst h6
    have := parse4_v6text be v hv none (by intro t ht; cases ht) 0
    simpa using this
  · rw [parse_bare be ver hver v hv, applyNohost_ok ver hver 0 v _ (Nat.le_refl _)]
    rfl

/-- **NOHOST clears exactly the host bits**: the stored value becomes `v / 2^(w-p) * 2^(w-p)`
    (prefix kept), for the string and the tuple form. -/
theorem nohost_clears_exactly (be : Backend) (ver : Nat) (hver : VerOK ver) (v : Nat) (hv : v < 2 ^ width ver)
    (p : Nat) (hp : p ≤ width ver) (pver : Option Nat) (hpver : pver = none ∨ pver = some ver) :
    ipNetwork be (.str (intToStr be ver v ++ '/' :: dec p)) false pver NOHOST
      = .ok ⟨ver, v / 2 ^ (width ver - p) * 2 ^ (width ver - p), p⟩ ∧
    ipNetwork be (.tuple v p) false (some ver) NOHOST
      = .ok ⟨ver, v / 2 ^ (width ver - p) * 2 ^ (width ver - p), p⟩ := by
  have hfl : hasFlag NOHOST NOHOST = true := by decide
  have hand : v &&& netNetmask (width ver) p = v / 2 ^ (width ver - p) * 2 ^ (width ver - p) := by
    show v &&& ((2 ^ width ver - 1) ^^^ hostmaskInt (width ver) p) = _
    rw [hostmaskInt_eq]
    exact and_netmask (width ver) (width ver - p) v hv (by omega)
  constructor
  · have := net_with_prefix be ver hver v hv (dec p) p (slash_not_in_dec p) (resolve_dec be ver p) hp NOHOST pver hpver
    rw [this]; simp only [hfl, if_true, hand]
  · have hmax : (v : Int) ≤ (maxInt ver : Int) := by
      have : v ≤ maxInt ver := by unfold maxInt; omega
      omega
    have h1 : ¬ ¬ (0 ≤ (v : Int) ∧ (v : Int) ≤ (maxInt ver : Int)) := by
      intro h; apply h; exact ⟨by omega, hmax⟩
    have h2 : ¬ ¬ (0 ≤ (p : Int) ∧ (p : Int) ≤ (width ver : Int)) := by
      intro h; apply h; constructor <;> omega
    have hver' : ver = 4 ∨ ver = 6 := hver
    unfold ipNetwork
    simp only [if_pos hver']
    unfold parseIpNetwork
    simp only [h1, h2, if_false, Int.toNat_natCast, applyNohost_ok ver hver NOHOST v p hp, hfl, if_true, hand]

example : (0xC0A80105 : Nat) / 2 ^ (32 - 24) * 2 ^ (32 - 24) = 0xC0A80100 := by decide

end NV.C03
