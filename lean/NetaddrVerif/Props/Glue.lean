/-
Props/Glue.lean — the argument-coercion glue (`IPNetwork(x)` / `IPAddress(x)` in front of
`cidr_merge`, `spanning_cidr`, `IPSet.add/remove/update/__init__/__contains__`, `x in y`, the
`*_matching_cidr(s)` helpers) is inside the model (Model/Coerce.lean, driver ops `merge_raw`,
`spanning_raw`, `ipset_raw`, `contains_raw`, `match_raw`).  Property theorems only; helper
lemmas are in Lemmas/GlueL.lean.

What is shown:
  (a) for every printed / documented form the coercion denotes the object: `str(IPNetwork)`,
      `str(IPAddress)`, 'a/<netmask>', 'a/<hostmask>' (C03), address text in every dialect (C01);
      copy forms are identities; an int is an address of the magnitude-detected family for
      `IPAddress`, a TypeError for `IPNetwork`; the error classes are exactly these;
  (b) `merge_raw`, `spanning_raw`, `ipset_raw`, `contains_raw`, `match_raw` on coercible
      arguments equal the existing operations on the coerced arguments — so every theorem of
      C05 / C13 / C06 / C07 / C04 transfers, and the transferred main statements are given;
  (c) on an argument that is not coercible the call raises, with which error, and (IPSet) the
      set is left as it was.
-/
import NetaddrVerif.Lemmas.GlueL
import NetaddrVerif.Props.C04
import NetaddrVerif.Props.C05
import NetaddrVerif.Props.C06
import NetaddrVerif.Props.C07
import NetaddrVerif.Props.C13
namespace NV.Glue
open NV NV.AddrParse NV.NetParse NV.Coerce NV.GlueL

/-! ### (a) what the coercions denote -/

/-- **`IPNetwork(str(n)) = n`** — version, value with host bits, prefix. -/
theorem toNet_str_roundtrip (n : Net) (hn : n.WF) : toNet (.str (netStr Coerce.be n)) = .ok n :=
  writesNet_toNet (.netStr n hn)

example : (⟨4, 0xC0A80105, 24⟩ : Net).WF := by simp [Net.WF, width]

/-- **`IPNetwork(str(a))`** for an address: the full-width network of that address. -/
theorem toNet_addr_text (a : Addr) (ha : a.WF) :
    toNet (.str (intToStr Coerce.be a.ver a.val)) = .ok ⟨a.ver, a.val, width a.ver⟩ :=
  writesNet_toNet (.addrStr a ha)

/-- **netmask and hostmask spellings** denote the same network as 'a/p' (the hostmask one
    where it is unambiguous, `0 < p < width`). -/
theorem toNet_mask_text (n : Net) (hn : n.WF) :
    toNet (.str (intToStr Coerce.be n.ver n.val ++ '/' :: intToStr Coerce.be n.ver (netNetmask (width n.ver) n.plen))) = .ok n ∧
    (0 < n.plen ∧ n.plen < width n.ver →
      toNet (.str (intToStr Coerce.be n.ver n.val ++ '/' :: intToStr Coerce.be n.ver (netHostmask (width n.ver) n.plen))) = .ok n) :=
  ⟨writesNet_toNet (.maskStr n hn), fun hp => writesNet_toNet (.hostStr n hn hp)⟩

/-- **`IPAddress(str(a)) = a`**: IPv4 text with any flag combination, IPv6 text in every dialect. -/
theorem toAddr_text (fl : Nat) :
    (∀ v, v < 2 ^ 32 → fl < 4 → toAddr (.str (intToStr Coerce.be 4 v)) fl = .ok ⟨4, v⟩) ∧
    (∀ d v, v < 2 ^ 128 → toAddr (.str (intToStr6 Coerce.be d v)) fl = .ok ⟨6, v⟩) :=
  ⟨fun v hv hfl => C01.roundtrip4 Coerce.be v hv none (Or.inl rfl) fl hfl,
   fun d v hv => C01.roundtrip6 Coerce.be d v hv none (Or.inl rfl) fl⟩

/-- **copy forms are identities**: `IPNetwork(IPNetwork)`, `IPNetwork(IPAddress)` (full width),
    `IPAddress(IPAddress)`, `IPAddress(IPNetwork)` (the stored address, host bits kept). -/
theorem copy_forms (n : Net) (a : Addr) (fl : Nat) :
    toNet (.net n) = .ok n ∧ toNet (.addr a) = .ok ⟨a.ver, a.val, width a.ver⟩ ∧
    toAddr (.addr a) fl = .ok a ∧ toAddr (.net n) fl = .ok ⟨n.ver, n.val⟩ :=
  ⟨rfl, rfl, rfl, rfl⟩

/-- **an int**: `IPNetwork(int)` is a TypeError; `IPAddress(int)` is the address of the
    magnitude-detected family — IPv4 below `2^32`, IPv6 from `2^32` to `2^128 - 1`,
    AddrFormatError outside `0 .. 2^128 - 1` — whatever the flags. -/
theorem int_forms (i : Int) (fl : Nat) :
    toNet (.int i) = .error .type_ ∧
    (0 ≤ i → i < 2 ^ 32 → toAddr (.int i) fl = .ok ⟨4, i.toNat⟩) ∧
    (2 ^ 32 ≤ i → i < 2 ^ 128 → toAddr (.int i) fl = .ok ⟨6, i.toNat⟩) ∧
    (i < 0 ∨ 2 ^ 128 ≤ i → toAddr (.int i) fl = .error .addrFormat) := by
  refine ⟨rfl, fun h1 h2 => ?_, fun h1 h2 => ?_, fun h => ?_⟩
  · rw [toAddr_int, if_pos ⟨h1, h2⟩]
  · have n1 : ¬ (0 ≤ i ∧ i < 2 ^ 32) := by omega
    rw [toAddr_int, if_neg n1, if_pos ⟨h1, h2⟩]
  · have n1 : ¬ (0 ≤ i ∧ i < 2 ^ 32) := by omega
    have n2 : ¬ (2 ^ 32 ≤ i ∧ i < 2 ^ 128) := by omega
    rw [toAddr_int, if_neg n1, if_neg n2]

example : toAddr (.int 4294967296) = .ok ⟨6, 4294967296⟩ ∧ toAddr (.int 4294967295) = .ok ⟨4, 4294967295⟩ := by
  decide

/-- **error classes of `IPNetwork(x)`**: AddrFormatError, and only for a string; TypeError, and
    only for an int; object arguments never fail. -/
theorem toNet_errors (x : Raw) (e : Err) (h : toNet x = .error e) :
    (∃ s, x = .str s ∧ e = .addrFormat) ∨ (∃ i, x = .int i ∧ e = .type_) := toNet_err x e h

/-- **error classes of `IPAddress(x)`**: ValueError exactly for a string containing '/' (so for
    every printed network), AddrFormatError for any other rejected string and for an int
    outside `0 .. 2^128 - 1`; object arguments never fail. -/
theorem toAddr_errors (x : Raw) (fl : Nat) (e : Err) (h : toAddr x fl = .error e) :
    (∃ s, x = .str s ∧ s.contains '/' = true ∧ e = .value) ∨
    (∃ s, x = .str s ∧ s.contains '/' = false ∧ e = .addrFormat) ∨
    (∃ i, x = .int i ∧ e = .addrFormat ∧ (i < 0 ∨ 2 ^ 128 ≤ i)) := toAddr_err x fl e h

theorem toAddr_refuses_network_text (n : Net) (fl : Nat) :
    toAddr (.str (netStr Coerce.be n)) fl = .error .value := by
  have : (netStr Coerce.be n).contains '/' = true := by
    unfold netStr
    simp
  exact (C01.slash_refused Coerce.be _ fl this).1

/-- every written form gives a well-formed network -/
theorem written_wf {x : Raw} {n : Net} (h : WritesNet x n) : toNet x = .ok n ∧ n.WF :=
  ⟨writesNet_toNet h, writesNet_wf h⟩

/-! ### (b) cidr_merge -/

/-- **`merge_raw` = `merge` on the coerced arguments.**  When every element is coercible
    (`mergeItem x = ok m`: the object itself for networks and ranges, `IPNetwork(x)` otherwise)
    the result is the existing `cidrMerge` of the coerced list. -/
theorem merge_raw_eq (xs : List Item) (ms : List MItem)
    (h : All₂ (fun x m => mergeItem x = .ok m) xs ms) : mergeRaw xs = .ok (cidrMerge ms) := by
  unfold mergeRaw
  rw [mapM_of_all₂ mergeItem xs ms h]; rfl

/-- … in particular for every list of written forms (objects, `str()` texts, mask spellings) … -/
theorem merge_raw_written (xs : List Item) (ms : List MItem) (h : All₂ Writes xs ms) :
    mergeRaw xs = .ok (cidrMerge ms) ∧ ∀ m ∈ ms, C05L.ItemWF m := by
  have h' : All₂ (fun x m => mergeItem x = .ok m) xs ms := by
    induction h with
    | nil => exact .nil
    | cons hx _ ih => exact .cons (writes_mergeItem hx) ih
  refine ⟨merge_raw_eq xs ms h', fun m hm => ?_⟩
  obtain ⟨x, _, hw⟩ := h.mem_right m hm
  exact writes_wf hw

/-- … so **C05 transfers**: the answer to a list of written forms is the canonical list
    (ascending, IPv4 first, proper CIDRs, canonical per family) whose per-family union is the
    union of the denoted inputs, and it is the only such list. -/
theorem merge_raw_spec (xs : List Item) (ms : List MItem) (h : All₂ Writes xs ms) :
    ∃ l, mergeRaw xs = .ok l ∧ C05L.NetCanon l ∧
      (∀ u a, den (C05L.famBlks u l) a ↔ C05L.iden ms u a) ∧
      (∀ l', C05L.NetCanon l' → (∀ u a, den (C05L.famBlks u l') a ↔ C05L.iden ms u a) → l' = l) := by
  obtain ⟨he, hwf⟩ := merge_raw_written xs ms h
  exact ⟨_, he, C05.merge_canon ms hwf, C05.merge_den ms hwf, fun l' hl' hd => C05.merge_unique ms hwf l' hl' hd⟩

example : All₂ Writes
    [.raw (.str (netStr Coerce.be ⟨4, 0xC0000205, 25⟩)), .raw (.addr ⟨4, 0xC0000300⟩), .rng ⟨6, 2, 3⟩]
    [.net 4 ⟨0xC0000205, 25⟩, .net 4 ⟨0xC0000300, 32⟩, .rng 6 2 3] :=
  .cons (.raw _ ⟨4, 0xC0000205, 25⟩ (.netStr _ (by simp [Net.WF, width])))
    (.cons (.raw _ _ (.addr ⟨4, 0xC0000300⟩ (by simp [Addr.WF, width])))
      (.cons (.rng ⟨6, 2, 3⟩ (by simp [width])) .nil))

/-- **(c) what `cidr_merge` rejects**: the call raises exactly when some element is not
    coercible, with the error of the first such element — TypeError for a bare int,
    AddrFormatError for an unparsable string — and nothing else can be raised. -/
theorem merge_raw_errors (xs : List Item) :
    (∀ e, mergeRaw xs = .error e →
      (e = .addrFormat ∨ e = .type_) ∧ ∃ pre x post, xs = pre ++ x :: post ∧ mergeItem x = .error e ∧
        ∃ ms, pre.mapM mergeItem = .ok ms) ∧
    (∀ pre ms i post, pre.mapM mergeItem = .ok ms → mergeRaw (pre ++ .raw (.int i) :: post) = .error .type_) := by
  constructor
  · intro e h
    unfold mergeRaw at h
    have key : ∀ (xs : List Item) e, xs.mapM mergeItem = .error e →
        ∃ pre x post, xs = pre ++ x :: post ∧ mergeItem x = .error e ∧ ∃ ms, pre.mapM mergeItem = .ok ms := by
      intro xs
      induction xs with
      | nil => intro e h; cases h
      | cons x xs ih =>
        intro e h
        rw [mapM_cons] at h
        cases hx : mergeItem x with
        | error e' =>
          rw [hx] at h
          have : e' = e := by cases h; rfl
          subst this
          exact ⟨[], x, xs, rfl, hx, [], rfl⟩
        | ok m =>
          rw [hx] at h
          cases hxs : xs.mapM mergeItem with
          | ok ms => rw [hxs] at h; cases h
          | error e' =>
            rw [hxs] at h
            have : e' = e := by cases h; rfl
            subst this
            obtain ⟨pre, y, post, h1, h2, ms, h3⟩ := ih e' hxs
            refine ⟨x :: pre, y, post, by rw [h1]; rfl, h2, m :: ms, ?_⟩
            rw [mapM_cons, hx, h3]; rfl
    cases hm : xs.mapM mergeItem with
    | ok ms => rw [hm] at h; cases h
    | error e' =>
      rw [hm] at h
      have : e' = e := by cases h; rfl
      subst this
      obtain ⟨pre, x, post, h1, h2, h3⟩ := key xs e' hm
      refine ⟨?_, pre, x, post, h1, h2, h3⟩
      cases x with
      | rng r => cases h2
      | raw y =>
        cases y with
        | net n => cases h2
        | int i => cases h2; exact Or.inr rfl
        | addr a => cases h2
        | str s =>
          simp only [mergeItem] at h2
          cases hn : toNet (.str s) with
          | ok n => rw [hn] at h2; cases h2
          | error e'' =>
            rw [hn] at h2
            have : e'' = e' := by cases h2; rfl
            subst this
            rcases toNet_err _ _ hn with ⟨_, _, he⟩ | ⟨_, hi, _⟩
            · exact Or.inl he
            · cases hi
  · intro pre ms i post hpre
    unfold mergeRaw
    have : (pre ++ .raw (.int i) :: post).mapM mergeItem = .error .type_ := by
      induction pre generalizing ms with
      | nil => rw [List.nil_append, mapM_cons]; rfl
      | cons p ps ih =>
        rw [mapM_cons] at hpre
        cases hp : mergeItem p with
        | error e => rw [hp] at hpre; cases hpre
        | ok m =>
          rw [hp] at hpre
          cases hps : ps.mapM mergeItem with
          | error e => rw [hps] at hpre; cases hpre
          | ok ms' =>
            rw [List.cons_append, mapM_cons, hp, ih ms' hps]; rfl
    rw [this]; rfl

example : mergeRaw [.raw (.str "10.0.0.0/25".toList), .raw (.int 5)] = .error .type_ := by decide +kernel
example : mergeRaw [.raw (.str "bad".toList), .raw (.int 5)] = .error .addrFormat := by decide +kernel

/-! ### (b) spanning_cidr -/

/-- **`spanning_raw` = `span_nets` on the coerced arguments.**  The code converts the first two
    elements eagerly and the others lazily inside its loop; when every element is coercible
    that interleaving is unobservable: the outcome — block, ValueError for fewer than two,
    TypeError for mixed families — is the one of `Span.spanningCidrNets`. -/
theorem spanning_raw_eq (xs : List Item) (ns : List Net)
    (h : All₂ (fun x n => spanItem x = .ok n) xs ns) : spanningRaw xs = Span.spanningCidrNets ns :=
  spanningRaw_ok xs ns h

theorem written_span (xs : List Item) (rest : List Net)
    (h : All₂ (fun x n => ∃ r, x = Item.raw r ∧ WritesNet r n) xs rest) :
    All₂ (fun x n => spanItem x = .ok n) xs rest ∧ ∀ n ∈ rest, n.WF := by
  induction h with
  | nil => exact ⟨.nil, fun n hn => by cases hn⟩
  | cons hx _ ih =>
    obtain ⟨r, rfl, hw⟩ := hx
    refine ⟨.cons (show spanItem (.raw r) = _ from writesNet_toNet hw) ih.1, fun n hn => ?_⟩
    rcases List.mem_cons.1 hn with e | hn
    · subst e; exact writesNet_wf hw
    · exact ih.2 n hn

/-- **C13 transfers**: for two or more written forms of one family the answer is the
    host-bit-free block that contains every denoted network and has the longest prefix of all
    blocks that do. -/
theorem spanning_raw_spec (x y : Raw) (a b : Net) (xs : List Item) (rest : List Net)
    (hx : WritesNet x a) (hy : WritesNet y b)
    (h : All₂ (fun x n => ∃ r, x = Item.raw r ∧ WritesNet r n) xs rest)
    (hver : ∀ n ∈ a :: b :: rest, n.ver = a.ver) :
    ∃ r, spanningRaw (.raw x :: .raw y :: xs) = .ok r ∧ r.WF ∧ r.ver = a.ver ∧ r.first = r.val ∧
      (∀ n ∈ a :: b :: rest, r.first ≤ n.first ∧ n.last ≤ r.last) ∧
      (∀ c : Net, c.WF → c.ver = a.ver → (∀ n ∈ a :: b :: rest, c.first ≤ n.first ∧ n.last ≤ c.last) →
        c.plen ≤ r.plen) := by
  obtain ⟨h1, hr⟩ := written_span xs rest h
  have hwf : ∀ n ∈ a :: b :: rest, n.WF := by
    intro n hn
    rcases List.mem_cons.1 hn with e | hn
    · subst e; exact writesNet_wf hx
    rcases List.mem_cons.1 hn with e | hn
    · subst e; exact writesNet_wf hy
    exact hr n hn
  rw [spanning_raw_eq _ (a :: b :: rest)
    (.cons (show spanItem (.raw x) = _ from writesNet_toNet hx) (.cons (show spanItem (.raw y) = _ from writesNet_toNet hy) h1))]
  exact C13.spanning_nets_spec a b rest hwf hver

/-- **(c) what `spanning_cidr` rejects** in front of its computation: an empty sequence is a
    ValueError; a one-element sequence raises the conversion error of that element if it has
    one and ValueError otherwise; a bare int or an `IPRange` in first or second position is a
    TypeError (after the first element's own conversion). -/
theorem spanning_raw_errors (x : Item) (n : Net) (i : Int) (r : Rng) (rest : List Item) :
    spanningRaw [] = .error .value ∧
    (spanItem x = .ok n → spanningRaw [x] = .error .value) ∧
    (∀ e, spanItem x = .error e → spanningRaw (x :: rest) = .error e) ∧
    spanningRaw (.raw (.int i) :: rest) = .error .type_ ∧
    spanningRaw (.rng r :: rest) = .error .type_ ∧
    (spanItem x = .ok n → spanningRaw (x :: .raw (.int i) :: rest) = .error .type_) := by
  refine ⟨rfl, fun h => ?_, fun e h => ?_, rfl, rfl, fun h => ?_⟩
  · simp only [spanningRaw, h, bind, Except.bind]
  · simp only [spanningRaw, h, bind, Except.bind]
  · simp only [spanningRaw, h, bind, Except.bind]
    rfl

example : spanningRaw [.raw (.str "1.2.3.4".toList), .raw (.str "1.2.3.5".toList), .raw (.str "::1".toList),
    .raw (.str "bad".toList)] = .error .type_ := by decide +kernel
example : spanningRaw [.raw (.str "1.2.3.4".toList), .raw (.str "1.2.3.5".toList), .raw (.str "bad".toList),
    .raw (.str "::1".toList)] = .error .addrFormat := by decide +kernel

/-! ### (b) IPSet -/

/-- **`add` / `remove` with a raw argument** are the existing `add` / `remove` on the coerced
    argument (an int is `IPAddress(int)` as a full-width network — `add` skips `.cidr` for it,
    which changes nothing); **the list forms**: the two passes of the code (all ints first, then
    `cidr_merge`'s own conversion) are one pass, because every conversion error there is
    AddrFormatError. -/
theorem ipset_raw_ops (s : IPSet.St) (x : Item) (xs : List Item) (fl : Nat) :
    addRaw s x fl = (argOf x fl).map (IPSet.add s) ∧
    removeRaw s x fl = (argOf x fl).map (IPSet.remove s) ∧
    updateRaw s xs fl = (xs.mapM (argOf · fl)).map (IPSet.updateList s) ∧
    newRaw xs fl = (xs.mapM (argOf · fl)).map IPSet.newOfList := by
  refine ⟨addRaw_eq s x fl, removeRaw_eq s x fl, ?_, ?_⟩
  · unfold updateRaw; rw [listArgs_eq]
  · unfold newRaw; rw [listArgs_eq]

/-- **one step**: a step whose arguments are coercible is the existing step on the coerced
    operation; **(c)** a step with an argument that is not coercible raises AddrFormatError and
    leaves every set as it was. -/
theorem ipset_raw_step (sets : List IPSet.St) (rop : ROp) :
    (∀ op, liftOp rop = .ok op → stepRaw sets rop = IPSet.stepOp sets op) ∧
    (∀ e, liftOp rop = .error e → e = .addrFormat ∧ (stepRaw sets rop).1 = sets ∧ (stepRaw sets rop).2.2 = some e) := by
  refine ⟨fun op h => ?_, fun e h => ?_⟩
  · rw [stepRaw_eq, h]
  · refine ⟨?_, ?_, ?_⟩
    · cases rop with
      | plain o => cases h
      | add i x =>
        simp only [liftOp] at h
        cases ha : argOf x with
        | ok a => rw [ha] at h; cases h
        | error e' => rw [ha] at h; cases h; exact argOf_err x 0 _ ha
      | rem i x =>
        simp only [liftOp] at h
        cases ha : argOf x with
        | ok a => rw [ha] at h; cases h
        | error e' => rw [ha] at h; cases h; exact argOf_err x 0 _ ha
      | newList i xs =>
        simp only [liftOp] at h
        cases ha : xs.mapM (argOf ·) with
        | ok a => rw [ha] at h; cases h
        | error e' => rw [ha] at h; cases h; exact mapM_argOf_err xs 0 _ ha
      | updList i xs =>
        simp only [liftOp] at h
        cases ha : xs.mapM (argOf ·) with
        | ok a => rw [ha] at h; cases h
        | error e' => rw [ha] at h; cases h; exact mapM_argOf_err xs 0 _ ha
    · rw [stepRaw_eq, h]
    · rw [stepRaw_eq, h]

/-- **`ipset_raw` = `ipset` on the coerced history.** -/
theorem ipset_raw_eq (rops : List ROp) (ops : List IPSet.Op)
    (h : All₂ (fun r o => liftOp r = .ok o) rops ops) : runRaw rops = IPSet.runOps ops :=
  runRaw_eq rops ops (mapM_of_all₂ liftOp rops ops h)

/-- … so **C06 transfers**: after any history whose arguments are coercible to well-formed
    arguments, every live set is canonical and denotes what plain set theory says. -/
theorem ipset_raw_reachable (rops : List ROp) (ops : List IPSet.Op)
    (h : All₂ (fun r o => liftOp r = .ok o) rops ops) (hok : ∀ op ∈ ops, op.OK) :
    ∀ i, IPSet.Inv (IPSet.getSet (runRaw rops) i) ∧
      ∀ u a, IPSet.denS (IPSet.getSet (runRaw rops) i) u a ↔ (IPSet.runBoth ops).2 i u a := by
  rw [ipset_raw_eq rops ops h]
  exact C06.reachable ops hok

/-- written forms (objects, texts, ints in range) are coercible to well-formed arguments -/
theorem written_arg {x : Item} {a : IPSet.Arg} (h : WritesArg x a) (fl : Nat) :
    argOf x fl = .ok a ∧ IPSet.ArgOK a := ⟨writesArg_argOf h fl, writesArg_ok h⟩

/-- `add` of any written form: canonical again, old addresses plus the denoted ones
    (C06 `add`, transferred) -/
theorem add_raw_spec (s : IPSet.St) (hs : IPSet.Inv s) (x : Item) (a : IPSet.Arg) (h : WritesArg x a) (fl : Nat) :
    ∃ s', addRaw s x fl = .ok s' ∧ IPSet.Inv s' ∧
      ∀ u v, IPSet.denS s' u v ↔ IPSet.denS s u v ∨ IPSet.argDen a u v := by
  refine ⟨IPSet.add s a, ?_, IPSet.add_spec s hs a (writesArg_ok h)⟩
  rw [addRaw_eq, writesArg_argOf h fl]; rfl

/-- `remove` of any written form (C06 `remove_spec`, transferred) -/
theorem remove_raw_spec (s : IPSet.St) (hs : IPSet.Inv s) (x : Item) (a : IPSet.Arg) (h : WritesArg x a) (fl : Nat) :
    ∃ s', removeRaw s x fl = .ok s' ∧ IPSet.Inv s' ∧
      ∀ u v, IPSet.denS s' u v ↔ IPSet.denS s u v ∧ ¬ IPSet.argDen a u v := by
  refine ⟨IPSet.remove s a, ?_, C06.remove_spec s hs a (writesArg_ok h)⟩
  rw [removeRaw_eq, writesArg_argOf h fl]; rfl

example : WritesArg (.raw (.int (4294967296 : Nat))) (.net ⟨6, 4294967296, 128⟩) := .int6 _ (by decide)

/-- **membership**: `x in ipset` for a written form of the network `n` is True exactly when
    every address of `n` is in the set (C07 `contains_iff`, transferred); a bare int or an
    `IPRange` is a TypeError. -/
theorem contains_raw_spec (s : IPSet.St) (hs : IPSet.Inv s) (x : Raw) (n : Net) (h : WritesNet x n) :
    (∃ b, containsRaw s (.raw x) = .ok b ∧
      (b = true ↔ ∀ a, n.first ≤ a → a ≤ n.last → IPSet.denS s n.ver a)) ∧
    (∀ i, containsRaw s (.raw (.int i)) = .error .type_) ∧
    (∀ r, containsRaw s (.rng r) = .error .type_) := by
  refine ⟨⟨IPSet.contains s n, ?_, C07.contains_iff s hs n (writesNet_wf h)⟩, fun _ => rfl, fun _ => rfl⟩
  show Except.map (IPSet.contains s) (toNet x) = _
  rw [writesNet_toNet h]; rfl

/-! ### (b) x in y, matching -/

/-- **`x in IPNetwork`** for a written form of the network `n` (string or object; an address is
    its full-width network): True exactly for interval inclusion within one family (C04,
    transferred); a bare int is a TypeError. -/
theorem in_raw_net (y : Net) (hy : y.WF) (x : Raw) (n : Net) (h : WritesNet x n) :
    (∃ b, inRaw (.net y) (.raw x) = .ok b ∧
      (b = true ↔ n.ver = y.ver ∧ y.first ≤ n.first ∧ n.last ≤ y.last)) ∧
    (∀ i, inRaw (.net y) (.raw (.int i)) = .error .type_) := by
  refine ⟨?_, fun _ => rfl⟩
  have hn := writesNet_wf h
  have hnet : ∃ b, Except.ok (Contains.contains (.net y) (.net n)) = (Except.ok b : R Bool) ∧
      (b = true ↔ n.ver = y.ver ∧ y.first ≤ n.first ∧ n.last ≤ y.last) :=
    ⟨_, rfl, C04.netContains_iff y (.net n) hy hn⟩
  have hto := writesNet_toNet h
  cases x with
  | int i => cases hto
  | str s =>
    obtain ⟨b, hb, hiff⟩ := hnet
    refine ⟨b, ?_, hiff⟩
    simp only [inRaw, hto]
    exact hb
  | net m =>
    have e : m = n := by
      have h' : (Except.ok m : R Net) = .ok n := hto
      injection h'
    subst e; exact hnet
  | addr a =>
    have e : (⟨a.ver, a.val, width a.ver⟩ : Net) = n := by
      have h' : (Except.ok ⟨a.ver, a.val, width a.ver⟩ : R Net) = .ok n := hto
      injection h'
    subst e
    have ha : a.WF := ⟨hn.1, hn.2.1⟩
    refine ⟨Contains.contains (.net y) (.addr a), rfl, ?_⟩
    have := C04.netContains_iff y (.addr a) hy ha
    show Contains.netContains y (.addr a) = true ↔ _
    rw [this]
    show a.ver = y.ver ∧ y.first ≤ a.val ∧ a.val ≤ y.last ↔
      a.ver = y.ver ∧ y.first ≤ netFirst (width a.ver) a.val (width a.ver) ∧ netLast (width a.ver) a.val (width a.ver) ≤ y.last
    rw [C05L.first_full _ _ ha.2, C05L.last_full]

/-- **`x in IPRange`** (or IPGlob) for a non-object operand goes through `IPAddress(x)`: an
    address text or an int in range answers interval membership of that address (the int in
    its magnitude-detected family); a CIDR text — any string with '/' — is a ValueError. -/
theorem in_raw_rng (y : Rng) (x : Raw) :
    (∀ a : Addr, a.WF → (x = .str (intToStr Coerce.be a.ver a.val) ∨ x = .int a.val ∧ (a.ver = 4 ∨ 2 ^ 32 ≤ a.val)) →
      ∃ b, inRaw (.rng y) (.raw x) = .ok b ∧ (b = true ↔ a.ver = y.ver ∧ y.lo ≤ a.val ∧ a.val ≤ y.hi)) ∧
    (∀ s, s.contains '/' = true → inRaw (.rng y) (.raw (.str s)) = .error .value) := by
  constructor
  · intro a ha hx
    have hto : toAddr x = .ok a := by
      rcases hx with rfl | ⟨rfl, hfam⟩
      · rcases ha.1 with hv | hv
        · have : a = ⟨4, a.val⟩ := by cases a; simp_all
          rw [this]
          exact (toAddr_text 0).1 a.val (by have := ha.2; rw [hv] at this; exact this) (by decide)
        · have : a = ⟨6, a.val⟩ := by cases a; simp_all
          rw [this]
          exact C01.roundtrip6 Coerce.be .compact a.val (by have := ha.2; rw [hv] at this; exact this) none (Or.inl rfl) 0
      · rw [toAddr_int]
        rcases ha.1 with hv | hv
        · have h32 : a.val < 2 ^ 32 := by have := ha.2; rw [hv] at this; exact this
          have : 0 ≤ (a.val : Int) ∧ (a.val : Int) < 2 ^ 32 := ⟨by omega, by exact_mod_cast h32⟩
          rw [if_pos this]
          cases a; simp_all
        · have h128 : a.val < 2 ^ 128 := by have := ha.2; rw [hv] at this; exact this
          have h32 : 2 ^ 32 ≤ a.val := by
            rcases hfam with h4 | h; · omega
            exact h
          have n1 : ¬ (0 ≤ (a.val : Int) ∧ (a.val : Int) < 2 ^ 32) := by
            intro h
            have : (a.val : Int) < 2 ^ 32 := h.2
            have : a.val < 2 ^ 32 := by exact_mod_cast this
            omega
          have p2 : (2 : Int) ^ 32 ≤ (a.val : Int) ∧ (a.val : Int) < 2 ^ 128 :=
            ⟨by exact_mod_cast h32, by exact_mod_cast h128⟩
          rw [if_neg n1, if_pos p2]
          cases a; simp_all
    refine ⟨Contains.contains (.rng y) (.addr a), ?_, C04.rngContains_iff y (.addr a) ha⟩
    rcases hx with rfl | ⟨rfl, _⟩ <;> simp only [inRaw, hto] <;> rfl
  · intro s hs
    have := (C01.slash_refused Coerce.be s 0 hs).1
    simp only [inRaw, toAddr, this]; rfl

example : inRaw (.rng ⟨4, 0, 9⟩) (.raw (.int 5)) = .ok true ∧ inRaw (.net ⟨4, 0, 24⟩) (.raw (.int 5)) = .error .type_ := by
  decide +kernel

/-- **matching helpers**: `IPAddress(ip)` and `IPNetwork(c)` of every candidate, then the
    existing scan — with C04's statement transferred for written forms: `all_matching_cidrs`
    returns exactly the candidates (as networks) of the address's family whose interval
    contains it, least specific first. -/
theorem match_raw_spec (ip : Raw) (a : Addr) (cands : List Raw) (ns : List Net)
    (hip : toAddr ip = .ok a) (ha : a.WF) (h : All₂ WritesNet cands ns) :
    matchRaw .all ip cands = .ok (Contains.allMatching a ns) ∧
    matchRaw .small ip cands = .ok (Contains.smallestMatching a ns).toList ∧
    matchRaw .large ip cands = .ok (Contains.largestMatching a ns).toList ∧
    (∀ c, c ∈ Contains.allMatching a ns ↔ (c ∈ ns ∧ a.ver = c.ver ∧ c.first ≤ a.val ∧ a.val ≤ c.last)) ∧
    (Contains.allMatching a ns).Pairwise (fun x y => x.plen ≤ y.plen) := by
  have hm : cands.mapM toNet = .ok ns := by
    apply mapM_of_all₂
    induction h with
    | nil => exact .nil
    | cons hx _ ih => exact .cons (writesNet_toNet hx) ih
  have hwf : ∀ c ∈ ns, c.WF := by
    intro c hc
    obtain ⟨x, _, hw⟩ := h.mem_right c hc
    exact writesNet_wf hw
  have hs := C04.all_matching_spec a ns ha hwf
  refine ⟨?_, ?_, ?_, hs.1, hs.2.2.1⟩ <;> simp only [matchRaw, hip, hm, bind, Except.bind] <;> rfl

end NV.Glue
