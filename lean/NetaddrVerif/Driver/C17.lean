import NetaddrVerif.Model.Proto
import NetaddrVerif.Model.Glob
import NetaddrVerif.Model.Nmap
/-! Driver ops of property C17 (glob and nmap notations).

    valid_glob S                       → T/F
    glob_conv S                        → `lo,hi lo,hi lo,hi,S [4:v/p,…] lo,hi,S` (iptuple, iprange, IPGlob, glob_to_cidrs,
                                         `.glob = S` setter on an existing IPGlob), each or `!`
    range2globs A A                    → `[S,…]` or `!`
    cidr2glob N                        → `S` or `!`
    nmap fuel S netres addrres         → `valid iter`: T/F or `!` (an exception valid_nmap_range lets through),
                                         then `[v,…]` (IPv6 as `6:v`) or `!`
    nmap_multi fuel [S,…]              → `[v,…]` + `!` if a spec failed (octet-list specs only)

    `netres` / `addrres` = result of the foreign `IPNetwork(spec)` / `IPAddress(spec)`:
    `N:ver:val:plen` / `A:ver:val`, `!<tag>`, or `-` when the branch is not reached. -/
namespace NV.Driver.C17
open NV NV.Proto

def showStrs (l : List (List Char)) : String := showList (l.map showStr)

def errOfTag (t : String) : Err :=
  if t == "addrFormat" then .addrFormat
  else if t == "addrConversion" then .addrConversion
  else if t == "value" then .value
  else if t == "type" then .type_
  else if t == "index" then .index
  else if t == "notRegistered" then .notRegistered
  else if t == "key" then .key
  else if t == "notImpl" then .notImpl
  else .other

def parseNetRes (tok : String) : R Net :=
  if tok.startsWith "!" then .error (errOfTag (tok.drop 1).toString)
  else match parseNet tok with
    | some n => .ok n
    | none => .error .other

def parseAddrRes (tok : String) : R Addr :=
  if tok.startsWith "!" then .error (errOfTag (tok.drop 1).toString)
  else match parseAddr tok with
    | some n => .ok n
    | none => .error .other

def foreign (n a : String) : Nmap.Foreign := ⟨fun _ => parseNetRes n, fun _ => parseAddrRes a⟩

def showAddr (a : Addr) : String := if a.ver = 4 then toString a.val else s!"{a.ver}:{a.val}"

def pair (a b : Nat) : String := s!"{a},{b}"

def globConv (s : List Char) : String :=
  let t := match Glob.globToIptuple s with
    | .ok (lo, hi) => pair lo hi
    | .error _ => "!"
  let r := match Glob.globToIprange s with
    | .ok r => pair r.lo r.hi
    | .error _ => "!"
  let g := match Glob.ipGlob s with
    | .ok g => s!"{g.lo},{g.hi},{showStr g.glob}"
    | .error _ => "!"
  let c := match Glob.globToCidrs s with
    | .ok l => showList (l.map (fun b => s!"4:{b.val}/{b.plen}"))
    | .error _ => "!"
  let st := match Glob.setGlob s with
    | .ok g => s!"{g.lo},{g.hi},{showStr g.glob}"
    | .error _ => "!"
  " ".intercalate [t, r, g, c, st]

def handle (op : String) (args : List String) : Option String :=
  match op, args with
  | "valid_glob", [s] => do
    let s ← parseStr s
    pure (showBool (Glob.validGlob s))
  | "glob_conv", [s] => do
    let s ← parseStr s
    pure (globConv s)
  | "range2globs", [a, b] => do
    let a ← parseAddr a; let b ← parseAddr b
    match Glob.iprangeToGlobs a b with
    | .ok l => pure (showStrs l)
    | .error _ => pure "!"
  | "cidr2glob", [n] => do
    let n ← parseNet n
    match Glob.cidrToGlob n with
    | .ok g => pure (showStr g)
    | .error _ => pure "!"
  | "nmap", [fuel, s, n, a] => do
    let fuel ← fuel.toNat?
    let s ← parseStr s
    let v := match Nmap.validNmapRange (foreign n a) s with
      | .ok b => showBool b
      | .error _ => "!"
    let it := match Nmap.iterNmapRange (foreign n a) fuel s with
      | .ok l => showList (l.map showAddr)
      | .error _ => "!"
    pure (v ++ " " ++ it)
  | "nmap_multi", [fuel, ss] => do
    let fuel ← fuel.toNat?
    let ss ← (← parseList ss).mapM parseStr
    let r := Nmap.iterNmapRanges (foreign "-" "-") fuel ss
    pure (showList (r.1.map showAddr) ++ (if r.2.isSome then "!" else ""))
  | _, _ => none

end NV.Driver.C17
