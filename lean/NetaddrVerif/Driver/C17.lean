import NetaddrVerif.Model.Proto
import NetaddrVerif.Model.Glob
import NetaddrVerif.Model.Nmap
/-! Driver ops of property C17 (glob and nmap notations).

    valid_glob S                       → T/F
    glob_conv S                        → `lo,hi lo,hi lo,hi,S [4:v/p,…] lo,hi,S` (iptuple, iprange, IPGlob, glob_to_cidrs,
                                         `.glob = S` setter on an existing IPGlob), each or `!`
    range2globs A A                    → `[S,…]` or `!`
    cidr2glob N                        → `S` or `!`
    nmap fuel S                        → `valid iter`: T/F or `!tag` (an exception valid_nmap_range lets through),
                                         then `[v,…]` (IPv6 as `6:v`) or `!tag` (class of the exception);
                                         the foreign parsers are the real models (`Nmap.realForeign .platform`)
    nmap_multi fuel [S,…]              → `[v,…]` + `!tag` if a spec failed; `fuel` bounds each spec (Nmap.iterNmapRanges)
    nmap_islice fuel [S,…]             → the same for `islice(iter_nmap_range(*specs), fuel)` (Nmap.isliceNmapRanges)
    nmap_take fuel S                   → `list(islice(iter_nmap_range(S), fuel))` for EVERY fuel, 0 included (Nmap.isliceNmapRange)
    nmap_plan fuel S                   → iteration through `parsePlan` + `Plan.items` (must equal the `iter` of `nmap`) -/
namespace NV.Driver.C17
open NV NV.Proto

def showStrs (l : List (List Char)) : String := showList (l.map showStr)

def F : Nmap.Foreign := Nmap.realForeign .platform

def showAddrs (r : R (List Addr)) (sh : Addr → String) : String :=
  match r with
  | .ok l => showList (l.map sh)
  | .error e => showErr e

def showAddr (a : Addr) : String := if a.ver = 4 then toString a.val else s!"{a.ver}:{a.val}"

def pair (a b : Nat) : String := s!"{a},{b}"

def globConv (s : List Char) : String :=
  let t := match Glob.globToIptuple s with
    | .ok (lo, hi) => pair lo hi
    | .error e => showErr e
  let r := match Glob.globToIprange s with
    | .ok r => pair r.lo r.hi
    | .error e => showErr e
  let g := match Glob.ipGlob s with
    | .ok g => s!"{g.lo},{g.hi},{showStr g.glob}"
    | .error e => showErr e
  let c := match Glob.globToCidrs s with
    | .ok l => showList (l.map (fun b => s!"4:{b.val}/{b.plen}"))
    | .error e => showErr e
  let st := match Glob.setGlob s with
    | .ok g => s!"{g.lo},{g.hi},{showStr g.glob}"
    | .error e => showErr e
  " ".intercalate [t, r, g, c, st]

def handle (op : String) (args : List String) : Option String :=
  match op, args with
  | "valid_glob", [s] => do
    let s ← parseStr s
    pure (showBool (Glob.validGlob s))
  | "glob_conv", [s] => do
    let s ← parseStr s
    pure (globConv s)
  | "range2globs", [a, b] => do
    let a ← parseAddr a; let b ← parseAddr b
    match Glob.iprangeToGlobs a b with
    | .ok l => pure (showStrs l)
    | .error e => pure (showErr e)
  | "cidr2glob", [n] => do
    let n ← parseNet n
    match Glob.cidrToGlob n with
    | .ok g => pure (showStr g)
    | .error e => pure (showErr e)
  | "nmap", [fuel, s] => do
    let fuel ← fuel.toNat?
    let s ← parseStr s
    let v := match Nmap.validNmapRange F s with
      | .ok b => showBool b
      | .error e => showErr e
    pure (v ++ " " ++ showAddrs (Nmap.iterNmapRange F fuel s) showAddr)
  | "nmap_take", [fuel, s] => do
    let fuel ← fuel.toNat?
    let s ← parseStr s
    pure (showAddrs (Nmap.isliceNmapRange F fuel s) showAddr)
  | "nmap_plan", [fuel, s] => do
    let fuel ← fuel.toNat?
    let s ← parseStr s
    pure (showAddrs ((Nmap.parsePlan F s).map (Nmap.Plan.items fuel)) showAddr)
  | "nmap_multi", [fuel, ss] => do
    let fuel ← fuel.toNat?
    let ss ← (← parseList ss).mapM parseStr
    let r := Nmap.iterNmapRanges F fuel ss
    pure (showList (r.1.map showAddr) ++ (match r.2 with | some e => showErr e | none => ""))
  | "nmap_islice", [fuel, ss] => do
    let fuel ← fuel.toNat?
    let ss ← (← parseList ss).mapM parseStr
    let r := Nmap.isliceNmapRanges F fuel ss
    pure (showList (r.1.map showAddr) ++ (match r.2 with | some e => showErr e | none => ""))
  | _, _ => none

end NV.Driver.C17
