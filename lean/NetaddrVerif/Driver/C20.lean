import NetaddrVerif.Model.Proto
import NetaddrVerif.Model.Splitter
/-! Driver ops of property C20 (Model/Splitter.lean).  A history is one line:
    `splitter N:ver:val:plen [op,op,…]` with
      `e:<prefix>:<count|->:<hint>`   extract_subnet(prefix, count); hint = `-` or `ver.val.plen`
                                       of the free block the implementation split
      `r:ver.val.plen`                 remove_subnet
    Output: one item per step joined by `;`: `<returned blocks | !err>|<available, fully sorted
    by (prefix desc, value)>|<available_subnets() was in descending prefix order>`. -/
namespace NV.Driver.C20
open NV NV.Proto NV.Splitter

def parseDotNet (s : String) : Option Net :=
  match s.splitOn "." with
  | [a, b, c] => do pure ⟨← a.toNat?, ← b.toNat?, ← c.toNat?⟩
  | _ => none

def parseOp (tok : String) : Option Op :=
  match tok.splitOn ":" with
  | ["e", p, c, h] => do
    let p ← parseInt p
    let c ← if c = "-" then some none else (parseInt c).map some
    let h ← if h = "-" then some none else (parseDotNet h).map some
    pure (.extract p c h)
  | ["r", n] => (parseDotNet n).map .remove
  | _ => none

def showNets (l : List Net) : String := showList (l.map showNet)

def fullSort (l : List Net) : List Net :=
  l.mergeSort (fun a b => a.plen > b.plen || (a.plen == b.plen && a.val ≤ b.val))

def descending : List Net → Bool
  | a :: b :: t => a.plen ≥ b.plen && descending (b :: t)
  | _ => true

def showStep (r : Obs × List Net) : String :=
  let obs := match r.1 with
    | .ok l => showNets l
    | .error e => showErr e
  obs ++ "|" ++ showNets (fullSort r.2) ++ "|" ++ showBool (descending (availableSubnets r.2))

/-- driver-only guard (not part of the model): a call that would make the model enumerate more
    than 2^16 blocks is answered `?toolarge` and ends the history.  The harness never generates
    such calls for the real code; a changed implementation can lead the generator there. -/
def tooLarge (s : List Net) : Op → Bool
  | .extract pfx count hint =>
    (availableSubnets (reorder s hint)).any (fun c =>
      match Subnet.subnetCount c pfx count with
      | .ok (some k) => k > 65536
      | _ => false)
  | _ => false

def runGuarded (s : List Net) : List Op → List String
  | [] => []
  | op :: ops =>
    if tooLarge s op then ["?toolarge"]
    else
      let r := step s op
      showStep (r.2, r.1) :: runGuarded r.1 ops

/-- `run` and the guarded loop agree whenever the guard does not fire -/
theorem runGuarded_eq (s : List Net) (ops : List Op) :
    runGuarded s ops = (run s ops).map showStep ∨ "?toolarge" ∈ runGuarded s ops := by
  induction ops generalizing s with
  | nil => left; rfl
  | cons op ops ih =>
    unfold runGuarded
    split
    · right; simp
    · rcases ih (step s op).1 with h | h
      · left; simp [run, h]
      · right; simp [h]

def handle (op : String) (args : List String) : Option String :=
  match op, args with
  | "splitter", [base, ops] => do
    let base ← parseNet base
    let ops ← (← parseList ops).mapM parseOp
    pure (";".intercalate (runGuarded (init base) ops))
  | _, _ => none

end NV.Driver.C20
