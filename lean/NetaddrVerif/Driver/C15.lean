import NetaddrVerif.Model.Proto
import NetaddrVerif.Model.Codec
import NetaddrVerif.Model.CodecObj
import NetaddrVerif.Driver.C08
/-! Driver ops of property C15 (binary / bit / word / DNS / base-85 encodings).

Family token: `4`, `6`, `48:<dialect>`, `64:<dialect>` (dialect token as in Driver/C08) or
`G:<word_size>:<num_words>:<hex of sep>` for the generic codecs of netaddr.strategy.
Integer arguments of the strategy-level ops (`c15_enc`, words of `c15_dec` / `c15_valid`) are
signed decimals and go to the `…Z` functions of Model/Codec (sign test of the code + the `Nat`
function); object-level values (`c15_obj`) are non-negative.  `c15_b85t` is `base85_to_ipv6`
as text.  Errors are printed as `!<Err.tag>` (the exception class; the harness prints
`common.errname`, with every class outside the model's list as `other`). -/
namespace NV.Driver.C15
open NV NV.Proto NV.Gen NV.Codec
open NV.Driver.C08 (showNats showBytes parseDialect parseOptStr)

/-- a result, or `!` + the exception class tag -/
def showR {α} (f : α → String) : R α → String
  | .ok a => f a
  | .error e => "!" ++ e.tag

structure Fam where
  kind : Nat
  ws : Nat
  nw : Nat
  sep : List Char
  width : Nat

def parseFam (tok : String) : Option Fam :=
  match tok.splitOn ":" with
  | ["4"] => some ⟨4, ipv4WordSize, ipv4NumWords, ipv4WordSep, V4.width⟩
  | ["6"] => some ⟨6, ipv6WordSize, ipv6NumWords, ipv6WordSep, V6.width⟩
  | ["48", d] => do let d ← parseDialect d; pure ⟨48, d.wordSize, d.numWords, d.sep, E48.width⟩
  | ["64", d] => do let d ← parseDialect d; pure ⟨64, d.wordSize, d.numWords, d.sep, E64.width⟩
  | ["G", ws, nw, sep] => do
    let ws ← ws.toNat?; let nw ← nw.toNat?
    let sep ← (hexBytes sep.toList).map utf8Decode
    pure ⟨0, ws, nw, sep, ws * nw⟩
  | _ => none

def famWords (f : Fam) (v : Nat) : R (List Nat) :=
  if f.kind = 4 then V4.intToWords v else intToWords v f.ws f.nw

def famWordsZ (f : Fam) (v : Int) : R (List Nat) :=
  if f.kind = 4 then V4.intToWordsZ v else intToWordsZ v f.ws f.nw

def famWordsToIntZ (f : Fam) (ws : List Int) : R Nat :=
  if f.kind = 4 then V4.wordsToIntZ ws else wordsToIntZ ws f.ws f.nw

def famPacked (f : Fam) (v : Nat) : Option (R (List Nat)) :=
  if f.kind = 4 then some (V4.intToPacked v) else if f.kind = 6 then some (V6.intToPacked v)
  else if f.kind = 48 then some (E48.intToPacked v) else if f.kind = 64 then some (E64.intToPacked v) else none

def famPackedZ (f : Fam) (v : Int) : Option (R (List Nat)) :=
  if f.kind = 4 then some (V4.intToPackedZ v) else if f.kind = 6 then some (V6.intToPackedZ v)
  else if f.kind = 48 then some (E48.intToPackedZ v) else if f.kind = 64 then some (E64.intToPackedZ v) else none

def famArpaZ (f : Fam) (v : Int) : Option (R (List Char)) :=
  if f.kind = 4 then some (V4.intToArpaZ v) else if f.kind = 6 then some (V6.intToArpaZ v) else none

def famUnpack (f : Fam) (bs : List Nat) : Option (R Nat) :=
  if f.kind = 4 then some (V4.packedToInt bs) else if f.kind = 6 then some (V6.packedToInt bs)
  else if f.kind = 48 then some (E48.packedToInt bs) else if f.kind = 64 then some (E64.packedToInt bs) else none

def famArpa (f : Fam) (v : Nat) : Option (R (List Char)) :=
  if f.kind = 4 then some (V4.intToArpa v) else if f.kind = 6 then some (V6.intToArpa v) else none

def optField {α} (f : α → String) : Option (R α) → String
  | none => "-"
  | some r => showR f r

def parseInts (tok : String) : Option (List Int) := do (← parseList tok).mapM parseInt

def parseBytes (tok : String) : Option (List Nat) :=
  if tok.startsWith "b:" then hexBytes (tok.drop 2).toString.toList else none

def handle (op : String) (args : List String) : Option String :=
  match op, args with
  | "c15_enc", [fam, v] => do
    let f ← parseFam fam; let v ← parseInt v
    pure (" ".intercalate [showR showNats (famWordsZ f v), optField showBytes (famPackedZ f v),
      showR showStr (intToBitsZ v f.ws f.nw f.sep), showR showStr (intToBinZ v f.width),
      optField showStr (famArpaZ f v)])
  | "c15_obj", [fam, v, sep] => do
    -- object-level accessors: IPAddress / EUI (EUI: module default dialect for words / bits())
    let f ← parseFam fam; let v ← v.toNat?; let sep ← parseOptStr sep
    if f.kind = 4 ∨ f.kind = 6 then
      -- the accessors of the `IPAddress` object (Model/CodecObj.lean)
      let a : Addr := ⟨f.kind, v⟩
      pure (" ".intercalate [showR showNats (IPObj.words a), showR showBytes (IPObj.packed a),
        showR showBytes (IPObj.bytes a), showR showStr (IPObj.bits a sep), showR showStr (IPObj.bin a),
        showR showStr (IPObj.reverseDns a)])
    else
      pure (" ".intercalate [showR showNats (Eui.words f.kind v), showR showBytes (Eui.packed f.kind v),
        "-", showR showStr (Eui.bits f.kind v sep), showR showStr (intToBin v f.width), "-"])
  | "c15_dec", [kind, fam, payload] => do
    let f ← parseFam fam
    match kind with
    | "words" => do pure (showR toString (famWordsToIntZ f (← parseInts payload)))
    | "packed" => do pure (optField toString (famUnpack f (← parseBytes payload)))
    | "bits" => do pure (showR toString (bitsToInt (← parseStr payload) f.width f.sep))
    | "bin" => do pure (showR toString (binToInt (← parseStr payload) f.width))
    | _ => none
  | "c15_valid", [kind, fam, payload] => do
    let f ← parseFam fam
    match kind with
    | "words" => do pure (showBool (validWordsZ (← parseInts payload) f.ws f.nw))
    | "bits" => do pure (showBool (validBits (← parseStr payload) f.width f.sep))
    | "bin" => do pure (showBool (validBin (← parseStr payload) f.width))
    | _ => none
  | "c15_b85e", [v] => do pure (showStr (ipv6ToBase85 (← v.toNat?)))
  | "c15_b85d", [s] => do pure (showR toString (base85ToIpv6 (← parseStr s)))
  | "c15_b85t", [s] => do pure (showR showStr (base85ToIpv6Text .platform (← parseStr s)))
  | _, _ => none

end NV.Driver.C15
