import NetaddrVerif.Model.Proto
import NetaddrVerif.Model.Address
/-! Driver ops of property C14: `arith A:ver:val op X` · `ctor X ver|-` · `conv A:ver:val`.
`arith` ops: add radd sub rsub · iadd isub (run statement by statement, `Address.Inplace`; the
observable part of the event log is appended) · or and xor · shl shr (any operand: negative
counts, addresses) · rshl rshr (`n << a`, `n >> a`). -/
namespace NV.Driver.C14
open NV NV.Proto NV.Address

/-- `i:<int>` or `a:<ver>:<val>` -/
def parseOperand (tok : String) : Option Operand :=
  match tok.splitOn ":" with
  | ["i", n] => (parseInt n).map .int
  | ["a", ver, v] => do pure (.addr ⟨← ver.toNat?, ← v.toNat?⟩)
  | _ => none

def showAddr (a : Addr) : String := s!"{a.ver}:{a.val}"

def showRes : R Addr → String
  | .ok r => showAddr r
  | .error e => showErr e

/-- result, then the left operand as it is after the operation -/
def showArith (a : Addr) (r : R Addr) (inplace : Bool) : String :=
  let after := if inplace then (stepInplace a r).1 else a
  showRes r ++ "~" ++ showAddr after

/-- an in-place operator run statement by statement: result, receiver afterwards, and the
    reads/writes of the receiver's attributes in order -/
def showInplace (st : Inplace.St) : String :=
  let (after, err) := st.result
  let res := match err with
    | none => showAddr after
    | some e => showErr e
  res ++ "~" ++ showAddr after ++ "~" ++ ",".intercalate (st.log.filterMap Inplace.Ev.observable)

def handle (op : String) (args : List String) : Option String :=
  match op, args with
  | "arith", [a, o, x] => do
    let a ← parseAddr a
    let x ← parseOperand x
    match o, x with
    | "add", .int n => pure (showArith a (add a n) false)
    | "radd", .int n => pure (showArith a (radd a n) false)
    | "sub", .int n => pure (showArith a (sub a n) false)
    | "rsub", .int n => pure (showArith a (rsub a n) false)
    | "iadd", .int n => pure (showInplace (Inplace.iaddRun a n))
    | "isub", .int n => pure (showInplace (Inplace.isubRun a n))
    | "or", x => pure (showArith a (or_ a x) false)
    | "and", x => pure (showArith a (and_ a x) false)
    | "xor", x => pure (showArith a (xor_ a x) false)
    | "shl", x => pure (showArith a (lshift a x) false)
    | "shr", x => pure (showArith a (rshift a x) false)
    | "rshl", .int n => pure (showArith a (rlshift a n) false)
    | "rshr", .int n => pure (showArith a (rrshift a n) false)
    | _, _ => none
  | "ctor", [x, ver] => do
    let x ← parseInt x
    let ver ← if ver = "-" then some none else ver.toNat?.map some
    pure (showRes (ctor x ver))
  | "conv", [a] => do
    let a ← parseAddr a
    pure (" ".intercalate [toString (toInt a), toString (index a), String.ofList (hex a), showBool (nonzero a)])
  | _, _ => none

end NV.Driver.C14
