import NetaddrVerif.Model.Proto
import NetaddrVerif.Model.Convert
/-! Driver ops of property C16: `to4 obj` · `to6 obj compat` · `mapped obj` · `rt46 obj compat`
    (obj = `A:ver:val` or `N:ver:val:plen`). -/
namespace NV.Driver.C16
open NV NV.Proto NV.Convert

def showA : R Addr → String
  | .ok a => s!"A:{a.ver}:{a.val}"
  | .error e => showErr e

def showN : R Net → String
  | .ok n => s!"N:{n.ver}:{n.val}:{n.plen}"
  | .error e => showErr e

def parseBool (s : String) : Option Bool :=
  if s = "T" then some true else if s = "F" then some false else none

def handle (op : String) (args : List String) : Option String :=
  match op, args with
  | "to4", [o] =>
    match parseAddr o, parseNet o with
    | some a, _ => some (showA (addrIpv4 a))
    | _, some n => some (showN (netIpv4 n))
    | _, _ => none
  | "to6", [o, c] => do
    let c ← parseBool c
    match parseAddr o, parseNet o with
    | some a, _ => some (showA (addrIpv6 a c))
    | _, some n => some (showN (netIpv6 n c))
    | _, _ => none
  | "rt46", [o, c] => do
    let c ← parseBool c
    match parseAddr o, parseNet o with
    | some a, _ => some (showA (addrIpv6 a c >>= addrIpv4))
    | _, some n => some (showN (netIpv6 n c >>= netIpv4))
    | _, _ => none
  | "mapped", [o] =>
    match parseAddr o, parseNet o with
    | some a, _ => some (showBool (isIpv4Mapped a.ver a.val) ++ " " ++ showBool (isIpv4Compat a.ver a.val))
    | _, some n => some (showBool (isIpv4Mapped n.ver n.val) ++ " " ++ showBool (isIpv4Compat n.ver n.val))
    | _, _ => none
  | _, _ => none

end NV.Driver.C16
