import NetaddrVerif.Model.Proto
import NetaddrVerif.Model.Subnet
import NetaddrVerif.Model.SubnetTrace
/-! Driver ops of property C11 (Model/Subnet.lean).
    `subnet N q count|- limit` → `[first limit blocks] more?` or `!err`
    `supernet N q` → `[blocks]` or `!err`
    `next N k` / `prev N k` → `result~receiver` (`!err~receiver`)
    `iadd N k` / `isub N k` → object after the statement, `!err~object` when it raised
    `hosts N limit` → `[first limit values] more?`
    `subtake N q count|- limit` → `list(islice(N.subnet(q, count), limit))` with the EXACT limit
      (0 included: nothing of the generator body runs) → `[blocks]` or `!err`
    `iaddT N k` / `isubT N k` / `nextT N k` / `prevT N k` → the statement-level runs of
      Model/SubnetTrace.lean: `returned object|!err ~ receiver afterwards ~ observable events`
      (stores per object: `r:wv:<int>` into the receiver, `c:wv:…,c:wp:…,c:wm` the constructor of
      the private copy, `c:wv:<int>` the step's store into the copy) -/
namespace NV.Driver.C11
open NV NV.Proto NV.Subnet

def showNets (l : List Net) : String := showList (l.map showNet)

def showR (r : R Net) : String :=
  match r with
  | .ok n => showNet n
  | .error e => showErr e

def parseOptInt (s : String) : Option (Option Int) :=
  if s = "-" then some none else (parseInt s).map some

def showTrace (st : Trace.St) : String :=
  showR st.result.1 ++ "~" ++ showNet st.result.2 ++ "~" ++
    ",".intercalate (st.log.filterMap Trace.Ev.observable)

def handle (op : String) (args : List String) : Option String :=
  match op, args with
  | "subnet", [n, q, count, limit] => do
    let n ← parseNet n; let q ← parseInt q; let count ← parseOptInt count; let limit ← limit.toNat?
    match subnetTake n q count (limit + 1) with
    | .ok l => pure (showNets (l.take limit) ++ " " ++ showBool (l.length > limit))
    | .error e => pure (showErr e)
  | "supernet", [n, q] => do
    let n ← parseNet n; let q ← parseInt q
    match supernet n q with
    | .ok l => pure (showNets l)
    | .error e => pure (showErr e)
  | "next", [n, k] => do
    let n ← parseNet n; let k ← parseInt k
    pure (showR (next n k) ++ "~" ++ showNet n)
  | "prev", [n, k] => do
    let n ← parseNet n; let k ← parseInt k
    pure (showR (previous n k) ++ "~" ++ showNet n)
  | "iadd", [n, k] => do
    let n ← parseNet n; let k ← parseInt k
    let (n', e) := stepIadd n k
    pure (match e with
      | none => showNet n'
      | some e => showErr e ++ "~" ++ showNet n')
  | "isub", [n, k] => do
    let n ← parseNet n; let k ← parseInt k
    let (n', e) := stepIsub n k
    pure (match e with
      | none => showNet n'
      | some e => showErr e ++ "~" ++ showNet n')
  | "hosts", [n, limit] => do
    let n ← parseNet n; let limit ← limit.toNat?
    let l := hostsTake n (limit + 1)
    pure (showList ((l.take limit).map toString) ++ " " ++ showBool (l.length > limit))
  | "subtake", [n, q, count, limit] => do
    let n ← parseNet n; let q ← parseInt q; let count ← parseOptInt count; let limit ← limit.toNat?
    match subnetTake n q count limit with
    | .ok l => pure (showNets l)
    | .error e => pure (showErr e)
  | "iaddT", [n, k] => do
    let n ← parseNet n; let k ← parseInt k
    pure (showTrace (Trace.iaddRun n k))
  | "isubT", [n, k] => do
    let n ← parseNet n; let k ← parseInt k
    pure (showTrace (Trace.isubRun n k))
  | "nextT", [n, k] => do
    let n ← parseNet n; let k ← parseInt k
    pure (showTrace (Trace.nextRun n k))
  | "prevT", [n, k] => do
    let n ← parseNet n; let k ← parseInt k
    pure (showTrace (Trace.prevRun n k))
  | _, _ => none

end NV.Driver.C11
