import NetaddrVerif.Model.Proto
import NetaddrVerif.Model.AddrParse
import NetaddrVerif.Model.AddrRaw
/-! Driver ops of property C01 and of the modelled platform text functions.
    `aton S` · `pton4 S` · `pton6 S` · `ntop6 V` (platform);
    `ip_parse be S ver flags` · `ip_print be F V dialect` · `valid4 be S flags` · `valid6 be S` ·
    `fb_pton F S` · `fb_ntop F V` · `ip_repr be F V` (repr + parse of its quoted part) ·
    `zf_rewrite S` (the ZEROFILL rewrite `'.'.join('%d' % int(p) for p in S.split('.'))`).
    Raw-exception model (Model/AddrRaw.lean, platform `std`): `valid4` / `valid6` run the separate
    transcriptions `validStr4Raw` / `validStr6Raw`; `ip_parse_raw be4 be6 S ver flags`
    (`ipAddressRaw`, the two back-end switches apart, exception class as raised);
    `s2i_raw F be S flags` (`strategy.ipv4/ipv6.str_to_int`); `raw_call fn be S` with fn in
    aton | pton4 | pton6 | int (the platform calls themselves: value, `!exception` or `!base`);
    `ip_format be6 F V D` (`IPAddress.format`, D = - | compact | full | verbose | nowf | wfonly). -/
namespace NV.Driver.C01
open NV NV.Proto NV.AddrParse NV.AddrRaw

def showExn (e : Exn) : String := "!" ++ e.tag

def parseFmtArg : String → Option FmtArg
  | "-" => some .none
  | "compact" => some (.dialect .compact)
  | "full" => some (.dialect .full)
  | "verbose" => some (.dialect .verbose)
  | "nowf" => some .noWordFmt
  | "wfonly" => some .wordFmtOnly
  | _ => none

def parseBe : String → Option Backend
  | "pl" => some .platform
  | "fb" => some .fallback
  | _ => none

def parseOptNat (s : String) : Option (Option Nat) :=
  if s == "-" then some none else s.toNat?.map some

def parseDialect : String → Option Dialect
  | "compact" => some .compact
  | "full" => some .full
  | "verbose" => some .verbose
  | _ => none

def showOptV : Option Nat → String
  | some v => toString v
  | none => "!"

def handle (op : String) (args : List String) : Option String :=
  match op, args with
  | "aton", [s] => do pure (showOptV (Text4.aton (← parseStr s)))
  | "pton4", [s] => do pure (showOptV (Text4.pton4 (← parseStr s)))
  | "pton6", [s] => do pure (showOptV (Text6.pton6 (← parseStr s)))
  | "ntop6", [v] => do pure (showStr (Text6.ntop6 (← v.toNat?)))
  | "fb_pton", [f, s] => do
    let f ← f.toNat?; let s ← parseStr s
    pure (showOptV (if f = 4 then FbSocket.pton4 s else FbSocket.pton6 s))
  | "fb_ntop", [f, v] => do
    let f ← f.toNat?; let v ← v.toNat?
    pure (showStr (if f = 4 then FbSocket.ntoa v else FbSocket.ntop6 v))
  | "ip_parse", [be, s, ver, flags] => do
    let be ← parseBe be; let s ← parseStr s; let ver ← parseOptNat ver; let flags ← flags.toNat?
    match ipAddress be s ver flags with
    | .ok a => pure s!"{a.ver} {a.val}"
    | .error e => pure (showErr e)
  | "ip_print", [be, f, v, d] => do
    let be ← parseBe be; let f ← f.toNat?; let v ← v.toNat?
    if d == "-" then pure (showStr (intToStr be f v))
    else
      let d ← parseDialect d
      pure (showStr (if f = 4 then Text4.ntoa v else intToStr6 be d v))
  | "valid4", [be, s, flags] => do
    let be ← parseBe be; let s ← parseStr s; let flags ← flags.toNat?
    match validStr4Raw std be s flags with
    | .ok b => pure (showBool b)
    | .error e => pure (showExn e)
  | "valid6", [be, s] => do
    let be ← parseBe be; let s ← parseStr s
    match validStr6Raw std be s with
    | .ok b => pure (showBool b)
    | .error e => pure (showExn e)
  | "ip_parse_raw", [be4, be6, s, ver, flags] => do
    let be4 ← parseBe be4; let be6 ← parseBe be6
    let s ← parseStr s; let ver ← parseOptNat ver; let flags ← flags.toNat?
    match ipAddressRaw std be4 be6 s ver flags with
    | .ok a => pure s!"{a.ver} {a.val}"
    | .error e => pure (showExn e)
  | "s2i_raw", [f, be, s, flags] => do
    let f ← f.toNat?; let be ← parseBe be; let s ← parseStr s; let flags ← flags.toNat?
    match (if f = 4 then strToInt4Raw std be s flags else strToInt6Raw std be s flags) with
    | .ok v => pure (toString v)
    | .error e => pure (showExn e)
  | "raw_call", [fn, be, s] => do
    let be ← parseBe be; let s ← parseStr s
    -- which class the platform raises is not reported, only whether it is below `Exception`
    -- (what `RawPlatform.Sane` asks)
    let showK : Exn → String := fun e => if e.isException then "!exception" else "!base"
    let showX : X Nat → String := fun r => match r with
      | .ok v => toString v
      | .error e => showK e
    match fn with
    | "aton" => pure (showX (std.aton s))
    | "pton4" => pure (showX (std.pton4 be s))
    | "pton6" => pure (showX (std.pton6 be s))
    | "int" => (match std.pyInt s with
      | .ok i => pure (toString i)
      | .error e => pure (showK e))
    | _ => none
  | "ip_format", [be6, f, v, d] => do
    let be6 ← parseBe be6; let f ← f.toNat?; let v ← v.toNat?; let d ← parseFmtArg d
    match ipFormat be6 ⟨f, v⟩ d with
    | .ok t => pure (showStr t)
    | .error e => pure (showErr e)
  | "ip_repr", [be, f, v] => do
    let be ← parseBe be; let f ← f.toNat?; let v ← v.toNat?
    let r := reprAddr be ⟨f, v⟩
    -- the repr and what parsing its quoted part gives back (version None, flags 0)
    match unquoteRepr r with
    | none => pure s!"{showStr r} !unquote"
    | some q =>
      match ipAddress be q none 0 with
      | .ok a => pure s!"{showStr r} {a.ver} {a.val}"
      | .error e => pure s!"{showStr r} {showErr e}"
  | "zf_rewrite", [s] => do
    match zerofill (← parseStr s) with
    | some t => pure (showStr t)
    | none => pure "!"
  | _, _ => none

end NV.Driver.C01
