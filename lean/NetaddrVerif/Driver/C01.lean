import NetaddrVerif.Model.Proto
import NetaddrVerif.Model.AddrParse
/-! Driver ops of property C01 and of the modelled platform text functions.
    `aton S` · `pton4 S` · `pton6 S` · `ntop6 V` (platform);
    `ip_parse be S ver flags` · `ip_print be F V dialect` · `valid4 be S flags` · `valid6 be S` ·
    `fb_pton F S` · `fb_ntop F V` · `ip_repr be F V` (repr + parse of its quoted part) ·
    `zf_rewrite S` (the ZEROFILL rewrite `'.'.join('%d' % int(p) for p in S.split('.'))`). -/
namespace NV.Driver.C01
open NV NV.Proto NV.AddrParse

def parseBe : String → Option Backend
  | "pl" => some .platform
  | "fb" => some .fallback
  | _ => none

def parseOptNat (s : String) : Option (Option Nat) :=
  if s == "-" then some none else s.toNat?.map some

def parseDialect : String → Option Dialect
  | "compact" => some .compact
  | "full" => some .full
  | "verbose" => some .verbose
  | _ => none

def showOptV : Option Nat → String
  | some v => toString v
  | none => "!"

def handle (op : String) (args : List String) : Option String :=
  match op, args with
  | "aton", [s] => do pure (showOptV (Text4.aton (← parseStr s)))
  | "pton4", [s] => do pure (showOptV (Text4.pton4 (← parseStr s)))
  | "pton6", [s] => do pure (showOptV (Text6.pton6 (← parseStr s)))
  | "ntop6", [v] => do pure (showStr (Text6.ntop6 (← v.toNat?)))
  | "fb_pton", [f, s] => do
    let f ← f.toNat?; let s ← parseStr s
    pure (showOptV (if f = 4 then FbSocket.pton4 s else FbSocket.pton6 s))
  | "fb_ntop", [f, v] => do
    let f ← f.toNat?; let v ← v.toNat?
    pure (showStr (if f = 4 then FbSocket.ntoa v else FbSocket.ntop6 v))
  | "ip_parse", [be, s, ver, flags] => do
    let be ← parseBe be; let s ← parseStr s; let ver ← parseOptNat ver; let flags ← flags.toNat?
    match ipAddress be s ver flags with
    | .ok a => pure s!"{a.ver} {a.val}"
    | .error e => pure (showErr e)
  | "ip_print", [be, f, v, d] => do
    let be ← parseBe be; let f ← f.toNat?; let v ← v.toNat?
    if d == "-" then pure (showStr (intToStr be f v))
    else
      let d ← parseDialect d
      pure (showStr (if f = 4 then Text4.ntoa v else intToStr6 be d v))
  | "valid4", [be, s, flags] => do
    let be ← parseBe be; let s ← parseStr s; let flags ← flags.toNat?
    match validStr4 be s flags with
    | .ok b => pure (showBool b)
    | .error e => pure (showErr e)
  | "valid6", [be, s] => do
    let be ← parseBe be; let s ← parseStr s
    match validStr6 be s with
    | .ok b => pure (showBool b)
    | .error e => pure (showErr e)
  | "ip_repr", [be, f, v] => do
    let be ← parseBe be; let f ← f.toNat?; let v ← v.toNat?
    let r := reprAddr be ⟨f, v⟩
    -- the repr and what parsing its quoted part gives back (version None, flags 0)
    match unquoteRepr r with
    | none => pure s!"{showStr r} !unquote"
    | some q =>
      match ipAddress be q none 0 with
      | .ok a => pure s!"{showStr r} {a.ver} {a.val}"
      | .error e => pure s!"{showStr r} {showErr e}"
  | "zf_rewrite", [s] => do
    match zerofill (← parseStr s) with
    | some t => pure (showStr t)
    | none => pure "!"
  | _, _ => none

end NV.Driver.C01
