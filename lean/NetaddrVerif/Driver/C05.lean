import NetaddrVerif.Model.Proto
import NetaddrVerif.Model.Summarise
import NetaddrVerif.Driver.Cidr
/-! Driver ops of property C05 on top of the shared `merge` / `range2cidrs` (Driver/Cidr.lean):
    `range_cidrs R:ver:lo:hi`, `glob2cidrs [l0:h0,l1:h1,l2:h2,l3:h3]`, `unique_ips [items]`. -/
namespace NV.Driver.C05
open NV NV.Proto NV.Summ

def parseOctet (tok : String) : Option (Nat × Nat) :=
  match tok.splitOn ":" with
  | [a, b] => do pure (← a.toNat?, ← b.toNat?)
  | _ => none

def showAddr (a : Addr) : String := s!"{a.ver}:{a.val}"

def handle (op : String) (args : List String) : Option String :=
  match op, args with
  | "range_cidrs", [r] => do
    let r ← parseRng r
    pure (showList ((rangeCidrs r).map showNet))
  | "glob2cidrs", [os] => do
    let os ← (← parseList os).mapM parseOctet
    pure (showList ((globToCidrs os).map showNet))
  | "unique_ips", [items] => do
    let items ← (← parseList items).mapM NV.Driver.Cidr.parseItem
    pure (showList ((iterUniqueIps items).map showAddr))
  | _, _ => none

end NV.Driver.C05
