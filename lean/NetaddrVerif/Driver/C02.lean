import NetaddrVerif.Model.Proto
import NetaddrVerif.Model.Network
import NetaddrVerif.Model.NetworkSet
import NetaddrVerif.Model.NetworkMask
import NetaddrVerif.Driver.C01
namespace NV.Driver.C02
open NV NV.Proto

def parseSetArg : List String → Option SetArg
  | ["i", n] => (parseInt n).map .int
  | ["a", ver, v] => do pure (.addr ⟨← ver.toNat?, ← v.toNat?⟩)
  | ["j"] => some .junk
  | _ => none

def parseSetOp (tok : String) : Option SetOp :=
  match tok.splitOn ":" with
  | "v" :: r => (parseSetArg r).map .value
  | "p" :: r => (parseSetArg r).map .prefixlen
  | "m" :: r => (parseSetArg r).map .netmask
  | _ => none

/-- the property allows AddrFormatError / ValueError / TypeError for a rejected assignment -/
def showSetErr : Err → String
  | .addrFormat | .value | .type_ => "!E"
  | e => "!other:" ++ e.tag

def runSets (n : Net) : List SetOp → List String
  | [] => []
  | op :: ops =>
    let (n', e) := stepSet n op
    let s := match e with
      | none => showNet n'
      | some e => showSetErr e ++ "~" ++ showNet n'
    s :: runSets n' ops

/-- the same history run through the statement-by-statement setter bodies (`SetTrace`): the
    object printed after a raise is the state the body had reached, nothing is rolled back; the
    number of stores each step made is printed too -/
def runSetsT (n : Net) : List SetOp → List String
  | [] => []
  | op :: ops =>
    let (r, st) := SetTrace.setterTrace n op
    let s := match r with
      | .ok _ => showNet st.obj
      | .error e => showSetErr e ++ "~" ++ showNet st.obj
    (s ++ "#" ++ toString st.log.length) :: runSetsT st.obj ops

/-! ### every argument form of the netmask setter (Model/NetworkMask.lean)

    setter tokens as above, plus `m:s:<hex of the text>` (a str) and `m:n:ver:val:plen` (an
    IPNetwork object).  The error class is printed exactly (`!value`, `!addrFormat`, `!type`):
    the theorems of Props/C02Audit2.lean name it. -/

def parseMaskArg : List String → Option NetMask.MaskArg
  | ["s", h] => (parseStr ("s:" ++ h)).map .str
  | ["n", ver, v, p] => do pure (.net ⟨← ver.toNat?, ← v.toNat?, ← p.toNat?⟩)
  | r => (parseSetArg r).map .plain

def parseSetOpX (tok : String) : Option NetMask.SetOpX :=
  match tok.splitOn ":" with
  | "v" :: r => (parseSetArg r).map .value
  | "p" :: r => (parseSetArg r).map .prefixlen
  | "m" :: r => (parseMaskArg r).map .netmask
  | _ => none

def runSetsX (be : AddrParse.Backend) (n : Net) : List NetMask.SetOpX → List String
  | [] => []
  | op :: ops =>
    let (n', e) := NetMask.stepSetX be n op
    let s := match e with
      | none => showNet n'
      | some e => showErr e ++ "~" ++ showNet n'
    s :: runSetsX be n' ops

def runSetsXT (be : AddrParse.Backend) (n : Net) : List NetMask.SetOpX → List String
  | [] => []
  | op :: ops =>
    let (r, st) := NetMask.setterTraceX be n op
    let s := match r with
      | .ok _ => showNet st.obj
      | .error e => showErr e ++ "~" ++ showNet st.obj
    (s ++ "#" ++ toString st.log.length) :: runSetsXT be st.obj ops

def handle (op : String) (args : List String) : Option String :=
  match op, args with
  | "net_sets_x", [be, ver, v, p, ops] => do
    let be ← NV.Driver.C01.parseBe be
    let n : Net := ⟨← ver.toNat?, ← v.toNat?, ← p.toNat?⟩
    let ops ← (← parseList ops).mapM parseSetOpX
    pure (";".intercalate (runSetsX be n ops))
  | "net_sets_x_trace", [be, ver, v, p, ops] => do
    let be ← NV.Driver.C01.parseBe be
    let n : Net := ⟨← ver.toNat?, ← v.toNat?, ← p.toNat?⟩
    let ops ← (← parseList ops).mapM parseSetOpX
    pure (";".intercalate (runSetsXT be n ops))
  | "net_attrs", [ver, v, p] => do
    let ver ← ver.toNat?; let v ← v.toNat?; let p ← p.toNat?
    let w := width ver
    let c := netCidr ⟨ver, v, p⟩
    pure (" ".intercalate [toString (netHostmask w p), toString (netNetmask w p), toString (netNetwork w v p),
      toString (netFirst w v p), toString (netLast w v p), toString (netSize w v p),
      showOptNat (netBroadcast ver w v p), toString (Network.netIp ⟨ver, v, p⟩).val, showNet c])
  | "net_sets", [ver, v, p, ops] => do
    let n : Net := ⟨← ver.toNat?, ← v.toNat?, ← p.toNat?⟩
    let ops ← (← parseList ops).mapM parseSetOp
    pure (";".intercalate (runSets n ops))
  | "net_sets_trace", [ver, v, p, ops] => do
    let n : Net := ⟨← ver.toNat?, ← v.toNat?, ← p.toNat?⟩
    let ops ← (← parseList ops).mapM parseSetOp
    pure (";".intercalate (runSetsT n ops))
  | "mask_pred", [ver, v] => do
    let ver ← ver.toNat?; let v ← v.toNat?
    let w := width ver
    let nb := match netmaskBits w v with
      | .ok n => toString n
      | .error e => showErr e
    pure (" ".intercalate [showBool (isNetmask w v), showBool (isHostmask v), nb])
  | _, _ => none

end NV.Driver.C02
