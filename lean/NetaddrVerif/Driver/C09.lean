import NetaddrVerif.Model.Proto
/-! Driver ops of property C09.  The property's ops `partition N N` and `exclude N N` run the
    shared `cidrPartition` / `cidrExclude` of Model/Cidr.lean and live in Driver/Cidr.lean
    (shared, used by C05/C09/C13/C20); nothing is added here. -/
namespace NV.Driver.C09
open NV NV.Proto

def handle (_op : String) (_args : List String) : Option String := none

end NV.Driver.C09
