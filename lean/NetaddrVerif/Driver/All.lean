import NetaddrVerif.Driver.C02
namespace NV.Driver

def handlers : List (String → List String → Option String) :=
  [C02.handle]

def dispatch (op : String) (args : List String) : Option String :=
  handlers.findSome? (fun h => h op args)

end NV.Driver
