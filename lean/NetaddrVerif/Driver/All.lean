import NetaddrVerif.Driver.Cidr
import NetaddrVerif.Driver.Runtime
import NetaddrVerif.Driver.C01
import NetaddrVerif.Driver.C02
import NetaddrVerif.Driver.C03
import NetaddrVerif.Driver.C04
import NetaddrVerif.Driver.C05
import NetaddrVerif.Driver.C06
import NetaddrVerif.Driver.C07
import NetaddrVerif.Driver.C08
import NetaddrVerif.Driver.C09
import NetaddrVerif.Driver.C10
import NetaddrVerif.Driver.C11
import NetaddrVerif.Driver.C12
import NetaddrVerif.Driver.C13
import NetaddrVerif.Driver.C14
import NetaddrVerif.Driver.C15
import NetaddrVerif.Driver.C16
import NetaddrVerif.Driver.C17
import NetaddrVerif.Driver.C18
import NetaddrVerif.Driver.C19
import NetaddrVerif.Driver.C20
import NetaddrVerif.Driver.Coerce
namespace NV.Driver

/-- every property's handler; the first one that recognises the op answers -/
def handlers : List (String → List String → Option String) :=
  [Cidr.handle, Runtime.handle, C01.handle, C02.handle, C03.handle, C04.handle, C05.handle, C06.handle, C07.handle, C08.handle, C09.handle, C10.handle, C11.handle, C12.handle, C13.handle, C14.handle, C15.handle, C16.handle, C17.handle, C18.handle, C19.handle, C20.handle, Coerce.handle]

def dispatch (op : String) (args : List String) : Option String :=
  handlers.findSome? (fun h => h op args)

end NV.Driver
