import NetaddrVerif.Model.Proto
import NetaddrVerif.Model.Contains
/-! Driver ops of property C04.
    `contains own|mixin <y> <x>`  y = `N:ver:val:plen` | `R:ver:lo:hi`; x = `A:…` | `N:…` | `R:…` → `T`/`F`
    `match_all A:ver:val [N:…,…]` → `[ver:val/plen,…]`
    `match_small …`, `match_large …` → `ver:val/plen` | `-` -/
namespace NV.Driver.C04
open NV NV.Proto NV.Contains

def parseObj (tok : String) : Option Obj :=
  if tok.startsWith "A:" then (parseAddr tok).map .addr
  else if tok.startsWith "N:" then (parseNet tok).map .net
  else if tok.startsWith "R:" then (parseRng tok).map .rng
  else none

def parseCont (tok : String) : Option Cont :=
  if tok.startsWith "N:" then (parseNet tok).map .net
  else if tok.startsWith "R:" then (parseRng tok).map .rng
  else none

def showOptNet : Option Net → String
  | none => "-"
  | some n => showNet n

def handle (op : String) (args : List String) : Option String :=
  match op, args with
  | "contains", [mode, y, x] => do
    let y ← parseCont y; let x ← parseObj x
    if mode == "own" then pure (showBool (contains y x))
    else if mode == "mixin" then pure (showBool (mixinContains y x))
    else none
  | "match_all", [ip, l] => do
    let ip ← parseAddr ip; let l ← (← parseList l).mapM parseNet
    pure (showList ((allMatching ip l).map showNet))
  | "match_small", [ip, l] => do
    let ip ← parseAddr ip; let l ← (← parseList l).mapM parseNet
    pure (showOptNet (smallestMatching ip l))
  | "match_large", [ip, l] => do
    let ip ← parseAddr ip; let l ← (← parseList l).mapM parseNet
    pure (showOptNet (largestMatching ip l))
  | _, _ => none

end NV.Driver.C04
