import NetaddrVerif.Model.Proto
import NetaddrVerif.Model.ListLike
/-! Driver ops of property C10.
  `ll_iter OBJ cap`        first `cap` items of `iter(OBJ)`, then `+` if more follow
  `ll_len OBJ maxsize`     `size len` (`len` = `!index` when it does not fit)
  `ll_index OBJ i`         `ver:val` or `!index`
  `ll_slice OBJ a b c`     `[v,…]`, `!type` (IPv6), `!value` (zero step)
  `iter_iprange A B step cap`   first `cap` items, then `+` if more follow; `!` for an error
  OBJ = `N:ver:val:plen` | `R:ver:lo:hi` (IPRange and IPGlob) -/
namespace NV.Driver.C10
open NV NV.Proto NV.ListLike

def parseObj (tok : String) : Option Ranged :=
  match parseNet tok with
  | some n => some (ofNet n)
  | none => (parseRng tok).map ofRng

def optInt (tok : String) : Option (Option Int) :=
  if tok == "-" then some none else (tok.toInt?).map some

def showVals (l : List Addr) : String := showList (l.map (fun a => toString a.val))

/-- items up to `cap`, plus a `+` marker when the generator had more -/
def showCapped (cap : Nat) (r : R (List Addr)) (errTag : Err → String) : String :=
  match r with
  | .error e => errTag e
  | .ok l => showVals (l.take cap) ++ (if l.length > cap then "+" else "")

def handle (op : String) (args : List String) : Option String :=
  match op, args with
  | "ll_iter", [o, cap] => do
    let x ← parseObj o; let cap ← cap.toNat?
    pure (showCapped cap (iterF (cap + 1) x) showErr)
  | "ll_len", [o, maxsize] => do
    let x ← parseObj o; let m ← maxsize.toNat?
    let l := match len m x with
      | .ok n => toString n
      | .error e => showErr e
    pure (toString (size x) ++ " " ++ l)
  | "ll_index", [o, i] => do
    let x ← parseObj o; let i ← i.toInt?
    pure (match getItemInt x i with
      | .ok a => s!"{a.ver}:{a.val}"
      | .error e => showErr e)
  | "ll_slice", [o, a, b, c] => do
    let x ← parseObj o; let a ← optInt a; let b ← optInt b; let c ← optInt c
    pure (match getItemSlice x a b c with
      | .ok l => showVals l
      | .error e => showErr e)
  | "iter_iprange", [a, b, step, cap] => do
    let a ← parseAddr a; let b ← parseAddr b; let step ← step.toInt?; let cap ← cap.toNat?
    pure (showCapped cap (iterIprangeF (cap + 1) a b step) (fun _ => "!"))
  | _, _ => none

end NV.Driver.C10
