import NetaddrVerif.Model.Proto
/-! Driver ops of property C13 (stub: filled in by the property's model). -/
namespace NV.Driver.C13
open NV NV.Proto

def handle (_op : String) (_args : List String) : Option String := none

end NV.Driver.C13
