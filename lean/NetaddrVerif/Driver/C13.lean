import NetaddrVerif.Model.Proto
import NetaddrVerif.Model.SpanErr
/-! Driver ops of property C13.
    `span_nets [N:ver:val:plen,…]` → `ver:val/plen` | `!value` | `!type`
    (the same-family core is also reachable as `spanning ver [..]` in Driver/Cidr.lean) -/
namespace NV.Driver.C13
open NV NV.Proto

def handle (op : String) (args : List String) : Option String :=
  match op, args with
  | "span_nets", [l] => do
    let l ← (← parseList l).mapM parseNet
    match Span.spanningCidrNets l with
    | .ok n => pure (showNet n)
    | .error e => pure (showErr e)
  | _, _ => none

end NV.Driver.C13
