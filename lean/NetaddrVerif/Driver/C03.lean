import NetaddrVerif.Model.Proto
import NetaddrVerif.Model.NetParse
import NetaddrVerif.Model.NetParseX
import NetaddrVerif.Driver.C01
/-! Driver ops of property C03:
    `net_parse be argkind arg implicit ver flags` (argkind ∈ str, tuple, copyA, copyN) ·
    `abbrev S` · `expand S` · `net_str be F V P` ·
    `abbrev_x kind val` (kind ∈ i = int, b = bool T/F, f = finite float given by its truncation,
    n = None / tuple / list; answer: `s:<hex>` a new text, `=` the argument itself, `!type`) ·
    `net_repr be F V P` (repr, and what constructing from its quoted part gives back). -/
namespace NV.Driver.C03
open NV NV.Proto NV.AddrParse NV.NetParse

def parseArg (kind arg : String) : Option NetArg :=
  match kind with
  | "str" => (parseStr arg).map .str
  | "tuple" => do
    match ← parseList arg with
    | [v, p] => pure (.tuple (← parseInt v) (← parseInt p))
    | _ => none
  | "copyA" => (parseAddr arg).map .copyAddr
  | "copyN" => (parseNet arg).map .copyNet
  | _ => none

def handle (op : String) (args : List String) : Option String :=
  match op, args with
  | "net_parse", [be, kind, arg, implicit, ver, flags] => do
    let be ← NV.Driver.C01.parseBe be
    let a ← parseArg kind arg
    let ver ← NV.Driver.C01.parseOptNat ver
    let flags ← flags.toNat?
    match ipNetwork be a (implicit == "T") ver flags with
    | .ok n => pure (showNet n)
    | .error e => pure (showErr e)
  | "abbrev", [s] => do pure (showStr (cidrAbbrevToVerbose (← parseStr s)))
  | "expand", [s] => do
    match expandPartialAddress (← parseStr s) with
    | .ok t => pure (showStr t)
    | .error e => pure (showErr e)
  | "net_str", [be, f, v, p] => do
    let be ← NV.Driver.C01.parseBe be
    pure (showStr (netStr be ⟨← f.toNat?, ← v.toNat?, ← p.toNat?⟩))
  | "abbrev_x", [kind, val] => do
    let a : AbbrevArg ← match kind with
      | "i" => (parseInt val).map .int
      | "b" => some (.bool (val == "T"))
      | "f" => (parseInt val).map .float
      | "n" => some .none
      | _ => none
    match cidrAbbrevToVerboseX a with
    | .ok (.text t) => pure (showStr t)
    | .ok .same => pure "="
    | .error e => pure (showErr e)
  | "net_repr", [be, f, v, p] => do
    let be ← NV.Driver.C01.parseBe be
    let r := netRepr be ⟨← f.toNat?, ← v.toNat?, ← p.toNat?⟩
    match unquoteNetRepr r with
    | none => pure s!"{showStr r} !unquote"
    | some q =>
      match ipNetwork be (.str q) false none 0 with
      | .ok n => pure s!"{showStr r} {showNet n}"
      | .error e => pure s!"{showStr r} {showErr e}"
  | _, _ => none

end NV.Driver.C03
