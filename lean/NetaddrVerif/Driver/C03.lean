import NetaddrVerif.Model.Proto
import NetaddrVerif.Model.NetParse
import NetaddrVerif.Driver.C01
/-! Driver ops of property C03:
    `net_parse be argkind arg implicit ver flags` (argkind ∈ str, tuple, copyA, copyN) ·
    `abbrev S` · `expand S` · `net_str be F V P`. -/
namespace NV.Driver.C03
open NV NV.Proto NV.AddrParse NV.NetParse

def parseArg (kind arg : String) : Option NetArg :=
  match kind with
  | "str" => (parseStr arg).map .str
  | "tuple" => do
    match ← parseList arg with
    | [v, p] => pure (.tuple (← parseInt v) (← parseInt p))
    | _ => none
  | "copyA" => (parseAddr arg).map .copyAddr
  | "copyN" => (parseNet arg).map .copyNet
  | _ => none

def handle (op : String) (args : List String) : Option String :=
  match op, args with
  | "net_parse", [be, kind, arg, implicit, ver, flags] => do
    let be ← NV.Driver.C01.parseBe be
    let a ← parseArg kind arg
    let ver ← NV.Driver.C01.parseOptNat ver
    let flags ← flags.toNat?
    match ipNetwork be a (implicit == "T") ver flags with
    | .ok n => pure (showNet n)
    | .error e => pure (showErr e)
  | "abbrev", [s] => do pure (showStr (cidrAbbrevToVerbose (← parseStr s)))
  | "expand", [s] => do
    match expandPartialAddress (← parseStr s) with
    | .ok t => pure (showStr t)
    | .error e => pure (showErr e)
  | "net_str", [be, f, v, p] => do
    let be ← NV.Driver.C01.parseBe be
    pure (showStr (netStr be ⟨← f.toNat?, ← v.toNat?, ← p.toNat?⟩))
  | _, _ => none

end NV.Driver.C03
