import NetaddrVerif.Model.Proto
import NetaddrVerif.Model.Registry
import NetaddrVerif.Gen.Iana
/-! Driver ops of property C19.

* `iana_query ver val`                → `E;E;E;E|A;A;A;A` (IPv4; IPv6; IPv6_unicast; Multicast) over the regenerated
                                         tables `Gen.iana*`: `E` = `info[k]` (`[ids]`, or `-` for `None` = key absent),
                                         `A` = `info.k` (`[ids]` or `!other` = AttributeError); model `Registry.queryD`
* `ieee_load oui|iab h:<hex>`         → `key=o:s+o:s;…` (the dict `load_index` builds from the index the parser
                                         wrote, sorted by key) or `!tag`; model `Registry.ouiPipeline/iabPipeline`
* `ieee_genlookup oui|iab key h:<hex>`
                                       → parser → `load_index` → `OUI(key)` / `IAB(key)` with seek+read on the same
                                         text: `off/size/ORG/[ADDR,…]` joined by `;` or `!tag`
* `oui_index h:<hex>` / `iab_index h:<hex>`
                                       → `[key:offset:size,…]` or `!tag`; the argument is the whole registry file
* `ieee_lookup oui|iab key [k:o:s,…] [o:s:<hex>,…]`
                                       → `off/size/ORG/[ADDR,…]` joined by `;` or `!tag`; the second list is what
                                         `seek(o); read(s)` returns for the rows of that key
* `rec_parse s:<hex>`                  → `ORG/[ADDR,…]` or `!tag`
* `iana_query_obj A:ver:val|N:ver:val:plen|R:ver:lo:hi`
                                       → as `iana_query`, for `.info` of any `BaseIP` object; model `Registry.queryObjD`
* `eui_info ver val h:<oui hex> h:<iab hex>`
                                       → `OUI|IAB|INFO`: `EUI.oui` (registrations joined by `;`, `-` = None, `!tag`),
                                         `EUI.iab` (`-` = None, one registration, `!tag`), `EUI.info`
                                         (`OUI=<registration>` then `;IAB=<registration>` iff the key exists, or `!tag`);
                                         both registry texts go through parser → `load_index` first;
                                         model `Registry.euiOui / euiIab / euiInfo`
-/
namespace NV.Driver.C19
open NV NV.Proto NV.Registry

def mkKey (kind ver x y : Nat) : Option Key :=
  if kind = 0 then some (.net ⟨ver, x, y⟩)
  else if kind = 1 then some (.rng ⟨ver, x, y⟩)
  else if kind = 2 then some (.addr ⟨ver, x⟩)
  else none

def mkTable (rows : List (Nat × Nat × Nat × Nat)) : List Rec :=
  (rows.zipIdx).filterMap (fun (r, i) => (mkKey r.1 r.2.1 r.2.2.1 r.2.2.2).map (fun k => ⟨i, k⟩))

/-- the tables regenerated from the imported `IANA_INFO` of /repo -/
def genTables : Tables :=
  { ipv4 := mkTable Gen.ianaIPv4, ipv6 := mkTable Gen.ianaIPv6,
    ipv6u := mkTable Gen.ianaIPv6Unicast, mcast := mkTable Gen.ianaMulticast }

def showIds (l : List Rec) : String := showList (l.map (fun r => toString r.id))

def showInfo (i : Info) : String :=
  ";".intercalate [showIds i.ipv4, showIds i.ipv6, showIds i.ipv6u, showIds i.mcast]

def showItem (e : Option (List Rec)) : String :=
  match getItem e with
  | none => "-"
  | some l => showIds l

def showAttr (e : Option (List Rec)) : String :=
  match getAttr e with
  | .error err => showErr err
  | .ok l => showIds l

def showInfoD (i : InfoD) : String :=
  ";".intercalate [showItem i.ipv4, showItem i.ipv6, showItem i.ipv6u, showItem i.mcast] ++ "|" ++
  ";".intercalate [showAttr i.ipv4, showAttr i.ipv6, showAttr i.ipv6u, showAttr i.mcast]

/-- insertion sort of the loaded rows by key (stable: rows of one key keep file order) -/
def insertRow (r : Int × Nat × Nat) : List (Int × List (Nat × Nat)) → List (Int × List (Nat × Nat))
  | [] => [(r.1, [(r.2.1, r.2.2)])]
  | (k, l) :: t =>
    if r.1 == k then (k, l ++ [(r.2.1, r.2.2)]) :: t
    else if r.1 < k then (r.1, [(r.2.1, r.2.2)]) :: (k, l) :: t
    else (k, l) :: insertRow r t

def showLoaded : R (List (Int × Nat × Nat)) → String
  | .error e => showErr e
  | .ok idx =>
    let d := idx.foldl (fun acc r => insertRow r acc) []
    ";".intercalate (d.map (fun (k, l) => s!"{k}=" ++ "+".intercalate (l.map (fun (o, s) => s!"{o}:{s}"))))

/-- hex digit value of an ASCII byte (0 for anything else: the harness sends only hex) -/
def hexVal (b : UInt8) : Nat :=
  let n := b.toNat
  if 48 ≤ n && n ≤ 57 then n - 48 else if 97 ≤ n && n ≤ 102 then n - 87 else if 65 ≤ n && n ≤ 70 then n - 55 else 0

/-- `h:<hex>` → bytes, by a loop (registry files are megabytes; no deep recursion) -/
def bigHex (tok : String) : Option (List Nat) :=
  if !tok.startsWith "h:" then none else
  let ba := tok.toUTF8
  let n := (ba.size - 2) / 2
  some (Id.run do
    let mut acc : List Nat := []
    for j in [0:n] do
      let i := 2 + 2 * (n - 1 - j)
      acc := (hexVal ba[i]! * 16 + hexVal ba[i+1]!) :: acc
    return acc)

def showHexKey (n : Int) : String := toString n

def showIabKey : IabKey → String
  | .num n => toString n
  | .raw b => "raw" ++ String.ofList ((b.flatMap (fun x => [hexOfNat (x / 16), hexOfNat (x % 16)])))

def showRows {K : Type} (f : K → String) : R (List (Row K)) → String
  | .error e => showErr e
  | .ok rows => showList (rows.map (fun (k, o, s) => s!"{f k}:{o}:{s}"))

def showParsed (p : Parsed) : String :=
  (match p.org with | none => "-" | some o => showStr o) ++ "/" ++ showList (p.address.map showStr)

def parseIdxRow (tok : String) : Option (Nat × Nat × Nat) :=
  match tok.splitOn ":" with
  | [a, b, c] => do pure (← a.toNat?, ← b.toNat?, ← c.toNat?)
  | _ => none

def parseSlice (tok : String) : Option ((Nat × Nat) × List Char) :=
  match tok.splitOn ":" with
  | [a, b, h] => do pure ((← a.toNat?, ← b.toNat?), utf8Decode (← hexBytes h.toList))
  | _ => none

def parseObj (tok : String) : Option Contains.Obj :=
  if tok.startsWith "A:" then (parseAddr tok).map .addr
  else if tok.startsWith "N:" then (parseNet tok).map .net
  else if tok.startsWith "R:" then (parseRng tok).map .rng
  else none

def showReg (x : Nat × Nat × Parsed) : String := s!"{x.1}/{x.2.1}/{showParsed x.2.2}"

def handle (op : String) (args : List String) : Option String :=
  match op, args with
  | "iana_query_obj", [o] => do
    pure (showInfoD (queryObjD genTables (← parseObj o)))
  | "eui_info", [ver, v, ho, hi] => do
    let ver ← ver.toNat?
    let v ← v.toNat?
    let bo ← bigHex ho
    let bi ← bigHex hi
    let readO := fun (off size : Nat) => utf8Decode (slice bo off size)
    let readI := fun (off size : Nat) => utf8Decode (slice bi off size)
    pure (match ouiPipeline bo, iabPipeline bi with
      | .error e, _ => showErr e
      | _, .error e => showErr e
      | .ok idxO, .ok idxI =>
        let o := match euiOui readO (dictView idxO) ver v with
          | .error e => showErr e
          | .ok none => "-"
          | .ok (some rs) => ";".intercalate (rs.map showReg)
        let i := match euiIab readI (dictView idxI) ver v with
          | .error e => showErr e
          | .ok none => "-"
          | .ok (some r) => showReg r
        let f := match euiInfo readO (dictView idxO) readI (dictView idxI) ver v with
          | .error e => showErr e
          | .ok x => "OUI=" ++ showReg x.oui ++ (match x.iab with | none => "" | some r => ";IAB=" ++ showReg r)
        o ++ "|" ++ i ++ "|" ++ f)
  | "iana_query", [ver, v] => do
    pure (showInfoD (queryD genTables ⟨← ver.toNat?, ← v.toNat?⟩))
  | "ieee_load", [kind, h] => do
    let bs ← bigHex h
    if kind == "oui" then pure (showLoaded (ouiPipeline bs))
    else if kind == "iab" then pure (showLoaded (iabPipeline bs))
    else none
  | "ieee_genlookup", [kind, key, h] => do
    let key ← key.toNat?
    let bs ← bigHex h
    let read := fun (off size : Nat) => utf8Decode (slice bs off size)
    if kind == "oui" then
      pure (match ouiPipeline bs with
        | .error e => showErr e
        | .ok idx => match ouiRecords read (dictView idx) key with
          | .error e => showErr e
          | .ok rs => ";".intercalate (rs.map (fun (o, s, p) => s!"{o}/{s}/{showParsed p}")))
    else if kind == "iab" then
      pure (match iabPipeline bs with
        | .error e => showErr e
        | .ok idx => match iabRecord read (dictView idx) key with
          | .error e => showErr e
          | .ok (o, s, p) => s!"{o}/{s}/{showParsed p}")
    else none
  | "oui_index", [h] => do
    pure (showRows showHexKey (ouiIndex (← bigHex h)))
  | "iab_index", [h] => do
    pure (showRows showIabKey (iabIndex (← bigHex h)))
  | "ieee_lookup", [kind, key, rows, slices] => do
    let key ← key.toNat?
    let index ← (← parseList rows).mapM parseIdxRow
    let sl ← (← parseList slices).mapM parseSlice
    let read := fun (off size : Nat) => ((sl.find? (fun x => x.1 == (off, size))).map (·.2)).getD []
    if kind == "oui" then
      pure (match ouiRecords read index key with
        | .error e => showErr e
        | .ok rs => ";".intercalate (rs.map (fun (o, s, p) => s!"{o}/{s}/{showParsed p}")))
    else if kind == "iab" then
      pure (match iabRecord read index key with
        | .error e => showErr e
        | .ok (o, s, p) => s!"{o}/{s}/{showParsed p}")
    else none
  | "rec_parse", [s] => do
    pure (match parseRecord (← parseStr s) with
      | .error e => showErr e
      | .ok p => showParsed p)
  | _, _ => none

end NV.Driver.C19
