import NetaddrVerif.Model.Proto
import NetaddrVerif.Model.Eui
/-! Driver ops of property C08 (EUI text, constructor, word access, derived identifiers).

Dialect token: a built-in class name (looked up in `Gen.macDialects` / `Gen.eui64Dialects`) or
`D,<word_size>,<num_words>,<hex of word_sep>,<pad>,<U|L>` for a user subclass.
The constructor ops run `Eui.ofAnyF` (= `Eui.ofAny`, Props/C08Ext.lean `ctor_faithful`).
Errors are printed as `!<Err.tag>` (the exception class; the harness prints `common.errname`). -/
namespace NV.Driver.C08
open NV NV.Proto NV.Gen

def parseDialect (tok : String) : Option Dialect :=
  match tok.splitOn "," with
  | ["D", ws, nw, sep, pad, up] => do
    let sep ← (hexBytes sep.toList).map utf8Decode
    pure ⟨"user", ← ws.toNat?, ← nw.toNat?, sep, ← pad.toNat?, up == "U"⟩
  | [name] => (macDialects ++ eui64Dialects).find? (fun d => d.name == name)
  | _ => none

def showR {α} (f : α → String) : R α → String
  | .ok a => f a
  | .error e => "!" ++ e.tag

def showNats (xs : List Nat) : String := showList (xs.map toString)

def showBytes (bs : List Nat) : String :=
  "b:" ++ String.ofList (bs.flatMap (fun b => [hexOfNat (b / 16), hexOfNat (b % 16)]))

def showVV (p : Nat × Nat) : String := s!"{p.1}:{p.2}"

def parseOptInt (tok : String) : Option (Option Int) :=
  if tok == "-" then some none else (parseInt tok).map some

def parseAddrArg (tok : String) : Option Eui.AddrArg :=
  if tok.startsWith "s:" then (parseStr tok).map .str else (parseInt tok).map .int

def parseOptStr (tok : String) : Option (Option (List Char)) :=
  if tok == "-" then some none else (parseStr tok).map some

def handle (op : String) (args : List String) : Option String :=
  match op, args with
  | "eui_parse", [addr, ver] => do
    let a ← parseAddrArg addr
    let v ← parseOptInt ver
    pure (showR showVV (Eui.ofAnyF a v))
  | "eui_print", [ver, d, v] => do
    let _ver ← ver.toNat?; let d ← parseDialect d; let v ← v.toNat?
    pure (showR showStr (Eui.intToStr d v))
  | "eui_rt", [ver, d, v] => do
    let ver ← ver.toNat?; let d ← parseDialect d; let v ← v.toNat?
    match Eui.str d v with
    | .error e => pure ("!" ++ e.tag)
    | .ok s =>
      pure (" ".intercalate [showStr s, showR showVV (Eui.ofAnyF (.str s) none),
        showR showVV (Eui.ofAnyF (.str s) (some ver))])
  | "eui_fmt", [ver, v, d] => do
    let ver ← ver.toNat?; let v ← v.toNat?
    let d ← if d == "-" then some none else (parseDialect d).map some
    pure (showR showStr (Eui.format ver v d))
  | "eui_acc", [ver, v, sep] => do
    let ver ← ver.toNat?; let v ← v.toNat?; let sep ← parseOptStr sep
    pure (" ".intercalate [showR showNats (Eui.words ver v), showR showBytes (Eui.packed ver v),
      showR showStr (Eui.bits ver v sep), showR showStr (Codec.intToBin v (Eui.widthOf ver)),
      showR showStr (Eui.ei ver v), showR toString (Eui.oui ver v)])
  | "eui_iab", [ver, v] => do
    let ver ← ver.toNat?; let v ← v.toNat?
    pure (showBool (Eui.isIabOf ver v) ++ " " ++ showR showOptNat (Eui.iabOf ver v))
  | "iab_split", [e, strict] => do
    let e ← e.toNat?
    pure (showR showVV (Eui.splitIabMac e (strict == "T")))
  | "eui_get", [d, v, idx] => do
    let d ← parseDialect d; let v ← v.toNat?
    match idx.splitOn ";" with
    | ["i", i] => do
      let i ← parseInt i
      pure (showR toString (Eui.getIdx v d i))
    | ["s", a, b, c] => do
      pure (showR showNats (Eui.getSlice v d (← parseOptInt a) (← parseOptInt b) (← parseOptInt c)))
    | _ => none
  | "eui_set", [d, v, idx, val] => do
    let d ← parseDialect d; let v ← v.toNat?
    pure (showR toString (Eui.setItem v d (← parseInt idx) (← parseInt val)))
  | "eui_derive", [ver, v, pfx] => do
    let ver ← ver.toNat?; let v ← v.toNat?; let pfx ← pfx.toNat?
    pure (" ".intercalate [showR showVV (Eui.eui64 ver v), showR showVV (Eui.modifiedEui64 ver v),
      showR toString (Eui.ipv6 ver v pfx), showR toString (Eui.ipv6LinkLocal ver v)])
  | "eui_cmp", [ver1, v1, ver2, v2] => do
    let a := Eui.key (← ver1.toNat?) (← v1.toNat?)
    let b := Eui.key (← ver2.toNat?) (← v2.toNat?)
    let c := tupleCmp a b
    pure (" ".intercalate [showBool (c == .eq), showBool (c != .eq), showBool (c == .lt), showBool (c != .gt),
      showBool (c == .gt), showBool (c != .lt), if c == .eq then "T" else "-"])
  | _, _ => none

end NV.Driver.C08
