import NetaddrVerif.Model.Proto
import NetaddrVerif.Model.Eui
import NetaddrVerif.Model.Eui2
/-! Driver ops of property C08 (EUI text, constructor, word access, derived identifiers).

Dialect token: a built-in class name (looked up in `Gen.macDialects` / `Gen.eui64Dialects`) or
`D,<word_size>,<num_words>,<hex of word_sep>,<pad>,<U|L>` for a user subclass.
The constructor ops run `Eui.ofAnyF` (= `Eui.ofAny`, Props/C08Ext.lean `ctor_faithful`).
Errors are printed as `!<Err.tag>` (the exception class; the harness prints `common.errname`).

Audit round 2a ops (Model/Eui2.lean): `eui_valid ver arg` (valid_mac / valid_eui64), `eui_cmpw ver v
operand` (the six operators against any operand), `eui_ctor arg version dialect` (the whole
constructor), `eui_setvalue ver arg`, `eui_setdialect ver dialect`, `eui_getany` / `eui_setany`
(every index / value kind), `eui_dobj ver v` (eui64() / modified_eui64() with their dialect).
Argument token: `s:<hex>` str, decimal int, `E;ver;v;<dialect>` EUI object, `f;<int(x)>` finite
float, `N` None, `B` bytes.  Dialect argument: `-` None, `J` an object that is no dialect class,
else a dialect token.  A dialect is printed as `ws,nw,s:<hex sep>,pad,U|L`. -/
namespace NV.Driver.C08
open NV NV.Proto NV.Gen

def parseDialect (tok : String) : Option Dialect :=
  match tok.splitOn "," with
  | ["D", ws, nw, sep, pad, up] => do
    let sep ← (hexBytes sep.toList).map utf8Decode
    pure ⟨"user", ← ws.toNat?, ← nw.toNat?, sep, ← pad.toNat?, up == "U"⟩
  | [name] => (macDialects ++ eui64Dialects).find? (fun d => d.name == name)
  | _ => none

def showR {α} (f : α → String) : R α → String
  | .ok a => f a
  | .error e => "!" ++ e.tag

def showNats (xs : List Nat) : String := showList (xs.map toString)

def showBytes (bs : List Nat) : String :=
  "b:" ++ String.ofList (bs.flatMap (fun b => [hexOfNat (b / 16), hexOfNat (b % 16)]))

def showVV (p : Nat × Nat) : String := s!"{p.1}:{p.2}"

def parseOptInt (tok : String) : Option (Option Int) :=
  if tok == "-" then some none else (parseInt tok).map some

def parseAddrArg (tok : String) : Option Eui.AddrArg :=
  if tok.startsWith "s:" then (parseStr tok).map .str else (parseInt tok).map .int

def parseOptStr (tok : String) : Option (Option (List Char)) :=
  if tok == "-" then some none else (parseStr tok).map some

def parseCtorArg (tok : String) : Option Eui.CtorArg :=
  if tok == "N" then some .pyNone
  else if tok == "B" then some .bytes
  else match tok.splitOn ";" with
    | ["E", ver, v, d] => do pure (.eui (← ver.toNat?) (← v.toNat?) (← parseDialect d))
    | ["f", t] => (parseInt t).map .float
    | _ => (parseAddrArg tok).map .addr

def parseDialectArg (tok : String) : Option Eui.DialectArg :=
  if tok == "-" then some .none else if tok == "J" then some .junk else (parseDialect tok).map .cls

def showDialect (d : Dialect) : String :=
  s!"{d.wordSize},{d.numWords},{showStr d.sep},{d.pad},{if d.upper then "U" else "L"}"

def showObj (p : Nat × Nat × Dialect) : String := s!"{p.1}:{p.2.1}:{showDialect p.2.2}"

def parseIdxArg (tok : String) : Option Eui.IdxArg :=
  match tok.splitOn ";" with
  | ["i", i] => (parseInt i).map .int
  | ["s", a, b, c] => do pure (.slice (← parseOptInt a) (← parseOptInt b) (← parseOptInt c))
  | ["O"] => some .other
  | _ => none

def parseValArg (tok : String) : Option Eui.ValArg :=
  if tok == "O" then some .other else (parseInt tok).map .int

def showItem : Eui.Item → String
  | .word x => toString x
  | .words xs => showNats xs

def allOps : List Eui.CmpOp := [.eq, .ne, .lt, .le, .gt, .ge]

def handle (op : String) (args : List String) : Option String :=
  match op, args with
  | "eui_parse", [addr, ver] => do
    let a ← parseAddrArg addr
    let v ← parseOptInt ver
    pure (showR showVV (Eui.ofAnyF a v))
  | "eui_print", [ver, d, v] => do
    let _ver ← ver.toNat?; let d ← parseDialect d; let v ← v.toNat?
    pure (showR showStr (Eui.intToStr d v))
  | "eui_rt", [ver, d, v] => do
    let ver ← ver.toNat?; let d ← parseDialect d; let v ← v.toNat?
    match Eui.str d v with
    | .error e => pure ("!" ++ e.tag)
    | .ok s =>
      pure (" ".intercalate [showStr s, showR showVV (Eui.ofAnyF (.str s) none),
        showR showVV (Eui.ofAnyF (.str s) (some ver))])
  | "eui_fmt", [ver, v, d] => do
    let ver ← ver.toNat?; let v ← v.toNat?
    let d ← if d == "-" then some none else (parseDialect d).map some
    pure (showR showStr (Eui.format ver v d))
  | "eui_acc", [ver, v, sep] => do
    let ver ← ver.toNat?; let v ← v.toNat?; let sep ← parseOptStr sep
    pure (" ".intercalate [showR showNats (Eui.words ver v), showR showBytes (Eui.packed ver v),
      showR showStr (Eui.bits ver v sep), showR showStr (Codec.intToBin v (Eui.widthOf ver)),
      showR showStr (Eui.ei ver v), showR toString (Eui.oui ver v)])
  | "eui_iab", [ver, v] => do
    let ver ← ver.toNat?; let v ← v.toNat?
    pure (showBool (Eui.isIabOf ver v) ++ " " ++ showR showOptNat (Eui.iabOf ver v))
  | "iab_split", [e, strict] => do
    let e ← e.toNat?
    pure (showR showVV (Eui.splitIabMac e (strict == "T")))
  | "eui_get", [d, v, idx] => do
    let d ← parseDialect d; let v ← v.toNat?
    match idx.splitOn ";" with
    | ["i", i] => do
      let i ← parseInt i
      pure (showR toString (Eui.getIdx v d i))
    | ["s", a, b, c] => do
      pure (showR showNats (Eui.getSlice v d (← parseOptInt a) (← parseOptInt b) (← parseOptInt c)))
    | _ => none
  | "eui_set", [d, v, idx, val] => do
    let d ← parseDialect d; let v ← v.toNat?
    pure (showR toString (Eui.setItem v d (← parseInt idx) (← parseInt val)))
  | "eui_derive", [ver, v, pfx] => do
    let ver ← ver.toNat?; let v ← v.toNat?; let pfx ← pfx.toNat?
    pure (" ".intercalate [showR showVV (Eui.eui64 ver v), showR showVV (Eui.modifiedEui64 ver v),
      showR toString (Eui.ipv6 ver v pfx), showR toString (Eui.ipv6LinkLocal ver v)])
  | "eui_cmp", [ver1, v1, ver2, v2] => do
    let a := Eui.key (← ver1.toNat?) (← v1.toNat?)
    let b := Eui.key (← ver2.toNat?) (← v2.toNat?)
    let c := tupleCmp a b
    pure (" ".intercalate [showBool (c == .eq), showBool (c != .eq), showBool (c == .lt), showBool (c != .gt),
      showBool (c == .gt), showBool (c != .lt), if c == .eq then "T" else "-"])
  | "eui_valid", [ver, arg] => do
    let ver ← ver.toNat?
    let a : Eui.ValidArg ← if arg == "O" then some .other else (parseStr arg).map .str
    pure (showBool (if ver = 48 then Eui.validMac a else Eui.validEui64 a))
  | "eui_cmpw", [ver, v, other] => do
    let ver ← ver.toNat?; let v ← v.toNat?
    let o : Eui.Operand ← match ← parseCtorArg other with
      | .eui w x _ => some (.eui w x)
      | a => some (.arg a)
    pure (" ".intercalate (allOps.map (fun op => showR showBool (Eui.cmpWith op ver v o))))
  | "eui_ctor", [arg, ver, dia] => do
    pure (showR showObj (Eui.ctor (← parseCtorArg arg) (← parseOptInt ver) (← parseDialectArg dia)))
  | "eui_setvalue", [ver, arg] => do
    pure (showR showVV (Eui.setValueLive (← ver.toNat?) (← parseCtorArg arg)))
  | "eui_setdialect", [ver, dia] => do
    pure (showR showDialect (Eui.setDialectLive (← ver.toNat?) (← parseDialectArg dia)))
  | "eui_getany", [d, v, idx] => do
    pure (showR showItem (Eui.getItem (← v.toNat?) (← parseDialect d) (← parseIdxArg idx)))
  | "eui_setany", [d, v, idx, val] => do
    pure (showR toString (Eui.setItemAny (← v.toNat?) (← parseDialect d) (← parseIdxArg idx) (← parseValArg val)))
  | "eui_dobj", [ver, v] => do
    let ver ← ver.toNat?; let v ← v.toNat?
    pure (showR showObj (Eui.eui64Obj ver v) ++ " " ++ showR showObj (Eui.modifiedEui64Obj ver v))
  | _, _ => none

end NV.Driver.C08
