import NetaddrVerif.Model.Proto
import NetaddrVerif.Model.PyRuntime
/-! Platform/runtime ops (never call netaddr on the Python side): `pyint base S`, `pyslice n a b c`. -/
namespace NV.Driver.Runtime
open NV NV.Proto

def optInt (tok : String) : Option (Option Int) :=
  if tok == "-" then some none else (tok.toInt?).map some

def handle (op : String) (args : List String) : Option String :=
  match op, args with
  | "pyint", [base, s] => do
    let base ← base.toNat?; let s ← parseStr s
    pure (match Py.pyInt base s with | some v => toString v | none => "!")
  | "pyslice", [n, a, b, c] => do
    let n ← n.toNat?; let a ← optInt a; let b ← optInt b; let c ← optInt c
    pure (match Py.sliceIndices a b c n with
      | some (s, e, st) => showList ((Py.pyRange s e st).map toString)
      | none => "!")
  | _, _ => none

end NV.Driver.Runtime
