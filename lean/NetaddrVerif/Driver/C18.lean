import NetaddrVerif.Model.Proto
import NetaddrVerif.Model.Classify
/-! Driver ops of property C18.
    `classify <x>`  x = `A:ver:val` | `N:ver:val:plen` | `R:ver:lo:hi`
    → six flags `unicast multicast loopback private link_local reserved` as `T`/`F` letters -/
namespace NV.Driver.C18
open NV NV.Proto NV.Contains NV.Classify

def parseObj (tok : String) : Option Obj :=
  if tok.startsWith "A:" then (parseAddr tok).map .addr
  else if tok.startsWith "N:" then (parseNet tok).map .net
  else if tok.startsWith "R:" then (parseRng tok).map .rng
  else none

def handle (op : String) (args : List String) : Option String :=
  match op, args with
  | "classify", [x] => do
    let x ← parseObj x
    pure ("".intercalate ([isUnicast x, isMulticast x, isLoopback x, isPrivate x, isLinkLocal x, isReserved x].map showBool))
  | _, _ => none

end NV.Driver.C18
