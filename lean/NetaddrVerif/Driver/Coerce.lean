import NetaddrVerif.Model.Proto
import NetaddrVerif.Model.Coerce
import NetaddrVerif.Driver.C04
import NetaddrVerif.Driver.C06
/-!
Driver ops of the argument-coercion glue (Model/Coerce.lean).  Items:
  `S:<hex of utf-8>` (str) · `I:<int>` (int) · `A:ver:val` · `N:ver:val:plen` · `R:ver:lo:hi`

  `merge_raw [item,…]`            → `[ver:val/plen,…]` | `!tag`
  `spanning_raw [item,…]`         → `ver:val/plen` | `!tag`
  `ipset_raw <history>`           → as op `ipset` (Driver/C06.lean); the arguments of
                                     `add` / `rem` / `new,i,list` / `upd,i,list` / `q` are items;
                                     a raising step prints `!tag`, a raising `in` prints `!tag`
                                     in its column
  `contains_raw <y> <x>`          y = `N:…` | `R:…`, x = item → `T` | `F` | `!tag`
  `match_raw all|small|large <ip> [cand,…]`   ip, cand = item without `R:` → as `match_*` | `!tag`
-/
namespace NV.Driver.Coerce
open NV NV.Proto NV.Coerce

def parseRaw (tok : String) : Option Raw :=
  if tok.startsWith "S:" then
    (hexBytes (tok.drop 2).toString.toList).map (fun bs => Raw.str (utf8Decode bs))
  else if tok.startsWith "I:" then (parseInt (tok.drop 2).toString).map Raw.int
  else if tok.startsWith "A:" then (parseAddr tok).map Raw.addr
  else if tok.startsWith "N:" then (parseNet tok).map Raw.net
  else none

def parseItem (tok : String) : Option Item :=
  if tok.startsWith "R:" then (parseRng tok).map Item.rng else (parseRaw tok).map Item.raw

def showR {α : Type} (f : α → String) : R α → String
  | .ok a => f a
  | .error e => showErr e

/-- the query row of `ipset` with the membership column computed from a raw item -/
def queryRaw (a b : IPSet.St) (x : Item) : String :=
  match spanItem x with
  | .ok n => NV.Driver.C06.query a b n
  | .error e =>
    let row := (NV.Driver.C06.query a b ⟨4, 0, 32⟩).splitOn " "
    " ".intercalate (row.set 11 (showErr e))

def parseROp (fields : List String) : Option ROp :=
  match fields with
  | "new" :: i :: "list" :: items => do pure (.newList (← i.toNat?) (← items.mapM parseItem))
  | ["add", i, a] => do pure (.add (← i.toNat?) (← parseItem a))
  | ["rem", i, a] => do pure (.rem (← i.toNat?) (← parseItem a))
  | "upd" :: i :: "list" :: items => do pure (.updList (← i.toNat?) (← items.mapM parseItem))
  | _ => (NV.Driver.C06.parseOp fields).map .plain

def step (sets : List IPSet.St) (fields : List String) : Option (List IPSet.St × String) :=
  match fields with
  | ["q", i, j, x] => do
    let i ← i.toNat?; let j ← j.toNat?; let x ← parseItem x
    pure (sets, queryRaw (IPSet.getSet sets i) (IPSet.getSet sets j) x)
  | _ => do
    let op ← parseROp fields
    let (sets', touched, err) := stepRaw sets op
    match err with
    | none => pure (sets', NV.Driver.C06.showSet (IPSet.getSet sets' touched))
    | some .other => pure (sets', "?pop-on-nonempty")
    | some e => pure (sets', showErr e)

def run : List IPSet.St → List String → List String → Option (List String)
  | _, [], acc => some acc.reverse
  | sets, op :: ops, acc =>
    match step sets (op.splitOn ",") with
    | some (sets', out) => run sets' ops (out :: acc)
    | none => none

def parseWhich : String → Option Which
  | "all" => some .all
  | "small" => some .small
  | "large" => some .large
  | _ => none

def handle (op : String) (args : List String) : Option String :=
  match op, args with
  | "merge_raw", [items] => do
    let items ← (← parseList items).mapM parseItem
    pure (showR (fun l => showList (l.map showNet)) (mergeRaw items))
  | "spanning_raw", [items] => do
    let items ← (← parseList items).mapM parseItem
    pure (showR showNet (spanningRaw items))
  | "ipset_raw", [ops] => (run [] (ops.splitOn ";") []).map (";".intercalate ·)
  | "contains_raw", [y, x] => do
    let y ← NV.Driver.C04.parseCont y; let x ← parseItem x
    pure (showR showBool (inRaw y x))
  | "match_raw", [w, ip, l] => do
    let w ← parseWhich w; let ip ← parseRaw ip; let l ← (← parseList l).mapM parseRaw
    match matchRaw w ip l with
    | .error e => pure (showErr e)
    | .ok ns =>
      match w with
      | .all => pure (showList (ns.map showNet))
      | _ => pure (NV.Driver.C04.showOptNet ns.head?)
  | _, _ => none

end NV.Driver.Coerce
