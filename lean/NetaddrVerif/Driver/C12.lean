import NetaddrVerif.Model.Proto
import NetaddrVerif.Model.ComparePickle
/-! Driver ops of property C12.
  `cmp X Y`            `== != < <= > >=` of (X,Y), hash agreement (`T` when equal, `-` otherwise),
                       then the same seven for (Y,X)
  `cmp3 X Y Z`         `<=` of (X,Y) (Y,Z) (X,Z), then `==` of the same pairs
  `sorted L L'`        `sorted(L)` and whether `sorted(L')` is the same list
  `roundtrip OBJ how`  the object rebuilt by copy / deepcopy / p0..p5, or `!tag`
  objects: `A:ver:val` `N:ver:val:plen` `R:ver:lo:hi` (IPRange and IPGlob)
           `S:[N:…,…]` (IPSet) `E:ver:val:dialect` (EUI) -/
namespace NV.Driver.C12
open NV NV.Proto NV.Cmp

def parseObj (tok : String) : Option Obj :=
  match parseAddr tok with
  | some a => some (.addr a)
  | none => match parseNet tok with
    | some n => some (.net n)
    | none => (parseRng tok).map .rng

def showObj : Obj → String
  | .addr a => s!"A:{a.ver}:{a.val}"
  | .net n => s!"N:{n.ver}:{n.val}:{n.plen}"
  | .rng r => s!"R:{r.ver}:{r.lo}:{r.hi}"

def flags (x y : Obj) : List String :=
  [showBool (eq x y), showBool (ne x y), showBool (lt x y), showBool (le x y), showBool (gt x y),
   showBool (ge x y), if eq x y then "T" else "-"]

def parseHow (s : String) : Option How :=
  if s == "copy" then some .copy
  else if s == "deepcopy" then some .deepcopy
  else if s.startsWith "p" then ((s.drop 1).toString.toNat?).map .pickle
  else none

def showR {α : Type} (f : α → String) : R α → String
  | .ok a => f a
  | .error e => showErr e

def parseEui (tok : String) : Option Eui :=
  match tok.splitOn ":" with
  | ["E", a, b, c] => do pure ⟨← a.toNat?, ← b.toNat?, ← c.toNat?⟩
  | _ => none

def showNetTok (n : Net) : String := s!"N:{n.ver}:{n.val}:{n.plen}"

/-- set contents are printed in (version, value, prefixlen) order: dict order is not modelled -/
def sortForShow (l : List Net) : List Net :=
  l.mergeSort (fun a b => tupleLe [a.ver, a.val, a.plen] [b.ver, b.val, b.plen])

def handle (op : String) (args : List String) : Option String :=
  match op, args with
  | "cmp", [x, y] => do
    let x ← parseObj x; let y ← parseObj y
    pure (" ".intercalate (flags x y ++ flags y x))
  | "cmp3", [x, y, z] => do
    let x ← parseObj x; let y ← parseObj y; let z ← parseObj z
    pure (" ".intercalate [showBool (le x y), showBool (le y z), showBool (le x z),
      showBool (eq x y), showBool (eq y z), showBool (eq x z)])
  | "sorted", [l, l'] => do
    let l ← (← parseList l).mapM parseObj
    let l' ← (← parseList l').mapM parseObj
    pure (showList ((sortObjs l).map showObj) ++ " " ++ showBool (sortObjs l == sortObjs l'))
  | "roundtrip", [o, how] => do
    let how ← parseHow how
    if o.startsWith "S:" then
      let nets ← (← parseList (o.drop 2).toString).mapM parseNet
      pure (showR (fun s => "S:" ++ showList ((sortForShow s).map showNetTok)) (roundtripSet how nets))
    else if o.startsWith "E:" then
      let e ← parseEui o
      pure (showR (fun e => s!"E:{e.ver}:{e.val}:{e.dialect}") (roundtripEui how e))
    else
      match ← parseObj o with
      | .addr a => pure (showR (fun a => showObj (.addr a)) (roundtripAddr how a))
      | .net n => pure (showR (fun n => showObj (.net n)) (roundtripNet how n))
      | .rng r => pure (showR (fun r => showObj (.rng r)) (roundtripRng how r))
  | _, _ => none

end NV.Driver.C12
