import NetaddrVerif.Model.Proto
import NetaddrVerif.Model.ComparePickle
/-! Driver ops of property C12.
  `cmp X Y`            `== != < <= > >=` of (X,Y), hash agreement (`T` when equal, `-` otherwise),
                       then the same seven for (Y,X)
  `cmp3 X Y Z`         `<=` of (X,Y) (Y,Z) (X,Z), then `==` of the same pairs
  `sorted L L'`        `sorted(L)` and whether `sorted(L')` is the same list
  `roundtrip OBJ how`  the object rebuilt by copy / deepcopy / p0..p5, or `!tag`
  `hashrt OBJ how`     `H(x) H(y)` for the object x and its copy y: `H` = the tuple `hash()` is applied to, as a pyval
                       (`Cmp.hashFieldsP`), or `!type` (TypeError: IPSet, OUI, IAB)
  objects: `A:ver:val` `N:ver:val:plen` `R:ver:lo:hi` (IPRange and IPGlob)
           `S:[N:…,…]` (IPSet) `E:ver:val:dialect` (EUI)
           `G:s:<hex>` (IPGlob built from that text; printed `G:lo:hi:s:<hex of str()>`)
           `O:val:<pyval>` (OUI with its records) `I:val:<pyval>` (IAB with its record)
  pyval: Polish notation, items joined by `.`: `i<int>` `s<hex>` `n` `c<id>` `t<k>` `l<k>` (tuple / list of the
         next k values) `d<k>` (dict of the next k key, value pairs)
  The round trips are the `…V` functions of Model/ComparePickle.lean (states as Python values). -/
namespace NV.Driver.C12
open NV NV.Proto NV.Cmp

def parseObj (tok : String) : Option Obj :=
  match parseAddr tok with
  | some a => some (.addr a)
  | none => match parseNet tok with
    | some n => some (.net n)
    | none => (parseRng tok).map .rng

def showObj : Obj → String
  | .addr a => s!"A:{a.ver}:{a.val}"
  | .net n => s!"N:{n.ver}:{n.val}:{n.plen}"
  | .rng r => s!"R:{r.ver}:{r.lo}:{r.hi}"

def flags (x y : Obj) : List String :=
  [showBool (eq x y), showBool (ne x y), showBool (lt x y), showBool (le x y), showBool (gt x y),
   showBool (ge x y), if eq x y then "T" else "-"]

def parseHow (s : String) : Option How :=
  if s == "copy" then some .copy
  else if s == "deepcopy" then some .deepcopy
  else if s.startsWith "p" then ((s.drop 1).toString.toNat?).map .pickle
  else none

def showR {α : Type} (f : α → String) : R α → String
  | .ok a => f a
  | .error e => showErr e

def parseEui (tok : String) : Option Eui :=
  match tok.splitOn ":" with
  | ["E", a, b, c] => do pure ⟨← a.toNat?, ← b.toNat?, ← c.toNat?⟩
  | _ => none

def showNetTok (n : Net) : String := s!"N:{n.ver}:{n.val}:{n.plen}"

/-- set contents are printed in (version, value, prefixlen) order: dict order is not modelled -/
def sortForShow (l : List Net) : List Net :=
  l.mergeSort (fun a b => tupleLe [a.ver, a.val, a.plen] [b.ver, b.val, b.plen])

/-- Polish-notation reader for `PyVal`; the fuel bounds the nesting + length -/
def readVals : Nat → Nat → List String → Option (List PyVal × List String)
  | _, 0, rest => some ([], rest)
  | 0, _, _ => none
  | fuel + 1, k + 1, tok :: rest =>
    let body := (tok.drop 1).toString
    let one : Option (PyVal × List String) :=
      if tok.startsWith "i" then (parseInt body).map (fun i => (PyVal.int i, rest))
      else if tok.startsWith "s" then (parseStr ("s:" ++ body)).map (fun cs => (PyVal.str cs, rest))
      else if tok == "n" then some (PyVal.none, rest)
      else if tok.startsWith "c" then body.toNat?.map (fun i => (PyVal.cls i, rest))
      else if tok.startsWith "t" then do
        let (xs, r) ← readVals fuel (← body.toNat?) rest; pure (PyVal.tuple xs, r)
      else if tok.startsWith "l" then do
        let (xs, r) ← readVals fuel (← body.toNat?) rest; pure (PyVal.list xs, r)
      else if tok.startsWith "d" then do
        let (xs, r) ← readVals fuel (2 * (← body.toNat?)) rest
        let rec pairs : List PyVal → List (PyVal × PyVal)
          | a :: b :: t => (a, b) :: pairs t
          | _ => []
        pure (PyVal.dict (pairs xs), r)
      else none
    match one with
    | none => none
    | some (v, r) => match readVals fuel k r with
      | none => none
      | some (vs, r') => some (v :: vs, r')
  | _, _ + 1, [] => none

def parseVal (tok : String) : Option PyVal :=
  let toks := tok.splitOn "."
  match readVals (toks.length + 1) 1 toks with
  | some ([v], []) => some v
  | _ => none

partial def showVal : PyVal → List String
  | .int i => ["i" ++ toString i]
  | .str cs => ["s" ++ ((showStr cs).drop 2).toString]
  | .none => ["n"]
  | .cls i => ["c" ++ toString i]
  | .tuple xs => ("t" ++ toString xs.length) :: xs.flatMap showVal
  | .list xs => ("l" ++ toString xs.length) :: xs.flatMap showVal
  | .dict kvs => ("d" ++ toString kvs.length) :: kvs.flatMap (fun kv => showVal kv.1 ++ showVal kv.2)

/-- an object token of the round-trip ops as a `PObj` (a glob is built by the model's `IPGlob(text)`) -/
def parsePObj (o : String) : Option (R PObj) :=
  if o.startsWith "S:" then do
    let nets ← (← parseList (o.drop 2).toString).mapM parseNet
    pure (.ok (.set nets))
  else if o.startsWith "E:" then do
    pure (.ok (.eui (← parseEui o)))
  else if o.startsWith "G:" then do
    let text ← parseStr (o.drop 2).toString
    pure ((Glob.ipGlob text).map .glob)
  else if o.startsWith "O:" then
    match o.splitOn ":" with
    | [_, v, rec] => do pure (.ok (.oui ⟨← v.toNat?, ← parseVal rec⟩))
    | _ => none
  else if o.startsWith "I:" then
    match o.splitOn ":" with
    | [_, v, rec] => do pure (.ok (.iab ⟨← v.toNat?, ← parseVal rec⟩))
    | _ => none
  else do
    match ← parseObj o with
    | .addr a => pure (.ok (.addr a))
    | .net n => pure (.ok (.net n))
    | .rng r => pure (.ok (.rng r))

def showHashFields : R PyVal → String
  | .ok v => ".".intercalate (showVal v)
  | .error e => showErr e

def handle (op : String) (args : List String) : Option String :=
  match op, args with
  | "hashrt", [o, how] => do
    let how ← parseHow how
    let x ← parsePObj o
    pure (match x with
      | .error e => showErr e
      | .ok x =>
        showHashFields (hashFieldsP x) ++ " " ++
          (match roundtripV how x with
           | .error e => showErr e
           | .ok y => showHashFields (hashFieldsP y)))
  | "cmp", [x, y] => do
    let x ← parseObj x; let y ← parseObj y
    pure (" ".intercalate (flags x y ++ flags y x))
  | "cmp3", [x, y, z] => do
    let x ← parseObj x; let y ← parseObj y; let z ← parseObj z
    pure (" ".intercalate [showBool (le x y), showBool (le y z), showBool (le x z),
      showBool (eq x y), showBool (eq y z), showBool (eq x z)])
  | "sorted", [l, l'] => do
    let l ← (← parseList l).mapM parseObj
    let l' ← (← parseList l').mapM parseObj
    pure (showList ((sortObjs l).map showObj) ++ " " ++ showBool (sortObjs l == sortObjs l'))
  | "roundtrip", [o, how] => do
    let how ← parseHow how
    if o.startsWith "S:" then
      let nets ← (← parseList (o.drop 2).toString).mapM parseNet
      pure (showR (fun s => "S:" ++ showList ((sortForShow s).map showNetTok)) (roundtripSetV how nets))
    else if o.startsWith "E:" then
      let e ← parseEui o
      pure (showR (fun e => s!"E:{e.ver}:{e.val}:{e.dialect}") (roundtripEuiV how e))
    else if o.startsWith "G:" then
      let text ← parseStr (o.drop 2).toString
      -- the object is built by the model's `IPGlob(text)`, then copied
      pure (showR (fun g => s!"G:{g.lo}:{g.hi}:" ++ showStr g.glob) (Glob.ipGlob text >>= roundtripGlobV how))
    else if o.startsWith "O:" then
      match o.splitOn ":" with
      | [_, v, rec] =>
        let o : Oui := ⟨← v.toNat?, ← parseVal rec⟩
        pure (showR (fun o => s!"O:{o.val}:" ++ ".".intercalate (showVal o.records)) (roundtripOuiV how o))
      | _ => none
    else if o.startsWith "I:" then
      match o.splitOn ":" with
      | [_, v, rec] =>
        let o : Iab := ⟨← v.toNat?, ← parseVal rec⟩
        pure (showR (fun o => s!"I:{o.val}:" ++ ".".intercalate (showVal o.record)) (roundtripIabV how o))
      | _ => none
    else
      match ← parseObj o with
      | .addr a => pure (showR (fun a => showObj (.addr a)) (roundtripAddrV how a))
      | .net n => pure (showR (fun n => showObj (.net n)) (roundtripNetV how n))
      | .rng r => pure (showR (fun r => showObj (.rng r)) (roundtripRngV how r))
  | "roundtrip_default_set", [o, how] => do
    -- what IPSet would do WITHOUT its `__reduce__` (a subclass that restores the default on the real side)
    let how ← parseHow how
    let nets ← (← parseList (o.drop 2).toString).mapM parseNet
    pure (showR (fun s => "S:" ++ showList ((sortForShow s).map showNetTok)) (roundtripSetDefault how nets))
  | _, _ => none

end NV.Driver.C12
