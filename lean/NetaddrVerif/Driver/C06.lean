import NetaddrVerif.Model.Proto
import NetaddrVerif.Model.IPSet
/-!
Driver ops of C06/C07: one line = one history over several live sets.
`ipset <op>;<op>;…`, fields of an op separated by `,`:
  new,i,none | new,i,net,N:… | new,i,rng,R:… | new,i,set,j | new,i,list[,item…]
  add,i,arg | rem,i,arg | upd,i,set,j | upd,i,arg,arg | upd,i,list[,item…]
  clear,i | pop,i,N:…|- | compact,i | copy,j,i (set j := copy / pickle round trip of set i)
  bin,k,i,j,or|and|sub|xor      (set k := set i <op> set j)
  q,i,j,N:…                     (queries on sets i, j and membership of the network)
Observation per op: mutators print the touched set as `sorted(self._cidrs)` at value level
(`ver:value/plen`); `q` prints
  eq subset superset lt gt disjoint size len contiguous iprange ipranges in iter
-/
namespace NV.Driver.C06
open NV NV.Proto NV.IPSet

def parseArg (tok : String) : Option Arg :=
  match parseNet tok with
  | some n => some (.net n)
  | none => (parseRng tok).map .rng

def getSet (sets : List St) (i : Nat) : St := sets.getD i []
def setSet (sets : List St) (i : Nat) (s : St) : List St :=
  let sets := if sets.length ≤ i then sets ++ List.replicate (i + 1 - sets.length) [] else sets
  sets.set i s

def showSet (s : St) : String := showList ((iterCidrs s).map showNet)

def showVR (r : VR) : String := s!"{r.1}:{r.2.1}-{r.2.2}"

/-- all addresses in iteration order when the set is small, `-` otherwise -/
def showIter (s : St) : String :=
  if size s ≤ 64 then
    showList ((iterCidrs s).flatMap (fun c =>
      (List.range (c.last - c.first + 1)).map (fun i => s!"{c.ver}:{c.first + i}")))
  else "-"

def maxint : Nat := 2 ^ 63 - 1

def query (a b : St) (n : Net) : String :=
  let lenS := match len maxint a with | .ok v => toString v | .error e => showErr e
  let ipr := match iprange a with
    | .ok none => "-"
    | .ok (some r) => s!"{r.ver}:{r.lo}-{r.hi}"
    | .error e => showErr e
  " ".intercalate [showBool (IPSet.eq a b), showBool (issubset a b), showBool (issuperset a b),
    showBool (IPSet.lt a b), showBool (IPSet.gt a b), showBool (isdisjoint a b), toString (size a), lenS,
    showBool (iscontiguous a), ipr, showList ((iterIpranges a).map showVR), showBool (contains a n),
    showIter a]

def step (sets : List St) (fields : List String) : Option (List St × String) :=
  match fields with
  | ["new", i, "none"] => do
    let i ← i.toNat?; pure (setSet sets i [], showSet [])
  | ["new", i, "net", n] => do
    let i ← i.toNat?; let n ← parseNet n
    let s := newOfNet n; pure (setSet sets i s, showSet s)
  | ["new", i, "rng", r] => do
    let i ← i.toNat?; let r ← parseRng r
    let s := newOfRange r; pure (setSet sets i s, showSet s)
  | ["new", i, "set", j] => do
    let i ← i.toNat?; let j ← j.toNat?
    let s := newOfSet (getSet sets j); pure (setSet sets i s, showSet s)
  | "new" :: i :: "list" :: items => do
    let i ← i.toNat?; let items ← items.mapM parseArg
    let s := newOfList items; pure (setSet sets i s, showSet s)
  | ["add", i, a] => do
    let i ← i.toNat?; let a ← parseArg a
    let s := add (getSet sets i) a; pure (setSet sets i s, showSet s)
  | ["rem", i, a] => do
    let i ← i.toNat?; let a ← parseArg a
    let s := remove (getSet sets i) a; pure (setSet sets i s, showSet s)
  | ["upd", i, "set", j] => do
    let i ← i.toNat?; let j ← j.toNat?
    let s := updateSet (getSet sets i) (getSet sets j); pure (setSet sets i s, showSet s)
  | ["upd", i, "arg", a] => do
    let i ← i.toNat?; let a ← parseArg a
    let s := add (getSet sets i) a; pure (setSet sets i s, showSet s)
  | "upd" :: i :: "list" :: items => do
    let i ← i.toNat?; let items ← items.mapM parseArg
    let s := updateList (getSet sets i) items; pure (setSet sets i s, showSet s)
  | ["clear", i] => do
    let i ← i.toNat?; pure (setSet sets i [], showSet [])
  | ["pop", i, b] => do
    let i ← i.toNat?
    if b == "-" then
      -- the implementation raised KeyError: right exactly when the set is empty
      pure (sets, if (getSet sets i).isEmpty then "!key" else "?pop-on-nonempty")
    else
      let b ← parseNet b
      match pop (getSet sets i) b with
      | .ok s => pure (setSet sets i s, showSet s)
      | .error e => pure (sets, showErr e)
  | ["compact", i] => do
    let i ← i.toNat?
    let s := compact (getSet sets i); pure (setSet sets i s, showSet s)
  | ["copy", j, i] => do
    let i ← i.toNat?; let j ← j.toNat?
    let s := copy (getSet sets i); pure (setSet sets j s, showSet s)
  | ["bin", k, i, j, o] => do
    let k ← k.toNat?; let i ← i.toNat?; let j ← j.toNat?
    let a := getSet sets i; let b := getSet sets j
    let s ← match o with
      | "or" => some (union a b)
      | "and" => some (intersection a b)
      | "sub" => some (difference a b)
      | "xor" => some (symmetricDifference a b)
      | _ => none
    pure (setSet sets k s, showSet s)
  | ["q", i, j, n] => do
    let i ← i.toNat?; let j ← j.toNat?; let n ← parseNet n
    pure (sets, query (getSet sets i) (getSet sets j) n)
  | _ => none

def run : List St → List String → List String → Option (List String)
  | _, [], acc => some acc.reverse
  | sets, op :: ops, acc =>
    match step sets (op.splitOn ",") with
    | some (sets', out) => run sets' ops (out :: acc)
    | none => none

def handle (op : String) (args : List String) : Option String :=
  match op, args with
  | "ipset", [ops] => (run [] (ops.splitOn ";") []).map (";".intercalate ·)
  | _, _ => none

end NV.Driver.C06
