import NetaddrVerif.Model.Proto
import NetaddrVerif.Model.IPSet
import NetaddrVerif.Model.IPSetText
/-!
Driver ops of C06/C07: one line = one history over several live sets.
`ipset <op>;<op>;…`, fields of an op separated by `,`:
  new,i,none | new,i,net,N:… | new,i,rng,R:… | new,i,set,j | new,i,list[,item…]
  add,i,arg | rem,i,arg | upd,i,set,j | upd,i,arg,arg | upd,i,list[,item…]
  clear,i | pop,i,N:…|- | compact,i | copy,j,i (set j := copy / pickle round trip of set i)
  bin,k,i,j,or|and|sub|xor      (set k := set i <op> set j)
  q,i,j,N:…                     (queries on sets i, j and membership of the network)
Observation per op: mutators print the touched set as `sorted(self._cidrs)` at value level
(`ver:value/plen`); `q` prints
  eq subset superset lt gt disjoint size len contiguous iprange ipranges in iter ne le ge bool repr
Every column of a `q` row but the last is one `IPSet.QOp` evaluated by `IPSet.runQs` (the store of
live sets is threaded through the queries; `C07.queries_pure` says it comes back unchanged and
that every answer is `IPSet.evalQ` on it) with `IPSet.evalQFast` (= `IPSet.evalQ`,
`C07.driver_eval_eq`).  `iter` is `IPSet.iterAddrs` (only asked for when `size ≤ 64`); the last
column is the text `IPSet.reprText` (Model/IPSetText.lean, `C06.repr_text_eq_iff`).
-/
namespace NV.Driver.C06
open NV NV.Proto NV.IPSet

def parseArg (tok : String) : Option Arg :=
  match parseNet tok with
  | some n => some (.net n)
  | none => (parseRng tok).map .rng

def showSet (s : St) : String := showList ((iterCidrs s).map showNet)

def showVR (r : VR) : String := s!"{r.1}:{r.2.1}-{r.2.2}"

def maxint : Nat := 2 ^ 63 - 1

/-- one query outcome as a protocol token -/
def showQ : R QVal → String
  | .ok (.bool b) => showBool b
  | .ok (.nat n) => toString n
  | .ok (.rng none) => "-"
  | .ok (.rng (some r)) => s!"{r.ver}:{r.lo}-{r.hi}"
  | .ok (.ranges l) => showList (l.map showVR)
  | .ok (.addrs l) => showList (l.map (fun x => s!"{x.1}:{x.2}"))
  | .ok (.cidrs l) => showList (l.map showNet)
  | .error e => showErr e

/-- the query row on sets `i`, `j` of the store and the network `n`: the store after the row and
    the row.  Address iteration is only asked for on small sets (`-` otherwise). -/
def queryRow (sets : Store) (i j : Nat) (n : Net) : Store × String :=
  let small := size (getSet sets i) ≤ 64
  let (sets1, r1) := runQs maxint sets
    [.eq i j, .issubset i j, .issuperset i j, .lt i j, .gt i j, .isdisjoint i j, .size i, .len i,
     .iscontiguous i, .iprange i, .iterIpranges i, .contains i n]
  let (sets2, r2) := if small then runQs maxint sets1 [.iter i] else (sets1, [])
  let (sets3, r3) := runQs maxint sets2 [.ne i j, .le i j, .ge i j, .nonzero i]
  let it := match r2 with | [r] => showQ r | _ => "-"
  (sets3, " ".intercalate (r1.map showQ ++ [it] ++ r3.map showQ ++
    [showStr (reprText .platform (getSet sets3 i))]))

/-- the row for two sets given directly (used by `ipset_raw`, Driver/Coerce.lean) -/
def query (a b : St) (n : Net) : String := (queryRow [a, b] 0 1 n).2

def parseOp (fields : List String) : Option Op :=
  match fields with
  | ["new", i, "none"] => do pure (.newNone (← i.toNat?))
  | ["new", i, "net", n] => do pure (.newNet (← i.toNat?) (← parseNet n))
  | ["new", i, "rng", r] => do pure (.newRng (← i.toNat?) (← parseRng r))
  | ["new", i, "set", j] => do pure (.newSet (← i.toNat?) (← j.toNat?))
  | "new" :: i :: "list" :: items => do pure (.newList (← i.toNat?) (← items.mapM parseArg))
  | ["add", i, a] => do pure (.add (← i.toNat?) (← parseArg a))
  | ["rem", i, a] => do pure (.rem (← i.toNat?) (← parseArg a))
  | ["upd", i, "set", j] => do pure (.updSet (← i.toNat?) (← j.toNat?))
  | ["upd", i, "arg", a] => do pure (.updArg (← i.toNat?) (← parseArg a))
  | "upd" :: i :: "list" :: items => do pure (.updList (← i.toNat?) (← items.mapM parseArg))
  | ["clear", i] => do pure (.clear (← i.toNat?))
  | ["pop", i, b] => do
    let i ← i.toNat?
    if b == "-" then pure (.pop i none) else pure (.pop i (some (← parseNet b)))
  | ["compact", i] => do pure (.compact (← i.toNat?))
  | ["copy", j, i] => do pure (.copy (← j.toNat?) (← i.toNat?))
  | ["bin", k, i, j, o] => do
    let o ← match o with
      | "or" => some BinOp.or | "and" => some BinOp.and | "sub" => some BinOp.sub | "xor" => some BinOp.xor
      | _ => none
    pure (.bin (← k.toNat?) (← i.toNat?) (← j.toNat?) o)
  | _ => none

def step (sets : List St) (fields : List String) : Option (List St × String) :=
  match fields with
  | ["q", i, j, n] => do
    let i ← i.toNat?; let j ← j.toNat?; let n ← parseNet n
    pure (queryRow sets i j n)
  | _ => do
    let op ← parseOp fields
    let (sets', touched, err) := stepOp sets op
    match err with
    | none => pure (sets', showSet (getSet sets' touched))
    | some .key => pure (sets', "!key")
    | some _ => pure (sets', "?pop-on-nonempty")

def run : List St → List String → List String → Option (List String)
  | _, [], acc => some acc.reverse
  | sets, op :: ops, acc =>
    match step sets (op.splitOn ",") with
    | some (sets', out) => run sets' ops (out :: acc)
    | none => none

def handle (op : String) (args : List String) : Option String :=
  match op, args with
  | "ipset", [ops] => (run [] (ops.splitOn ";") []).map (";".intercalate ·)
  | _, _ => none

end NV.Driver.C06
