import NetaddrVerif.Model.Proto
import NetaddrVerif.Model.Cidr
/-! Shared ops over Model/Cidr.lean (used by the C05, C09, C13, C20 checks).
    Blocks print as `ver:value/plen`. -/
namespace NV.Driver.Cidr
open NV NV.Proto

def showPfx (ver : Nat) (b : Pfx) : String := s!"{ver}:{b.val}/{b.plen}"
def showPfxs (ver : Nat) (l : List Pfx) : String := showList (l.map (showPfx ver))

def parseItem (tok : String) : Option MItem :=
  match tok.splitOn ":" with
  | ["N", a, b, c] => do pure (.net (← a.toNat?) ⟨← b.toNat?, ← c.toNat?⟩)
  | ["R", a, b, c] => do pure (.rng (← a.toNat?) (← b.toNat?) (← c.toNat?))
  | _ => none

def handle (op : String) (args : List String) : Option String :=
  match op, args with
  | "partition", [t, e] => do
    let t ← parseNet t; let e ← parseNet e
    let w := width t.ver
    let (l, m, r) := cidrPartition w ⟨t.val, t.plen⟩ ⟨e.val, e.plen⟩
    pure (" ".intercalate [showPfxs t.ver l, showPfxs t.ver m, showPfxs t.ver r])
  | "exclude", [t, e] => do
    let t ← parseNet t; let e ← parseNet e
    pure (showPfxs t.ver (cidrExclude (width t.ver) ⟨t.val, t.plen⟩ ⟨e.val, e.plen⟩))
  | "spanning", [ver, nets] => do
    let ver ← ver.toNat?
    let nets ← (← parseList nets).mapM parseNet
    match spanningCidr (width ver) (nets.map (fun n => ⟨n.val, n.plen⟩)) with
    | .ok b => pure (showPfx ver b)
    | .error e => pure (showErr e)
  | "range2cidrs", [s, e] => do
    let s ← parseNet s; let e ← parseNet e
    pure (showPfxs s.ver (iprangeToCidrs (width s.ver) ⟨s.val, s.plen⟩ ⟨e.val, e.plen⟩))
  | "merge", [items] => do
    let items ← (← parseList items).mapM parseItem
    pure (showList ((cidrMerge items).map showNet))
  | _, _ => none

end NV.Driver.Cidr
