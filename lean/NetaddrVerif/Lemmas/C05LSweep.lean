import NetaddrVerif.Model.Cidr
/-! C05 helper lemmas, part 5: the backward sweep of `cidr_merge` over version-tagged range
    tuples yields the interval normal form of the inputs, family by family. -/
namespace NV.C05L
open NV

/-- address `a` of family `u` lies in the range tuple -/
def rmem (r : MRange) (u a : Nat) : Prop := r.ver = u ∧ r.first ≤ a ∧ a ≤ r.last
def mden (l : List MRange) (u a : Nat) : Prop := ∃ r ∈ l, rmem r u a

/-- normal form of a tuple list: valid ranges, ascending by (version, address), neighbours of
    one version neither overlapping nor adjacent -/
def MNorm : List MRange → Prop
  | [] => True
  | [r] => r.first ≤ r.last
  | r :: s :: t => r.first ≤ r.last ∧ (r.ver < s.ver ∨ (r.ver = s.ver ∧ r.last + 1 < s.first)) ∧ MNorm (s :: t)

theorem mnorm_cons {r s : MRange} {t : List MRange} :
    MNorm (r :: s :: t) ↔ r.first ≤ r.last ∧ (r.ver < s.ver ∨ (r.ver = s.ver ∧ r.last + 1 < s.first)) ∧ MNorm (s :: t) :=
  Iff.rfl

theorem mnorm_head_valid : ∀ {r : MRange} {t : List MRange}, MNorm (r :: t) → r.first ≤ r.last
  | _, [], h => h
  | _, _ :: _, h => h.1

theorem mnorm_tail : ∀ {r : MRange} {t : List MRange}, MNorm (r :: t) → MNorm t
  | _, [], _ => trivial
  | _, _ :: _, h => h.2.2

/-- `p` sorts at or below `cur` as far as the sweep can see: (version, last) -/
def Below (p cur : MRange) : Prop := p.ver < cur.ver ∨ (p.ver = cur.ver ∧ p.last ≤ cur.last)

/-- `Coh` is any property of tuples that every merged 3-tuple (`orig = none`) has; it is used
    for "a tuple that still carries its original object describes exactly that object" -/
theorem mergeSweep_spec (Coh : MRange → Prop) (hQ : ∀ r, r.orig = none → Coh r) :
    ∀ (rest : List MRange) (cur : MRange) (done : List MRange),
    (∀ p ∈ rest, p.first ≤ p.last ∧ Below p cur) →
    rest.Pairwise (fun p q => Below q p) →
    MNorm (cur :: done) →
    (∀ p ∈ rest, Coh p) → Coh cur → (∀ p ∈ done, Coh p) →
    MNorm (mergeSweep rest cur done) ∧
    (∀ u a, mden (mergeSweep rest cur done) u a ↔ mden rest u a ∨ mden (cur :: done) u a) ∧
    (∀ p ∈ mergeSweep rest cur done, Coh p)
  | [], cur, done, _, _, hn, _, hcc, hcd => by
    simp only [mergeSweep]
    refine ⟨hn, fun u a => by simp [mden], ?_⟩
    intro p hp
    rcases List.mem_cons.1 hp with rfl | h
    · exact hcc
    · exact hcd p h
  | p :: rest, cur, done, hb, hs, hn, hcr, hcc, hcd => by
    have hp := hb p (by simp)
    have hs' := List.pairwise_cons.1 hs
    have hcv := mnorm_head_valid hn
    simp only [mergeSweep]
    by_cases hc : cur.ver = p.ver ∧ (cur.first : Int) - 1 ≤ p.last
    · rw [if_pos hc]
      have hpl : p.last ≤ cur.last := by
        rcases hp.2 with h | h
        · omega
        · exact h.2
      have hn' : MNorm (⟨cur.ver, cur.last, min p.first cur.first, none⟩ :: done) := by
        cases done with
        | nil => simp only [MNorm]; omega
        | cons s t =>
          rw [mnorm_cons] at hn ⊢
          exact ⟨by simp only; omega, hn.2.1, hn.2.2⟩
      obtain ⟨r1, r2, r3⟩ := mergeSweep_spec Coh hQ rest ⟨cur.ver, cur.last, min p.first cur.first, none⟩ done
        (fun q hq => ⟨(hb q (List.mem_cons_of_mem _ hq)).1, by
          have := hs'.1 q hq
          unfold Below at this ⊢
          simp only; omega⟩) hs'.2 hn'
        (fun q hq => hcr q (List.mem_cons_of_mem _ hq)) (hQ _ rfl) hcd
      refine ⟨r1, fun u a => ?_, r3⟩
      rw [r2 u a]
      simp only [mden, List.mem_cons, rmem]
      constructor
      · rintro (⟨q, hq, hqa⟩ | ⟨q, hq | hq, hqa⟩)
        · exact Or.inl ⟨q, Or.inr hq, hqa⟩
        · subst hq
          simp only at hqa
          by_cases h : p.first ≤ a ∧ a ≤ p.last
          · exact Or.inl ⟨p, Or.inl rfl, by omega, h⟩
          · exact Or.inr ⟨cur, Or.inl rfl, by omega⟩
        · exact Or.inr ⟨q, Or.inr hq, hqa⟩
      · rintro (⟨q, hq | hq, hqa⟩ | ⟨q, hq | hq, hqa⟩)
        · subst hq; exact Or.inr ⟨_, Or.inl rfl, by simp only; omega⟩
        · exact Or.inl ⟨q, hq, hqa⟩
        · subst hq; exact Or.inr ⟨_, Or.inl rfl, by simp only; omega⟩
        · exact Or.inr ⟨q, Or.inr hq, hqa⟩
    · rw [if_neg hc]
      have hn' : MNorm (p :: cur :: done) := by
        rw [mnorm_cons]
        refine ⟨hp.1, ?_, hn⟩
        rcases hp.2 with h | h
        · exact Or.inl h
        · right; omega
      obtain ⟨r1, r2, r3⟩ := mergeSweep_spec Coh hQ rest p (cur :: done)
        (fun q hq => ⟨(hb q (List.mem_cons_of_mem _ hq)).1, hs'.1 q hq⟩) hs'.2 hn'
        (fun q hq => hcr q (List.mem_cons_of_mem _ hq)) (hcr p (by simp))
        (by
          intro q hq
          rcases List.mem_cons.1 hq with rfl | h
          · exact hcc
          · exact hcd q h)
      refine ⟨r1, fun u a => ?_, r3⟩
      rw [r2 u a]
      simp only [mden, List.mem_cons]
      constructor
      · rintro (⟨q, hq, hqa⟩ | ⟨q, hq | hq, hqa⟩)
        · exact Or.inl ⟨q, Or.inr hq, hqa⟩
        · subst hq; exact Or.inl ⟨q, Or.inl rfl, hqa⟩
        · exact Or.inr ⟨q, hq, hqa⟩
      · rintro (⟨q, hq | hq, hqa⟩ | ⟨q, hq, hqa⟩)
        · subst hq; exact Or.inr ⟨q, Or.inl rfl, hqa⟩
        · exact Or.inl ⟨q, hq, hqa⟩
        · exact Or.inr ⟨q, Or.inr hq, hqa⟩

end NV.C05L
