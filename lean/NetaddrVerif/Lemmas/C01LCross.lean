/-
Lemmas/C01LCross.lean — no IPv4 reader (`inet_aton`, `inet_pton(AF_INET)` of either back end,
with or without ZEROFILL preprocessing) accepts a string whose first ':' is preceded only by
hex digits — which every printed IPv6 text is.  Core Lean only.
-/
import NetaddrVerif.Lemmas.C01LFbPrint
import NetaddrVerif.Lemmas.C01LFb
namespace NV.C01L
open NV NV.Text4 NV.Text6 NV.AddrParse

theorem intercalate_cons_cons (sep : List Char) (a b : List Char) (r : List (List Char)) :
    sep.intercalate (a :: b :: r) = a ++ sep ++ sep.intercalate (b :: r) := by
  simp [List.intercalate]

theorem mem_intercalate (sep : Char) (ls : List (List Char)) (c : Char) (h : c ∈ [sep].intercalate ls) :
    c = sep ∨ ∃ l ∈ ls, c ∈ l := by
  induction ls with
  | nil => simp [List.intercalate] at h
  | cons a r ih =>
    cases r with
    | nil =>
      simp [List.intercalate] at h
      exact Or.inr ⟨a, by simp, h⟩
    | cons b r' =>
      rw [intercalate_cons_cons] at h
      simp only [List.mem_append, List.mem_singleton] at h
      rcases h with (h | h) | h
      · exact Or.inr ⟨a, by simp, h⟩
      · exact Or.inl h
      · rcases ih h with h' | ⟨l, hl, hc⟩
        · exact Or.inl h'
        · exact Or.inr ⟨l, by simp [hl], hc⟩

/-- a character other than the separator lies in one of the split pieces -/
theorem mem_splitOn (sep c : Char) (s : List Char) (hc : c ∈ s) (hne : c ≠ sep) : ∃ p ∈ s.splitOn sep, c ∈ p := by
  have e := List.intercalate_splitOn (xs := s) sep
  rw [← e] at hc
  rcases mem_intercalate sep _ c hc with h | h
  · exact absurd h hne
  · exact h

theorem octet_colon (t : List Char) (h : ':' ∈ t) : Text4.octet t = none := by
  unfold Text4.octet
  have : ¬ (t.all isDec = true) := by
    intro hall
    have := List.all_eq_true.mp hall ':' h
    exact absurd this (by decide)
  simp [this]

/-- strict readers refuse anything containing ':' -/
theorem inetPton4_colon (be : Backend) (s : List Char) (h : ':' ∈ s) : inetPton4 be s = none := by
  have hp : Text4.pton4 s = none := by
    unfold Text4.pton4
    obtain ⟨p, hp, hc⟩ := mem_splitOn '.' ':' s h (by decide)
    generalize s.splitOn '.' = toks at hp
    match toks, hp with
    | [], _ => rfl
    | [_], _ => rfl
    | [_, _], _ => rfl
    | [_, _, _], _ => rfl
    | _ :: _ :: _ :: _ :: _ :: _, _ => rfl
    | [a, b, c, d], hp =>
      simp only [List.mem_cons, List.not_mem_nil, or_false] at hp
      rcases hp with e | e | e | e
      · subst e; simp only [octet_colon _ hc]
      · subst e; simp only [octet_colon _ hc]; cases Text4.octet a <;> rfl
      · subst e; simp only [octet_colon _ hc]; cases Text4.octet a <;> cases Text4.octet b <;> rfl
      · subst e; simp only [octet_colon _ hc]
        cases Text4.octet a <;> cases Text4.octet b <;> cases Text4.octet c <;> rfl
  cases be
  · exact hp
  · show FbSocket.pton4 s = none
    rw [fb_pton4_eq]; exact hp

theorem mem_dropWhile_of_false {α} (p : α → Bool) (x : α) (l : List α) (hx : x ∈ l) (hp : p x = false) :
    x ∈ l.dropWhile p := by
  induction l with
  | nil => exact absurd hx (by simp)
  | cons a t ih =>
    rw [List.dropWhile_cons]
    by_cases ha : p a = true
    · simp only [ha, if_true]
      rcases List.mem_cons.mp hx with e | e
      · subst e; rw [hp] at ha; exact absurd ha (by decide)
      · exact ih e
    · simp only [ha, if_false]; exact hx

theorem digitsVal_bad (x : Char) (hu : (x == '_') = false) (hd : Py.digitVal 10 x = none)
    (t : List Char) (h : x ∈ t) (acc : Nat) (pd : Bool) : Py.digitsVal 10 t acc pd = none := by
  induction t generalizing acc pd with
  | nil => exact absurd h (by simp)
  | cons c r ih =>
    unfold Py.digitsVal
    rcases List.mem_cons.mp h with e | e
    · subst e
      simp [hu, hd]
    · by_cases hu' : (c == '_') = true
      · simp only [hu', if_true]
        split
        · exact ih e _ _
        · rfl
      · simp only [hu']
        cases Py.digitVal 10 c with
        | none => rfl
        | some d => exact ih e _ _

/-- CPython's `int()` refuses anything containing a character that is not whitespace, sign,
    underscore or digit -/
theorem pyInt_bad (x : Char) (hws : Py.isWs x = false) (hxp : (x == '+') = false) (hxm : (x == '-') = false)
    (hu : (x == '_') = false) (hd : Py.digitVal 10 x = none) (s : List Char) (h : x ∈ s) : Py.pyInt 10 s = none := by
  unfold Py.pyInt
  split
  · rfl
  · have hmem : x ∈ Py.stripWs s := by
      unfold Py.stripWs
      rw [List.mem_reverse]
      apply mem_dropWhile_of_false _ _ _ _ hws
      rw [List.mem_reverse]
      exact mem_dropWhile_of_false _ _ _ h hws
    generalize Py.stripWs s = t at hmem
    dsimp only
    split
    · rfl
    · rename_i c r
      have hpref : (if (10 : Nat) = 2 then ['b', 'B'] else if (10 : Nat) = 8 then ['o', 'O']
          else if (10 : Nat) = 16 then ['x', 'X'] else ([] : List Char)) = [] := by decide
      simp only [hpref]
      generalize hpair : (if (c == '+') = true then (false, r) else if (c == '-') = true then (true, r) else (false, c :: r)) = pr
      obtain ⟨neg, t2⟩ := pr
      have ht2 : x ∈ t2 := by
        by_cases hp : (c == '+') = true
        · have hc : c ≠ x := by intro e; subst e; rw [hxp] at hp; cases hp
          simp only [hp, if_true, Prod.mk.injEq] at hpair
          rw [← hpair.2]
          rcases List.mem_cons.mp hmem with e | e
          · exact absurd e.symm hc
          · exact e
        · by_cases hm : (c == '-') = true
          · have hc : c ≠ x := by intro e; subst e; rw [hxm] at hm; cases hm
            simp only [hp, hm, if_true, Bool.false_eq_true, if_false, Prod.mk.injEq] at hpair
            rw [← hpair.2]
            rcases List.mem_cons.mp hmem with e | e
            · exact absurd e.symm hc
            · exact e
          · simp only [hp, hm, Bool.false_eq_true, if_false, Prod.mk.injEq] at hpair
            rw [← hpair.2]; exact hmem
      dsimp only
      split
      · rfl
      · split
        · rename_i v heq2
          exfalso
          split at heq2
          · simp only [List.contains_nil, Bool.false_eq_true, if_false] at heq2
            rw [digitsVal_bad x hu hd _ ht2] at heq2
            cases heq2
          · rw [digitsVal_bad x hu hd _ ht2] at heq2
            cases heq2
        · rfl

theorem pyInt_colon (s : List Char) (h : ':' ∈ s) : Py.pyInt 10 s = none :=
  pyInt_bad ':' (by decide) (by decide) (by decide) (by decide) (by decide) s h

theorem pyInt_dot (s : List Char) (h : '.' ∈ s) : Py.pyInt 10 s = none :=
  pyInt_bad '.' (by decide) (by decide) (by decide) (by decide) (by decide) s h

theorem mapM_none {α β} (f : α → Option β) (l : List α) (x : α) (hx : x ∈ l) (hf : f x = none) : l.mapM f = none := by
  induction l with
  | nil => exact absurd hx (by simp)
  | cons a t ih =>
    rw [List.mapM_cons]
    rcases List.mem_cons.mp hx with e | e
    · subst e; simp [hf]
    · cases f a with
      | none => rfl
      | some b => simp [ih e]

theorem zerofill_colon (s : List Char) (h : ':' ∈ s) : zerofill s = none := by
  unfold zerofill
  obtain ⟨p, hp, hc⟩ := mem_splitOn '.' ':' s h (by decide)
  rw [mapM_none _ _ p hp (by simp [pyInt_colon p hc])]
  rfl

/-! ### `inet_aton` -/

theorem dropWhile_head (p : Char → Bool) (hp : p ':' = false) (pre r : List Char) :
    ∃ c tl, (pre ++ ':' :: r).dropWhile p = c :: tl ∧ (c ∈ pre ∨ c = ':') := by
  induction pre with
  | nil => exact ⟨':', r, by simp [hp], Or.inr rfl⟩
  | cons a t ih =>
    rw [List.cons_append, List.dropWhile_cons]
    by_cases ha : p a = true
    · simp only [ha, if_true]
      obtain ⟨c, tl, h1, h2⟩ := ih
      refine ⟨c, tl, h1, ?_⟩
      rcases h2 with h2 | h2
      · exact Or.inl (by simp [h2])
      · exact Or.inr h2
    · simp only [ha, if_false]
      exact ⟨a, t ++ ':' :: r, rfl, Or.inl (by simp)⟩

/-- `strtoul` stops on a hex digit or on the ':' -/
theorem strtoul_rest (pre r : List Char) (hpre : ∀ c ∈ pre, isHexC c = true) :
    ∃ c tl, (strtoul (pre ++ ':' :: r)).2 = c :: tl ∧ c ≠ '.' ∧ isCSpace c = false := by
  have good : ∀ c, (c ∈ pre ∨ c = ':') → c ≠ '.' ∧ isCSpace c = false := by
    intro c hc
    rcases hc with hc | hc
    · have := hpre c hc
      constructor
      · intro e; subst e; exact absurd this (by decide)
      · cases hs : isCSpace c with
        | false => rfl
        | true =>
          exfalso
          simp only [isCSpace, Bool.or_eq_true, beq_iff_eq] at hs
          rcases hs with ((((e | e) | e) | e) | e) | e <;> subst e <;> exact absurd this (by decide)
    · subst hc; exact ⟨by decide, by decide⟩
  unfold strtoul
  split
  · rename_i x r0 heq
    split
    · -- "0x…": impossible, 'x' is neither a hex digit nor ':'
      rename_i hx
      exfalso
      have hxx : x = 'x' ∨ x = 'X' := by simpa using hx
      have hxmem : x ∈ pre ∨ x = ':' := by
        cases pre with
        | nil => simp at heq
        | cons a t =>
          cases t with
          | nil => simp at heq; exact Or.inr heq.2.1.symm
          | cons b t' => simp at heq; exact Or.inl (by simp [heq.2.1])
      rcases hxmem with h | h
      · have := hpre x h
        rcases hxx with e | e <;> subst e <;> exact absurd this (by decide)
      · rcases hxx with e | e <;> rw [e] at h <;> exact absurd h (by decide)
    · obtain ⟨c, tl, h1, h2⟩ := dropWhile_head isOct (by decide) pre r
      rw [← heq] at *
      exact ⟨c, tl, h1, good c h2⟩
  · rename_i r0 hno heq
    -- "0" alone cannot contain ':'
    exfalso
    cases pre with
    | nil => simp at heq
    | cons a t =>
      cases t with
      | nil => simp at heq; exact hno ':' r (by rw [← heq.2])
      | cons b t' => simp at heq; exact hno b (t' ++ ':' :: r) (by rw [← heq.2])
  · obtain ⟨c, tl, h1, h2⟩ := dropWhile_head isDec (by decide) pre r
    exact ⟨c, tl, h1, good c h2⟩

theorem aton_colon (pre r : List Char) (hpre : ∀ c ∈ pre, isHexC c = true) : Text4.aton (pre ++ ':' :: r) = none := by
  unfold Text4.aton
  split
  · rfl
  · have hloop : atonLoop 4 (pre ++ ':' :: r) [] = none := by
      obtain ⟨c, tl, h1, h2, h3⟩ := strtoul_rest pre r hpre
      generalize hs : pre ++ ':' :: r = s at *
      unfold atonLoop
      cases s with
      | nil => rfl
      | cons a b =>
        simp only []
        split
        · rfl
        · generalize hst : strtoul (a :: b) = st at *
          obtain ⟨val, rest⟩ := st
          simp only at h1
          subst h1
          simp only []
          split
          · rfl
          · have hc : (c == '.') = false := beq_eq_false_iff_ne.mpr h2
            simp [hc, h3]
    rw [hloop]

end NV.C01L
