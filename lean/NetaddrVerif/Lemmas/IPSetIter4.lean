/-
Lemmas/IPSetIter4.lean — `repr(IPSet)`: the list of CIDR strings determines the stored keys
(C03's `str()` round trip makes the printer injective), hence — under the invariant — the set.
-/
import NetaddrVerif.Lemmas.IPSetL11
import NetaddrVerif.Props.C03
import NetaddrVerif.Lemmas.C04M
import NetaddrVerif.Model.IPSetText
namespace NV.IPSet.Iter
open NV NV.IPSet NV.AddrParse NV.NetParse

/-- `str()` of in-range networks is injective: the text parses back to the network (C03) -/
theorem netStr_inj (be : Backend) (a b : Net) (ha : a.WF) (hb : b.WF) (h : netStr be a = netStr be b) : a = b := by
  have h1 := C03.str_roundtrip be a ha none (Or.inl rfl)
  have h2 := C03.str_roundtrip be b hb none (Or.inl rfl)
  rw [h, h2] at h1
  injection h1 with h1
  exact h1.symm

theorem map_inj_on {α β : Type} (f : α → β) (P : α → Prop)
    (hf : ∀ x y, P x → P y → f x = f y → x = y) :
    ∀ (l₁ l₂ : List α), (∀ x ∈ l₁, P x) → (∀ x ∈ l₂, P x) → l₁.map f = l₂.map f → l₁ = l₂
  | [], [], _, _, _ => rfl
  | [], _ :: _, _, _, h => by simp at h
  | _ :: _, [], _, _, h => by simp at h
  | a :: as, b :: bs, h1, h2, h => by
    simp only [List.map_cons, List.cons.injEq] at h
    have e := hf a b (h1 a (List.mem_cons_self ..)) (h2 b (List.mem_cons_self ..)) h.1
    rw [e, map_inj_on f P hf as bs (fun x hx => h1 x (List.mem_cons_of_mem _ hx))
      (fun x hx => h2 x (List.mem_cons_of_mem _ hx)) h.2]

theorem mem_reprSet (s : St) (n : Net) : n ∈ reprSet s ↔ n ∈ s := (sortNets_perm s).mem_iff

/-- the CIDR strings of the repr determine the sorted key list (in-range keys suffice) -/
theorem reprStrs_inj (be : Backend) (s t : St) (hs : ∀ n ∈ s, n.WF) (ht : ∀ n ∈ t, n.WF)
    (h : reprStrs be s = reprStrs be t) : reprSet s = reprSet t :=
  map_inj_on (netStr be) Net.WF (netStr_inj be) _ _
    (fun n hn => hs n ((mem_reprSet s n).1 hn)) (fun n hn => ht n ((mem_reprSet t n).1 hn)) h

/-- under the invariant: same sorted key list iff `==` -/
theorem reprSet_eq_iff (s t : St) (hs : Inv s) (ht : Inv t) : reprSet s = reprSet t ↔ IPSet.eq s t = true := by
  rw [eq_iff_mem s t hs ht]
  constructor
  · intro h n
    rw [← mem_reprSet s n, ← mem_reprSet t n, h]
  · intro h
    have hp : s.Perm t := (List.perm_ext_iff_of_nodup hs.nodup ht.nodup).2 h
    exact NV.Contains.sortNets_perm_eq s t hp

end NV.IPSet.Iter
