/-
Lemmas/C01LText6.lean — what `strategy.ipv6.int_to_str` prints, in every dialect and with
either back end: it is read back by `inet_pton(AF_INET6)` of either back end, it contains no
'/', and its first ':' is preceded by hex digits only (so no IPv4 reader accepts it).
-/
import NetaddrVerif.Lemmas.C01LCross
namespace NV.C01L
open NV NV.Text4 NV.Text6 NV.AddrParse

theorem inetPton6_eq (be : Backend) (s : List Char) : inetPton6 be s = Text6.pton6 s := by
  cases be
  · rfl
  · exact fb_pton6_eq s

theorem inetNtop6_eq (be : Backend) (v : Nat) (hv : v < 2 ^ 128) : inetNtop6 be v = Text6.ntop6 v := by
  cases be
  · rfl
  · exact fb_ntop6_eq v hv

/-- tokens of the compact form -/
theorem toks_mem (v : Nat) (best : Option (Nat × Nat)) (t : List Char) (ht : t ∈ ntop6Toks v (words v) best) :
    t = [] ∨ t ∈ (words v).map hex ∨ t = ntoa (v % 4294967296) := by
  unfold ntop6Toks at ht
  dsimp only at ht
  have hbase : ∀ t, t ∈ (if v4Tail (words v) best = true then ((words v).map hex).take 6 ++ [ntoa (v % 4294967296)]
      else (words v).map hex) → t ∈ (words v).map hex ∨ t = ntoa (v % 4294967296) := by
    intro t ht
    split at ht
    · rcases List.mem_append.mp ht with h | h
      · exact Or.inl (List.mem_of_mem_take h)
      · exact Or.inr (by simpa using h)
    · exact Or.inl ht
  cases best with
  | none => exact Or.inr (hbase t ht)
  | some bl =>
    obtain ⟨b, l⟩ := bl
    simp only [List.mem_append] at ht
    rcases ht with (((h | h) | h) | h) | h
    · split at h <;> simp at h; exact Or.inl h
    · exact Or.inr (hbase t (List.mem_of_mem_take h))
    · simp at h; exact Or.inl h
    · exact Or.inr (hbase t (List.mem_of_mem_drop h))
    · split at h <;> simp at h; exact Or.inl h

theorem slash_not_in_ntop6 (v : Nat) : '/' ∉ Text6.ntop6 v := by
  intro h
  unfold Text6.ntop6 at h
  rcases mem_intercalate ':' _ '/' h with e | ⟨t, ht, hc⟩
  · exact absurd e (by decide)
  · rcases toks_mem v _ t ht with e | e | e
    · subst e; simp at hc
    · obtain ⟨n, _, rfl⟩ := List.mem_map.mp e
      exact slash_not_in_hex n hc
    · subst e
      have := slash_not_in_ntoa (v % 4294967296) (Nat.mod_lt _ (by decide))
      exact absurd (List.contains_iff_mem.mpr hc) (by rw [this]; decide)

/-- the compact token list starts with an all-hex (possibly empty) token and has a second token -/
theorem toks_shape (v : Nat) (best : Option (Nat × Nat))
    (hrun : ∀ b l, best = some (b, l) → 2 ≤ l ∧ b + l ≤ 8) :
    ∃ t0 t1 rest, ntop6Toks v (words v) best = t0 :: t1 :: rest ∧ ∀ c ∈ t0, isHexC c = true := by
  unfold ntop6Toks
  dsimp only
  cases best with
  | none =>
    simp only [v4Tail, Bool.false_eq_true, if_false]
    exact ⟨_, _, _, rfl, hex_all _⟩
  | some bl =>
    obtain ⟨b, l⟩ := bl
    obtain ⟨h2, h8⟩ := hrun b l rfl
    cases b with
    | zero => exact ⟨[], [], _, rfl, by simp⟩
    | succ b' =>
      have htail : v4Tail (words v) (some (b' + 1, l)) = false := by simp [v4Tail]
      simp only [htail, Bool.false_eq_true, if_false]
      cases b' with
      | zero => exact ⟨hex ((v >>> 112) % 65536), [], _, rfl, hex_all _⟩
      | succ b'' => exact ⟨hex ((v >>> 112) % 65536), hex ((v >>> 96) % 65536), _, rfl, hex_all _⟩

theorem ntop6_shape (v : Nat) : ∃ pre r, Text6.ntop6 v = pre ++ ':' :: r ∧ ∀ c ∈ pre, isHexC c = true := by
  have hrun : ∀ b l, longestRun ((words v).map (· == 0)) = some (b, l) → 2 ≤ l ∧ b + l ≤ 8 := by
    intro b l h
    have := run_facts (words v) rfl b l h
    exact ⟨this.1, this.2.1⟩
  obtain ⟨t0, t1, rest, he, hh⟩ := toks_shape v _ hrun
  refine ⟨t0, [':'].intercalate (t1 :: rest), ?_, hh⟩
  unfold Text6.ntop6
  rw [he, intercalate_cons_cons]
  simp

/-- `int_to_str` in each dialect is read back -/
theorem text6_parse (be : Backend) (d : Dialect) (v : Nat) (hv : v < 2 ^ 128) :
    inetPton6 be (intToStr6 be d v) = some v := by
  rw [inetPton6_eq]
  cases d with
  | compact => show Text6.pton6 (inetNtop6 be v) = some v; rw [inetNtop6_eq be v hv]; exact pton6_ntop6 v hv
  | full =>
    show Text6.pton6 ([':'].intercalate ((words v).map hex)) = some v
    rw [pton6_nogap hex goodF_hex (words v) (small_words v) rfl, ofWords_words v hv]
  | verbose =>
    show Text6.pton6 ([':'].intercalate ((words v).map hex4)) = some v
    rw [pton6_nogap hex4 goodF_hex4 (words v) (small_words v) rfl, ofWords_words v hv]

theorem text6_shape (be : Backend) (d : Dialect) (v : Nat) (hv : v < 2 ^ 128) :
    ∃ pre r, intToStr6 be d v = pre ++ ':' :: r ∧ ∀ c ∈ pre, isHexC c = true := by
  cases d with
  | compact => show ∃ pre r, inetNtop6 be v = _ ∧ _; rw [inetNtop6_eq be v hv]; exact ntop6_shape v
  | full =>
    refine ⟨hex ((v >>> 112) % 65536), [':'].intercalate (((words v).map hex).drop 1), ?_, hex_all _⟩
    show [':'].intercalate ((words v).map hex) = _
    simp only [words, List.map_cons, List.map_nil, List.drop_succ_cons, List.drop_zero]
    rw [intercalate_cons_cons]
    simp
  | verbose =>
    refine ⟨hex4 ((v >>> 112) % 65536), [':'].intercalate (((words v).map hex4).drop 1), ?_, hex4_all _⟩
    show [':'].intercalate ((words v).map hex4) = _
    simp only [words, List.map_cons, List.map_nil, List.drop_succ_cons, List.drop_zero]
    rw [intercalate_cons_cons]
    simp

theorem text6_noslash (be : Backend) (d : Dialect) (v : Nat) (hv : v < 2 ^ 128) :
    (intToStr6 be d v).contains '/' = false := by
  apply contains_false_of_not_mem
  cases d with
  | compact => show '/' ∉ inetNtop6 be v; rw [inetNtop6_eq be v hv]; exact slash_not_in_ntop6 v
  | full =>
    intro h
    rcases mem_intercalate ':' _ '/' h with e | ⟨t, ht, hc⟩
    · exact absurd e (by decide)
    · obtain ⟨n, _, rfl⟩ := List.mem_map.mp ht; exact slash_not_in_hex n hc
  | verbose =>
    intro h
    rcases mem_intercalate ':' _ '/' h with e | ⟨t, ht, hc⟩
    · exact absurd e (by decide)
    · obtain ⟨n, _, rfl⟩ := List.mem_map.mp ht; exact slash_not_in_hex4 n hc

/-- no IPv4 reading of a string whose first ':' follows hex digits only -/
theorem strToInt4_colon (be : Backend) (pre r : List Char) (hpre : ∀ c ∈ pre, isHexC c = true) (fl : Nat) :
    strToInt4 be (pre ++ ':' :: r) fl = .error .addrFormat := by
  have hmem : ':' ∈ pre ++ ':' :: r := by simp
  unfold strToInt4
  by_cases hz : hasFlag fl ZEROFILL = true
  · simp only [hz, if_true, zerofill_colon _ hmem]
  · simp only [hz, Bool.false_eq_true, if_false]
    by_cases hp : hasFlag fl INET_PTON = true
    · simp only [hp, if_true, inetPton4_colon be _ hmem]
    · simp only [hp, Bool.false_eq_true, if_false, aton_colon pre r hpre]

end NV.C01L
