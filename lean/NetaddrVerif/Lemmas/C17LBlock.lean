/-
Lemmas/C17LBlock.lean — every IPv4 CIDR block is glob-shaped: the octet pairs of its first and
last address are equal down to one octet, ordered there, and (0,255) below it.
-/
import NetaddrVerif.Lemmas.C17LRange
import NetaddrVerif.Lemmas.NetworkL
namespace NV.C17
open NV NV.Glob

theorem cls_eq (a : Nat) : cls (a, a) = .lit a := by simp [cls, classify]
theorem cls_full : cls (0, 255) = .star := by decide

/-- the four ways two addresses can be glob-shaped with ordered octets -/
def Shaped4 (a0 b0 a1 b1 a2 b2 a3 b3 : Nat) : Prop :=
  (a0 = b0 ∧ a1 = b1 ∧ a2 = b2 ∧ a3 ≤ b3) ∨
  (a0 = b0 ∧ a1 = b1 ∧ a2 ≤ b2 ∧ a3 = 0 ∧ b3 = 255) ∨
  (a0 = b0 ∧ a1 ≤ b1 ∧ a2 = 0 ∧ b2 = 255 ∧ a3 = 0 ∧ b3 = 255) ∨
  (a0 ≤ b0 ∧ a1 = 0 ∧ b1 = 255 ∧ a2 = 0 ∧ b2 = 255 ∧ a3 = 0 ∧ b3 = 255)

theorem shape4 (a0 b0 a1 b1 a2 b2 a3 b3 : Nat) (h : Shaped4 a0 b0 a1 b1 a2 b2 a3 b3) :
    (a0 ≤ b0 ∧ a1 ≤ b1 ∧ a2 ≤ b2 ∧ a3 ≤ b3) ∧
    shapeOk [cls (a0, b0), cls (a1, b1), cls (a2, b2), cls (a3, b3)] = true := by
  rcases h with ⟨rfl, rfl, rfl, h⟩ | ⟨rfl, rfl, h, rfl, rfl⟩ | ⟨rfl, h, rfl, rfl, rfl, rfl⟩ |
    ⟨h, rfl, rfl, rfl, rfl, rfl, rfl⟩
  · refine ⟨by omega, ?_⟩
    simp only [cls_eq, shapeOk]
    cases cls (a3, b3) <;> rfl
  · refine ⟨by omega, ?_⟩
    simp only [cls_eq, cls_full, shapeOk]
    cases cls (a2, b2) <;> rfl
  · refine ⟨by omega, ?_⟩
    simp only [cls_eq, cls_full, shapeOk]
    cases cls (a1, b1) <;> rfl
  · refine ⟨by omega, ?_⟩
    simp only [cls_full]
    cases cls (a0, b0) <;> rfl

theorem shaped_ordered_shape (lo hi : Nat)
    (h : Shaped4 (lo / 2 ^ 24 % 256) (hi / 2 ^ 24 % 256) (lo / 2 ^ 16 % 256) (hi / 2 ^ 16 % 256)
      (lo / 2 ^ 8 % 256) (hi / 2 ^ 8 % 256) (lo % 256) (hi % 256)) :
    ordered lo hi ∧ shapeOk (kinds lo hi) = true := by
  obtain ⟨ho, hs⟩ := shape4 _ _ _ _ _ _ _ _ h
  refine ⟨?_, ?_⟩
  · unfold ordered octets4
    simp only [List.zip_cons_cons, List.zip_nil_right, List.mem_cons, List.not_mem_nil, or_false,
      forall_eq_or_imp, forall_eq]
    exact ho
  · unfold kinds octets4
    simpa only [List.zip_cons_cons, List.zip_nil_right, List.map_cons, List.map_nil] using hs

theorem block_low (q k : Nat) (hk : k ≤ 8) (hq : q * 2 ^ k < 2 ^ 32) :
    Shaped4 (q * 2 ^ k / 2 ^ 24 % 256) ((q * 2 ^ k + (2 ^ k - 1)) / 2 ^ 24 % 256)
      (q * 2 ^ k / 2 ^ 16 % 256) ((q * 2 ^ k + (2 ^ k - 1)) / 2 ^ 16 % 256)
      (q * 2 ^ k / 2 ^ 8 % 256) ((q * 2 ^ k + (2 ^ k - 1)) / 2 ^ 8 % 256)
      (q * 2 ^ k % 256) ((q * 2 ^ k + (2 ^ k - 1)) % 256) := by
  have : k = 0 ∨ k = 1 ∨ k = 2 ∨ k = 3 ∨ k = 4 ∨ k = 5 ∨ k = 6 ∨ k = 7 ∨ k = 8 := by omega
  rcases this with rfl | rfl | rfl | rfl | rfl | rfl | rfl | rfl | rfl <;>
    (simp only [Nat.reducePow] at hq ⊢; left; refine ⟨?_, ?_, ?_, ?_⟩ <;> omega)

theorem block_mid1 (q k : Nat) (hk1 : 9 ≤ k) (hk2 : k ≤ 16) (hq : q * 2 ^ k < 2 ^ 32) :
    Shaped4 (q * 2 ^ k / 2 ^ 24 % 256) ((q * 2 ^ k + (2 ^ k - 1)) / 2 ^ 24 % 256)
      (q * 2 ^ k / 2 ^ 16 % 256) ((q * 2 ^ k + (2 ^ k - 1)) / 2 ^ 16 % 256)
      (q * 2 ^ k / 2 ^ 8 % 256) ((q * 2 ^ k + (2 ^ k - 1)) / 2 ^ 8 % 256)
      (q * 2 ^ k % 256) ((q * 2 ^ k + (2 ^ k - 1)) % 256) := by
  have : k = 9 ∨ k = 10 ∨ k = 11 ∨ k = 12 ∨ k = 13 ∨ k = 14 ∨ k = 15 ∨ k = 16 := by omega
  rcases this with rfl | rfl | rfl | rfl | rfl | rfl | rfl | rfl <;>
    (simp only [Nat.reducePow] at hq ⊢; right; left; refine ⟨?_, ?_, ?_, ?_, ?_⟩ <;> omega)

theorem block_mid2 (q k : Nat) (hk1 : 17 ≤ k) (hk2 : k ≤ 24) (hq : q * 2 ^ k < 2 ^ 32) :
    Shaped4 (q * 2 ^ k / 2 ^ 24 % 256) ((q * 2 ^ k + (2 ^ k - 1)) / 2 ^ 24 % 256)
      (q * 2 ^ k / 2 ^ 16 % 256) ((q * 2 ^ k + (2 ^ k - 1)) / 2 ^ 16 % 256)
      (q * 2 ^ k / 2 ^ 8 % 256) ((q * 2 ^ k + (2 ^ k - 1)) / 2 ^ 8 % 256)
      (q * 2 ^ k % 256) ((q * 2 ^ k + (2 ^ k - 1)) % 256) := by
  have : k = 17 ∨ k = 18 ∨ k = 19 ∨ k = 20 ∨ k = 21 ∨ k = 22 ∨ k = 23 ∨ k = 24 := by omega
  rcases this with rfl | rfl | rfl | rfl | rfl | rfl | rfl | rfl <;>
    (simp only [Nat.reducePow] at hq ⊢; right; right; left; refine ⟨?_, ?_, ?_, ?_, ?_, ?_⟩ <;> omega)

theorem block_high (q k : Nat) (hk1 : 25 ≤ k) (hk2 : k ≤ 32) (hq : q * 2 ^ k < 2 ^ 32) :
    Shaped4 (q * 2 ^ k / 2 ^ 24 % 256) ((q * 2 ^ k + (2 ^ k - 1)) / 2 ^ 24 % 256)
      (q * 2 ^ k / 2 ^ 16 % 256) ((q * 2 ^ k + (2 ^ k - 1)) / 2 ^ 16 % 256)
      (q * 2 ^ k / 2 ^ 8 % 256) ((q * 2 ^ k + (2 ^ k - 1)) / 2 ^ 8 % 256)
      (q * 2 ^ k % 256) ((q * 2 ^ k + (2 ^ k - 1)) % 256) := by
  have : k = 25 ∨ k = 26 ∨ k = 27 ∨ k = 28 ∨ k = 29 ∨ k = 30 ∨ k = 31 ∨ k = 32 := by omega
  rcases this with rfl | rfl | rfl | rfl | rfl | rfl | rfl | rfl <;>
    (simp only [Nat.reducePow] at hq ⊢; right; right; right; refine ⟨?_, ?_, ?_, ?_, ?_, ?_, ?_⟩ <;> omega)

/-- every IPv4 CIDR block `[v / 2^k * 2^k, … + 2^k - 1]` is ordered and glob-shaped -/
theorem block_shaped (v k : Nat) (hv : v < 2 ^ 32) (hk : k ≤ 32) :
    ordered (v / 2 ^ k * 2 ^ k) (v / 2 ^ k * 2 ^ k + (2 ^ k - 1)) ∧
    shapeOk (kinds (v / 2 ^ k * 2 ^ k) (v / 2 ^ k * 2 ^ k + (2 ^ k - 1))) = true := by
  apply shaped_ordered_shape
  have hq : v / 2 ^ k * 2 ^ k < 2 ^ 32 := Nat.lt_of_le_of_lt (Nat.div_mul_le_self v (2 ^ k)) hv
  by_cases h1 : k ≤ 8
  · exact block_low _ k h1 hq
  · by_cases h2 : k ≤ 16
    · exact block_mid1 _ k (by omega) h2 hq
    · by_cases h3 : k ≤ 24
      · exact block_mid2 _ k (by omega) h3 hq
      · exact block_high _ k (by omega) hk hq

theorem block_last_lt (v k : Nat) (hv : v < 2 ^ 32) (hk : k ≤ 32) :
    v / 2 ^ k * 2 ^ k + (2 ^ k - 1) < 2 ^ 32 := by
  have hpos : 0 < 2 ^ k := Nat.pos_of_ne_zero (by simp)
  have e : 2 ^ 32 = 2 ^ (32 - k) * 2 ^ k := by rw [← Nat.pow_add]; congr 1; omega
  have hq : v / 2 ^ k < 2 ^ (32 - k) := by
    rw [Nat.div_lt_iff_lt_mul hpos, ← e]; exact hv
  have : (v / 2 ^ k + 1) * 2 ^ k ≤ 2 ^ (32 - k) * 2 ^ k := Nat.mul_le_mul_right _ hq
  rw [← e, Nat.add_mul] at this
  omega

theorem shaped4_of_shape (o0 o1 o2 o3 : Oct) (w0 : o0.WF) (w1 : o1.WF) (w2 : o2.WF) (w3 : o3.WF)
    (hs : shapeOk [o0, o1, o2, o3] = true) :
    Shaped4 o0.lo o0.hi o1.lo o1.hi o2.lo o2.hi o3.lo o3.hi := by
  cases o0 <;> cases o1 <;> cases o2 <;> cases o3 <;>
    simp only [shapeOk, Oct.isStar, List.all_cons, List.all_nil, Bool.and_true, Bool.and_false, Bool.false_eq_true] at hs <;>
    simp only [Oct.lo, Oct.hi, Oct.WF, Shaped4, true_and, and_true, Nat.le_refl, true_or, or_true] at * <;>
    (try omega)

/-- a range denoted by some grammatical glob is ordered and glob-shaped -/
theorem shaped_of_glob (o0 o1 o2 o3 : Oct) (w0 : o0.WF) (w1 : o1.WF) (w2 : o2.WF) (w3 : o3.WF)
    (hs : shapeOk [o0, o1, o2, o3] = true) :
    ordered (quad o0.lo o1.lo o2.lo o3.lo) (quad o0.hi o1.hi o2.hi o3.hi) ∧
    shapeOk (kinds (quad o0.lo o1.lo o2.lo o3.lo) (quad o0.hi o1.hi o2.hi o3.hi)) = true := by
  apply shaped_ordered_shape
  have h := shaped4_of_shape o0 o1 o2 o3 w0 w1 w2 w3 hs
  have bl : o0.lo ≤ 255 ∧ o1.lo ≤ 255 ∧ o2.lo ≤ 255 ∧ o3.lo ≤ 255 ∧ o0.hi ≤ 255 ∧ o1.hi ≤ 255 ∧ o2.hi ≤ 255 ∧ o3.hi ≤ 255 := by
    cases o0 <;> cases o1 <;> cases o2 <;> cases o3 <;> simp only [Oct.lo, Oct.hi, Oct.WF] at * <;> omega
  have e0 : quad o0.lo o1.lo o2.lo o3.lo / 2 ^ 24 % 256 = o0.lo := by unfold quad; omega
  have e1 : quad o0.lo o1.lo o2.lo o3.lo / 2 ^ 16 % 256 = o1.lo := by unfold quad; omega
  have e2 : quad o0.lo o1.lo o2.lo o3.lo / 2 ^ 8 % 256 = o2.lo := by unfold quad; omega
  have e3 : quad o0.lo o1.lo o2.lo o3.lo % 256 = o3.lo := by unfold quad; omega
  have f0 : quad o0.hi o1.hi o2.hi o3.hi / 2 ^ 24 % 256 = o0.hi := by unfold quad; omega
  have f1 : quad o0.hi o1.hi o2.hi o3.hi / 2 ^ 16 % 256 = o1.hi := by unfold quad; omega
  have f2 : quad o0.hi o1.hi o2.hi o3.hi / 2 ^ 8 % 256 = o2.hi := by unfold quad; omega
  have f3 : quad o0.hi o1.hi o2.hi o3.hi % 256 = o3.hi := by unfold quad; omega
  rw [e0, e1, e2, e3, f0, f1, f2, f3]
  exact h

/-- `_iprange_to_glob` on the first and last address of an IPv4 block: a valid glob that denotes
    exactly the block -/
theorem block_glob (v p : Nat) (hv : v < 2 ^ 32) (hp : p ≤ 32) :
    ∃ g, singleGlob (netFirst 32 v p) (netLast 32 v p) = .ok g ∧
      iprangeToGlob (netFirst 32 v p) (netLast 32 v p) = .ok g ∧ validGlob g = true ∧
      globToIptuple g = .ok (netFirst 32 v p, netLast 32 v p) := by
  rw [netFirst_eq 32 v p hv, netLast_eq 32 v p]
  have hs := block_shaped v (32 - p) hv (by omega)
  have hl := block_last_lt v (32 - p) hv (by omega)
  have hf : v / 2 ^ (32 - p) * 2 ^ (32 - p) < 2 ^ 32 := Nat.lt_of_le_of_lt (Nat.div_mul_le_self _ _) hv
  refine ⟨joined _ _, ?_, iprangeToGlob_shape _ _ hs.2, joined_denotes _ _ hf hl hs⟩
  rw [singleGlob_eq]; simp [hs]

end NV.C17
