import NetaddrVerif.Lemmas.C05LMerge
/-! C05 helper lemmas, part 7: `cidr_merge` = sort, sweep, emit. -/
namespace NV.C05L
open NV Blk

theorem le_trans' (a b c : MRange) (h1 : MRange.le a b = true) (h2 : MRange.le b c = true) :
    MRange.le a c = true := by
  simp only [MRange.le, Bool.or_eq_true, Bool.and_eq_true, decide_eq_true_eq, beq_iff_eq] at *
  omega

theorem le_total' (a b : MRange) : (MRange.le a b || MRange.le b a) = true := by
  simp only [MRange.le, Bool.or_eq_true, Bool.and_eq_true, decide_eq_true_eq, beq_iff_eq]
  omega

theorem below_of_le (a b : MRange) (h : MRange.le a b = true) : Below a b := by
  simp only [MRange.le, Bool.or_eq_true, Bool.and_eq_true, decide_eq_true_eq, beq_iff_eq] at h
  unfold Below; omega

/-- `cidr_merge` emits a normal-form tuple list that covers exactly the inputs -/
theorem merge_main (xs : List MItem) (hwf : ∀ it ∈ xs, ItemWF it) :
    ∃ R, cidrMerge xs = R.flatMap MRange.emit ∧ MNorm R ∧
      (∀ r ∈ R, Good r ∧ r.last < 2 ^ width r.ver) ∧ (∀ u a, mden R u a ↔ iden xs u a) := by
  unfold cidrMerge
  have hperm := List.mergeSort_perm (xs.map MItem.toRange) MRange.le
  have hsorted := List.pairwise_mergeSort le_trans' le_total' (xs.map MItem.toRange)
  generalize (xs.map MItem.toRange).mergeSort MRange.le = sorted at *
  have hmem : ∀ p, p ∈ sorted.reverse ↔ ∃ it ∈ xs, it.toRange = p := by
    intro p; rw [List.mem_reverse, hperm.mem_iff, List.mem_map]
  have hrevp : sorted.reverse.Pairwise (fun a b => MRange.le b a = true) := List.pairwise_reverse.2 hsorted
  cases hrev : sorted.reverse with
  | nil =>
    refine ⟨[], by simp [hrev], trivial, by simp, fun u a => ?_⟩
    simp only [mden, List.not_mem_nil, false_and, exists_false, iden, false_iff]
    rintro ⟨it, hit, _⟩
    have := (hmem it.toRange).2 ⟨it, hit, rfl⟩
    rw [hrev] at this; simp at this
  | cons cur rest =>
    rw [hrev] at hmem hrevp
    have hall : ∀ p ∈ cur :: rest, p.first ≤ p.last ∧ p.last < 2 ^ width p.ver ∧ Good p := by
      intro p hp
      obtain ⟨it, hit, rfl⟩ := (hmem p).1 hp
      exact ⟨(toRange_valid it (hwf it hit)).1, (toRange_valid it (hwf it hit)).2, toRange_good it (hwf it hit)⟩
    have hp' := List.pairwise_cons.1 hrevp
    obtain ⟨r1, r2, r3⟩ := mergeSweep_spec Good
      (by intro r hr it h; rw [hr] at h; cases h) rest cur []
      (fun p hp => ⟨(hall p (List.mem_cons_of_mem _ hp)).1, below_of_le _ _ (hp'.1 p hp)⟩)
      (hp'.2.imp (fun {a b} h => below_of_le _ _ h))
      (hall cur (by simp)).1
      (fun p hp => (hall p (List.mem_cons_of_mem _ hp)).2.2) (hall cur (by simp)).2.2 (by simp)
    have hden : ∀ u a, mden (mergeSweep rest cur []) u a ↔ mden (cur :: rest) u a := by
      intro u a; rw [r2 u a, mden_cons, mden_cons]
      simp only [mden, List.not_mem_nil, false_and, exists_false, or_false]
      exact Or.comm
    refine ⟨mergeSweep rest cur [], by simp only [hrev], r1, fun r hr => ⟨r3 r hr, ?_⟩, fun u a => ?_⟩
    · have hv := mnorm_valid _ r1 r hr
      obtain ⟨p, hp, hpv, _, hpl⟩ := (hden r.ver r.last).1 ⟨r, hr, rfl, hv, Nat.le_refl _⟩
      have := (hall p hp).2.1
      rw [hpv] at this; omega
    · rw [hden u a]
      simp only [mden, iden]
      constructor
      · rintro ⟨p, hp, hm⟩
        obtain ⟨it, hit, rfl⟩ := (hmem p).1 hp
        exact ⟨it, hit, hm⟩
      · rintro ⟨it, hit, hm⟩
        exact ⟨it.toRange, (hmem _).2 ⟨it, hit, rfl⟩, hm⟩

end NV.C05L
