/-
Lemmas/C03LInt.lean — CPython's `int()` (modelled runtime `Py.pyInt`) on the decimal numerals
`'%d'` prints: `int('%d' % n) = n` for every natural number.  Core Lean only.
-/
import NetaddrVerif.Lemmas.C01LCross
namespace NV.C03L
open NV NV.Text4

theorem toDigits10_all (P : Char → Prop) (hP : ∀ d, d < 10 → P (Nat.digitChar d)) (n : Nat) :
    ∀ c ∈ Nat.toDigits 10 n, P c := by
  induction n using Nat.strongRecOn with
  | ind n ih =>
    rw [Nat.toDigits_eq_if (by decide)]
    by_cases h : n < 10
    · simp only [h, if_true, List.mem_singleton]
      intro c hc; subst hc; exact hP n h
    · simp only [h, if_false, List.mem_append, List.mem_singleton]
      intro c hc
      rcases hc with hc | hc
      · exact ih (n / 10) (Nat.div_lt_self (by omega) (by decide)) c hc
      · subst hc; exact hP _ (Nat.mod_lt _ (by decide))

/-- what matters of a decimal digit character -/
def DecCh (c : Char) : Prop :=
  Py.isWs c = false ∧ (c == '+') = false ∧ (c == '-') = false ∧ (c == '_') = false ∧
  Py.digitVal 10 c = some (c.toNat - '0'.toNat) ∧ ¬ (c.toNat > 127) ∧ c ≠ '/' ∧ c ≠ '.' ∧ c ≠ ':' ∧ isDec c = true

instance (c : Char) : Decidable (DecCh c) := by unfold DecCh; infer_instance

theorem decCh_digitChar : ∀ d, d < 10 → DecCh (Nat.digitChar d) := by decide

theorem dec_decCh (n : Nat) : ∀ c ∈ dec n, DecCh c := toDigits10_all DecCh decCh_digitChar n

theorem dec_ne_nil (n : Nat) : dec n ≠ [] := Nat.toDigits_ne_nil

theorem digitsVal_digits (t : List Char) (ht : ∀ c ∈ t, DecCh c) (acc : Nat) (pd : Bool)
    (h : t ≠ [] ∨ pd = true) : Py.digitsVal 10 t acc pd = some (Nat.ofDigitChars 10 t acc) := by
  induction t generalizing acc pd with
  | nil =>
    rcases h with h | h
    · exact absurd rfl h
    · simp [Py.digitsVal, h, Nat.ofDigitChars]
  | cons c r ih =>
    obtain ⟨_, _, _, hu, hd, _⟩ := ht c (by simp)
    unfold Py.digitsVal
    simp only [hu, Bool.false_eq_true, if_false, hd]
    rw [ih (fun x hx => ht x (by simp [hx])) _ true (Or.inr rfl), Nat.ofDigitChars_cons, Nat.mul_comm]

theorem dropWhile_none {α} (p : α → Bool) (l : List α) (h : ∀ x ∈ l, p x = false) : l.dropWhile p = l := by
  cases l with
  | nil => rfl
  | cons a t => simp [List.dropWhile_cons, h a (by simp)]

theorem stripWs_digits (t : List Char) (ht : ∀ c ∈ t, DecCh c) : Py.stripWs t = t := by
  unfold Py.stripWs
  rw [dropWhile_none _ t (fun x hx => (ht x hx).1),
    dropWhile_none _ t.reverse (fun x hx => (ht x (List.mem_reverse.mp hx)).1), List.reverse_reverse]

/-- `int(t)` for a non-empty string of ASCII decimal digits -/
theorem pyInt_digits (t : List Char) (ht : ∀ c ∈ t, DecCh c) (hne : t ≠ []) :
    Py.pyInt 10 t = some ((Nat.ofDigitChars 10 t 0 : Nat) : Int) := by
  unfold Py.pyInt
  have hany : t.any (fun c => decide (c.toNat > 127)) = false := by
    apply Bool.eq_false_iff.mpr
    intro h
    obtain ⟨c, hc, hgt⟩ := List.any_eq_true.mp h
    exact (ht c hc).2.2.2.2.2.1 (by simpa using hgt)
  simp only [hany, Bool.false_eq_true, if_false]
  rw [stripWs_digits t ht]
  split
  · exact absurd rfl hne
  · rename_i c r
    obtain ⟨_, hp, hm, _⟩ := ht c (by simp)
    have hpref : (if (10 : Nat) = 2 then ['b', 'B'] else if (10 : Nat) = 8 then ['o', 'O']
        else if (10 : Nat) = 16 then ['x', 'X'] else ([] : List Char)) = [] := by decide
    simp only [hpref, hp, hm, Bool.false_eq_true, if_false]
    have hdv := digitsVal_digits (c :: r) ht 0 false (Or.inl (by simp))
    split
    · rename_i heq
      exfalso
      split at heq
      · simp only [List.contains_nil, Bool.false_eq_true, if_false] at heq; cases heq
      · cases heq
    · split
      · rename_i v heq2
        split at heq2
        · simp only [List.contains_nil, Bool.false_eq_true, if_false] at heq2
          rw [hdv] at heq2; cases heq2; rfl
        · rw [hdv] at heq2; cases heq2; rfl
      · rename_i heq2
        exfalso
        split at heq2
        · simp only [List.contains_nil, Bool.false_eq_true, if_false] at heq2
          rw [hdv] at heq2; cases heq2
        · rw [hdv] at heq2; cases heq2

/-- `int('%d' % n) = n` -/
theorem pyInt_dec (n : Nat) : Py.pyInt 10 (dec n) = some (n : Int) := by
  rw [pyInt_digits (dec n) (dec_decCh n) (dec_ne_nil n)]
  show some ((Nat.ofDigitChars 10 (Nat.toDigits 10 n) 0 : Nat) : Int) = _
  rw [Nat.ofDigitChars_toDigits (by decide) (by decide)]

theorem slash_not_in_dec (n : Nat) : (dec n).contains '/' = false := by
  apply C01L.contains_false_of_not_mem
  intro h; exact (dec_decCh n _ h).2.2.2.2.2.2.1 rfl

theorem dot_not_in_dec (n : Nat) : '.' ∉ dec n := fun h => (dec_decCh n _ h).2.2.2.2.2.2.2.1 rfl
theorem colon_not_in_dec (n : Nat) : ':' ∉ dec n := fun h => (dec_decCh n _ h).2.2.2.2.2.2.2.2.1 rfl

end NV.C03L
