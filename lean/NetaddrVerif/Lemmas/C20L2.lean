import NetaddrVerif.Lemmas.C20L
/-! C20: the tiling invariant and its preservation by one successful extraction. -/
namespace NV.C20L
open NV NV.Splitter NV.C09L

/-- a network of the family `ver` -/
def NOk (ver : Nat) (n : Net) : Prop := n.ver = ver ∧ n.val < 2 ^ width ver ∧ n.plen ≤ width ver

/-- **the history invariant**: the free blocks `s` together with the blocks handed out or removed so
    far `g` are networks of the base's family, pairwise disjoint, and cover exactly the base -/
structure Tiling (b : Net) (s g : List Net) : Prop where
  ok : ∀ n ∈ s ++ g, NOk b.ver n
  disj : (s ++ g).Pairwise Dj
  cover : ∀ a, nmem b a ↔ Cov (s ++ g) a

/-- What property C05 proves of `cidrMerge` (Props/C05 `merge_wf`, `merge_den`), restricted to
    lists of networks of one family: the merged blocks are networks of that family and their
    union is the union of the inputs. -/
def MergeExact : Prop :=
  ∀ (ver : Nat) (subs : List Net), (∀ n ∈ subs, NOk ver n) →
    (∀ m ∈ cidrMerge (toItems subs), NOk ver m) ∧
    (∀ a, Cov (cidrMerge (toItems subs)) a ↔ Cov subs a)

theorem nok_wf {ver : Nat} {n : Net} (hv : ver = 4 ∨ ver = 6) (h : NOk ver n) : n.WF := by
  obtain ⟨h1, h2, h3⟩ := h
  subst h1
  exact ⟨hv, h2, h3⟩

theorem nmem_pfx (n : Net) (a : Nat) : nmem n a ↔ (Pfx.mk n.val n.plen).mem (width n.ver) a := Iff.rfl

theorem tiling_perm {b : Net} {s s' g : List Net} (hp : s'.Perm s) (h : Tiling b s g) : Tiling b s' g := by
  have hp' : (s' ++ g).Perm (s ++ g) := List.Perm.append_right g hp
  refine ⟨fun n hn => h.ok n (hp'.mem_iff.1 hn), pairwise_dj_perm hp'.symm h.disj, ?_⟩
  intro a; rw [h.cover a]; exact (cov_perm hp' a).symm

/-- the first `c` blocks of the /q grid inside `n`: networks of the family with prefix `q`, no host
    bits, inside `n`, pairwise disjoint -/
theorem subs_facts (n : Net) (hn : n.WF) (q : Nat) (hpq : n.plen ≤ q) (hq : q ≤ width n.ver)
    (c : Nat) (hc : c ≤ 2 ^ (q - n.plen)) :
    (∀ x ∈ (List.range c).map (C11.sub n q), NOk n.ver x ∧ x.plen = q ∧
        x.val % 2 ^ (width n.ver - q) = 0 ∧ ∀ a, nmem x a → nmem n a) ∧
    ((List.range c).map (C11.sub n q)).Pairwise Dj := by
  obtain ⟨h1, h2⟩ := C11.subnet_tiles n hn q hpq hq
  have hT := pw (width n.ver - q)
  constructor
  · intro x hx
    obtain ⟨i, hi, rfl⟩ := List.mem_map.1 hx
    have hi' : i < 2 ^ (q - n.plen) := by have := List.mem_range.1 hi; omega
    obtain ⟨hwf, hal, _, _⟩ := h1 i hi'
    refine ⟨⟨rfl, hwf.2.1, hwf.2.2⟩, rfl, hal, ?_⟩
    intro a ha
    exact (h2 a).1 ⟨i, hi', ha.1, ha.2⟩
  · rw [List.pairwise_map]
    apply List.Pairwise.imp_of_mem _ (List.pairwise_lt_range (n := c))
    intro i j hi hj hlt a ⟨ha1, ha2⟩
    have hi' : i < 2 ^ (q - n.plen) := by have := List.mem_range.1 hi; omega
    have hj' : j < 2 ^ (q - n.plen) := by have := List.mem_range.1 hj; omega
    obtain ⟨_, _, hfi, hli⟩ := h1 i hi'
    obtain ⟨_, _, hfj, _⟩ := h1 j hj'
    -- last_i + 1 = F + T(i+1) ≤ F + T j = first_j
    have hle : 2 ^ (width n.ver - q) * (i + 1) ≤ 2 ^ (width n.ver - q) * j := Nat.mul_le_mul_left _ hlt
    have hvi : (C11.sub n q (i + 1)).val = n.val / 2 ^ (width n.ver - n.plen) * 2 ^ (width n.ver - n.plen) +
        2 ^ (width n.ver - q) * (i + 1) := rfl
    have hvj : (C11.sub n q j).val = n.val / 2 ^ (width n.ver - n.plen) * 2 ^ (width n.ver - n.plen) +
        2 ^ (width n.ver - q) * j := rfl
    simp only [nmem] at ha1 ha2
    omega

/-- **one successful extraction preserves the tiling**: the chosen free block `cidr` is replaced
    by what is left of it after every merged block has been cut out, and the `c` extracted blocks
    join the handed-out list -/
theorem split_tiling (hM : MergeExact) (b : Net) (hb : b.WF) (s g : List Net) (ht : Tiling b s g)
    (cidr : Net) (hcs : cidr ∈ s) (q : Nat) (hpq : cidr.plen ≤ q) (hq : q ≤ width b.ver)
    (c : Nat) (hc : c ≤ 2 ^ (q - cidr.plen)) :
    Tiling b
      (unionSet (s.eraseP (keyEq cidr))
        ((subtractAll (width cidr.ver) ⟨cidr.val, cidr.plen⟩
            (cidrMerge (toItems ((List.range c).map (C11.sub cidr q))))).map
          (fun p => ⟨cidr.ver, p.val, p.plen⟩)))
      ((List.range c).map (C11.sub cidr q) ++ g) := by
  have hver := hb.1
  have hcok : NOk b.ver cidr := ht.ok cidr (List.mem_append_left g hcs)
  have hcv : cidr.ver = b.ver := hcok.1
  have hcwf : cidr.WF := nok_wf hver hcok
  rw [hcv]
  have hq' : q ≤ width cidr.ver := by rw [hcv]; exact hq
  -- the extracted blocks
  obtain ⟨hsub1, hsubPD⟩ := subs_facts cidr hcwf q hpq hq' c hc
  generalize hsubs : (List.range c).map (C11.sub cidr q) = subs at *
  have hsubok : ∀ x ∈ subs, NOk b.ver x := fun x hx => by rw [← hcv]; exact (hsub1 x hx).1
  -- the merged blocks
  obtain ⟨hmok, hmcov⟩ := hM b.ver subs hsubok
  generalize hmerged : cidrMerge (toItems subs) = merged at *
  -- the erased element
  obtain ⟨x, l1, l2, _, hkx, hs, hs1⟩ := List.exists_of_eraseP hcs (keyEq_refl cidr)
  rw [hs1]
  have hxc : ∀ a, nmem x a ↔ nmem cidr a := fun a => (nmem_of_keyEq hkx a).symm
  -- what is left of cidr
  have hfold := subtract_fold (width b.ver) merged [⟨cidr.val, cidr.plen⟩]
    (fun m hm => ⟨(hmok m hm).2.1, (hmok m hm).2.2⟩)
    (by simp [PD]) (by intro y hy; simp only [List.mem_singleton] at hy; subst hy; exact ⟨hcok.2.1, hcok.2.2⟩)
  simp only at hfold
  have hsa : subtractAll (width b.ver) ⟨cidr.val, cidr.plen⟩ merged =
      merged.foldl (fun rem m => rem.flatMap (fun b' => cidrExclude (width b.ver) b' ⟨m.val, m.plen⟩)) [⟨cidr.val, cidr.plen⟩] := rfl
  rw [← hsa] at hfold
  generalize subtractAll (width b.ver) ⟨cidr.val, cidr.plen⟩ merged = r at *
  obtain ⟨hrPD, hrWF, hrcov⟩ := hfold
  -- merged blocks as address sets
  have hmm : ∀ a, (∃ m ∈ merged, (Pfx.mk m.val m.plen).mem (width b.ver) a) ↔ Cov subs a := by
    intro a
    rw [← hmcov a]
    simp only [Cov]
    constructor
    · rintro ⟨m, hm, h⟩; refine ⟨m, hm, ?_⟩; rw [nmem_pfx, (hmok m hm).1]; exact h
    · rintro ⟨m, hm, h⟩; refine ⟨m, hm, ?_⟩; rw [nmem_pfx, (hmok m hm).1] at h; exact h
  have hcm : ∀ a, pcov (width b.ver) [⟨cidr.val, cidr.plen⟩] a ↔ nmem cidr a := by
    intro a; simp only [pcov, List.mem_singleton, exists_eq_left]; rw [nmem_pfx, hcv]
  -- the remaining blocks as networks
  generalize hrem : r.map (fun p => (⟨b.ver, p.val, p.plen⟩ : Net)) = rem
  have hremmem : ∀ y ∈ rem, ∃ p ∈ r, y = ⟨b.ver, p.val, p.plen⟩ := by
    intro y hy; rw [← hrem] at hy
    obtain ⟨p, hp, rfl⟩ := List.mem_map.1 hy
    exact ⟨p, hp, rfl⟩
  have hremok : ∀ y ∈ rem, NOk b.ver y := by
    intro y hy
    obtain ⟨p, hp, rfl⟩ := hremmem y hy
    exact ⟨rfl, (hrWF p hp).val_lt, (hrWF p hp).plen_le⟩
  have hremcov : ∀ a, Cov rem a ↔ nmem cidr a ∧ ¬ Cov subs a := by
    intro a
    rw [← hmm a, ← hcm a, ← hrcov a, ← hrem]
    simp only [Cov, pcov, List.mem_map]
    constructor
    · rintro ⟨y, ⟨p, hp, rfl⟩, h⟩; exact ⟨p, hp, h⟩
    · rintro ⟨p, hp, h⟩; exact ⟨_, ⟨p, hp, rfl⟩, h⟩
  have hremPD : rem.Pairwise Dj := by
    rw [← hrem, List.pairwise_map]
    apply List.Pairwise.imp _ hrPD
    intro p p' hd a ⟨h1, h2⟩
    exact hd a ⟨h1, h2⟩
  -- everything in rem and subs lies inside cidr (= x)
  have hrem_in : ∀ y ∈ rem, ∀ a, nmem y a → nmem x a := by
    intro y hy a ha
    exact (hxc a).2 ((hremcov a).1 ⟨y, hy, ha⟩).1
  have hsub_in : ∀ y ∈ subs, ∀ a, nmem y a → nmem x a := by
    intro y hy a ha
    exact (hxc a).2 ((hsub1 y hy).2.2.2 a ha)
  -- the old tiling, with x in front
  have hperm : (s ++ g).Perm (x :: ((l1 ++ l2) ++ g)) := by
    rw [hs]
    have : (l1 ++ x :: l2 ++ g) = l1 ++ x :: (l2 ++ g) := by simp
    rw [this]
    exact List.perm_middle.trans (by simp)
  have hdisj' := pairwise_dj_perm hperm ht.disj
  obtain ⟨hxd, hrestd⟩ := List.pairwise_cons.1 hdisj'
  -- the new pieces are pairwise disjoint among themselves
  have hnewPD : (rem ++ subs).Pairwise Dj := by
    rw [List.pairwise_append]
    refine ⟨hremPD, hsubPD, ?_⟩
    intro y hy z hz a ⟨h1, h2⟩
    exact ((hremcov a).1 ⟨y, hy, h1⟩).2 ⟨z, hz, h2⟩
  have hbig : ((rem ++ subs) ++ ((l1 ++ l2) ++ g)).Pairwise Dj := by
    rw [List.pairwise_append]
    refine ⟨hnewPD, hrestd, ?_⟩
    intro y hy z hz a ⟨h1, h2⟩
    have hyx : nmem x a := by
      rcases List.mem_append.1 hy with h | h
      · exact hrem_in y h a h1
      · exact hsub_in y h a h1
    exact hxd z hz a ⟨hyx, h2⟩
  have hsl := unionSet_sublist rem (l1 ++ l2)
  have hsub2 : (unionSet (l1 ++ l2) rem ++ (subs ++ g)).Sublist (((l1 ++ l2) ++ rem) ++ (subs ++ g)) :=
    List.Sublist.append_right hsl _
  have hperm2 : (((l1 ++ l2) ++ rem) ++ (subs ++ g)).Perm ((rem ++ subs) ++ ((l1 ++ l2) ++ g)) := by
    have e1 : ((l1 ++ l2) ++ rem) ++ (subs ++ g) = (l1 ++ l2) ++ ((rem ++ subs) ++ g) := by simp
    have e2 : (rem ++ subs) ++ ((l1 ++ l2) ++ g) = ((rem ++ subs) ++ (l1 ++ l2)) ++ g := by simp
    rw [e1, e2, ← List.append_assoc]
    exact List.Perm.append_right g List.perm_append_comm
  refine ⟨?_, ?_, ?_⟩
  · intro n hn
    have hn' := hperm2.mem_iff.1 (List.Sublist.mem hn hsub2)
    rcases List.mem_append.1 hn' with h | h
    · rcases List.mem_append.1 h with h | h
      · exact hremok n h
      · exact hsubok n h
    · exact ht.ok n (hperm.mem_iff.2 (List.mem_cons_of_mem _ h))
  · exact List.Pairwise.sublist hsub2 (pairwise_dj_perm hperm2.symm hbig)
  · intro a
    have hL : Cov (x :: ((l1 ++ l2) ++ g)) a ↔ nmem cidr a ∨ Cov (l1 ++ l2) a ∨ Cov g a := by
      rw [cov_cons, cov_append, hxc a]
    have hR : Cov (unionSet (l1 ++ l2) rem ++ (subs ++ g)) a ↔
        (Cov (l1 ++ l2) a ∨ (nmem cidr a ∧ ¬ Cov subs a)) ∨ Cov subs a ∨ Cov g a := by
      rw [cov_append, unionSet_cov, hremcov a, cov_append subs g]
    have hsc : Cov subs a → nmem cidr a := by
      rintro ⟨y, hy, hya⟩; exact (hxc a).1 (hsub_in y hy a hya)
    rw [ht.cover a, cov_perm hperm a, hL, hR]
    constructor
    · rintro (h | h | h)
      · by_cases hsb : Cov subs a
        · exact Or.inr (Or.inl hsb)
        · exact Or.inl (Or.inr ⟨h, hsb⟩)
      · exact Or.inl (Or.inl h)
      · exact Or.inr (Or.inr h)
    · rintro ((h | h) | h | h)
      · exact Or.inr (Or.inl h)
      · exact Or.inl h.1
      · exact Or.inl (hsc h)
      · exact Or.inr (Or.inr h)

/-- what `subnet` can answer, by cases on the target prefix and the count -/
theorem subnet_cases (n : Net) (hn : n.WF) (q : Int) (count : Option Int) :
    (q < n.plen ∧ Subnet.subnet n q count = .ok []) ∨
    ((n.plen : Int) ≤ q ∧ q ≤ (width n.ver : Nat) ∧ Subnet.subnet n q count = .error .value) ∨
    ((n.plen : Int) ≤ q ∧ q ≤ (width n.ver : Nat) ∧ ∃ c, 1 ≤ c ∧ c ≤ 2 ^ (q.toNat - n.plen) ∧
        Subnet.subnet n q count = .ok ((List.range c).map (C11.sub n q.toNat))) ∨
    ((width n.ver : Nat) < q ∧ ∃ e, Subnet.subnet n q count = .error e) := by
  have hp := hn.2.2
  by_cases h1 : q < n.plen
  · exact Or.inl ⟨h1, C11.subnet_shorter n hn q count h1⟩
  · by_cases h2 : q ≤ (width n.ver : Nat)
    · have hqe : q = ((q.toNat : Nat) : Int) := by omega
      have hpq : n.plen ≤ q.toNat := by omega
      have hqw : q.toNat ≤ width n.ver := by omega
      obtain ⟨s1, s2, s3⟩ := C11.subnet_spec n hn q.toNat hpq hqw
      rw [← hqe] at s1 s2 s3
      have hM := pw (q.toNat - n.plen)
      cases count with
      | none => exact Or.inr (Or.inr (Or.inl ⟨by omega, h2, _, hM, Nat.le_refl _, s1⟩))
      | some c =>
        by_cases hc : 1 ≤ c ∧ c ≤ ((2 ^ (q.toNat - n.plen) : Nat) : Int)
        · refine Or.inr (Or.inr (Or.inl ⟨by omega, h2, c.toNat, by omega, ?_, s2 c hc.1 hc.2⟩))
          have : (c.toNat : Int) ≤ ((2 ^ (q.toNat - n.plen) : Nat) : Int) := by omega
          exact_mod_cast this
        · exact Or.inr (Or.inl ⟨by omega, h2, s3 c hc⟩)
    · refine Or.inr (Or.inr (Or.inr ⟨by omega, ?_⟩))
      unfold Subnet.subnet
      rw [Subnet.subnetCount_eq n hp, if_neg h1]
      by_cases hc : 1 ≤ count.getD ((Subnet.maxSubnets (width n.ver) n.plen q.toNat : Nat) : Int) ∧
          count.getD ((Subnet.maxSubnets (width n.ver) n.plen q.toNat : Nat) : Int) ≤
            ((Subnet.maxSubnets (width n.ver) n.plen q.toNat : Nat) : Int)
      · rw [if_pos hc]
        show ∃ e, Subnet.subnetLoop n q.toNat _ 0 [] = .error e
        unfold Subnet.subnetLoop
        have hpos : 0 < (count.getD ((Subnet.maxSubnets (width n.ver) n.plen q.toNat : Nat) : Int)).toNat := by omega
        rw [dif_pos hpos]
        have : Subnet.subnetItem n q.toNat 0 = .error .addrFormat := by
          unfold Subnet.subnetItem
          rw [if_pos (by omega)]
        rw [this]
        exact ⟨_, rfl⟩
      · rw [if_neg hc]
        exact ⟨_, rfl⟩

theorem map_range_ne_nil {α : Type} (f : Nat → α) (c : Nat) (hc : 1 ≤ c) :
    ((List.range c).map f).isEmpty = false := by
  cases c with
  | zero => omega
  | succ k => simp [List.range_succ]

/-- **extract_subnet**, by induction over the free blocks it looks at -/
theorem extractLoop_spec (hM : MergeExact) (b : Net) (hb : b.WF) (s g : List Net) (ht : Tiling b s g)
    (pfx : Int) (count : Option Int) :
    ∀ (l : List Net), (∀ c ∈ l, c ∈ s) →
      (∀ subs s', extractLoop s pfx count l = .ok (subs, s') →
          Tiling b s' (subs ++ g) ∧
          (∀ x ∈ subs, (x.plen : Int) = pfx ∧ x.val % 2 ^ (width b.ver - x.plen) = 0) ∧
          (subs = [] → s' = s)) ∧
      (∀ e, extractLoop s pfx count l = .error e → pfx ≤ (width b.ver : Nat) → e = .value) := by
  intro l
  induction l with
  | nil =>
    intro _
    constructor
    · intro subs s' h
      simp only [extractLoop, Except.ok.injEq, Prod.mk.injEq] at h
      obtain ⟨rfl, rfl⟩ := h
      exact ⟨by simpa using ht, by simp, fun _ => rfl⟩
    · intro e h; simp [extractLoop] at h
  | cons cidr rest ih =>
    intro hl
    have hcs : cidr ∈ s := hl cidr (by simp)
    have hcok : NOk b.ver cidr := ht.ok cidr (List.mem_append_left g hcs)
    have hcv : cidr.ver = b.ver := hcok.1
    have hcwf : cidr.WF := nok_wf hb.1 hcok
    have ih' := ih (fun c hc => hl c (List.mem_cons_of_mem _ hc))
    rcases subnet_cases cidr hcwf pfx count with ⟨_, hsub⟩ | ⟨_, _, hsub⟩ | ⟨hpq, hqw, c, hc1, hc2, hsub⟩ | ⟨hgt, e', hsub⟩
    · simp only [extractLoop, hsub, List.isEmpty_nil, ite_true]
      exact ih'
    · simp only [extractLoop, hsub]
      constructor
      · intro subs s' h; simp at h
      · intro e h _; simpa using h.symm
    · have hne := map_range_ne_nil (C11.sub cidr pfx.toNat) c hc1
      have hany : s.any (keyEq cidr) = true := List.any_eq_true.2 ⟨cidr, hcs, keyEq_refl cidr⟩
      simp only [extractLoop, hsub, hne, removeSubnet, hany, ite_true]
      constructor
      · intro subs s' h
        simp only [Bool.false_eq_true, ite_false, Except.ok.injEq, Prod.mk.injEq] at h
        obtain ⟨rfl, rfl⟩ := h
        have hpq' : cidr.plen ≤ pfx.toNat := by omega
        have hqw' : pfx.toNat ≤ width b.ver := by rw [← hcv]; omega
        refine ⟨split_tiling hM b hb s g ht cidr hcs pfx.toNat hpq' hqw' c hc2, ?_, ?_⟩
        · intro x hx
          have hf := (subs_facts cidr hcwf pfx.toNat hpq' (by rw [hcv]; exact hqw') c hc2).1 x hx
          obtain ⟨_, hpl, hal, _⟩ := hf
          rw [hcv] at hal
          rw [hpl]
          exact ⟨by omega, hal⟩
        · intro h; rw [h] at hne; simp at hne
      · intro e h; simp at h
    · simp only [extractLoop, hsub]
      constructor
      · intro subs s' h; simp at h
      · intro e _ hle; rw [hcv] at hgt; omega

end NV.C20L
