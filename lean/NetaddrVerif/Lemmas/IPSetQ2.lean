/-
Lemmas/IPSetQ2.lean — `_iter_merged_ranges` on a sorted list of pairwise separated
`(version, first, last)` tuples: the output is the interval normal form of the input
(valid, ascending, a gap between ranges of one family), denotes the same addresses, and
keeps the number of addresses (C07 iter_ipranges / size).
-/
import NetaddrVerif.Model.IPSet
namespace NV.IPSet
open NV

/-- the addresses of family `ver` a list of `(version, first, last)` tuples covers -/
def denVR (l : List VR) (ver a : Nat) : Prop := ∃ r ∈ l, r.1 = ver ∧ r.2.1 ≤ a ∧ a ≤ r.2.2

/-- ascending, possibly adjacent: lower family first, inside a family strictly to the right -/
def SepR (x y : VR) : Prop := x.1 < y.1 ∨ (x.1 = y.1 ∧ x.2.2 < y.2.1)

/-- ascending with a gap: lower family first, inside a family at least one address between -/
def GapR_q (x y : VR) : Prop := x.1 < y.1 ∨ (x.1 = y.1 ∧ x.2.2 + 1 < y.2.1)

/-- number of addresses of a tuple list -/
def vrSum : List VR → Nat
  | [] => 0
  | r :: l => (r.2.2 - r.2.1 + 1) + vrSum l

theorem mergedRangesAux_nil_q (cur : VR) : mergedRangesAux cur [] = [cur] := by
  obtain ⟨cv, cs, ce⟩ := cur; rfl

theorem mergedRangesAux_cons_q (cv cs ce nv ns ne : Nat) (rest : List VR) :
    mergedRangesAux (cv, cs, ce) ((nv, ns, ne) :: rest) =
      if ns = ce + 1 ∧ nv = cv then mergedRangesAux (cv, cs, ne) rest
      else (cv, cs, ce) :: mergedRangesAux (nv, ns, ne) rest := by
  rw [mergedRangesAux]
  by_cases h : ns = ce + 1 ∧ nv = cv
  · simp [h]
  · rw [if_neg h]
    have : (ns == ce + 1 && nv == cv) = false := by
      cases h1 : (ns == ce + 1 && nv == cv)
      · rfl
      · simp only [Bool.and_eq_true, beq_iff_eq] at h1; exact absurd h1 h
    rw [this]; simp

theorem mergedRangesAux_ne_nil (cur : VR) (rest : List VR) : mergedRangesAux cur rest ≠ [] := by
  induction rest generalizing cur with
  | nil => rw [mergedRangesAux_nil_q]; simp
  | cons n rest ih =>
    obtain ⟨cv, cs, ce⟩ := cur; obtain ⟨nv, ns, ne⟩ := n
    rw [mergedRangesAux_cons_q]
    split
    · exact ih _
    · simp

/-- every emitted range starts where an input range starts (same family) and the first one
    starts where `cur` starts -/
theorem mergedRangesAux_starts (cur : VR) (rest : List VR) :
    (∃ e t, mergedRangesAux cur rest = (cur.1, cur.2.1, e) :: t ∧
      ∀ y ∈ t, ∃ x ∈ rest, y.1 = x.1 ∧ y.2.1 = x.2.1) := by
  induction rest generalizing cur with
  | nil => exact ⟨cur.2.2, [], by rw [mergedRangesAux_nil_q], by simp⟩
  | cons n rest ih =>
    obtain ⟨cv, cs, ce⟩ := cur; obtain ⟨nv, ns, ne⟩ := n
    rw [mergedRangesAux_cons_q]
    split
    · obtain ⟨e, t, h1, h2⟩ := ih (cv, cs, ne)
      refine ⟨e, t, h1, fun y hy => ?_⟩
      obtain ⟨x, hx, h⟩ := h2 y hy
      exact ⟨x, List.mem_cons_of_mem _ hx, h⟩
    · obtain ⟨e, t, h1, h2⟩ := ih (nv, ns, ne)
      refine ⟨ce, _, rfl, fun y hy => ?_⟩
      rw [h1] at hy
      rcases List.mem_cons.1 hy with e1 | e1
      · exact ⟨(nv, ns, ne), List.mem_cons_self .., by rw [e1], by rw [e1]⟩
      · obtain ⟨x, hx, h⟩ := h2 y e1
        exact ⟨x, List.mem_cons_of_mem _ hx, h⟩

/-- the merge loop: from a valid, ascending, pairwise separated input to the normal form -/
theorem mergedRangesAux_spec_q (cur : VR) (rest : List VR)
    (hv : ∀ r ∈ cur :: rest, r.2.1 ≤ r.2.2) (hs : (cur :: rest).Pairwise SepR) :
    (∀ r ∈ mergedRangesAux cur rest, r.2.1 ≤ r.2.2) ∧
    (mergedRangesAux cur rest).Pairwise GapR_q ∧
    (∀ ver a, denVR (mergedRangesAux cur rest) ver a ↔ denVR (cur :: rest) ver a) ∧
    vrSum (mergedRangesAux cur rest) = vrSum (cur :: rest) := by
  induction rest generalizing cur with
  | nil =>
    rw [mergedRangesAux_nil_q]
    exact ⟨hv, List.pairwise_singleton _ _, fun _ _ => Iff.rfl, rfl⟩
  | cons n rest ih =>
    obtain ⟨cv, cs, ce⟩ := cur; obtain ⟨nv, ns, ne⟩ := n
    have hcv : cs ≤ ce := hv (cv, cs, ce) (List.mem_cons_self ..)
    have hnv : ns ≤ ne := hv (nv, ns, ne) (List.mem_cons_of_mem _ (List.mem_cons_self ..))
    have hs1 := List.pairwise_cons.1 hs
    have hs2 := List.pairwise_cons.1 hs1.2
    have hcn : SepR (cv, cs, ce) (nv, ns, ne) := hs1.1 _ (List.mem_cons_self ..)
    rw [mergedRangesAux_cons_q]
    by_cases hm : ns = ce + 1 ∧ nv = cv
    · rw [if_pos hm]
      obtain ⟨hm1, hm2⟩ := hm
      subst hm1; subst hm2
      have hv' : ∀ r ∈ (nv, cs, ne) :: rest, r.2.1 ≤ r.2.2 := by
        intro r hr
        rcases List.mem_cons.1 hr with e | e
        · subst e; show cs ≤ ne; omega
        · exact hv r (List.mem_cons_of_mem _ (List.mem_cons_of_mem _ e))
      have hs' : ((nv, cs, ne) :: rest).Pairwise SepR := by
        refine List.pairwise_cons.2 ⟨fun y hy => ?_, hs2.2⟩
        exact hs2.1 y hy
      obtain ⟨i1, i2, i3, i4⟩ := ih (nv, cs, ne) hv' hs'
      refine ⟨i1, i2, fun ver a => ?_, ?_⟩
      · rw [i3]
        unfold denVR
        simp only [List.mem_cons, exists_eq_or_imp]
        constructor
        · rintro (⟨h1, h2, h3⟩ | h)
          · by_cases h4 : a ≤ ce
            · exact Or.inl ⟨h1, h2, h4⟩
            · exact Or.inr (Or.inl ⟨h1, by show ce + 1 ≤ a; omega, h3⟩)
          · exact Or.inr (Or.inr h)
        · rintro (⟨h1, h2, h3⟩ | ⟨h1, h2, h3⟩ | h)
          · exact Or.inl ⟨h1, h2, by show a ≤ ne; omega⟩
          · exact Or.inl ⟨h1, by show cs ≤ a; omega, h3⟩
          · exact Or.inr h
      · rw [i4]; simp only [vrSum]; omega
    · rw [if_neg hm]
      have hv' : ∀ r ∈ (nv, ns, ne) :: rest, r.2.1 ≤ r.2.2 := fun r hr => hv r (List.mem_cons_of_mem _ hr)
      obtain ⟨i1, i2, i3, i4⟩ := ih (nv, ns, ne) hv' hs1.2
      refine ⟨?_, ?_, fun ver a => ?_, ?_⟩
      · intro r hr
        rcases List.mem_cons.1 hr with e | e
        · subst e; exact hcv
        · exact i1 r e
      · refine List.pairwise_cons.2 ⟨fun y hy => ?_, i2⟩
        -- y starts where some input range right of `cur` starts
        obtain ⟨e, t, h1, h2⟩ := mergedRangesAux_starts (nv, ns, ne) rest
        rw [h1] at hy
        have gapn : GapR_q (cv, cs, ce) (nv, ns, ne) := by
          rcases hcn with h | ⟨h, h'⟩
          · exact Or.inl h
          · refine Or.inr ⟨h, ?_⟩
            simp only at h h' ⊢
            have : ns ≠ ce + 1 := fun e => hm ⟨e, h.symm⟩
            omega
        rcases List.mem_cons.1 hy with e1 | e1
        · subst e1
          rcases gapn with h | h
          · exact Or.inl h
          · exact Or.inr h
        · obtain ⟨x, hx, hx1, hx2⟩ := h2 y e1
          have hcx : SepR (cv, cs, ce) x := hs1.1 x (List.mem_cons_of_mem _ hx)
          have hnx : SepR (nv, ns, ne) x := hs2.1 x hx
          unfold GapR_q SepR at *
          simp only at hcx hnx gapn ⊢
          rw [hx1, hx2]
          omega
      · unfold denVR at i3 ⊢
        simp only [List.mem_cons, exists_eq_or_imp] at i3 ⊢
        rw [i3]
      · simp only [vrSum] at i4 ⊢; rw [i4]

/-- `_iter_merged_ranges` on a valid, ascending, pairwise separated input -/
theorem mergedRanges_normal (l : List VR) (hv : ∀ r ∈ l, r.2.1 ≤ r.2.2) (hs : l.Pairwise SepR) :
    (∀ r ∈ mergedRanges l, r.2.1 ≤ r.2.2) ∧ (mergedRanges l).Pairwise GapR_q ∧
    (∀ ver a, denVR (mergedRanges l) ver a ↔ denVR l ver a) ∧ vrSum (mergedRanges l) = vrSum l := by
  cases l with
  | nil => exact ⟨by simp [mergedRanges], by simp [mergedRanges], fun _ _ => Iff.rfl, rfl⟩
  | cons r rest => exact mergedRangesAux_spec_q r rest hv hs

/-- in a normal form the address right after a range is not covered -/
theorem gap_not_den (l : List VR) (hv : ∀ r ∈ l, r.2.1 ≤ r.2.2) (hg : l.Pairwise GapR_q)
    (r : VR) (hr : r ∈ l) : ¬ denVR l r.1 (r.2.2 + 1) := by
  rintro ⟨x, hx, h1, h2, h3⟩
  by_cases e : x = r
  · subst e; omega
  · have hvx := hv x hx
    have hvr := hv r hr
    -- one of the two precedes the other in the list
    have key : GapR_q x r ∨ GapR_q r x := by
      clear hv h2 h3 hvx hvr h1
      induction l with
      | nil => simp at hx
      | cons y l ih =>
        have hp := List.pairwise_cons.1 hg
        rcases List.mem_cons.1 hx with ex | ex <;> rcases List.mem_cons.1 hr with er | er
        · exact absurd (ex.trans er.symm) e
        · subst ex; exact Or.inl (hp.1 r er)
        · subst er; exact Or.inr (hp.1 x ex)
        · exact ih hp.2 er ex
    unfold GapR_q at key
    omega

end NV.IPSet
