/-
Lemmas/IPSetL7.lean — both families on one number line; what iter_cidrs() shows is a
canonical list, unique and length-minimal for its denotation (C06).
-/
import NetaddrVerif.Lemmas.IPSetL6
import NetaddrVerif.Lemmas.TupleOrder
import NetaddrVerif.Lemmas.Minimal
namespace NV.IPSet
open NV NV.Blk

/-- offset that places the IPv6 space after the IPv4 space on one number line
    (a multiple of every block size, beyond every IPv4 address) -/
def off (ver : Nat) : Nat := if ver = 6 then 2 ^ 129 else 0

/-- a network as a block on the common number line -/
def lin (n : Net) : Blk := ⟨off n.ver + n.first, width n.ver - n.plen⟩

theorem off_mod (ver k : Nat) (hk : k ≤ 129) : off ver % 2 ^ k = 0 := by
  unfold off
  split
  · have : (2:Nat) ^ 129 = 2 ^ k * 2 ^ (129 - k) := by rw [← Nat.pow_add]; congr 1; omega
    rw [this]; exact Nat.mul_mod_right _ _
  · simp

theorem width_le (n : Net) (h : n.WF) : width n.ver ≤ 128 := by
  rcases h.1 with e | e <;> simp [width, e]

theorem lin_aligned (n : Net) (h : n.WF) : (lin n).aligned := by
  unfold Blk.aligned lin
  simp only
  have h1 := off_mod n.ver (width n.ver - n.plen) (by have := width_le n h; omega)
  have h2 : n.first % 2 ^ (width n.ver - n.plen) = 0 := blk_aligned n h
  rw [Nat.add_mod, h1, h2]; simp

theorem lin_mem (n : Net) (h : n.WF) (x : Nat) :
    (lin n).mem x ↔ off n.ver + n.first ≤ x ∧ x ≤ off n.ver + n.last := by
  unfold Blk.mem lin
  simp only
  rw [last_eq n h]
  have := pw (width n.ver - n.plen)
  omega

theorem first_lt_128 (n : Net) (h : n.WF) : n.last < 2 ^ 128 := by
  have h1 := last_lt n h
  have : 2 ^ width n.ver ≤ 2 ^ 128 := Nat.pow_le_pow_right (by decide) (width_le n h)
  omega

theorem p129 : (2:Nat) ^ 129 = 2 * 2 ^ 128 := by rw [Nat.pow_succ, Nat.mul_comm]

/-- on in-range networks `lin` separates families and keeps blocks -/
theorem lin_eq_iff (a b : Net) (ha : a.WF) (hb : b.WF) : lin a = lin b ↔ a.ver = b.ver ∧ blk a = blk b := by
  unfold lin blk
  simp only [Blk.mk.injEq]
  have h1 := first_lt_128 a ha; have h2 := first_lt_128 b hb
  have h3 := first_le_last a ha; have h4 := first_le_last b hb
  have hp := p129
  constructor
  · rintro ⟨e1, e2⟩
    have hv : a.ver = b.ver := by
      unfold off at e1
      rcases ha.1 with x | x <;> rcases hb.1 with y | y <;> simp [x, y] at e1 ⊢ <;> omega
    refine ⟨hv, ?_, e2⟩
    rw [hv] at e1; omega
  · rintro ⟨hv, e1, e2⟩
    exact ⟨by rw [hv, e1], e2⟩

/-- blocks of different families are far apart on the line -/
theorem lin_cross (a b : Net) (ha : a.WF) (hb : b.WF) (hv : a.ver ≠ b.ver) :
    (lin a).disj (lin b) ∧ ¬ (lin a).sib (lin b) := by
  have h1 := first_lt_128 a ha; have h2 := first_lt_128 b hb
  have h3 := first_le_last a ha; have h4 := first_le_last b hb
  have hp := p129
  have hk : 2 ^ (lin a).k ≤ 2 ^ 128 := Nat.pow_le_pow_right (by decide) (by show width a.ver - a.plen ≤ 128; have := width_le a ha; omega)
  constructor
  · intro x ⟨hx1, hx2⟩
    rw [lin_mem a ha] at hx1; rw [lin_mem b hb] at hx2
    unfold off at hx1 hx2
    rcases ha.1 with x' | x' <;> rcases hb.1 with y | y <;> simp [x', y] at hx1 hx2 hv <;> omega
  · rintro ⟨_, _, h⟩
    have hb1 : (lin b).base = off b.ver + b.first := rfl
    have ha1 : (lin a).base = off a.ver + a.first := rfl
    rw [hb1, ha1] at h
    unfold off at h
    rcases ha.1 with x' | x' <;> rcases hb.1 with y | y <;> simp [x', y] at h hv <;> omega

/-- the whole state, both families, is one canonical block set on the line -/
theorem canonset_lin (s : St) (hs : Inv s) : CanonSet (s.map lin) := by
  have key : ∀ a ∈ s, ∀ b ∈ s, a.ver = b.ver → blk a ∈ fam a.ver s ∧ blk b ∈ fam a.ver s :=
    fun a ha b hb hv => ⟨mem_fam.2 ⟨a, ha, rfl, rfl⟩, mem_fam.2 ⟨b, hb, hv.symm, rfl⟩⟩
  -- relation between lin and blk inside one family
  have same : ∀ a ∈ s, ∀ b ∈ s, a.ver = b.ver →
      ((lin a).disj (lin b) ↔ (blk a).disj (blk b)) ∧ ((lin a).sib (lin b) ↔ (blk a).sib (blk b)) := by
    intro a ha b hb hv
    have haw := (hs.good a ha).1; have hbw := (hs.good b hb).1
    constructor
    · constructor
      · intro h x ⟨h1, h2⟩
        apply h (off a.ver + x)
        rw [lin_mem a haw, lin_mem b hbw, ← hv]
        rw [blk_mem a haw] at h1; rw [blk_mem b hbw] at h2
        omega
      · intro h x ⟨h1, h2⟩
        rw [lin_mem a haw] at h1; rw [lin_mem b hbw, ← hv] at h2
        apply h (x - off a.ver)
        rw [blk_mem a haw, blk_mem b hbw]
        omega
    · unfold Blk.sib lin blk
      simp only
      have h1 := off_mod a.ver (width a.ver - a.plen + 1) (by
        have := width_le a haw
        -- a sibling needs k + 1 ≤ width ≤ 128 only when plen ≥ 1; otherwise bound by 129
        omega)
      rw [← hv]
      constructor
      · rintro ⟨e1, e2, e3⟩
        refine ⟨e1, ?_, by omega⟩
        rw [Nat.add_mod, h1] at e2; simpa using e2
      · rintro ⟨e1, e2, e3⟩
        refine ⟨e1, ?_, by omega⟩
        rw [Nat.add_mod, h1, e2]; simp
  refine ⟨?_, ?_, ?_⟩
  · intro b hb
    obtain ⟨n, hn, rfl⟩ := List.mem_map.1 hb
    exact lin_aligned n (hs.good n hn).1
  · intro b hb c hc hne
    obtain ⟨n, hn, rfl⟩ := List.mem_map.1 hb
    obtain ⟨m, hm, rfl⟩ := List.mem_map.1 hc
    by_cases hv : n.ver = m.ver
    · rw [(same n hn m hm hv).1]
      obtain ⟨k1, k2⟩ := key n hn m hm hv
      apply (hs.cs n.ver).dj _ k1 _ k2
      intro e
      exact hne ((lin_eq_iff n m (hs.good n hn).1 (hs.good m hm).1).2 ⟨hv, e⟩)
    · exact (lin_cross n m (hs.good n hn).1 (hs.good m hm).1 hv).1
  · intro b hb c hc
    obtain ⟨n, hn, rfl⟩ := List.mem_map.1 hb
    obtain ⟨m, hm, rfl⟩ := List.mem_map.1 hc
    by_cases hv : n.ver = m.ver
    · rw [(same n hn m hm hv).2]
      obtain ⟨k1, k2⟩ := key n hn m hm hv
      exact (hs.cs n.ver).ns _ k1 _ k2
    · exact (lin_cross n m (hs.good n hn).1 (hs.good m hm).1 hv).2

/-- line denotation in terms of the per-family denotation -/
theorem den_lin (s : St) (hg : ∀ n ∈ s, n.WF) (x : Nat) :
    den (s.map lin) x ↔ ∃ ver a, x = off ver + a ∧ denS s ver a := by
  unfold den denS
  constructor
  · rintro ⟨b, hb, hx⟩
    obtain ⟨n, hn, rfl⟩ := List.mem_map.1 hb
    rw [lin_mem n (hg n hn)] at hx
    exact ⟨n.ver, x - off n.ver, by omega, n, hn, rfl, by omega, by omega⟩
  · rintro ⟨ver, a, rfl, n, hn, hv, h1, h2⟩
    refine ⟨lin n, List.mem_map.2 ⟨n, hn, rfl⟩, ?_⟩
    rw [lin_mem n (hg n hn), hv]; omega

/-- states with the same per-family denotation have the same line denotation -/
theorem den_lin_congr (s t : St) (hs : ∀ n ∈ s, n.WF) (ht : ∀ n ∈ t, n.WF)
    (h : ∀ ver a, denS s ver a ↔ denS t ver a) (x : Nat) : den (s.map lin) x ↔ den (t.map lin) x := by
  rw [den_lin s hs, den_lin t ht]
  constructor
  · rintro ⟨ver, a, e, hd⟩; exact ⟨ver, a, e, (h ver a).1 hd⟩
  · rintro ⟨ver, a, e, hd⟩; exact ⟨ver, a, e, (h ver a).2 hd⟩

theorem sortNets_perm (s : St) : (sortNets s).Perm s := List.mergeSort_perm _ _

theorem sortNets_pairwise (s : St) :
    (sortNets s).Pairwise (fun a b => tupleLe a.sortKey b.sortKey = true) := by
  unfold sortNets
  apply List.pairwise_mergeSort
  · intro a b c h1 h2; exact tupleLe_trans _ _ _ h1 h2
  · intro a b; exact tupleLe_total _ _

/-- for two different stored keys, sort-key order is order on the line -/
theorem lin_lt_of_le (s : St) (hs : Inv s) (a b : Net) (ha : a ∈ s) (hb : b ∈ s) (hne : a ≠ b)
    (hle : tupleLe a.sortKey b.sortKey = true) : (lin a).base < (lin b).base := by
  have haw := (hs.good a ha).1; have hbw := (hs.good b hb).1
  have h1 := first_lt_128 a haw; have h2 := first_lt_128 b hbw
  have h3 := first_le_last a haw; have h4 := first_le_last b hbw
  have hp := p129
  show off a.ver + a.first < off b.ver + b.first
  unfold tupleLe Net.sortKey at hle
  simp only [tupleCmp] at hle
  by_cases hv : a.ver = b.ver
  · -- same family: firsts differ (else the blocks share a point and the keys are equal)
    have hfne : a.first ≠ b.first := by
      intro e
      have k1 : blk a ∈ fam a.ver s := mem_fam.2 ⟨a, ha, rfl, rfl⟩
      have k2 : blk b ∈ fam a.ver s := mem_fam.2 ⟨b, hb, hv.symm, rfl⟩
      have hbne := blk_ne a b (hs.good a ha) (hs.good b hb) hv hne
      exact (hs.cs a.ver).dj _ k1 _ k2 hbne a.first
        ⟨(blk_mem a haw _).2 ⟨Nat.le_refl _, h3⟩, (blk_mem b hbw _).2 ⟨by omega, by omega⟩⟩
    rw [hv]
    have e1 : ¬ ((a.ver : Int) < b.ver) := by rw [hv]; omega
    have e2 : ¬ ((a.ver : Int) > b.ver) := by rw [hv]; omega
    simp only [e1, e2, if_false] at hle
    by_cases hf : (a.first : Int) < b.first
    · omega
    · have hf2 : (a.first : Int) > b.first := by omega
      simp [hf, hf2] at hle
  · rcases haw.1 with x | x <;> rcases hbw.1 with y | y
    · exact absurd (x.trans y.symm) hv
    · unfold off; simp [x, y]; omega
    · rw [x, y] at hle; simp at hle
    · exact absurd (x.trans y.symm) hv

/-- What `iter_cidrs()` shows, both families on one line, is a canonical block list:
    ascending (IPv4 before IPv6), aligned, pairwise disjoint, no two combinable. -/
theorem canon_shown (s : St) (hs : Inv s) : Canon ((iterCidrs s).map lin) := by
  have hperm := sortNets_perm s
  have hmem : ∀ n, n ∈ iterCidrs s ↔ n ∈ s := fun n => hperm.mem_iff
  have hcs := canonset_lin s hs
  have hsub : ∀ b ∈ (iterCidrs s).map lin, b ∈ s.map lin := by
    intro b hb
    obtain ⟨n, hn, rfl⟩ := List.mem_map.1 hb
    exact List.mem_map.2 ⟨n, (hmem n).1 hn, rfl⟩
  refine ⟨fun b hb => hcs.al b (hsub b hb), ?_,
    fun b hb c hc => hcs.dj b (hsub b hb) c (hsub c hc), fun b hb c hc => hcs.ns b (hsub b hb) c (hsub c hc)⟩
  rw [List.pairwise_map]
  have hnd : (sortNets s).Nodup := hperm.nodup_iff.2 hs.nodup
  have := (sortNets_pairwise s).and hnd
  refine List.Pairwise.imp_of_mem ?_ this
  intro a b ha hb ⟨hle, hne⟩
  exact lin_lt_of_le s hs a b ((hmem a).1 ha) ((hmem b).1 hb) hne hle

theorem map_lin_inj : ∀ (l₁ l₂ : List Net), (∀ n ∈ l₁, Good n) → (∀ n ∈ l₂, Good n) →
    l₁.map lin = l₂.map lin → l₁ = l₂
  | [], [], _, _, _ => rfl
  | [], _ :: _, _, _, h => by simp at h
  | _ :: _, [], _, _, h => by simp at h
  | a :: as, b :: bs, h1, h2, h => by
    simp only [List.map_cons, List.cons.injEq] at h
    have ha := h1 a (List.mem_cons_self ..); have hb := h2 b (List.mem_cons_self ..)
    have hab := (lin_eq_iff a b ha.1 hb.1).1 h.1
    have : a = b := (keyEq_good a b ha hb).1 ((keyEq_iff a b ha.1 hb.1).2 hab)
    rw [this, map_lin_inj as bs (fun n hn => h1 n (List.mem_cons_of_mem _ hn))
      (fun n hn => h2 n (List.mem_cons_of_mem _ hn)) h.2]

/-- The shown list is determined by the denoted addresses alone. -/
theorem shown_unique (s t : St) (hs : Inv s) (ht : Inv t) (h : ∀ ver a, denS s ver a ↔ denS t ver a) :
    iterCidrs s = iterCidrs t := by
  have hgs : ∀ n ∈ iterCidrs s, Good n := fun n hn => hs.good n ((sortNets_perm s).mem_iff.1 hn)
  have hgt : ∀ n ∈ iterCidrs t, Good n := fun n hn => ht.good n ((sortNets_perm t).mem_iff.1 hn)
  apply map_lin_inj _ _ hgs hgt
  apply canon_unique _ _ (canon_shown s hs) (canon_shown t ht)
  intro x
  have e1 := den_congr (l := s.map lin) (l' := (iterCidrs s).map lin) (by
    intro b; simp only [List.mem_map]
    constructor
    · rintro ⟨n, hn, e⟩; exact ⟨n, (sortNets_perm s).mem_iff.1 hn, e⟩
    · rintro ⟨n, hn, e⟩; exact ⟨n, (sortNets_perm s).mem_iff.2 hn, e⟩) x
  have e2 := den_congr (l := t.map lin) (l' := (iterCidrs t).map lin) (by
    intro b; simp only [List.mem_map]
    constructor
    · rintro ⟨n, hn, e⟩; exact ⟨n, (sortNets_perm t).mem_iff.1 hn, e⟩
    · rintro ⟨n, hn, e⟩; exact ⟨n, (sortNets_perm t).mem_iff.2 hn, e⟩) x
  rw [e1, e2]
  exact den_lin_congr s t (fun n hn => (hs.good n hn).1) (fun n hn => (ht.good n hn).1) h x

/-- The shown list is length-minimal among all lists of in-range networks (canonical or
    not, with or without host bits) that denote the same addresses. -/
theorem shown_minimal (s : St) (hs : Inv s) (l : List Net) (hl : ∀ n ∈ l, n.WF)
    (h : ∀ ver a, denS l ver a ↔ denS s ver a) : (iterCidrs s).length ≤ l.length := by
  have := canon_minimal ((iterCidrs s).map lin) (l.map lin) (canon_shown s hs)
    (by intro c hc; obtain ⟨n, hn, rfl⟩ := List.mem_map.1 hc; exact lin_aligned n (hl n hn))
    (by
      intro x
      have e1 := den_congr (l := s.map lin) (l' := (iterCidrs s).map lin) (by
        intro b; simp only [List.mem_map]
        constructor
        · rintro ⟨n, hn, e⟩; exact ⟨n, (sortNets_perm s).mem_iff.1 hn, e⟩
        · rintro ⟨n, hn, e⟩; exact ⟨n, (sortNets_perm s).mem_iff.2 hn, e⟩) x
      rw [e1]
      exact den_lin_congr l s hl (fun n hn => (hs.good n hn).1) h x)
  simpa using this

end NV.IPSet
