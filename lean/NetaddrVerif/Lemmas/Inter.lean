import NetaddrVerif.Lemmas.Canon

namespace NV

-- Prototype: IPSet.intersection two-cursor sweep, denotation theorem
open Blk


def subB (a b : Blk) : Bool := b.base ≤ a.base && a.base + 2 ^ a.k ≤ b.base + 2 ^ b.k

theorem subB_iff (a b : Blk) : subB a b = true ↔ a.sub b := by
  simp only [subB, Bool.and_eq_true, decide_eq_true_eq, sub, mem]
  have := pow_pos' a.k
  constructor
  · rintro ⟨h1, h2⟩ x ⟨h3, h4⟩; omega
  · intro h
    have h1 := h a.base ⟨Nat.le_refl _, by omega⟩
    have h2 := h (a.base + 2 ^ a.k - 1) ⟨by omega, by omega⟩
    omega

/-- the sweep of IPSet.intersection on two sorted canonical lists -/
def inter : List Blk → List Blk → List Blk
  | [], _ => []
  | _ :: _, [] => []
  | a :: as, b :: bs =>
    if a = b then a :: inter as bs
    else if subB a b then a :: inter as (b :: bs)
    else if subB b a then b :: inter (a :: as) bs
    else if a.base < b.base then inter as (b :: bs)
    else inter (a :: as) bs
termination_by l₁ l₂ => l₁.length + l₂.length

theorem canon_tail {a : Blk} {l : List Blk} (h : Canon (a :: l)) : Canon l :=
  ⟨fun b hb => h.al b (List.mem_cons_of_mem _ hb), (List.pairwise_cons.1 h.sorted).2,
   fun b hb c hc => h.dj b (List.mem_cons_of_mem _ hb) c (List.mem_cons_of_mem _ hc),
   fun b hb c hc => h.ns b (List.mem_cons_of_mem _ hb) c (List.mem_cons_of_mem _ hc)⟩

/-- the head of a canonical list is disjoint from the denotation of its tail -/
theorem head_disj_tail {a : Blk} {l : List Blk} (h : Canon (a :: l)) (x : Nat) :
    a.mem x → ¬ den l x := by
  rintro hax ⟨c, hc, hcx⟩
  have hne : a ≠ c := by
    intro e; subst e
    have := (List.pairwise_cons.1 h.sorted).1 a hc; omega
  exact h.dj a (by simp) c (List.mem_cons_of_mem _ hc) hne x ⟨hax, hcx⟩

/-- disjoint aligned blocks: the one with the smaller base lies entirely below -/
theorem below_of_disj (a b : Blk) (hd : ∀ x, ¬ (a.mem x ∧ b.mem x)) (hlt : a.base < b.base) :
    a.base + 2 ^ a.k ≤ b.base := by
  rcases Nat.lt_or_ge b.base (a.base + 2 ^ a.k) with h | h
  · exfalso; exact hd b.base ⟨⟨by omega, h⟩, mem_base b⟩
  · exact h

theorem inter_den : ∀ (A B : List Blk), Canon A → Canon B →
    ∀ x, den (inter A B) x ↔ den A x ∧ den B x := by
  intro A B
  fun_induction inter A B with
  | case1 B => intro _ _ x; simp [den]
  | case2 a as => intro _ _ x; simp [den]
  | case3 a as bs ih =>
    intro hA hB x
    have ih' := ih (canon_tail hA) (canon_tail hB) x
    simp only [den, List.mem_cons] at ih' ⊢
    constructor
    · rintro ⟨c, hc | hc, hcx⟩
      · subst hc; exact ⟨⟨c, Or.inl rfl, hcx⟩, ⟨c, Or.inl rfl, hcx⟩⟩
      · obtain ⟨⟨p, hp, hpx⟩, ⟨q, hq, hqx⟩⟩ := ih'.1 ⟨c, hc, hcx⟩
        exact ⟨⟨p, Or.inr hp, hpx⟩, ⟨q, Or.inr hq, hqx⟩⟩
    · rintro ⟨⟨p, hp | hp, hpx⟩, ⟨q, hq | hq, hqx⟩⟩
      · subst hp; exact ⟨p, Or.inl rfl, hpx⟩
      · subst hp; exact absurd ⟨q, hq, hqx⟩ (head_disj_tail hB x hpx)
      · subst hq; exact absurd ⟨p, hp, hpx⟩ (head_disj_tail hA x hqx)
      · obtain ⟨c, hc, hcx⟩ := ih'.2 ⟨⟨p, hp, hpx⟩, ⟨q, hq, hqx⟩⟩
        exact ⟨c, Or.inr hc, hcx⟩
  | case4 a as b bs hab hsub ih =>
    intro hA hB x
    have hs := (subB_iff a b).1 hsub
    have ih' := ih (canon_tail hA) hB x
    simp only [den, List.mem_cons] at ih' ⊢
    constructor
    · rintro ⟨c, hc | hc, hcx⟩
      · subst hc; exact ⟨⟨c, Or.inl rfl, hcx⟩, ⟨b, Or.inl rfl, hs x hcx⟩⟩
      · obtain ⟨⟨p, hp, hpx⟩, hq⟩ := ih'.1 ⟨c, hc, hcx⟩
        exact ⟨⟨p, Or.inr hp, hpx⟩, hq⟩
    · rintro ⟨⟨p, hp | hp, hpx⟩, hq⟩
      · subst hp; exact ⟨p, Or.inl rfl, hpx⟩
      · obtain ⟨c, hc, hcx⟩ := ih'.2 ⟨⟨p, hp, hpx⟩, hq⟩
        exact ⟨c, Or.inr hc, hcx⟩
  | case5 a as b bs hab hnsub hsub ih =>
    intro hA hB x
    have hs := (subB_iff b a).1 hsub
    have ih' := ih hA (canon_tail hB) x
    simp only [den, List.mem_cons] at ih' ⊢
    constructor
    · rintro ⟨c, hc | hc, hcx⟩
      · subst hc; exact ⟨⟨a, Or.inl rfl, hs x hcx⟩, ⟨c, Or.inl rfl, hcx⟩⟩
      · obtain ⟨hp, ⟨q, hq, hqx⟩⟩ := ih'.1 ⟨c, hc, hcx⟩
        exact ⟨hp, ⟨q, Or.inr hq, hqx⟩⟩
    · rintro ⟨hp, ⟨q, hq | hq, hqx⟩⟩
      · subst hq; exact ⟨q, Or.inl rfl, hqx⟩
      · obtain ⟨c, hc, hcx⟩ := ih'.2 ⟨hp, ⟨q, hq, hqx⟩⟩
        exact ⟨c, Or.inr hc, hcx⟩
  | case6 a as b bs hab hn1 hn2 hlt ih =>
    intro hA hB x
    -- a and b are disjoint (neither contains the other) and a starts lower: a is below all of B
    have haal := hA.al a (by simp)
    have hbal := hB.al b (by simp)
    have hdisj : ∀ y, ¬ (a.mem y ∧ b.mem y) := by
      intro y ⟨h1, h2⟩
      rcases Nat.le_total a.k b.k with hk | hk
      · exact hn1 ((subB_iff a b).2 (sub_of_share a b haal hbal hk y h1 h2))
      · exact hn2 ((subB_iff b a).2 (sub_of_share b a hbal haal hk y h2 h1))
    have hbelow := below_of_disj a b hdisj hlt
    have hnotB : a.mem x → ¬ den (b :: bs) x := by
      rintro hax ⟨c, hc, hcx⟩
      rcases List.mem_cons.1 hc with e | e
      · subst e; exact hdisj x ⟨hax, hcx⟩
      · have := (List.pairwise_cons.1 hB.sorted).1 c e
        simp only [mem] at hax hcx; omega
    have ih' := ih (canon_tail hA) hB x
    rw [ih']
    simp only [den, List.mem_cons] at hnotB ⊢
    constructor
    · rintro ⟨⟨p, hp, hpx⟩, hq⟩; exact ⟨⟨p, Or.inr hp, hpx⟩, hq⟩
    · rintro ⟨⟨p, hp | hp, hpx⟩, hq⟩
      · subst hp; exact absurd hq (hnotB hpx)
      · exact ⟨⟨p, hp, hpx⟩, hq⟩
  | case7 a as b bs hab hn1 hn2 hnlt ih =>
    intro hA hB x
    have haal := hA.al a (by simp)
    have hbal := hB.al b (by simp)
    have hdisj : ∀ y, ¬ (a.mem y ∧ b.mem y) := by
      intro y ⟨h1, h2⟩
      rcases Nat.le_total a.k b.k with hk | hk
      · exact hn1 ((subB_iff a b).2 (sub_of_share a b haal hbal hk y h1 h2))
      · exact hn2 ((subB_iff b a).2 (sub_of_share b a hbal haal hk y h2 h1))
    have hlt : b.base < a.base := by
      rcases Nat.lt_trichotomy a.base b.base with h | h | h
      · exact absurd h hnlt
      · exfalso; exact hdisj a.base ⟨mem_base a, h ▸ mem_base b⟩
      · exact h
    have hbelow := below_of_disj b a (fun y ⟨h1, h2⟩ => hdisj y ⟨h2, h1⟩) hlt
    have hnotA : b.mem x → ¬ den (a :: as) x := by
      rintro hbx ⟨c, hc, hcx⟩
      rcases List.mem_cons.1 hc with e | e
      · subst e; exact hdisj x ⟨hcx, hbx⟩
      · have := (List.pairwise_cons.1 hA.sorted).1 c e
        simp only [mem] at hbx hcx; omega
    have ih' := ih hA (canon_tail hB) x
    rw [ih']
    simp only [den, List.mem_cons] at hnotA ⊢
    constructor
    · rintro ⟨hp, ⟨q, hq, hqx⟩⟩; exact ⟨hp, ⟨q, Or.inr hq, hqx⟩⟩
    · rintro ⟨hp, ⟨q, hq | hq, hqx⟩⟩
      · subst hq; exact absurd hp (hnotA hqx)
      · exact ⟨hp, ⟨q, hq, hqx⟩⟩

end NV
