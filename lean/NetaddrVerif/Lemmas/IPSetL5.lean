/-
Lemmas/IPSetL5.lean — `_compact_single_network` (supernet walk / scan, removal of stored
sub-blocks, merge loop) refines "add one block to a canonical set" (C06).
-/
import NetaddrVerif.Lemmas.IPSetL4
namespace NV.IPSet
open NV NV.Blk

theorem netCidr_val (n : Net) : (netCidr n).val = n.first := rfl

theorem netCidr_good (n : Net) (h : n.WF) :
    Good (netCidr n) ∧ blk (netCidr n) = blk n ∧ (netCidr n).ver = n.ver ∧ (netCidr n).plen = n.plen := by
  have hfl : n.first ≤ n.val := by
    rw [first_eq n h]; exact Nat.div_mul_le_self _ _
  have hw : (netCidr n).WF := ⟨h.1, by show n.first < 2 ^ width n.ver; have := h.2.1; omega, h.2.2⟩
  have hal : (netCidr n).val % 2 ^ (width (netCidr n).ver - (netCidr n).plen) = 0 := by
    show n.first % 2 ^ (width n.ver - n.plen) = 0
    rw [first_eq n h]; exact Nat.mul_mod_left _ _
  have hg := good_of_aligned _ hw hal
  refine ⟨hg, ?_, rfl, rfl⟩
  rw [blk_good _ hg]; rfl

/-- Inv only depends on the members (and duplicate-freeness) of the key list -/
theorem inv_of_mem (s t : St) (hs : Inv s) (hn : t.Nodup) (hm : ∀ n, n ∈ t ↔ n ∈ s) : Inv t := by
  refine ⟨fun n h => hs.good n ((hm n).1 h), hn, fun ver => canonset_congr (hs.cs ver) ?_⟩
  intro b
  rw [mem_fam, mem_fam]
  constructor
  · rintro ⟨n, h1, h2⟩; exact ⟨n, (hm n).1 h1, h2⟩
  · rintro ⟨n, h1, h2⟩; exact ⟨n, (hm n).2 h1, h2⟩

theorem denS_of_mem (s t : St) (hm : ∀ n, n ∈ t ↔ n ∈ s) (ver x : Nat) : denS t ver x ↔ denS s ver x := by
  unfold denS
  constructor
  · rintro ⟨n, h1, h2⟩; exact ⟨n, (hm n).1 h1, h2⟩
  · rintro ⟨n, h1, h2⟩; exact ⟨n, (hm n).2 h1, h2⟩

/-- in a canonical state every stored key satisfies the loop's precondition -/
theorem pre_of_inv (s : St) (hs : Inv s) (a : Net) (ha : a ∈ s) : Pre s a := by
  refine ⟨hs.good, hs.nodup, ha, ?_, ?_⟩
  · intro ver
    apply canonset_subset (hs.cs ver)
    intro b hb
    obtain ⟨n, hn, hv, rfl⟩ := mem_fam.1 hb
    exact mem_fam.2 ⟨n, (mem_others.1 hn).1, hv, rfl⟩
  · intro c hc hne hv
    have h1 : blk a ∈ fam a.ver s := mem_fam.2 ⟨a, ha, rfl, rfl⟩
    have h2 : blk c ∈ fam a.ver s := mem_fam.2 ⟨c, hc, hv, rfl⟩
    exact (hs.cs a.ver).dj _ h1 _ h2 (blk_ne a c (hs.good a ha) (hs.good c hc) hv.symm (fun e => hne e.symm))

/-- interval form of block inclusion for in-range networks -/
theorem sub_iff (a c : Net) (ha : a.WF) (hc : c.WF) :
    (blk a).sub (blk c) ↔ c.first ≤ a.first ∧ a.last ≤ c.last := by
  constructor
  · intro h
    have h1 := (blk_mem c hc _).1 (h a.first ((blk_mem a ha _).2 ⟨Nat.le_refl _, first_le_last a ha⟩))
    have h2 := (blk_mem c hc _).1 (h a.last ((blk_mem a ha _).2 ⟨first_le_last a ha, Nat.le_refl _⟩))
    exact ⟨h1.1, h2.2⟩
  · rintro ⟨h1, h2⟩ x hx
    have := (blk_mem a ha x).1 hx
    exact (blk_mem c hc x).2 ⟨by omega, by omega⟩

/-- two aligned blocks of one family nest or are disjoint -/
theorem nest_or_disj (a c : Net) (ha : a.WF) (hc : c.WF) :
    (blk a).sub (blk c) ∨ (blk c).sub (blk a) ∨ (blk a).disj (blk c) := by
  by_cases h : ∃ x, (blk a).mem x ∧ (blk c).mem x
  · obtain ⟨x, hx1, hx2⟩ := h
    rcases Nat.le_total (blk a).k (blk c).k with hk | hk
    · exact Or.inl (sub_of_share _ _ (blk_aligned a ha) (blk_aligned c hc) hk x hx1 hx2)
    · exact Or.inr (Or.inl (sub_of_share _ _ (blk_aligned c hc) (blk_aligned a ha) hk x hx2 hx1))
  · exact Or.inr (Or.inr (fun x hx => h ⟨x, hx⟩))

/-- `c` is a stored block inside the added block -/
def isSubOf (a c : Net) : Prop := c.ver = a.ver ∧ (blk c).sub (blk a)

/-- After removing the stored blocks inside `a` (none of the stored blocks contains `a`),
    the loop's precondition holds and the state denotes the old addresses plus `a`. -/
theorem absorb_pre (s s2 : St) (a : Net) (hs : Inv s) (ha : Good a)
    (hnosup : ∀ c ∈ s, c.ver = a.ver → ¬ (blk a).sub (blk c))
    (hnd : s2.Nodup)
    (hm : ∀ n, n ∈ s2 ↔ (n ∈ s ∧ ¬ isSubOf a n) ∨ n = a) :
    Pre s2 a ∧ ∀ ver x, denS s2 ver x ↔ denS s ver x ∨ (ver = a.ver ∧ a.first ≤ x ∧ x ≤ a.last) := by
  have hgood : ∀ n ∈ s2, Good n := by
    intro n hn
    rcases (hm n).1 hn with ⟨h1, _⟩ | h1
    · exact hs.good n h1
    · exact h1 ▸ ha
  refine ⟨⟨hgood, hnd, (hm a).2 (Or.inr rfl), ?_, ?_⟩, ?_⟩
  · intro ver
    apply canonset_subset (hs.cs ver)
    intro b hb
    obtain ⟨n, hn, hv, rfl⟩ := mem_fam.1 hb
    obtain ⟨h1, h2⟩ := mem_others.1 hn
    rcases (hm n).1 h1 with ⟨h3, _⟩ | h3
    · exact mem_fam.2 ⟨n, h3, hv, rfl⟩
    · exact absurd h3 h2
  · intro c hc hne hv
    rcases (hm c).1 hc with ⟨h3, h4⟩ | h3
    · rcases nest_or_disj a c ha.1 (hs.good c h3).1 with h | h | h
      · exact absurd h (hnosup c h3 hv)
      · exact absurd ⟨hv, h⟩ h4
      · exact h
    · exact absurd h3 hne
  · intro ver x
    unfold denS
    constructor
    · rintro ⟨n, hn, hv, hx⟩
      rcases (hm n).1 hn with ⟨h3, _⟩ | h3
      · exact Or.inl ⟨n, h3, hv, hx⟩
      · subst h3; exact Or.inr ⟨hv.symm, hx⟩
    · rintro (⟨n, hn, hv, hx⟩ | ⟨hv, hx⟩)
      · by_cases hsub : isSubOf a n
        · refine ⟨a, (hm a).2 (Or.inr rfl), hsub.1.symm.trans hv, ?_⟩
          exact (blk_mem a ha.1 x).1 (hsub.2 x ((blk_mem n (hs.good n hn).1 x).2 hx))
        · exact ⟨n, (hm n).2 (Or.inl ⟨hn, hsub⟩), hv, hx⟩
      · exact ⟨a, (hm a).2 (Or.inr rfl), hv.symm, hx⟩

/-- a stored block, other than `a`, that contains `a` -/
def HasSup (s : St) (a : Net) : Prop := ∃ c ∈ s, c ≠ a ∧ c.ver = a.ver ∧ (blk a).sub (blk c)

/-- equal-sized nested blocks of good keys of one family are the same key -/
theorem eq_of_sub_of_plen (a c : Net) (ha : Good a) (hc : Good c) (hv : c.ver = a.ver)
    (hsub : (blk a).sub (blk c)) (hp : c.plen = a.plen) : c = a := by
  have hk : (blk a).k = (blk c).k := by show width a.ver - a.plen = width c.ver - c.plen; rw [hv, hp]
  have := eq_of_share _ _ (blk_aligned a ha.1) (blk_aligned c hc.1) hk (blk a).base (mem_base _) (hsub _ (mem_base _))
  exact ((keyEq_good c a hc ha).1 ((keyEq_iff c a hc.1 ha.1).2 ⟨hv, this.symm⟩))

theorem plen_le_of_sub (a c : Net) (ha : a.WF) (hc : c.WF) (hv : c.ver = a.ver)
    (hsub : (blk a).sub (blk c)) : c.plen ≤ a.plen := by
  have := sub_k_le _ _ hsub
  have h1 : width a.ver - a.plen ≤ width c.ver - c.plen := this
  have := ha.2.2; have := hc.2.2
  rw [hv] at h1 this; omega

/-- the supernet walk of the /width path finds a stored key iff some stored block contains `a` -/
theorem supernet_any_iff (s : St) (hg : ∀ n ∈ s, Good n) (a : Net) (ha : Good a) :
    (List.range a.plen).any (fun q => dMem s (supernetAt a q)) = true ↔ HasSup s a := by
  simp only [List.any_eq_true, List.mem_range]
  have key : ∀ q, q ≤ a.plen →
      Good (supernetAt a q) ∧ (supernetAt a q).ver = a.ver ∧ (supernetAt a q).plen = q ∧
      (blk a).sub (blk (supernetAt a q)) := by
    intro q hq
    have hk : (⟨a.ver, (netCidr a).val, q⟩ : Net).WF :=
      ⟨ha.1.1, by show a.first < _; rw [← ha.2]; exact ha.1.2.1, by have := ha.1.2.2; show q ≤ width a.ver; omega⟩
    obtain ⟨g1, g2, g3, g4⟩ := netCidr_good _ hk
    refine ⟨g1, g3, g4, ?_⟩
    show (blk a).sub (blk (netCidr _))
    rw [g2]
    have hv : (netCidr a).val = a.val := ha.2.symm
    have hm1 : (blk a).mem a.val := val_mem_blk a ha.1
    have hm2 : (blk (⟨a.ver, (netCidr a).val, q⟩ : Net)).mem a.val := by
      have := val_mem_blk _ hk; rw [hv] at this ⊢; exact this
    exact sub_of_share _ _ (blk_aligned a ha.1) (blk_aligned _ hk)
      (by show width a.ver - a.plen ≤ width a.ver - q; omega) a.val hm1 hm2
  constructor
  · rintro ⟨q, hq, hm⟩
    obtain ⟨g1, g2, g3, g4⟩ := key q (by omega)
    have := (dMem_good s hg _ g1).1 hm
    refine ⟨_, this, ?_, g2, g4⟩
    intro e; rw [e] at g3; omega
  · rintro ⟨c, hc, hne, hv, hsub⟩
    have hcg := hg c hc
    have hle := plen_le_of_sub a c ha.1 hcg.1 hv hsub
    have hlt : c.plen < a.plen := by
      rcases Nat.lt_or_ge c.plen a.plen with h | h
      · exact h
      · exact absurd (eq_of_sub_of_plen a c ha hcg hv hsub (by omega)) hne
    refine ⟨c.plen, hlt, ?_⟩
    obtain ⟨g1, g2, g3, g4⟩ := key c.plen (by omega)
    -- the looked-up key is c itself
    have hk : (blk (supernetAt a c.plen)).k = (blk c).k := by
      show width (supernetAt a c.plen).ver - (supernetAt a c.plen).plen = width c.ver - c.plen
      rw [g2, g3, hv]
    have hb := eq_of_share _ _ (blk_aligned _ g1.1) (blk_aligned c hcg.1) hk (blk a).base
      (g4 _ (mem_base _)) (hsub _ (mem_base _))
    have : supernetAt a c.plen = c :=
      (keyEq_good _ c g1 hcg).1 ((keyEq_iff _ c g1.1 hcg.1).2 ⟨g2.trans hv.symm, hb⟩)
    rw [this]; exact (dMem_good s hg c hcg).2 hc

def skipB (a c : Net) : Bool := c.ver != a.ver || keyEq c a
def inB (a c : Net) : Bool := decide (c.first ≥ a.first) && decide (c.last ≤ a.last)
def outB (a c : Net) : Bool := decide (c.first ≤ a.first) && decide (c.last ≥ a.last)
/-- `c` is collected in `to_remove` -/
def subB (a c : Net) : Bool := !skipB a c && inB a c
/-- `c` makes the scan stop with "supernet found" -/
def supB (a c : Net) : Bool := !skipB a c && !inB a c && outB a c

theorem scan_cons (a c : Net) (rest acc : List Net) :
    scan a (c :: rest) acc =
      if skipB a c then scan a rest acc
      else if inB a c then scan a rest (acc ++ [c])
      else if outB a c then (acc, true)
      else scan a rest acc := rfl

theorem scan_nosup (a : Net) : ∀ (l acc : List Net), (∀ c ∈ l, supB a c = false) →
    scan a l acc = (acc ++ l.filter (subB a), false)
  | [], acc, _ => by simp [scan]
  | c :: rest, acc, h => by
    have hc := h c (List.mem_cons_self ..)
    have hr : ∀ c' ∈ rest, supB a c' = false := fun c' hc' => h c' (List.mem_cons_of_mem _ hc')
    rw [scan_cons]
    unfold supB at hc
    by_cases h1 : skipB a c = true
    · simp only [h1, if_true]
      rw [scan_nosup a rest acc hr]
      simp [subB, h1]
    · have h1' : skipB a c = false := by simpa using h1
      simp only [h1', Bool.false_eq_true, if_false]
      by_cases h2 : inB a c = true
      · simp only [h2, if_true]
        rw [scan_nosup a rest (acc ++ [c]) hr]
        simp [subB, h1', h2]
      · have h2' : inB a c = false := by simpa using h2
        simp only [h2', Bool.false_eq_true, if_false]
        have h3 : outB a c = false := by simpa [h1', h2'] using hc
        simp only [h3, Bool.false_eq_true, if_false]
        rw [scan_nosup a rest acc hr]
        simp [subB, h1', h2']

theorem scan_sup (a : Net) : ∀ (l acc : List Net), (∃ c ∈ l, supB a c = true) → (scan a l acc).2 = true
  | [], _, h => by obtain ⟨c, hc, _⟩ := h; simp at hc
  | c :: rest, acc, h => by
    rw [scan_cons]
    by_cases hc : supB a c = true
    · unfold supB at hc
      simp only [Bool.and_eq_true, Bool.not_eq_eq_eq_not, Bool.not_true] at hc
      simp [hc.1.1, hc.1.2, hc.2]
    · have hr : ∃ c' ∈ rest, supB a c' = true := by
        obtain ⟨c', hc', h'⟩ := h
        rcases List.mem_cons.1 hc' with e | e
        · subst e; exact absurd h' hc
        · exact ⟨c', e, h'⟩
      split
      · exact scan_sup a rest acc hr
      · split
        · exact scan_sup a rest _ hr
        · split
          · rfl
          · exact scan_sup a rest acc hr

theorem mem_foldl_dDel (rs : List Net) (hrs : ∀ r ∈ rs, Good r) : ∀ (s : St), (∀ n ∈ s, Good n) →
    ∀ n, n ∈ rs.foldl dDel s ↔ n ∈ s ∧ n ∉ rs := by
  induction rs with
  | nil => intro s _ n; simp
  | cons r rs ih =>
    intro s hg n
    simp only [List.foldl_cons]
    rw [ih (fun r' hr' => hrs r' (List.mem_cons_of_mem _ hr')) (dDel s r) (good_dDel s hg r) n,
      mem_dDel s hg r (hrs r (List.mem_cons_self ..))]
    simp only [List.mem_cons, not_or]
    constructor
    · rintro ⟨⟨h1, h2⟩, h3⟩; exact ⟨h1, h2, h3⟩
    · rintro ⟨h1, h2, h3⟩; exact ⟨⟨h1, h2⟩, h3⟩

theorem nodup_foldl_dDel (rs : List Net) : ∀ (s : St), s.Nodup → (rs.foldl dDel s).Nodup := by
  induction rs with
  | nil => intro s h; exact h
  | cons r rs ih => intro s h; exact ih _ (nodup_dDel s h r)

/-- meaning of the scan's Boolean tests on good keys -/
theorem subB_iff (a c : Net) (ha : Good a) (hc : Good c) :
    subB a c = true ↔ c ≠ a ∧ isSubOf a c := by
  unfold subB skipB inB isSubOf
  simp only [Bool.and_eq_true, Bool.not_eq_eq_eq_not, Bool.not_true, Bool.or_eq_false_iff, bne_eq_false_iff_eq,
    decide_eq_true_eq]
  rw [sub_iff c a hc.1 ha.1]
  constructor
  · rintro ⟨⟨hv, hk⟩, h1, h2⟩
    refine ⟨fun e => ?_, hv, h1, h2⟩
    subst e; rw [keyEq_refl] at hk; exact absurd hk (by simp)
  · rintro ⟨hne, hv, h1, h2⟩
    refine ⟨⟨hv, ?_⟩, h1, h2⟩
    cases hk : keyEq c a with
    | false => rfl
    | true => exact absurd ((keyEq_good c a hc ha).1 hk) hne

theorem supB_iff (a c : Net) (ha : Good a) (hc : Good c) :
    supB a c = true ↔ c ≠ a ∧ c.ver = a.ver ∧ (blk a).sub (blk c) := by
  unfold supB skipB inB outB
  simp only [Bool.and_eq_true, Bool.not_eq_eq_eq_not, Bool.not_true, Bool.or_eq_false_iff, bne_eq_false_iff_eq,
    decide_eq_true_eq, Bool.and_eq_false_iff, decide_eq_false_iff_not]
  rw [sub_iff a c ha.1 hc.1]
  constructor
  · rintro ⟨⟨⟨hv, hk⟩, _⟩, h1, h2⟩
    refine ⟨fun e => ?_, hv, h1, h2⟩
    subst e; rw [keyEq_refl] at hk; exact absurd hk (by simp)
  · rintro ⟨hne, hv, h1, h2⟩
    have hk : keyEq c a = false := by
      cases hk : keyEq c a with
      | false => rfl
      | true => exact absurd ((keyEq_good c a hc ha).1 hk) hne
    refine ⟨⟨⟨hv, hk⟩, ?_⟩, h1, h2⟩
    -- not inside a: otherwise the two blocks coincide and the keys are equal
    apply Classical.byContradiction
    intro hcon
    simp only [not_or, Nat.not_le, Nat.not_lt] at hcon
    have : keyEq c a = true := by
      unfold keyEq
      simp only [Bool.and_eq_true, beq_iff_eq]
      exact ⟨⟨hv, by omega⟩, by omega⟩
    rw [hk] at this; exact absurd this (by simp)

theorem compactSingle_eq (s : St) (a : Net) :
    compactSingle s a =
      if a.plen = width a.ver then
        (if (List.range a.plen).any (fun q => dMem s (supernetAt a q)) then dDel s a
         else mergeLoop a.plen s a (width a.ver - a.plen))
      else
        (if (scan a s []).2 then dDel s a
         else mergeLoop a.plen ((scan a s []).1.foldl dDel s) a (width a.ver - a.plen)) := by
  unfold compactSingle
  split <;> rfl

/-- a block of one address has no proper sub-blocks -/
theorem no_sub_of_full (a c : Net) (ha : Good a) (hc : Good c) (hp : a.plen = width a.ver)
    (h : isSubOf a c) : c = a := by
  obtain ⟨hv, hsub⟩ := h
  have hk := sub_k_le _ _ hsub
  have h1 : width c.ver - c.plen ≤ width a.ver - a.plen := hk
  have hcp : c.plen = a.plen := by have := hc.1.2.2; rw [hv] at h1 this; omega
  have hkk : (blk c).k = (blk a).k := by show width c.ver - c.plen = width a.ver - a.plen; rw [hv, hcp]
  have := eq_of_share _ _ (blk_aligned c hc.1) (blk_aligned a ha.1) hkk (blk c).base (mem_base _) (hsub _ (mem_base _))
  exact (keyEq_good c a hc ha).1 ((keyEq_iff c a hc.1 ha.1).2 ⟨hv, this⟩)

/-- `_compact_single_network` on a canonical state plus the freshly stored good key `a`:
    the result is canonical and denotes the old addresses plus `a`'s block. -/
theorem compactSingle_spec (s : St) (hs : Inv s) (a : Net) (ha : Good a) :
    Inv (compactSingle (dInsert s a) a) ∧
    ∀ ver x, denS (compactSingle (dInsert s a) a) ver x ↔
      denS s ver x ∨ (ver = a.ver ∧ a.first ≤ x ∧ x ≤ a.last) := by
  have hg1 : ∀ n ∈ dInsert s a, Good n := good_dInsert s hs.good a ha
  have hn1 : (dInsert s a).Nodup := nodup_dInsert s hs.good hs.nodup a ha
  have hm1 := mem_dInsert s hs.good a ha
  have hmem_a : a ∈ dInsert s a := (hm1 a).2 (Or.inr rfl)
  -- the two code paths agree on: "is there a stored supernet", and on what is removed
  by_cases hsup : HasSup (dInsert s a) a
  · -- a stored block contains a: a is dropped again, nothing changes
    obtain ⟨c, hc, hne, hv, hsub⟩ := hsup
    have hcs : c ∈ s := by rcases (hm1 c).1 hc with h | h; exact h; exact absurd h hne
    have hres : compactSingle (dInsert s a) a = dDel (dInsert s a) a := by
      rw [compactSingle_eq]
      split
      · rw [if_pos ((supernet_any_iff _ hg1 a ha).2 ⟨c, hc, hne, hv, hsub⟩)]
      · rw [if_pos (scan_sup a _ [] ⟨c, hc, (supB_iff a c ha (hg1 c hc)).2 ⟨hne, hv, hsub⟩⟩)]
    rw [hres]
    -- a was not stored before (it would overlap c), so deleting it gives back s
    have hnotin : a ∉ s := by
      intro h
      have h1 : blk a ∈ fam a.ver s := mem_fam.2 ⟨a, h, rfl, rfl⟩
      have h2 : blk c ∈ fam a.ver s := mem_fam.2 ⟨c, hcs, hv, rfl⟩
      exact (hs.cs a.ver).dj _ h1 _ h2 (blk_ne a c ha (hs.good c hcs) hv.symm (fun e => hne e.symm))
        (blk a).base ⟨mem_base _, hsub _ (mem_base _)⟩
    have hmem : ∀ n, n ∈ dDel (dInsert s a) a ↔ n ∈ s := by
      intro n
      rw [mem_dDel _ hg1 a ha, hm1]
      constructor
      · rintro ⟨h | h, h2⟩; exact h; exact absurd h h2
      · intro h; exact ⟨Or.inl h, fun e => hnotin (e ▸ h)⟩
    refine ⟨inv_of_mem s _ hs (nodup_dDel _ hn1 a) hmem, ?_⟩
    intro ver x
    rw [denS_of_mem s _ hmem]
    constructor
    · intro h; exact Or.inl h
    · rintro (h | ⟨hv', hx⟩)
      · exact h
      · exact ⟨c, hcs, hv.trans hv'.symm, (blk_mem c (hs.good c hcs).1 x).1 (hsub x ((blk_mem a ha.1 x).2 hx))⟩
  · -- no stored supernet: stored sub-blocks are removed, then the merge loop runs
    have hnosupB : ∀ c ∈ dInsert s a, supB a c = false := by
      intro c hc
      cases h : supB a c with
      | false => rfl
      | true =>
        obtain ⟨h1, h2, h3⟩ := (supB_iff a c ha (hg1 c hc)).1 h
        exact absurd ⟨c, hc, h1, h2, h3⟩ hsup
    -- work relative to the other keys s' = s \ {a}
    have hs' : Inv (others s a) := by
      refine ⟨fun n hn => hs.good n (mem_others.1 hn).1, hs.nodup.filter _, fun ver => ?_⟩
      apply canonset_subset (hs.cs ver)
      intro b hb
      obtain ⟨n, hn, hv, rfl⟩ := mem_fam.1 hb
      exact mem_fam.2 ⟨n, (mem_others.1 hn).1, hv, rfl⟩
    have hnosup : ∀ c ∈ others s a, c.ver = a.ver → ¬ (blk a).sub (blk c) := by
      intro c hc hv hsub
      obtain ⟨h1, h2⟩ := mem_others.1 hc
      exact hsup ⟨c, (hm1 c).2 (Or.inl h1), h2, hv, hsub⟩
    -- both code paths run the merge loop on a state s2 with these members
    have hpath : ∃ s2 : St, compactSingle (dInsert s a) a = mergeLoop a.plen s2 a (width a.ver - a.plen) ∧
        s2.Nodup ∧ ∀ n, n ∈ s2 ↔ (n ∈ others s a ∧ ¬ isSubOf a n) ∨ n = a := by
      rw [compactSingle_eq]
      by_cases hp : a.plen = width a.ver
      · refine ⟨dInsert s a, ?_, hn1, ?_⟩
        · rw [if_pos hp]
          have : (List.range a.plen).any (fun q => dMem (dInsert s a) (supernetAt a q)) = false := by
            cases h : (List.range a.plen).any (fun q => dMem (dInsert s a) (supernetAt a q)) with
            | false => rfl
            | true => exact absurd ((supernet_any_iff _ hg1 a ha).1 h) hsup
          rw [this]; rfl
        · intro n
          rw [hm1]
          constructor
          · rintro (h | h)
            · by_cases e : n = a
              · exact Or.inr e
              · refine Or.inl ⟨mem_others.2 ⟨h, e⟩, fun hsub => e ?_⟩
                exact no_sub_of_full a n ha (hs.good n h) hp hsub
            · exact Or.inr h
          · rintro (⟨h, _⟩ | h)
            · exact Or.inl (mem_others.1 h).1
            · exact Or.inr h
      · have hscan := scan_nosup a (dInsert s a) [] hnosupB
        simp only [List.nil_append] at hscan
        refine ⟨((dInsert s a).filter (subB a)).foldl dDel (dInsert s a), ?_, nodup_foldl_dDel _ _ hn1, ?_⟩
        · rw [if_neg hp, hscan]; rfl
        · intro n
          rw [mem_foldl_dDel _ (fun r hr => hg1 r (List.mem_filter.1 hr).1) _ hg1 n, hm1]
          simp only [List.mem_filter, not_and, hm1]
          constructor
          · rintro ⟨h | h, h2⟩
            · by_cases e : n = a
              · exact Or.inr e
              · refine Or.inl ⟨mem_others.2 ⟨h, e⟩, fun hsub => ?_⟩
                have := h2 (Or.inl h)
                rw [(subB_iff a n ha (hs.good n h)).2 ⟨e, hsub⟩] at this
                exact absurd rfl this
            · exact Or.inr h
          · rintro (⟨h, h2⟩ | h)
            · obtain ⟨h3, h4⟩ := mem_others.1 h
              refine ⟨Or.inl h3, fun _ hb => ?_⟩
              exact h2 ((subB_iff a n ha (hs.good n h3)).1 hb).2
            · subst h
              refine ⟨Or.inr rfl, fun _ hb => ?_⟩
              exact ((subB_iff n n ha ha).1 hb).1 rfl
    obtain ⟨s2, hres, hnd2, hm2⟩ := hpath
    rw [hres]
    obtain ⟨hpre, hden⟩ := absorb_pre (others s a) s2 a hs' ha hnosup hnd2 hm2
    obtain ⟨r1, r2⟩ := mergeLoop_spec a.plen s2 a rfl hpre
    refine ⟨r1, fun ver x => ?_⟩
    rw [r2 ver x, hden ver x]
    -- den (s \ {a}) ∪ a = den s ∪ a
    unfold denS
    constructor
    · rintro (⟨n, hn, h⟩ | h)
      · exact Or.inl ⟨n, (mem_others.1 hn).1, h⟩
      · exact Or.inr h
    · rintro (⟨n, hn, hv, hx⟩ | h)
      · by_cases e : n = a
        · subst e; exact Or.inr ⟨hv.symm, hx⟩
        · exact Or.inl ⟨n, mem_others.2 ⟨hn, e⟩, hv, hx⟩
      · exact Or.inr h

end NV.IPSet
