/-
Lemmas/IPSetL10.lean — the cidr_merge / iprange_to_cidrs based operations of IPSet
(constructors, update, compact, add(IPRange), union) via the C05 theorems (C06/C07).
-/
import NetaddrVerif.Lemmas.IPSetL9
import NetaddrVerif.Props.C05
namespace NV.IPSet
open NV NV.Blk NV.C05L

/-- for a good key, the block `cidr_merge`'s theorems speak about is `blk` -/
theorem famBlk_eq (n : Net) (h : Good n) : (⟨n.val, width n.ver - n.plen⟩ : Blk) = blk n := (blk_good n h).symm

/-- a duplicate-free state whose members are the good nets of a list that is canonical per
    family (in the sense of the C05 theorems) satisfies the invariant -/
theorem inv_of_famBlks (L : List Net) (s : St) (hg : ∀ n ∈ L, Good n) (hc : ∀ u, Canon (famBlks u L))
    (hn : s.Nodup) (hm : ∀ n, n ∈ s ↔ n ∈ L) :
    Inv s ∧ ∀ u a, denS s u a ↔ den (famBlks u L) a := by
  have hgs : ∀ n ∈ s, Good n := fun n h => hg n ((hm n).1 h)
  have hfam : ∀ u b, b ∈ fam u s ↔ b ∈ famBlks u L := by
    intro u b
    rw [mem_fam, mem_famBlks]
    constructor
    · rintro ⟨n, h1, h2, rfl⟩
      exact ⟨n, (hm n).1 h1, h2, by rw [← h2]; exact blk_good n (hgs n h1)⟩
    · rintro ⟨n, h1, h2, rfl⟩
      exact ⟨n, (hm n).2 h1, h2, by rw [← h2]; exact blk_good n (hg n h1)⟩
  refine ⟨⟨hgs, hn, fun u => canonset_congr (canonset_of_canon (hc u)) (hfam u)⟩, fun u a => ?_⟩
  rw [← den_fam s hgs u a]
  exact den_congr (hfam u) a

/-- argument forms accepted by the set operations, well-formed -/
def ItemOK (it : MItem) : Prop :=
  ItemWF it ∧ (match it with | .net ver _ => ver = 4 ∨ ver = 6 | .rng ver _ _ => ver = 4 ∨ ver = 6)

theorem toRange_ver (it : MItem) : it.toRange.ver = (match it with | .net ver _ => ver | .rng ver _ _ => ver) := by
  cases it <;> rfl

/-- every network returned by `cidr_merge` is a good key -/
theorem merge_good (items : List MItem) (hok : ∀ it ∈ items, ItemOK it) : ∀ n ∈ cidrMerge items, Good n := by
  have hwf : ∀ it ∈ items, ItemWF it := fun it h => (hok it h).1
  intro n hn
  obtain ⟨h1, h2, h3⟩ := C05.merge_wf items hwf n hn
  have hp := pw (width n.ver - n.plen)
  -- its family is the family of some input
  have hmem : den (famBlks n.ver (cidrMerge items)) n.val :=
    ⟨⟨n.val, width n.ver - n.plen⟩, (mem_famBlks _ _ _).2 ⟨n, hn, rfl, rfl⟩,
      ⟨Nat.le_refl _, by show n.val < n.val + 2 ^ (width n.ver - n.plen); omega⟩⟩
  obtain ⟨it, hit, hr, _⟩ := (C05.merge_den items hwf n.ver n.val).1 hmem
  have hver : n.ver = 4 ∨ n.ver = 6 := by
    have := (hok it hit).2
    rw [toRange_ver] at hr
    cases it <;> simp only at this hr <;> rw [← hr] <;> exact this
  exact good_of_aligned n ⟨hver, by omega, h1⟩ h2

/-- `dict.fromkeys(cidr_merge(items))`: canonical, denoting exactly the union of the items -/
theorem merge_state_spec (items : List MItem) (hok : ∀ it ∈ items, ItemOK it) :
    Inv (fromKeys (cidrMerge items)) ∧
    ∀ u a, denS (fromKeys (cidrMerge items)) u a ↔ iden items u a := by
  have hwf : ∀ it ∈ items, ItemWF it := fun it h => (hok it h).1
  have hc := C05.merge_canon items hwf
  have hg := merge_good items hok
  obtain ⟨f1, f2, f3⟩ := fromKeys_mem (cidrMerge items) hg
  obtain ⟨r1, r2⟩ := inv_of_famBlks (cidrMerge items) _ hg hc.canon f2 f3
  refine ⟨r1, fun u a => ?_⟩
  rw [r2 u a, C05.merge_den items hwf u a]

/-- the items `cidr_merge` receives for the stored keys -/
def keyItems (s : St) : List MItem := s.map (fun n => MItem.net n.ver (toPfx n))

theorem keyItems_ok (s : St) (hg : ∀ n ∈ s, n.WF) : ∀ it ∈ keyItems s, ItemOK it := by
  intro it hit
  obtain ⟨n, hn, rfl⟩ := List.mem_map.1 hit
  exact ⟨⟨(hg n hn).2.1, (hg n hn).2.2⟩, (hg n hn).1⟩

theorem iden_keyItems (s : St) (u a : Nat) : iden (keyItems s) u a ↔ denS s u a := by
  unfold iden denS keyItems
  constructor
  · rintro ⟨it, hit, hr⟩
    obtain ⟨n, hn, rfl⟩ := List.mem_map.1 hit
    exact ⟨n, hn, hr⟩
  · rintro ⟨n, hn, hr⟩
    exact ⟨_, List.mem_map.2 ⟨n, hn, rfl⟩, hr⟩

theorem iden_append (xs ys : List MItem) (u a : Nat) : iden (xs ++ ys) u a ↔ iden xs u a ∨ iden ys u a := by
  unfold iden
  simp only [List.mem_append]
  constructor
  · rintro ⟨it, h | h, hr⟩
    · exact Or.inl ⟨it, h, hr⟩
    · exact Or.inr ⟨it, h, hr⟩
  · rintro (⟨it, h, hr⟩ | ⟨it, h, hr⟩)
    · exact ⟨it, Or.inl h, hr⟩
    · exact ⟨it, Or.inr h, hr⟩

/-- `compact()` on ANY state of in-range keys (canonical or not): canonical afterwards, same addresses -/
theorem compact_spec (s : St) (hg : ∀ n ∈ s, n.WF) :
    Inv (compact s) ∧ ∀ u a, denS (compact s) u a ↔ denS s u a := by
  have := merge_state_spec (keyItems s ++ []) (by simpa using keyItems_ok s hg)
  unfold compact mergeKeys
  refine ⟨this.1, fun u a => ?_⟩
  show denS (fromKeys (cidrMerge (keyItems s ++ []))) u a ↔ _
  rw [this.2 u a, iden_append, iden_keyItems]
  simp [iden]

/-- `update(other_set)` / `union` -/
theorem updateSet_spec (s t : St) (hs : ∀ n ∈ s, n.WF) (ht : ∀ n ∈ t, n.WF) :
    Inv (updateSet s t) ∧ ∀ u a, denS (updateSet s t) u a ↔ denS s u a ∨ denS t u a := by
  have hok : ∀ it ∈ keyItems (s ++ t) ++ [], ItemOK it := by
    simpa using keyItems_ok (s ++ t) (by
      intro n hn; rcases List.mem_append.1 hn with h | h; exact hs n h; exact ht n h)
  have := merge_state_spec _ hok
  unfold updateSet mergeKeys
  refine ⟨this.1, fun u a => ?_⟩
  show denS (fromKeys (cidrMerge (keyItems (s ++ t) ++ []))) u a ↔ _
  rw [this.2 u a, iden_append, iden_keyItems]
  unfold denS
  simp only [List.mem_append, iden, List.not_mem_nil, false_and, exists_false, or_false]
  constructor
  · rintro ⟨n, h | h, hr⟩
    · exact Or.inl ⟨n, h, hr⟩
    · exact Or.inr ⟨n, h, hr⟩
  · rintro (⟨n, h, hr⟩ | ⟨n, h, hr⟩)
    · exact ⟨n, Or.inl h, hr⟩
    · exact ⟨n, Or.inr h, hr⟩

/-- well-formed argument: an in-range network (address, int, string → network) or a range
    `lo ≤ hi` inside its family -/
def ArgOK : Arg → Prop
  | .net n => n.WF
  | .rng r => (r.ver = 4 ∨ r.ver = 6) ∧ r.lo ≤ r.hi ∧ r.hi < 2 ^ width r.ver

/-- the addresses an argument denotes -/
def argDen : Arg → Nat → Nat → Prop
  | .net n, u, a => n.ver = u ∧ n.first ≤ a ∧ a ≤ n.last
  | .rng r, u, a => r.ver = u ∧ r.lo ≤ a ∧ a ≤ r.hi

def argsDen (xs : List Arg) (u a : Nat) : Prop := ∃ x ∈ xs, argDen x u a

theorem toItem_ok (x : Arg) (h : ArgOK x) : ItemOK x.toItem := by
  cases x with
  | net n => exact ⟨⟨h.2.1, h.2.2⟩, h.1⟩
  | rng r => exact ⟨⟨h.2.1, h.2.2⟩, h.1⟩

theorem iden_toItems (xs : List Arg) (u a : Nat) : iden (xs.map Arg.toItem) u a ↔ argsDen xs u a := by
  unfold iden argsDen
  constructor
  · rintro ⟨it, hit, hr⟩
    obtain ⟨x, hx, rfl⟩ := List.mem_map.1 hit
    refine ⟨x, hx, ?_⟩
    cases x <;> exact hr
  · rintro ⟨x, hx, hr⟩
    refine ⟨_, List.mem_map.2 ⟨x, hx, rfl⟩, ?_⟩
    cases x <;> exact hr

/-- `IPSet(iterable)` -/
theorem newOfList_spec (xs : List Arg) (hx : ∀ x ∈ xs, ArgOK x) :
    Inv (newOfList xs) ∧ ∀ u a, denS (newOfList xs) u a ↔ argsDen xs u a := by
  have := merge_state_spec (xs.map Arg.toItem) (by
    intro it hit; obtain ⟨x, h, rfl⟩ := List.mem_map.1 hit; exact toItem_ok x (hx x h))
  unfold newOfList
  exact ⟨this.1, fun u a => by rw [this.2 u a, iden_toItems]⟩

theorem denS_foldl_dInsert (l : List Net) (hl : ∀ n ∈ l, Good n) : ∀ (s : St), (∀ n ∈ s, Good n) →
    (∀ n ∈ l.foldl dInsert s, Good n) ∧ ∀ n, n ∈ l.foldl dInsert s ↔ n ∈ s ∨ n ∈ l := by
  induction l with
  | nil => intro s hs; exact ⟨hs, fun n => by simp⟩
  | cons x xs ih =>
    intro s hs
    have hx := hl x (List.mem_cons_self ..)
    obtain ⟨r1, r2⟩ := ih (fun n h => hl n (List.mem_cons_of_mem _ h)) (dInsert s x) (good_dInsert s hs x hx)
    refine ⟨r1, fun n => ?_⟩
    simp only [List.foldl_cons]
    rw [r2 n, mem_dInsert s hs x hx n]
    simp only [List.mem_cons]
    constructor
    · rintro ((h | h) | h)
      · exact Or.inl h
      · exact Or.inr (Or.inl h)
      · exact Or.inr (Or.inr h)
    · rintro (h | h | h)
      · exact Or.inl (Or.inl h)
      · exact Or.inl (Or.inr h)
      · exact Or.inr h

/-- `update(iterable)`: old keys plus merged blocks, then `compact()` -/
theorem updateList_spec (s : St) (hs : ∀ n ∈ s, Good n) (xs : List Arg) (hx : ∀ x ∈ xs, ArgOK x) :
    Inv (updateList s xs) ∧ ∀ u a, denS (updateList s xs) u a ↔ denS s u a ∨ argsDen xs u a := by
  have hok : ∀ it ∈ keyItems s ++ xs.map Arg.toItem, ItemOK it := by
    intro it hit
    rcases List.mem_append.1 hit with h | h
    · exact keyItems_ok s (fun n hn => (hs n hn).1) it h
    · obtain ⟨x, h', rfl⟩ := List.mem_map.1 h; exact toItem_ok x (hx x h')
  obtain ⟨m1, m2⟩ := merge_state_spec _ hok
  -- the merged blocks are good keys denoting s ∪ xs
  have hmg : ∀ n ∈ mergeKeys s (xs.map Arg.toItem), Good n := merge_good _ hok
  obtain ⟨g1, g2⟩ := denS_foldl_dInsert _ hmg s hs
  have hc := compact_spec _ (fun n hn => (g1 n hn).1)
  unfold updateList
  refine ⟨hc.1, fun u a => ?_⟩
  rw [hc.2 u a]
  -- den (s ∪ merged) = den s ∪ den merged, and den merged = den s ∪ den xs
  have hmden : ∀ u a, (∃ n ∈ mergeKeys s (xs.map Arg.toItem), n.ver = u ∧ n.first ≤ a ∧ a ≤ n.last) ↔
      denS s u a ∨ argsDen xs u a := by
    intro u a
    have := m2 u a
    rw [iden_append, iden_keyItems, iden_toItems] at this
    rw [← this]
    unfold denS
    constructor
    · rintro ⟨n, hn, h⟩; exact ⟨n, (fromKeys_mem _ hmg).2.2 n |>.2 hn, h⟩
    · rintro ⟨n, hn, h⟩; exact ⟨n, (fromKeys_mem _ hmg).2.2 n |>.1 hn, h⟩
  constructor
  · rintro ⟨n, hn, h⟩
    rcases (g2 n).1 hn with h1 | h1
    · exact Or.inl ⟨n, h1, h⟩
    · exact (hmden u a).1 ⟨n, h1, h⟩
  · rintro (⟨n, hn, h⟩ | h)
    · exact ⟨n, (g2 n).2 (Or.inl hn), h⟩
    · obtain ⟨n, hn, h'⟩ := (hmden u a).2 (Or.inr h)
      exact ⟨n, (g2 n).2 (Or.inr hn), h'⟩

theorem canon_nil : Canon ([] : List Blk) :=
  ⟨by simp, List.Pairwise.nil, by simp, by simp⟩

/-- the keys `iprange_to_cidrs(IPAddress(lo), IPAddress(hi))` contributes: good, canonical,
    denoting exactly `[lo, hi]` of their family -/
theorem rangeCidrs_spec (ver lo hi : Nat) (hver : ver = 4 ∨ ver = 6) (hle : lo ≤ hi) (hhi : hi < 2 ^ width ver) :
    (∀ n ∈ rangeCidrs ver lo hi, Good n ∧ n.ver = ver) ∧
    (∀ u, Canon (famBlks u (rangeCidrs ver lo hi))) ∧
    ∀ u a, den (famBlks u (rangeCidrs ver lo hi)) a ↔ (ver = u ∧ lo ≤ a ∧ a ≤ hi) := by
  have hR := C05.iprange_to_cidrs_addr (width ver) lo hi hle hhi
  have hfun : rangeCidrs ver lo hi =
      (iprangeToCidrs (width ver) ⟨lo, width ver⟩ ⟨hi, width ver⟩).map (fun b => (⟨ver, b.val, b.plen⟩ : Net)) := rfl
  refine ⟨?_, ?_, ?_⟩
  · intro n hn
    rw [hfun] at hn
    obtain ⟨b, hb, rfl⟩ := List.mem_map.1 hn
    obtain ⟨hal, hpl⟩ := hR.wf b hb
    have hp := pw (width ver - b.plen)
    have hbv : b.val ≤ hi := ((hR.den b.val).1 ⟨b, hb, ⟨Nat.le_refl _, by omega⟩⟩).2
    exact ⟨good_of_aligned _ ⟨hver, by show b.val < 2 ^ width ver; omega, hpl⟩ hal, rfl⟩
  · intro u
    rw [hfun]
    by_cases hu : ver = u
    · subst hu; rw [famBlks_same]; exact hR.canon
    · rw [famBlks_other u ver hu]; exact canon_nil
  · intro u a
    rw [hfun]
    by_cases hu : ver = u
    · subst hu
      rw [famBlks_same, den_map_toBlk, hR.den a]
      simp
    · rw [famBlks_other u ver hu]
      simp [den, hu]

/-- `IPSet(IPRange)` -/
theorem newOfRange_spec (r : Rng) (h : ArgOK (.rng r)) :
    Inv (newOfRange r) ∧ ∀ u a, denS (newOfRange r) u a ↔ argDen (.rng r) u a := by
  obtain ⟨hv, hle, hhi⟩ := h
  obtain ⟨g, c, d⟩ := rangeCidrs_spec r.ver r.lo r.hi hv hle hhi
  obtain ⟨f1, f2, f3⟩ := fromKeys_mem _ (fun n hn => (g n hn).1)
  obtain ⟨r1, r2⟩ := inv_of_famBlks _ _ (fun n hn => (g n hn).1) c f2 f3
  unfold newOfRange
  exact ⟨r1, fun u a => by rw [r2 u a, d u a]; rfl⟩

/-- `add(IPRange)`: the range's blocks are stored next to the old keys, then `compact()` -/
theorem addRange_spec (s : St) (hs : ∀ n ∈ s, Good n) (r : Rng) (h : ArgOK (.rng r)) :
    Inv (addRange s r) ∧ ∀ u a, denS (addRange s r) u a ↔ denS s u a ∨ argDen (.rng r) u a := by
  obtain ⟨hv, hle, hhi⟩ := h
  obtain ⟨g, c, d⟩ := rangeCidrs_spec r.ver r.lo r.hi hv hle hhi
  obtain ⟨g1, g2⟩ := denS_foldl_dInsert _ (fun n hn => (g n hn).1) s hs
  have hc := compact_spec _ (fun n hn => (g1 n hn).1)
  unfold addRange
  refine ⟨hc.1, fun u a => ?_⟩
  rw [hc.2 u a]
  have hrd : (∃ n ∈ rangeCidrs r.ver r.lo r.hi, n.ver = u ∧ n.first ≤ a ∧ a ≤ n.last) ↔
      (r.ver = u ∧ r.lo ≤ a ∧ a ≤ r.hi) := by
    rw [← d u a]
    unfold den
    constructor
    · rintro ⟨n, hn, hvn, hx⟩
      refine ⟨blk n, (mem_famBlks _ _ _).2 ⟨n, hn, hvn, by rw [← hvn]; exact blk_good n (g n hn).1⟩, ?_⟩
      exact (blk_mem n (g n hn).1.1 a).2 hx
    · rintro ⟨b, hb, hx⟩
      obtain ⟨n, hn, hvn, rfl⟩ := (mem_famBlks _ _ _).1 hb
      refine ⟨n, hn, hvn, ?_⟩
      have : (⟨n.val, width u - n.plen⟩ : Blk) = blk n := by rw [← hvn]; exact (blk_good n (g n hn).1).symm
      rw [this] at hx
      exact (blk_mem n (g n hn).1.1 a).1 hx
  show denS _ u a ↔ denS s u a ∨ (r.ver = u ∧ r.lo ≤ a ∧ a ≤ r.hi)
  unfold denS
  constructor
  · rintro ⟨n, hn, h'⟩
    rcases (g2 n).1 hn with h1 | h1
    · exact Or.inl ⟨n, h1, h'⟩
    · exact Or.inr (hrd.1 ⟨n, h1, h'⟩)
  · rintro (⟨n, hn, h'⟩ | h')
    · exact ⟨n, (g2 n).2 (Or.inl hn), h'⟩
    · obtain ⟨n, hn, h''⟩ := hrd.2 h'
      exact ⟨n, (g2 n).2 (Or.inr hn), h''⟩

/-- `IPSet(IPNetwork)` -/
theorem newOfNet_spec (n : Net) (h : n.WF) :
    Inv (newOfNet n) ∧ ∀ u a, denS (newOfNet n) u a ↔ argDen (.net n) u a := by
  have := compactSingle_spec [] inv_nil (netCidr n) (netCidr_good n h).1
  -- `{iterable.cidr: True}` is what `add` produces on the empty set
  have e : compactSingle (dInsert [] (netCidr n)) (netCidr n) = addNet [] n := rfl
  obtain ⟨hg, hb, hv, hp⟩ := netCidr_good n h
  have hinv : Inv (newOfNet n) := by
    refine ⟨by intro m hm; simp [newOfNet] at hm; exact hm ▸ hg, by simp [newOfNet], fun ver => ⟨?_, ?_, ?_⟩⟩
    · intro b hb'
      obtain ⟨m, hm, _, rfl⟩ := mem_fam.1 hb'
      simp [newOfNet] at hm; subst hm; exact blk_aligned _ hg.1
    · intro b hb' c hc' hne
      obtain ⟨m, hm, _, rfl⟩ := mem_fam.1 hb'
      obtain ⟨m', hm', _, rfl⟩ := mem_fam.1 hc'
      simp [newOfNet] at hm hm'; subst hm; subst hm'; exact absurd rfl hne
    · intro b hb' c hc' hs
      obtain ⟨m, hm, _, rfl⟩ := mem_fam.1 hb'
      obtain ⟨m', hm', _, rfl⟩ := mem_fam.1 hc'
      simp [newOfNet] at hm hm'; subst hm; subst hm'
      obtain ⟨_, _, h3⟩ := hs
      have := pw (blk (netCidr n)).k; omega
  refine ⟨hinv, fun u a => ?_⟩
  have hfl : (netCidr n).first = n.first ∧ (netCidr n).last = n.last := by
    have h1 : (netCidr n).first = n.first := by
      have := congrArg Blk.base hb; simpa [blk] using this
    exact ⟨h1, by rw [last_eq _ hg.1, last_eq n h, h1, hv, hp]⟩
  unfold denS newOfNet argDen
  simp only [List.mem_singleton, exists_eq_left, hfl.1, hfl.2, hv]

/-- `IPSet(other_set)` -/
theorem newOfSet_spec (t : St) (ht : Inv t) : Inv (newOfSet t) ∧ ∀ n, n ∈ newOfSet t ↔ n ∈ t := by
  have hg : ∀ n ∈ sortNets t, Good n := fun n hn => ht.good n ((sortNets_perm t).mem_iff.1 hn)
  obtain ⟨_, f2, f3⟩ := fromKeys_mem (sortNets t) hg
  have hm : ∀ n, n ∈ newOfSet t ↔ n ∈ t := fun n => (f3 n).trans (sortNets_perm t).mem_iff
  exact ⟨inv_of_mem t _ ht f2 hm, hm⟩

/-- `A | B` (`union` = `copy()` then `update(B)`) -/
theorem union_spec (s t : St) (hs : Inv s) (ht : Inv t) :
    Inv (union s t) ∧ ∀ u a, denS (union s t) u a ↔ denS s u a ∨ denS t u a := by
  obtain ⟨c1, c2⟩ := copy_spec s hs
  have := updateSet_spec (copy s) t (fun n hn => (c1.good n hn).1) (fun n hn => (ht.good n hn).1)
  unfold union
  refine ⟨this.1, fun u a => ?_⟩
  rw [this.2 u a, denS_of_mem s (copy s) c2]

end NV.IPSet
