import NetaddrVerif.Model.Cidr

namespace NV

/-! The backward merge sweep of cidr_merge (Model/Cidr.lean `sweep`) yields interval normal form. -/
/-- spec-level single-family form of `mergeSweep` -/
def sweep : List Iv → Iv → List Iv → List Iv
  | [], cur, done => cur :: done
  | p :: rest, cur, done =>
    if (cur.first : Int) - 1 ≤ p.last then sweep rest ⟨min p.first cur.first, cur.last⟩ done
    else sweep rest p (cur :: done)

def Iv.mem (r : Iv) (a : Nat) : Prop := r.first ≤ a ∧ a ≤ r.last
def ivden (l : List Iv) (a : Nat) : Prop := ∃ r ∈ l, r.mem a

/-- normal form: valid intervals, ascending, neither overlapping nor adjacent -/
def IvNorm : List Iv → Prop
  | [] => True
  | [r] => r.first ≤ r.last
  | r :: s :: t => r.first ≤ r.last ∧ r.last + 1 < s.first ∧ IvNorm (s :: t)

theorem ivnorm_cons {r s : Iv} {t : List Iv} :
    IvNorm (r :: s :: t) ↔ r.first ≤ r.last ∧ r.last + 1 < s.first ∧ IvNorm (s :: t) := Iff.rfl

theorem ivnorm_head_valid : ∀ {r : Iv} {t : List Iv}, IvNorm (r :: t) → r.first ≤ r.last
  | _, [], h => h
  | _, _ :: _, h => h.1

theorem sweep_spec : ∀ (rest : List Iv) (cur : Iv) (done : List Iv),
    -- rest is descending by last and bounded by cur.last; all intervals valid
    (∀ p ∈ rest, p.first ≤ p.last ∧ p.last ≤ cur.last) →
    rest.Pairwise (fun p q => q.last ≤ p.last) →
    IvNorm (cur :: done) →
    IvNorm (sweep rest cur done) ∧
    (∀ a, ivden (sweep rest cur done) a ↔ ivden rest a ∨ ivden (cur :: done) a)
  | [], cur, done, _, _, hn => by
    simp only [sweep]
    exact ⟨hn, fun a => by simp [ivden]⟩
  | p :: rest, cur, done, hb, hs, hn => by
    have hp := hb p (by simp)
    have hs' := List.pairwise_cons.1 hs
    have hcv := ivnorm_head_valid hn
    simp only [sweep]
    by_cases hc : (cur.first : Int) - 1 ≤ p.last
    · simp only [hc, if_true]
      have hn' : IvNorm (⟨min p.first cur.first, cur.last⟩ :: done) := by
        cases done with
        | nil => simp only [IvNorm]; omega
        | cons s t =>
          rw [ivnorm_cons] at hn ⊢
          exact ⟨by simp only; omega, hn.2.1, hn.2.2⟩
      obtain ⟨r1, r2⟩ := sweep_spec rest ⟨min p.first cur.first, cur.last⟩ done
        (fun q hq => ⟨(hb q (List.mem_cons_of_mem _ hq)).1, by
          have := hs'.1 q hq; simp only; omega⟩) hs'.2 hn'
      refine ⟨r1, fun a => ?_⟩
      rw [r2 a]
      simp only [ivden, List.mem_cons, Iv.mem]
      constructor
      · rintro (⟨q, hq, hqa⟩ | ⟨q, hq | hq, hqa⟩)
        · exact Or.inl ⟨q, Or.inr hq, hqa⟩
        · subst hq
          simp only at hqa
          by_cases h : p.first ≤ a ∧ a ≤ p.last
          · exact Or.inl ⟨p, Or.inl rfl, h⟩
          · exact Or.inr ⟨cur, Or.inl rfl, by omega⟩
        · exact Or.inr ⟨q, Or.inr hq, hqa⟩
      · rintro (⟨q, hq | hq, hqa⟩ | ⟨q, hq | hq, hqa⟩)
        · subst hq; exact Or.inr ⟨_, Or.inl rfl, by simp only; omega⟩
        · exact Or.inl ⟨q, hq, hqa⟩
        · subst hq; exact Or.inr ⟨_, Or.inl rfl, by simp only; omega⟩
        · exact Or.inr ⟨q, Or.inr hq, hqa⟩
    · simp only [hc, if_false]
      have hn' : IvNorm (p :: cur :: done) := by
        rw [ivnorm_cons]; exact ⟨hp.1, by omega, hn⟩
      obtain ⟨r1, r2⟩ := sweep_spec rest p (cur :: done)
        (fun q hq => ⟨(hb q (List.mem_cons_of_mem _ hq)).1, hs'.1 q hq⟩) hs'.2 hn'
      refine ⟨r1, fun a => ?_⟩
      rw [r2 a]
      simp only [ivden, List.mem_cons]
      constructor
      · rintro (⟨q, hq, hqa⟩ | ⟨q, hq | hq, hqa⟩)
        · exact Or.inl ⟨q, Or.inr hq, hqa⟩
        · subst hq; exact Or.inl ⟨q, Or.inl rfl, hqa⟩
        · exact Or.inr ⟨q, hq, hqa⟩
      · rintro (⟨q, hq | hq, hqa⟩ | ⟨q, hq, hqa⟩)
        · subst hq; exact Or.inr ⟨q, Or.inl rfl, hqa⟩
        · exact Or.inl ⟨q, hq, hqa⟩
        · exact Or.inr ⟨q, Or.inr hq, hqa⟩


end NV
