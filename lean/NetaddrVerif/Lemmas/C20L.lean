import NetaddrVerif.Model.Splitter
import NetaddrVerif.Props.C09
import NetaddrVerif.Props.C11
/-! Helper lemmas for C20 (SubnetSplitter): address sets of block lists, the set operations of
    the model (`unionSet`, `moveToFront`, `eraseP`), and the repeated `cidr_exclude` of
    `extract_subnet`. -/
namespace NV.C20L
open NV NV.Splitter NV.C09L

/-- the address set of a network: `first .. last` -/
def nmem (n : Net) (a : Nat) : Prop := n.first ≤ a ∧ a ≤ n.last
/-- two networks share no address -/
def Dj (x y : Net) : Prop := ∀ a, ¬ (nmem x a ∧ nmem y a)
/-- the union of a list of networks -/
def Cov (l : List Net) (a : Nat) : Prop := ∃ n ∈ l, nmem n a

theorem dj_symm {x y : Net} (h : Dj x y) : Dj y x := fun a ⟨h1, h2⟩ => h a ⟨h2, h1⟩

theorem cov_append (l₁ l₂ : List Net) (a : Nat) : Cov (l₁ ++ l₂) a ↔ Cov l₁ a ∨ Cov l₂ a := by
  simp only [Cov, List.mem_append, or_and_right, exists_or]

theorem cov_cons (x : Net) (l : List Net) (a : Nat) : Cov (x :: l) a ↔ nmem x a ∨ Cov l a := by
  simp [Cov]

theorem cov_nil (a : Nat) : ¬ Cov [] a := by simp [Cov]

theorem cov_perm {l₁ l₂ : List Net} (h : l₁.Perm l₂) (a : Nat) : Cov l₁ a ↔ Cov l₂ a := by
  simp only [Cov]
  constructor
  · rintro ⟨n, hn, hm⟩; exact ⟨n, h.mem_iff.1 hn, hm⟩
  · rintro ⟨n, hn, hm⟩; exact ⟨n, h.mem_iff.2 hn, hm⟩

theorem pairwise_dj_perm {l₁ l₂ : List Net} (h : l₁.Perm l₂) (hp : l₁.Pairwise Dj) : l₂.Pairwise Dj :=
  (h.pairwise_iff (fun h => dj_symm h)).1 hp

/-- `keyEq` is equality of (version, first, last) -/
theorem keyEq_iff (a b : Net) : keyEq a b = true ↔ a.ver = b.ver ∧ a.first = b.first ∧ a.last = b.last := by
  simp [keyEq, and_assoc]

theorem keyEq_refl (a : Net) : keyEq a a = true := (keyEq_iff a a).2 ⟨rfl, rfl, rfl⟩

theorem nmem_of_keyEq {a b : Net} (h : keyEq a b = true) (x : Nat) : nmem a x ↔ nmem b x := by
  obtain ⟨_, h1, h2⟩ := (keyEq_iff a b).1 h
  simp only [nmem, h1, h2]

/-! ### `self._subnets.union(set(remaining))` -/

theorem unionSet_cons (s : List Net) (r : Net) (rem : List Net) :
    unionSet s (r :: rem) = unionSet (if s.any (keyEq r) then s else s ++ [r]) rem := by
  simp [unionSet]

theorem unionSet_sublist : ∀ (rem s : List Net), (unionSet s rem).Sublist (s ++ rem) := by
  intro rem
  induction rem with
  | nil => intro s; simp [unionSet]
  | cons r rem ih =>
    intro s
    rw [unionSet_cons]
    by_cases h : s.any (keyEq r)
    · rw [if_pos h]
      exact (ih s).trans (List.Sublist.append_left (List.sublist_cons_self r rem) s)
    · rw [if_neg h]
      have := ih (s ++ [r])
      simpa [List.append_assoc] using this

theorem unionSet_cov : ∀ (rem s : List Net) (a : Nat), Cov (unionSet s rem) a ↔ Cov s a ∨ Cov rem a := by
  intro rem
  induction rem with
  | nil => intro s a; simp [unionSet, cov_nil]
  | cons r rem ih =>
    intro s a
    rw [unionSet_cons, ih, cov_cons]
    by_cases h : s.any (keyEq r)
    · rw [if_pos h]
      obtain ⟨x, hx, hk⟩ := List.any_eq_true.1 h
      have hxr := nmem_of_keyEq hk a
      constructor
      · rintro (h1 | h1)
        · exact Or.inl h1
        · exact Or.inr (Or.inr h1)
      · rintro (h1 | h1 | h1)
        · exact Or.inl h1
        · exact Or.inl ⟨x, hx, hxr.1 h1⟩
        · exact Or.inr h1
    · rw [if_neg h, cov_append]
      have : Cov [r] a ↔ nmem r a := by simp [Cov]
      rw [this]
      constructor
      · rintro ((h1 | h1) | h1)
        · exact Or.inl h1
        · exact Or.inr (Or.inl h1)
        · exact Or.inr (Or.inr h1)
      · rintro (h1 | h1 | h1)
        · exact Or.inl (Or.inl h1)
        · exact Or.inl (Or.inr h1)
        · exact Or.inr h1

/-! ### `moveToFront` only changes the modelled iteration order -/

theorem find_cons_eraseP_perm (p : Net → Bool) : ∀ (s : List Net) (x : Net), s.find? p = some x →
    (x :: s.eraseP p).Perm s := by
  intro s
  induction s with
  | nil => intro x h; simp at h
  | cons y ys ih =>
    intro x h
    by_cases hy : p y
    · simp only [List.find?_cons, hy] at h
      have : y = x := by simpa using h
      subst this
      simp [List.eraseP_cons, hy]
    · have hy' : p y = false := by simpa using hy
      simp only [List.find?_cons, hy'] at h
      have := ih x h
      simp only [List.eraseP_cons, hy']
      exact (List.Perm.swap y x _).trans (List.Perm.cons y this)

theorem moveToFront_perm (s : List Net) (h : Net) : (moveToFront s h).Perm s := by
  unfold moveToFront
  cases hf : s.find? (keyEq h) with
  | none => exact List.Perm.refl _
  | some x => exact find_cons_eraseP_perm _ s x hf

theorem reorder_perm (s : List Net) (h : Option Net) : (reorder s h).Perm s := by
  cases h with
  | none => exact List.Perm.refl _
  | some x => exact moveToFront_perm s x

theorem available_perm (s : List Net) : (availableSubnets s).Perm s := List.mergeSort_perm _ _

/-! ### repeated `cidr_exclude` -/

/-- pairwise disjoint list of networks of width `w` -/
def PD (w : Nat) (l : List Pfx) : Prop := l.Pairwise (fun x y => ∀ a, ¬ (x.mem w a ∧ y.mem w a))
def pcov (w : Nat) (l : List Pfx) (a : Nat) : Prop := ∃ x ∈ l, x.mem w a

/-- for a host-bit-free network the address set is its block -/
theorem mem_blk_of_aligned (w : Nat) (x : Pfx) (hx : PWF w x) (hal : x.val % 2 ^ (w - x.plen) = 0) (a : Nat) :
    x.mem w a ↔ (blk w x).mem a := by
  rw [pfx_mem_iff w x hx]
  have : x.first w = x.val := by
    rw [pfx_first_eq w x hx]
    have := Nat.div_add_mod x.val (2 ^ (w - x.plen))
    rw [hal] at this; rw [Nat.mul_comm]; omega
  rw [this]; rfl

theorem canon_pairwise_disj (l : List Blk) (h : Canon l) : l.Pairwise (fun b c => b.disj c) := by
  have := h.sorted
  apply List.Pairwise.imp_of_mem _ this
  intro b c hb hc hlt
  exact h.dj b hb c hc (by intro e; subst e; omega)

/-- one `cidr_exclude`: disjoint pieces of T, well-formed, covering exactly T \ E -/
theorem exclude_facts (w : Nat) (t e : Pfx) (ht : PWF w t) (he : PWF w e) :
    PD w (cidrExclude w t e) ∧ (∀ x ∈ cidrExclude w t e, PWF w x) ∧
    (∀ a, pcov w (cidrExclude w t e) a ↔ t.mem w a ∧ ¬ e.mem w a) := by
  obtain ⟨hden, hcan, hwf⟩ := C09.exclude_spec w t e ht he
  have hmem : ∀ x ∈ cidrExclude w t e, ∀ a, x.mem w a ↔ (blk w x).mem a :=
    fun x hx a => mem_blk_of_aligned w x (hwf x hx).1 (hwf x hx).2.2 a
  refine ⟨?_, fun x hx => (hwf x hx).1, ?_⟩
  · have hp := canon_pairwise_disj _ hcan
    unfold blks at hp
    rw [List.pairwise_map] at hp
    unfold PD
    apply List.Pairwise.imp_of_mem _ hp
    intro x y hx hy hd a ⟨h1, h2⟩
    exact hd a ⟨(hmem x hx a).1 h1, (hmem y hy a).1 h2⟩
  · intro a
    rw [← hden a]
    simp only [pcov, den, blks, List.mem_map]
    constructor
    · rintro ⟨x, hx, hm⟩; exact ⟨blk w x, ⟨x, hx, rfl⟩, (hmem x hx a).1 hm⟩
    · rintro ⟨b, ⟨x, hx, rfl⟩, hm⟩; exact ⟨x, hx, (hmem x hx a).2 hm⟩

/-- one turn of the `for merged in …` loop: every remaining block is cut around `m` -/
theorem flatMap_exclude (w : Nat) (m : Pfx) (hm : PWF w m) (l : List Pfx) (hpd : PD w l) (hwf : ∀ x ∈ l, PWF w x) :
    PD w (l.flatMap (fun b => cidrExclude w b m)) ∧
    (∀ x ∈ l.flatMap (fun b => cidrExclude w b m), PWF w x) ∧
    (∀ a, pcov w (l.flatMap (fun b => cidrExclude w b m)) a ↔ pcov w l a ∧ ¬ m.mem w a) := by
  refine ⟨?_, ?_, ?_⟩
  · unfold PD
    rw [List.pairwise_flatMap]
    refine ⟨fun b hb => (exclude_facts w b m (hwf b hb) hm).1, ?_⟩
    apply List.Pairwise.imp_of_mem _ hpd
    intro b c hb hc hd x hx y hy a ⟨h1, h2⟩
    have hx' := ((exclude_facts w b m (hwf b hb) hm).2.2 a).1 ⟨x, hx, h1⟩
    have hy' := ((exclude_facts w c m (hwf c hc) hm).2.2 a).1 ⟨y, hy, h2⟩
    exact hd a ⟨hx'.1, hy'.1⟩
  · intro x hx
    obtain ⟨b, hb, hxb⟩ := List.mem_flatMap.1 hx
    exact (exclude_facts w b m (hwf b hb) hm).2.1 x hxb
  · intro a
    constructor
    · rintro ⟨x, hx, hma⟩
      obtain ⟨b, hb, hxb⟩ := List.mem_flatMap.1 hx
      have := ((exclude_facts w b m (hwf b hb) hm).2.2 a).1 ⟨x, hxb, hma⟩
      exact ⟨⟨b, hb, this.1⟩, this.2⟩
    · rintro ⟨⟨b, hb, hba⟩, hnm⟩
      obtain ⟨x, hx, hxa⟩ := ((exclude_facts w b m (hwf b hb) hm).2.2 a).2 ⟨hba, hnm⟩
      exact ⟨x, List.mem_flatMap.2 ⟨b, hb, hx⟩, hxa⟩

/-- the whole loop: what remains is the start list minus every merged block -/
theorem subtract_fold (w : Nat) : ∀ (ms : List Net) (l : List Pfx),
    (∀ m ∈ ms, PWF w ⟨m.val, m.plen⟩) → PD w l → (∀ x ∈ l, PWF w x) →
    let r := ms.foldl (fun rem m => rem.flatMap (fun b => cidrExclude w b ⟨m.val, m.plen⟩)) l
    PD w r ∧ (∀ x ∈ r, PWF w x) ∧
    (∀ a, pcov w r a ↔ pcov w l a ∧ ¬ ∃ m ∈ ms, (Pfx.mk m.val m.plen).mem w a) := by
  intro ms
  induction ms with
  | nil => intro l _ hpd hwf; simp only [List.foldl_nil]; exact ⟨hpd, hwf, by simp⟩
  | cons m ms ih =>
    intro l hms hpd hwf
    simp only [List.foldl_cons]
    obtain ⟨h1, h2, h3⟩ := flatMap_exclude w ⟨m.val, m.plen⟩ (hms m (by simp)) l hpd hwf
    obtain ⟨i1, i2, i3⟩ := ih _ (fun m' hm' => hms m' (List.mem_cons_of_mem _ hm')) h1 h2
    refine ⟨i1, i2, ?_⟩
    intro a
    rw [i3 a, h3 a]
    simp only [List.mem_cons, exists_eq_or_imp]
    constructor
    · rintro ⟨⟨hl, hnm⟩, hn⟩; exact ⟨hl, fun h => h.elim hnm hn⟩
    · rintro ⟨hl, hn⟩; exact ⟨⟨hl, fun h => hn (Or.inl h)⟩, fun h => hn (Or.inr h)⟩

end NV.C20L
