/-
Lemmas/C08LBare.lean — separator-less dialects with MORE THAN ONE word (audit round 2a,
finding 14): `class nosep(mac_eui48): word_sep = ''` keeps word_size 8, num_words 6 and
`'%.2X'`, so its text is twelve hex digits — the bare spelling — and parses back; `fits`
(Lemmas/C08LText.lean) only allows an empty separator for one-word dialects.  `fitsBare` is the
missing case: every word printed with exactly `word_size / 4` digits and nothing in between.
Core only.
-/
import NetaddrVerif.Lemmas.C08LText
namespace NV.Eui
open NV.Py NV.PyL NV.Codec NV.Gen

/-- what makes the printed text of a separator-less dialect one bare numeral that the one-group
    row `f` captures: the words are printed with exactly `pad = word_size / 4` digits each (so
    that the digits of the words line up to the digits of the value), and their total
    `pad * num_words` is within the row's bounds -/
def fitsBare (d : Dialect) (f : MacFmt) (width : Nat) : Bool :=
  (f.sep == []) && (f.groups == 1) && (d.sep == []) && decide (1 ≤ d.numWords) &&
  (d.wordSize == 4 * d.pad) && decide (1 ≤ d.pad) && (d.wordSize * d.numWords == width) &&
  decide (f.lo ≤ d.pad * d.numWords) && decide (d.pad * d.numWords ≤ f.hi)

theorem intercalate_nil_sep {α} (l : List (List α)) : ([] : List α).intercalate l = l.flatten := by
  induction l with
  | nil => rfl
  | cons a r ih =>
    cases r with
    | nil => simp [List.intercalate, List.intersperse]
    | cons b r' =>
      rw [List.intercalate_cons_cons, ih]
      simp

/-- value of the concatenation of words printed with exactly `pad` digits each -/
theorem digitsNat_flatten_fmtHex (pad : Nat) (upper : Bool) (l : List Nat)
    (hl : ∀ w ∈ l, (fmtHex pad upper w).length = pad) (acc : Nat) :
    digitsNat 16 (l.map (fmtHex pad upper)).flatten acc = l.foldl (fun a n => a * 2 ^ (4 * pad) + n) acc := by
  induction l generalizing acc with
  | nil => simp [digitsNat]
  | cons w r ih =>
    simp only [List.map_cons, List.flatten_cons, digitsNat_append, List.foldl_cons]
    rw [fmtHex_val, hl w (by simp), ih (fun u hu => hl u (by simp [hu]))]
    have : (16 : Nat) ^ pad = 2 ^ (4 * pad) := by rw [Nat.pow_mul]
    rw [this]

/-- the printed text of such a dialect: one hex token of `pad * num_words` digits whose value is v -/
theorem print_bare (d : Dialect) (f : MacFmt) (width : Nat) (hfit : fitsBare d f width = true)
    (v : Nat) (hv : v < 2 ^ width) :
    let s := ((wordsLoop d.wordSize d.numWords v).reverse.map (fmtHex d.pad d.upper)).flatten
    intToStr d v = .ok s ∧ HexTok s ∧ s.length = d.pad * d.numWords ∧ tokVal s = v ∧
    f.sep = [] ∧ f.groups = 1 ∧ f.lo ≤ s.length ∧ s.length ≤ f.hi := by
  intro s
  simp only [fitsBare, Bool.and_eq_true, beq_iff_eq, decide_eq_true_eq] at hfit
  obtain ⟨⟨⟨⟨⟨⟨⟨⟨g1, g2⟩, g3⟩, g4⟩, g5⟩, g6⟩, g7⟩, g8⟩, g9⟩ := hfit
  have hWlt : ∀ w ∈ (wordsLoop d.wordSize d.numWords v).reverse, w < 16 ^ d.pad := by
    intro w hw
    have := wordsLoop_lt d.wordSize d.numWords v w (by simpa using hw)
    rw [g5, Nat.pow_mul] at this; exact this
  have hlen : ∀ w ∈ (wordsLoop d.wordSize d.numWords v).reverse, (fmtHex d.pad d.upper w).length = d.pad := by
    intro w hw
    have := fmtHex_length_bounds d.pad d.upper w d.pad (hWlt w hw) g6
    omega
  have hvv : v ≤ 2 ^ (d.numWords * d.wordSize) - 1 := by
    rw [Nat.mul_comm, g7]; omega
  have hprint : intToStr d v = .ok s := by
    simp only [intToStr, intToWords, if_pos hvv, g3]
    show Except.ok (([] : List Char).intercalate _) = _
    rw [intercalate_nil_sep]
  have hslen : s.length = d.pad * d.numWords := by
    have : ∀ (l : List Nat), (∀ w ∈ l, (fmtHex d.pad d.upper w).length = d.pad) →
        ((l.map (fmtHex d.pad d.upper)).flatten).length = d.pad * l.length := by
      intro l
      induction l with
      | nil => intro _; simp
      | cons a r ih =>
        intro h
        simp only [List.map_cons, List.flatten_cons, List.length_append, List.length_cons]
        rw [h a (by simp), ih (fun u hu => h u (by simp [hu])), Nat.mul_succ]; omega
    have := this _ hlen
    simpa [s, wordsLoop_length] using this
  have hne : s ≠ [] := by
    intro e
    rw [e] at hslen
    simp only [List.length_nil] at hslen
    have : 0 < d.pad * d.numWords := Nat.mul_pos (by omega) (by omega)
    omega
  have hhex : ∀ c ∈ s, isHex c = true := by
    intro c hc
    simp only [s, List.mem_flatten, List.mem_map] at hc
    obtain ⟨l, ⟨w, _, rfl⟩, hcl⟩ := hc
    exact hexDigitChar_isHex c (fmtHex_chars _ _ _ c hcl)
  have hval : tokVal s = v := by
    show digitsNat 16 s 0 = v
    rw [digitsNat_flatten_fmtHex d.pad d.upper _ hlen 0, horner_eq]
    simp only [Nat.zero_mul, Nat.zero_add, List.reverse_reverse, ← g5, leValue_wordsLoop, g7]
    exact Nat.mod_eq_of_lt hv
  exact ⟨hprint, ⟨hne, hhex⟩, hslen, hval, g1, g2, by rw [hslen]; exact g8, by rw [hslen]; exact g9⟩

/-- a hex token is a one-token spelling (under any non-hex separator character) -/
theorem tok_spelling (s : List Char) (h : HexTok s) : Spelling ':' [s] ∧ [':'].intercalate [s] = s := by
  refine ⟨⟨by decide, by decide, by simp, ?_⟩, by simp [List.intercalate, List.intersperse]⟩
  intro t ht
  simp only [List.mem_singleton] at ht
  subst ht
  exact h

end NV.Eui
