import NetaddrVerif.Model.Cidr

namespace NV

/-! The halving loop of cidr_partition (Model/Cidr.lean `partLoop`): interval denotation of `left`/`right`. -/
theorem pp (k : Nat) : 0 < 2 ^ k := Nat.pos_of_ne_zero (by simp)

def bmem (w : Nat) (b : Pfx) (a : Nat) : Prop := b.val ≤ a ∧ a < b.val + 2 ^ (w - b.plen)
def lden (w : Nat) (l : List Pfx) (a : Nat) : Prop := ∃ b ∈ l, bmem w b a

theorem lden_append (w : Nat) (l : List Pfx) (b : Pfx) (a : Nat) :
    lden w (l ++ [b]) a ↔ lden w l a ∨ bmem w b a := by
  simp [lden, or_and_right, exists_or]

/-- two multiples of S: strict order leaves room for a whole S -/
theorem mult_gap (S x e : Nat) (hx : x % S = 0) (he : e % S = 0) (h : e < x) : e + S ≤ x := by
  obtain ⟨x', rfl⟩ := Nat.dvd_of_mod_eq_zero hx
  obtain ⟨e', rfl⟩ := Nat.dvd_of_mod_eq_zero he
  have hS : 0 < S := by
    rcases Nat.eq_zero_or_pos S with h0 | h0
    · subst h0; simp at h
    · exact h0
  have : e' < x' := Nat.lt_of_mul_lt_mul_left h
  calc S * e' + S = S * (e' + 1) := by rw [Nat.mul_succ]
    _ ≤ S * x' := Nat.mul_le_mul_left S this

theorem pow_half (w np : Nat) (h : np + 1 ≤ w) : 2 ^ (w - np) = 2 * 2 ^ (w - (np + 1)) := by
  have : w - np = (w - (np + 1)) + 1 := by omega
  rw [this, Nat.pow_succ, Nat.mul_comm]

theorem pow_dvd (w np ep : Nat) (h1 : np ≤ ep) (h2 : ep ≤ w) : 2 ^ (w - np) % 2 ^ (w - ep) = 0 := by
  have : w - np = (w - ep) + (ep - np) := by omega
  rw [this, Nat.pow_add]; simp

theorem partLoop_spec (w ef ep t tend : Nat) (hep : ep ≤ w) (hal : ef % 2 ^ (w - ep) = 0) :
    ∀ (fuel np iLower : Nat) (left right : List Pfx),
      fuel = ep + 1 - np → 1 ≤ np → np ≤ ep + 1 → np ≤ w →
      iLower % (2 * 2 ^ (w - np)) = 0 →
      iLower ≤ ef → ef + 2 ^ (w - ep) ≤ iLower + 2 * 2 ^ (w - np) →
      t ≤ iLower → iLower + 2 * 2 ^ (w - np) ≤ tend →
      (∀ a, lden w left a ↔ t ≤ a ∧ a < iLower) →
      (∀ a, lden w right a ↔ iLower + 2 * 2 ^ (w - np) ≤ a ∧ a < tend) →
      (∀ a, lden w (partLoop w ef ep np iLower (iLower + 2 ^ (w - np)) left right).1 a ↔ t ≤ a ∧ a < ef) ∧
      (∀ a, lden w (partLoop w ef ep np iLower (iLower + 2 ^ (w - np)) left right).2 a ↔
          ef + 2 ^ (w - ep) ≤ a ∧ a < tend) := by
  intro fuel
  induction fuel with
  | zero =>
    intro np iLower left right hf h1 h2 h3 hal2 hlo hhi ht htend hL hR
    have hnp : np = ep + 1 := by omega
    -- loop not entered; the enclosing block has the size of the excluded block
    have hsz : 2 * 2 ^ (w - np) = 2 ^ (w - ep) := by
      rw [hnp]; exact (pow_half w ep (by omega)).symm
    have : iLower = ef := by omega
    unfold partLoop
    have hng : ¬ ep ≥ np := by omega
    simp only [hng, dite_false]
    subst this
    constructor
    · intro a; rw [hL a]
    · intro a; rw [hR a, hsz]
  | succ fuel ih =>
    intro np iLower left right hf h1 h2 h3 hal2 hlo hhi ht htend hL hR
    have hge : ep ≥ np := by omega
    have hS := pp (w - ep)
    have hH := pp (w - np)
    have hdvd := pow_dvd w np ep hge hep
    -- iUpper is a multiple of S
    have hILmodH : iLower % 2 ^ (w - np) = 0 := by
      have := Nat.mod_mul_right_mod iLower (2 ^ (w - np)) 2
      rw [Nat.mul_comm] at hal2
      rw [hal2] at this; simpa using this.symm
    have hIUmodS : (iLower + 2 ^ (w - np)) % 2 ^ (w - ep) = 0 := by
      have h1' : iLower % 2 ^ (w - ep) = 0 := by
        obtain ⟨m, hm⟩ := Nat.dvd_of_mod_eq_zero hdvd
        obtain ⟨q, hq⟩ := Nat.dvd_of_mod_eq_zero hILmodH
        rw [hq, hm, Nat.mul_assoc]; simp
      rw [Nat.add_mod, h1', hdvd]; simp
    unfold partLoop
    simp only [hge, dite_true]
    by_cases hcase : ef ≥ iLower + 2 ^ (w - np)
    · -- excluded block is in the upper half: emit the lower half to the left
      simp only [hcase, ite_true]
      have hL' : ∀ a, lden w (left ++ [⟨iLower, np⟩]) a ↔ t ≤ a ∧ a < iLower + 2 ^ (w - np) := by
        intro a; rw [lden_append, hL a]; simp only [bmem]; omega
      by_cases hbrk : np + 1 > w
      · simp only [hbrk, ite_true]
        have hnw : np = w := by omega
        have hew : ep = w := by omega
        subst hnw
        rw [hew] at hhi hS ⊢
        simp at hhi hcase ⊢
        have : ef = iLower + 1 := by omega
        subst this
        constructor
        · intro a; rw [hL' a]; simp
        · intro a; have := hR a; simp at this ⊢; rw [this]
      · simp only [hbrk, ite_false]
        have hhalf := pow_half w np (by omega)
        have := ih (np + 1) (iLower + 2 ^ (w - np)) (left ++ [⟨iLower, np⟩]) right
          (by omega) (by omega) (by omega) (by omega)
          (by rw [← hhalf]; rw [Nat.add_mod, hILmodH]; simp)
          hcase (by rw [← hhalf]; omega) (by omega) (by rw [← hhalf]; omega)
          hL' (by intro a; rw [hR a, ← hhalf]; omega)
        exact this
    · -- excluded block is in the lower half: emit the upper half to the right
      simp only [hcase, ite_false]
      have hlt : ef < iLower + 2 ^ (w - np) := by omega
      have hfit : ef + 2 ^ (w - ep) ≤ iLower + 2 ^ (w - np) := mult_gap _ _ _ hIUmodS hal hlt
      have hR' : ∀ a, lden w (right ++ [⟨iLower + 2 ^ (w - np), np⟩]) a ↔
          iLower + 2 ^ (w - np) ≤ a ∧ a < tend := by
        intro a; rw [lden_append, hR a]; simp only [bmem]; omega
      by_cases hbrk : np + 1 > w
      · simp only [hbrk, ite_true]
        have hnw : np = w := by omega
        have hew : ep = w := by omega
        subst hnw
        rw [hew] at hfit ⊢
        simp at hfit hlt ⊢
        have : ef = iLower := by omega
        subst this
        constructor
        · intro a; rw [hL a]
        · intro a; have := hR' a; simp at this ⊢; exact this
      · simp only [hbrk, ite_false]
        have hhalf := pow_half w np (by omega)
        have := ih (np + 1) iLower left (right ++ [⟨iLower + 2 ^ (w - np), np⟩])
          (by omega) (by omega) (by omega) (by omega)
          (by rw [← hhalf]; exact hILmodH)
          hlo (by rw [← hhalf]; exact hfit) ht (by rw [← hhalf]; omega)
          hL (by intro a; rw [hR' a, ← hhalf])
        exact this

end NV
