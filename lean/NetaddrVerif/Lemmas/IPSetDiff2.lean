/-
Lemmas/IPSetDiff2.lean — `_subtract(supernet, subnets, idx, ranges)`: for a block `sup` and an
ascending key list whose head lies inside `sup`, the appended `(version, first, last)` tuples
are valid, ascending, not overlapping, inside `sup`, and denote exactly `sup` minus the
consumed keys; the consumed keys are the maximal prefix lying inside `sup`, and every key
left over lies entirely above `sup` (C07/C06).
-/
import NetaddrVerif.Lemmas.IPSetDiff1
namespace NV.IPSet
open NV NV.Blk

/-- range tuples: valid, ascending, not overlapping -/
def AscR (l : List VR) : Prop := (∀ r ∈ l, VROK r) ∧ l.Pairwise (fun r r' => r.H < r'.L)

theorem ascR_nil : AscR [] := ⟨by simp, List.Pairwise.nil⟩

theorem nden_mono {l l' : List Net} (h : ∀ n ∈ l, n ∈ l') (x : Nat) : nden l x → nden l' x := by
  rintro ⟨n, hn, hx⟩; exact ⟨n, h n hn, hx⟩

theorem subtractLoop_cons (sup prev c : Net) (rest : List Net) (acc : List VR) :
    subtractLoop sup prev (c :: rest) acc =
      if !netIn c sup then (c :: rest, acc, prev)
      else if prev.last + 1 == c.first then subtractLoop sup c rest acc
      else subtractLoop sup c rest (acc ++ [(sup.ver, prev.last + 1, c.first - 1)]) := rfl

/-- the `while` loop of `_subtract` -/
theorem subtractLoop_spec (sup : Net) (hsup : Good sup) : ∀ (subs : List Net) (prev : Net) (acc : List VR),
    Asc (prev :: subs) → netIn prev sup = true →
    ∃ pre new rest' prev', subtractLoop sup prev subs acc = (rest', acc ++ new, prev') ∧
      subs = pre ++ rest' ∧
      (∀ c ∈ pre, netIn c sup = true) ∧
      (∀ c rest'', rest' = c :: rest'' → netIn c sup = false) ∧
      Good prev' ∧ netIn prev' sup = true ∧ H prev ≤ H prev' ∧
      (∀ c ∈ rest', H prev' < L c) ∧ (∀ c ∈ pre, H c ≤ H prev') ∧
      (∀ r ∈ new, VROK r ∧ H prev < r.L ∧ r.H ≤ H prev') ∧ new.Pairwise (fun r r' => r.H < r'.L) ∧
      ∀ x, rden new x ↔ (H prev < x ∧ x ≤ H prev' ∧ ¬ nden pre x) := by
  intro subs
  induction subs with
  | nil =>
    intro prev acc hasc hin
    refine ⟨[], [], [], prev, by simp [subtractLoop], rfl, by simp, by simp, asc_head hasc, hin,
      Nat.le_refl _, by simp, by simp, by simp, List.Pairwise.nil, fun x => ?_⟩
    have := rden_nil x; have := nden_nil x
    constructor
    · intro h; contradiction
    · rintro ⟨h1, h2, _⟩; omega
  | cons c rest ih =>
    intro prev acc hasc hin
    have hpg := asc_head hasc
    have hcg : Good c := hasc.1 c (by simp)
    have hlt : H prev < L c := asc_lt hasc c (by simp)
    have hasc' : Asc (c :: rest) := asc_tail hasc
    rw [subtractLoop_cons]
    by_cases h1 : netIn c sup = true
    · simp only [h1, Bool.not_true, Bool.false_eq_true, if_false]
      have hvp : prev.ver = sup.ver := netIn_ver _ _ hin
      have hvc : c.ver = sup.ver := netIn_ver _ _ h1
      have hcl := L_le_H c hcg.1
      by_cases h2 : (prev.last + 1 == c.first) = true
      · simp only [h2, if_true]
        obtain ⟨pre1, new1, rest', prev', e, hsplit, hpre, hhead, hg', hin', hle, hrest, hpreH, hnew, hpw, hden⟩ :=
          ih c acc hasc' h1
        refine ⟨c :: pre1, new1, rest', prev', e, by rw [hsplit]; rfl, ?_, hhead, hg', hin', by omega, hrest,
          ?_, ?_, hpw, fun x => ?_⟩
        · intro d hd
          rcases List.mem_cons.1 hd with rfl | hd
          · exact h1
          · exact hpre d hd
        · intro d hd
          rcases List.mem_cons.1 hd with rfl | hd
          · exact hle
          · exact hpreH d hd
        · intro r hr
          obtain ⟨k1, k2, k3⟩ := hnew r hr
          exact ⟨k1, by omega, k3⟩
        · have hab : nden pre1 x → H c < x := fun hx =>
            asc_above hasc' x (nden_mono (by intro n hn; rw [hsplit]; exact List.mem_append_left _ hn) x hx)
          have e2 : H prev + 1 = L c := by
            have := (beq_iff_eq).1 h2
            unfold H L; rw [hvp, hvc]; omega
          rw [hden x, nden_cons]
          grind
      · have h2' : (prev.last + 1 == c.first) = false := by simpa using h2
        simp only [h2', Bool.false_eq_true, if_false]
        obtain ⟨pre1, new1, rest', prev', e, hsplit, hpre, hhead, hg', hin', hle, hrest, hpreH, hnew, hpw, hden⟩ :=
          ih c (acc ++ [(sup.ver, prev.last + 1, c.first - 1)]) hasc' h1
        have hne : prev.last + 1 ≠ c.first := by simpa using h2'
        have hlt' : prev.last < c.first := by
          unfold H L at hlt; rw [hvp, hvc] at hlt; omega
        have gL : VR.L (sup.ver, prev.last + 1, c.first - 1) = H prev + 1 := by
          unfold VR.L H; rw [hvp]; simp only; omega
        have gH : VR.H (sup.ver, prev.last + 1, c.first - 1) + 1 = L c := by
          unfold VR.H L; rw [hvc]; simp only; omega
        have gok : VROK (sup.ver, prev.last + 1, c.first - 1) := by
          refine ⟨hsup.1.1, by simp only; omega, ?_⟩
          have q1 := last_lt c hcg.1; have q2 := first_le_last c hcg.1
          rw [hvc] at q1; simp only; omega
        refine ⟨c :: pre1, (sup.ver, prev.last + 1, c.first - 1) :: new1, rest', prev',
          by rw [e, List.append_assoc]; rfl, by rw [hsplit]; rfl, ?_, hhead, hg', hin', by omega, hrest,
          ?_, ?_, ?_, fun x => ?_⟩
        · intro d hd
          rcases List.mem_cons.1 hd with rfl | hd
          · exact h1
          · exact hpre d hd
        · intro d hd
          rcases List.mem_cons.1 hd with rfl | hd
          · exact hle
          · exact hpreH d hd
        · intro r hr
          rcases List.mem_cons.1 hr with rfl | hr
          · exact ⟨gok, by omega, by omega⟩
          · obtain ⟨k1, k2, k3⟩ := hnew r hr
            exact ⟨k1, by omega, k3⟩
        · refine List.pairwise_cons.2 ⟨?_, hpw⟩
          intro r hr
          obtain ⟨_, k2, _⟩ := hnew r hr
          omega
        · have hab : nden pre1 x → H c < x := fun hx =>
            asc_above hasc' x (nden_mono (by intro n hn; rw [hsplit]; exact List.mem_append_left _ hn) x hx)
          rw [rden_cons, hden x, nden_cons]
          grind
    · have h1' : netIn c sup = false := by simpa using h1
      simp only [h1', Bool.not_false, if_true]
      refine ⟨[], [], c :: rest, prev, by simp, rfl, by simp, ?_, hpg, hin, Nat.le_refl _, ?_, by simp, by simp,
        List.Pairwise.nil, fun x => ?_⟩
      · intro d rest'' e
        have : d = c := by simp at e; exact e.1.symm
        rw [this]; exact h1'
      · intro d hd; exact asc_lt hasc d hd
      · have := rden_nil x; have := nden_nil x
        constructor
        · intro h; contradiction
        · rintro ⟨h1, h2, _⟩; omega

/-- `_subtract(sup, subs, idx, ranges)` on the suffix `sub :: rest` of `subs` -/
theorem subtract_spec (sup : Net) (hsup : Good sup) (sub : Net) (rest : List Net) (ranges : List VR)
    (hasc : Asc (sub :: rest)) (hin : netIn sub sup = true) :
    ∃ pre new rest', subtract sup (sub :: rest) ranges = (rest', ranges ++ new) ∧
      sub :: rest = pre ++ rest' ∧ rest'.length ≤ rest.length ∧
      (∀ c ∈ rest', H sup < L c) ∧ (∀ x, nden pre x → L sup ≤ x ∧ x ≤ H sup) ∧
      (∀ r ∈ new, VROK r ∧ L sup ≤ r.L ∧ r.H ≤ H sup) ∧ new.Pairwise (fun r r' => r.H < r'.L) ∧
      ∀ x, rden new x ↔ (L sup ≤ x ∧ x ≤ H sup ∧ ¬ nden pre x) := by
  obtain ⟨pre1, new1, rest', prev', e, hsplit, hpre, hhead, hg', hin', hle, hrest, hpreH, hnew, hpw, hden⟩ :=
    subtractLoop_spec sup hsup rest sub
      (if sub.first > sup.first then ranges ++ [(sup.ver, sup.first, sub.first - 1)] else ranges) hasc hin
  have hsg := asc_head hasc
  have hvs : sub.ver = sup.ver := netIn_ver _ _ hin
  have hvp : prev'.ver = sup.ver := netIn_ver _ _ hin'
  have k1 := (netIn_LH sub sup hsg.1 hsup.1).1 hin
  have k2 := (netIn_LH prev' sup hg'.1 hsup.1).1 hin'
  have l1 := L_le_H sub hsg.1
  have l2 := L_le_H prev' hg'.1
  -- everything left over lies above `sup`
  have habove : ∀ c ∈ rest', H sup < L c := by
    cases hr : rest' with
    | nil => simp
    | cons d rest'' =>
      have hdn := hhead d rest'' hr
      have hasc2 : Asc (d :: rest'') := by
        have : Asc (pre1 ++ rest') := by rw [← hsplit]; exact asc_tail hasc
        rw [hr] at this; exact asc_suffix pre1 this
      have hdg := asc_head hasc2
      have hd1 : H prev' < L d := hrest d (by rw [hr]; simp)
      have hdl := L_le_H d hdg.1
      have hdabove : H sup < L d := by
        rcases laminar d sup hdg.1 hsup.1 with h | h | h | h
        · rw [hdn] at h; exact absurd h (by simp)
        · have := (netIn_LH sup d hsup.1 hdg.1).1 h; omega
        · omega
        · exact h
      intro c hc
      rcases List.mem_cons.1 hc with rfl | hc
      · exact hdabove
      · have := asc_lt hasc2 c hc; omega
  have hlen : rest'.length ≤ rest.length := by
    have := congrArg List.length hsplit; simp at this; omega
  -- unfold the three stages
  have hsub : subtract sup (sub :: rest) ranges =
      (rest', if prev'.last + 1 ≤ sup.last then
        ((if sub.first > sup.first then ranges ++ [(sup.ver, sup.first, sub.first - 1)] else ranges) ++ new1)
          ++ [(sup.ver, prev'.last + 1, sup.last)]
        else (if sub.first > sup.first then ranges ++ [(sup.ver, sup.first, sub.first - 1)] else ranges) ++ new1) := by
    simp only [subtract, e]
  rw [hsub]
  have hsf : sup.first ≤ sub.first := by unfold L at k1; rw [hvs] at k1; omega
  have hpl : prev'.last ≤ sup.last := by unfold H at k2; rw [hvp] at k2; omega
  -- initial gap
  have gL0 : VR.L (sup.ver, sup.first, sub.first - 1) = L sup := rfl
  have gH0 : sub.first > sup.first → VR.H (sup.ver, sup.first, sub.first - 1) + 1 = L sub := by
    intro h; unfold VR.H L; rw [hvs]; simp only; omega
  have gok0 : sub.first > sup.first → VROK (sup.ver, sup.first, sub.first - 1) := by
    intro h
    refine ⟨hsup.1.1, by simp only; omega, ?_⟩
    have := last_lt sup hsup.1; have := first_le_last sub hsg.1
    unfold H at k1; rw [hvs] at k1
    simp only; omega
  -- final gap
  have gL1 : VR.L (sup.ver, prev'.last + 1, sup.last) = H prev' + 1 := by
    unfold VR.L H; rw [hvp]; simp only; omega
  have gH1 : VR.H (sup.ver, prev'.last + 1, sup.last) = H sup := rfl
  have gok1 : prev'.last + 1 ≤ sup.last → VROK (sup.ver, prev'.last + 1, sup.last) := by
    intro h
    exact ⟨hsup.1.1, h, last_lt sup hsup.1⟩
  have hsupeq : H prev' ≤ H sup := k2.2
  have hLsub : L sup = L sub ↔ ¬ sub.first > sup.first := by
    unfold L; rw [hvs]; omega
  have hHfin : H prev' = H sup ↔ ¬ prev'.last + 1 ≤ sup.last := by
    unfold H; rw [hvp]; omega
  have hab : ∀ x, nden pre1 x → H sub < x := fun x hx =>
    asc_above hasc x (nden_mono (by intro n hn; rw [hsplit]; exact List.mem_append_left _ hn) x hx)
  refine ⟨sub :: pre1,
    (if sub.first > sup.first then [(sup.ver, sup.first, sub.first - 1)] else []) ++ new1 ++
      (if prev'.last + 1 ≤ sup.last then [(sup.ver, prev'.last + 1, sup.last)] else []),
    rest', ?_, by rw [hsplit]; rfl, hlen, habove, ?_, ?_, ?_, fun x => ?_⟩
  · by_cases c1 : sub.first > sup.first <;> by_cases c2 : prev'.last + 1 ≤ sup.last <;>
      simp [c1, c2, List.append_assoc]
  · rintro x ⟨n, hn, q1, q2⟩
    have hn' : n ∈ sub :: rest := by
      rcases List.mem_cons.1 hn with rfl | h
      · simp
      · rw [hsplit]; exact List.mem_cons_of_mem _ (List.mem_append_left _ h)
    have hin_n : netIn n sup = true := by
      rcases List.mem_cons.1 hn with rfl | h
      · exact hin
      · exact hpre n h
    have := (netIn_LH n sup (hasc.1 n hn').1 hsup.1).1 hin_n
    omega
  · intro r hr
    simp only [List.mem_append] at hr
    rcases hr with (hr | hr) | hr
    · by_cases c1 : sub.first > sup.first
      · simp only [c1, if_true, List.mem_singleton] at hr
        subst hr
        have := gH0 c1
        exact ⟨gok0 c1, by omega, by omega⟩
      · simp [c1] at hr
    · obtain ⟨q1, q2, q3⟩ := hnew r hr
      exact ⟨q1, by omega, by omega⟩
    · by_cases c2 : prev'.last + 1 ≤ sup.last
      · simp only [c2, if_true, List.mem_singleton] at hr
        subst hr
        exact ⟨gok1 c2, by omega, by omega⟩
      · simp [c2] at hr
  · rw [List.pairwise_append, List.pairwise_append]
    refine ⟨⟨?_, hpw, ?_⟩, ?_, ?_⟩
    · split <;> simp
    · intro a ha b hb
      by_cases c1 : sub.first > sup.first
      · simp only [c1, if_true, List.mem_singleton] at ha
        subst ha
        obtain ⟨_, q2, _⟩ := hnew b hb
        have := gH0 c1; omega
      · simp [c1] at ha
    · split <;> simp
    · intro a ha b hb
      by_cases c2 : prev'.last + 1 ≤ sup.last
      · simp only [c2, if_true, List.mem_singleton] at hb
        subst hb
        rcases List.mem_append.1 ha with ha | ha
        · by_cases c1 : sub.first > sup.first
          · simp only [c1, if_true, List.mem_singleton] at ha
            subst ha
            have := gH0 c1; omega
          · simp [c1] at ha
        · obtain ⟨_, _, q3⟩ := hnew a ha
          omega
      · simp [c2] at hb
  · rw [rden_append, rden_append, hden x, nden_cons]
    have hx := hab x
    have hx2 : nden pre1 x → x ≤ H prev' := by
      rintro ⟨n, hn, _, q⟩; have := hpreH n hn; omega
    by_cases c1 : sub.first > sup.first <;> by_cases c2 : prev'.last + 1 ≤ sup.last
    · have := gH0 c1
      simp only [c1, c2, if_true, rden_cons, rden_nil, or_false]
      grind
    · have := gH0 c1
      simp only [c1, c2, if_true, if_false, rden_cons, rden_nil, or_false]
      grind
    · simp only [c1, c2, if_true, if_false, rden_cons, rden_nil, or_false, false_or]
      grind
    · simp only [c1, c2, if_false, rden_nil, or_false, false_or]
      grind

end NV.IPSet
