/-
Lemmas/C01L6.lean — IPv6 text lemmas for C01/C03 on the platform model (`Text6`): what the
split-style reader makes of a colon-joined token list built from group numerals, with or
without a gap and with or without a dotted-quad tail.  Core Lean only.
-/
import NetaddrVerif.Lemmas.C01L4
import NetaddrVerif.Lemmas.C01LHex
namespace NV.C01L
open NV NV.Text4 NV.Text6

/-- a printer of group numerals whose output the group reader reads back -/
def GoodF (f : Nat → List Char) : Prop :=
  ∀ n, n < 65536 → f n ≠ [] ∧ '.' ∉ f n ∧ ':' ∉ f n ∧ hextet (f n) = some n

theorem goodF_hex : GoodF hex := fun n h => ⟨hex_ne_nil n, dot_not_in_hex n, colon_not_in_hex n, hextet_hex n h⟩
theorem goodF_hex4 : GoodF hex4 := fun n h => ⟨hex4_ne_nil n h, dot_not_in_hex4 n, colon_not_in_hex4 n, hextet_hex4 n h⟩

def Small (ns : List Nat) : Prop := ∀ n ∈ ns, n < 65536

theorem isEmpty_false_of_ne {α} {l : List α} (h : l ≠ []) : l.isEmpty = false := by
  cases l with
  | nil => exact absurd rfl h
  | cons a t => rfl

theorem contains_false_of_not_mem {l : List Char} {c : Char} (h : c ∉ l) : l.contains c = false := by
  cases hc : l.contains c with
  | false => rfl
  | true => exact absurd (List.contains_iff_mem.mp hc) h

/-- the group loop over numerals -/
theorem groups_map (f : Nat → List Char) (hf : GoodF f) (ns : List Nat) (hs : Small ns)
    (rest : List (List Char)) (acc : List Nat) (gap : Option Nat) :
    groups (ns.map f ++ rest) acc gap = groups rest (acc ++ ns) gap := by
  induction ns generalizing acc with
  | nil => simp
  | cons n t ih =>
    obtain ⟨h1, h2, _, h4⟩ := hf n (hs n (by simp))
    simp only [List.map_cons, List.cons_append, groups, isEmpty_false_of_ne h1, contains_false_of_not_mem h2, h4]
    rw [ih (fun x hx => hs x (by simp [hx]))]
    simp

theorem groups_gap (rest : List (List Char)) (acc : List Nat) (gap : Option Nat) :
    groups ([] :: rest) acc gap = groups rest acc (some acc.length) := by
  simp [groups]

/-- a dotted-quad token in last position -/
theorem groups_quad (v : Nat) (hv : v < 2 ^ 32) (acc : List Nat) (gap : Option Nat) :
    groups [ntoa v] acc gap = some (acc ++ [v / 65536, v % 65536], gap) := by
  have hne : ntoa v ≠ [] := by
    rw [ntoa_eq]; simp [List.intercalate]
  have hdot : (ntoa v).contains '.' = true := by
    rw [ntoa_eq]; simp [List.intercalate]
  simp only [groups, isEmpty_false_of_ne hne, hdot, pton4_ntoa v hv, List.isEmpty_nil]
  simp

theorem ne_of_map (f : Nat → List Char) (hf : GoodF f) (ns : List Nat) (hs : Small ns) :
    ∀ t ∈ ns.map f, t ≠ [] ∧ ':' ∉ t := by
  intro t ht
  obtain ⟨n, hn, rfl⟩ := List.mem_map.mp ht
  obtain ⟨h1, _, h3, _⟩ := hf n (hs n hn)
  exact ⟨h1, h3⟩

theorem trimFront_ne (t0 t1 : List Char) (r : List (List Char)) (h : t0 ≠ []) :
    trimFront (t0 :: t1 :: r) = some (t0 :: t1 :: r) := by
  simp [trimFront, isEmpty_false_of_ne h]

theorem trimFront_gap (r : List (List Char)) : trimFront ([] :: [] :: r) = some ([] :: r) := by
  simp [trimFront]

theorem trimBack_ne (L : List (List Char)) (t : List Char) (h : t ≠ []) :
    trimBack (L ++ [t]) = some (L ++ [t]) := by
  have : ¬ (t = []) := h
  simp [trimBack, this]

theorem trimBack_gap (L : List (List Char)) : trimBack (L ++ [[], []]) = some (L ++ [[]]) := by
  have e : L ++ [[], []] = (L ++ [[]]) ++ [[]] := by simp
  rw [e]
  simp [trimBack]

theorem filter_isEmpty_nil (L : List (List Char)) (h : ∀ t ∈ L, t ≠ []) : L.filter List.isEmpty = [] := by
  rw [List.filter_eq_nil_iff]
  intro a ha he
  exact h a ha (List.isEmpty_iff.mp he)

theorem ofWords_words (v : Nat) (hv : v < 2 ^ 128) : ofWords (words v) = v := by
  simp only [ofWords, words, List.foldl_cons, List.foldl_nil, Nat.shiftRight_eq_div_pow]
  omega

theorem small_words (v : Nat) : Small (words v) := by
  intro n hn
  simp only [words, List.mem_cons, List.not_mem_nil, or_false] at hn
  rcases hn with h | h | h | h | h | h | h | h <;> subst h <;> exact Nat.mod_lt _ (by decide)

theorem length_words (v : Nat) : (words v).length = 8 := rfl

/-- no gap: eight numerals joined by ':' (the `ipv6_full` and `ipv6_verbose` dialects, and the
    compact form of an address without a zero run) -/
theorem pton6_nogap (f : Nat → List Char) (hf : GoodF f) (ns : List Nat) (hs : Small ns) (hl : ns.length = 8) :
    pton6 ([':'].intercalate (ns.map f)) = some (ofWords ns) := by
  have hne := ne_of_map f hf ns hs
  have hsplit : ([':'].intercalate (ns.map f)).splitOn ':' = ns.map f := by
    apply List.splitOn_intercalate
    · intro l hl; exact (hne l hl).2
    · intro e; rw [List.map_eq_nil_iff] at e; rw [e] at hl; simp at hl
  unfold pton6
  simp only [hsplit]
  match ns, hl with
  | [n0, n1, n2, n3, n4, n5, n6, n7], _ =>
    have h0 : f n0 ≠ [] := (hne (f n0) (by simp)).1
    have h7 : f n7 ≠ [] := (hne (f n7) (by simp)).1
    have hfr : trimFront ([n0, n1, n2, n3, n4, n5, n6, n7].map f) = some ([n0, n1, n2, n3, n4, n5, n6, n7].map f) := by
      simp only [List.map_cons]; exact trimFront_ne _ _ _ h0
    have hbk : trimBack ([n0, n1, n2, n3, n4, n5, n6, n7].map f) = some ([n0, n1, n2, n3, n4, n5, n6, n7].map f) := by
      have e : [n0, n1, n2, n3, n4, n5, n6, n7].map f = [n0, n1, n2, n3, n4, n5, n6].map f ++ [f n7] := by simp
      rw [e]; exact trimBack_ne _ _ h7
    have hfil : (([n0, n1, n2, n3, n4, n5, n6, n7].map f).filter List.isEmpty) = [] :=
      filter_isEmpty_nil _ (fun t ht => (hne t ht).1)
    have hg := groups_map f hf [n0, n1, n2, n3, n4, n5, n6, n7] hs [] [] none
    rw [List.append_nil] at hg
    simp only [hfr, hbk, hfil, hg]
    simp [groups]

/-- with a gap: numerals `A`, the gap, numerals `B` and an optional dotted quad `q` -/
theorem pton6_gap (A B : List Nat) (hA : Small A) (hB : Small B) (q : Option Nat)
    (hq : ∀ x, q = some x → x < 2 ^ 32)
    (hlen : A.length + B.length + (if q.isSome then 2 else 0) ≤ 7) :
    let Q : List (List Char) := match q with | none => [] | some x => [ntoa x]
    let nsQ : List Nat := match q with | none => [] | some x => [x / 65536, x % 65536]
    pton6 ([':'].intercalate ((if A.length == 0 then [[]] else []) ++ A.map hex ++ [[]] ++ (B.map hex ++ Q)
        ++ (if (B.map hex ++ Q).length == 0 then [[]] else []))) =
      some (ofWords (A ++ List.replicate (8 - (A.length + B.length + nsQ.length)) 0 ++ (B ++ nsQ))) := by
  intro Q nsQ
  have hneA := ne_of_map hex goodF_hex A hA
  have hneB := ne_of_map hex goodF_hex B hB
  have hQ : ∀ t ∈ Q, t ≠ [] ∧ ':' ∉ t := by
    intro t ht
    cases q with
    | none => simp [Q] at ht
    | some x =>
      simp only [Q, List.mem_singleton] at ht; subst ht
      refine ⟨?_, colon_not_in_ntoa x (hq x rfl)⟩
      rw [ntoa_eq]; simp [List.intercalate]
  have hnsQ : nsQ.length = if q.isSome then 2 else 0 := by cases q <;> simp [nsQ]
  have hB' : ∀ t ∈ B.map hex ++ Q, t ≠ [] ∧ ':' ∉ t := by
    intro t ht
    rcases List.mem_append.mp ht with h | h
    · exact hneB t h
    · exact hQ t h
  -- the groups of the trimmed token list
  have hgroups : groups (A.map hex ++ [[]] ++ (B.map hex ++ Q)) [] none = some (A ++ (B ++ nsQ), some A.length) := by
    rw [List.append_assoc, groups_map hex goodF_hex A hA, List.singleton_append, groups_gap, List.nil_append,
      groups_map hex goodF_hex B hB]
    cases q with
    | none => simp [Q, nsQ, groups]
    | some x => simp only [Q, nsQ]; rw [groups_quad x (hq x rfl)]; simp
  have hfilter : ((A.map hex ++ [[]] ++ (B.map hex ++ Q)).filter List.isEmpty).length = 1 := by
    rw [List.filter_append, List.filter_append, filter_isEmpty_nil _ (fun t ht => (hneA t ht).1),
      filter_isEmpty_nil _ (fun t ht => (hB' t ht).1)]
    simp
  -- the token list that is printed
  generalize hP : ((if A.length == 0 then [[]] else []) ++ A.map hex ++ [[]] ++ (B.map hex ++ Q)
        ++ (if (B.map hex ++ Q).length == 0 then [[]] else []) : List (List Char)) = P
  have hPcolon : ∀ t ∈ P, ':' ∉ t := by
    intro t ht
    rw [← hP] at ht
    simp only [List.mem_append] at ht
    rcases ht with (((ht | ht) | ht) | ht) | ht
    · split at ht <;> simp at ht; subst ht; simp
    · exact (hneA t ht).2
    · simp at ht; subst ht; simp
    · exact (hB' t (List.mem_append.mpr ht)).2
    · split at ht <;> simp at ht; subst ht; simp
  have hPne : P ≠ [] := by rw [← hP]; simp
  have hsplit : ([':'].intercalate P).splitOn ':' = P := List.splitOn_intercalate _ hPcolon hPne
  have hfront : ∃ M, P.length ≥ 3 ∧ trimFront P = some M ∧
      M = A.map hex ++ [[]] ++ (B.map hex ++ Q) ++ (if (B.map hex ++ Q).length == 0 then [[]] else []) := by
    refine ⟨_, ?_, ?_, rfl⟩
    · rw [← hP]
      have e1 : ∀ (c : Bool), ((if c then [[]] else []) : List (List Char)).length = if c then 1 else 0 := by
        intro c; cases c <;> rfl
      generalize B.map hex ++ Q = B'
      simp only [List.length_append, e1, List.length_map, List.length_cons, List.length_nil]
      by_cases ha : A.length = 0 <;> by_cases hb : B'.length = 0 <;> simp [ha, hb] <;> omega
    · rw [← hP]
      cases hA' : A with
      | nil => simp [trimFront_gap]
      | cons a A' =>
        have ha : hex a ≠ [] := hex_ne_nil a
        simp only [List.length_cons, List.map_cons, List.cons_append, List.nil_append]
        have : (A'.length + 1 == 0) = false := by simp
        simp only [this, Bool.false_eq_true, if_false, List.nil_append]
        cases A' with
        | nil => simp only [List.map_nil, List.nil_append]; exact trimFront_ne _ _ _ ha
        | cons a' A'' => simp only [List.map_cons, List.cons_append]; exact trimFront_ne _ _ _ ha
  obtain ⟨M, hP3, hfr, hM⟩ := hfront
  have hback : trimBack M = some (A.map hex ++ [[]] ++ (B.map hex ++ Q)) := by
    rw [hM]
    rcases List.eq_nil_or_concat (B.map hex ++ Q) with h | ⟨L, t, h⟩
    · rw [h]; simp only [List.length_nil, beq_self_eq_true, if_true, List.append_nil]
      rw [List.append_assoc]; exact trimBack_gap _
    · rw [List.concat_eq_append] at h
      have ht : t ≠ [] := (hB' t (by rw [h]; simp)).1
      rw [h]
      rw [if_neg (by simp), List.append_nil, ← List.append_assoc]; exact trimBack_ne _ _ ht
  unfold pton6
  simp only [hsplit]
  have h3 : ¬ (P.length < 3) := by omega
  simp only [h3, if_false, hfr, hback, hfilter, hgroups]
  have h7 : ¬ ((A ++ (B ++ nsQ)).length > 7) := by
    simp only [List.length_append, hnsQ]; omega
  simp only [Nat.lt_irrefl, if_false, h7]
  have hlen2 : (A ++ (B ++ nsQ)).length = A.length + B.length + nsQ.length := by
    simp only [List.length_append]; omega
  rw [List.take_left' rfl, List.drop_left' rfl, hlen2]

end NV.C01L
