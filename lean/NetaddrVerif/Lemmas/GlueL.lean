/-
Lemmas/GlueL.lean — helper definitions and lemmas for Props/Glue.lean: the one-pass view of the
argument coercion (`argOf`, `liftOp`: what the harness used to hand the model), the printed forms
(`Writes`), and the facts that make the glue of Model/Coerce.lean collapse onto the existing
operations.
-/
import NetaddrVerif.Model.Coerce
import NetaddrVerif.Props.C01
import NetaddrVerif.Props.C03
import NetaddrVerif.Lemmas.C05LMerge
import NetaddrVerif.Lemmas.IPSetL11
import NetaddrVerif.Model.SpanErr
namespace NV.GlueL
open NV NV.AddrParse NV.NetParse NV.Coerce NV.C03L

/-! ### basic shapes of `toNet` / `toAddr` -/

theorem toNet_net (n : Net) : toNet (.net n) = .ok n := rfl
theorem toNet_addr (a : Addr) : toNet (.addr a) = .ok ⟨a.ver, a.val, width a.ver⟩ := rfl
theorem toNet_int (i : Int) : toNet (.int i) = .error .type_ := rfl
theorem toAddr_addr (a : Addr) (fl : Nat) : toAddr (.addr a) fl = .ok a := rfl
theorem toAddr_net (n : Net) (fl : Nat) : toAddr (.net n) fl = .ok ⟨n.ver, n.val⟩ := rfl

theorem maxInt4 : maxInt 4 = 4294967295 := by decide
theorem maxInt6 : maxInt 6 = 340282366920938463463374607431768211455 := by decide

/-- `IPAddress(int)`: the three magnitude classes -/
theorem toAddr_int (i : Int) (fl : Nat) :
    toAddr (.int i) fl =
      if 0 ≤ i ∧ i < 2 ^ 32 then .ok ⟨4, i.toNat⟩
      else if 2 ^ 32 ≤ i ∧ i < 2 ^ 128 then .ok ⟨6, i.toNat⟩
      else .error .addrFormat := by
  unfold toAddr Address.ctor
  simp only [maxInt4, maxInt6]
  by_cases h1 : 0 ≤ i ∧ i < 2 ^ 32
  · have : 0 ≤ i ∧ i ≤ ((4294967295 : Nat) : Int) := ⟨h1.1, by omega⟩
    rw [if_pos this, if_pos h1]
  · have n1 : ¬ (0 ≤ i ∧ i ≤ ((4294967295 : Nat) : Int)) := by intro h; apply h1; exact ⟨h.1, by omega⟩
    rw [if_neg n1, if_neg h1]
    by_cases h2 : 2 ^ 32 ≤ i ∧ i < 2 ^ 128
    · have : ((4294967295 : Nat) : Int) < i ∧ i ≤ ((340282366920938463463374607431768211455 : Nat) : Int) :=
        ⟨by omega, by omega⟩
      rw [if_pos this, if_pos h2]
    · have n2 : ¬ (((4294967295 : Nat) : Int) < i ∧ i ≤ ((340282366920938463463374607431768211455 : Nat) : Int)) := by
        intro h; apply h2; exact ⟨by omega, by omega⟩
      rw [if_neg n2, if_neg h2]

/-- an int that is accepted gives a well-formed address -/
theorem toAddr_int_wf (i : Int) (fl : Nat) (a : Addr) (h : toAddr (.int i) fl = .ok a) :
    a.WF ∧ (a.val : Int) = i := by
  rw [toAddr_int] at h
  split at h
  · rename_i h1
    cases h
    refine ⟨⟨Or.inl rfl, ?_⟩, ?_⟩
    · show i.toNat < 2 ^ 32
      omega
    · show (i.toNat : Int) = i
      omega
  · split at h
    · rename_i h2
      cases h
      refine ⟨⟨Or.inr rfl, ?_⟩, ?_⟩
      · show i.toNat < 2 ^ 128
        omega
      · show (i.toNat : Int) = i
        omega
    · cases h

theorem toAddr_int_err (i : Int) (fl : Nat) (e : Err) (h : toAddr (.int i) fl = .error e) :
    e = .addrFormat ∧ (i < 0 ∨ 2 ^ 128 ≤ i) := by
  rw [toAddr_int] at h
  split at h
  · cases h
  · split at h
    · cases h
    · rename_i h1 h2
      cases h
      refine ⟨rfl, ?_⟩
      omega

/-- every error of `IPNetwork(x)`: AddrFormatError for a string, TypeError for an int -/
theorem toNet_err (x : Raw) (e : Err) (h : toNet x = .error e) :
    (∃ s, x = .str s ∧ e = .addrFormat) ∨ (∃ i, x = .int i ∧ e = .type_) := by
  cases x with
  | str s => exact Or.inl ⟨s, rfl, C03.error_is_addrformat be s false none 0 e (Or.inl rfl) h⟩
  | int i => cases h; exact Or.inr ⟨i, rfl, rfl⟩
  | addr a => cases h
  | net n => cases h

/-- every error of `IPAddress(x)`: ValueError exactly for a string with '/', else AddrFormatError -/
theorem toAddr_err (x : Raw) (fl : Nat) (e : Err) (h : toAddr x fl = .error e) :
    (∃ s, x = .str s ∧ s.contains '/' = true ∧ e = .value) ∨
    (∃ s, x = .str s ∧ s.contains '/' = false ∧ e = .addrFormat) ∨
    (∃ i, x = .int i ∧ e = .addrFormat ∧ (i < 0 ∨ 2 ^ 128 ≤ i)) := by
  cases x with
  | str s =>
    cases hs : s.contains '/' with
    | true =>
      have := (C01.slash_refused be s fl hs).1
      have h' : ipAddress be s none fl = .error e := h
      rw [this] at h'; cases h'
      exact Or.inl ⟨s, rfl, hs, rfl⟩
    | false =>
      exact Or.inr (Or.inl ⟨s, rfl, hs, C01.reject_is_addrformat be s none fl e (Or.inl rfl) hs h⟩)
  | int i =>
    obtain ⟨h1, h2⟩ := toAddr_int_err i fl e h
    exact Or.inr (Or.inr ⟨i, rfl, h1, h2⟩)
  | addr a => cases h
  | net n => cases h

/-! ### the one-pass view: what the harness used to hand the model -/

/-- the argument of `IPSet.add/remove` / an element of a list as the existing `IPSet.Arg`:
    range → range; int → `IPAddress(int)` as a full-width network; anything else → `IPNetwork(x)` -/
def argOf (x : Item) (flags : Nat := 0) : R IPSet.Arg :=
  match x with
  | .rng r => .ok (.rng r)
  | .raw (.int i) => (toAddr (.int i) flags).map (fun a => IPSet.Arg.net ⟨a.ver, a.val, width a.ver⟩)
  | .raw x => (toNet x).map IPSet.Arg.net

/-- an operation with raw arguments as the existing `IPSet.Op` -/
def liftOp : ROp → R IPSet.Op
  | .plain op => .ok op
  | .newList i xs => (xs.mapM (argOf ·)).map (IPSet.Op.newList i)
  | .add i x => (argOf x).map (IPSet.Op.add i)
  | .rem i x => (argOf x).map (IPSet.Op.rem i)
  | .updList i xs => (xs.mapM (argOf ·)).map (IPSet.Op.updList i)

/-- the index an operation is aimed at -/
def ROp.target : ROp → Nat
  | .plain op => (IPSet.stepOp [] op).2.1
  | .newList i _ => i
  | .add i _ => i
  | .rem i _ => i
  | .updList i _ => i

theorem argOf_err (x : Item) (fl : Nat) (e : Err) (h : argOf x fl = .error e) : e = .addrFormat := by
  cases x with
  | rng r => cases h
  | raw x =>
    cases x with
    | int i =>
      simp only [argOf] at h
      cases ha : toAddr (.int i) fl with
      | ok a => rw [ha] at h; cases h
      | error e' =>
        rw [ha] at h
        have : e' = e := by cases h; rfl
        subst this
        exact (toAddr_int_err i fl e' ha).1
    | str s =>
      simp only [argOf] at h
      cases hn : toNet (.str s) with
      | ok n => rw [hn] at h; cases h
      | error e' =>
        rw [hn] at h
        have : e' = e := by cases h; rfl
        subst this
        rcases toNet_err _ _ hn with ⟨_, _, h2⟩ | ⟨_, h1, _⟩
        · exact h2
        · cases h1
    | addr a => cases h
    | net n => cases h

/-- `.cidr` of a full-width network is the network itself -/
theorem netCidr_full (a : Addr) (ha : a.WF) : netCidr ⟨a.ver, a.val, width a.ver⟩ = ⟨a.ver, a.val, width a.ver⟩ := by
  obtain ⟨hver, hv⟩ := ha
  unfold netCidr netmaskInt hostmaskInt
  simp only [Nat.sub_self, Nat.shiftLeft_zero, Nat.sub_self, Nat.xor_zero]
  congr 1
  rw [Nat.and_two_pow_sub_one_eq_mod]
  exact Nat.mod_eq_of_lt hv

/-! ### add / remove -/

theorem addRaw_eq (s : IPSet.St) (x : Item) (fl : Nat) :
    addRaw s x fl = (argOf x fl).map (IPSet.add s) := by
  cases x with
  | rng r => rfl
  | raw x =>
    cases x with
    | net n => rfl
    | addr a => rfl
    | str t =>
      simp only [addRaw, argOf]
      cases toNet (.str t) <;> rfl
    | int i =>
      simp only [addRaw, argOf]
      cases ha : toAddr (.int i) fl with
      | error e => rfl
      | ok a =>
        have hwf := (toAddr_int_wf i fl a ha).1
        show (Except.ok (IPSet.compactSingle (IPSet.dInsert s ⟨a.ver, a.val, width a.ver⟩) ⟨a.ver, a.val, width a.ver⟩) : R IPSet.St)
            = .ok (IPSet.add s (.net ⟨a.ver, a.val, width a.ver⟩))
        simp only [IPSet.add, IPSet.addNet, netCidr_full a hwf]

theorem removeRaw_eq (s : IPSet.St) (x : Item) (fl : Nat) :
    removeRaw s x fl = (argOf x fl).map (IPSet.remove s) := by
  cases x with
  | rng r => rfl
  | raw x =>
    cases x with
    | net n => rfl
    | addr a => rfl
    | str t =>
      simp only [removeRaw, argOf]
      cases toNet (.str t) <;> rfl
    | int i =>
      simp only [removeRaw, argOf]
      cases toAddr (.int i) fl <;> rfl

/-! ### the two passes of the list forms = one pass -/

theorem argOfMItem_net (n : Net) : argOfMItem (.net n.ver ⟨n.val, n.plen⟩) = .net n := rfl

/-- `mergeItem` after `intPass` on one element is `argOf` (as results) -/
theorem pass_one (x : Item) (fl : Nat) :
    ((intPass fl x).bind mergeItem).map argOfMItem = argOf x fl := by
  cases x with
  | rng r => rfl
  | raw x =>
    cases x with
    | net n => rfl
    | addr a => rfl
    | str t =>
      show (Except.map argOfMItem ((toNet (.str t)).map _)) = (toNet (.str t)).map _
      cases toNet (.str t) <;> rfl
    | int i =>
      show Except.map argOfMItem ((Except.map _ (toAddr (.int i) fl)).bind mergeItem) = Except.map _ (toAddr (.int i) fl)
      cases toAddr (.int i) fl <;> rfl

theorem mapM_cons {α β : Type} (f : α → R β) (x : α) (xs : List α) :
    (x :: xs).mapM f = (f x).bind (fun y => (xs.mapM f).bind (fun ys => .ok (y :: ys))) := by
  rw [List.mapM_cons]; rfl

theorem mapM_nil {α β : Type} (f : α → R β) : ([] : List α).mapM f = .ok [] := rfl

/-- all errors of the one-pass conversion are AddrFormatError -/
theorem mapM_argOf_err (xs : List Item) (fl : Nat) (e : Err) (h : xs.mapM (argOf · fl) = .error e) :
    e = .addrFormat := by
  induction xs with
  | nil => cases h
  | cons x xs ih =>
    rw [mapM_cons] at h
    cases hx : argOf x fl with
    | error e' =>
      rw [hx] at h
      have : e' = e := by cases h; rfl
      subst this; exact argOf_err x fl e' hx
    | ok y =>
      rw [hx] at h
      cases hxs : xs.mapM (argOf · fl) with
      | error e' =>
        rw [hxs] at h
        have : e' = e := by cases h; rfl
        subst this; exact ih hxs
      | ok ys => rw [hxs] at h; cases h

theorem intPass_err (x : Item) (fl : Nat) (e : Err) (h : intPass fl x = .error e) :
    e = .addrFormat ∧ argOf x fl = .error .addrFormat := by
  cases x with
  | rng r => cases h
  | raw x =>
    cases x with
    | int i =>
      simp only [intPass] at h
      cases ha : toAddr (.int i) fl with
      | ok a => rw [ha] at h; cases h
      | error e' =>
        rw [ha] at h
        have : e' = e := by cases h; rfl
        subst this
        have := (toAddr_int_err i fl e' ha).1
        subst this
        exact ⟨rfl, by simp only [argOf, ha]; rfl⟩
    | str s => cases h
    | addr a => cases h
    | net n => cases h

/-- a list that passes the int pass: the result list, element by element -/
theorem intPass_ok (x y : Item) (fl : Nat) (h : intPass fl x = .ok y) :
    (mergeItem y).map argOfMItem = argOf x fl := by
  have := pass_one x fl
  rw [h] at this
  exact this

/-- the conversion of a whole list fails in the two-pass order iff it fails in one pass, and
    then both raise AddrFormatError; otherwise both give the same arguments -/
theorem listArgs_eq (xs : List Item) (fl : Nat) : listArgs xs fl = xs.mapM (argOf · fl) := by
  -- characterise both sides by "some element fails" / "all succeed"
  have key : ∀ (xs : List Item),
      (∀ ys, xs.mapM (intPass fl) = .ok ys →
        (ys.mapM mergeItem).map (fun ms => ms.map argOfMItem) = xs.mapM (argOf · fl)) ∧
      (∀ e, xs.mapM (intPass fl) = .error e → xs.mapM (argOf · fl) = .error .addrFormat ∧ e = .addrFormat) := by
    intro xs
    induction xs with
    | nil =>
      refine ⟨fun ys h => ?_, fun e h => ?_⟩
      · cases h; rfl
      · cases h
    | cons x xs ih =>
      refine ⟨fun ys h => ?_, fun e h => ?_⟩
      · rw [mapM_cons] at h
        cases hx : intPass fl x with
        | error e' => rw [hx] at h; cases h
        | ok y =>
          rw [hx] at h
          cases hxs : xs.mapM (intPass fl) with
          | error e' => rw [hxs] at h; cases h
          | ok ys' =>
            rw [hxs] at h
            have : ys = y :: ys' := by cases h; rfl
            subst this
            have h1 := intPass_ok x y fl hx
            have h2 := ih.1 ys' hxs
            rw [mapM_cons (argOf · fl), ← h1, ← h2, mapM_cons mergeItem]
            cases mergeItem y with
            | error e' =>
              show Except.error e' = Except.error e'
              rfl
            | ok m =>
              cases ys'.mapM mergeItem with
              | error e' => rfl
              | ok ms => rfl
      · rw [mapM_cons] at h
        cases hx : intPass fl x with
        | error e' =>
          rw [hx] at h
          have : e' = e := by cases h; rfl
          subst this
          obtain ⟨h1, h2⟩ := intPass_err x fl e' hx
          refine ⟨?_, h1⟩
          rw [mapM_cons, h2]; rfl
        | ok y =>
          rw [hx] at h
          cases hxs : xs.mapM (intPass fl) with
          | ok ys' => rw [hxs] at h; cases h
          | error e' =>
            rw [hxs] at h
            have : e' = e := by cases h; rfl
            subst this
            obtain ⟨h1, h2⟩ := ih.2 e' hxs
            refine ⟨?_, h2⟩
            rw [mapM_cons, h1]
            cases hax : argOf x fl with
            | ok a => rfl
            | error e'' => rw [argOf_err x fl e'' hax]; rfl
  unfold listArgs
  cases hp : xs.mapM (intPass fl) with
  | error e =>
    obtain ⟨h1, h2⟩ := (key xs).2 e hp
    rw [h1, h2]; rfl
  | ok ys =>
    have := (key xs).1 ys hp
    rw [← this]
    show (ys.mapM mergeItem).bind (fun ms => pure (ms.map argOfMItem)) = _
    cases ys.mapM mergeItem <;> rfl

/-! ### steps and histories -/

theorem stepRaw_eq (sets : List IPSet.St) (op : ROp) :
    stepRaw sets op = match liftOp op with
      | .ok o => IPSet.stepOp sets o
      | .error e => (sets, ROp.target op, some e) := by
  cases op with
  | plain o => rfl
  | newList i xs =>
    simp only [stepRaw, liftOp, newRaw, listArgs_eq]
    cases xs.mapM (argOf · 0) <;> rfl
  | updList i xs =>
    simp only [stepRaw, liftOp, updateRaw, listArgs_eq]
    cases xs.mapM (argOf · 0) <;> rfl
  | add i x =>
    simp only [stepRaw, liftOp, addRaw_eq]
    cases argOf x 0 <;> rfl
  | rem i x =>
    simp only [stepRaw, liftOp, removeRaw_eq]
    cases argOf x 0 <;> rfl

theorem runRaw_eq (rops : List ROp) (ops : List IPSet.Op) (h : rops.mapM liftOp = .ok ops) :
    runRaw rops = IPSet.runOps ops := by
  unfold runRaw IPSet.runOps
  suffices hs : ∀ (sets : List IPSet.St) (rops : List ROp) (ops : List IPSet.Op), rops.mapM liftOp = .ok ops →
      rops.foldl (fun sets op => (stepRaw sets op).1) sets = ops.foldl (fun sets op => (IPSet.stepOp sets op).1) sets from
    hs [] rops ops h
  intro sets rops
  induction rops generalizing sets with
  | nil => intro ops h; cases h; rfl
  | cons r rs ih =>
    intro ops h
    rw [mapM_cons] at h
    cases hr : liftOp r with
    | error e => rw [hr] at h; cases h
    | ok o =>
      rw [hr] at h
      cases hrs : rs.mapM liftOp with
      | error e => rw [hrs] at h; cases h
      | ok os =>
        rw [hrs] at h
        have : ops = o :: os := by cases h; rfl
        subst this
        simp only [List.foldl_cons]
        rw [stepRaw_eq, hr]
        exact ih _ os hrs

/-! ### printed forms -/

/-- `x` is one of the forms a caller can write for the network `n`: the object itself, an
    `IPAddress` object, or a text the library itself prints / documents for it -/
inductive WritesNet : Raw → Net → Prop
  | net (n : Net) (h : n.WF) : WritesNet (.net n) n
  | addr (a : Addr) (h : a.WF) : WritesNet (.addr a) ⟨a.ver, a.val, width a.ver⟩
  /-- `str(IPNetwork)` -/
  | netStr (n : Net) (h : n.WF) : WritesNet (.str (netStr be n)) n
  /-- `str(IPAddress)` -/
  | addrStr (a : Addr) (h : a.WF) : WritesNet (.str (intToStr be a.ver a.val)) ⟨a.ver, a.val, width a.ver⟩
  /-- 'a/<netmask of p>' -/
  | maskStr (n : Net) (h : n.WF) :
      WritesNet (.str (intToStr be n.ver n.val ++ '/' :: intToStr be n.ver (netNetmask (width n.ver) n.plen))) n
  /-- 'a/<hostmask of p>' (unambiguous for `0 < p < width`) -/
  | hostStr (n : Net) (h : n.WF) (hp : 0 < n.plen ∧ n.plen < width n.ver) :
      WritesNet (.str (intToStr be n.ver n.val ++ '/' :: intToStr be n.ver (netHostmask (width n.ver) n.plen))) n

theorem writesNet_toNet {x : Raw} {n : Net} (h : WritesNet x n) : toNet x = .ok n := by
  cases h with
  | net n _ => rfl
  | addr a _ => rfl
  | netStr n hn => exact C03.str_roundtrip be n hn none (Or.inl rfl)
  | addrStr a ha => exact (C03.bare_gets_width be a.ver ha.1 a.val ha.2 none (Or.inl rfl)).1
  | maskStr n hn =>
    exact (C03.spellings_agree be n.ver hn.1 n.val hn.2.1 n.plen hn.2.2 none (Or.inl rfl)).2.1
  | hostStr n hn hp =>
    have := (C03.spellings_agree be n.ver hn.1 n.val hn.2.1 n.plen hn.2.2 none (Or.inl rfl)).2.2.1
    have hne : ¬ (n.plen = 0 ∨ n.plen = width n.ver) := by omega
    simp only [hne, if_false] at this
    exact this

theorem writesNet_wf {x : Raw} {n : Net} (h : WritesNet x n) : n.WF := by
  cases h with
  | net n h => exact h
  | addr a h => exact ⟨h.1, h.2, Nat.le_refl _⟩
  | netStr n h => exact h
  | addrStr a h => exact ⟨h.1, h.2, Nat.le_refl _⟩
  | maskStr n h => exact h
  | hostStr n h _ => exact h

theorem writesNet_not_int {i : Int} {n : Net} (h : WritesNet (.int i) n) : False := by cases h

/-- the forms of a `cidr_merge` / `spanning_cidr` / `IPSet` list element -/
inductive Writes : Item → MItem → Prop
  | rng (r : Rng) (h : r.lo ≤ r.hi ∧ r.hi < 2 ^ width r.ver) : Writes (.rng r) (.rng r.ver r.lo r.hi)
  | raw (x : Raw) (n : Net) (h : WritesNet x n) : Writes (.raw x) (.net n.ver ⟨n.val, n.plen⟩)

theorem mergeItem_raw (x : Raw) (n : Net) (h : toNet x = .ok n) :
    mergeItem (.raw x) = .ok (.net n.ver ⟨n.val, n.plen⟩) := by
  cases x with
  | net m => cases h; rfl
  | str s => simp only [mergeItem, h]; rfl
  | addr a => simp only [mergeItem, h]; rfl
  | int i => cases h

theorem writes_mergeItem {x : Item} {m : MItem} (h : Writes x m) : mergeItem x = .ok m := by
  cases h with
  | rng r _ => rfl
  | raw x n h => exact mergeItem_raw x n (writesNet_toNet h)

theorem writes_wf {x : Item} {m : MItem} (h : Writes x m) : C05L.ItemWF m := by
  cases h with
  | rng r h => exact h
  | raw x n h => have := writesNet_wf h; exact ⟨this.2.1, this.2.2⟩

/-- the forms of an `IPSet.add/remove` argument or list element (ints included: `IPAddress(int)`) -/
inductive WritesArg : Item → IPSet.Arg → Prop
  | rng (r : Rng) (h : IPSet.ArgOK (.rng r)) : WritesArg (.rng r) (.rng r)
  | raw (x : Raw) (n : Net) (h : WritesNet x n) : WritesArg (.raw x) (.net n)
  | int4 (v : Nat) (h : v < 2 ^ 32) : WritesArg (.raw (.int v)) (.net ⟨4, v, 32⟩)
  | int6 (v : Nat) (h : 2 ^ 32 ≤ v ∧ v < 2 ^ 128) : WritesArg (.raw (.int v)) (.net ⟨6, v, 128⟩)

theorem writesArg_argOf {x : Item} {a : IPSet.Arg} (h : WritesArg x a) (fl : Nat) : argOf x fl = .ok a := by
  cases h with
  | rng r _ => rfl
  | raw x n h =>
    have := writesNet_toNet h
    cases x with
    | int i => cases this
    | str s => show (toNet (.str s)).map _ = _; rw [this]; rfl
    | addr b => show (toNet (.addr b)).map _ = _; rw [this]; rfl
    | net m => show (toNet (.net m)).map _ = _; rw [this]; rfl
  | int4 v hv =>
    show (toAddr (.int v) fl).map _ = _
    rw [toAddr_int]
    have : 0 ≤ (v : Int) ∧ (v : Int) < 2 ^ 32 := ⟨by omega, by exact_mod_cast hv⟩
    rw [if_pos this]
    simp [Except.map, width]
  | int6 v hv =>
    show (toAddr (.int v) fl).map _ = _
    rw [toAddr_int]
    have n1 : ¬ (0 ≤ (v : Int) ∧ (v : Int) < 2 ^ 32) := by
      intro h; have : (v : Int) < 2 ^ 32 := h.2
      have : v < 2 ^ 32 := by exact_mod_cast this
      omega
    have p2 : (2 : Int) ^ 32 ≤ (v : Int) ∧ (v : Int) < 2 ^ 128 := ⟨by exact_mod_cast hv.1, by exact_mod_cast hv.2⟩
    rw [if_neg n1, if_pos p2]
    simp [Except.map, width]

theorem writesArg_ok {x : Item} {a : IPSet.Arg} (h : WritesArg x a) : IPSet.ArgOK a := by
  cases h with
  | rng r h => exact h
  | raw x n h => exact writesNet_wf h
  | int4 v hv => exact ⟨Or.inl rfl, hv, Nat.le_refl _⟩
  | int6 v hv => exact ⟨Or.inr rfl, hv.2, Nat.le_refl _⟩

/-- element-wise relation of two lists (core has no `Forall₂`) -/
inductive All₂ {α β : Type} (P : α → β → Prop) : List α → List β → Prop
  | nil : All₂ P [] []
  | cons {x y xs ys} (h : P x y) (t : All₂ P xs ys) : All₂ P (x :: xs) (y :: ys)

theorem All₂.mem_right {α β : Type} {P : α → β → Prop} {xs : List α} {ys : List β} (h : All₂ P xs ys)
    (y : β) (hy : y ∈ ys) : ∃ x ∈ xs, P x y := by
  induction h with
  | nil => cases hy
  | cons hx _ ih =>
    rcases List.mem_cons.1 hy with e | e
    · subst e; exact ⟨_, List.mem_cons_self .., hx⟩
    · obtain ⟨x, hx', hp⟩ := ih e
      exact ⟨x, List.mem_cons_of_mem _ hx', hp⟩

theorem mapM_of_all₂ {α β : Type} (f : α → R β) (xs : List α) (ys : List β)
    (h : All₂ (fun x y => f x = .ok y) xs ys) : xs.mapM f = .ok ys := by
  induction h with
  | nil => rfl
  | cons hx _ ih => rw [mapM_cons, hx, ih]; rfl

/-! ### spanning_cidr: the lazy conversion is unobservable on coercible sequences -/

theorem spanRest_ok (ver : Nat) (xs : List Item) (ns : List Net)
    (h : All₂ (fun x n => spanItem x = .ok n) xs ns) :
    spanRest ver xs = if ns.all (fun n => n.ver == ver) then .ok ns else .error .type_ := by
  induction h with
  | nil => rfl
  | @cons x n xs ns hx _ ih =>
    unfold spanRest
    rw [hx]
    show (if n.ver ≠ ver then Except.error Err.type_ else (spanRest ver xs).bind (fun ns => pure (n :: ns))) = _
    by_cases hv : n.ver = ver
    · have : ¬ n.ver ≠ ver := fun h => h hv
      rw [if_neg this, ih]
      simp only [List.all_cons, hv, beq_self_eq_true, Bool.true_and]
      cases ns.all (fun n => n.ver == ver) <;> rfl
    · rw [if_pos hv]
      have : (n.ver == ver) = false := by simpa using hv
      simp only [List.all_cons, this, Bool.false_and]
      rfl

theorem spanningRaw_ok (xs : List Item) (ns : List Net)
    (h : All₂ (fun x n => spanItem x = .ok n) xs ns) : spanningRaw xs = Span.spanningCidrNets ns := by
  cases h with
  | nil => rfl
  | @cons a na xs1 ns1 ha t1 =>
    cases t1 with
    | nil =>
      simp only [spanningRaw, ha, bind, Except.bind]
      rfl
    | @cons b nb rest ns hb t =>
      simp only [spanningRaw, ha, hb, bind, Except.bind]
      show (if nb.ver ≠ na.ver then Except.error Err.type_
            else (spanRest na.ver rest).bind (fun ns => Span.spanningCidrNets (na :: nb :: ns))) = _
      rw [spanRest_ok na.ver rest ns t]
      by_cases hv : nb.ver = na.ver
      · have : ¬ nb.ver ≠ na.ver := fun h => h hv
        rw [if_neg this]
        cases hall : ns.all (fun n => n.ver == na.ver) with
        | true => rfl
        | false =>
          show Except.error Err.type_ = Span.spanningCidrNets (na :: nb :: ns)
          unfold Span.spanningCidrNets
          simp only [List.all_cons, hall, Bool.and_false]
          rfl
      · rw [if_pos hv]
        unfold Span.spanningCidrNets
        have : (nb.ver == na.ver) = false := by simpa using hv
        simp only [List.all_cons, this, Bool.false_and]
        rfl

end NV.GlueL
