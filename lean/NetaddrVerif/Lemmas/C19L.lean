/-
Lemmas/C19L.lean — the index-parser loop of netaddr/eui/ieee.py delimits records exactly.
-/
import NetaddrVerif.Model.Registry
namespace NV.Registry

/-- total length in bytes of a list of lines -/
def lenSum (ls : List Line) : Nat := (ls.map List.length).sum

@[simp] theorem lenSum_nil : lenSum [] = 0 := rfl
@[simp] theorem lenSum_cons (l : Line) (ls : List Line) : lenSum (l :: ls) = l.length + lenSum ls := by
  simp [lenSum]

theorem lenSum_eq_flatten (ls : List Line) : lenSum ls = ls.flatten.length := by
  induction ls with
  | nil => rfl
  | cons l ls ih => simp [ih]

/-- the identifier the parser ends up with for one record: `start` on the `(hex)` line, then
    `cont` over the remaining lines in order -/
def recKey {K : Type} (start : Line → R K) (cont : K → Line → R K) : List Line → R K
  | [] => .error .other
  | h :: t => do
    let k ← start h
    t.foldlM cont k

/-- the rows the property asks for: `(id_i, off + Σ_{j<i} |rec_j|, |rec_i|)` -/
def specRows {K : Type} (start : Line → R K) (cont : K → Line → R K) (off : Nat) :
    List (List Line) → R (List (Row K))
  | [] => .ok []
  | r :: rs => do
    let k ← recKey start cont r
    let tail ← specRows start cont (off + lenSum r) rs
    pure ((k, off, lenSum r) :: tail)

/-- a line inside the header or inside a record: a real line (non-empty) without the marker -/
def BodyLine (l : Line) : Prop := l ≠ [] ∧ hasHex l = false

/-- a record: a `(hex)` line followed by marker-free lines -/
def RecWF (r : List Line) : Prop := ∃ h t, r = h :: t ∧ hasHex h = true ∧ ∀ l ∈ t, BodyLine l

theorem hasHex_ne_nil {l : Line} (h : hasHex l = true) : l ≠ [] := by
  intro hl; subst hl; simp [hasHex, hasSub, hexMarker] at h

variable {K : Type} (start : Line → R K) (cont : K → Line → R K)

theorem genLoop_body (t : List Line) (ht : ∀ l ∈ t, BodyLine l) (rest : List Line) :
    ∀ (k : K) (off size pos : Nat),
    genLoop start cont (t ++ rest) false (some (k, off)) size pos =
      (t.foldlM cont k >>= fun k' =>
        genLoop start cont rest false (some (k', off)) (size + lenSum t) (pos + lenSum t)) := by
  induction t with
  | nil => intro k off size pos; simp
  | cons l t ih =>
    intro k off size pos
    have hl := ht l (by simp)
    have ht' : ∀ x ∈ t, BodyLine x := fun x hx => ht x (by simp [hx])
    obtain ⟨hne, hhex⟩ := hl
    have hemp : l.isEmpty = false := by cases l <;> simp_all
    simp only [List.cons_append, genLoop, hemp, hhex, Bool.false_eq_true, ↓reduceIte, Bool.and_false,
      List.foldlM_cons, bind_assoc]
    cases hc : cont k l with
    | error e => simp [bind, Except.bind]
    | ok k' =>
      simp only [bind, Except.bind] 
      have := ih ht' k' off (size + l.length) (pos + l.length)
      simp only [bind, Except.bind] at this
      rw [this]
      simp [Nat.add_assoc]

theorem genLoop_recs (recs : List (List Line)) (hr : ∀ r ∈ recs, RecWF r) :
    ∀ (k : K) (off size pos : Nat),
    genLoop start cont recs.flatten false (some (k, off)) size pos =
      (specRows start cont pos recs >>= fun tail => pure ((k, off, size) :: tail)) := by
  induction recs with
  | nil => intro k off size pos; simp [genLoop, specRows, bind, Except.bind, pure, Except.pure]
  | cons r rs ih =>
    intro k off size pos
    obtain ⟨h, t, rfl, hh, ht⟩ := hr r (by simp)
    have hrs : ∀ x ∈ rs, RecWF x := fun x hx => hr x (by simp [hx])
    have hemp : h.isEmpty = false := by
      have := hasHex_ne_nil hh; cases h <;> simp_all
    simp only [List.flatten_cons, List.cons_append, genLoop, hemp, hh, Bool.false_eq_true, ↓reduceIte,
      Bool.and_true, specRows, recKey, lenSum_cons, bind_assoc]
    cases hs : start h with
    | error e => simp [bind, Except.bind]
    | ok k2 =>
      simp only [bind, Except.bind]
      have hb := genLoop_body start cont t ht rs.flatten k2 pos h.length (pos + h.length)
      simp only [bind, Except.bind] at hb
      rw [Nat.add_sub_cancel, hb]
      cases hf : List.foldlM cont k2 t with
      | error e => simp
      | ok k' =>
        simp only
        have := ih hrs k' pos (h.length + lenSum t) (pos + h.length + lenSum t)
        simp only [bind, Except.bind] at this
        rw [this, Nat.add_assoc]
        cases specRows start cont (pos + (h.length + lenSum t)) rs <;> simp [pure, Except.pure]

theorem genLoop_header (hd : List Line) (hh : ∀ l ∈ hd, BodyLine l) (rest : List Line) :
    ∀ (size pos : Nat),
    genLoop start cont (hd ++ rest) true none size pos =
      genLoop start cont rest true none size (pos + lenSum hd) := by
  induction hd with
  | nil => intro size pos; simp
  | cons l t ih =>
    intro size pos
    obtain ⟨hne, hhex⟩ := hh l (by simp)
    have ht' : ∀ x ∈ t, BodyLine x := fun x hx => hh x (by simp [hx])
    have hemp : l.isEmpty = false := by cases l <;> simp_all
    simp only [List.cons_append, genLoop, hemp, hhex, Bool.false_eq_true, ↓reduceIte, Bool.and_false]
    rw [ih ht']
    simp [Nat.add_assoc]

/-- a registry text without any record: `record` is still `None` after the loop and
    `record.append(size)` raises AttributeError -/
theorem genLoop_no_record (hd : List Line) (hh : ∀ l ∈ hd, BodyLine l) :
    genLoop start cont hd true none 0 0 = .error .other := by
  have := genLoop_header start cont hd hh [] 0 0
  simp only [List.append_nil] at this
  rw [this]; simp [genLoop]

/-- **the loop delimits every record exactly** -/
theorem genLoop_delimits (hd : List Line) (recs : List (List Line))
    (hh : ∀ l ∈ hd, BodyLine l) (hr : ∀ r ∈ recs, RecWF r) (hne : recs ≠ []) :
    genLoop start cont (hd ++ recs.flatten) true none 0 0 = specRows start cont (lenSum hd) recs := by
  rw [genLoop_header start cont hd hh]
  cases recs with
  | nil => exact absurd rfl hne
  | cons r rs =>
    obtain ⟨h, t, rfl, hx, ht⟩ := hr r (by simp)
    have hrs : ∀ x ∈ rs, RecWF x := fun x hx => hr x (by simp [hx])
    have hemp : h.isEmpty = false := by
      have := hasHex_ne_nil hx; cases h <;> simp_all
    simp only [List.flatten_cons, List.cons_append, genLoop, hemp, hx, Bool.false_eq_true, ↓reduceIte,
      Bool.and_true, specRows, recKey, lenSum_cons, bind_assoc, Nat.zero_add]
    cases hs : start h with
    | error e => simp [bind, Except.bind]
    | ok k2 =>
      simp only [bind, Except.bind]
      have hb := genLoop_body start cont t ht rs.flatten k2 (lenSum hd) h.length (lenSum hd + h.length)
      simp only [bind, Except.bind] at hb
      rw [Nat.add_sub_cancel, hb]
      cases hf : List.foldlM cont k2 t with
      | error e => simp
      | ok k' =>
        simp only
        have := genLoop_recs start cont rs hrs k' (lenSum hd) (h.length + lenSum t) (lenSum hd + h.length + lenSum t)
        simp only [bind, Except.bind] at this
        rw [this, Nat.add_assoc]
        cases specRows start cont (lenSum hd + (h.length + lenSum t)) rs <;> simp [pure, Except.pure]

/-! ### what `specRows` says, spelled out -/

/-- `R` holds position by position (the lists have the same length) -/
inductive All2 {α β : Type} (R : α → β → Prop) : List α → List β → Prop
  | nil : All2 R [] []
  | cons {a b as bs} : R a b → All2 R as bs → All2 R (a :: as) (b :: bs)

theorem All2.left {α β : Type} {P : α → β → Prop} {xs : List α} {ys : List β} (h : All2 P xs ys) :
    ∀ x ∈ xs, ∃ y ∈ ys, P x y := by
  induction h with
  | nil => intro x hx; cases hx
  | cons hp _ ih =>
    intro x hx
    rcases List.mem_cons.mp hx with rfl | hx
    · exact ⟨_, by simp, hp⟩
    · obtain ⟨y, hy, hxy⟩ := ih x hx
      exact ⟨y, by simp [hy], hxy⟩

theorem All2.right {α β : Type} {P : α → β → Prop} {xs : List α} {ys : List β} (h : All2 P xs ys) :
    ∀ y ∈ ys, ∃ x ∈ xs, P x y := by
  induction h with
  | nil => intro x hx; cases hx
  | cons hp _ ih =>
    intro y hy
    rcases List.mem_cons.mp hy with rfl | hy
    · exact ⟨_, by simp, hp⟩
    · obtain ⟨x, hx, hxy⟩ := ih y hy
      exact ⟨x, by simp [hx], hxy⟩

theorem All2.length_eq {α β : Type} {P : α → β → Prop} {xs : List α} {ys : List β} (h : All2 P xs ys) :
    xs.length = ys.length := by
  induction h with
  | nil => rfl
  | cons _ _ ih => simp [ih]

/-- `(offset, size)` of consecutive records starting at `off` -/
def layout (off : Nat) : List (List Line) → List (Nat × Nat)
  | [] => []
  | r :: rs => (off, lenSum r) :: layout (off + lenSum r) rs

theorem specRows_ok_iff (recs : List (List Line)) : ∀ (off : Nat) (rows : List (Row K)),
    specRows start cont off recs = .ok rows ↔
      (All2 (fun (row : Row K) r => recKey start cont r = .ok row.1) rows recs ∧
        rows.map (fun row => row.2) = layout off recs) := by
  induction recs with
  | nil =>
    intro off rows
    constructor
    · intro h; simp only [specRows] at h; injection h with h; subst h; exact ⟨All2.nil, rfl⟩
    · rintro ⟨h, _⟩; cases h; rfl
  | cons r rs ih =>
    intro off rows
    simp only [specRows, layout]
    constructor
    · intro h
      cases hk : recKey start cont r with
      | error e => rw [hk] at h; simp [bind, Except.bind] at h
      | ok k =>
        rw [hk] at h
        cases ht : specRows start cont (off + lenSum r) rs with
        | error e => rw [ht] at h; simp [bind, Except.bind] at h
        | ok tail =>
          rw [ht] at h
          simp only [bind, Except.bind, pure, Except.pure] at h
          injection h with h; subst h
          have iht := (ih _ tail).mp ht
          exact ⟨All2.cons hk iht.1, by simp [iht.2]⟩
    · rintro ⟨h, h2⟩
      cases h with
      | cons h1 h3 =>
        rename_i row rows'
        obtain ⟨a, o, s⟩ := row
        simp only [List.map_cons, List.cons.injEq, Prod.mk.injEq] at h2
        obtain ⟨⟨rfl, rfl⟩, h2⟩ := h2
        have := (ih _ rows').mpr ⟨h3, h2⟩
        simp only at h1
        rw [h1, this]; rfl

/-- every `(offset, size)` of the layout cuts exactly its record out of the text -/
theorem layout_slices (recs : List (List Line)) : ∀ (pre post : List Nat),
    All2 (fun (os : Nat × Nat) r => slice (pre ++ recs.flatten.flatten ++ post) os.1 os.2 = r.flatten)
      (layout pre.length recs) recs := by
  induction recs with
  | nil => intro pre post; exact All2.nil
  | cons r rs ih =>
    intro pre post
    simp only [layout]
    refine All2.cons ?_ ?_
    · simp only [slice, List.flatten_cons, List.flatten_append, List.append_assoc, lenSum_eq_flatten]
      rw [List.drop_left, List.take_left]
    · have := ih (pre ++ r.flatten) post
      simp only [List.length_append, ← lenSum_eq_flatten] at this
      simpa [List.flatten_append, List.append_assoc] using this

/-! ### `readline()` -/

theorem linesAux_flatten (bs : List Nat) : ∀ acc, (linesAux bs acc).flatten = acc.reverse ++ bs := by
  induction bs with
  | nil => intro acc; cases acc <;> simp [linesAux]
  | cons b t ih =>
    intro acc
    simp only [linesAux]
    split
    · simp [ih]
    · simp [ih]

/-- the lines `readline()` returns concatenate to the file -/
theorem pyLines_flatten (bs : List Nat) : (pyLines bs).flatten = bs := by
  simp [pyLines, linesAux_flatten]

/-- a complete line: no `\n` inside, `\n` at the end -/
def ProperLine (l : Line) : Prop := ∃ b, l = b ++ [10] ∧ 10 ∉ b

/-- a file split into lines: all lines complete, except that the last one may lack the final
    `\n` (then it is non-empty) -/
def Lines : List Line → Prop
  | [] => True
  | [l] => ProperLine l ∨ (l ≠ [] ∧ 10 ∉ l)
  | l :: rest => ProperLine l ∧ Lines rest

theorem linesAux_line (b : List Nat) (hb : 10 ∉ b) (rest : List Nat) : ∀ acc,
    linesAux (b ++ 10 :: rest) acc = (acc.reverse ++ b ++ [10]) :: linesAux rest [] := by
  induction b with
  | nil => intro acc; simp [linesAux]
  | cons x t ih =>
    intro acc
    have hx : x ≠ 10 := fun h => hb (by simp [h])
    have ht : 10 ∉ t := fun h => hb (by simp [h])
    simp [linesAux, hx, ih ht]

theorem linesAux_last (b : List Nat) (hb : 10 ∉ b) : ∀ acc, acc.reverse ++ b ≠ [] →
    linesAux b acc = [acc.reverse ++ b] := by
  induction b with
  | nil => intro acc h; cases acc <;> simp_all [linesAux]
  | cons x t ih =>
    intro acc _
    have hx : x ≠ 10 := fun h => hb (by simp [h])
    have ht : 10 ∉ t := fun h => hb (by simp [h])
    simp [linesAux, hx, ih ht (x :: acc) (by simp)]

/-- `readline()` recovers exactly the lines a well-formed file was written from -/
theorem pyLines_of_lines (ls : List Line) (h : Lines ls) : pyLines ls.flatten = ls := by
  unfold pyLines
  induction ls with
  | nil => simp [linesAux]
  | cons l rest ih =>
    cases rest with
    | nil =>
      simp only [Lines] at h
      rcases h with ⟨b, rfl, hb⟩ | ⟨hne, hb⟩
      · have := linesAux_line b hb [] []
        simp only [List.reverse_nil, List.nil_append] at this
        simp [this, linesAux]
      · simpa using linesAux_last l hb [] (by simpa using hne)
    | cons l2 rest2 =>
      simp only [Lines] at h
      obtain ⟨⟨b, rfl, hb⟩, hrest⟩ := h
      have := linesAux_line b hb (l2 :: rest2).flatten []
      simp only [List.reverse_nil, List.nil_append] at this
      simp only [List.flatten_cons, List.append_assoc, List.cons_append, List.nil_append] at this ⊢
      rw [this, ← List.flatten_cons, ih hrest]

theorem Lines.ne_nil {ls : List Line} (h : Lines ls) : ∀ l ∈ ls, l ≠ [] := by
  induction ls with
  | nil => simp
  | cons l rest ih =>
    cases rest with
    | nil =>
      simp only [Lines] at h
      intro x hx
      simp only [List.mem_singleton] at hx
      subst hx
      rcases h with ⟨b, rfl, _⟩ | ⟨hne, _⟩
      · simp
      · exact hne
    | cons l2 rest2 =>
      simp only [Lines] at h
      obtain ⟨⟨b, rfl, _⟩, hrest⟩ := h
      intro x hx
      rcases List.mem_cons.mp hx with rfl | hx
      · simp
      · exact ih hrest x hx

/-! ### every file has exactly one header/records reading -/

/-- the canonical reading of ANY list of lines as header + records: a line with the `(hex)`
    marker starts a record, every other line belongs to what precedes it -/
def decompose : List Line → List Line × List (List Line)
  | [] => ([], [])
  | l :: rest =>
    let d := decompose rest
    if hasHex l then ([], (l :: d.1) :: d.2) else (l :: d.1, d.2)

theorem decompose_flatten (ls : List Line) : (decompose ls).1 ++ (decompose ls).2.flatten = ls := by
  induction ls with
  | nil => rfl
  | cons l rest ih =>
    simp only [decompose]
    split
    · simp only [List.nil_append, List.flatten_cons, List.cons_append]
      rw [ih]
    · simp only [List.cons_append]
      rw [ih]

theorem decompose_header (ls : List Line) : ∀ l ∈ (decompose ls).1, hasHex l = false ∧ l ∈ ls := by
  induction ls with
  | nil => intro l hl; cases hl
  | cons a rest ih =>
    intro l hl
    simp only [decompose] at hl
    split at hl
    · cases hl
    · rename_i hh
      rcases List.mem_cons.mp hl with rfl | h'
      · exact ⟨by simpa using hh, by simp⟩
      · exact ⟨(ih l h').1, by simp [(ih l h').2]⟩

theorem decompose_records (ls : List Line) : ∀ r ∈ (decompose ls).2,
    ∃ h t, r = h :: t ∧ hasHex h = true ∧ (∀ l ∈ t, hasHex l = false) ∧ ∀ l ∈ r, l ∈ ls := by
  induction ls with
  | nil => intro r hr; cases hr
  | cons a rest ih =>
    intro r hr
    simp only [decompose] at hr
    split at hr
    · rename_i hh
      rcases List.mem_cons.mp hr with rfl | h'
      · refine ⟨a, (decompose rest).1, rfl, hh, fun l hl => (decompose_header rest l hl).1, ?_⟩
        intro l hl
        rcases List.mem_cons.mp hl with rfl | h2
        · simp
        · simp [(decompose_header rest l h2).2]
      · obtain ⟨h, t, e, h1, h2, h3⟩ := ih r h'
        exact ⟨h, t, e, h1, h2, fun l hl => by simp [h3 l hl]⟩
    · obtain ⟨h, t, e, h1, h2, h3⟩ := ih r hr
      exact ⟨h, t, e, h1, h2, fun l hl => by simp [h3 l hl]⟩

theorem decompose_nil_iff (ls : List Line) : (decompose ls).2 = [] ↔ ∀ l ∈ ls, hasHex l = false := by
  induction ls with
  | nil => simp [decompose]
  | cons a rest ih =>
    simp only [decompose]
    split
    · rename_i hh
      simp only [reduceCtorEq, List.mem_cons, forall_eq_or_imp, false_iff, not_and]
      intro h; rw [hh] at h; cases h
    · rename_i hh
      simp only [List.mem_cons, forall_eq_or_imp]
      rw [ih]
      simp [hh]

theorem linesAux_ne_nil (bs : List Nat) : ∀ acc, ∀ l ∈ linesAux bs acc, l ≠ [] := by
  induction bs with
  | nil =>
    intro acc l hl
    simp only [linesAux] at hl
    split at hl
    · cases hl
    · simp only [List.mem_singleton] at hl
      subst hl
      cases acc <;> simp_all
  | cons b t ih =>
    intro acc l hl
    simp only [linesAux] at hl
    split at hl
    · rcases List.mem_cons.mp hl with rfl | h'
      · simp
      · exact ih [] l h'
    · exact ih _ l hl

/-- `readline()` never returns an empty line before EOF -/
theorem pyLines_ne_nil (bs : List Nat) : ∀ l ∈ pyLines bs, l ≠ [] := linesAux_ne_nil bs []

/-! ### small generic helpers used by Props/C19 -/

theorem div_eq_iff_block (a v B : Nat) (hB : 0 < B) : a / B = v / B ↔ v / B * B ≤ a ∧ a ≤ v / B * B + (B - 1) := by
  constructor
  · intro h
    have h1 := Nat.div_add_mod a B
    have h2 := Nat.mod_lt a hB
    rw [← h]
    rw [Nat.mul_comm] 
    omega
  · intro ⟨h1, h2⟩
    apply Nat.div_eq_of_lt_le
    · exact h1
    · rw [Nat.add_mul]; omega

theorem all2_and {α β : Type} {P : α → β → Prop} {Q : (Nat × Nat) → β → Prop} {f : α → (Nat × Nat)} {xs : List α} {ys : List β}
    (h1 : All2 P xs ys) (h2 : All2 Q (xs.map f) ys) : All2 (fun x y => P x y ∧ Q (f x) y) xs ys := by
  induction h1 with
  | nil => exact All2.nil
  | cons hp _ ih =>
    cases h2 with
    | cons hq h2' => exact All2.cons ⟨hp, hq⟩ (ih h2')

theorem mapM_ok {α β : Type} (f : α → R β) : ∀ (l : List α) (rs : List β), l.mapM f = .ok rs →
    All2 (fun x r => f x = .ok r) l rs := by
  intro l
  induction l with
  | nil => intro rs h; simp only [List.mapM_nil, pure, Except.pure] at h; injection h with h; subst h; exact All2.nil
  | cons a l ih =>
    intro rs h
    rw [List.mapM_cons] at h
    cases ha : f a with
    | error e => rw [ha] at h; simp [bind, Except.bind] at h
    | ok b =>
      rw [ha] at h
      cases hl : l.mapM f with
      | error e => rw [hl] at h; simp [bind, Except.bind] at h
      | ok bs =>
        rw [hl] at h
        simp only [bind, Except.bind, pure, Except.pure] at h
        injection h with h; subst h
        exact All2.cons ha (ih bs hl)

theorem mapM_err {α β : Type} (f : α → R β) (e : Err) : ∀ (l : List α), l.mapM f = .error e →
    ∃ x ∈ l, f x = .error e := by
  intro l
  induction l with
  | nil => intro h; simp [List.mapM_nil, pure, Except.pure] at h
  | cons a l ih =>
    intro h
    rw [List.mapM_cons] at h
    cases ha : f a with
    | error e' =>
      rw [ha] at h; simp only [bind, Except.bind] at h; injection h with h; subst h
      exact ⟨a, by simp, ha⟩
    | ok b =>
      rw [ha] at h
      cases hl : l.mapM f with
      | error e' =>
        rw [hl] at h; simp only [bind, Except.bind] at h; injection h with h; subst h
        obtain ⟨x, hx, hfx⟩ := ih hl
        exact ⟨x, by simp [hx], hfx⟩
      | ok bs => rw [hl] at h; simp [bind, Except.bind, pure, Except.pure] at h

theorem lookupRows_nil_iff (index : List (Nat × Nat × Nat)) (v : Nat) :
    lookupRows index v = [] ↔ ∀ r ∈ index, r.1 ≠ v := by
  simp [lookupRows, List.filter_eq_nil_iff]

end NV.Registry
