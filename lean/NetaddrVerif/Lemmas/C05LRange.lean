import NetaddrVerif.Lemmas.C05LSpan
/-! C05 helper lemmas, part 4: the two trims of `iprange_to_cidrs` turn a spanning block into
    the canonical list of `[lo, hi]`. -/
namespace NV.C05L
open NV Blk

/-- everything `iprange_to_cidrs` does after `spanning_cidr` -/
def trims (w lo hi : Nat) (span : Pfx) : List Pfx :=
  let st : List Pfx × Pfx :=
    if span.first w < lo then
      let l := (cidrPartition w span ⟨lo - 1, w⟩).2.2
      (l.dropLast, l.getLast?.getD span)
    else ([], span)
  if st.2.last w > hi then st.1 ++ (cidrPartition w st.2 ⟨hi + 1, w⟩).1
  else st.1 ++ [st.2]

theorem iprangeToCidrs_eq (w : Nat) (s e : Pfx) :
    iprangeToCidrs w s e = trims w (s.first w) (e.last w)
      (spanningOf w (min (s.first w) (e.first w)) (max (s.last w) (e.last w))) := rfl

/-- the result is the canonical list of the closed interval `[lo, hi]`: canonical as blocks,
    exact, and every element is a proper CIDR (no host bits, prefix inside the width) -/
structure RangeOK (w : Nat) (l : List Pfx) (lo hi : Nat) : Prop where
  canon : Canon (l.map (toBlk w))
  den : ∀ a, lden w l a ↔ lo ≤ a ∧ a ≤ hi
  wf : ∀ b ∈ l, alignedN w b ∧ b.plen ≤ w

theorem Run.rangeOK {w K : Nat} {l : List Pfx} {lo hi : Nat} (h : Run w K l lo (hi + 1)) :
    RangeOK w l lo hi :=
  ⟨h.canon, fun a => by rw [h.den a]; omega, fun b hb => ⟨h.al b hb, (h.plen b hb).1⟩⟩

theorem lden_single (w : Nat) (b : Pfx) (a : Nat) : lden w [b] a ↔ bmem w b a := by simp [lden]

theorem lden_app (w : Nat) (l₁ l₂ : List Pfx) (a : Nat) : lden w (l₁ ++ l₂) a ↔ lden w l₁ a ∨ lden w l₂ a := by
  simp only [lden, List.mem_append]
  constructor
  · rintro ⟨b, hb | hb, hm⟩
    · exact Or.inl ⟨b, hb, hm⟩
    · exact Or.inr ⟨b, hb, hm⟩
  · rintro (⟨b, hb, hm⟩ | ⟨b, hb, hm⟩)
    · exact ⟨b, Or.inl hb, hm⟩
    · exact ⟨b, Or.inr hb, hm⟩

theorem single_rangeOK (w v r : Nat) (hr : r ≤ w) (hal : v % 2 ^ (w - r) = 0) :
    RangeOK w [⟨v, r⟩] v (v + 2 ^ (w - r) - 1) := by
  have hp := pp (w - r)
  refine ⟨canon_single _ hal, fun a => ?_, ?_⟩
  · rw [lden_single]; simp only [bmem]; omega
  · intro b hb; simp at hb; subst hb; exact ⟨hal, hr⟩

/-- a block of a run ends below the end of the run, starts at or after its start -/
theorem Run.bounds {w K : Nat} {l : List Pfx} {lo hi1 : Nat} (h : Run w K l lo hi1) (b : Pfx) (hb : b ∈ l) :
    lo ≤ b.val ∧ b.val + 2 ^ (w - b.plen) ≤ hi1 := by
  have hp := pp (w - b.plen)
  have h1 := (h.den b.val).1 ⟨b, hb, by simp only [bmem]; omega⟩
  have h2 := (h.den (b.val + 2 ^ (w - b.plen) - 1)).1 ⟨b, hb, by simp only [bmem]; omega⟩
  omega

theorem trims_spec (w lo hi v r : Nat) (hr : r ≤ w) (hal : v % 2 ^ (w - r) = 0)
    (hfit : v + 2 ^ (w - r) ≤ 2 ^ w) (hvlo : v ≤ lo) (hle : lo ≤ hi) (hhi : hi < v + 2 ^ (w - r))
    (hmid : v < lo → hi + 1 < v + 2 ^ (w - r) →
      lo ≤ v + 2 ^ (w - (r + 1)) ∧ v + 2 ^ (w - (r + 1)) ≤ hi + 1) :
    RangeOK w (trims w lo hi ⟨v, r⟩) lo hi := by
  have hp := pp (w - r)
  have hv : v < 2 ^ w := by omega
  unfold trims
  simp only [Pfx.first, Pfx.last, first_aligned w v r hv hal]
  rcases Nat.lt_or_ge r w with hrw | hrw
  · have hhalf := pow_half w r (by omega)
    by_cases hlt : v < lo
    · simp only [hlt, if_true]
      by_cases hrt : hi + 1 < v + 2 ^ (w - r)
      · -- both trims
        obtain ⟨hm1, hm2⟩ := hmid hlt hrt
        have hp1 := pp (w - (r + 1))
        have hr1 : r + 1 < w := by
          rcases Nat.lt_or_ge (r + 1) w with h | h
          · exact h
          · exfalso
            have e : w - (r + 1) = 0 := by omega
            rw [e] at hm1 hhalf; omega
        obtain ⟨rest, hrest, hrun⟩ := part_split w v r (lo - 1) hrw hal hfit (by omega) (by omega)
        rw [hrest]
        simp only [List.dropLast_concat, List.getLast?_concat, Option.getD_some]
        have hmal : (v + 2 ^ (w - (r + 1))) % 2 ^ (w - (r + 1)) = 0 := by
          have : v % 2 ^ (w - (r + 1)) = 0 := by
            have := Nat.mod_mul_right_mod v (2 ^ (w - (r + 1))) 2
            rw [Nat.mul_comm, ← hhalf, hal] at this
            simpa using this.symm
          rw [Nat.add_mod, this]; simp
        rw [last_aligned w _ (r + 1) hmal]
        have c : v + 2 ^ (w - (r + 1)) + (2 ^ (w - (r + 1)) - 1) > hi := by omega
        simp only [c, if_true]
        have hps := (part_spec w (v + 2 ^ (w - (r + 1))) (r + 1) (hi + 1) hr1 hmal (by omega) hm2 (by omega)).1
        have e1 : lo - 1 + 1 = lo := by omega
        rw [e1] at hrun
        generalize (cidrPartition w ⟨v + 2 ^ (w - (r + 1)), r + 1⟩ ⟨hi + 1, w⟩).1 = lp at hps
        refine ⟨?_, ?_, ?_⟩
        · rw [List.map_append]
          apply canon_append _ _ hrun.canon hps.canon
          · intro b hb c hc
            obtain ⟨p, hp', rfl⟩ := List.mem_map.1 hb
            obtain ⟨q, hq', rfl⟩ := List.mem_map.1 hc
            have := (hrun.bounds p hp').2
            have := (hps.bounds q hq').1
            simp only [toBlk]; omega
          · intro b hb c hc
            obtain ⟨p, hp', rfl⟩ := List.mem_map.1 hb
            obtain ⟨q, hq', rfl⟩ := List.mem_map.1 hc
            exact nosib_across (v + 2 ^ (w - (r + 1))) (w - (r + 1)) _ _ hmal (hrun.plen p hp').2
              (hrun.bounds p hp').2 (hps.bounds q hq').1
        · intro a; rw [lden_app, hrun.den a, hps.den a]; omega
        · intro b hb
          rcases List.mem_append.1 hb with h | h
          · exact ⟨hrun.al b h, (hrun.plen b h).1⟩
          · exact ⟨hps.al b h, (hps.plen b h).1⟩
      · -- left trim only
        have hps := (part_spec w v r (lo - 1) hrw hal hfit (by omega) (by omega)).2
        have e1 : lo - 1 + 1 = lo := by omega
        rw [e1] at hps
        generalize (cidrPartition w ⟨v, r⟩ ⟨lo - 1, w⟩).2.2 = l at hps
        have hne : l ≠ [] := by
          intro e; subst e
          have := (hps.den lo).2 ⟨Nat.le_refl _, by omega⟩
          simp [lden] at this
        have hlast := List.getLast?_eq_some_getLast hne
        have hmem : l.getLast hne ∈ l := List.getLast_mem hne
        rw [hlast]
        simp only [Option.getD_some]
        rw [last_aligned w _ _ (hps.al _ hmem)]
        have hb := (hps.bounds _ hmem).2
        have hpb := pp (w - (l.getLast hne).plen)
        have c : ¬ (l.getLast hne).val + (2 ^ (w - (l.getLast hne).plen) - 1) > hi := by omega
        simp only [c, if_false]
        rw [List.dropLast_concat_getLast hne]
        have e2 : v + 2 ^ (w - r) = hi + 1 := by omega
        rw [e2] at hps
        exact hps.rangeOK
    · simp only [hlt, if_false, last_aligned w v r hal]
      have hvl : v = lo := by omega
      subst hvl
      by_cases hrt : v + (2 ^ (w - r) - 1) > hi
      · simp only [hrt, if_true, List.nil_append]
        exact (part_spec w v r (hi + 1) hrw hal hfit (by omega) (by omega)).1.rangeOK
      · simp only [hrt, if_false, List.nil_append]
        have e : hi = v + 2 ^ (w - r) - 1 := by omega
        rw [e]
        exact single_rangeOK w v r hr hal
  · have hrw' : r = w := by omega
    subst hrw'
    simp only [Nat.sub_self, Nat.pow_zero] at hhi hal ⊢
    have e1 : lo = v := by omega
    have e2 : hi = v := by omega
    subst e1; subst e2
    simp only [Nat.lt_irrefl, if_false, gt_iff_lt, List.nil_append, last_full]
    have := single_rangeOK r hi r (Nat.le_refl _) (by simp [Nat.mod_one])
    simpa using this

end NV.C05L

namespace NV.C05L
open NV Blk

theorem fl_unique (k x m : Nat) (hm : m % 2 ^ k = 0) (h1 : m ≤ x) (h2 : x < m + 2 ^ k) : fl k x = m := by
  obtain ⟨t, rfl⟩ := Nat.dvd_of_mod_eq_zero hm
  unfold fl
  have : x / 2 ^ k = t := by
    apply Nat.div_eq_of_lt_le
    · rw [Nat.mul_comm]; exact h1
    · rw [Nat.mul_comm, Nat.mul_succ]; exact h2
  rw [this, Nat.mul_comm]

/-- flooring to a finer grid gives a larger (or equal) value -/
theorem fl_mono (k j x : Nat) (h : k ≤ j) : fl j x ≤ fl k x := by
  unfold fl
  have e : 2 ^ j = 2 ^ k * 2 ^ (j - k) := by rw [← Nat.pow_add]; congr 1; omega
  have hle : x / 2 ^ j * 2 ^ (j - k) ≤ x / 2 ^ k := by
    rw [Nat.le_div_iff_mul_le (pp k)]
    calc x / 2 ^ j * 2 ^ (j - k) * 2 ^ k = x / 2 ^ j * 2 ^ j := by rw [Nat.mul_assoc, e, Nat.mul_comm (2 ^ (j - k))]
      _ ≤ x := Nat.div_mul_le_self x (2 ^ j)
  calc x / 2 ^ j * 2 ^ j = x / 2 ^ j * 2 ^ (j - k) * 2 ^ k := by rw [Nat.mul_assoc, e, Nat.mul_comm (2 ^ (j - k))]
    _ ≤ x / 2 ^ k * 2 ^ k := Nat.mul_le_mul_right _ hle

theorem pfx_first_eq (w : Nat) (b : Pfx) (hv : b.val < 2 ^ w) : b.first w = fl (w - b.plen) b.val :=
  netFirst_eq w b.val b.plen hv
theorem pfx_last_eq (w : Nat) (b : Pfx) : b.last w = fl (w - b.plen) b.val + (2 ^ (w - b.plen) - 1) :=
  netLast_eq w b.val b.plen

/-- the trims applied to the spanning block of `[lo0, hi0] ⊇ [lo, hi]`, in the three shapes
    that two networks can produce: the interval itself; the start block `[lo, hi0]`; the end
    block `[lo0, hi]` -/
theorem trims_span (w lo hi lo0 hi0 : Nat) (h0 : lo0 ≤ lo) (hle : lo ≤ hi) (h1 : hi ≤ hi0) (hhi0 : hi0 < 2 ^ w)
    (hcase : (lo0 = lo ∧ hi0 = hi) ∨
      (lo0 = lo ∧ ∃ j, j ≤ w ∧ lo % 2 ^ j = 0 ∧ hi0 = lo + (2 ^ j - 1)) ∨
      (hi0 = hi ∧ ∃ j, j ≤ w ∧ lo0 % 2 ^ j = 0 ∧ hi = lo0 + (2 ^ j - 1))) :
    RangeOK w (trims w lo hi (spanningOf w lo0 hi0)) lo hi := by
  obtain ⟨h1', h2, h3, h4, h5, h6, h7⟩ := spanningOf_spec w lo0 hi0 (by omega) hhi0
  generalize spanningOf w lo0 hi0 = sp at *
  obtain ⟨v, r⟩ := sp
  simp only at h1' h2 h3 h4 h5 h6 h7
  have hvfl : fl (w - r) hi0 = v := fl_unique _ _ _ h2 (by omega) h4
  apply trims_spec w lo hi v r h1' h2 h5 (by omega) hle (by omega)
  intro hvlt hrt
  rcases hcase with ⟨e1, e2⟩ | ⟨e1, j, hj, hal, e2⟩ | ⟨e1, j, hj, hal, e2⟩
  · subst e1; subst e2
    have hrw : r < w := by
      rcases Nat.lt_or_ge r w with h | h
      · exact h
      · have e0 : w - r = 0 := by omega
        rw [e0] at hrt; omega
    have := h6 hrw
    omega
  · exfalso
    subst e1
    have hpj := pp j
    have hfls : fl j hi0 = lo0 := fl_unique _ _ _ hal (by omega) (by omega)
    have hrs : w - j ≤ r := by
      rcases Nat.lt_or_ge r (w - j) with h | h
      · have := h7 (w - j) h (by omega)
        have e : w - (w - j) = j := by omega
        rw [e, hfls] at this; omega
      · exact h
    have := fl_mono (w - r) j hi0 (by omega)
    omega
  · exfalso
    subst e1
    have hpj := pp j
    have hfle : fl j hi0 = lo0 := fl_unique _ _ _ hal (by omega) (by omega)
    have hre : w - j ≤ r := by
      rcases Nat.lt_or_ge r (w - j) with h | h
      · have := h7 (w - j) h (by omega)
        have e : w - (w - j) = j := by omega
        rw [e, hfle] at this; omega
      · exact h
    have := fl_mono (w - r) j hi0 (by omega)
    have hpow : 2 ^ (w - r) ≤ 2 ^ j := Nat.pow_le_pow_right (by decide) (by omega)
    omega

/-- `iprange_to_cidrs(start, end)` for two networks (host bits allowed) of one family with
    `start.first ≤ end.last` -/
theorem range_net (w : Nat) (s e : Pfx) (hs : s.val < 2 ^ w) (he : e.val < 2 ^ w)
    (hsp : s.plen ≤ w) (hep : e.plen ≤ w) (hle : s.first w ≤ e.last w) :
    RangeOK w (iprangeToCidrs w s e) (s.first w) (e.last w) := by
  rw [iprangeToCidrs_eq]
  have hsfit := block_lt w s.val s.plen hs hsp
  have hefit := block_lt w e.val e.plen he hep
  rw [pfx_first_eq w s hs, pfx_first_eq w e he, pfx_last_eq w s, pfx_last_eq w e] at *
  have hsal := fl_mod (w - s.plen) s.val
  have heal := fl_mod (w - e.plen) e.val
  change fl (w - s.plen) s.val + 2 ^ (w - s.plen) ≤ 2 ^ w at hsfit
  change fl (w - e.plen) e.val + 2 ^ (w - e.plen) ≤ 2 ^ w at hefit
  generalize fl (w - s.plen) s.val = lo at *
  generalize fl (w - e.plen) e.val = fe at *
  have hps := pp (w - s.plen)
  have hpe := pp (w - e.plen)
  -- the two blocks as `Blk`s
  let S : Blk := ⟨lo, w - s.plen⟩
  let E : Blk := ⟨fe, w - e.plen⟩
  have hSal : S.aligned := hsal
  have hEal : E.aligned := heal
  by_cases hB : lo + (2 ^ (w - s.plen) - 1) > fe + (2 ^ (w - e.plen) - 1)
  · -- start block reaches beyond the end block
    have hSm : S.mem (fe + (2 ^ (w - e.plen) - 1)) := ⟨hle, by show _ < lo + 2 ^ (w - s.plen); omega⟩
    have hEm : E.mem (fe + (2 ^ (w - e.plen) - 1)) := ⟨by show fe ≤ _; omega, by show _ < fe + 2 ^ (w - e.plen); omega⟩
    have hlofe : lo ≤ fe := by
      rcases Nat.le_total (w - e.plen) (w - s.plen) with hk | hk
      · exact (sub_of_share E S hEal hSal hk _ hEm hSm fe (mem_base E)).1
      · have := (sub_of_share S E hSal hEal hk _ hSm hEm (lo + (2 ^ (w - s.plen) - 1))
          ⟨by show lo ≤ _; omega, by show _ < lo + 2 ^ (w - s.plen); omega⟩).2
        have : lo + (2 ^ (w - s.plen) - 1) < fe + 2 ^ (w - e.plen) := this
        omega
    have hmax : max (lo + (2 ^ (w - s.plen) - 1)) (fe + (2 ^ (w - e.plen) - 1)) = lo + (2 ^ (w - s.plen) - 1) := by omega
    have hmin : min lo fe = lo := by omega
    rw [hmax, hmin]
    exact trims_span w lo _ lo _ (Nat.le_refl _) hle (by omega) (by omega)
      (Or.inr (Or.inl ⟨rfl, w - s.plen, by omega, hsal, rfl⟩))
  · by_cases hC : fe < lo
    · -- end block starts below the start block
      have hmax : max (lo + (2 ^ (w - s.plen) - 1)) (fe + (2 ^ (w - e.plen) - 1)) = fe + (2 ^ (w - e.plen) - 1) := by omega
      have hmin : min lo fe = fe := by omega
      rw [hmax, hmin]
      exact trims_span w lo _ fe _ (by omega) hle (Nat.le_refl _) (by omega)
        (Or.inr (Or.inr ⟨rfl, w - e.plen, by omega, heal, rfl⟩))
    · have hmax : max (lo + (2 ^ (w - s.plen) - 1)) (fe + (2 ^ (w - e.plen) - 1)) = fe + (2 ^ (w - e.plen) - 1) := by omega
      have hmin : min lo fe = lo := by omega
      rw [hmax, hmin]
      exact trims_span w lo _ lo _ (Nat.le_refl _) hle (Nat.le_refl _) (by omega) (Or.inl ⟨rfl, rfl⟩)

/-- `iprange_to_cidrs(IPAddress(lo), IPAddress(hi))`, `IPRange(lo, hi).cidrs()` -/
theorem range_addr (w lo hi : Nat) (hle : lo ≤ hi) (hhi : hi < 2 ^ w) :
    RangeOK w (iprangeToCidrs w ⟨lo, w⟩ ⟨hi, w⟩) lo hi := by
  have h := range_net w ⟨lo, w⟩ ⟨hi, w⟩ (by show lo < 2 ^ w; omega) hhi (Nat.le_refl w) (Nat.le_refl w)
    (by simp only [Pfx.first, Pfx.last, last_full]; rw [first_full w lo (by omega)]; exact hle)
  simp only [Pfx.first, Pfx.last, last_full] at h
  rw [first_full w lo (by omega)] at h
  exact h

end NV.C05L
