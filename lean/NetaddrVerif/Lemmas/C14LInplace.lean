/-
Lemmas/C14LInplace.lean — the statement-level model of `__iadd__`/`__isub__`
(`Address.Inplace`): its exact event trace, its result, and the discipline "the receiver is
written only after both range checks passed".
-/
import NetaddrVerif.Lemmas.C14L
namespace NV.C14L.Inplace
open NV NV.Address NV.Address.Inplace NV.C14

/-- the exact new value of `a += n` (`minus = false`) / `a -= n` (`minus = true`) -/
def newValue (minus : Bool) (a : Addr) (n : Int) : Int :=
  if minus then (a.val : Int) - n else (a.val : Int) + n

/-- the three possible executions, written out -/
def specRun (minus : Bool) (a : Addr) (n : Int) : St :=
  if 0 ≤ newValue minus a n then
    if newValue minus a n ≤ (maxInt a.ver : Int) then
      { self := ⟨a.ver, (newValue minus a n).toNat⟩, nv := newValue minus a n, out := some none,
        log := [.readValue a.val, .cmpLo true, .readModule, .cmpHi true,
                .writeValue (newValue minus a n), .ret] }
    else
      { self := a, nv := newValue minus a n, out := some (some .index),
        log := [.readValue a.val, .cmpLo true, .readModule, .cmpHi false, .raise .index] }
  else
    { self := a, nv := newValue minus a n, out := some (some .index),
      log := [.readValue a.val, .cmpLo false, .raise .index] }

/-- **the execution of the body is exactly one of the three written-out runs** (state, local,
    outcome and the complete event log) -/
theorem run_body (minus : Bool) (a : Addr) (n : Int) :
    run (body minus n) a = specRun minus a n := by
  have hnv : (if minus = true then (a.val : Int) - n else (a.val : Int) + n) = newValue minus a n := rfl
  simp only [run, body, runStmts, stepPrim, Option.isSome, List.nil_append, Bool.false_eq_true,
    if_false, hnv, specRun]
  by_cases h0 : 0 ≤ newValue minus a n
  · by_cases h1 : newValue minus a n ≤ (maxInt a.ver : Int)
    · simp only [if_pos h0, if_pos h1, runPrims, stepPrim, Option.isSome, Bool.false_eq_true,
        if_false, if_true, List.cons_append, List.nil_append]
    · simp only [if_pos h0, if_neg h1, List.cons_append, List.nil_append]
  · simp only [if_neg h0, List.cons_append, List.nil_append]

/-- the receiver afterwards and the exception are those of the functional model
    (`stepInplace` of `guardInplace`) -/
theorem result_body (minus : Bool) (a : Addr) (n : Int) :
    (run (body minus n) a).result = stepInplace a (guardInplace a (newValue minus a n)) := by
  rw [run_body]
  simp only [specRun, guardInplace]
  by_cases h0 : 0 ≤ newValue minus a n
  · by_cases h1 : newValue minus a n ≤ (maxInt a.ver : Int)
    · simp only [if_pos h0, if_pos h1, if_pos (And.intro h0 h1)]; rfl
    · simp only [if_pos h0, if_neg h1, if_neg (fun c : 0 ≤ newValue minus a n ∧ _ => h1 c.2)]; rfl
  · simp only [if_neg h0, if_neg (fun c : 0 ≤ newValue minus a n ∧ _ => h0 c.1)]; rfl

/-! ### the write discipline, as a property of event logs -/

/-- scan a log keeping "the last `0 <=` test passed" / "the last `<= max` test passed";
    a write is allowed only when both are set -/
def guardedFrom (lo hi : Bool) : List Ev → Bool
  | [] => true
  | .cmpLo ok :: es => guardedFrom ok false es
  | .cmpHi ok :: es => guardedFrom lo ok es
  | .writeValue _ :: es => lo && hi && guardedFrom lo hi es
  | _ :: es => guardedFrom lo hi es

/-- every `writeValue` in the log comes after a passed `cmpLo` and a passed `cmpHi` -/
def Guarded (log : List Ev) : Prop := guardedFrom false false log = true

instance (log : List Ev) : Decidable (Guarded log) := by unfold Guarded; infer_instance

/-- the values written, in order -/
def writes : List Ev → List Int
  | [] => []
  | .writeValue v :: es => v :: writes es
  | _ :: es => writes es

theorem guarded_body (minus : Bool) (a : Addr) (n : Int) : Guarded (run (body minus n) a).log := by
  rw [run_body]
  unfold specRun
  by_cases h0 : 0 ≤ newValue minus a n
  · by_cases h1 : newValue minus a n ≤ (maxInt a.ver : Int)
    · rw [if_pos h0, if_pos h1]; rfl
    · rw [if_pos h0, if_neg h1]; rfl
  · rw [if_neg h0]; rfl

/-- what is written, and when: on success exactly one write, of the exact in-range new value; on
    either failure nothing is written at all -/
theorem writes_body (minus : Bool) (a : Addr) (n : Int) :
    writes (run (body minus n) a).log =
      if 0 ≤ newValue minus a n ∧ newValue minus a n ≤ (maxInt a.ver : Int)
      then [newValue minus a n] else [] := by
  rw [run_body]
  unfold specRun
  by_cases h0 : 0 ≤ newValue minus a n
  · by_cases h1 : newValue minus a n ≤ (maxInt a.ver : Int)
    · simp only [if_pos h0, if_pos h1, if_pos (And.intro h0 h1)]; rfl
    · simp only [if_pos h0, if_neg h1, if_neg (fun c : 0 ≤ newValue minus a n ∧ _ => h1 c.2)]; rfl
  · simp only [if_neg h0, if_neg (fun c : 0 ≤ newValue minus a n ∧ _ => h0 c.1)]; rfl

/-- a raised exception means no write happened and the receiver is the one we started with -/
theorem raise_untouched (minus : Bool) (a : Addr) (n : Int) (e : Err)
    (h : (run (body minus n) a).out = some (some e)) :
    writes (run (body minus n) a).log = [] ∧ (run (body minus n) a).self = a ∧ e = .index := by
  rw [run_body] at h ⊢
  unfold specRun at h ⊢
  by_cases h0 : 0 ≤ newValue minus a n
  · by_cases h1 : newValue minus a n ≤ (maxInt a.ver : Int)
    · simp only [if_pos h0, if_pos h1] at h; cases h
    · simp only [if_pos h0, if_neg h1] at h ⊢
      injection h with h; injection h with h
      exact ⟨rfl, trivial, h.symm⟩
  · simp only [if_neg h0] at h ⊢
    injection h with h; injection h with h
    exact ⟨rfl, trivial, h.symm⟩

/-! ### the predicate is discriminating: a body that assigns first -/

/-- `self._value = new_value` moved in front of the test (and `return self` left in the `if`) -/
def eagerBody (minus : Bool) (num : Int) : List Stmt :=
  [.prim (.compute minus num), .prim .assign, .ifInRange [.retSelf], .prim .raiseIndex]

/-- on the top IPv4 address `+= 1` the eager body writes before testing — its log is not
    `Guarded` — and leaves a changed receiver behind the IndexError, unlike the real body -/
example :
    ¬ Guarded (run (eagerBody false 1) ⟨4, 4294967295⟩).log ∧
    (run (eagerBody false 1) ⟨4, 4294967295⟩).result = (⟨4, 4294967296⟩, some .index) ∧
    (run (body false 1) ⟨4, 4294967295⟩).result = (⟨4, 4294967295⟩, some .index) ∧
    (run (body false 1) ⟨4, 4294967295⟩).log =
      [.readValue 4294967295, .cmpLo true, .readModule, .cmpHi false, .raise .index] := by decide

end NV.C14L.Inplace
