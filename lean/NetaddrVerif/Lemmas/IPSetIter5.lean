/-
Lemmas/IPSetIter5.lean — the full `repr(IPSet)` text determines the list of CIDR strings:
`str(IPNetwork)` only uses hex digits, `.`, `:` and `/` (so no quote), and the quoted,
comma-separated rendering of quote-free strings is injective.
-/
import NetaddrVerif.Lemmas.IPSetIter4
namespace NV.IPSet.Iter
open NV NV.IPSet NV.AddrParse NV.NetParse NV.Text4 NV.Text6 NV.C01L

/-- the alphabet of a printed network -/
def CidrCh (c : Char) : Prop := isHexC c = true ∨ c = '.' ∨ c = ':' ∨ c = '/'

theorem isHexC_of_isDec (c : Char) (h : isDec c = true) : isHexC c = true := by
  unfold isHexC; unfold isDec at h; rw [h]; rfl

theorem dec_cidrCh (n : Nat) : ∀ c ∈ dec n, CidrCh c :=
  fun c hc => Or.inl (isHexC_of_isDec c (C03L.dec_decCh n c hc).2.2.2.2.2.2.2.2.2)

theorem ntoa_cidrCh (v : Nat) : ∀ c ∈ ntoa v, CidrCh c := by
  intro c hc
  rcases mem_ntoa v c hc with h | h | h | h | h
  · exact Or.inr (Or.inl h)
  all_goals exact dec_cidrCh _ c h

theorem ntop6_cidrCh (v : Nat) : ∀ c ∈ ntop6 v, CidrCh c := by
  intro c hc
  unfold ntop6 at hc
  rcases mem_intercalate ':' _ c hc with e | ⟨t, ht, hct⟩
  · exact Or.inr (Or.inr (Or.inl e))
  · rcases toks_mem v _ t ht with e | e | e
    · subst e; simp at hct
    · obtain ⟨n, _, rfl⟩ := List.mem_map.mp e
      exact Or.inl (hex_all n c hct)
    · subst e; exact ntoa_cidrCh _ c hct

theorem netStr_cidrCh (be : Backend) (n : Net) (hn : n.WF) : ∀ c ∈ netStr be n, CidrCh c := by
  intro c hc
  unfold netStr at hc
  simp only [List.mem_append, List.mem_singleton] at hc
  rcases hc with (h | h) | h
  · unfold intToStr at h
    rcases hn.1 with hv | hv
    · rw [if_pos hv] at h; exact ntoa_cidrCh _ c h
    · rw [if_neg (by omega)] at h
      have hlt : n.val < 2 ^ 128 := by have := hn.2.1; rw [hv] at this; exact this
      have h' : c ∈ inetNtop6 be n.val := h
      rw [inetNtop6_eq be n.val hlt] at h'
      exact ntop6_cidrCh _ c h'
  · exact Or.inr (Or.inr (Or.inr h))
  · exact dec_cidrCh _ c h

theorem quote_not_cidrCh : ¬ CidrCh '\'' := by unfold CidrCh; decide

theorem netStr_noquote (be : Backend) (n : Net) (hn : n.WF) : '\'' ∉ netStr be n :=
  fun h => quote_not_cidrCh (netStr_cidrCh be n hn _ h)

/-! ### the quoted join is injective on quote-free strings -/

theorem split_at_first {q : Char} : ∀ (a b X Y : List Char), q ∉ a → q ∉ b →
    a ++ q :: X = b ++ q :: Y → a = b ∧ X = Y
  | [], [], X, Y, _, _, h => by simp at h; exact ⟨rfl, h⟩
  | [], c :: b, X, Y, _, hb, h => by
    simp only [List.nil_append, List.cons_append, List.cons.injEq] at h
    exact absurd (h.1 ▸ List.mem_cons_self ..) hb
  | c :: a, [], X, Y, ha, _, h => by
    simp only [List.nil_append, List.cons_append, List.cons.injEq] at h
    exact absurd (h.1 ▸ List.mem_cons_self ..) ha
  | c :: a, d :: b, X, Y, ha, hb, h => by
    simp only [List.cons_append, List.cons.injEq] at h
    obtain ⟨e1, e2⟩ := split_at_first a b X Y (fun m => ha (List.mem_cons_of_mem _ m))
      (fun m => hb (List.mem_cons_of_mem _ m)) h.2
    exact ⟨by rw [h.1, e1], e2⟩

theorem joinQuoted_cons (a : List Char) (r : List (List Char)) :
    joinQuoted (a :: r) = '\'' :: (a ++ '\'' :: (if r = [] then [] else [',', ' '] ++ joinQuoted r)) := by
  cases r with
  | nil => simp [joinQuoted, pyStrRepr]
  | cons b r' => simp [joinQuoted, pyStrRepr]

theorem joinQuoted_inj : ∀ (A B : List (List Char)), (∀ t ∈ A, '\'' ∉ t) → (∀ t ∈ B, '\'' ∉ t) →
    joinQuoted A = joinQuoted B → A = B
  | [], [], _, _, _ => rfl
  | [], b :: B, _, _, h => by rw [joinQuoted_cons] at h; simp [joinQuoted] at h
  | a :: A, [], _, _, h => by rw [joinQuoted_cons] at h; simp [joinQuoted] at h
  | a :: A, b :: B, hA, hB, h => by
    rw [joinQuoted_cons, joinQuoted_cons] at h
    simp only [List.cons.injEq, true_and] at h
    obtain ⟨e1, e2⟩ := split_at_first a b _ _ (hA a (List.mem_cons_self ..)) (hB b (List.mem_cons_self ..)) h
    subst e1
    congr 1
    by_cases hA' : A = [] <;> by_cases hB' : B = []
    · rw [hA', hB']
    · rw [if_pos hA', if_neg hB'] at e2; simp at e2
    · rw [if_neg hA', if_pos hB'] at e2; simp at e2
    · rw [if_neg hA', if_neg hB'] at e2
      exact joinQuoted_inj A B (fun t ht => hA t (List.mem_cons_of_mem _ ht))
        (fun t ht => hB t (List.mem_cons_of_mem _ ht)) (List.append_cancel_left e2)

theorem pyListRepr_inj (A B : List (List Char)) (hA : ∀ t ∈ A, '\'' ∉ t) (hB : ∀ t ∈ B, '\'' ∉ t)
    (h : pyListRepr A = pyListRepr B) : A = B := by
  unfold pyListRepr at h
  injection h with _ h
  exact joinQuoted_inj A B hA hB (List.append_cancel_right h)

/-- the whole `repr()` text determines the list of CIDR strings (in-range keys) -/
theorem reprText_inj (be : Backend) (s t : St) (hs : ∀ n ∈ s, n.WF) (ht : ∀ n ∈ t, n.WF)
    (h : reprText be s = reprText be t) : reprStrs be s = reprStrs be t := by
  unfold reprText at h
  have h1 := List.append_cancel_left (List.append_cancel_right h)
  refine pyListRepr_inj _ _ ?_ ?_ h1
  · intro x hx
    obtain ⟨n, hn, rfl⟩ := List.mem_map.1 hx
    exact netStr_noquote be n (hs n ((mem_reprSet s n).1 hn))
  · intro x hx
    obtain ⟨n, hn, rfl⟩ := List.mem_map.1 hx
    exact netStr_noquote be n (ht n ((mem_reprSet t n).1 hn))

end NV.IPSet.Iter
