import NetaddrVerif.Lemmas.PartStruct
import NetaddrVerif.Lemmas.Canon
import NetaddrVerif.Lemmas.Minimal
import NetaddrVerif.Lemmas.NetworkL
/-! Helper lemmas for C09 (cidr_partition / cidr_exclude): from the loop invariants of
    `Partition.lean` / `PartStruct.lean` to canonical block lists. -/
namespace NV.C09L
open NV Blk

/-- a network of the family of width `w` -/
structure PWF (w : Nat) (b : Pfx) : Prop where
  val_lt : b.val < 2 ^ w
  plen_le : b.plen ≤ w

/-- the block a (host-bit-free) network denotes -/
def blk (w : Nat) (b : Pfx) : Blk := ⟨b.val, w - b.plen⟩
def blks (w : Nat) (l : List Pfx) : List Blk := l.map (blk w)

/-- the address set of a network, host bits or not: `first .. last` -/
def _root_.NV.Pfx.mem (w : Nat) (b : Pfx) (a : Nat) : Prop := b.first w ≤ a ∧ a ≤ b.last w

theorem den_blks (w : Nat) (l : List Pfx) (a : Nat) : den (blks w l) a ↔ lden w l a := by
  simp only [den, blks, lden, List.mem_map]
  constructor
  · rintro ⟨b, ⟨p, hp, rfl⟩, hm⟩; exact ⟨p, hp, hm⟩
  · rintro ⟨p, hp, hm⟩; exact ⟨blk w p, ⟨p, hp, rfl⟩, hm⟩

theorem lden_reverse (w : Nat) (l : List Pfx) (a : Nat) : lden w l.reverse a ↔ lden w l a := by
  simp [lden]

theorem lden_nil (w : Nat) (a : Nat) : ¬ lden w [] a := by simp [lden]

theorem lden_single (w : Nat) (b : Pfx) (a : Nat) : lden w [b] a ↔ bmem w b a := by simp [lden]

/-- first/last of a well-formed network in closed form -/
theorem pfx_first_eq (w : Nat) (b : Pfx) (h : PWF w b) :
    b.first w = b.val / 2 ^ (w - b.plen) * 2 ^ (w - b.plen) := netFirst_eq w b.val b.plen h.val_lt

theorem pfx_last_eq (w : Nat) (b : Pfx) :
    b.last w = b.val / 2 ^ (w - b.plen) * 2 ^ (w - b.plen) + (2 ^ (w - b.plen) - 1) := netLast_eq w b.val b.plen

theorem pfx_last_first (w : Nat) (b : Pfx) (h : PWF w b) : b.last w + 1 = b.first w + 2 ^ (w - b.plen) := by
  rw [pfx_last_eq, pfx_first_eq w b h]; have := pp (w - b.plen); omega

theorem pfx_first_aligned (w : Nat) (b : Pfx) (h : PWF w b) : b.first w % 2 ^ (w - b.plen) = 0 := by
  rw [pfx_first_eq w b h]; exact Nat.mul_mod_left _ _

theorem pfx_cidr_val (w : Nat) (b : Pfx) : (b.cidr w).val = b.first w := rfl

theorem pfx_last_lt (w : Nat) (b : Pfx) (h : PWF w b) : b.last w < 2 ^ w := by
  have := block_lt w b.val b.plen h.val_lt h.plen_le
  rw [pfx_last_eq]; have := pp (w - b.plen); omega

/-- membership in the network = membership in its aligned block -/
theorem pfx_mem_iff (w : Nat) (b : Pfx) (h : PWF w b) (a : Nat) :
    b.mem w a ↔ (Blk.mk (b.first w) (w - b.plen)).mem a := by
  have := pfx_last_first w b h
  simp only [Pfx.mem, Blk.mem]; omega

/-! ### canonical lists from ordered chains -/

theorem canon_nil : Canon ([] : List Blk) :=
  ⟨by simp, List.Pairwise.nil, by simp, by simp⟩

theorem canon_cons (x : Blk) (xs : List Blk) (hx : x.aligned) (hc : Canon xs)
    (h : ∀ y ∈ xs, x.base + 2 ^ x.k ≤ y.base ∧ (x.k ≠ y.k ∨ x.base + 2 ^ x.k < y.base)) :
    Canon (x :: xs) := by
  have hpx := pow_pos' x.k
  refine ⟨?_, ?_, ?_, ?_⟩
  · intro b hb
    rcases List.mem_cons.1 hb with rfl | hb
    · exact hx
    · exact hc.al b hb
  · refine List.pairwise_cons.2 ⟨?_, hc.sorted⟩
    intro y hy; have := (h y hy).1; omega
  · intro b hb c hcm hne a ⟨hba, hca⟩
    rcases List.mem_cons.1 hb with hb1 | hb1 <;> rcases List.mem_cons.1 hcm with hc1 | hc1
    · exact hne (hb1.trans hc1.symm)
    · subst hb1; have := (h c hc1).1; simp only [Blk.mem] at hba hca; omega
    · subst hc1; have := (h b hb1).1; simp only [Blk.mem] at hba hca; omega
    · exact hc.dj b hb1 c hc1 hne a ⟨hba, hca⟩
  · intro b hb c hcm hs
    obtain ⟨hk, hmod, hbase⟩ := hs
    rcases List.mem_cons.1 hb with hb1 | hb1 <;> rcases List.mem_cons.1 hcm with hc1 | hc1
    · subst hb1; subst hc1; omega
    · subst hb1; have := h c hc1; omega
    · subst hc1; have := (h b hb1).1; have := pow_pos' b.k; omega
    · exact hc.ns b hb1 c hc1 ⟨hk, hmod, hbase⟩

theorem canon_of_chain (l : List Blk) (hal : ∀ b ∈ l, b.aligned)
    (hp : l.Pairwise (fun b c => b.base + 2 ^ b.k ≤ c.base ∧ (b.k ≠ c.k ∨ b.base + 2 ^ b.k < c.base))) :
    Canon l := by
  induction l with
  | nil => exact canon_nil
  | cons x xs ih =>
    have hx := List.pairwise_cons.1 hp
    exact canon_cons x xs (hal x (by simp)) (ih (fun b hb => hal b (List.mem_cons_of_mem _ hb)) hx.2) hx.1

theorem canon_append (l₁ l₂ : List Blk) (h1 : Canon l₁) (h2 : Canon l₂)
    (hx : ∀ b ∈ l₁, ∀ c ∈ l₂, b.base + 2 ^ b.k < c.base) : Canon (l₁ ++ l₂) := by
  refine ⟨?_, ?_, ?_, ?_⟩
  · intro b hb
    rcases List.mem_append.1 hb with hb | hb
    · exact h1.al b hb
    · exact h2.al b hb
  · rw [List.pairwise_append]
    refine ⟨h1.sorted, h2.sorted, ?_⟩
    intro b hb c hc; have := hx b hb c hc; have := pow_pos' b.k; omega
  · intro b hb c hc hne a ⟨hba, hca⟩
    rcases List.mem_append.1 hb with hb | hb <;> rcases List.mem_append.1 hc with hc | hc
    · exact h1.dj b hb c hc hne a ⟨hba, hca⟩
    · have := hx b hb c hc; simp only [Blk.mem] at hba hca; omega
    · have := hx c hc b hb; simp only [Blk.mem] at hba hca; omega
    · exact h2.dj b hb c hc hne a ⟨hba, hca⟩
  · intro b hb c hc hs
    obtain ⟨hk, hm, hbase⟩ := hs
    rcases List.mem_append.1 hb with hb | hb <;> rcases List.mem_append.1 hc with hc | hc
    · exact h1.ns b hb c hc ⟨hk, hm, hbase⟩
    · have := hx b hb c hc; omega
    · have := hx c hc b hb; have := pow_pos' b.k; have := pow_pos' c.k; omega
    · exact h2.ns b hb c hc ⟨hk, hm, hbase⟩

/-! ### prefix lengths of the emitted blocks -/

theorem partLoop_plen (w ef ep : Nat) (hep : ep ≤ w) (lo : Nat) :
    ∀ (fuel np iLower iUpper : Nat) (left right : List Pfx),
      fuel = ep + 1 - np → lo ≤ np →
      (∀ b ∈ left, lo ≤ b.plen ∧ b.plen ≤ w) → (∀ b ∈ right, lo ≤ b.plen ∧ b.plen ≤ w) →
      (∀ b ∈ (partLoop w ef ep np iLower iUpper left right).1, lo ≤ b.plen ∧ b.plen ≤ w) ∧
      (∀ b ∈ (partLoop w ef ep np iLower iUpper left right).2, lo ≤ b.plen ∧ b.plen ≤ w) := by
  intro fuel
  induction fuel with
  | zero =>
    intro np iLower iUpper left right hf _ hL hR
    unfold partLoop
    have hng : ¬ ep ≥ np := by omega
    simp only [hng, dite_false]
    exact ⟨hL, hR⟩
  | succ fuel ih =>
    intro np iLower iUpper left right hf hlo hL hR
    have hge : ep ≥ np := by omega
    unfold partLoop
    simp only [hge, dite_true]
    have happ : ∀ (l : List Pfx) (v : Nat), (∀ b ∈ l, lo ≤ b.plen ∧ b.plen ≤ w) →
        ∀ b ∈ l ++ [⟨v, np⟩], lo ≤ b.plen ∧ b.plen ≤ w := by
      intro l v hl b hb
      rcases List.mem_append.1 hb with h | h
      · exact hl b h
      · simp at h; subst h; exact ⟨hlo, by simp; omega⟩
    by_cases hcase : ef ≥ iUpper
    · simp only [hcase, ite_true]
      by_cases hbrk : np + 1 > w
      · simp only [hbrk, ite_true]; exact ⟨happ left iLower hL, hR⟩
      · simp only [hbrk, ite_false]
        exact ih (np + 1) _ _ _ right (by omega) (by omega) (happ left iLower hL) hR
    · simp only [hcase, ite_false]
      by_cases hbrk : np + 1 > w
      · simp only [hbrk, ite_true]; exact ⟨hL, happ right iUpper hR⟩
      · simp only [hbrk, ite_false]
        exact ih (np + 1) _ _ left _ (by omega) (by omega) hL (happ right iUpper hR)

/-- `LeftOK` gives a chain -/
theorem chain_of_leftOK (w : Nat) (l : List Pfx) (h : LeftOK w l) (hp : ∀ b ∈ l, b.plen ≤ w) :
    Canon (blks w l) := by
  apply canon_of_chain
  · intro b hb
    obtain ⟨p, hpm, rfl⟩ := List.mem_map.1 hb
    exact h.1 p hpm
  · unfold blks
    rw [List.pairwise_map]
    have h2 := h.2
    have : ∀ (l : List Pfx), (∀ b ∈ l, b.plen ≤ w) →
        l.Pairwise (fun b c => b.val + 2 ^ (w - b.plen) ≤ c.val ∧ b.plen < c.plen) →
        l.Pairwise (fun b c => (blk w b).base + 2 ^ (blk w b).k ≤ (blk w c).base ∧
          ((blk w b).k ≠ (blk w c).k ∨ (blk w b).base + 2 ^ (blk w b).k < (blk w c).base)) := by
      intro l hpl hpw
      induction l with
      | nil => exact List.Pairwise.nil
      | cons x xs ih =>
        have hx := List.pairwise_cons.1 hpw
        refine List.pairwise_cons.2 ⟨?_, ih (fun b hb => hpl b (List.mem_cons_of_mem _ hb)) hx.2⟩
        intro y hy
        have := hx.1 y hy
        have hyw := hpl y (List.mem_cons_of_mem _ hy)
        refine ⟨this.1, Or.inl ?_⟩
        simp only [blk]; omega
    exact this l hp h2

/-- `RightOK` (append order) gives a chain after reversal -/
theorem chain_of_rightOK (w : Nat) (l : List Pfx) (h : RightOK w l) (hp : ∀ b ∈ l, b.plen ≤ w) :
    Canon (blks w l.reverse) := by
  apply canon_of_chain
  · intro b hb
    obtain ⟨p, hpm, rfl⟩ := List.mem_map.1 hb
    exact h.1 p (List.mem_reverse.1 hpm)
  · unfold blks
    rw [List.pairwise_map, List.pairwise_reverse]
    have h2 := h.2
    have : ∀ (l : List Pfx), (∀ b ∈ l, b.plen ≤ w) →
        l.Pairwise (fun b c => c.val + 2 ^ (w - c.plen) ≤ b.val ∧ b.plen < c.plen) →
        l.Pairwise (fun c b => (blk w b).base + 2 ^ (blk w b).k ≤ (blk w c).base ∧
          ((blk w b).k ≠ (blk w c).k ∨ (blk w b).base + 2 ^ (blk w b).k < (blk w c).base)) := by
      intro l hpl hpw
      induction l with
      | nil => exact List.Pairwise.nil
      | cons x xs ih =>
        have hx := List.pairwise_cons.1 hpw
        refine List.pairwise_cons.2 ⟨?_, ih (fun b hb => hpl b (List.mem_cons_of_mem _ hb)) hx.2⟩
        intro y hy
        have := hx.1 y hy
        have hyw := hpl y (List.mem_cons_of_mem _ hy)
        refine ⟨this.1, Or.inl ?_⟩
        simp only [blk]; omega
    exact this l hp h2

end NV.C09L
