/-
Lemmas/C17LPyLit.lean — the model of CPython's `int(s)` in base 10 (`Py.pyInt 10`) accepts exactly
the strings of the declarative grammar `IntLit` (Lemmas/C17LPyLitDefs.lean), with the grammar's
value.  Core only.
-/
import NetaddrVerif.Model.PyRuntime
import NetaddrVerif.Lemmas.C17LPyLitDefs
namespace NV.C17L.PyLit
open NV

/-! ### characters -/

theorem digitVal_ascii (c : Char) (d : Nat) (h : Py.digitVal 10 c = some d) : c.toNat < 128 := by
  apply Classical.byContradiction
  intro hn
  have h9 : ¬ c ≤ '9' := by
    rw [Char.le_def, UInt32.le_iff_toNat_le]; show ¬ c.toNat ≤ 57; omega
  have hf : ¬ c ≤ 'f' := by
    rw [Char.le_def, UInt32.le_iff_toNat_le]; show ¬ c.toNat ≤ 102; omega
  have hF : ¬ c ≤ 'F' := by
    rw [Char.le_def, UInt32.le_iff_toNat_le]; show ¬ c.toNat ≤ 70; omega
  simp [Py.digitVal, h9, hf, hF] at h

theorem digitVal_tab : ∀ n, n < 128 →
    Py.digitVal 10 (Char.ofNat n) = if 48 ≤ n ∧ n ≤ 57 then some (n - 48) else none := by
  decide +kernel

theorem digitVal_tab' : ∀ d, d < 10 → Py.digitVal 10 (Char.ofNat (48 + d)) = some d := by
  decide +kernel

theorem digit_ascii_tab : ∀ d, d < 10 → (Char.ofNat (48 + d)).toNat ≤ 127 := by
  decide +kernel

theorem digit_plain_tab : ∀ d, d < 10 → Py.isWs (Char.ofNat (48 + d)) = false ∧
    Char.ofNat (48 + d) ≠ '_' ∧ Char.ofNat (48 + d) ≠ '+' ∧ Char.ofNat (48 + d) ≠ '-' := by
  decide +kernel

theorem digitVal_iff (c : Char) (d : Nat) : Py.digitVal 10 c = some d ↔ DigitCh c d := by
  constructor
  · intro h
    have hc := digitVal_ascii c d h
    have ht := digitVal_tab c.toNat hc
    rw [Char.ofNat_toNat, h] at ht
    split at ht
    · rename_i hr
      have hd : d = c.toNat - 48 := by injection ht
      refine ⟨by omega, ?_⟩
      have : 48 + d = c.toNat := by omega
      rw [this, Char.ofNat_toNat]
    · cases ht
  · rintro ⟨hd, rfl⟩
    exact digitVal_tab' d hd

theorem isWs_iff (c : Char) : Py.isWs c = true ↔ Ws c := by
  simp [Py.isWs, Ws, or_assoc]

theorem ws_ascii (c : Char) (h : Ws c) : c.toNat ≤ 127 := by
  rcases h with h | h | h | h | h | h <;> subst h <;> decide

theorem digitCh_ascii (c : Char) (d : Nat) (h : DigitCh c d) : c.toNat ≤ 127 := by
  obtain ⟨hd, rfl⟩ := h
  exact digit_ascii_tab d hd

theorem digitCh_plain (c : Char) (d : Nat) (h : DigitCh c d) :
    Py.isWs c = false ∧ c ≠ '_' ∧ c ≠ '+' ∧ c ≠ '-' := by
  obtain ⟨hd, rfl⟩ := h
  exact digit_plain_tab d hd

/-! ### digits with underscores -/

/-- the step of `valOf` -/
abbrev step10 (a d : Nat) : Nat := 10 * a + d

theorem digitsVal_nil_true (acc : Nat) : Py.digitsVal 10 [] acc true = some acc := by
  simp [Py.digitsVal]

theorem digitsVal_nil_false (acc : Nat) : Py.digitsVal 10 [] acc false = none := by
  simp [Py.digitsVal]

theorem digitsVal_digit {c : Char} {d : Nat} (h : DigitCh c d) (t : List Char) (acc : Nat) (pd : Bool) :
    Py.digitsVal 10 (c :: t) acc pd = Py.digitsVal 10 t (10 * acc + d) true := by
  have hu : (c == '_') = false := by simpa using (digitCh_plain c d h).2.1
  have hd := (digitVal_iff c d).mpr h
  rw [Py.digitsVal]
  simp only [hu, Bool.false_eq_true, if_false, hd, Nat.mul_comm acc 10]

theorem digitsVal_us (t : List Char) (ht : t ≠ []) (acc : Nat) :
    Py.digitsVal 10 ('_' :: t) acc true = Py.digitsVal 10 t acc false := by
  rw [Py.digitsVal]
  cases t with
  | nil => exact absurd rfl ht
  | cons a r => simp

theorem uDigits_ne_nil {t : List Char} {ds : List Nat} (h : UDigits t ds) : t ≠ [] := by
  cases h <;> simp

theorem digitsVal_of_uDigits {t : List Char} {ds : List Nat} (h : UDigits t ds) :
    ∀ acc pd, Py.digitsVal 10 t acc pd = some (ds.foldl step10 acc) := by
  induction h with
  | one hc => intro acc pd; rw [digitsVal_digit hc, digitsVal_nil_true]; rfl
  | cons hc _ ih => intro acc pd; rw [digitsVal_digit hc, ih]; rfl
  | consU hc ht ih =>
    intro acc pd
    rw [digitsVal_digit hc, digitsVal_us _ (uDigits_ne_nil ht), ih]; rfl

/-- what may follow a digit: nothing, more `UDigits`, or `_` and more `UDigits` -/
def Tail (t : List Char) (ds : List Nat) : Prop :=
  (t = [] ∧ ds = []) ∨ UDigits t ds ∨ ∃ t', t = '_' :: t' ∧ UDigits t' ds

theorem uDigits_of_tail {c : Char} {d : Nat} {t : List Char} {ds : List Nat}
    (hc : DigitCh c d) (h : Tail t ds) : UDigits (c :: t) (d :: ds) := by
  rcases h with ⟨rfl, rfl⟩ | h | ⟨t', rfl, h⟩
  · exact UDigits.one hc
  · exact UDigits.cons hc h
  · exact UDigits.consU hc h

theorem uDigits_of_digitsVal (t : List Char) : ∀ acc v,
    (Py.digitsVal 10 t acc false = some v → ∃ ds, UDigits t ds ∧ v = ds.foldl step10 acc) ∧
    (Py.digitsVal 10 t acc true = some v → ∃ ds, Tail t ds ∧ v = ds.foldl step10 acc) := by
  induction t with
  | nil =>
    intro acc v
    constructor
    · intro h; rw [digitsVal_nil_false] at h; cases h
    · intro h; rw [digitsVal_nil_true] at h
      injection h with h
      exact ⟨[], Or.inl ⟨rfl, rfl⟩, h.symm⟩
  | cons c t ih =>
    intro acc v
    by_cases hu : c = '_'
    · subst hu
      constructor
      · intro h; simp [Py.digitsVal] at h
      · intro h
        by_cases ht : t = []
        · subst ht; simp [Py.digitsVal] at h
        · rw [digitsVal_us t ht] at h
          obtain ⟨ds, hds, hv⟩ := (ih acc v).1 h
          exact ⟨ds, Or.inr (Or.inr ⟨t, rfl, hds⟩), hv⟩
    · have key : ∀ pd, Py.digitsVal 10 (c :: t) acc pd = some v →
          ∃ ds, UDigits (c :: t) ds ∧ v = ds.foldl step10 acc := by
        intro pd h
        cases hd : Py.digitVal 10 c with
        | none =>
          rw [Py.digitsVal] at h
          simp [hu, hd] at h
        | some d =>
          have hc := (digitVal_iff c d).mp hd
          rw [digitsVal_digit hc] at h
          obtain ⟨ds, hds, hv⟩ := (ih _ v).2 h
          exact ⟨d :: ds, uDigits_of_tail hc hds, hv⟩
      constructor
      · exact key false
      · intro h
        obtain ⟨ds, hds, hv⟩ := key true h
        exact ⟨ds, Or.inr (Or.inl hds), hv⟩

theorem digitsVal_iff (t : List Char) (v : Nat) :
    Py.digitsVal 10 t 0 false = some v ↔ ∃ ds, UDigits t ds ∧ v = valOf ds := by
  constructor
  · exact (uDigits_of_digitsVal t 0 v).1
  · rintro ⟨ds, hds, rfl⟩
    exact digitsVal_of_uDigits hds 0 false

end NV.C17L.PyLit
