/-
Lemmas/C17LPyLit.lean — the model of CPython's `int(s)` in base 10 (`Py.pyInt 10`) accepts exactly
the strings of the declarative grammar `IntLit` (Lemmas/C17LPyLitDefs.lean), with the grammar's
value.  Core only.
-/
import NetaddrVerif.Model.PyRuntime
import NetaddrVerif.Lemmas.C17LPyLitDefs
namespace NV.C17L.PyLit
open NV

/-! ### characters -/

theorem digitVal_ascii (c : Char) (d : Nat) (h : Py.digitVal 10 c = some d) : c.toNat < 128 := by
  apply Classical.byContradiction
  intro hn
  have h9 : ¬ c ≤ '9' := by
    rw [Char.le_def, UInt32.le_iff_toNat_le]; show ¬ c.toNat ≤ 57; omega
  have hf : ¬ c ≤ 'f' := by
    rw [Char.le_def, UInt32.le_iff_toNat_le]; show ¬ c.toNat ≤ 102; omega
  have hF : ¬ c ≤ 'F' := by
    rw [Char.le_def, UInt32.le_iff_toNat_le]; show ¬ c.toNat ≤ 70; omega
  simp [Py.digitVal, h9, hf, hF] at h

theorem digitVal_tab : ∀ n, n < 128 →
    Py.digitVal 10 (Char.ofNat n) = if 48 ≤ n ∧ n ≤ 57 then some (n - 48) else none := by
  decide +kernel

theorem digitVal_tab' : ∀ d, d < 10 → Py.digitVal 10 (Char.ofNat (48 + d)) = some d := by
  decide +kernel

theorem digit_ascii_tab : ∀ d, d < 10 → (Char.ofNat (48 + d)).toNat ≤ 127 := by
  decide +kernel

theorem digit_plain_tab : ∀ d, d < 10 → Py.isWs (Char.ofNat (48 + d)) = false ∧
    Char.ofNat (48 + d) ≠ '_' ∧ Char.ofNat (48 + d) ≠ '+' ∧ Char.ofNat (48 + d) ≠ '-' := by
  decide +kernel

theorem digitVal_iff (c : Char) (d : Nat) : Py.digitVal 10 c = some d ↔ DigitCh c d := by
  constructor
  · intro h
    have hc := digitVal_ascii c d h
    have ht := digitVal_tab c.toNat hc
    rw [Char.ofNat_toNat, h] at ht
    split at ht
    · rename_i hr
      have hd : d = c.toNat - 48 := by injection ht
      refine ⟨by omega, ?_⟩
      have : 48 + d = c.toNat := by omega
      rw [this, Char.ofNat_toNat]
    · cases ht
  · rintro ⟨hd, rfl⟩
    exact digitVal_tab' d hd

theorem isWs_iff (c : Char) : Py.isWs c = true ↔ Ws c := by
  simp [Py.isWs, Ws, or_assoc]

theorem ws_ascii (c : Char) (h : Ws c) : c.toNat ≤ 127 := by
  rcases h with h | h | h | h | h | h <;> subst h <;> decide

theorem digitCh_ascii (c : Char) (d : Nat) (h : DigitCh c d) : c.toNat ≤ 127 := by
  obtain ⟨hd, rfl⟩ := h
  exact digit_ascii_tab d hd

theorem digitCh_plain (c : Char) (d : Nat) (h : DigitCh c d) :
    Py.isWs c = false ∧ c ≠ '_' ∧ c ≠ '+' ∧ c ≠ '-' := by
  obtain ⟨hd, rfl⟩ := h
  exact digit_plain_tab d hd

/-! ### digits with underscores -/

/-- the step of `valOf` -/
abbrev step10 (a d : Nat) : Nat := 10 * a + d

theorem digitsVal_nil_true (acc : Nat) : Py.digitsVal 10 [] acc true = some acc := by
  simp [Py.digitsVal]

theorem digitsVal_nil_false (acc : Nat) : Py.digitsVal 10 [] acc false = none := by
  simp [Py.digitsVal]

theorem digitsVal_digit {c : Char} {d : Nat} (h : DigitCh c d) (t : List Char) (acc : Nat) (pd : Bool) :
    Py.digitsVal 10 (c :: t) acc pd = Py.digitsVal 10 t (10 * acc + d) true := by
  have hu : (c == '_') = false := by simpa using (digitCh_plain c d h).2.1
  have hd := (digitVal_iff c d).mpr h
  rw [Py.digitsVal]
  simp only [hu, Bool.false_eq_true, if_false, hd, Nat.mul_comm acc 10]

theorem digitsVal_us (t : List Char) (ht : t ≠ []) (acc : Nat) :
    Py.digitsVal 10 ('_' :: t) acc true = Py.digitsVal 10 t acc false := by
  rw [Py.digitsVal]
  cases t with
  | nil => exact absurd rfl ht
  | cons a r => simp

theorem uDigits_ne_nil {t : List Char} {ds : List Nat} (h : UDigits t ds) : t ≠ [] := by
  cases h <;> simp

theorem digitsVal_of_uDigits {t : List Char} {ds : List Nat} (h : UDigits t ds) :
    ∀ acc pd, Py.digitsVal 10 t acc pd = some (ds.foldl step10 acc) := by
  induction h with
  | one hc => intro acc pd; rw [digitsVal_digit hc, digitsVal_nil_true]; rfl
  | cons hc _ ih => intro acc pd; rw [digitsVal_digit hc, ih]; rfl
  | consU hc ht ih =>
    intro acc pd
    rw [digitsVal_digit hc, digitsVal_us _ (uDigits_ne_nil ht), ih]; rfl

/-- what may follow a digit: nothing, more `UDigits`, or `_` and more `UDigits` -/
def Tail (t : List Char) (ds : List Nat) : Prop :=
  (t = [] ∧ ds = []) ∨ UDigits t ds ∨ ∃ t', t = '_' :: t' ∧ UDigits t' ds

theorem uDigits_of_tail {c : Char} {d : Nat} {t : List Char} {ds : List Nat}
    (hc : DigitCh c d) (h : Tail t ds) : UDigits (c :: t) (d :: ds) := by
  rcases h with ⟨rfl, rfl⟩ | h | ⟨t', rfl, h⟩
  · exact UDigits.one hc
  · exact UDigits.cons hc h
  · exact UDigits.consU hc h

theorem uDigits_of_digitsVal (t : List Char) : ∀ acc v,
    (Py.digitsVal 10 t acc false = some v → ∃ ds, UDigits t ds ∧ v = ds.foldl step10 acc) ∧
    (Py.digitsVal 10 t acc true = some v → ∃ ds, Tail t ds ∧ v = ds.foldl step10 acc) := by
  induction t with
  | nil =>
    intro acc v
    constructor
    · intro h; rw [digitsVal_nil_false] at h; cases h
    · intro h; rw [digitsVal_nil_true] at h
      injection h with h
      exact ⟨[], Or.inl ⟨rfl, rfl⟩, h.symm⟩
  | cons c t ih =>
    intro acc v
    by_cases hu : c = '_'
    · subst hu
      constructor
      · intro h; simp [Py.digitsVal] at h
      · intro h
        by_cases ht : t = []
        · subst ht; simp [Py.digitsVal] at h
        · rw [digitsVal_us t ht] at h
          obtain ⟨ds, hds, hv⟩ := (ih acc v).1 h
          exact ⟨ds, Or.inr (Or.inr ⟨t, rfl, hds⟩), hv⟩
    · have key : ∀ pd, Py.digitsVal 10 (c :: t) acc pd = some v →
          ∃ ds, UDigits (c :: t) ds ∧ v = ds.foldl step10 acc := by
        intro pd h
        cases hd : Py.digitVal 10 c with
        | none =>
          rw [Py.digitsVal] at h
          simp [hu, hd] at h
        | some d =>
          have hc := (digitVal_iff c d).mp hd
          rw [digitsVal_digit hc] at h
          obtain ⟨ds, hds, hv⟩ := (ih _ v).2 h
          exact ⟨d :: ds, uDigits_of_tail hc hds, hv⟩
      constructor
      · exact key false
      · intro h
        obtain ⟨ds, hds, hv⟩ := key true h
        exact ⟨ds, Or.inr (Or.inl hds), hv⟩

theorem digitsVal_iff (t : List Char) (v : Nat) :
    Py.digitsVal 10 t 0 false = some v ↔ ∃ ds, UDigits t ds ∧ v = valOf ds := by
  constructor
  · exact (uDigits_of_digitsVal t 0 v).1
  · rintro ⟨ds, hds, rfl⟩
    exact digitsVal_of_uDigits hds 0 false

/-! ### `pyInt 10` in normal form -/

/-- the sign step of `pyInt` -/
def signSplit (t : List Char) : Bool × List Char :=
  match t with
  | [] => (false, [])
  | c :: r => if c == '+' then (false, r) else if c == '-' then (true, r) else (false, c :: r)

/-- `pyInt` in base 10: the prefix step is the identity -/
theorem pyInt10_eq (s : List Char) : Py.pyInt 10 s =
    if s.any (fun c => c.toNat > 127) then none else
    match Py.digitsVal 10 (signSplit (Py.stripWs s)).2 0 false with
    | some v => some (if (signSplit (Py.stripWs s)).1 then -(v : Int) else v)
    | none => none := by
  unfold Py.pyInt
  split
  · rfl
  · generalize Py.stripWs s = t
    cases t with
    | nil => simp [signSplit, Py.digitsVal]
    | cons c r =>
      have hpref : (if (10 : Nat) = 2 then ['b', 'B'] else if (10 : Nat) = 8 then ['o', 'O']
          else if (10 : Nat) = 16 then ['x', 'X'] else ([] : List Char)) = [] := by decide
      have hid : ∀ t : List Char, (match t with
          | '0' :: p :: r' => if ([] : List Char).contains p then (match r' with | '_' :: r'' => r'' | _ => r') else t
          | _ => t) = t := by
        intro t; split <;> simp
      have fin : ∀ (neg : Bool) (t2 : List Char), (match (match t2 with
          | '0' :: p :: r' => if ([] : List Char).contains p then (match r' with | '_' :: r'' => r'' | _ => r') else t2
          | _ => t2) with
          | [] => none
          | _ => match Py.digitsVal 10 (match t2 with
                | '0' :: p :: r' => if ([] : List Char).contains p then (match r' with | '_' :: r'' => r'' | _ => r') else t2
                | _ => t2) 0 false with
            | some v => some (if neg then -(v : Int) else v)
            | none => none) =
          (match Py.digitsVal 10 t2 0 false with
            | some v => some (if neg then -(v : Int) else v)
            | none => none) := by
        intro neg t2
        rw [hid]
        cases t2 with
        | nil => simp [Py.digitsVal]
        | cons a b => simp
      simp only [hpref, signSplit]
      by_cases hp : (c == '+') = true
      · simp only [hp, if_true]; exact fin false r
      · by_cases hm : (c == '-') = true
        · simp only [hp, hm, if_true, Bool.false_eq_true, if_false]; exact fin true r
        · simp only [hp, hm, Bool.false_eq_true, if_false]; exact fin false (c :: r)

theorem signSplit_spec (t : List Char) (h : (signSplit t).2 ≠ []) :
    ∃ sg, Sign sg (signSplit t).1 ∧ t = sg ++ (signSplit t).2 := by
  cases t with
  | nil => exact absurd rfl h
  | cons c r =>
    by_cases hp : c = '+'
    · subst hp; exact ⟨['+'], Sign.plus, rfl⟩
    · by_cases hm : c = '-'
      · subst hm; exact ⟨['-'], Sign.minus, rfl⟩
      · have e : signSplit (c :: r) = (false, c :: r) := by simp [signSplit, hp, hm]
        rw [e]; exact ⟨[], Sign.none, rfl⟩

theorem signSplit_sign {sg body : List Char} {neg : Bool} (hs : Sign sg neg)
    (hb : ∃ c d t', body = c :: t' ∧ DigitCh c d) : signSplit (sg ++ body) = (neg, body) := by
  cases hs with
  | none =>
    obtain ⟨c, d, t', rfl, hc⟩ := hb
    obtain ⟨_, _, hp, hm⟩ := digitCh_plain c d hc
    simp [signSplit, hp, hm]
  | plus => simp [signSplit]
  | minus => simp [signSplit]

/-! ### whitespace stripping -/

theorem mem_takeWhile {α} (p : α → Bool) (l : List α) : ∀ a ∈ l.takeWhile p, p a = true := by
  induction l with
  | nil => intro a ha; simp at ha
  | cons x t ih =>
    intro a ha
    rw [List.takeWhile_cons] at ha
    by_cases hx : p x = true
    · simp only [hx, if_true] at ha
      rcases List.mem_cons.mp ha with e | e
      · rw [e]; exact hx
      · exact ih a e
    · simp [hx] at ha

theorem stripWs_decomp (s : List Char) : ∃ pre post, s = pre ++ Py.stripWs s ++ post ∧
    (∀ c ∈ pre, Py.isWs c = true) ∧ (∀ c ∈ post, Py.isWs c = true) := by
  refine ⟨s.takeWhile Py.isWs, (((s.dropWhile Py.isWs).reverse).takeWhile Py.isWs).reverse, ?_, ?_, ?_⟩
  · unfold Py.stripWs
    rw [List.append_assoc, ← List.reverse_append, List.takeWhile_append_dropWhile, List.reverse_reverse,
      List.takeWhile_append_dropWhile]
  · exact mem_takeWhile _ _
  · intro c hc
    rw [List.mem_reverse] at hc
    exact mem_takeWhile _ _ c hc

theorem stripWs_mid (pre m post : List Char) (hpre : ∀ c ∈ pre, Py.isWs c = true)
    (hpost : ∀ c ∈ post, Py.isWs c = true) (hh : ∃ a m', m = a :: m' ∧ Py.isWs a = false)
    (hl : ∃ m' b, m = m' ++ [b] ∧ Py.isWs b = false) : Py.stripWs (pre ++ m ++ post) = m := by
  unfold Py.stripWs
  rw [List.append_assoc, List.dropWhile_append_of_pos hpre]
  have h1 : (m ++ post).dropWhile Py.isWs = m ++ post := by
    obtain ⟨a, m', rfl, ha⟩ := hh
    rw [List.cons_append, List.dropWhile_cons_of_neg (by simp [ha])]
  rw [h1, List.reverse_append,
    List.dropWhile_append_of_pos (fun c hc => hpost c (List.mem_reverse.mp hc))]
  obtain ⟨m', b, rfl, hb⟩ := hl
  rw [List.reverse_append, List.reverse_singleton, List.singleton_append,
    List.dropWhile_cons_of_neg (by simp [hb])]
  simp

/-! ### shape of `UDigits` -/

theorem uDigits_head {t : List Char} {ds : List Nat} (h : UDigits t ds) :
    ∃ c d t', t = c :: t' ∧ DigitCh c d := by
  cases h with
  | one hc => exact ⟨_, _, _, rfl, hc⟩
  | cons hc _ => exact ⟨_, _, _, rfl, hc⟩
  | consU hc _ => exact ⟨_, _, _, rfl, hc⟩

theorem uDigits_last {t : List Char} {ds : List Nat} (h : UDigits t ds) :
    ∃ t' c d, t = t' ++ [c] ∧ DigitCh c d := by
  induction h with
  | one hc => exact ⟨[], _, _, rfl, hc⟩
  | cons _ _ ih =>
    obtain ⟨t', c, d, rfl, hc⟩ := ih
    exact ⟨_ :: t', c, d, rfl, hc⟩
  | consU _ _ ih =>
    obtain ⟨t', c, d, rfl, hc⟩ := ih
    exact ⟨_ :: '_' :: t', c, d, rfl, hc⟩

theorem uDigits_charset {t : List Char} {ds : List Nat} (h : UDigits t ds) :
    ∀ c ∈ t, c = '_' ∨ ∃ d, DigitCh c d := by
  induction h with
  | one hc => intro x hx; simp at hx; subst hx; exact Or.inr ⟨_, hc⟩
  | cons hc _ ih =>
    intro x hx
    rcases List.mem_cons.mp hx with e | e
    · subst e; exact Or.inr ⟨_, hc⟩
    · exact ih x e
  | consU hc _ ih =>
    intro x hx
    rcases List.mem_cons.mp hx with e | e
    · subst e; exact Or.inr ⟨_, hc⟩
    · rcases List.mem_cons.mp e with e | e
      · exact Or.inl e
      · exact ih x e

theorem sign_charset {sg : List Char} {neg : Bool} (h : Sign sg neg) : ∀ c ∈ sg, c = '+' ∨ c = '-' := by
  cases h <;> simp

/-! ### the grammar -/

/-- every character of an accepted literal -/
theorem intLit_charset (s : List Char) (z : Int) (h : IntLit s z) :
    ∀ c ∈ s, Ws c ∨ c = '+' ∨ c = '-' ∨ c = '_' ∨ ∃ d, DigitCh c d := by
  obtain ⟨pre, sg, body, post, neg, ds, rfl, hpre, hpost, hsg, hbody, _⟩ := h
  intro c hc
  simp only [List.mem_append] at hc
  rcases hc with ((hc | hc) | hc) | hc
  · exact Or.inl (hpre c hc)
  · rcases sign_charset hsg c hc with e | e
    · exact Or.inr (Or.inl e)
    · exact Or.inr (Or.inr (Or.inl e))
  · rcases uDigits_charset hbody c hc with e | e
    · exact Or.inr (Or.inr (Or.inr (Or.inl e)))
    · exact Or.inr (Or.inr (Or.inr (Or.inr e)))
  · exact Or.inl (hpost c hc)

/-- a literal without '-' is non-negative -/
theorem intLit_nonneg (s : List Char) (z : Int) (h : IntLit s z) (hm : '-' ∉ s) : 0 ≤ z := by
  obtain ⟨pre, sg, body, post, neg, ds, rfl, _, _, hsg, _, rfl⟩ := h
  cases hsg with
  | none => simp
  | plus => simp
  | minus => exact absurd (by simp) hm

theorem intLit_ascii (s : List Char) (z : Int) (h : IntLit s z) :
    s.any (fun c => decide (c.toNat > 127)) = false := by
  rw [List.any_eq_false]
  intro c hc
  have : c.toNat ≤ 127 := by
    rcases intLit_charset s z h c hc with e | e | e | e | ⟨d, e⟩
    · exact ws_ascii c e
    · subst e; decide
    · subst e; decide
    · subst e; decide
    · exact digitCh_ascii c d e
  simp; omega

/-- CPython `int(s)` in base 10 (model `Py.pyInt 10`) accepts exactly the strings of the grammar
    `IntLit`, with the grammar's value -/
theorem pyInt_iff (s : List Char) (z : Int) : Py.pyInt 10 s = some z ↔ IntLit s z := by
  rw [pyInt10_eq]
  constructor
  · intro h
    split at h
    · cases h
    · obtain ⟨pre, post, hs, hpre, hpost⟩ := stripWs_decomp s
      generalize Py.stripWs s = m at h hs
      cases hv : Py.digitsVal 10 (signSplit m).2 0 false with
      | none => rw [hv] at h; cases h
      | some v =>
        rw [hv] at h
        obtain ⟨ds, hds, rfl⟩ := (digitsVal_iff _ v).mp hv
        obtain ⟨sg, hsg, hm⟩ := signSplit_spec m (uDigits_ne_nil hds)
        refine ⟨pre, sg, (signSplit m).2, post, (signSplit m).1, ds, ?_, ?_, ?_, hsg, hds, ?_⟩
        · rw [hs, List.append_assoc pre sg, ← hm]
        · exact fun c hc => (isWs_iff c).mp (hpre c hc)
        · exact fun c hc => (isWs_iff c).mp (hpost c hc)
        · injection h with h; exact h.symm
  · intro h
    rw [intLit_ascii s z h]
    obtain ⟨pre, sg, body, post, neg, ds, rfl, hpre, hpost, hsg, hbody, rfl⟩ := h
    have hhead := uDigits_head hbody
    have hstrip : Py.stripWs (pre ++ sg ++ body ++ post) = sg ++ body := by
      rw [List.append_assoc pre sg body]
      apply stripWs_mid
      · exact fun c hc => (isWs_iff c).mpr (hpre c hc)
      · exact fun c hc => (isWs_iff c).mpr (hpost c hc)
      · obtain ⟨c, d, t', rfl, hc⟩ := hhead
        cases hsg with
        | none => exact ⟨c, t', rfl, (digitCh_plain c d hc).1⟩
        | plus => exact ⟨'+', c :: t', rfl, by decide⟩
        | minus => exact ⟨'-', c :: t', rfl, by decide⟩
      · obtain ⟨t', c, d, rfl, hc⟩ := uDigits_last hbody
        exact ⟨sg ++ t', c, by rw [List.append_assoc], (digitCh_plain c d hc).1⟩
    rw [hstrip, signSplit_sign hsg hhead]
    simp only [Bool.false_eq_true, if_false]
    rw [(digitsVal_iff body (valOf ds)).mpr ⟨ds, hbody, rfl⟩]

/-! ### examples -/

example : IntLit " +0_7 ".toList 7 := (pyInt_iff _ _).mp (by decide)
example : IntLit "-0".toList 0 := (pyInt_iff _ _).mp (by decide)
example : ¬ ∃ z, IntLit "1__0".toList z := by
  rintro ⟨z, h⟩
  have hp := (pyInt_iff _ _).mpr h
  have hn : Py.pyInt 10 "1__0".toList = none := by decide
  rw [hn] at hp; cases hp
example : ¬ ∃ z, IntLit "_1".toList z := by
  rintro ⟨z, h⟩
  have hp := (pyInt_iff _ _).mpr h
  have hn : Py.pyInt 10 "_1".toList = none := by decide
  rw [hn] at hp; cases hp

end NV.C17L.PyLit
