/-
Lemmas/C15LArpa.lean — the nibble view of a value: regrouping words of a·k bits into words of
a bits, `'%.<k>x'` as the k nibbles of a word, for `ipv6.int_to_arpa`.  Core only.
-/
import NetaddrVerif.Lemmas.C15LBits
namespace NV.Codec

/-- words of a·k bits, each split into k words of a bits, most significant first = the words
    of a bits of the whole value -/
theorem regroup (a k n v : Nat) :
    ((wordsLoop (a * k) n v).reverse.map (fun w => (wordsLoop a k w).reverse)).flatten =
    (wordsLoop a (k * n) v).reverse := by
  induction n generalizing v with
  | zero => simp [wordsLoop]
  | succ n ih =>
    simp only [wordsLoop, List.reverse_cons, List.map_append, List.flatten_append, List.map_cons,
      List.map_nil, List.flatten_cons, List.flatten_nil, List.append_nil, ih,
      Nat.and_two_pow_sub_one_eq_mod, Nat.shiftRight_eq_div_pow]
    rw [Nat.mul_succ, Nat.add_comm (k * n) k, wordsLoop_add, List.reverse_append, wordsLoop_mod]

theorem wordsLoop_zero (ws n : Nat) : wordsLoop ws n 0 = List.replicate n 0 := by
  induction n with
  | zero => rfl
  | succ n ih => simp [wordsLoop, ih, List.replicate_succ]

theorem wordsLoop_range (ws n v : Nat) :
    wordsLoop ws n v = (List.range n).map (fun i => v / 2 ^ (ws * i) % 2 ^ ws) := by
  induction n generalizing v with
  | zero => rfl
  | succ n ih =>
    rw [List.range_succ_eq_map, List.map_cons, List.map_map]
    simp only [wordsLoop, ih, Nat.and_two_pow_sub_one_eq_mod, Nat.shiftRight_eq_div_pow, Nat.mul_zero,
      Nat.pow_zero, Nat.div_one, List.cons.injEq, true_and]
    apply List.map_congr_left
    intro i _
    simp only [Function.comp]
    rw [Nat.div_div_eq_div_mul, Nat.mul_succ, Nat.add_comm (ws * i) ws, Nat.pow_add]

/-- `'%.<k>x' % n` is the k nibbles of n, most significant first -/
theorem fmtHex_nibbles_succ : ∀ k n, n < 16 ^ (k + 1) →
    fmtHex (k + 1) false n = (wordsLoop 4 (k + 1) n).reverse.map Nat.digitChar := by
  intro k
  induction k with
  | zero =>
    intro n hn
    have h16 : n < 16 := by simpa using hn
    have e : n &&& 2 ^ 4 - 1 = n := by rw [Nat.and_two_pow_sub_one_eq_mod]; exact Nat.mod_eq_of_lt h16
    simp [fmtHex, Nat.toDigits_eq_if (show 1 < 16 by decide), h16, wordsLoop, e]
  | succ k ih =>
    intro n hn
    have hw : wordsLoop 4 (k + 1 + 1) n = (n % 16) :: wordsLoop 4 (k + 1) (n / 16) := by
      simp only [wordsLoop, Nat.shiftRight_eq_div_pow]
      rw [Nat.and_two_pow_sub_one_eq_mod]
    rw [hw, List.reverse_cons, List.map_append]
    by_cases h16 : n < 16
    · have e0 : n / 16 = 0 := Nat.div_eq_of_lt h16
      rw [e0, wordsLoop_zero, Nat.mod_eq_of_lt h16]
      simp [fmtHex, Nat.toDigits_eq_if (show 1 < 16 by decide), h16]
    · have hq : n / 16 < 16 ^ (k + 1) := by
        rw [Nat.pow_succ] at hn
        exact (Nat.div_lt_iff_lt_mul (by decide)).mpr hn
      rw [← ih (n / 16) hq]
      simp only [fmtHex, Bool.false_eq_true, if_false]
      rw [Nat.toDigits_eq_if (show 1 < 16 by decide), if_neg h16]
      simp only [List.length_append, List.length_singleton, List.map_cons, List.map_nil]
      rw [Nat.add_sub_add_right, List.append_assoc]

/-- `'%.<k>x' % n` is the k nibbles of n, most significant first -/
theorem fmtHex_nibbles (k : Nat) (hk : 1 ≤ k) (n : Nat) (hn : n < 16 ^ k) :
    fmtHex k false n = (wordsLoop 4 k n).reverse.map Nat.digitChar := by
  cases k with
  | zero => omega
  | succ k => exact fmtHex_nibbles_succ k n hn

/-- struct.unpack of `n` fields of `k` bytes from the big-endian bytes of v = the words of v -/
theorem chunks_beBytes (k n v : Nat) :
    (chunks k n (beBytes (k * n) v)).map beValue = (wordsLoop (8 * k) n v).reverse := by
  rw [← flatten_beBytes_words]
  generalize hW : (wordsLoop (8 * k) n v).reverse = W
  have hlen : W.length = n := by rw [← hW]; simp [wordsLoop_length]
  have hlt : ∀ w ∈ W, w < 2 ^ (8 * k) := by
    intro w hw; rw [← hW] at hw; exact wordsLoop_lt _ _ _ w (by simpa using hw)
  clear hW
  induction W generalizing n with
  | nil => subst hlen; rfl
  | cons w t ih =>
    cases n with
    | zero => simp at hlen
    | succ n =>
      have hl : (beBytes k w).length = k := beBytes_length k w
      simp only [List.map_cons, List.flatten_cons, chunks]
      rw [List.take_left' hl, List.drop_left' hl]
      rw [ih n (by simpa using hlen) (fun x hx => hlt x (by simp [hx])), beValue_beBytes,
        Nat.mod_eq_of_lt (hlt w (by simp))]

end NV.Codec
