/-
Lemmas/IPSetDiff4.lean — `_iter_merged_ranges`, the keys `iprange_to_cidrs` contributes for
each merged range read on the number line, and the two canonicity arguments: covers of
gap-separated intervals do not interact; whole keys of a canonical set next to a canonical
cover of addresses inside that set do not interact either (C07/C06).
-/
import NetaddrVerif.Lemmas.IPSetDiff3
namespace NV.IPSet
open NV NV.Blk

/-! ### `_iter_merged_ranges` -/

theorem mergedRangesAux_nil (cur : VR) : mergedRangesAux cur [] = [cur] := by
  obtain ⟨cv, cs, ce⟩ := cur; rfl

theorem mergedRangesAux_cons (cv cs ce nv ns ne : Nat) (rest : List VR) :
    mergedRangesAux (cv, cs, ce) ((nv, ns, ne) :: rest) =
      if ns == ce + 1 && nv == cv then mergedRangesAux (cv, cs, ne) rest
      else (cv, cs, ce) :: mergedRangesAux (nv, ns, ne) rest := rfl

/-- two valid tuples of different families, the first below the second: far apart -/
theorem gap_cross (c n : VR) (hc : VROK c) (hn : VROK n) (hv : n.1 ≠ c.1) (hlt : c.H < n.L) : c.H + 1 < n.L := by
  obtain ⟨cv, cs, ce⟩ := c
  obtain ⟨nv, ns, ne⟩ := n
  have h1 := pow_width_le cv hc.1
  have h2 := pow_width_le nv hn.1
  have hp := p129
  obtain ⟨hc1, hc2, hc3⟩ := hc
  obtain ⟨hn1, hn2, hn3⟩ := hn
  simp only [VR.L, VR.H] at *
  rcases hc1 with x | x <;> rcases hn1 with y | y
  · exact absurd (y.trans x.symm) hv
  · subst x; subst y; rw [off4, off6]; omega
  · subst x; subst y; rw [off4, off6] at hlt; omega
  · exact absurd (y.trans x.symm) hv

theorem mergedRangesAux_spec : ∀ (rest : List VR) (cur : VR), AscR (cur :: rest) →
    (∀ r ∈ mergedRangesAux cur rest, VROK r ∧ cur.L ≤ r.L) ∧
    (mergedRangesAux cur rest).Pairwise (fun r r' => r.H + 1 < r'.L) ∧
    ∀ x, rden (mergedRangesAux cur rest) x ↔ rden (cur :: rest) x := by
  intro rest
  induction rest with
  | nil =>
    intro cur h
    rw [mergedRangesAux_nil]
    refine ⟨?_, by simp, fun x => Iff.rfl⟩
    intro r hr
    simp only [List.mem_singleton] at hr
    subst hr
    exact ⟨h.1 r (by simp), Nat.le_refl _⟩
  | cons nxt rest ih =>
    intro cur h
    have hcok := h.1 cur (by simp)
    have hnok := h.1 nxt (by simp)
    have hlt : cur.H < nxt.L := (List.pairwise_cons.1 h.2).1 nxt (by simp)
    have htail : AscR (nxt :: rest) :=
      ⟨fun r hr => h.1 r (List.mem_cons_of_mem _ hr), (List.pairwise_cons.1 h.2).2⟩
    obtain ⟨cv, cs, ce⟩ := cur
    obtain ⟨nv, ns, ne⟩ := nxt
    rw [mergedRangesAux_cons]
    by_cases hm : (ns == ce + 1 && nv == cv) = true
    · simp only [hm, if_true]
      simp only [Bool.and_eq_true, beq_iff_eq] at hm
      obtain ⟨hm1, hm2⟩ := hm
      subst hm2
      have hnew : AscR ((nv, cs, ne) :: rest) := by
        refine ⟨?_, ?_⟩
        · intro r hr
          rcases List.mem_cons.1 hr with rfl | hr
          · exact ⟨hcok.1, by have := hcok.2.1; have := hnok.2.1; simp only at *; omega, hnok.2.2⟩
          · exact htail.1 r (List.mem_cons_of_mem _ hr)
        · exact List.pairwise_cons.2 ⟨(List.pairwise_cons.1 htail.2).1, (List.pairwise_cons.1 htail.2).2⟩
      obtain ⟨q1, q2, q3⟩ := ih (nv, cs, ne) hnew
      refine ⟨q1, q2, fun x => ?_⟩
      rw [q3 x, rden_cons, rden_cons, rden_cons]
      have := hcok.2.1; have := hnok.2.1
      simp only [VR.L, VR.H] at *
      clear ih q3
      grind
    · have hm' : (ns == ce + 1 && nv == cv) = false := by simpa using hm
      simp only [hm', Bool.false_eq_true, if_false]
      obtain ⟨q1, q2, q3⟩ := ih (nv, ns, ne) htail
      have hgap : VR.H (cv, cs, ce) + 1 < VR.L (nv, ns, ne) := by
        by_cases hv : nv = cv
        · subst hv
          have : ns ≠ ce + 1 := by
            intro e; apply hm; simp [e]
          simp only [VR.L, VR.H] at *
          omega
        · exact gap_cross _ _ hcok hnok hv hlt
      have hcl : VR.L (cv, cs, ce) ≤ VR.H (cv, cs, ce) := by
        show off cv + cs ≤ off cv + ce
        have := hcok.2.1; simp only at this; omega
      refine ⟨?_, ?_, fun x => ?_⟩
      · intro r hr
        rcases List.mem_cons.1 hr with rfl | hr
        · exact ⟨hcok, Nat.le_refl _⟩
        · obtain ⟨k1, k2⟩ := q1 r hr
          exact ⟨k1, by omega⟩
      · refine List.pairwise_cons.2 ⟨?_, q2⟩
        intro r hr
        obtain ⟨_, k2⟩ := q1 r hr
        omega
      · rw [rden_cons, q3 x, rden_cons (cv, cs, ce)]

/-- merged ranges: valid, ascending, any two separated by a gap -/
def GapR (l : List VR) : Prop := (∀ r ∈ l, VROK r) ∧ l.Pairwise (fun r r' => r.H + 1 < r'.L)

theorem mergedRanges_spec (rs : List VR) (h : AscR rs) :
    GapR (mergedRanges rs) ∧ ∀ x, rden (mergedRanges rs) x ↔ rden rs x := by
  cases rs with
  | nil => exact ⟨⟨by simp [mergedRanges], by simp [mergedRanges]⟩, fun x => by simp [mergedRanges]⟩
  | cons r rest =>
    obtain ⟨q1, q2, q3⟩ := mergedRangesAux_spec rest r h
    exact ⟨⟨fun r' hr' => (q1 r' hr').1, q2⟩, q3⟩

/-! ### the keys of one merged range, on the line -/

theorem piece_lin (r : VR) (h : VROK r) :
    (∀ n ∈ rangeCidrs r.1 r.2.1 r.2.2, Good n) ∧
    CanonSet ((rangeCidrs r.1 r.2.1 r.2.2).map lin) ∧
    ∀ x, den ((rangeCidrs r.1 r.2.1 r.2.2).map lin) x ↔ r.L ≤ x ∧ x ≤ r.H := by
  obtain ⟨g, _, _⟩ := rangeCidrs_spec r.1 r.2.1 r.2.2 h.1 h.2.1 h.2.2
  have hg : ∀ n ∈ rangeCidrs r.1 r.2.1 r.2.2, Good n := fun n hn => (g n hn).1
  obtain ⟨i1, i2⟩ := newOfRange_spec ⟨r.1, r.2.1, r.2.2⟩ h
  obtain ⟨_, _, f3⟩ := fromKeys_mem _ hg
  have hmem : ∀ b, b ∈ (rangeCidrs r.1 r.2.1 r.2.2).map lin ↔
      b ∈ (newOfRange ⟨r.1, r.2.1, r.2.2⟩).map lin := by
    intro b
    simp only [List.mem_map]
    constructor
    · rintro ⟨n, hn, e⟩; exact ⟨n, (f3 n).2 hn, e⟩
    · rintro ⟨n, hn, e⟩; exact ⟨n, (f3 n).1 hn, e⟩
  refine ⟨hg, canonset_congr (canonset_lin _ i1) hmem, fun x => ?_⟩
  rw [den_congr hmem x, den_lin _ (fun n hn => (i1.good n hn).1)]
  constructor
  · rintro ⟨ver, a, rfl, hd⟩
    obtain ⟨e, k1, k2⟩ := (i2 ver a).1 hd
    simp only at e k1 k2
    subst e
    exact ⟨by unfold VR.L; omega, by unfold VR.H; omega⟩
  · rintro ⟨k1, k2⟩
    unfold VR.L at k1; unfold VR.H at k2
    exact ⟨r.1, x - off r.1, by omega, (i2 r.1 _).2 ⟨rfl, by show r.2.1 ≤ _; omega, by show _ ≤ r.2.2; omega⟩⟩

/-! ### canonicity of combined covers -/

/-- two canonical block sets whose addresses are separated by a gap: their union is canonical -/
theorem canonset_append_gap (A B : List Blk) (hA : CanonSet A) (hB : CanonSet B)
    (hgap : ∀ x y, den A x → den B y → x + 1 < y) : CanonSet (A ++ B) := by
  refine ⟨?_, ?_, ?_⟩
  · intro b hb
    rcases List.mem_append.1 hb with h | h
    · exact hA.al b h
    · exact hB.al b h
  · intro b hb c hc hne z ⟨hz1, hz2⟩
    rcases List.mem_append.1 hb with h | h <;> rcases List.mem_append.1 hc with h' | h'
    · exact hA.dj b h c h' hne z ⟨hz1, hz2⟩
    · have := hgap z z ⟨b, h, hz1⟩ ⟨c, h', hz2⟩; omega
    · have := hgap z z ⟨c, h', hz2⟩ ⟨b, h, hz1⟩; omega
    · exact hB.dj b h c h' hne z ⟨hz1, hz2⟩
  · intro b hb c hc hsib
    have hpb := pow_pos' b.k
    obtain ⟨e1, e2, e3⟩ := hsib
    rcases List.mem_append.1 hb with h | h <;> rcases List.mem_append.1 hc with h' | h'
    · exact hA.ns b h c h' ⟨e1, e2, e3⟩
    · have := hgap (b.base + 2 ^ b.k - 1) c.base ⟨b, h, ⟨by omega, by omega⟩⟩ ⟨c, h', mem_base c⟩
      omega
    · have := hgap c.base b.base ⟨c, h', mem_base c⟩ ⟨b, h, mem_base b⟩
      omega
    · exact hB.ns b h c h' ⟨e1, e2, e3⟩

/-- the block formed by a sibling pair -/
theorem sib_union (b c : Blk) (h : b.sib c) :
    ∃ q : Blk, q.aligned ∧ ∀ x, q.mem x ↔ b.mem x ∨ c.mem x := by
  obtain ⟨e1, e2, e3⟩ := h
  refine ⟨⟨b.base, b.k + 1⟩, e2, fun x => ?_⟩
  have hp := pow_pos' b.k
  have e := pow_succ2 b.k
  simp only [mem, ← e1, e3]
  rw [e]; omega

/-- whole members `C` of a canonical set `S` next to a canonical set `K` of blocks whose
    addresses all lie in `S` and apart from `C`: the union is canonical (a sibling pair across
    the two would be a block covered by `S`, hence inside one member of `S`, which would have
    to be the `C` half itself) -/
theorem canonset_union (S C K : List Blk) (hS : CanonSet S) (hC : ∀ b ∈ C, b ∈ S) (hK : CanonSet K)
    (hKS : ∀ x, den K x → den S x) (hdj : ∀ x, ¬ (den C x ∧ den K x)) : CanonSet (C ++ K) := by
  have mixed : ∀ b ∈ C, ∀ c ∈ K, (b.sib c ∨ c.sib b) → False := by
    intro b hb c hc hs
    have hq : ∃ q : Blk, q.aligned ∧ ∀ x, q.mem x ↔ b.mem x ∨ c.mem x := by
      rcases hs with h | h
      · exact sib_union b c h
      · obtain ⟨q, k1, k2⟩ := sib_union c b h
        exact ⟨q, k1, fun x => (k2 x).trans Or.comm⟩
    obtain ⟨q, hqa, hqm⟩ := hq
    have hcov : ∀ x, q.mem x → den S x := by
      intro x hx
      rcases (hqm x).1 hx with h | h
      · exact ⟨b, hC b hb, h⟩
      · exact hKS x ⟨c, hc, h⟩
    obtain ⟨d, hd, hsub⟩ := covered_imp_single S hS q hqa hcov
    have hbd : b = d := by
      apply Classical.byContradiction
      intro hne
      exact hS.dj b (hC b hb) d hd hne b.base ⟨mem_base b, hsub _ ((hqm _).2 (Or.inl (mem_base b)))⟩
    subst hbd
    exact hdj c.base ⟨⟨b, hb, hsub _ ((hqm _).2 (Or.inr (mem_base c)))⟩, ⟨c, hc, mem_base c⟩⟩
  refine ⟨?_, ?_, ?_⟩
  · intro b hb
    rcases List.mem_append.1 hb with h | h
    · exact hS.al b (hC b h)
    · exact hK.al b h
  · intro b hb c hc hne z ⟨hz1, hz2⟩
    rcases List.mem_append.1 hb with h | h <;> rcases List.mem_append.1 hc with h' | h'
    · exact hS.dj b (hC b h) c (hC c h') hne z ⟨hz1, hz2⟩
    · exact hdj z ⟨⟨b, h, hz1⟩, ⟨c, h', hz2⟩⟩
    · exact hdj z ⟨⟨c, h', hz2⟩, ⟨b, h, hz1⟩⟩
    · exact hK.dj b h c h' hne z ⟨hz1, hz2⟩
  · intro b hb c hc hsib
    rcases List.mem_append.1 hb with h | h <;> rcases List.mem_append.1 hc with h' | h'
    · exact hS.ns b (hC b h) c (hC c h') hsib
    · exact mixed b h c h' (Or.inl hsib)
    · exact mixed c h' b h (Or.inr hsib)
    · exact hK.ns b h c h' hsib

/-- canonical covers of gap-separated intervals, concatenated -/
theorem canonset_flatMap (f : VR → List Blk) : ∀ (M : List VR),
    (∀ r ∈ M, CanonSet (f r) ∧ ∀ x, den (f r) x ↔ r.L ≤ x ∧ x ≤ r.H) →
    M.Pairwise (fun r r' => r.H + 1 < r'.L) →
    CanonSet (M.flatMap f) ∧ ∀ x, den (M.flatMap f) x ↔ rden M x
  | [], _, _ => ⟨⟨by simp, by simp, by simp⟩, fun x => by simp [den, rden]⟩
  | r :: M, hf, hgap => by
    obtain ⟨i1, i2⟩ := canonset_flatMap f M (fun r' hr' => hf r' (List.mem_cons_of_mem _ hr'))
      (List.pairwise_cons.1 hgap).2
    obtain ⟨k1, k2⟩ := hf r (List.mem_cons_self ..)
    have hden : ∀ x, den (f r ++ M.flatMap f) x ↔ rden (r :: M) x := by
      intro x
      rw [rden_cons, ← i2 x, ← k2 x]
      unfold den
      simp only [List.mem_append]
      constructor
      · rintro ⟨b, h | h, hx⟩
        · exact Or.inl ⟨b, h, hx⟩
        · exact Or.inr ⟨b, h, hx⟩
      · rintro (⟨b, h, hx⟩ | ⟨b, h, hx⟩)
        · exact ⟨b, Or.inl h, hx⟩
        · exact ⟨b, Or.inr h, hx⟩
    rw [List.flatMap_cons]
    refine ⟨canonset_append_gap _ _ k1 i1 ?_, hden⟩
    intro x y hx hy
    have hx' := (k2 x).1 hx
    obtain ⟨r', hr', hy1, _⟩ := (i2 y).1 hy
    have := (List.pairwise_cons.1 hgap).1 r' hr'
    omega

/-- the keys `rangesToCidrs` produces from ascending, non-overlapping valid tuples: good
    keys, canonical on the line, denoting the same addresses -/
theorem rangesToCidrs_spec (rs : List VR) (h : AscR rs) :
    (∀ n ∈ rangesToCidrs rs, Good n) ∧ CanonSet ((rangesToCidrs rs).map lin) ∧
    ∀ x, den ((rangesToCidrs rs).map lin) x ↔ rden rs x := by
  obtain ⟨⟨g1, g2⟩, g3⟩ := mergedRanges_spec rs h
  have e : (rangesToCidrs rs).map lin =
      (mergedRanges rs).flatMap (fun r => (rangeCidrs r.1 r.2.1 r.2.2).map lin) := by
    unfold rangesToCidrs; rw [List.map_flatMap]
  obtain ⟨c1, c2⟩ := canonset_flatMap (fun r => (rangeCidrs r.1 r.2.1 r.2.2).map lin) (mergedRanges rs)
    (fun r hr => ⟨(piece_lin r (g1 r hr)).2.1, (piece_lin r (g1 r hr)).2.2⟩) g2
  refine ⟨?_, e ▸ c1, fun x => by rw [e, c2 x, g3 x]⟩
  intro n hn
  unfold rangesToCidrs at hn
  obtain ⟨r, hr, hn'⟩ := List.mem_flatMap.1 hn
  exact (piece_lin r (g1 r hr)).1 n hn'

end NV.IPSet
