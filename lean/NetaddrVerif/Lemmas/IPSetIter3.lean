/-
Lemmas/IPSetIter3.lean — queries and binary operators as steps over the store of live sets:
which slots a step can change (purity), and exactly which queries raise (totality).
-/
import NetaddrVerif.Lemmas.IPSetIter2
import NetaddrVerif.Lemmas.IPSetQ4
namespace NV.IPSet.Iter
open NV NV.IPSet

theorem map_error_iff {α β : Type} (f : α → β) (x : R α) (e : Err) :
    x.map f = .error e ↔ x = .error e := by
  cases x <;> simp [Except.map]

theorem map_ok_iff {α β : Type} (f : α → β) (x : R α) (b : β) :
    x.map f = .ok b ↔ ∃ a, x = .ok a ∧ f a = b := by
  cases x <;> simp [Except.map]

/-- a query raises in exactly two situations -/
theorem evalQ_error_iff (maxint : Nat) (sets : Store) (q : QOp) (e : Err) :
    evalQ maxint sets q = .error e ↔
      (∃ i, q = .len i ∧ e = .index ∧ size (getSet sets i) > maxint) ∨
      (∃ i, q = .iprange i ∧ e = .value ∧ iscontiguous (getSet sets i) = false) := by
  cases q with
  | len i =>
    simp only [evalQ, map_error_iff]
    unfold len
    constructor
    · intro h
      split at h
      · rename_i hgt
        injection h with h
        exact Or.inl ⟨i, rfl, h.symm, hgt⟩
      · cases h
    · rintro (⟨i', hq, he, hgt⟩ | ⟨i', hq, _, _⟩)
      · injection hq with hq; subst hq; subst he
        rw [if_pos hgt]
      · cases hq
  | iprange i =>
    simp only [evalQ, map_error_iff, iprange_error_iff]
    constructor
    · rintro ⟨he, hc⟩; exact Or.inr ⟨i, rfl, he, hc⟩
    · rintro (⟨i', hq, _, _⟩ | ⟨i', hq, he, hc⟩)
      · cases hq
      · injection hq with hq; subst hq; exact ⟨he, hc⟩
  | _ => simp [evalQ]

/-- the row evaluator hands the store back as it got it -/
theorem runQs_fst (maxint : Nat) (sets : Store) (qs : List QOp) : (runQs maxint sets qs).1 = sets := by
  unfold runQs
  suffices h : ∀ (acc : Store × List (R QVal)),
      (qs.foldl (fun acc q => let r := stepQFast maxint acc.1 q; (r.1, acc.2 ++ [r.2])) acc).1 = acc.1 from h (sets, [])
  induction qs with
  | nil => intro acc; rfl
  | cons q qs ih => intro acc; rw [List.foldl_cons, ih]; rfl

/-- ... and each answer is the definitional `evalQ` on that store -/
theorem runQs_snd (maxint : Nat) (sets : Store) (qs : List QOp) :
    (runQs maxint sets qs).2 = qs.map (evalQ maxint sets) := by
  unfold runQs
  suffices h : ∀ (outs : List (R QVal)),
      (qs.foldl (fun acc q => let r := stepQFast maxint acc.1 q; (r.1, acc.2 ++ [r.2])) (sets, outs)).2 =
        outs ++ qs.map (evalQ maxint sets) by simpa using h []
  induction qs with
  | nil => intro outs; simp
  | cons q qs ih =>
    intro outs
    rw [List.foldl_cons]
    show (qs.foldl _ (sets, outs ++ [evalQFast maxint sets q])).2 = _
    rw [ih, evalQFast_eq]
    simp

/-- a binary operator rebinds slot `k` only -/
theorem bin_other (sets : Store) (k i j : Nat) (o : BinOp) (m : Nat) (hm : m ≠ k) :
    getSet (stepOp sets (.bin k i j o)).1 m = getSet sets m := by
  show getSet (setSet sets k _) m = _
  rw [getSet_setSet, if_neg hm]

/-- slot `k` receives the operator applied to the operands as they were before the step -/
theorem bin_result (sets : Store) (k i j : Nat) (o : BinOp) :
    getSet (stepOp sets (.bin k i j o)).1 k = binOp o (getSet sets i) (getSet sets j) := by
  show getSet (setSet sets k _) k = _
  rw [getSet_setSet, if_pos rfl]

end NV.IPSet.Iter
