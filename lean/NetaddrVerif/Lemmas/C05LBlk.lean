import NetaddrVerif.Lemmas.Canon
import NetaddrVerif.Lemmas.PartStruct
/-! C05 helper lemmas, part 1: building `Canon` lists out of ascending pieces. -/
namespace NV.C05L
open NV Blk

/-- the block view of an emitted `(value, prefixlen)` pair at width `w` -/
def toBlk (w : Nat) (b : Pfx) : Blk := ⟨b.val, w - b.plen⟩

theorem den_map_toBlk (w : Nat) (l : List Pfx) (a : Nat) : den (l.map (toBlk w)) a ↔ lden w l a := by
  simp only [den, lden, List.mem_map]
  constructor
  · rintro ⟨b, ⟨p, hp, rfl⟩, hm⟩; exact ⟨p, hp, hm⟩
  · rintro ⟨p, hp, hm⟩; exact ⟨toBlk w p, ⟨p, hp, rfl⟩, hm⟩

theorem lden_reverse (w : Nat) (l : List Pfx) (a : Nat) : lden w l.reverse a ↔ lden w l a := by
  simp [lden]

/-- ascending and non-overlapping -/
def Asc (l : List Blk) : Prop := l.Pairwise (fun b c => b.base + 2 ^ b.k ≤ c.base)

theorem pairwise_or {α : Type} {R : α → α → Prop} : ∀ (l : List α), l.Pairwise R →
    ∀ b ∈ l, ∀ c ∈ l, b ≠ c → R b c ∨ R c b
  | [], _, b, hb, _, _, _ => by simp at hb
  | x :: xs, h, b, hb, c, hc, hne => by
    have hx := List.pairwise_cons.1 h
    rcases List.mem_cons.1 hb with rfl | hb'
    · rcases List.mem_cons.1 hc with rfl | hc'
      · exact absurd rfl hne
      · exact Or.inl (hx.1 c hc')
    · rcases List.mem_cons.1 hc with rfl | hc'
      · exact Or.inr (hx.1 b hb')
      · exact pairwise_or xs hx.2 b hb' c hc' hne

theorem disj_of_le (b c : Blk) (h : b.base + 2 ^ b.k ≤ c.base) : b.disj c := by
  intro a ⟨h1, h2⟩; unfold Blk.mem at h1 h2; omega

theorem disj_symm (b c : Blk) (h : b.disj c) : c.disj b := fun a ⟨h1, h2⟩ => h a ⟨h2, h1⟩

theorem not_sib_self (b : Blk) : ¬ b.sib b := by
  intro h; have := h.2.2; have := pow_pos' b.k; omega

theorem canon_of_asc (l : List Blk) (hal : ∀ b ∈ l, b.aligned) (hasc : Asc l)
    (hns : ∀ b ∈ l, ∀ c ∈ l, ¬ b.sib c) : Canon l := by
  refine ⟨hal, ?_, ?_, hns⟩
  · exact hasc.imp (fun {b c} h => by have := pow_pos' b.k; omega)
  · intro b hb c hc hne
    rcases pairwise_or l hasc b hb c hc hne with h | h
    · exact disj_of_le b c h
    · exact disj_symm _ _ (disj_of_le c b h)

/-- a list whose blocks have pairwise distinct sizes has no sibling pair -/
theorem nosib_of_distinct (l : List Blk) (h : l.Pairwise (fun b c => b.k ≠ c.k)) :
    ∀ b ∈ l, ∀ c ∈ l, ¬ b.sib c := by
  intro b hb c hc hs
  by_cases e : b = c
  · subst e; exact not_sib_self b hs
  · rcases pairwise_or l h b hb c hc e with h' | h'
    · exact h' hs.1
    · exact h' hs.1.symm

theorem canon_nil : Canon ([] : List Blk) :=
  ⟨by simp, List.Pairwise.nil, by simp, by simp⟩

theorem canon_single (b : Blk) (hb : b.aligned) : Canon [b] := by
  refine ⟨by simpa using hb, List.pairwise_singleton _ _, ?_, ?_⟩
  · intro x hx y hy hne; simp at hx hy; subst hx; subst hy; exact absurd rfl hne
  · intro x hx y hy; simp at hx hy; subst hx; subst hy; exact not_sib_self _

theorem asc_of_canon (l : List Blk) (h : Canon l) : Asc l := by
  have : ∀ (m : List Blk), (∀ b ∈ m, b ∈ l) → m.Pairwise (fun b c => b.base < c.base) → Asc m := by
    intro m hm hp
    induction m with
    | nil => exact List.Pairwise.nil
    | cons x xs ih =>
      have hx := List.pairwise_cons.1 hp
      refine List.pairwise_cons.2 ⟨?_, ih (fun b hb => hm b (List.mem_cons_of_mem _ hb)) hx.2⟩
      intro y hy
      have hlt := hx.1 y hy
      have hne : x ≠ y := by intro e; subst e; omega
      have hd := h.dj x (hm x (by simp)) y (hm y (List.mem_cons_of_mem _ hy)) hne
      rcases Nat.lt_or_ge y.base (x.base + 2 ^ x.k) with h' | h'
      · exact absurd ⟨⟨by omega, h'⟩, mem_base y⟩ (hd y.base)
      · exact h'
  exact this l (fun _ hb => hb) h.sorted

/-- concatenation of two canonical lists, the first entirely below the second, without a
    sibling pair across the seam -/
theorem canon_append (l₁ l₂ : List Blk) (h1 : Canon l₁) (h2 : Canon l₂)
    (hlt : ∀ b ∈ l₁, ∀ c ∈ l₂, b.base + 2 ^ b.k ≤ c.base)
    (hns : ∀ b ∈ l₁, ∀ c ∈ l₂, ¬ b.sib c) : Canon (l₁ ++ l₂) := by
  apply canon_of_asc
  · intro b hb
    rcases List.mem_append.1 hb with h | h
    · exact h1.al b h
    · exact h2.al b h
  · exact List.pairwise_append.2 ⟨asc_of_canon _ h1, asc_of_canon _ h2, hlt⟩
  · intro b hb c hc
    rcases List.mem_append.1 hb with hb' | hb' <;> rcases List.mem_append.1 hc with hc' | hc'
    · exact h1.ns b hb' c hc'
    · exact hns b hb' c hc'
    · intro hs
      have := hlt c hc' b hb'
      have := hs.2.2
      have := pow_pos' c.k
      have := pow_pos' b.k
      omega
    · exact h2.ns b hb' c hc'

theorem den_append (l₁ l₂ : List Blk) (a : Nat) : den (l₁ ++ l₂) a ↔ den l₁ a ∨ den l₂ a := by
  simp only [den, List.mem_append]
  constructor
  · rintro ⟨b, hb | hb, hm⟩
    · exact Or.inl ⟨b, hb, hm⟩
    · exact Or.inr ⟨b, hb, hm⟩
  · rintro (⟨b, hb, hm⟩ | ⟨b, hb, hm⟩)
    · exact ⟨b, Or.inl hb, hm⟩
    · exact ⟨b, Or.inr hb, hm⟩

/-- two blocks smaller than `2^K` on either side of a multiple of `2^K` are not siblings -/
theorem nosib_across (M K : Nat) (b c : Blk) (hM : M % 2 ^ K = 0) (hbk : b.k < K)
    (hb : b.base + 2 ^ b.k ≤ M) (hc : M ≤ c.base) : ¬ b.sib c := by
  intro hs
  obtain ⟨_, h2, h3⟩ := hs
  have hMeq : M = b.base + 2 ^ b.k := by omega
  have hd1 : 2 ^ (b.k + 1) ∣ M :=
    Nat.dvd_trans (Nat.pow_dvd_pow 2 (by omega)) (Nat.dvd_of_mod_eq_zero hM)
  have hd2 : 2 ^ (b.k + 1) ∣ b.base := Nat.dvd_of_mod_eq_zero h2
  rw [hMeq] at hd1
  have hd3 : 2 ^ (b.k + 1) ∣ 2 ^ b.k := (Nat.dvd_add_right hd2).1 hd1
  have := Nat.le_of_dvd (pow_pos' b.k) hd3
  rw [Nat.pow_succ] at this
  have := pow_pos' b.k
  omega

end NV.C05L
