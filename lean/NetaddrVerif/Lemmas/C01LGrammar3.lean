/-
Lemmas/C01LGrammar3.lean — the split-style model `Text6.pton6` accepts exactly the strings of
the independent RFC 4291 grammar (`C01G.Rfc4291`), each with the grammar's value:
`pton6_iff_rfc4291 : Text6.pton6 s = some v ↔ Rfc4291 s v`.  Core Lean only.

Route: `pton6 s = body (s.splitOn ':')`; `body` is characterised on token lists (`body_iff`):
accepted token lists are `G ++ q` (eight groups' worth, no empty piece) or `pad A (B ++ q)`
(the pieces of `A :: B q` with the extra empty pieces a leading / trailing `::` produces);
`splitOn ':'` and `joinColon` are inverse on such lists.
-/
import NetaddrVerif.Lemmas.C01LGrammar2
namespace NV.C01G
open NV NV.Text4 NV.Text6

/-- the part of `pton6` after the split (definitionally) -/
def body (toks : List (List Char)) : Option Nat :=
  if toks.length < 3 then none else
  match trimFront toks with
  | none => none
  | some toks =>
  match trimBack toks with
  | none => none
  | some toks =>
  if (toks.filter List.isEmpty).length > 1 then none else
  match groups toks [] none with
  | none => none
  | some (ws, none) => if ws.length = 8 then some (ofWords ws) else none
  | some (ws, some g) =>
    if ws.length > 7 then none
    else some (ofWords (ws.take g ++ List.replicate (8 - ws.length) 0 ++ ws.drop g))

theorem pton6_body (s : List Char) : pton6 s = body (s.splitOn ':') := rfl

/-- the extra empty piece that a `::` at an end of the string produces -/
def padL : List (List Char) → List (List Char)
  | [] => [[]]
  | _ :: _ => []

/-- the pieces of `A :: B'` -/
def pad (A B' : List (List Char)) : List (List Char) := padL A ++ (A ++ [] :: B' ++ padL B')

theorem padL_nil_of_ne (X : List (List Char)) (h : X ≠ []) : padL X = [] := by
  cases X with
  | nil => exact absurd rfl h
  | cons a b => rfl

/-- token-level form of the grammar -/
def TokForm (toks : List (List Char)) (v : Nat) : Prop :=
  (∃ (G q : List (List Char)) (qw : List Nat),
    (∀ t ∈ G, IsGroup t) ∧ IsTail q qw ∧ toks = G ++ q ∧ G.length + qw.length = 8 ∧
    v = wordsVal (G.map (numVal 16) ++ qw)) ∨
  (∃ (A B q : List (List Char)) (qw : List Nat),
    (∀ t ∈ A, IsGroup t) ∧ (∀ t ∈ B, IsGroup t) ∧ IsTail q qw ∧ toks = pad A (B ++ q) ∧
    A.length + B.length + qw.length ≤ 7 ∧
    v = wordsVal (A.map (numVal 16) ++ List.replicate (8 - (A.length + B.length + qw.length)) 0
          ++ (B.map (numVal 16) ++ qw)))

theorem three (toks : List (List Char)) (h : ¬ toks.length < 3) :
    ∃ t0 t1 r, toks = t0 :: t1 :: r ∧ r ≠ [] := by
  match toks, h with
  | t0 :: t1 :: t2 :: r, _ => exact ⟨t0, t1, t2 :: r, rfl, by simp⟩
  | [], h => simp at h
  | [_], h => simp at h
  | [_, _], h => simp at h

/-! ### soundness on token lists -/

theorem body_sound (toks : List (List Char)) (v : Nat) (h : body toks = some v) : TokForm toks v := by
  unfold body at h
  split at h
  · cases h
  rename_i hlen
  cases hf : trimFront toks with
  | none => simp [hf] at h
  | some T1 =>
  simp only [hf] at h
  cases hb : trimBack T1 with
  | none => simp [hb] at h
  | some T2 =>
  simp only [hb] at h
  split at h
  · cases h
  rename_i hcount
  obtain ⟨t0, t1, r, rfl, hr⟩ := three toks hlen
  rw [trimFront_iff] at hf
  have hT1 : T1 ≠ [] := by
    rcases hf with ⟨_, _, rfl⟩ | ⟨_, rfl⟩ <;> simp
  rw [trimBack_iff T1 T2 hT1] at hb
  rcases one_empty T2 hcount with hne | ⟨A, B', rfl, hA, hB⟩
  · -- no empty piece at all: nothing was trimmed
    left
    have hT12 : T1 = T2 := by
      rcases hb with ⟨L, _, rfl⟩ | ⟨_, e⟩
      · exact absurd rfl (hne [] (by simp))
      · exact e.symm
    subst hT12
    have hT01 : T1 = t0 :: t1 :: r := by
      rcases hf with ⟨_, _, rfl⟩ | ⟨_, e⟩
      · exact absurd rfl (hne [] (by simp))
      · exact e
    subst hT01
    cases hg : groups (t0 :: t1 :: r) [] none with
    | none => simp [hg] at h
    | some res =>
      obtain ⟨ws, g⟩ := res
      obtain ⟨rfl, G, q, qw, e, hG, hq, rfl⟩ := (groups_noEmpty_iff _ hne [] none ws g).mp hg
      simp only [hg] at h
      split at h
      · rename_i hl8
        cases h
        refine ⟨G, q, qw, hG, hq, e, ?_, ?_⟩
        · simpa using hl8
        · rw [ofWords_eq]; simp
      · cases h
  · -- exactly one empty piece
    right
    -- what the back trimming removed
    have e1 : T1 = A ++ [] :: B' ++ padL B' := by
      rcases hb with ⟨L, e1, e2⟩ | ⟨hlast, e⟩
      · have hB' : B' = [] := by
          rcases List.eq_nil_or_concat B' with hnil | ⟨B'', b, hb'⟩
          · exact hnil
          · exfalso
            rw [List.concat_eq_append] at hb'
            subst hb'
            have e3 : (A ++ [] :: B'') ++ [b] = L ++ [[]] := by rw [← e2]; simp
            have := List.append_inj_right' e3 rfl
            simp only [List.cons.injEq, and_true] at this
            exact hB b (by simp) this
        subst hB'
        have : A = L := List.append_cancel_right (by simpa using e2 : A ++ [[]] = L ++ [[]])
        subst this
        rw [e1]; simp [padL]
      · have hB' : B' ≠ [] := by
          intro e'; subst e'
          apply hlast
          rw [← e]; simp
        rw [← e, padL_nil_of_ne B' hB']; simp
    -- what the front trimming removed
    have e0 : t0 :: t1 :: r = pad A B' := by
      unfold pad
      rw [← e1]
      rcases hf with ⟨rfl, rfl, e⟩ | ⟨h0, e⟩
      · have hA' : A = [] := by
          cases A with
          | nil => rfl
          | cons a A' =>
            exfalso
            rw [e1] at e
            simp only [List.cons_append, List.cons.injEq] at e
            exact hA a (by simp) e.1
        subst hA'
        rw [e]; rfl
      · have hA' : A ≠ [] := by
          intro e'; subst e'
          rw [e1] at e
          simp only [List.nil_append, List.cons_append, List.cons.injEq] at e
          exact h0 e.1.symm
        rw [padL_nil_of_ne A hA', e]; rfl
    cases hg : groups (A ++ [] :: B') [] none with
    | none => simp [hg] at h
    | some res =>
      obtain ⟨hGA, hg2⟩ := (groups_prefix_iff A hA B' [] none res).mp hg
      obtain ⟨ws, g⟩ := res
      obtain ⟨rfl, G, q, qw, rfl, hG, hq, rfl⟩ := (groups_noEmpty_iff _ hB _ _ ws g).mp hg2
      simp only [hg, List.nil_append, List.length_nil, Nat.zero_add] at h
      split at h
      · cases h
      · rename_i hl7
        cases h
        have hlen : (A.map (numVal 16) ++ (G.map (numVal 16) ++ qw)).length = A.length + G.length + qw.length := by
          simp only [List.length_append, List.length_map]; omega
        refine ⟨A, G, q, qw, hGA, hG, hq, e0, ?_, ?_⟩
        · rw [hlen] at hl7; omega
        · rw [ofWords_eq, hlen, List.take_left' (by simp), List.drop_left' (by simp)]

/-! ### completeness on token lists -/

theorem body_full (G q : List (List Char)) (qw : List Nat) (hG : ∀ t ∈ G, IsGroup t) (hq : IsTail q qw)
    (hlen : G.length + qw.length = 8) : body (G ++ q) = some (wordsVal (G.map (numVal 16) ++ qw)) := by
  have hne : NoEmpty (G ++ q) := by
    intro t ht
    rcases List.mem_append.mp ht with h | h
    · exact noEmpty_groups G hG t h
    · exact tail_noEmpty q qw hq t h
  have hg := (groups_noEmpty_iff (G ++ q) hne [] none _ none).mpr ⟨rfl, G, q, qw, rfl, hG, hq, rfl⟩
  have hl3 : ¬ (G ++ q).length < 3 := by
    rcases tail_length q qw hq with ⟨rfl, h0⟩ | ⟨h1, h2⟩ <;> simp only [List.length_append] <;> simp <;> omega
  generalize G ++ q = toks at *
  obtain ⟨t0, t1, r, rfl, hr⟩ := three toks hl3
  have hf : trimFront (t0 :: t1 :: r) = some (t0 :: t1 :: r) :=
    (trimFront_iff _ _ _ _).mpr (Or.inr ⟨hne t0 (by simp), rfl⟩)
  have hb : trimBack (t0 :: t1 :: r) = some (t0 :: t1 :: r) := by
    refine (trimBack_iff _ _ (by simp)).mpr (Or.inr ⟨?_, rfl⟩)
    intro hl
    exact hne [] (List.mem_of_getLast? hl) rfl
  have hfil : (t0 :: t1 :: r).filter List.isEmpty = [] := (filter_isEmpty_eq_nil_iff _).mpr hne
  unfold body
  simp only [hl3, if_false, hf, hb, hfil, hg]
  have hl8 : (G.map (numVal 16) ++ qw).length = 8 := by
    simp only [List.length_append, List.length_map]; exact hlen
  simp only [List.nil_append, hl8, if_true, ofWords_eq, List.length_nil, gt_iff_lt, Nat.not_lt_zero, if_false]

theorem trimFront_pad (A B' : List (List Char)) (hA : NoEmpty A) :
    trimFront (pad A B') = some (A ++ [] :: B' ++ padL B') := by
  unfold pad
  cases A with
  | nil =>
    simp only [padL, List.nil_append, List.cons_append]
    exact (trimFront_iff _ _ _ _).mpr (Or.inl ⟨rfl, rfl, rfl⟩)
  | cons a A' =>
    have ha : a ≠ [] := hA a (by simp)
    cases A' with
    | nil =>
      simp only [padL, List.nil_append, List.cons_append]
      exact (trimFront_iff _ _ _ _).mpr (Or.inr ⟨ha, rfl⟩)
    | cons a' A'' =>
      simp only [padL, List.nil_append, List.cons_append]
      exact (trimFront_iff _ _ _ _).mpr (Or.inr ⟨ha, rfl⟩)

theorem trimBack_pad (A B' : List (List Char)) (hB : NoEmpty B') :
    trimBack (A ++ [] :: B' ++ padL B') = some (A ++ [] :: B') := by
  refine (trimBack_iff _ _ (by simp)).mpr ?_
  rcases List.eq_nil_or_concat B' with hnil | ⟨B'', b, hb'⟩
  · subst hnil
    exact Or.inl ⟨A, by simp [padL], rfl⟩
  · rw [List.concat_eq_append] at hb'
    subst hb'
    have hb : b ≠ [] := hB b (by simp)
    have hp : padL (B'' ++ [b]) = [] := padL_nil_of_ne _ (by simp)
    refine Or.inr ⟨?_, by rw [hp]; simp⟩
    rw [hp, List.append_nil]
    have : A ++ [] :: (B'' ++ [b]) = (A ++ [] :: B'') ++ [b] := by simp
    rw [this, List.getLast?_concat]
    intro e
    exact hb (Option.some.inj e)

theorem padL_length (X : List (List Char)) : 1 ≤ (padL X).length + X.length := by
  cases X <;> simp [padL]

theorem body_compressed (A B q : List (List Char)) (qw : List Nat) (hA : ∀ t ∈ A, IsGroup t)
    (hB : ∀ t ∈ B, IsGroup t) (hq : IsTail q qw) (hlen : A.length + B.length + qw.length ≤ 7) :
    body (pad A (B ++ q)) =
      some (wordsVal (A.map (numVal 16) ++ List.replicate (8 - (A.length + B.length + qw.length)) 0
          ++ (B.map (numVal 16) ++ qw))) := by
  have hneA := noEmpty_groups A hA
  have hneB : NoEmpty (B ++ q) := by
    intro t ht
    rcases List.mem_append.mp ht with h | h
    · exact noEmpty_groups B hB t h
    · exact tail_noEmpty q qw hq t h
  have hg2 := (groups_noEmpty_iff (B ++ q) hneB ([] ++ A.map (numVal 16)) (some (([] : List Nat).length + A.length)) _ _).mpr
    ⟨rfl, B, q, qw, rfl, hB, hq, rfl⟩
  have hg := (groups_prefix_iff A hneA (B ++ q) [] none _).mpr ⟨hA, hg2⟩
  have hf := trimFront_pad A (B ++ q) hneA
  have hb := trimBack_pad A (B ++ q) hneB
  have hfil := filter_one A (B ++ q) hneA hneB
  have hl3 : ¬ (pad A (B ++ q)).length < 3 := by
    have h1 := padL_length A
    have h2 := padL_length (B ++ q)
    unfold pad
    simp only [List.length_append, List.length_cons] at h1 h2 ⊢
    omega
  unfold body
  simp only [hl3, if_false, hf, hb, hfil, hg, Nat.lt_irrefl, gt_iff_lt]
  have hlen' : (A.map (numVal 16) ++ (B.map (numVal 16) ++ qw)).length = A.length + B.length + qw.length := by
    simp only [List.length_append, List.length_map]; omega
  have h7 : ¬ (7 < A.length + B.length + qw.length) := by omega
  simp only [List.nil_append, List.length_nil, Nat.zero_add, hlen', h7, if_false, ofWords_eq]
  rw [List.take_left' (by simp), List.drop_left' (by simp)]

/-- **`body` accepts exactly the token forms of the grammar** -/
theorem body_iff (toks : List (List Char)) (v : Nat) : body toks = some v ↔ TokForm toks v := by
  constructor
  · exact body_sound toks v
  · rintro (⟨G, q, qw, hG, hq, rfl, hlen, rfl⟩ | ⟨A, B, q, qw, hA, hB, hq, rfl, hlen, rfl⟩)
    · exact body_full G q qw hG hq hlen
    · exact body_compressed A B q qw hA hB hq hlen

/-! ### strings against token lists -/

theorem joinColon_cons_ne (t : List Char) (Y : List (List Char)) (hY : Y ≠ []) :
    joinColon (t :: Y) = t ++ ':' :: joinColon Y := by
  cases Y with
  | nil => exact absurd rfl hY
  | cons a b => rfl

theorem joinColon_append (X Y : List (List Char)) (hX : X ≠ []) (hY : Y ≠ []) :
    joinColon (X ++ Y) = joinColon X ++ ':' :: joinColon Y := by
  induction X with
  | nil => exact absurd rfl hX
  | cons a X' ih =>
    cases X' with
    | nil => simp [joinColon_cons_ne a Y hY, joinColon]
    | cons b X'' =>
      rw [List.cons_append, joinColon_cons_ne a _ (by simp), ih (by simp), joinColon_cons_ne a _ (by simp)]
      simp

/-- the pieces of `A :: B'` joined by single colons spell `A`, two colons, `B'` -/
theorem joinColon_pad (A B' : List (List Char)) :
    joinColon (pad A B') = joinColon A ++ ':' :: ':' :: joinColon B' := by
  unfold pad
  cases A with
  | nil =>
    cases B' with
    | nil => simp [padL, joinColon]
    | cons b B'' =>
      simp only [padL, List.nil_append, List.append_nil, List.cons_append]
      rw [joinColon_cons_ne [] _ (by simp), joinColon_cons_ne [] _ (by simp)]
      simp [joinColon]
  | cons a A' =>
    cases B' with
    | nil =>
      simp only [padL, List.nil_append]
      rw [List.append_assoc, joinColon_append _ _ (by simp) (by simp)]
      simp [joinColon]
    | cons b B'' =>
      simp only [padL, List.nil_append, List.append_nil]
      rw [joinColon_append _ _ (by simp) (by simp), joinColon_cons_ne [] _ (by simp)]
      simp

theorem split_join (toks : List (List Char)) (h1 : toks ≠ []) (h2 : ∀ t ∈ toks, ':' ∉ t) :
    (joinColon toks).splitOn ':' = toks := by
  rw [joinColon_eq]; exact List.splitOn_intercalate ':' h2 h1

theorem join_split (s : List Char) : joinColon (s.splitOn ':') = s := by
  rw [joinColon_eq]; exact List.intercalate_splitOn ':'

/-- **strict IPv6 parsing = the RFC 4291 grammar** (platform model) -/
theorem pton6_iff_rfc4291 (s : List Char) (v : Nat) : pton6 s = some v ↔ Rfc4291 s v := by
  rw [pton6_body, body_iff]
  constructor
  · rintro (⟨G, q, qw, hG, hq, e, hlen, rfl⟩ | ⟨A, B, q, qw, hA, hB, hq, e, hlen, rfl⟩)
    · exact Or.inl ⟨G, q, qw, hG, hq, by rw [← e, join_split], hlen, rfl⟩
    · exact Or.inr ⟨A, B, q, qw, hA, hB, hq, by rw [← joinColon_pad, ← e, join_split], hlen, rfl⟩
  · rintro (⟨G, q, qw, hG, hq, rfl, hlen, rfl⟩ | ⟨A, B, q, qw, hA, hB, hq, rfl, hlen, rfl⟩)
    · left
      refine ⟨G, q, qw, hG, hq, ?_, hlen, rfl⟩
      apply split_join
      · intro e
        have := congrArg List.length e
        rcases tail_length q qw hq with ⟨_, h0⟩ | ⟨_, h2⟩ <;> simp only [List.length_append, List.length_nil] at this <;> omega
      · intro t ht
        rcases List.mem_append.mp ht with h | h
        · exact group_no_colon t (hG t h)
        · exact tail_no_colon q qw hq t h
    · right
      refine ⟨A, B, q, qw, hA, hB, hq, ?_, hlen, rfl⟩
      rw [← joinColon_pad]
      apply split_join
      · unfold pad; simp
      · intro t ht
        unfold pad at ht
        have hpad : ∀ X : List (List Char), ∀ t ∈ padL X, t = [] := by
          intro X t ht; cases X <;> simp [padL] at ht; exact ht
        simp only [List.mem_append, List.mem_cons] at ht
        rcases ht with h | (h | h | h | h) | h
        · rw [hpad _ t h]; simp
        · exact group_no_colon t (hA t h)
        · rw [h]; simp
        · exact group_no_colon t (hB t h)
        · exact tail_no_colon q qw hq t h
        · rw [hpad _ t h]; simp

/-- the grammar is unambiguous: a string denotes at most one value -/
theorem rfc4291_functional (s : List Char) (v v' : Nat) (h : Rfc4291 s v) (h' : Rfc4291 s v') : v = v' := by
  rw [← pton6_iff_rfc4291] at h h'
  rw [h] at h'; exact Option.some.inj h'

/-- a string the parser model refuses is outside the grammar (used for the negative examples) -/
theorem rfc4291_reject (s : List Char) (h : pton6 s = none) : ¬ ∃ v, Rfc4291 s v := by
  rintro ⟨v, hv⟩
  rw [← pton6_iff_rfc4291, h] at hv
  cases hv

theorem group_isHexC (t : List Char) (h : IsGroup t) : ∀ c ∈ t, isHexC c = true :=
  fun c hc => (isHexC_iff c).mpr (h.2.2 c hc)

/-- every string of the grammar has a first ':' preceded by hex digits only -/
theorem rfc4291_shape (s : List Char) (v : Nat) (h : Rfc4291 s v) :
    ∃ pre r, s = pre ++ ':' :: r ∧ ∀ c ∈ pre, isHexC c = true := by
  rcases h with ⟨G, q, qw, hG, hq, rfl, hlen, _⟩ | ⟨A, B, q, qw, hA, _, _, rfl, _, _⟩
  · cases G with
    | nil =>
      exfalso
      rcases tail_length q qw hq with ⟨_, h0⟩ | ⟨_, h2⟩ <;> simp only [List.length_nil] at hlen <;> omega
    | cons g G' =>
      have hne : G' ++ q ≠ [] := by
        intro e
        have e' := congrArg List.length e
        simp only [List.length_append, List.length_nil, List.length_cons] at e' hlen
        rcases tail_length q qw hq with ⟨_, h0⟩ | ⟨_, h2⟩ <;> omega
      exact ⟨g, joinColon (G' ++ q), by rw [List.cons_append, joinColon_cons_ne g _ hne],
        group_isHexC g (hG g (by simp))⟩
  · cases A with
    | nil => exact ⟨[], _, rfl, by simp⟩
    | cons a A' =>
      refine ⟨a, ?_, ?_, group_isHexC a (hA a (by simp))⟩
      · exact (match A' with | [] => [] | _ :: _ => joinColon A' ++ [':']) ++ ':' :: joinColon (B ++ q)
      · cases A' with
        | nil => simp [joinColon]
        | cons a' A'' => rw [joinColon_cons_ne a _ (by simp)]; simp

end NV.C01G
