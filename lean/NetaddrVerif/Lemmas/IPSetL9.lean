/-
Lemmas/IPSetL9.lean — IPSet.intersection: the two-cursor sweep emits the blocks of the
spec-level sweep `inter`; result canonical, denotation = common addresses; isdisjoint (C07).
-/
import NetaddrVerif.Lemmas.IPSetL8
namespace NV.IPSet
open NV NV.Blk

theorem mem_map_dInsert (acc : St) (hg : ∀ n ∈ acc, Good n) (a : Net) (ha : Good a) (x : Blk) :
    x ∈ (dInsert acc a).map lin ↔ x ∈ acc.map lin ∨ x = lin a := by
  simp only [List.mem_map]
  constructor
  · rintro ⟨n, hn, rfl⟩
    rcases (mem_dInsert acc hg a ha n).1 hn with h | h
    · exact Or.inl ⟨n, h, rfl⟩
    · exact Or.inr (by rw [h])
  · rintro (⟨n, hn, rfl⟩ | rfl)
    · exact ⟨n, (mem_dInsert acc hg a ha n).2 (Or.inl hn), rfl⟩
    · exact ⟨a, (mem_dInsert acc hg a ha a).2 (Or.inr rfl), rfl⟩

theorem interSweep_cons (fuel : Nat) (a b : Net) (as bs : List Net) (acc : St) :
    interSweep (fuel + 1) (a :: as) (b :: bs) acc =
      if keyEq a b then interSweep fuel as bs (dInsert acc a)
      else if netIn a b then interSweep fuel as (b :: bs) (dInsert acc a)
      else if netIn b a then interSweep fuel (a :: as) bs (dInsert acc b)
      else if netLt a b then interSweep fuel as (b :: bs) acc
      else interSweep fuel (a :: as) bs acc := rfl

/-- the Net-level sweep emits exactly the blocks of the Blk-level sweep `inter` -/
theorem interSweep_map : ∀ (fuel : Nat) (as bs : List Net) (acc : St),
    (∀ n ∈ as, Good n) → (∀ n ∈ bs, Good n) → (∀ n ∈ acc, Good n) → acc.Nodup →
    as.length + bs.length < fuel →
    (∀ n ∈ interSweep fuel as bs acc, Good n) ∧ (interSweep fuel as bs acc).Nodup ∧
    ∀ x, x ∈ (interSweep fuel as bs acc).map lin ↔ x ∈ acc.map lin ∨ x ∈ inter (as.map lin) (bs.map lin) := by
  intro fuel
  induction fuel with
  | zero => intro as bs acc _ _ _ _ h; omega
  | succ fuel ih =>
    intro as bs acc hga hgb hgc hnd hlen
    match as, bs with
    | [], bs =>
      simp only [interSweep, List.map_nil]
      refine ⟨hgc, hnd, fun x => ?_⟩
      simp [inter]
    | a :: as, [] =>
      simp only [interSweep, List.map_nil]
      refine ⟨hgc, hnd, fun x => ?_⟩
      simp [inter]
    | a :: as, b :: bs =>
      have hag := hga a (List.mem_cons_self ..)
      have hbg := hgb b (List.mem_cons_self ..)
      have hga' : ∀ n ∈ as, Good n := fun n hn => hga n (List.mem_cons_of_mem _ hn)
      have hgb' : ∀ n ∈ bs, Good n := fun n hn => hgb n (List.mem_cons_of_mem _ hn)
      simp only [List.length_cons] at hlen
      rw [interSweep_cons]
      simp only [List.map_cons]
      rw [inter]
      by_cases h1 : keyEq a b = true
      · have e1 : lin a = lin b := (keyEq_lin a b hag.1 hbg.1).1 h1
        simp only [h1, if_true, e1]
        obtain ⟨r1, r2, r3⟩ := ih as bs (dInsert acc a) hga' hgb' (good_dInsert acc hgc a hag)
          (nodup_dInsert acc hgc hnd a hag) (by omega)
        refine ⟨r1, r2, fun x => ?_⟩
        rw [r3 x, mem_map_dInsert acc hgc a hag x, e1]
        simp only [List.mem_cons]
        constructor
        · rintro ((h | h) | h)
          · exact Or.inl h
          · exact Or.inr (Or.inl h)
          · exact Or.inr (Or.inr h)
        · rintro (h | h | h)
          · exact Or.inl (Or.inl h)
          · exact Or.inl (Or.inr h)
          · exact Or.inr h
      · have h1' : keyEq a b = false := by simpa using h1
        have e1 : ¬ lin a = lin b := fun e => h1 ((keyEq_lin a b hag.1 hbg.1).2 e)
        simp only [h1', Bool.false_eq_true, if_false, e1]
        by_cases h2 : netIn a b = true
        · have e2 := (netIn_lin a b hag.1 hbg.1).1 h2
          simp only [h2, if_true, e2]
          obtain ⟨r1, r2, r3⟩ := ih as (b :: bs) (dInsert acc a) hga' hgb (good_dInsert acc hgc a hag)
            (nodup_dInsert acc hgc hnd a hag) (by simp only [List.length_cons]; omega)
          refine ⟨r1, r2, fun x => ?_⟩
          rw [r3 x, mem_map_dInsert acc hgc a hag x]
          simp only [List.mem_cons, List.map_cons]
          constructor
          · rintro ((h | h) | h)
            · exact Or.inl h
            · exact Or.inr (Or.inl h)
            · exact Or.inr (Or.inr h)
          · rintro (h | h | h)
            · exact Or.inl (Or.inl h)
            · exact Or.inl (Or.inr h)
            · exact Or.inr h
        · have h2' : netIn a b = false := by simpa using h2
          have e2 : NV.subB (lin a) (lin b) = false := by
            cases h : NV.subB (lin a) (lin b) with
            | false => rfl
            | true => exact absurd ((netIn_lin a b hag.1 hbg.1).2 h) h2
          simp only [h2', Bool.false_eq_true, if_false, e2]
          by_cases h3 : netIn b a = true
          · have e3 := (netIn_lin b a hbg.1 hag.1).1 h3
            simp only [h3, if_true, e3]
            obtain ⟨r1, r2, r3⟩ := ih (a :: as) bs (dInsert acc b) hga hgb' (good_dInsert acc hgc b hbg)
              (nodup_dInsert acc hgc hnd b hbg) (by simp only [List.length_cons]; omega)
            refine ⟨r1, r2, fun x => ?_⟩
            rw [r3 x, mem_map_dInsert acc hgc b hbg x]
            simp only [List.mem_cons, List.map_cons]
            constructor
            · rintro ((h | h) | h)
              · exact Or.inl h
              · exact Or.inr (Or.inl h)
              · exact Or.inr (Or.inr h)
            · rintro (h | h | h)
              · exact Or.inl (Or.inl h)
              · exact Or.inl (Or.inr h)
              · exact Or.inr h
          · have h3' : netIn b a = false := by simpa using h3
            have e3 : NV.subB (lin b) (lin a) = false := by
              cases h : NV.subB (lin b) (lin a) with
              | false => rfl
              | true => exact absurd ((netIn_lin b a hbg.1 hag.1).2 h) h3
            simp only [h3', Bool.false_eq_true, if_false, e3]
            have e4 := netLt_lin a b hag.1 hbg.1 e2 e3
            by_cases h4 : netLt a b = true
            · simp only [h4, if_true, e4.1 h4]
              have := ih as (b :: bs) acc hga' hgb hgc hnd (by simp only [List.length_cons]; omega)
              simpa only [List.map_cons] using this
            · have h4' : netLt a b = false := by simpa using h4
              have e5 : ¬ (lin a).base < (lin b).base := fun h => h4 (e4.2 h)
              simp only [h4', Bool.false_eq_true, if_false, e5]
              have := ih (a :: as) bs acc hga hgb' hgc hnd (by simp only [List.length_cons]; omega)
              simpa only [List.map_cons] using this

theorem canonset_of_canon {l : List Blk} (h : Canon l) : CanonSet l := ⟨h.al, h.dj, h.ns⟩

/-- per-family denotation read on the line -/
theorem denS_iff_lin (s : St) (hg : ∀ n ∈ s, n.WF) (ver a : Nat) :
    denS s ver a ↔ (ver = 4 ∨ ver = 6) ∧ a < 2 ^ 128 ∧ den (s.map lin) (off ver + a) := by
  have hp := p129
  constructor
  · rintro ⟨n, hn, hv, h1, h2⟩
    have hw := hg n hn
    refine ⟨hv ▸ hw.1, by have := first_lt_128 n hw; omega, lin n, List.mem_map.2 ⟨n, hn, rfl⟩, ?_⟩
    rw [lin_mem n hw, hv]; omega
  · rintro ⟨hver, ha, b, hb, hx⟩
    obtain ⟨n, hn, rfl⟩ := List.mem_map.1 hb
    have hw := hg n hn
    rw [lin_mem n hw] at hx
    have k1 := first_lt_128 n hw; have k2 := first_le_last n hw
    have hv : n.ver = ver := by
      unfold off at hx
      rcases hw.1 with x | x <;> rcases hver with y | y <;> simp [x, y] at hx ⊢ <;> omega
    rw [hv] at hx
    exact ⟨n, hn, hv, by omega, by omega⟩

/-- `intersection` / `&`: the result is canonical and denotes exactly the common addresses -/
theorem intersection_spec (s t : St) (hs : Inv s) (ht : Inv t) :
    Inv (intersection s t) ∧
    ∀ ver a, denS (intersection s t) ver a ↔ denS s ver a ∧ denS t ver a := by
  have hps := sortNets_perm s; have hpt := sortNets_perm t
  have hgs : ∀ n ∈ sortNets s, Good n := fun n hn => hs.good n (hps.mem_iff.1 hn)
  have hgt : ∀ n ∈ sortNets t, Good n := fun n hn => ht.good n (hpt.mem_iff.1 hn)
  have hlen : (sortNets s).length + (sortNets t).length < s.length + t.length + 1 := by
    rw [hps.length_eq, hpt.length_eq]; omega
  obtain ⟨r1, r2, r3⟩ := interSweep_map (s.length + t.length + 1) (sortNets s) (sortNets t) []
    hgs hgt (by simp) List.nodup_nil hlen
  have hA : Canon ((sortNets s).map lin) := canon_shown s hs
  have hB : Canon ((sortNets t).map lin) := canon_shown t ht
  have hmem : ∀ x, x ∈ (intersection s t).map lin ↔ x ∈ inter ((sortNets s).map lin) ((sortNets t).map lin) := by
    intro x; have := r3 x; simpa [intersection] using this
  have hcs : CanonSet ((intersection s t).map lin) :=
    canonset_of_mutual _ _ _ (canonset_of_canon hA) (canonset_of_canon hB)
      (fun x hx => inter_mem_sub _ _ x ((hmem x).1 hx))
  have hinv : Inv (intersection s t) := inv_of_lin _ r1 r2 hcs
  refine ⟨hinv, fun ver a => ?_⟩
  have hw : ∀ n ∈ intersection s t, n.WF := fun n hn => (r1 n hn).1
  rw [denS_iff_lin _ hw, denS_iff_lin s (fun n hn => (hs.good n hn).1), denS_iff_lin t (fun n hn => (ht.good n hn).1)]
  have e0 : den ((intersection s t).map lin) (off ver + a) ↔
      den (inter ((sortNets s).map lin) ((sortNets t).map lin)) (off ver + a) := den_congr hmem _
  have e1 := inter_den _ _ hA hB (off ver + a)
  have e2 : den ((sortNets s).map lin) (off ver + a) ↔ den (s.map lin) (off ver + a) := den_congr (by
    intro b; simp only [List.mem_map]
    constructor
    · rintro ⟨n, hn, e⟩; exact ⟨n, hps.mem_iff.1 hn, e⟩
    · rintro ⟨n, hn, e⟩; exact ⟨n, hps.mem_iff.2 hn, e⟩) _
  have e3 : den ((sortNets t).map lin) (off ver + a) ↔ den (t.map lin) (off ver + a) := den_congr (by
    intro b; simp only [List.mem_map]
    constructor
    · rintro ⟨n, hn, e⟩; exact ⟨n, hpt.mem_iff.1 hn, e⟩
    · rintro ⟨n, hn, e⟩; exact ⟨n, hpt.mem_iff.2 hn, e⟩) _
  rw [e0, e1, e2, e3]
  constructor
  · rintro ⟨h1, h2, h3, h4⟩; exact ⟨⟨h1, h2, h3⟩, ⟨h1, h2, h4⟩⟩
  · rintro ⟨⟨h1, h2, h3⟩, ⟨_, _, h4⟩⟩; exact ⟨h1, h2, h3, h4⟩

/-- `isdisjoint`: True exactly when no address is in both sets -/
theorem isdisjoint_iff (s t : St) (hs : Inv s) (ht : Inv t) :
    isdisjoint s t = true ↔ ∀ ver a, ¬ (denS s ver a ∧ denS t ver a) := by
  obtain ⟨hi, hd⟩ := intersection_spec s t hs ht
  unfold isdisjoint
  rw [List.isEmpty_iff]
  constructor
  · intro h ver a hboth
    have := (hd ver a).2 hboth
    rw [h] at this
    obtain ⟨n, hn, _⟩ := this
    simp at hn
  · intro h
    cases hr : intersection s t with
    | nil => rfl
    | cons n rest =>
      exfalso
      have hn : n ∈ intersection s t := by rw [hr]; exact List.mem_cons_self ..
      have hw := (hi.good n hn).1
      exact h n.ver n.first ((hd n.ver n.first).1 ⟨n, hn, rfl, Nat.le_refl _, first_le_last n hw⟩)

end NV.IPSet
