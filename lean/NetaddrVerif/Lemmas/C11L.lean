import NetaddrVerif.Model.Subnet
import NetaddrVerif.Lemmas.NetworkL
import NetaddrVerif.Lemmas.Partition
/-! Helper lemmas for C11 (Model/Subnet.lean): closed forms of the loops. -/
namespace NV.Subnet
open NV

theorem netSize_eq (w v p : Nat) (hv : v < 2 ^ w) : netSize w v p = 2 ^ (w - p) := by
  unfold netSize; rw [netLast_eq, netFirst_eq w v p hv]; have := pw (w - p); omega

/-- flooring an aligned value again changes nothing -/
theorem floor_floor (v B : Nat) (hB : 0 < B) : v / B * B / B * B = v / B * B := by
  rw [Nat.mul_div_cancel _ hB]

/-- flooring to a finer grid and then to a coarser one is flooring to the coarser one -/
theorem floor_coarse (v B C : Nat) (hB : 0 < B) : v / B * B / (B * C) * (B * C) = v / (B * C) * (B * C) := by
  rw [← Nat.div_div_eq_div_mul, Nat.mul_div_cancel _ hB, Nat.div_div_eq_div_mul]

theorem pow_split' (w p k : Nat) (hk : k ≤ p) (hp : p ≤ w) : 2 ^ (w - k) = 2 ^ (w - p) * 2 ^ (p - k) := by
  rw [← Nat.pow_add]; congr 1; omega

theorem maxSubnets_eq (w p q : Nat) (hpq : p ≤ q) (hq : q ≤ w) : maxSubnets w p q = 2 ^ (q - p) := by
  unfold maxSubnets
  rw [if_pos hq, pow_split' w q p hpq hq, Nat.mul_div_cancel_left _ (pw (w - q))]

/-- the checks of `subnet` in one expression -/
theorem subnetCount_eq (n : Net) (hp : n.plen ≤ width n.ver) (q : Int) (count : Option Int) :
    subnetCount n q count =
      if q < (n.plen : Int) then .ok none
      else if 1 ≤ count.getD ((maxSubnets (width n.ver) n.plen q.toNat : Nat) : Int) ∧
          count.getD ((maxSubnets (width n.ver) n.plen q.toNat : Nat) : Int) ≤ ((maxSubnets (width n.ver) n.plen q.toNat : Nat) : Int)
        then .ok (some (count.getD ((maxSubnets (width n.ver) n.plen q.toNat : Nat) : Int)).toNat)
        else .error .value := by
  unfold subnetCount
  have hg : (0 ≤ (n.plen : Int) ∧ n.plen ≤ width n.ver) := ⟨by omega, hp⟩
  simp only []
  rw [if_neg (fun h => h hg)]
  by_cases h : q < (n.plen : Int)
  · have h' : ¬ ((n.plen : Int) ≤ q) := by omega
    rw [if_pos h', if_pos h]
  · have h' : ¬ ¬ ((n.plen : Int) ≤ q) := by omega
    rw [if_neg h', if_neg h]
    by_cases hc : 1 ≤ count.getD ((maxSubnets (width n.ver) n.plen q.toNat : Nat) : Int) ∧
          count.getD ((maxSubnets (width n.ver) n.plen q.toNat : Nat) : Int) ≤ ((maxSubnets (width n.ver) n.plen q.toNat : Nat) : Int)
    · rw [if_pos hc, if_neg (fun h => h hc)]
    · rw [if_neg hc, if_pos hc]

/-- the network address of a well-formed network is again a value of the family -/
theorem first_lt (w v p : Nat) (hv : v < 2 ^ w) : netFirst w v p < 2 ^ w := by
  rw [netFirst_eq w v p hv]
  exact Nat.lt_of_le_of_lt (Nat.div_mul_le_self _ _) hv

/-- closed form of the supernet loop while the running prefix has not passed `p` -/
theorem supernetLoop_le (ver w v p : Nat) :
    ∀ (d cur : Nat) (acc : List Net), d = p - cur → cur ≤ p → p ≤ w →
      supernetLoop ver w v p cur acc =
        .ok (acc ++ (List.range' cur (p - cur)).map (fun k => netCidr ⟨ver, v, k⟩)) := by
  intro d
  induction d with
  | zero =>
    intro cur acc hd hle _
    have : cur = p := by omega
    subst this
    unfold supernetLoop; simp
  | succ d ih =>
    intro cur acc hd hle hpw
    unfold supernetLoop
    have h1 : ¬ cur = p := by omega
    have h2 : ¬ cur > w := by omega
    simp only [h1, ite_false, h2, dite_false]
    rw [ih (cur + 1) _ (by omega) (by omega) hpw]
    have : p - cur = (p - (cur + 1)) + 1 := by omega
    rw [this, List.range'_succ]
    simp [List.append_assoc]

/-- once the running prefix is beyond `p` the loop can only end in the ValueError of `.cidr` -/
theorem supernetLoop_gt (ver w v p : Nat) :
    ∀ (d cur : Nat) (acc : List Net), d = w + 1 - cur → p < cur →
      supernetLoop ver w v p cur acc = .error .value := by
  intro d
  induction d with
  | zero =>
    intro cur acc hd hlt
    unfold supernetLoop
    have h1 : ¬ cur = p := by omega
    have h2 : cur > w := by omega
    simp [h1, h2]
  | succ d ih =>
    intro cur acc hd hlt
    unfold supernetLoop
    have h1 : ¬ cur = p := by omega
    have h2 : ¬ cur > w := by omega
    simp only [h1, ite_false, h2, dite_false]
    exact ih (cur + 1) _ (by omega) (by omega)

/-- closed form of the subnet loop when no turn raises -/
theorem subnetLoop_eq (n : Net) (q count : Nat) (f : Nat → Net)
    (hf : ∀ i, i < count → subnetItem n q i = .ok (f i)) :
    ∀ (d i : Nat) (acc : List Net), d = count - i →
      subnetLoop n q count i acc = .ok (acc ++ (List.range' i (count - i)).map f) := by
  intro d
  induction d with
  | zero =>
    intro i acc hd
    unfold subnetLoop
    have : ¬ i < count := by omega
    have h0 : count - i = 0 := by omega
    simp [this, h0]
  | succ d ih =>
    intro i acc hd
    unfold subnetLoop
    have hlt : i < count := by omega
    simp only [hlt, dite_true, hf i hlt]
    rw [ih (i + 1) _ (by omega)]
    have : count - i = (count - (i + 1)) + 1 := by omega
    rw [this, List.range'_succ]
    simp [List.append_assoc]

/-- closed form of `iter_iprange` with step 1 -/
theorem iterRange_eq (hi : Nat) : ∀ (fuel lo : Nat), iterRange lo hi fuel = List.range' lo (min fuel (hi + 1 - lo)) := by
  intro fuel
  induction fuel with
  | zero => intro lo; simp [iterRange]
  | succ fuel ih =>
    intro lo
    unfold iterRange
    by_cases h : lo ≤ hi
    · simp only [h, ite_true, ih]
      have : min (fuel + 1) (hi + 1 - lo) = min fuel (hi + 1 - (lo + 1)) + 1 := by omega
      rw [this, List.range'_succ]
    · simp only [h, ite_false]
      have : min (fuel + 1) (hi + 1 - lo) = 0 := by omega
      rw [this]; rfl

theorem take_range' (m : Nat) : ∀ (s n : Nat), (List.range' s n).take m = List.range' s (min m n) := by
  induction m with
  | zero => intro s n; simp
  | succ m ih =>
    intro s n
    cases n with
    | zero => simp
    | succ n =>
      rw [List.range'_succ, List.take_succ_cons, ih]
      have : min (m + 1) (n + 1) = min m n + 1 := by omega
      rw [this, List.range'_succ]

/-- the `i`-th block of size `T` inside a run of `M` blocks stays inside the run -/
theorem block_in_run (F T M i : Nat) (hi : i < M) : F + T * i + T ≤ F + M * T := by
  have : (i + 1) * T ≤ M * T := Nat.mul_le_mul_right T hi
  rw [Nat.add_mul, Nat.one_mul, Nat.mul_comm i T] at this
  omega

/-- consecutive blocks of size `T` tile the run they make up -/
theorem run_tiles (F T M a : Nat) (hT : 0 < T) :
    (∃ i, i < M ∧ F + T * i ≤ a ∧ a < F + T * i + T) ↔ (F ≤ a ∧ a < F + M * T) := by
  constructor
  · rintro ⟨i, hi, h1, h2⟩
    have := block_in_run F T M i hi
    omega
  · rintro ⟨h1, h2⟩
    refine ⟨(a - F) / T, ?_, ?_, ?_⟩
    · rw [Nat.div_lt_iff_lt_mul hT]; omega
    · have := Nat.mul_div_le (a - F) T; omega
    · have := Nat.div_add_mod (a - F) T
      have := Nat.mod_lt (a - F) hT
      omega

end NV.Subnet
