/-
Lemmas/C01LAton.lean — the BSD shorthand readings of the modelled `inet_aton`: one to four
parts, each a C literal (decimal, octal with leading 0, hex with 0x), the last part filling the
remaining bytes.  Core Lean only.
-/
import NetaddrVerif.Lemmas.C01L4
namespace NV.C01L
open NV NV.Text4

/-- a C integer literal as `strtoul(·, ·, 0)` reads it, with its value -/
inductive IsCLit : List Char → Nat → Prop
  | dec (c : Char) (r : List Char) (hc : isDec c = true) (h0 : c ≠ '0') (hr : ∀ x ∈ r, isDec x = true) :
      IsCLit (c :: r) (ofBase 10 (c :: r))
  | oct (r : List Char) (hr : ∀ x ∈ r, isOct x = true) : IsCLit ('0' :: r) (ofBase 8 ('0' :: r))
  | hex (x : Char) (r : List Char) (hx : x = 'x' ∨ x = 'X') (hne : r ≠ []) (hr : ∀ y ∈ r, isHexC y = true) :
      IsCLit ('0' :: x :: r) (ofBase 16 r)

theorem takeWhile_self {α} (p : α → Bool) (l : List α) (h : ∀ x ∈ l, p x = true) : l.takeWhile p = l := by
  induction l with
  | nil => rfl
  | cons a t ih => simp [List.takeWhile_cons, h a (by simp), ih (fun x hx => h x (by simp [hx]))]

theorem dropWhile_nil_of_all {α} (p : α → Bool) (l : List α) (h : ∀ x ∈ l, p x = true) : l.dropWhile p = [] := by
  induction l with
  | nil => rfl
  | cons a t ih => simp [List.dropWhile_cons, h a (by simp), ih (fun x hx => h x (by simp [hx]))]

/-- what may follow a part: end of string or the dot -/
def PartEnd (rest : List Char) : Prop := rest = [] ∨ ∃ r, rest = '.' :: r

theorem span_all {p : Char → Bool} (hdot : p '.' = false) (l rest : List Char) (hl : ∀ x ∈ l, p x = true)
    (hrest : PartEnd rest) : (l ++ rest).takeWhile p = l ∧ (l ++ rest).dropWhile p = rest := by
  rcases hrest with e | ⟨r, e⟩ <;> subst e
  · simp only [List.append_nil]
    constructor
    · exact takeWhile_self p l hl
    · exact dropWhile_nil_of_all p l hl
  · exact ⟨takeWhile_all p l '.' r hl hdot, dropWhile_all p l '.' r hl hdot⟩

theorem isOct_not_x (c : Char) (h : isOct c = true) : (c == 'x' || c == 'X') = false := by
  cases hx : (c == 'x' || c == 'X') with
  | false => rfl
  | true =>
    exfalso
    simp only [Bool.or_eq_true, beq_iff_eq] at hx
    rcases hx with e | e <;> subst e <;> exact absurd h (by decide)

/-- `strtoul` reads a literal up to the end of the part -/
theorem strtoul_lit (lit : List Char) (val : Nat) (h : IsCLit lit val) (rest : List Char) (hrest : PartEnd rest) :
    strtoul (lit ++ rest) = (val, rest) := by
  cases h with
  | dec c r hc h0 hr =>
    have hall : ∀ x ∈ c :: r, isDec x = true := by
      intro x hx; rcases List.mem_cons.mp hx with e | e
      · subst e; exact hc
      · exact hr x e
    obtain ⟨e1, e2⟩ := span_all (p := isDec) (by decide) (c :: r) rest hall hrest
    have key : strtoul (c :: (r ++ rest)) =
        (ofBase 10 ((c :: (r ++ rest)).takeWhile isDec), (c :: (r ++ rest)).dropWhile isDec) := by
      unfold strtoul
      split
      · rename_i heq; injection heq with h1 _; exact absurd h1 h0
      · rename_i heq; injection heq with h1 _; exact absurd h1 h0
      · rfl
    rw [List.cons_append, key, ← List.cons_append, e1, e2]
  | oct r hr =>
    have hall : ∀ x ∈ '0' :: r, isOct x = true := by
      intro x hx; rcases List.mem_cons.mp hx with e | e
      · subst e; decide
      · exact hr x e
    obtain ⟨e1, e2⟩ := span_all (p := isOct) (by decide) ('0' :: r) rest hall hrest
    rw [List.cons_append] at e1 e2 ⊢
    cases hrr : r ++ rest with
    | nil =>
      have hr0 : r = [] := (List.append_eq_nil_iff.mp hrr).1
      have hrest0 : rest = [] := (List.append_eq_nil_iff.mp hrr).2
      subst hr0 hrest0
      simp [strtoul, ofBase, hexVal]
    | cons x r' =>
      have hx : (x == 'x' || x == 'X') = false := by
        cases r with
        | nil =>
          simp only [List.nil_append] at hrr
          rcases hrest with e | ⟨r2, e⟩
          · rw [e] at hrr; cases hrr
          · rw [e] at hrr; injection hrr with h1 _; subst h1; decide
        | cons y r2 =>
          simp only [List.cons_append] at hrr
          injection hrr with h1 _
          subst h1
          exact isOct_not_x _ (hr _ (by simp))
      rw [hrr] at e1 e2
      unfold strtoul
      simp only [hx, Bool.false_eq_true, if_false, e1, e2]
  | hex x r hx hne hr =>
    obtain ⟨e1, e2⟩ := span_all (p := isHexC) (by decide) r rest hr hrest
    have hxx : (x == 'x' || x == 'X') = true := by
      rcases hx with e | e <;> subst e <;> decide
    have hemp : r.isEmpty = false := by
      cases r with
      | nil => exact absurd rfl hne
      | cons _ _ => rfl
    show strtoul ('0' :: x :: (r ++ rest)) = _
    unfold strtoul
    simp only [hxx, if_true, e1, e2, hemp, Bool.false_eq_true, if_false]

theorem lit_head (lit : List Char) (val : Nat) (h : IsCLit lit val) (rest : List Char) :
    ∃ c tl, lit ++ rest = c :: tl ∧ isDec c = true := by
  cases h with
  | dec c r hc _ _ => exact ⟨c, r ++ rest, rfl, hc⟩
  | oct r _ => exact ⟨'0', r ++ rest, rfl, by decide⟩
  | hex x r _ _ _ => exact ⟨'0', x :: r ++ rest, rfl, by decide⟩

/-- a non-last part -/
theorem atonLoop_part (f : Nat) (lit : List Char) (val : Nat) (h : IsCLit lit val) (hv : val ≤ 255)
    (r : List Char) (parts : List Nat) (hp : parts.length < 3) :
    atonLoop (f + 1) (lit ++ '.' :: r) parts = atonLoop f r (parts ++ [val]) := by
  obtain ⟨c, tl, hs, hc⟩ := lit_head lit val h ('.' :: r)
  have hst := strtoul_lit lit val h ('.' :: r) (Or.inr ⟨r, rfl⟩)
  rw [hs] at hst ⊢
  simp only [atonLoop, hc, hst]
  have h1 : ¬ (val > 4294967295) := by omega
  have h2 : ¬ (parts.length ≥ 3) := by omega
  have h3 : ¬ (val > 255) := by omega
  simp [h1, h2, h3]

/-- a non-last part above 255 is refused -/
theorem atonLoop_part_big (f : Nat) (lit : List Char) (val : Nat) (h : IsCLit lit val) (hv : val > 255)
    (r : List Char) (parts : List Nat) : atonLoop (f + 1) (lit ++ '.' :: r) parts = none := by
  obtain ⟨c, tl, hs, hc⟩ := lit_head lit val h ('.' :: r)
  have hst := strtoul_lit lit val h ('.' :: r) (Or.inr ⟨r, rfl⟩)
  rw [hs] at hst ⊢
  simp only [atonLoop, hc, hst]
  by_cases h1 : val > 4294967295
  · simp [h1]
  · simp [h1, hv]

/-- the last part -/
theorem atonLoop_end (f : Nat) (lit : List Char) (val : Nat) (h : IsCLit lit val) (hv : val ≤ 4294967295)
    (parts : List Nat) : atonLoop (f + 1) lit parts = some (parts, val) := by
  obtain ⟨c, tl, hs, hc⟩ := lit_head lit val h []
  have hst := strtoul_lit lit val h [] (Or.inl rfl)
  rw [List.append_nil] at hs hst
  rw [hs] at hst ⊢
  simp only [atonLoop, hc, hst]
  have h1 : ¬ (val > 4294967295) := by omega
  simp [h1]

theorem lit_no_nul (lit : List Char) (val : Nat) (h : IsCLit lit val) : lit.any (fun c => c.toNat == 0) = false := by
  have hd : ∀ c, isDec c = true → (c.toNat == 0) = false := by
    intro c hc
    simp only [isDec, Bool.and_eq_true, decide_eq_true_eq] at hc
    have : 48 ≤ c.toNat := Char.le_def.mp hc.1
    exact beq_eq_false_iff_ne.mpr (by omega)
  have ho : ∀ c, isOct c = true → (c.toNat == 0) = false := by
    intro c hc
    simp only [isOct, Bool.and_eq_true, decide_eq_true_eq] at hc
    have : 48 ≤ c.toNat := Char.le_def.mp hc.1
    exact beq_eq_false_iff_ne.mpr (by omega)
  have hh : ∀ c, isHexC c = true → (c.toNat == 0) = false := by
    intro c hc
    simp only [isHexC, Bool.or_eq_true, Bool.and_eq_true, decide_eq_true_eq] at hc
    have : 48 ≤ c.toNat := by
      rcases hc with (h | h) | h
      · exact Char.le_def.mp h.1
      · have : 97 ≤ c.toNat := Char.le_def.mp h.1
        omega
      · have : 65 ≤ c.toNat := Char.le_def.mp h.1
        omega
    exact beq_eq_false_iff_ne.mpr (by omega)
  apply Bool.eq_false_iff.mpr
  intro hany
  obtain ⟨c, hc, hz⟩ := List.any_eq_true.mp hany
  cases h with
  | dec c0 r hc0 _ hr =>
    rcases List.mem_cons.mp hc with e | e
    · subst e; rw [hd _ hc0] at hz; cases hz
    · rw [hd _ (hr c e)] at hz; cases hz
  | oct r hr =>
    rcases List.mem_cons.mp hc with e | e
    · subst e; revert hz; decide
    · rw [ho _ (hr c e)] at hz; cases hz
  | hex x r hx _ hr =>
    rcases List.mem_cons.mp hc with e | e
    · subst e; revert hz; decide
    · rcases List.mem_cons.mp e with e2 | e2
      · subst e2; rcases hx with e3 | e3 <;> subst e3 <;> revert hz <;> decide
      · rw [hh _ (hr c e2)] at hz; cases hz

theorem or_low (hi x k : Nat) (hx : x < 2 ^ k) : (hi <<< k) ||| x = hi * 2 ^ k + x := by
  rw [← Nat.shiftLeft_add_eq_or_of_lt hx, Nat.shiftLeft_eq]

end NV.C01L
