/-
Lemmas/C08LSlice.lean — `EUI.__getitem__(slice)`: the words of the value under the object's own
dialect, picked at the positions `range(*slice.indices(num_words))`.  Core only.
-/
import NetaddrVerif.Lemmas.C08L
import NetaddrVerif.Lemmas.C10L
namespace NV.C08L.Slice
open NV NV.Eui NV.Codec NV.Gen

/-- word `i` (most significant first) of `v` under dialect `d`: digit `num_words-1-i` in base
    `2^word_size` -/
def wordAt (v : Nat) (d : Dialect) (i : Nat) : Nat :=
  v / 2 ^ (d.wordSize * (d.numWords - 1 - i)) % 2 ^ d.wordSize

theorem words_ok (v : Nat) (d : Dialect) (hv : v < 2 ^ (d.numWords * d.wordSize)) :
    intToWords v d.wordSize d.numWords = .ok (wordsLoop d.wordSize d.numWords v).reverse := by
  have := pow_pos2 (d.numWords * d.wordSize)
  simp only [intToWords]; rw [if_pos (by omega)]

theorem pyIndex_nonneg (xs : List Nat) (i : Int) (h : 0 ≤ i) : pyIndex xs i = xs[i.toNat]? := by
  unfold pyIndex
  simp only [show ¬ i < 0 by omega, if_false]

/-- `slice.indices` fails exactly for step 0 -/
theorem sliceIndices_none_iff (a b c : Option Int) (n : Nat) :
    Py.sliceIndices a b c n = none ↔ c = some 0 := by
  unfold Py.sliceIndices
  simp only
  constructor
  · intro h
    split at h
    · rename_i h0
      cases c with
      | none => simp at h0
      | some x => simp only [Option.getD_some] at h0; rw [h0]
    · cases h
  · intro h; subst h; simp

/-- the slice: the words at the positions of the range, in the order of the range -/
theorem getSlice_ok (v : Nat) (d : Dialect) (hv : v < 2 ^ (d.numWords * d.wordSize)) (a b c : Option Int)
    (s e st : Int) (h : Py.sliceIndices a b c d.numWords = some (s, e, st)) :
    getSlice v d a b c = .ok ((Py.pyRange s e st).map (fun i => wordAt v d i.toNat)) := by
  have hlen : (wordsLoop d.wordSize d.numWords v).reverse.length = d.numWords := by simp [wordsLoop_length]
  unfold getSlice
  rw [words_ok v d hv]
  simp only [bind, Except.bind, hlen, h]
  apply ListLike.mapM_ok
  intro i hi
  obtain ⟨h0, h1⟩ := ListLike.sliceIdx_in_range a b c d.numWords s e st h i hi
  have hlt : i.toNat < d.numWords := by omega
  rw [pyIndex_nonneg _ i h0, beWords_get _ _ _ _ hlt]
  rfl

theorem getSlice_step0 (v : Nat) (d : Dialect) (hv : v < 2 ^ (d.numWords * d.wordSize)) (a b : Option Int) :
    getSlice v d a b (some 0) = .error .value := by
  have hlen : (wordsLoop d.wordSize d.numWords v).reverse.length = d.numWords := by simp [wordsLoop_length]
  unfold getSlice
  rw [words_ok v d hv]
  simp only [bind, Except.bind, hlen, (sliceIndices_none_iff a b (some 0) d.numWords).2 rfl]

/-- `range(0, n, 1)` -/
theorem pyRange_up (n : Nat) : Py.pyRange 0 (n : Int) 1 = (List.range n).map (fun (i : Nat) => (i : Int)) := by
  unfold Py.pyRange
  simp only [show (1 : Int) > 0 by decide, if_true]
  by_cases hn : n = 0
  · subst hn; simp
  · rw [if_neg (by omega)]
    have : (((n : Int) - 0 + 1 - 1) / 1).toNat = n := by simp
    rw [this]
    apply List.map_congr_left
    intro i _; omega

/-- `range(n-1, -1, -1)` -/
theorem pyRange_down (n : Nat) :
    Py.pyRange ((n : Int) - 1) (-1) (-1) = (List.range n).map (fun (i : Nat) => (n : Int) - 1 - (i : Int)) := by
  unfold Py.pyRange
  simp only [show ¬ ((-1 : Int) > 0) by decide, if_false, show (-1 : Int) < 0 by decide, if_true]
  by_cases hn : n = 0
  · subst hn; simp
  · rw [if_neg (by omega)]
    have : (((n : Int) - 1 - -1 + - -1 - 1) / - -1).toNat = n := by
      have : (n : Int) - 1 - -1 + - -1 - 1 = n := by omega
      rw [this]; simp
    rw [this]
    apply List.map_congr_left
    intro i _; omega

/-- the words of `v`, most significant first, as the list of `wordAt` -/
theorem words_eq_map (v : Nat) (d : Dialect) :
    (wordsLoop d.wordSize d.numWords v).reverse = (List.range d.numWords).map (wordAt v d) := by
  apply List.ext_getElem?
  intro i
  by_cases hi : i < d.numWords
  · rw [beWords_get _ _ _ _ hi]
    simp [hi, wordAt]
  · have h1 : (wordsLoop d.wordSize d.numWords v).reverse.length ≤ i := by simp [wordsLoop_length]; omega
    have h2 : ((List.range d.numWords).map (wordAt v d)).length ≤ i := by simp; omega
    rw [List.getElem?_eq_none h1, List.getElem?_eq_none h2]

/-- `e[:]` is the whole word list -/
theorem getSlice_all (v : Nat) (d : Dialect) (hv : v < 2 ^ (d.numWords * d.wordSize)) :
    getSlice v d none none none = intToWords v d.wordSize d.numWords := by
  have h : Py.sliceIndices none none none d.numWords = some (0, (d.numWords : Int), 1) := by
    simp [Py.sliceIndices]
  rw [getSlice_ok v d hv none none none _ _ _ h, words_ok v d hv, words_eq_map, pyRange_up]
  simp [List.map_map, Function.comp_def]

/-- `e[::-1]` is the reversed word list -/
theorem getSlice_rev (v : Nat) (d : Dialect) (hv : v < 2 ^ (d.numWords * d.wordSize)) :
    getSlice v d none none (some (-1)) = (intToWords v d.wordSize d.numWords).map List.reverse := by
  have h : Py.sliceIndices none none (some (-1)) d.numWords = some ((d.numWords : Int) - 1, -1, -1) := by
    simp [Py.sliceIndices]
  rw [getSlice_ok v d hv none none (some (-1)) _ _ _ h, words_ok v d hv, words_eq_map, pyRange_down]
  simp only [Except.map, List.map_map, Function.comp_def]
  congr 1
  apply List.ext_getElem?
  intro i
  by_cases hi : i < d.numWords
  · have hlen : ((List.range d.numWords).map (wordAt v d)).length = d.numWords := by simp
    rw [List.getElem?_reverse (by rw [hlen]; exact hi), hlen]
    simp only [List.getElem?_map, List.getElem?_range hi, Option.map_some]
    rw [List.getElem?_range (by omega)]
    simp only [Option.map_some]
    congr 2
    omega
  · have h1 : ((List.range d.numWords).map (fun (x : Nat) => wordAt v d ((d.numWords : Int) - 1 - (x : Int)).toNat)).length ≤ i := by
      simp; omega
    have h2 : ((List.range d.numWords).map (wordAt v d)).reverse.length ≤ i := by simp; omega
    rw [List.getElem?_eq_none h1, List.getElem?_eq_none h2]

end NV.C08L.Slice
