/-
Lemmas/C03LAcc.lean — acceptance lemmas for C03: what the pieces of `parse_ip_network` accept,
stated without the generated tables and without the try/except plumbing.

* strict-mode `IPAddress(t, version, INET_PTON)` on a '/'-free text = the family's `inet_pton`;
* `expand_partial_address` restated over `t.split('.')` and `int()`;
* the IPv4 address part (strict, else partial expansion) as one function `addr4Spec`;
* the prefix part (`PrefixPart`): numeral, netmask text, hostmask text - the dictionary lookups
  replaced by the mask equations.
Core Lean only.
-/
import NetaddrVerif.Props.C03
namespace NV.C03L.Acc
open NV NV.Text4 NV.AddrParse NV.NetParse NV.C01L NV.C03L

/-! ### small list facts -/

theorem mapM_map {α β γ} (f : α → Option β) (g : β → γ) (l : List α) :
    l.mapM (fun o => (f o).map g) = (l.mapM f).map (List.map g) := by
  induction l with
  | nil => simp
  | cons a t ih =>
    rw [List.mapM_cons, List.mapM_cons, ih]
    cases f a with
    | none => simp
    | some b =>
      cases t.mapM f with
      | none => simp
      | some r => simp

theorem mapM_length {α β} (f : α → Option β) (l : List α) (r : List β) (h : l.mapM f = some r) :
    r.length = l.length := by
  induction l generalizing r with
  | nil => simp at h; subst h; rfl
  | cons a t ih =>
    rw [List.mapM_cons] at h
    cases ha : f a with
    | none => simp [ha] at h
    | some b =>
      cases ht : t.mapM f with
      | none => simp [ha, ht] at h
      | some r' =>
        simp [ha, ht] at h
        subst h
        simp [ih r' ht]

theorem mapM_append {α β} (f : α → Option β) (l₁ l₂ : List α) (r₁ r₂ : List β)
    (h₁ : l₁.mapM f = some r₁) (h₂ : l₂.mapM f = some r₂) : (l₁ ++ l₂).mapM f = some (r₁ ++ r₂) := by
  induction l₁ generalizing r₁ with
  | nil => simp at h₁; subst h₁; simpa using h₂
  | cons a t ih =>
    rw [List.mapM_cons] at h₁
    cases ha : f a with
    | none => simp [ha] at h₁
    | some b =>
      cases ht : t.mapM f with
      | none => simp [ha, ht] at h₁
      | some r' =>
        simp [ha, ht] at h₁
        subst h₁
        rw [List.cons_append, List.mapM_cons, ih r' ht]
        simp [ha]

theorem mapM_append_none {α β} (f : α → Option β) (l₁ l₂ : List α) (h₁ : l₁.mapM f = none) :
    (l₁ ++ l₂).mapM f = none := by
  induction l₁ with
  | nil => simp at h₁
  | cons a t ih =>
    rw [List.mapM_cons] at h₁
    rw [List.cons_append, List.mapM_cons]
    cases ha : f a with
    | none => simp
    | some b =>
      cases ht : t.mapM f with
      | none => simp [ih ht]
      | some r' => simp [ha, ht] at h₁

/-- the pieces of `s.split(sep)` do not contain `sep` -/
theorem not_mem_splitOn (sep : Char) (s : List Char) : ∀ t ∈ s.splitOn sep, sep ∉ t := by
  induction s with
  | nil => intro t ht; simp at ht; subst ht; simp
  | cons x xs ih =>
    intro t ht
    rw [List.splitOn_cons_eq_if_modifyHead] at ht
    by_cases hx : (x == sep) = true
    · simp only [hx, if_true, List.mem_cons] at ht
      rcases ht with e | e
      · subst e; simp
      · exact ih t e
    · simp only [hx, Bool.false_eq_true, if_false] at ht
      have hne := List.splitOn_ne_nil sep xs
      generalize xs.splitOn sep = ls at ht ih hne
      cases ls with
      | nil => exact absurd rfl hne
      | cons h r =>
        simp only [List.modifyHead_cons, List.mem_cons] at ht
        rcases ht with e | e
        · subst e
          intro hm
          rcases List.mem_cons.mp hm with e' | e'
          · subst e'; simp at hx
          · exact ih h (by simp) e'
        · exact ih t (by simp [e])

theorem splitOn_single (sep : Char) (s : List Char) (h : sep ∉ s) : s.splitOn sep = [s] :=
  List.splitOn_eq_singleton h

/-! ### `int()` refuses '/' ; strict addresses are no numerals -/

theorem pyInt_slash (s : List Char) (h : '/' ∈ s) : Py.pyInt 10 s = none :=
  pyInt_bad '/' (by decide) (by decide) (by decide) (by decide) (by decide) s h

theorem pyInt_some_clean (s : List Char) (i : Int) (h : Py.pyInt 10 s = some i) :
    '.' ∉ s ∧ ':' ∉ s ∧ '/' ∉ s := by
  refine ⟨?_, ?_, ?_⟩ <;> intro hm
  · rw [pyInt_dot s hm] at h; cases h
  · rw [pyInt_colon s hm] at h; cases h
  · rw [pyInt_slash s hm] at h; cases h

/-- strict-mode `IPAddress(x, 4, INET_PTON)` on a '/'-free text is `inet_pton(AF_INET, x)` -/
theorem ipAddress4_strict (be : Backend) (x : List Char) (hx : x.contains '/' = false) :
    ipAddress be x (some 4) INET_PTON =
      match inetPton4 be x with | some v => .ok ⟨4, v⟩ | none => .error .addrFormat := by
  have hv4 : ¬ ((4 : Nat) ≠ 4 ∧ (4 : Nat) ≠ 6) := by decide
  have hpt : hasFlag INET_PTON INET_PTON = true := by decide
  have hzf : hasFlag INET_PTON ZEROFILL = false := by decide
  simp only [ipAddress, hv4, if_false, hx, Bool.false_eq_true, strToInt, if_true, strToInt4, hpt, hzf]
  cases inetPton4 be x <;> rfl

theorem ipAddress6_strict (be : Backend) (x : List Char) (hx : x.contains '/' = false) :
    ipAddress be x (some 6) INET_PTON =
      match inetPton6 be x with | some v => .ok ⟨6, v⟩ | none => .error .addrFormat := by
  have hv6 : ¬ ((6 : Nat) ≠ 4 ∧ (6 : Nat) ≠ 6) := by decide
  have h64 : ¬ ((6 : Nat) = 4) := by decide
  simp only [ipAddress, hv6, if_false, hx, Bool.false_eq_true, strToInt, h64, strToInt6]
  cases inetPton6 be x <;> rfl

/-- strict IPv4 acceptance = being the printed form -/
theorem ipAddress4_ok_iff (be : Backend) (x : List Char) (hx : x.contains '/' = false) (a : Addr) :
    ipAddress be x (some 4) INET_PTON = .ok a ↔ a.ver = 4 ∧ a.val < 2 ^ 32 ∧ x = ntoa a.val := by
  rw [ipAddress4_strict be x hx]
  cases hp : inetPton4 be x with
  | none =>
    constructor
    · intro h; cases h
    · rintro ⟨_, h2, h3⟩
      have := (C01.strict4_iff be x a.val).mpr ⟨h2, h3⟩
      rw [hp] at this; cases this
  | some v =>
    have hv := (C01.strict4_iff be x v).mp hp
    constructor
    · intro h
      simp only [Except.ok.injEq] at h
      subst h
      exact ⟨rfl, hv.1, hv.2⟩
    · rintro ⟨h1, h2, h3⟩
      have := (C01.strict4_iff be x a.val).mpr ⟨h2, h3⟩
      rw [hp] at this
      cases this
      obtain ⟨av, aval⟩ := a
      simp only at h1
      subst h1
      rfl

/-- a text that strict IPv6 parsing accepts contains ':' -/
theorem colon_of_strict6 (be : Backend) (x : List Char) (a : Addr)
    (h : ipAddress be x (some 6) INET_PTON = .ok a) : ':' ∈ x := by
  apply Classical.byContradiction
  intro hn
  have hp : inetPton6 be x = none := by rw [inetPton6_eq]; exact C01.pton6_no_colon x hn
  have hv6 : ¬ ((6 : Nat) ≠ 4 ∧ (6 : Nat) ≠ 6) := by decide
  have h64 : ¬ ((6 : Nat) = 4) := by decide
  unfold ipAddress at h
  simp only [hv6, if_false] at h
  split at h
  · cases h
  · simp only [strToInt, h64, if_false, strToInt6, hp] at h
    cases h

/-- a text without ':' is no strict IPv6 address -/
theorem strict6_nocolon (be : Backend) (x : List Char) (hx : x.contains '/' = false) (hc : ':' ∉ x) :
    ipAddress be x (some 6) INET_PTON = .error .addrFormat := by
  rw [ipAddress6_strict be x hx]
  have hp : inetPton6 be x = none := by rw [inetPton6_eq]; exact C01.pton6_no_colon x hc
  rw [hp]

/-- `int()` refuses whatever strict address parsing accepts -/
theorem strict_pyInt_none (be : Backend) (ver : Nat) (hver : VerOK ver) (t : List Char) (a : Addr)
    (h : ipAddress be t (some ver) INET_PTON = .ok a) : Py.pyInt 10 t = none := by
  have hns : t.contains '/' = false := by
    cases hc : t.contains '/' with
    | false => rfl
    | true =>
      have := C01.slash_refused be t INET_PTON hc
      rcases hver with e | e <;> subst e
      · rw [this.2.1] at h; cases h
      · rw [this.2.2] at h; cases h
  rcases hver with e | e <;> subst e
  · obtain ⟨_, _, hx⟩ := (ipAddress4_ok_iff be t hns a).mp h
    rw [hx]; exact pyInt_dot _ (addr4_dot _)
  · exact pyInt_colon _ (colon_of_strict6 be t a h)

/-! ### `expand_partial_address` over `split('.')` and `int()` -/

/-- `expand_partial_address(x)`: no ':' ; every piece of `x.split('.')` is read by `int()`; at
    most four pieces; printed back with `'%d'` and padded with "0" octets. -/
theorem expand_eq (x : List Char) :
    expandPartialAddress x =
      if x.contains ':' then .error .addrFormat else
      match (x.splitOn '.').mapM (Py.pyInt 10) with
      | none => .error .addrFormat
      | some ns =>
        if ns.length ≤ 4 then .ok (['.'].intercalate (ns.map showInt ++ List.replicate (4 - ns.length) ['0']))
        else .error .addrFormat := by
  unfold expandPartialAddress
  by_cases hc : x.contains ':' = true
  · simp only [hc, if_true]
  · simp only [hc, Bool.false_eq_true, if_false]
    have htok : (if x.contains '.' = true then (x.splitOn '.').mapM (fun o => (Py.pyInt 10 o).map showInt)
        else (Py.pyInt 10 x).map (fun i => [showInt i])) = ((x.splitOn '.').mapM (Py.pyInt 10)).map (List.map showInt) := by
      by_cases hd : x.contains '.' = true
      · simp only [hd, if_true]; exact mapM_map _ _ _
      · have hd' : '.' ∉ x := by
          intro hm; exact hd (List.contains_iff_mem.mpr hm)
        simp only [hd, Bool.false_eq_true, if_false, splitOn_single '.' x hd', List.mapM_cons, List.mapM_nil]
        cases Py.pyInt 10 x <;> simp
    rw [htok]
    cases hm : (x.splitOn '.').mapM (Py.pyInt 10) with
    | none => rfl
    | some ns =>
      have hl := mapM_length _ _ _ hm
      have hpos : 1 ≤ (x.splitOn '.').length := by
        have := List.splitOn_ne_nil '.' x
        cases hh : x.splitOn '.' with
        | nil => exact absurd hh this
        | cons _ _ => simp
      simp only [Option.map_some, List.length_map]
      by_cases h4 : ns.length ≤ 4
      · have : 1 ≤ ns.length ∧ ns.length ≤ 4 := ⟨by omega, h4⟩
        rw [if_pos this, if_pos h4]
      · have : ¬ (1 ≤ ns.length ∧ ns.length ≤ 4) := fun h => h4 h.2
        rw [if_neg this, if_neg h4]

/-- the value of up to four octets, missing ones zero -/
def quadVal (ns : List Int) : Nat :=
  (ns.getD 0 0).toNat * 16777216 + (ns.getD 1 0).toNat * 65536 + (ns.getD 2 0).toNat * 256 + (ns.getD 3 0).toNat

def InRange (ns : List Int) : Prop := ∀ n ∈ ns, 0 ≤ n ∧ n ≤ 255

instance (ns : List Int) : Decidable (InRange ns) := by unfold InRange; infer_instance

theorem ntoa_octs (o0 o1 o2 o3 : Nat) (_h0 : o0 < 256) (h1 : o1 < 256) (h2 : o2 < 256) (h3 : o3 < 256) :
    ntoa (o0 * 16777216 + o1 * 65536 + o2 * 256 + o3) = ['.'].intercalate [dec o0, dec o1, dec o2, dec o3] := by
  rw [ntoa_eq]
  have e0 : (o0 * 16777216 + o1 * 65536 + o2 * 256 + o3) / 16777216 = o0 := by omega
  have e1 : (o0 * 16777216 + o1 * 65536 + o2 * 256 + o3) / 65536 % 256 = o1 := by omega
  have e2 : (o0 * 16777216 + o1 * 65536 + o2 * 256 + o3) / 256 % 256 = o2 := by omega
  have e3 : (o0 * 16777216 + o1 * 65536 + o2 * 256 + o3) % 256 = o3 := by omega
  rw [e0, e1, e2, e3]

theorem showInt_of_range (n : Int) (h : 0 ≤ n ∧ n ≤ 255) : showInt n = dec n.toNat ∧ n.toNat < 256 := by
  have : n = (n.toNat : Int) := by omega
  constructor
  · conv => lhs; rw [this]
    exact showInt_nat _
  · omega

/-- in-range octets print to the canonical dotted quad of their value -/
theorem join_in_range (ns : List Int) (hne : ns ≠ []) (hlen : ns.length ≤ 4) (hr : InRange ns) :
    ['.'].intercalate (ns.map showInt ++ List.replicate (4 - ns.length) ['0']) = ntoa (quadVal ns) ∧
      quadVal ns < 2 ^ 32 := by
  have d0 : dec 0 = ['0'] := by decide
  match ns, hne, hlen, hr with
  | [a], _, _, hr =>
    obtain ⟨sa, la⟩ := showInt_of_range a (hr a (by simp))
    have := ntoa_octs a.toNat 0 0 0 la (by decide) (by decide) (by decide)
    simp only [quadVal, List.getD_cons_zero, List.getD_cons_succ, List.getD_nil, Int.toNat_zero, Nat.zero_mul, Nat.add_zero]
    simp only [Nat.zero_mul, Nat.add_zero] at this
    refine ⟨?_, by omega⟩
    rw [this, d0]; simp [sa]
  | [a, b], _, _, hr =>
    obtain ⟨sa, la⟩ := showInt_of_range a (hr a (by simp))
    obtain ⟨sb, lb⟩ := showInt_of_range b (hr b (by simp))
    have := ntoa_octs a.toNat b.toNat 0 0 la lb (by decide) (by decide)
    simp only [quadVal, List.getD_cons_zero, List.getD_cons_succ, List.getD_nil, Int.toNat_zero, Nat.zero_mul, Nat.add_zero]
    simp only [Nat.zero_mul, Nat.add_zero] at this
    refine ⟨?_, by omega⟩
    rw [this, d0]; simp [sa, sb]
  | [a, b, c], _, _, hr =>
    obtain ⟨sa, la⟩ := showInt_of_range a (hr a (by simp))
    obtain ⟨sb, lb⟩ := showInt_of_range b (hr b (by simp))
    obtain ⟨sc, lc⟩ := showInt_of_range c (hr c (by simp))
    have := ntoa_octs a.toNat b.toNat c.toNat 0 la lb lc (by decide)
    simp only [quadVal, List.getD_cons_zero, List.getD_cons_succ, List.getD_nil, Int.toNat_zero, Nat.add_zero]
    simp only [Nat.add_zero] at this
    refine ⟨?_, by omega⟩
    rw [this, d0]; simp [sa, sb, sc]
  | [a, b, c, d], _, _, hr =>
    obtain ⟨sa, la⟩ := showInt_of_range a (hr a (by simp))
    obtain ⟨sb, lb⟩ := showInt_of_range b (hr b (by simp))
    obtain ⟨sc, lc⟩ := showInt_of_range c (hr c (by simp))
    obtain ⟨sd, ld⟩ := showInt_of_range d (hr d (by simp))
    have := ntoa_octs a.toNat b.toNat c.toNat d.toNat la lb lc ld
    simp only [quadVal, List.getD_cons_zero, List.getD_cons_succ]
    refine ⟨?_, by omega⟩
    rw [this]; simp [sa, sb, sc, sd]
  | _ :: _ :: _ :: _ :: _ :: _, _, hlen, _ => simp at hlen

theorem showInt_nodot (i : Int) : '.' ∉ showInt i := by
  unfold showInt
  split
  · intro h
    rcases List.mem_cons.mp h with e | e
    · exact absurd e (by decide)
    · exact dot_not_in_dec _ e
  · exact dot_not_in_dec _

/-- `'%d' % n` is a canonical octet numeral only for `n` itself -/
theorem showInt_eq_dec (n : Int) (o : Nat) (h : showInt n = dec o) : n = (o : Int) := by
  unfold showInt at h
  split at h
  · exfalso
    have hm : '-' ∈ dec o := by rw [← h]; simp
    have := (dec_decCh o _ hm).2.2.1
    simp at this
  · rename_i hn
    have e : Nat.ofDigitChars 10 (dec n.toNat) 0 = Nat.ofDigitChars 10 (dec o) 0 := by rw [h]
    unfold dec at e
    rw [Nat.ofDigitChars_toDigits (by decide) (by decide), Nat.ofDigitChars_toDigits (by decide) (by decide)] at e
    omega

/-- an out-of-range octet makes the expanded text unacceptable to strict parsing -/
theorem join_out_of_range (be : Backend) (ns : List Int) (hne : ns ≠ []) (hlen : ns.length ≤ 4) (hr : ¬ InRange ns) :
    inetPton4 be (['.'].intercalate (ns.map showInt ++ List.replicate (4 - ns.length) ['0'])) = none := by
  cases hp : inetPton4 be (['.'].intercalate (ns.map showInt ++ List.replicate (4 - ns.length) ['0'])) with
  | none => rfl
  | some a =>
    exfalso
    obtain ⟨ha, htxt⟩ := (C01.strict4_iff be _ a).mp hp
    have hsp : List.splitOn '.' (['.'].intercalate (ns.map showInt ++ List.replicate (4 - ns.length) ['0'])) =
        List.splitOn '.' (ntoa a) := by rw [← htxt]
    rw [split_ntoa a ha, List.splitOn_intercalate] at hsp
    · apply hr
      intro n hn
      obtain ⟨h0, h1, h2, h3⟩ := octs_lt a ha
      have hmem : showInt n ∈ ns.map showInt ++ List.replicate (4 - ns.length) ['0'] :=
        List.mem_append_left _ (List.mem_map_of_mem hn)
      rw [hsp] at hmem
      simp only [List.mem_cons, List.not_mem_nil, or_false] at hmem
      rcases hmem with e | e | e | e <;> have := showInt_eq_dec n _ e <;> omega
    · intro l hl
      rcases List.mem_append.mp hl with e | e
      · obtain ⟨n, _, rfl⟩ := List.mem_map.mp e
        exact showInt_nodot n
      · rw [(List.mem_replicate.mp e).2]; decide
    · cases ns with
      | nil => exact absurd rfl hne
      | cons _ _ => simp

/-! ### the address part of a network string -/

/-- the address of `parse_ip_network`'s string branch: strict parse, else (IPv4 only) the partial
    expansion parsed strictly -/
def addrOf (be : Backend) (ver : Nat) (val1 : List Char) : R Addr :=
  match ipAddress be val1 (some ver) INET_PTON with
  | .ok a => .ok a
  | .error .addrFormat =>
    if ver = 4 then
      match expandPartialAddress val1 with
      | .ok expanded => ipAddress be expanded (some ver) INET_PTON
      | .error e => .error e
    else .error .addrFormat
  | .error e => .error e

theorem parseStrCore_eq (be : Backend) (ver : Nat) (val1 : List Char) (val2 : Option (List Char)) (flags : Nat) :
    parseStrCore be ver val1 val2 flags =
      match addrOf be ver val1 with
      | .error e => .error e
      | .ok a =>
        match resolvePrefix be ver val2 with
        | .error e => .error e
        | .ok prefixlen =>
          if ¬ (0 ≤ prefixlen ∧ prefixlen ≤ (width ver : Int)) then .error .addrFormat
          else applyNohost ver flags a.val prefixlen.toNat := rfl

/-- the IPv4 address part as one function of the text: `None` = AddrFormatError.
    No ':' ; the pieces of `split('.')` all readable by `int()`; at most four of them; every
    value in 0..255; missing octets are zero. -/
def addr4Spec (x : List Char) : Option Nat :=
  if x.contains ':' then none else
  match (x.splitOn '.').mapM (Py.pyInt 10) with
  | none => none
  | some ns => if ns.length ≤ 4 ∧ InRange ns then some (quadVal ns) else none

theorem addr4Spec_ntoa (v : Nat) (hv : v < 2 ^ 32) : addr4Spec (ntoa v) = some v := by
  obtain ⟨h0, h1, h2, h3⟩ := octs_lt v hv
  have hc : (ntoa v).contains ':' = false := contains_false_of_not_mem (colon_not_in_ntoa v hv)
  unfold addr4Spec
  rw [hc, split_ntoa v hv]
  simp only [Bool.false_eq_true, if_false, List.mapM_cons, List.mapM_nil, pyInt_dec, Option.bind_eq_bind, Option.bind_some,
    Option.pure_def]
  have hr : InRange [((v / 16777216 : Nat) : Int), ((v / 65536 % 256 : Nat) : Int), ((v / 256 % 256 : Nat) : Int), ((v % 256 : Nat) : Int)] := by
    intro n hn
    simp only [List.mem_cons, List.not_mem_nil, or_false] at hn
    rcases hn with e | e | e | e <;> subst e <;> omega
  have hq : quadVal [((v / 16777216 : Nat) : Int), ((v / 65536 % 256 : Nat) : Int), ((v / 256 % 256 : Nat) : Int), ((v % 256 : Nat) : Int)] = v := by
    simp only [quadVal, List.getD_cons_zero, List.getD_cons_succ, Int.toNat_natCast]
    exact octs_sum v
  have hl : [((v / 16777216 : Nat) : Int), ((v / 65536 % 256 : Nat) : Int), ((v / 256 % 256 : Nat) : Int), ((v % 256 : Nat) : Int)].length ≤ 4 := by simp
  rw [if_pos ⟨hl, hr⟩, hq]

/-- **The IPv4 address part.**  `IPAddress(x, 4, INET_PTON)`, and on failure
    `IPAddress(expand_partial_address(x), 4, INET_PTON)`, is `addr4Spec x`. -/
theorem addr4_eq (be : Backend) (x : List Char) (hx : x.contains '/' = false) :
    addrOf be 4 x = match addr4Spec x with | some a => .ok ⟨4, a⟩ | none => .error .addrFormat := by
  unfold addrOf
  rw [ipAddress4_strict be x hx]
  cases hp : inetPton4 be x with
  | some v =>
    obtain ⟨hv, hxe⟩ := (C01.strict4_iff be x v).mp hp
    rw [hxe, addr4Spec_ntoa v hv]
  | none =>
    simp only [if_true]
    cases hex : expandPartialAddress x with
    | error e =>
      rw [expand_eq] at hex
      unfold addr4Spec
      by_cases hc : x.contains ':' = true
      · simp only [hc, if_true] at hex ⊢; cases hex; rfl
      · simp only [hc, Bool.false_eq_true, if_false] at hex ⊢
        cases hm : (x.splitOn '.').mapM (Py.pyInt 10) with
        | none => simp only [hm] at hex ⊢; cases hex; rfl
        | some ns =>
          simp only [hm] at hex ⊢
          by_cases h4 : ns.length ≤ 4
          · rw [if_pos h4] at hex; cases hex
          · rw [if_neg h4] at hex; cases hex
            have : ¬ (ns.length ≤ 4 ∧ InRange ns) := fun h => h4 h.1
            rw [if_neg this]
    | ok e =>
      have hens := expand_noslash x e hex
      rw [expand_eq] at hex
      unfold addr4Spec
      by_cases hc : x.contains ':' = true
      · simp only [hc, if_true] at hex; cases hex
      · simp only [hc, Bool.false_eq_true, if_false] at hex ⊢
        cases hm : (x.splitOn '.').mapM (Py.pyInt 10) with
        | none => simp only [hm] at hex; cases hex
        | some ns =>
          simp only [hm] at hex ⊢
          have hne : ns ≠ [] := by
            have hl := mapM_length _ _ _ hm
            have := List.splitOn_ne_nil '.' x
            intro e0; subst e0
            cases hh : x.splitOn '.' with
            | nil => exact this hh
            | cons _ _ => rw [hh] at hl; simp at hl
          by_cases h4 : ns.length ≤ 4
          · rw [if_pos h4] at hex
            simp only [Except.ok.injEq] at hex
            subst hex
            rw [ipAddress4_strict be _ hens]
            by_cases hr : InRange ns
            · obtain ⟨hj, hq⟩ := join_in_range ns hne h4 hr
              rw [if_pos ⟨h4, hr⟩, hj, (C01.strict4_iff be _ _).mpr ⟨hq, rfl⟩]
            · have : ¬ (ns.length ≤ 4 ∧ InRange ns) := fun h => hr h.2
              rw [if_neg this, join_out_of_range be ns hne h4 hr]
          · rw [if_neg h4] at hex; cases hex

/-! ### the prefix part -/

/-- the generated tables and the mask predicates at prefix `p`, unpacked -/
theorem mask_facts (ver : Nat) (hver : VerOK ver) (p : Nat) (hp : p ≤ width ver) :
    netNetmask (width ver) p < 2 ^ width ver ∧ netHostmask (width ver) p < 2 ^ width ver ∧
    isNetmask (width ver) (netNetmask (width ver) p) = true ∧ isHostmask (netHostmask (width ver) p) = true ∧
    ((p = 0 ∨ p = width ver) ∨ isNetmask (width ver) (netHostmask (width ver) p) = false) ∧
    (netmaskToPrefix ver).lookup (netNetmask (width ver) p) = some p ∧
    (hostmaskToPrefix ver).lookup (netHostmask (width ver) p) = some p ∧
    isNetmask (width ver) (netHostmask (width ver) 0) = true ∧
    isNetmask (width ver) (netHostmask (width ver) (width ver)) = true := by
  have hf := maskFacts_all ver hver p hp
  simp only [maskFacts, Bool.and_eq_true, Bool.or_eq_true, decide_eq_true_eq, beq_iff_eq, Bool.not_eq_true'] at hf
  obtain ⟨⟨⟨⟨⟨⟨⟨⟨⟨⟨⟨hnm, hhm⟩, hisn⟩, hish⟩, hnoth⟩, hlkn⟩, hlkh⟩, _⟩, _⟩, _⟩, hisn0⟩, hisnw⟩ := hf
  exact ⟨hnm, hhm, hisn, hish, hnoth, hlkn, hlkh, hisn0, hisnw⟩

/-- whatever `is_hostmask` accepts below `2^width` is the hostmask of some prefix -/
theorem hostmask_of_isHostmask (w m : Nat) (hm : m < 2 ^ w) (h : isHostmask m = true) :
    ∃ p, p ≤ w ∧ m = netHostmask w p := by
  obtain ⟨k, rfl⟩ := (C02.isHostmask_iff m).mp h
  have hk : k ≤ w := by
    apply Nat.le_of_not_lt
    intro hlt
    have : 2 ^ (w + 1) ≤ 2 ^ k := Nat.pow_le_pow_right (by decide) hlt
    have h2 : 2 ^ (w + 1) = 2 * 2 ^ w := by rw [Nat.pow_succ]; omega
    have := Nat.pos_of_ne_zero (show 2 ^ w ≠ 0 by simp)
    omega
  refine ⟨w - k, by omega, ?_⟩
  unfold netHostmask
  rw [Nat.one_shiftLeft]
  congr 2; omega

/-- what the prefix part of a network string may be and the prefix length it denotes:
    absent (full width); a numeral `int()` reads; the strict-mode text of the netmask of `p`;
    the strict-mode text of the hostmask of `p` for `0 < p < width` (the all-ones and all-zeros
    masks are netmasks first). -/
def PrefixPart (be : Backend) (ver : Nat) (val2 : Option (List Char)) (q : Int) : Prop :=
  match val2 with
  | none => q = (width ver : Int)
  | some t => Py.pyInt 10 t = some q ∨
      ∃ m p : Nat, ipAddress be t (some ver) INET_PTON = .ok ⟨ver, m⟩ ∧ p ≤ width ver ∧ q = (p : Int) ∧
        (m = netNetmask (width ver) p ∨ (m = netHostmask (width ver) p ∧ 0 < p ∧ p < width ver))

/-- **The prefix part.**  `int(val2)`, else netmask / hostmask dictionary lookup, yields `q`
    exactly when `PrefixPart` says so. -/
theorem resolvePrefix_iff (be : Backend) (ver : Nat) (hver : VerOK ver) (val2 : Option (List Char)) (q : Int) :
    resolvePrefix be ver val2 = .ok q ↔ PrefixPart be ver val2 q := by
  cases val2 with
  | none =>
    simp only [resolvePrefix, PrefixPart, Except.ok.injEq]
    exact eq_comm
  | some t =>
    simp only [PrefixPart]
    constructor
    · intro h
      unfold resolvePrefix at h
      simp only at h
      cases hpi : Py.pyInt 10 t with
      | some i => simp only [hpi, Except.ok.injEq] at h; subst h; exact Or.inl rfl
      | none =>
        right
        simp only [hpi] at h
        cases hip : ipAddress be t (some ver) INET_PTON with
        | error e => simp only [hip] at h; cases h
        | ok mask =>
          simp only [hip] at h
          obtain ⟨hmv, hlt⟩ := ipAddress_ok_lt be t ver hver mask hip
          obtain ⟨mv, m⟩ := mask
          simp only at hmv hlt h
          subst hmv
          by_cases hn : isNetmask (width mv) m = true
          · obtain ⟨p, hp, hmp⟩ := (C02.isNetmask_iff (width mv) m hlt).mp hn
            obtain ⟨_, _, _, _, _, hlkn, _⟩ := mask_facts mv hver p hp
            rw [hn, if_pos rfl, hmp, hlkn] at h
            simp only [Except.ok.injEq] at h
            exact ⟨m, p, rfl, hp, h.symm, Or.inl hmp⟩
          · have hn' : isNetmask (width mv) m = false := by
              cases hh : isNetmask (width mv) m with
              | true => exact absurd hh hn
              | false => rfl
            by_cases hh : isHostmask m = true
            · obtain ⟨p, hp, hmp⟩ := hostmask_of_isHostmask (width mv) m hlt hh
              obtain ⟨_, _, _, _, _, _, hlkh, hisn0, hisnw⟩ := mask_facts mv hver p hp
              rw [hn', hh, hmp, hlkh] at h
              simp only [Bool.false_eq_true, if_false, if_true, Except.ok.injEq] at h
              refine ⟨m, p, rfl, hp, h.symm, Or.inr ⟨hmp, ?_, ?_⟩⟩
              · apply Nat.pos_of_ne_zero
                intro e; subst e
                rw [hmp, hisn0] at hn'; cases hn'
              · apply Nat.lt_of_le_of_ne hp
                intro e; subst e
                rw [hmp, hisnw] at hn'; cases hn'
            · rw [hn'] at h
              simp only [Bool.false_eq_true, if_false, hh] at h
              cases h
    · intro h
      rcases h with h | ⟨m, p, hip, hp, hq, hm⟩
      · simp only [resolvePrefix, h]
      · have hpi := strict_pyInt_none be ver hver t _ hip
        obtain ⟨_, _, hisn, hish, hnoth, hlkn, hlkh, _, _⟩ := mask_facts ver hver p hp
        unfold resolvePrefix
        simp only [hpi, hip]
        rcases hm with e | ⟨e, h0, hw⟩
        · subst e; rw [hisn, if_pos rfl, hlkn, hq]
        · subst e
          have hn : isNetmask (width ver) (netHostmask (width ver) p) = false := by
            rcases hnoth with (r | r) | r
            · omega
            · omega
            · exact r
          rw [hn, hish, hlkh, hq]
          simp

/-- a prefix part the code does not resolve raises AddrFormatError -/
theorem resolvePrefix_not_ok (be : Backend) (ver : Nat) (hver : VerOK ver) (val2 : Option (List Char))
    (hno : ∀ t, val2 = some t → t.contains '/' = false) (h : ∀ q, ¬ PrefixPart be ver val2 q) :
    resolvePrefix be ver val2 = .error .addrFormat := by
  cases hr : resolvePrefix be ver val2 with
  | ok q => exact absurd ((resolvePrefix_iff be ver hver val2 q).mp hr) (h q)
  | error e => rw [C03.resolvePrefix_err be ver hver val2 e hno hr]

/-! ### address part, as a relation -/

/-- what the address part of a network string may be, and its value: a text the strict-mode
    `IPAddress(·, version, INET_PTON)` accepts, or (IPv4 only) a text whose
    `expand_partial_address` expansion it accepts. -/
def AddrPart (be : Backend) (ver : Nat) (val1 : List Char) (a : Nat) : Prop :=
  ipAddress be val1 (some ver) INET_PTON = .ok ⟨ver, a⟩ ∨
  (ver = 4 ∧ ∃ e, expandPartialAddress val1 = .ok e ∧ ipAddress be e (some 4) INET_PTON = .ok ⟨4, a⟩)

theorem spec_of_expand (be : Backend) (x e : List Char) (a : Nat) (hex : expandPartialAddress x = .ok e)
    (hip : ipAddress be e (some 4) INET_PTON = .ok ⟨4, a⟩) : addr4Spec x = some a := by
  have hens := expand_noslash x e hex
  rw [ipAddress4_strict be e hens] at hip
  rw [expand_eq] at hex
  unfold addr4Spec
  by_cases hc : x.contains ':' = true
  · simp only [hc, if_true] at hex; cases hex
  · simp only [hc, Bool.false_eq_true, if_false] at hex ⊢
    cases hm : (x.splitOn '.').mapM (Py.pyInt 10) with
    | none => simp only [hm] at hex; cases hex
    | some ns =>
      simp only [hm] at hex ⊢
      have hne : ns ≠ [] := by
        have hl := mapM_length _ _ _ hm
        have := List.splitOn_ne_nil '.' x
        intro e0; subst e0
        cases hh : x.splitOn '.' with
        | nil => exact this hh
        | cons _ _ => rw [hh] at hl; simp at hl
      by_cases h4 : ns.length ≤ 4
      · rw [if_pos h4] at hex
        simp only [Except.ok.injEq] at hex
        subst hex
        by_cases hr : InRange ns
        · obtain ⟨hj, hq⟩ := join_in_range ns hne h4 hr
          rw [hj, (C01.strict4_iff be _ _).mpr ⟨hq, rfl⟩] at hip
          simp only [Except.ok.injEq, Addr.mk.injEq, true_and] at hip
          rw [if_pos ⟨h4, hr⟩, hip]
        · rw [join_out_of_range be ns hne h4 hr] at hip; cases hip
      · rw [if_neg h4] at hex; cases hex

/-- the IPv4 address part is accepted with value `a` exactly when `addr4Spec` says so -/
theorem addrPart4_iff (be : Backend) (x : List Char) (hx : x.contains '/' = false) (a : Nat) :
    AddrPart be 4 x a ↔ addr4Spec x = some a := by
  constructor
  · rintro (h | ⟨_, e, hex, hip⟩)
    · obtain ⟨_, hlt, hxe⟩ := (ipAddress4_ok_iff be x hx _).mp h
      simp only at hlt hxe
      rw [hxe]; exact addr4Spec_ntoa a hlt
    · exact spec_of_expand be x e a hex hip
  · intro h
    have h4 := addr4_eq be x hx
    rw [h] at h4
    unfold addrOf at h4
    cases hs : ipAddress be x (some 4) INET_PTON with
    | ok a' =>
      simp only [hs, Except.ok.injEq] at h4
      subst h4
      exact Or.inl hs
    | error er =>
      have := C01.reject_is_addrformat be x (some 4) INET_PTON er (Or.inr (Or.inl rfl)) hx hs
      subst this
      simp only [hs, if_true] at h4
      cases hex : expandPartialAddress x with
      | error e2 => simp only [hex] at h4; cases h4
      | ok e =>
        simp only [hex] at h4
        exact Or.inr ⟨rfl, e, hex, h4⟩

theorem addrPart6_iff (be : Backend) (x : List Char) (a : Nat) :
    AddrPart be 6 x a ↔ ipAddress be x (some 6) INET_PTON = .ok ⟨6, a⟩ := by
  constructor
  · rintro (h | ⟨h, _⟩)
    · exact h
    · cases h
  · exact Or.inl

theorem addrOf_iff (be : Backend) (ver : Nat) (hver : VerOK ver) (val1 : List Char) (h1 : val1.contains '/' = false)
    (x : Addr) : addrOf be ver val1 = .ok x ↔ x.ver = ver ∧ AddrPart be ver val1 x.val := by
  rcases hver with e | e <;> subst e
  · rw [addr4_eq be val1 h1, addrPart4_iff be val1 h1]
    obtain ⟨xv, xa⟩ := x
    cases addr4Spec val1 with
    | none => simp
    | some a => simp only [Except.ok.injEq, Addr.mk.injEq, Option.some.injEq]; constructor <;> rintro ⟨r1, r2⟩ <;> exact ⟨r1.symm, r2⟩
  · rw [addrPart6_iff]
    have h64 : ¬ ((6 : Nat) = 4) := by decide
    unfold addrOf
    cases hs : ipAddress be val1 (some 6) INET_PTON with
    | ok a =>
      obtain ⟨hv, _⟩ := ipAddress_ok_lt be val1 6 (Or.inr rfl) a hs
      obtain ⟨av, aa⟩ := a
      obtain ⟨xv, xa⟩ := x
      simp only at hv
      subst hv
      simp only [Except.ok.injEq, Addr.mk.injEq, true_and]
      constructor
      · rintro ⟨r1, r2⟩; exact ⟨r1.symm, r2⟩
      · rintro ⟨r1, r2⟩; exact ⟨r1.symm, r2⟩
    | error er =>
      have := C01.reject_is_addrformat be val1 (some 6) INET_PTON er (Or.inr (Or.inr rfl)) h1 hs
      subst this
      simp only [h64, if_false]
      constructor
      · intro h; cases h
      · rintro ⟨_, h⟩; cases h

/-- every failure of the address part is AddrFormatError -/
theorem addrOf_err (be : Backend) (ver : Nat) (hver : VerOK ver) (val1 : List Char) (h1 : val1.contains '/' = false)
    (e : Err) (h : addrOf be ver val1 = .error e) : e = .addrFormat := by
  have := C03.core_err be ver hver val1 none 0 e h1 (by intro t ht; cases ht)
  apply this
  rw [parseStrCore_eq, h]

/-- **The string branch after the split.**  It yields `(v, p)` exactly when the address part is
    accepted with some value `a`, the prefix part denotes some `q` in `0..width`, `p = q`, and
    `v` is `a` with the host bits cleared under NOHOST. -/
theorem parseStrCore_iff (be : Backend) (ver : Nat) (hver : VerOK ver) (val1 : List Char) (val2 : Option (List Char))
    (fl : Nat) (h1 : val1.contains '/' = false) (v p : Nat) :
    parseStrCore be ver val1 val2 fl = .ok (v, p) ↔
      ∃ a q : Nat, AddrPart be ver val1 a ∧ PrefixPart be ver val2 (q : Int) ∧ q ≤ width ver ∧ p = q ∧
        v = if hasFlag fl NOHOST then a &&& netNetmask (width ver) q else a := by
  rw [parseStrCore_eq]
  constructor
  · intro h
    cases ha : addrOf be ver val1 with
    | error e => simp only [ha] at h; cases h
    | ok x =>
      simp only [ha] at h
      obtain ⟨_, hap⟩ := (addrOf_iff be ver hver val1 h1 x).mp ha
      cases hr : resolvePrefix be ver val2 with
      | error e => simp only [hr] at h; cases h
      | ok q' =>
        simp only [hr] at h
        by_cases hq : 0 ≤ q' ∧ q' ≤ (width ver : Int)
        · have hnn : ¬ ¬ (0 ≤ q' ∧ q' ≤ (width ver : Int)) := fun hn => hn hq
          have hle : q'.toNat ≤ width ver := by omega
          rw [if_neg hnn, applyNohost_ok ver hver fl x.val q'.toNat hle] at h
          simp only [Except.ok.injEq, Prod.mk.injEq] at h
          have hqq : ((q'.toNat : Nat) : Int) = q' := by omega
          refine ⟨x.val, q'.toNat, hap, ?_, hle, h.2.symm, h.1.symm⟩
          rw [hqq]; exact (resolvePrefix_iff be ver hver val2 q').mp hr
        · rw [if_pos hq] at h; cases h
  · rintro ⟨a, q, hap, hpp, hq, hpq, hvq⟩
    subst hpq hvq
    have ha : addrOf be ver val1 = .ok ⟨ver, a⟩ := (addrOf_iff be ver hver val1 h1 _).mpr ⟨rfl, hap⟩
    have hr := (resolvePrefix_iff be ver hver val2 p).mpr hpp
    have hnn : ¬ ¬ (0 ≤ (p : Int) ∧ (p : Int) ≤ (width ver : Int)) := by
      intro hn; apply hn; constructor <;> omega
    simp only [ha, hr]
    rw [if_neg hnn, Int.toNat_natCast, applyNohost_ok ver hver fl a p hq]

/-! ### signed numerals -/

/-- `int('-' + digits)` and `int('+' + digits)` -/
theorem pyInt_signed_digits (t : List Char) (ht : ∀ c ∈ t, DecCh c) (hne : t ≠ []) :
    Py.pyInt 10 ('-' :: t) = some (-((Nat.ofDigitChars 10 t 0 : Nat) : Int)) ∧
    Py.pyInt 10 ('+' :: t) = some ((Nat.ofDigitChars 10 t 0 : Nat) : Int) := by
  have hpref : (if (10 : Nat) = 2 then ['b', 'B'] else if (10 : Nat) = 8 then ['o', 'O']
      else if (10 : Nat) = 16 then ['x', 'X'] else ([] : List Char)) = [] := by decide
  have hdv := digitsVal_digits t ht 0 false (Or.inl hne)
  have hstrip : ∀ sg : Char, Py.isWs sg = false → Py.stripWs (sg :: t) = sg :: t := by
    intro sg hsg
    unfold Py.stripWs
    rw [List.dropWhile_cons, if_neg (by rw [hsg]; decide)]
    have hrev : (sg :: t).reverse.dropWhile Py.isWs = (sg :: t).reverse := by
      cases hr : (sg :: t).reverse with
      | nil => rfl
      | cons x xs =>
        have hx : x ∈ sg :: t := by rw [← List.mem_reverse, hr]; simp
        have : Py.isWs x = false := by
          rcases List.mem_cons.mp hx with e | e
          · rw [e]; exact hsg
          · exact (ht x e).1
        rw [List.dropWhile_cons, if_neg (by rw [this]; decide)]
    rw [hrev, List.reverse_reverse]
  have hany : ∀ sg : Char, ¬ (sg.toNat > 127) → (sg :: t).any (fun c => decide (c.toNat > 127)) = false := by
    intro sg hsg
    apply Bool.eq_false_iff.mpr
    intro h
    obtain ⟨c, hc, hgt⟩ := List.any_eq_true.mp h
    rcases List.mem_cons.mp hc with e | e
    · subst e; exact hsg (by simpa using hgt)
    · exact (ht c e).2.2.2.2.2.1 (by simpa using hgt)
  constructor
  · unfold Py.pyInt
    rw [hany '-' (by decide)]
    simp only [Bool.false_eq_true, if_false]
    rw [hstrip '-' (by decide)]
    simp only [hpref, show ('-' == '+') = false by decide, show ('-' == '-') = true by decide, Bool.false_eq_true, if_false, if_true]
    split
    · rename_i heq
      exfalso
      split at heq
      · simp only [List.contains_nil, Bool.false_eq_true, if_false] at heq; cases heq
      · exact hne heq
    · split
      · rename_i v heq2
        split at heq2
        · simp only [List.contains_nil, Bool.false_eq_true, if_false] at heq2
          rw [hdv] at heq2; cases heq2; rfl
        · rw [hdv] at heq2; cases heq2; rfl
      · rename_i heq2
        exfalso
        split at heq2
        · simp only [List.contains_nil, Bool.false_eq_true, if_false] at heq2
          rw [hdv] at heq2; cases heq2
        · rw [hdv] at heq2; cases heq2
  · unfold Py.pyInt
    rw [hany '+' (by decide)]
    simp only [Bool.false_eq_true, if_false]
    rw [hstrip '+' (by decide)]
    simp only [hpref, show ('+' == '+') = true by decide, if_true]
    split
    · rename_i heq
      exfalso
      split at heq
      · simp only [List.contains_nil, Bool.false_eq_true, if_false] at heq; cases heq
      · exact hne heq
    · split
      · rename_i v heq2
        split at heq2
        · simp only [List.contains_nil, Bool.false_eq_true, if_false] at heq2
          rw [hdv] at heq2; cases heq2; rfl
        · rw [hdv] at heq2; cases heq2; rfl
      · rename_i heq2
        exfalso
        split at heq2
        · simp only [List.contains_nil, Bool.false_eq_true, if_false] at heq2
          rw [hdv] at heq2; cases heq2
        · rw [hdv] at heq2; cases heq2

/-- `int('-%d' % n) = -n` -/
theorem pyInt_neg_dec (n : Nat) : Py.pyInt 10 ('-' :: dec n) = some (-(n : Int)) := by
  rw [(pyInt_signed_digits (dec n) (dec_decCh n) (dec_ne_nil n)).1]
  show some (-((Nat.ofDigitChars 10 (Nat.toDigits 10 n) 0 : Nat) : Int)) = _
  rw [Nat.ofDigitChars_toDigits (by decide) (by decide)]

/-- `int('+%d' % n) = n` -/
theorem pyInt_plus_dec (n : Nat) : Py.pyInt 10 ('+' :: dec n) = some (n : Int) := by
  rw [(pyInt_signed_digits (dec n) (dec_decCh n) (dec_ne_nil n)).2]
  show some ((Nat.ofDigitChars 10 (Nat.toDigits 10 n) 0 : Nat) : Int) = _
  rw [Nat.ofDigitChars_toDigits (by decide) (by decide)]

end NV.C03L.Acc
