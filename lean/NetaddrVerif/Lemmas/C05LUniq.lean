import NetaddrVerif.Model.Summarise
import NetaddrVerif.Lemmas.C05LNet
/-! C05 helper lemmas, part 9: flattening a canonical result into addresses (`iter_unique_ips`). -/
namespace NV.C05L
open NV NV.Summ Blk

/-- ascending by (version, address) -/
def AddrLt (x y : Addr) : Prop := x.ver < y.ver ∨ (x.ver = y.ver ∧ x.val < y.val)

theorem mem_netAddrs (n : Net) (hp : n.plen ≤ width n.ver)
    (hal : n.val % 2 ^ (width n.ver - n.plen) = 0) (hfit : n.val + 2 ^ (width n.ver - n.plen) ≤ 2 ^ width n.ver)
    (x : Addr) :
    x ∈ netAddrs n ↔ x.ver = n.ver ∧ n.val ≤ x.val ∧ x.val < n.val + 2 ^ (width n.ver - n.plen) := by
  have hpk := pp (width n.ver - n.plen)
  have _ := hp
  unfold netAddrs Net.first Net.last
  have hlt : n.val < 2 ^ width n.ver := by omega
  rw [first_aligned (width n.ver) n.val n.plen hlt hal, last_aligned (width n.ver) n.val n.plen hal]
  simp only [List.mem_map, List.mem_range]
  generalize 2 ^ (width n.ver - n.plen) = B at *
  constructor
  · rintro ⟨i, hi, rfl⟩; exact ⟨rfl, by simp only; omega, by simp only; omega⟩
  · rintro ⟨h1, h2, h3⟩
    refine ⟨x.val - n.val, by omega, ?_⟩
    obtain ⟨a, b⟩ := x
    simp only at h1 h2 h3 ⊢
    subst h1
    congr 1; omega

theorem netAddrs_sorted (n : Net) : (netAddrs n).Pairwise AddrLt := by
  unfold netAddrs
  rw [List.pairwise_map]
  exact List.pairwise_lt_range.imp (fun {a b} h => Or.inr ⟨rfl, by simp only; omega⟩)

/-- the addresses of a canonical result, in order: strictly ascending (so no duplicates) and
    exactly the denotation -/
theorem flat_addrs (l : List Net) (hc : NetCanon l)
    (hwf : ∀ n ∈ l, n.val % 2 ^ (width n.ver - n.plen) = 0 ∧ n.val + 2 ^ (width n.ver - n.plen) ≤ 2 ^ width n.ver) :
    (l.flatMap netAddrs).Pairwise AddrLt ∧
    ∀ x, x ∈ l.flatMap netAddrs ↔ den (famBlks x.ver l) x.val := by
  have hmem := fun n (hn : n ∈ l) => mem_netAddrs n (hc.wf n hn) (hwf n hn).1 (hwf n hn).2
  constructor
  · rw [List.pairwise_flatMap]
    refine ⟨fun n _ => netAddrs_sorted n, ?_⟩
    apply List.Pairwise.imp_of_mem _ hc.sorted
    intro m n hm hn hlt x hx y hy
    obtain ⟨x1, x2, x3⟩ := (hmem m hm x).1 hx
    obtain ⟨y1, y2, y3⟩ := (hmem n hn y).1 hy
    rcases hlt with h | ⟨h1, h2⟩
    · exact Or.inl (by omega)
    · refine Or.inr ⟨by omega, ?_⟩
      let bm : Blk := ⟨m.val, width n.ver - m.plen⟩
      let bn : Blk := ⟨n.val, width n.ver - n.plen⟩
      have hbm : bm ∈ famBlks n.ver l := (mem_famBlks _ _ _).2 ⟨m, hm, h1, rfl⟩
      have hbn : bn ∈ famBlks n.ver l := (mem_famBlks _ _ _).2 ⟨n, hn, rfl, rfl⟩
      have hne : bm ≠ bn := by
        intro e
        have : m.val = n.val := by injection e
        omega
      have hd := (hc.canon n.ver).dj bm hbm bn hbn hne
      rcases Nat.lt_or_ge n.val (m.val + 2 ^ (width n.ver - m.plen)) with h | h
      · exact absurd ⟨⟨Nat.le_of_lt h2, h⟩, mem_base bn⟩ (hd n.val)
      · rw [h1] at x3; omega
  · intro x
    rw [List.mem_flatMap]
    constructor
    · rintro ⟨n, hn, hx⟩
      obtain ⟨x1, x2, x3⟩ := (hmem n hn x).1 hx
      refine ⟨⟨n.val, width x.ver - n.plen⟩, (mem_famBlks _ _ _).2 ⟨n, hn, x1.symm, rfl⟩, ?_⟩
      rw [x1]; exact ⟨x2, x3⟩
    · rintro ⟨b, hb, hm⟩
      obtain ⟨n, hn, hv, rfl⟩ := (mem_famBlks _ _ _).1 hb
      refine ⟨n, hn, (hmem n hn x).2 ⟨hv.symm, hm.1, ?_⟩⟩
      have := hm.2; rw [hv]; exact this

/-- the two families partition a list all of whose versions are 4 or 6 -/
theorem fam_len_le : ∀ (l : List Net), (famBlks 4 l).length + (famBlks 6 l).length ≤ l.length
  | [] => by simp [famBlks]
  | n :: t => by
    have ih := fam_len_le t
    simp only [famBlks, List.length_map, List.filter_cons] at ih ⊢
    by_cases h4 : n.ver = 4
    · simp [h4]; omega
    · by_cases h6 : n.ver = 6
      · simp [h6]; omega
      · simp [h4, h6]; omega

theorem fam_len_eq : ∀ (l : List Net), (∀ n ∈ l, n.ver = 4 ∨ n.ver = 6) →
    (famBlks 4 l).length + (famBlks 6 l).length = l.length
  | [], _ => by simp [famBlks]
  | n :: t, h => by
    have ih := fam_len_eq t (fun m hm => h m (List.mem_cons_of_mem _ hm))
    simp only [famBlks, List.length_map, List.filter_cons] at ih ⊢
    rcases h n (by simp) with h4 | h6
    · simp [h4]; omega
    · simp [h6]; omega

end NV.C05L
