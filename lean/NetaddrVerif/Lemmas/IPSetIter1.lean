/-
Lemmas/IPSetIter1.lean — `IPSet.__iter__` at address level (`iterAddrs`): membership, length,
strict ascent in (version, address), no duplicates; `size` as the number of distinct denoted
(version, address) pairs (C07).
-/
import NetaddrVerif.Lemmas.IPSetQ4
namespace NV.IPSet.Iter
open NV NV.IPSet

/-- order of iteration: family first (IPv4 = 4 before IPv6 = 6), then the address -/
def AddrLt (x y : Nat × Nat) : Prop := x.1 < y.1 ∨ (x.1 = y.1 ∧ x.2 < y.2)

theorem addrLt_irrefl (x : Nat × Nat) : ¬ AddrLt x x := by
  unfold AddrLt; omega

/-- `first ≤ last` for every network value whatsoever (`v & m ≤ v ≤ v | h`) -/
theorem first_le_last_any (c : Net) : c.first ≤ c.last := by
  unfold Net.first Net.last netFirst netLast
  exact Nat.le_trans Nat.and_le_left Nat.left_le_or

theorem mem_netAddrs (c : Net) (v a : Nat) :
    (v, a) ∈ netAddrs c ↔ v = c.ver ∧ c.first ≤ a ∧ a ≤ c.last := by
  unfold netAddrs
  simp only [List.mem_map, List.mem_range'_1, Prod.mk.injEq]
  have := first_le_last_any c
  constructor
  · rintro ⟨x, ⟨h1, h2⟩, h3, h4⟩
    subst h4
    exact ⟨h3.symm, h1, by omega⟩
  · rintro ⟨h1, h2, h3⟩
    exact ⟨a, ⟨h2, by omega⟩, h1.symm, rfl⟩

theorem length_netAddrs (c : Net) :
    (netAddrs c).length = netSize (width c.ver) c.val c.plen := by
  have h := first_le_last_any c
  unfold netAddrs
  rw [List.length_map, List.length_range']
  unfold Net.first Net.last at h
  unfold netSize Net.first Net.last
  omega

theorem netAddrs_sorted (c : Net) : (netAddrs c).Pairwise AddrLt := by
  unfold netAddrs
  rw [List.pairwise_map]
  exact List.Pairwise.imp (fun h => Or.inr ⟨rfl, h⟩) (List.pairwise_lt_range' (s := c.first) (n := c.last + 1 - c.first))

/-- the addresses iterated are exactly the denotation (no invariant needed) -/
theorem mem_iterAddrs (s : St) (v a : Nat) : (v, a) ∈ iterAddrs s ↔ denS s v a := by
  unfold iterAddrs denS
  simp only [List.mem_flatMap, mem_netAddrs, mem_iterCidrs]
  constructor
  · rintro ⟨c, hc, hv, h⟩; exact ⟨c, hc, hv.symm, h⟩
  · rintro ⟨c, hc, hv, h⟩; exact ⟨c, hc, hv.symm, h⟩

/-- the number of addresses iterated is `size` (no invariant needed) -/
theorem length_iterAddrs (s : St) : (iterAddrs s).length = size s := by
  unfold iterAddrs
  rw [List.length_flatMap, ← size_shown s]
  unfold size
  congr 1
  apply List.map_congr_left
  intro c _
  exact length_netAddrs c

/-- under the invariant, iteration ascends strictly in (version, address) -/
theorem iterAddrs_sorted (s : St) (hs : Inv s) : (iterAddrs s).Pairwise AddrLt := by
  unfold iterAddrs
  rw [List.pairwise_flatMap]
  refine ⟨fun c _ => netAddrs_sorted c, ?_⟩
  have hsep := List.pairwise_map.1 (shown_sep s hs).2
  refine List.Pairwise.imp ?_ hsep
  intro c d hcd x hx y hy
  obtain ⟨xv, xa⟩ := x
  obtain ⟨yv, ya⟩ := y
  obtain ⟨h1, _, h3⟩ := (mem_netAddrs c xv xa).1 hx
  obtain ⟨h4, h5, _⟩ := (mem_netAddrs d yv ya).1 hy
  have hcd' : c.ver < d.ver ∨ (c.ver = d.ver ∧ c.last < d.first) := hcd
  show xv < yv ∨ (xv = yv ∧ xa < ya)
  rcases hcd' with h | ⟨h, h'⟩
  · left; omega
  · right; exact ⟨by omega, by omega⟩

theorem nodup_of_sorted {l : List (Nat × Nat)} (h : l.Pairwise AddrLt) : l.Nodup := by
  rw [List.nodup_iff_pairwise_ne]
  refine List.Pairwise.imp ?_ h
  intro a b hab e
  subst e
  exact addrLt_irrefl a hab

theorem iterAddrs_nodup (s : St) (hs : Inv s) : (iterAddrs s).Nodup :=
  nodup_of_sorted (iterAddrs_sorted s hs)

/-- any duplicate-free list with exactly the denoted pairs has `size s` elements -/
theorem card_eq_size (s : St) (hs : Inv s) (L : List (Nat × Nat)) (hn : L.Nodup)
    (hm : ∀ v a, (v, a) ∈ L ↔ denS s v a) : L.length = size s := by
  rw [← length_iterAddrs s]
  apply List.Perm.length_eq
  rw [List.perm_ext_iff_of_nodup hn (iterAddrs_nodup s hs)]
  rintro ⟨v, a⟩
  rw [hm v a, mem_iterAddrs s v a]

end NV.IPSet.Iter
