/-
Lemmas/IPSetDiff1.lean — reading networks and `(version, first, last)` tuples as closed
intervals `[L, H]` on the common number line (IPv6 space placed after the IPv4 space), the
Boolean tests of the `difference` / `symmetric_difference` sweeps in these terms, and the
ascending lists the sweeps walk over (C07/C06).
-/
import NetaddrVerif.Lemmas.IPSetL10b
namespace NV.IPSet
open NV NV.Blk

/-- lower / upper end of a network on the line -/
def L (n : Net) : Nat := off n.ver + n.first
def H (n : Net) : Nat := off n.ver + n.last

/-- lower / upper end of a `(version, first, last)` tuple on the line -/
def VR.L (r : VR) : Nat := off r.1 + r.2.1
def VR.H (r : VR) : Nat := off r.1 + r.2.2

/-- a valid range tuple: IP family, `first ≤ last`, inside the family -/
def VROK (r : VR) : Prop := (r.1 = 4 ∨ r.1 = 6) ∧ r.2.1 ≤ r.2.2 ∧ r.2.2 < 2 ^ width r.1

/-- addresses (on the line) of a list of networks / of range tuples -/
def nden (l : List Net) (x : Nat) : Prop := ∃ n ∈ l, L n ≤ x ∧ x ≤ H n
def rden (l : List VR) (x : Nat) : Prop := ∃ r ∈ l, r.L ≤ x ∧ x ≤ r.H

theorem nden_nil (x : Nat) : ¬ nden [] x := by simp [nden]
theorem rden_nil (x : Nat) : ¬ rden [] x := by simp [rden]

theorem nden_cons (a : Net) (l : List Net) (x : Nat) : nden (a :: l) x ↔ (L a ≤ x ∧ x ≤ H a) ∨ nden l x := by
  simp [nden]

theorem rden_cons (a : VR) (l : List VR) (x : Nat) : rden (a :: l) x ↔ (a.L ≤ x ∧ x ≤ a.H) ∨ rden l x := by
  simp [rden]

theorem nden_append (l₁ l₂ : List Net) (x : Nat) : nden (l₁ ++ l₂) x ↔ nden l₁ x ∨ nden l₂ x := by
  simp only [nden, List.mem_append]
  constructor
  · rintro ⟨n, h | h, hx⟩
    · exact Or.inl ⟨n, h, hx⟩
    · exact Or.inr ⟨n, h, hx⟩
  · rintro (⟨n, h, hx⟩ | ⟨n, h, hx⟩)
    · exact ⟨n, Or.inl h, hx⟩
    · exact ⟨n, Or.inr h, hx⟩

theorem rden_append (l₁ l₂ : List VR) (x : Nat) : rden (l₁ ++ l₂) x ↔ rden l₁ x ∨ rden l₂ x := by
  simp only [rden, List.mem_append]
  constructor
  · rintro ⟨n, h | h, hx⟩
    · exact Or.inl ⟨n, h, hx⟩
    · exact Or.inr ⟨n, h, hx⟩
  · rintro (⟨n, h, hx⟩ | ⟨n, h, hx⟩)
    · exact ⟨n, Or.inl h, hx⟩
    · exact ⟨n, Or.inr h, hx⟩

theorem vrOf_L (n : Net) : (vrOf n).L = L n := rfl
theorem vrOf_H (n : Net) : (vrOf n).H = H n := rfl

theorem rden_map_vrOf (l : List Net) (x : Nat) : rden (l.map vrOf) x ↔ nden l x := by
  simp only [rden, nden, List.mem_map]
  constructor
  · rintro ⟨r, ⟨n, hn, rfl⟩, hx⟩; exact ⟨n, hn, hx⟩
  · rintro ⟨n, hn, hx⟩; exact ⟨vrOf n, ⟨n, hn, rfl⟩, hx⟩

theorem L_le_H (n : Net) (h : n.WF) : L n ≤ H n := by
  have := first_le_last n h; unfold L H; omega

theorem lin_mem_LH (n : Net) (h : n.WF) (x : Nat) : (lin n).mem x ↔ L n ≤ x ∧ x ≤ H n := lin_mem n h x

theorem den_lin_nden (l : List Net) (hg : ∀ n ∈ l, n.WF) (x : Nat) : den (l.map lin) x ↔ nden l x := by
  unfold den nden
  constructor
  · rintro ⟨b, hb, hx⟩
    obtain ⟨n, hn, rfl⟩ := List.mem_map.1 hb
    exact ⟨n, hn, (lin_mem n (hg n hn) x).1 hx⟩
  · rintro ⟨n, hn, hx⟩
    exact ⟨lin n, List.mem_map.2 ⟨n, hn, rfl⟩, (lin_mem n (hg n hn) x).2 hx⟩

theorem vrok_of_net (n : Net) (h : n.WF) : VROK (vrOf n) :=
  ⟨h.1, first_le_last n h, last_lt n h⟩

/-- the family offsets: every in-family value is below 2^128, the IPv6 space starts at 2^129 -/
theorem off4 : off 4 = 0 := by simp [off]
theorem off6 : off 6 = 2 ^ 129 := by simp [off]

theorem pow_width_le (ver : Nat) (h : ver = 4 ∨ ver = 6) : 2 ^ width ver ≤ 2 ^ 128 := by
  apply Nat.pow_le_pow_right (by decide)
  rcases h with e | e <;> simp [width, e]

/-- `==` of two in-range networks: same interval on the line -/
theorem keyEq_LH (a b : Net) (ha : a.WF) (hb : b.WF) : keyEq a b = true ↔ L a = L b ∧ H a = H b := by
  unfold keyEq L H
  simp only [Bool.and_eq_true, beq_iff_eq]
  have h1 := first_lt_128 a ha; have h2 := first_lt_128 b hb
  have h3 := first_le_last a ha; have h4 := first_le_last b hb
  have hp := p129
  unfold off
  rcases ha.1 with x | x <;> rcases hb.1 with y | y <;> simp [x, y] <;> omega

/-- `a in b` of two in-range networks: interval inclusion on the line -/
theorem netIn_LH (a b : Net) (ha : a.WF) (hb : b.WF) : netIn a b = true ↔ L b ≤ L a ∧ H a ≤ H b := by
  unfold netIn L H
  simp only [Bool.and_eq_true, beq_iff_eq, decide_eq_true_eq]
  have h1 := first_lt_128 a ha; have h2 := first_lt_128 b hb
  have h3 := first_le_last a ha; have h4 := first_le_last b hb
  have hp := p129
  unfold off
  rcases ha.1 with x | x <;> rcases hb.1 with y | y <;> simp [x, y] <;> omega

theorem netIn_ver (a b : Net) (h : netIn a b = true) : a.ver = b.ver := by
  unfold netIn at h
  simp only [Bool.and_eq_true, beq_iff_eq] at h
  exact h.1.1

/-- two in-range networks are nested or lie apart (blocks are aligned) -/
theorem laminar (a b : Net) (ha : a.WF) (hb : b.WF) :
    netIn a b = true ∨ netIn b a = true ∨ H a < L b ∨ H b < L a := by
  by_cases h1 : netIn a b = true
  · exact Or.inl h1
  by_cases h2 : netIn b a = true
  · exact Or.inr (Or.inl h2)
  right; right
  have e1 : NV.subB (lin a) (lin b) = false := by
    cases h : NV.subB (lin a) (lin b) with
    | false => rfl
    | true => exact absurd ((netIn_lin a b ha hb).2 h) h1
  have e2 : NV.subB (lin b) (lin a) = false := by
    cases h : NV.subB (lin b) (lin a) with
    | false => rfl
    | true => exact absurd ((netIn_lin b a hb ha).2 h) h2
  have hdisj : ∀ y, ¬ ((lin a).mem y ∧ (lin b).mem y) := by
    intro y ⟨m1, m2⟩
    rcases Nat.le_total (lin a).k (lin b).k with hk | hk
    · have := (NV.subB_iff _ _).2 (sub_of_share _ _ (lin_aligned a ha) (lin_aligned b hb) hk y m1 m2)
      rw [e1] at this; exact absurd this (by simp)
    · have := (NV.subB_iff _ _).2 (sub_of_share _ _ (lin_aligned b hb) (lin_aligned a ha) hk y m2 m1)
      rw [e2] at this; exact absurd this (by simp)
  have la := L_le_H a ha; have lb := L_le_H b hb
  rcases Nat.lt_or_ge (H a) (L b) with h | h
  · exact Or.inl h
  · rcases Nat.lt_or_ge (H b) (L a) with h' | h'
    · exact Or.inr h'
    · exfalso
      rcases Nat.le_total (L a) (L b) with k | k
      · exact hdisj (L b) ⟨(lin_mem a ha _).2 ⟨k, h⟩, (lin_mem b hb _).2 ⟨Nat.le_refl _, lb⟩⟩
      · exact hdisj (L a) ⟨(lin_mem a ha _).2 ⟨Nat.le_refl _, la⟩, (lin_mem b hb _).2 ⟨k, h'⟩⟩

/-- for networks lying apart, `<` (on sort keys) is order on the line -/
theorem netLt_LH (a b : Net) (ha : a.WF) (hb : b.WF) (hd : H a < L b ∨ H b < L a) :
    netLt a b = true ↔ H a < L b := by
  have la := L_le_H a ha; have lb := L_le_H b hb
  have k1 := first_lt_128 a ha; have k2 := first_lt_128 b hb
  have k3 := first_le_last a ha; have k4 := first_le_last b hb
  have hp := p129
  unfold L H at *
  show tupleLt a.sortKey b.sortKey = true ↔ _
  unfold tupleLt Net.sortKey
  simp only [tupleCmp]
  by_cases hv : a.ver = b.ver
  · rw [hv] at hd la ⊢
    have e1 : ¬ ((b.ver : Int) < b.ver) := by omega
    simp only [e1, if_false, gt_iff_lt]
    by_cases hf : (a.first : Int) < b.first
    · simp [hf]; omega
    · have hf2 : (b.first : Int) < a.first := by omega
      simp [hf, hf2]; omega
  · rcases ha.1 with x | x <;> rcases hb.1 with y | y
    · exact absurd (x.trans y.symm) hv
    · unfold off; simp [x, y]; omega
    · unfold off; simp [x, y]; omega
    · exact absurd (x.trans y.symm) hv

/-- an ascending list of stored keys: good keys, each entirely below the later ones -/
def Asc (l : List Net) : Prop := (∀ n ∈ l, Good n) ∧ l.Pairwise (fun a b => H a < L b)

theorem asc_nil : Asc [] := ⟨by simp, List.Pairwise.nil⟩

theorem asc_tail {a : Net} {l : List Net} (h : Asc (a :: l)) : Asc l :=
  ⟨fun n hn => h.1 n (List.mem_cons_of_mem _ hn), (List.pairwise_cons.1 h.2).2⟩

theorem asc_head {a : Net} {l : List Net} (h : Asc (a :: l)) : Good a := h.1 a (List.mem_cons_self ..)

theorem asc_lt {a : Net} {l : List Net} (h : Asc (a :: l)) : ∀ c ∈ l, H a < L c :=
  (List.pairwise_cons.1 h.2).1

/-- everything denoted by the tail lies above the head -/
theorem asc_above {a : Net} {l : List Net} (h : Asc (a :: l)) (x : Nat) (hx : nden l x) : H a < x := by
  obtain ⟨c, hc, h1, _⟩ := hx
  have := asc_lt h c hc; omega

theorem asc_suffix : ∀ (pre : List Net) {l : List Net}, Asc (pre ++ l) → Asc l
  | [], _, h => h
  | _ :: pre, _, h => asc_suffix pre (asc_tail h)

/-- the sorted key list of a canonical state is ascending on the line -/
theorem asc_sorted (s : St) (hs : Inv s) : Asc (sortNets s) := by
  have hc := canon_shown s hs
  have hg : ∀ n ∈ sortNets s, Good n := fun n hn => hs.good n ((sortNets_perm s).mem_iff.1 hn)
  refine ⟨hg, ?_⟩
  have hsorted := hc.sorted
  unfold iterCidrs at hc hsorted
  rw [List.pairwise_map] at hsorted
  refine List.Pairwise.imp_of_mem ?_ hsorted
  intro a b ha hb hlt
  have haw := (hg a ha).1; have hbw := (hg b hb).1
  have hne : lin a ≠ lin b := by intro e; rw [e] at hlt; omega
  have hd := hc.dj (lin a) (List.mem_map.2 ⟨a, ha, rfl⟩) (lin b) (List.mem_map.2 ⟨b, hb, rfl⟩) hne
  have := below_of_disj (lin a) (lin b) hd hlt
  have e : (lin a).base + 2 ^ (lin a).k = H a + 1 := by
    show off a.ver + a.first + 2 ^ (width a.ver - a.plen) = off a.ver + a.last + 1
    have := last_eq a haw; have := pw (width a.ver - a.plen); omega
  have e2 : (lin b).base = L b := rfl
  omega

end NV.IPSet
