/-
Lemmas/C01L4.lean — IPv4 text lemmas for C01/C03: the dotted-quad printer against the three
IPv4 readers (`Text4.pton4`, `FbSocket.pton4`, `Text4.aton`) and the ZEROFILL preprocessing.
Core Lean only.
-/
import NetaddrVerif.Model.AddrParse
namespace NV.C01L
open NV NV.Text4 NV.AddrParse

/-! ### finite facts about the 256 octet numerals (complete finite domain) -/
theorem octet_dec : ∀ n, n < 256 → Text4.octet (dec n) = some n := by decide +kernel
theorem fboctet_dec : ∀ n, n < 256 → FbSocket.octet (dec n) = some n := by decide +kernel
theorem dot_not_in_dec : ∀ n, n < 256 → '.' ∉ dec n := by decide +kernel
theorem colon_not_in_dec : ∀ n, n < 256 → ':' ∉ dec n := by decide +kernel
theorem slash_not_in_dec : ∀ n, n < 256 → '/' ∉ dec n := by decide +kernel
theorem pyint_dec : ∀ n, n < 256 → Py.pyInt 10 (dec n) = some (n : Int) := by decide +kernel
theorem dec_facts : ∀ n, n < 256 → (∀ c ∈ dec n, isDec c = true) ∧ dec n ≠ [] ∧
    (n ≠ 0 → (dec n).head? ≠ some '0') ∧ ofBase 10 (dec n) = n := by decide +kernel
theorem strtoul_dec_nil : ∀ n, n < 256 → strtoul (dec n) = (n, []) := by decide +kernel

/-- the four octets of `int_to_str` as div/mod -/
theorem ntoa_eq (v : Nat) : ntoa v =
    ['.'].intercalate [dec (v / 16777216), dec (v / 65536 % 256), dec (v / 256 % 256), dec (v % 256)] := by
  unfold ntoa
  have h : (0xff : Nat) = 2 ^ 8 - 1 := by decide
  simp only [h, Nat.and_two_pow_sub_one_eq_mod, Nat.shiftRight_eq_div_pow]

theorem fb_ntoa_eq (v : Nat) (hv : v < 2 ^ 32) : FbSocket.ntoa v = ntoa v := by
  rw [ntoa_eq]; unfold FbSocket.ntoa
  have : v / 16777216 % 256 = v / 16777216 := Nat.mod_eq_of_lt (by omega)
  rw [this]

theorem octs_lt (v : Nat) (hv : v < 2 ^ 32) :
    v / 16777216 < 256 ∧ v / 65536 % 256 < 256 ∧ v / 256 % 256 < 256 ∧ v % 256 < 256 := by
  refine ⟨by omega, Nat.mod_lt _ (by decide), Nat.mod_lt _ (by decide), Nat.mod_lt _ (by decide)⟩

theorem octs_sum (v : Nat) :
    v / 16777216 * 16777216 + v / 65536 % 256 * 65536 + v / 256 % 256 * 256 + v % 256 = v := by omega

theorem split_ntoa (v : Nat) (hv : v < 2 ^ 32) :
    (ntoa v).splitOn '.' = [dec (v / 16777216), dec (v / 65536 % 256), dec (v / 256 % 256), dec (v % 256)] := by
  obtain ⟨h0, h1, h2, h3⟩ := octs_lt v hv
  rw [ntoa_eq, List.splitOn_intercalate]
  · intro l hl
    simp only [List.mem_cons, List.not_mem_nil, or_false] at hl
    rcases hl with e | e | e | e <;> subst e
    · exact dot_not_in_dec _ h0
    · exact dot_not_in_dec _ h1
    · exact dot_not_in_dec _ h2
    · exact dot_not_in_dec _ h3
  · simp

/-- strict platform reader -/
theorem pton4_ntoa (v : Nat) (hv : v < 2 ^ 32) : Text4.pton4 (ntoa v) = some v := by
  obtain ⟨h0, h1, h2, h3⟩ := octs_lt v hv
  unfold Text4.pton4
  rw [split_ntoa v hv]
  simp only [octet_dec _ h0, octet_dec _ h1, octet_dec _ h2, octet_dec _ h3]
  congr 1; omega

/-- strict fallback reader -/
theorem fb_pton4_ntoa (v : Nat) (hv : v < 2 ^ 32) : FbSocket.pton4 (ntoa v) = some v := by
  obtain ⟨h0, h1, h2, h3⟩ := octs_lt v hv
  unfold FbSocket.pton4
  rw [split_ntoa v hv]
  simp [fboctet_dec _ h0, fboctet_dec _ h1, fboctet_dec _ h2, fboctet_dec _ h3]
  omega

theorem takeWhile_all {α} (p : α → Bool) (l : List α) (y : α) (r : List α)
    (hl : ∀ x ∈ l, p x = true) (hy : p y = false) : (l ++ y :: r).takeWhile p = l := by
  induction l with
  | nil => simp [hy]
  | cons a t ih =>
    have ha : p a = true := hl a (by simp)
    simp only [List.cons_append, List.takeWhile_cons, ha, if_true]
    rw [ih (fun x hx => hl x (by simp [hx]))]

theorem dropWhile_all {α} (p : α → Bool) (l : List α) (y : α) (r : List α)
    (hl : ∀ x ∈ l, p x = true) (hy : p y = false) : (l ++ y :: r).dropWhile p = y :: r := by
  induction l with
  | nil => simp [hy]
  | cons a t ih =>
    have ha : p a = true := hl a (by simp)
    simp only [List.cons_append, List.dropWhile_cons, ha, if_true]
    rw [ih (fun x hx => hl x (by simp [hx]))]

/-- `strtoul` reads an octet numeral up to the following dot -/
theorem strtoul_dec_dot (n : Nat) (hn : n < 256) (r : List Char) :
    strtoul (dec n ++ '.' :: r) = (n, '.' :: r) := by
  obtain ⟨hall, hne, hhead, hval⟩ := dec_facts n hn
  by_cases h0 : n = 0
  · subst h0
    show strtoul ('0' :: '.' :: r) = (0, '.' :: r)
    simp [strtoul, List.takeWhile, List.dropWhile, isOct, ofBase, hexVal]
  · have hhead := hhead h0
    obtain ⟨c, t, hct⟩ : ∃ c t, dec n = c :: t := by
      cases h : dec n with
      | nil => exact absurd h hne
      | cons c t => exact ⟨c, t, rfl⟩
    have hc0 : c ≠ '0' := by
      intro e; apply hhead; rw [hct, e]; rfl
    have hd : isDec '.' = false := by decide
    have key : strtoul (c :: (t ++ '.' :: r)) =
        (ofBase 10 ((c :: (t ++ '.' :: r)).takeWhile isDec), (c :: (t ++ '.' :: r)).dropWhile isDec) := by
      unfold strtoul
      split
      · rename_i heq; injection heq with h1 _; exact absurd h1 hc0
      · rename_i heq; injection heq with h1 _; exact absurd h1 hc0
      · rfl
    rw [hct, List.cons_append, key, ← List.cons_append, ← hct,
      takeWhile_all isDec _ _ _ hall hd, dropWhile_all isDec _ _ _ hall hd, hval]

theorem dec_head (n : Nat) (hn : n < 256) (r : List Char) :
    ∃ c tl, dec n ++ r = c :: tl ∧ isDec c = true := by
  obtain ⟨hall, hne, _, _⟩ := dec_facts n hn
  cases h : dec n with
  | nil => exact absurd h hne
  | cons c t => exact ⟨c, t ++ r, rfl, hall c (by rw [h]; simp)⟩

theorem atonLoop_step (f n : Nat) (hn : n < 256) (r : List Char) (parts : List Nat) (hp : parts.length < 3) :
    atonLoop (f + 1) (dec n ++ '.' :: r) parts = atonLoop f r (parts ++ [n]) := by
  obtain ⟨c, tl, hs, hc⟩ := dec_head n hn ('.' :: r)
  have hst := strtoul_dec_dot n hn r
  rw [hs] at hst ⊢
  simp only [atonLoop, hc, hst]
  have h1 : ¬ (n > 4294967295) := by omega
  have h2 : ¬ (parts.length ≥ 3) := by omega
  have h3 : ¬ (n > 255) := by omega
  simp [h1, h2, h3]

theorem atonLoop_last (f n : Nat) (hn : n < 256) (parts : List Nat) :
    atonLoop (f + 1) (dec n) parts = some (parts, n) := by
  obtain ⟨c, tl, hs, hc⟩ := dec_head n hn []
  have hst := strtoul_dec_nil n hn
  rw [List.append_nil] at hs
  rw [hs] at hst ⊢
  simp only [atonLoop, hc, hst]
  have h1 : ¬ (n > 4294967295) := by omega
  simp [h1]

theorem or_bytes (a b c d : Nat) (hb : b < 256) (hc : c < 256) (hd : d < 256) :
    (a <<< 24 ||| b <<< 16 ||| c <<< 8) ||| d = a * 16777216 + b * 65536 + c * 256 + d := by
  have e1 : a <<< 24 ||| b <<< 16 = (a * 256 + b) <<< 16 := by
    have : a <<< 24 = (a <<< 8) <<< 16 := by rw [← Nat.shiftLeft_add]
    rw [this, ← Nat.shiftLeft_or_distrib, ← Nat.shiftLeft_add_eq_or_of_lt (by omega : b < 2 ^ 8)]
    simp [Nat.shiftLeft_eq]
  have e2 : (a * 256 + b) <<< 16 ||| c <<< 8 = ((a * 256 + b) * 256 + c) <<< 8 := by
    have : (a * 256 + b) <<< 16 = ((a * 256 + b) <<< 8) <<< 8 := by rw [← Nat.shiftLeft_add]
    rw [this, ← Nat.shiftLeft_or_distrib, ← Nat.shiftLeft_add_eq_or_of_lt (by omega : c < 2 ^ 8)]
    simp [Nat.shiftLeft_eq]
  rw [e1, e2, ← Nat.shiftLeft_add_eq_or_of_lt (by omega : d < 2 ^ 8), Nat.shiftLeft_eq]
  omega

theorem not_nul_dec : ∀ n, n < 256 → (dec n).any (fun c => c.toNat == 0) = false := by decide +kernel

/-- the BSD reader on a printed dotted quad -/
theorem aton_ntoa (v : Nat) (hv : v < 2 ^ 32) : Text4.aton (ntoa v) = some v := by
  obtain ⟨h0, h1, h2, h3⟩ := octs_lt v hv
  have hnul : (ntoa v).any (fun c => c.toNat == 0) = false := by
    rw [ntoa_eq]
    simp [List.intercalate, List.any_append, not_nul_dec _ h0, not_nul_dec _ h1, not_nul_dec _ h2, not_nul_dec _ h3]
  have hl : atonLoop 4 (ntoa v) [] =
      some ([v / 16777216, v / 65536 % 256, v / 256 % 256], v % 256) := by
    rw [ntoa_eq]
    have e : ['.'].intercalate [dec (v / 16777216), dec (v / 65536 % 256), dec (v / 256 % 256), dec (v % 256)]
        = dec (v / 16777216) ++ '.' :: (dec (v / 65536 % 256) ++ '.' :: (dec (v / 256 % 256) ++ '.' :: dec (v % 256))) := by
      simp [List.intercalate]
    rw [e, atonLoop_step 3 _ h0 _ [] (by simp), atonLoop_step 2 _ h1 _ _ (by simp),
      atonLoop_step 1 _ h2 _ _ (by simp), atonLoop_last 0 _ h3]
    rfl
  unfold Text4.aton
  simp only [hnul, hl]
  have h4 : ¬ (v % 256 > 255) := by omega
  simp only [List.length_cons, List.length_nil, h4]
  simp only [Bool.false_eq_true, if_false]
  rw [or_bytes _ _ _ _ h1 h2 h3]
  congr 1; omega

theorem showInt_nat (n : Nat) : showInt (n : Int) = dec n := by
  unfold showInt
  have : ¬ ((n : Int) < 0) := by omega
  simp only [this, if_false, Int.toNat_natCast]

/-- ZEROFILL preprocessing leaves a printed dotted quad unchanged -/
theorem zerofill_ntoa (v : Nat) (hv : v < 2 ^ 32) : zerofill (ntoa v) = some (ntoa v) := by
  obtain ⟨h0, h1, h2, h3⟩ := octs_lt v hv
  unfold zerofill
  rw [split_ntoa v hv]
  simp only [List.mapM_cons, List.mapM_nil, pyint_dec _ h0, pyint_dec _ h1, pyint_dec _ h2, pyint_dec _ h3,
    Option.map_some, showInt_nat, Option.bind_eq_bind, Option.bind_some, Option.pure_def, ntoa_eq]

theorem mem_ntoa (v : Nat) (c : Char) (h : c ∈ ntoa v) :
    c = '.' ∨ c ∈ dec (v / 16777216) ∨ c ∈ dec (v / 65536 % 256) ∨ c ∈ dec (v / 256 % 256) ∨ c ∈ dec (v % 256) := by
  rw [ntoa_eq] at h
  simp [List.intercalate] at h
  rcases h with h | h | h | h | h | h | h <;> simp [h]

theorem slash_not_in_ntoa (v : Nat) (hv : v < 2 ^ 32) : (ntoa v).contains '/' = false := by
  obtain ⟨h0, h1, h2, h3⟩ := octs_lt v hv
  cases hc : (ntoa v).contains '/' with
  | false => rfl
  | true =>
    exfalso
    have hm : '/' ∈ ntoa v := by simpa using hc
    rcases mem_ntoa v _ hm with h | h | h | h | h
    · exact absurd h (by decide)
    · exact slash_not_in_dec _ h0 h
    · exact slash_not_in_dec _ h1 h
    · exact slash_not_in_dec _ h2 h
    · exact slash_not_in_dec _ h3 h

theorem colon_not_in_ntoa (v : Nat) (hv : v < 2 ^ 32) : ':' ∉ ntoa v := by
  obtain ⟨h0, h1, h2, h3⟩ := octs_lt v hv
  intro hm
  rcases mem_ntoa v _ hm with h | h | h | h | h
  · exact absurd h (by decide)
  · exact colon_not_in_dec _ h0 h
  · exact colon_not_in_dec _ h1 h
  · exact colon_not_in_dec _ h2 h
  · exact colon_not_in_dec _ h3 h

theorem inetPton4_ntoa (be : Backend) (v : Nat) (hv : v < 2 ^ 32) : inetPton4 be (ntoa v) = some v := by
  cases be
  · exact pton4_ntoa v hv
  · exact fb_pton4_ntoa v hv

/-- `strategy.ipv4.str_to_int` reads a printed dotted quad back under every flag combination -/
theorem strToInt4_ntoa (be : Backend) (v : Nat) (hv : v < 2 ^ 32) (fl : Nat) (hfl : fl < 4) :
    strToInt4 be (ntoa v) fl = .ok v := by
  have h : fl = 0 ∨ fl = 1 ∨ fl = 2 ∨ fl = 3 := by omega
  rcases h with h | h | h | h <;> subst h <;>
    simp [strToInt4, hasFlag, ZEROFILL, INET_PTON, zerofill_ntoa v hv, aton_ntoa v hv, inetPton4_ntoa be v hv]

end NV.C01L
