/-
Lemmas/C08LMatch.lean — the matcher for the generated MAC / EUI-64 pattern shapes on strings
of the form `tok sep tok sep … tok` (hex tokens, one non-hex separator character), the first-
match search, and the value computed by `joinWords`.  Core only.
-/
import NetaddrVerif.Lemmas.C08LHex
namespace NV.Eui
open NV.Py NV.PyL NV.Codec NV.Gen

/-- a non-empty string of hex digits -/
def HexTok (t : List Char) : Prop := t ≠ [] ∧ ∀ c ∈ t, isHex c = true

/-- `int(t, 16)` of a hex token -/
def tokVal (t : List Char) : Nat := digitsNat 16 t 0

theorem pyInt16_tok (t : List Char) (h : HexTok t) : pyInt 16 t = some ((tokVal t : Nat) : Int) :=
  pyInt16_plain t h.1 (fun c hc => (isHex_iff c).mp (h.2 c hc))

theorem digitsNat16_lt (s : List Char) (acc : Nat) : digitsNat 16 s acc < (acc + 1) * 16 ^ s.length := by
  induction s generalizing acc with
  | nil => simp [digitsNat]
  | cons c t ih =>
    simp only [digitsNat, List.foldl_cons, List.length_cons]
    have hd : (digitVal 16 c).getD 0 < 16 := by
      cases h : digitVal 16 c with
      | none => simp
      | some d => simpa using digitVal_lt 16 c d h
    have := ih (acc * 16 + (digitVal 16 c).getD 0)
    simp only [digitsNat] at this
    refine Nat.lt_of_lt_of_le this ?_
    rw [Nat.pow_succ, Nat.mul_comm (16 ^ t.length) 16, ← Nat.mul_assoc]
    exact Nat.mul_le_mul_right _ (by omega)

theorem tokVal_lt (t : List Char) (k : Nat) (h : t.length ≤ k) : tokVal t < 16 ^ k := by
  have := digitsNat16_lt t 0
  simp only [Nat.zero_add, Nat.one_mul] at this
  exact Nat.lt_of_lt_of_le this (Nat.pow_le_pow_right (by decide) h)

theorem option_mapM_some {α β} (f : α → Option β) (g : α → β) (xs : List α)
    (h : ∀ x ∈ xs, f x = some (g x)) : xs.mapM f = some (xs.map g) := by
  induction xs with
  | nil => rfl
  | cons x t ih =>
    rw [List.mapM_cons, h x (by simp), ih (fun y hy => h y (by simp [hy]))]
    rfl

/-- `joinWords`: tokens below 16^pad, re-printed with exactly `pad` digits and read as one
    numeral, give the big-endian value of the token values in base 16^pad -/
theorem joinWords_spec (pad : Nat) (hpad : 1 ≤ pad) (toks : List (List Char)) (hne : toks ≠ [])
    (ht : ∀ t ∈ toks, HexTok t ∧ tokVal t < 16 ^ pad) :
    joinWords pad toks = some (leValue (4 * pad) (toks.map tokVal).reverse) := by
  have hm := option_mapM_some (fun w => pyInt 16 w) (fun t => ((tokVal t : Nat) : Int)) toks
    (fun t h => pyInt16_tok t (ht t h).1)
  have hlen : ∀ t ∈ toks, (fmtHex pad false (tokVal t)).length = pad := by
    intro t h
    have := fmtHex_length_bounds pad false (tokVal t) pad (ht t h).2 hpad
    omega
  -- the re-printed numeral
  let F := (toks.map (fun t => fmtHex pad false (tokVal t))).flatten
  have hF : ((toks.map (fun t => ((tokVal t : Nat) : Int))).map (fun n => fmtHex pad false n.toNat)).flatten = F := by
    simp [F, List.map_map, Function.comp_def]
  have hval : ∀ (l : List (List Char)), (∀ t ∈ l, (fmtHex pad false (tokVal t)).length = pad) → ∀ acc,
      digitsNat 16 (l.map (fun t => fmtHex pad false (tokVal t))).flatten acc =
      (l.map tokVal).foldl (fun a n => a * 2 ^ (4 * pad) + n) acc := by
    intro l
    induction l with
    | nil => intro _ acc; simp [digitsNat]
    | cons t r ih =>
      intro hl acc
      simp only [List.map_cons, List.flatten_cons, digitsNat_append, List.foldl_cons]
      rw [fmtHex_val, hl t (by simp), ih (fun u hu => hl u (by simp [hu]))]
      have : (16 : Nat) ^ pad = 2 ^ (4 * pad) := by
        rw [Nat.pow_mul]
      rw [this]
  have hFne : F ≠ [] := by
    cases toks with
    | nil => exact absurd rfl hne
    | cons t r =>
      simp only [F, List.map_cons, List.flatten_cons]
      intro h
      exact fmtHex_ne_nil pad false (tokVal t) (List.append_eq_nil_iff.mp h).1
  have hFhex : ∀ c ∈ F, ∃ d, digitVal 16 c = some d := by
    intro c hc
    simp only [F, List.mem_flatten, List.mem_map] at hc
    obtain ⟨l, ⟨t, _, rfl⟩, hcl⟩ := hc
    exact hexDigitChar_val c (fmtHex_chars pad false (tokVal t) c hcl)
  have hpy : pyInt 16 F = some ((digitsNat 16 F 0 : Nat) : Int) := pyInt16_plain F hFne hFhex
  unfold joinWords
  rw [hm]
  show (Option.bind (pyInt 16 ((toks.map (fun t => ((tokVal t : Nat) : Int))).map
    (fun n => fmtHex pad false n.toNat)).flatten) fun v => some v.toNat) = _
  rw [hF, hpy]
  show some (((digitsNat 16 F 0 : Nat) : Int)).toNat = _
  rw [Int.toNat_natCast, hval toks hlen 0, horner_eq]
  simp

/-! ### the matcher on `tok sep tok … tok` -/

theorem mem_intercalate (c : Char) (toks : List (List Char)) (x : Char)
    (h : x ∈ [c].intercalate toks) : x = c ∨ ∃ t ∈ toks, x ∈ t := by
  induction toks with
  | nil => simp [List.intercalate] at h
  | cons a r ih =>
    cases r with
    | nil =>
      have : [c].intercalate [a] = a := by simp [List.intercalate, List.intersperse]
      rw [this] at h; exact Or.inr ⟨a, by simp, h⟩
    | cons b r' =>
      rw [List.intercalate_cons_cons] at h
      simp only [List.mem_append, List.mem_singleton] at h
      rcases h with (h | h) | h
      · exact Or.inr ⟨a, by simp, h⟩
      · exact Or.inl h
      · rcases ih h with h | ⟨t, ht, hx⟩
        · exact Or.inl h
        · exact Or.inr ⟨t, by simp [ht], hx⟩

theorem sep_mem_intercalate (c : Char) (a b : List Char) (r : List (List Char)) :
    c ∈ [c].intercalate (a :: b :: r) := by
  rw [List.intercalate_cons_cons]; simp

/-- the shape of the strings the theorems speak about -/
structure Spelling (c : Char) (toks : List (List Char)) : Prop where
  sepNotHex : isHex c = false
  sepNotNl : c ≠ '\n'
  ne : toks ≠ []
  hex : ∀ t ∈ toks, HexTok t

theorem Spelling.sep_not_mem {c toks} (h : Spelling c toks) : ∀ t ∈ toks, c ∉ t := by
  intro t ht hc
  have := (h.hex t ht).2 c hc
  rw [h.sepNotHex] at this; cases this

theorem Spelling.no_newline {c toks} (h : Spelling c toks) : ∀ x ∈ [c].intercalate toks, x ≠ '\n' := by
  intro x hx
  rcases mem_intercalate c toks x hx with rfl | ⟨t, ht, hxt⟩
  · exact h.sepNotNl
  · intro e; subst e
    have := (h.hex t ht).2 _ hxt
    exact absurd this (by decide)

/-- pattern separators of a table row: none, or one non-hex character -/
def fmtOk (f : MacFmt) : Bool :=
  match f.sep with
  | [] => true
  | [c] => !isHex c
  | _ => false

theorem splitOn_self (c c' : Char) (toks : List (List Char)) (h : Spelling c toks) (hc' : isHex c' = false)
    (hne : c' ≠ c) : ([c].intercalate toks).splitOn c' = [[c].intercalate toks] := by
  have hnot : c' ∉ [c].intercalate toks := by
    intro hm
    rcases mem_intercalate c toks c' hm with e | ⟨t, ht, hx⟩
    · exact hne e
    · have := (h.hex t ht).2 c' hx
      rw [hc'] at this; cases this
  have := List.splitOn_intercalate (ls := [[c].intercalate toks]) c'
    (by intro l hl; simp only [List.mem_singleton] at hl; subst hl; exact hnot) (by simp)
  simpa [List.intercalate, List.intersperse] using this

/-- the token list the matcher looks at -/
def splitToks (f : MacFmt) (s : List Char) : List (List Char) :=
  match f.sep with
  | [] => [s]
  | c :: _ => s.splitOn c

theorem matchExact_eq (f : MacFmt) (s : List Char) :
    matchExact f s = if (splitToks f s).length = f.groups ∧
        (splitToks f s).all (fun t => decide (f.lo ≤ t.length) && decide (t.length ≤ f.hi) && t.all isHex) = true
      then some (splitToks f s) else none := rfl

/-- whatever a well-formed pattern captures from a spelling is the spelling's own token list,
    and then the pattern's group count and length bounds fit the tokens -/
theorem matchExact_some_imp (f : MacFmt) (hf : fmtOk f = true) (c : Char) (toks : List (List Char))
    (h : Spelling c toks) (r : List (List Char)) (hm : matchExact f ([c].intercalate toks) = some r) :
    r = toks ∧ f.groups = toks.length ∧ ∀ t ∈ toks, f.lo ≤ t.length ∧ t.length ≤ f.hi := by
  -- what the split produces
  have hsplit : splitToks f ([c].intercalate toks) = toks ∨
      splitToks f ([c].intercalate toks) = [[c].intercalate toks] := by
    unfold fmtOk at hf
    unfold splitToks
    match hs : f.sep, hf with
    | [], _ => exact Or.inr rfl
    | [c'], hf =>
      have hc' : isHex c' = false := by simpa using hf
      by_cases e : c' = c
      · subst e
        exact Or.inl (List.splitOn_intercalate c' h.sep_not_mem h.ne)
      · exact Or.inr (splitOn_self c c' toks h hc' e)
  rw [matchExact_eq] at hm
  generalize splitToks f ([c].intercalate toks) = T at hm hsplit
  by_cases hcond : T.length = f.groups ∧
      T.all (fun t => decide (f.lo ≤ t.length) && decide (t.length ≤ f.hi) && t.all isHex) = true
  · rw [if_pos hcond] at hm
    have hr : r = T := (Option.some.inj hm).symm
    rcases hsplit with hs | hs
    · rw [hs] at hcond hr
      refine ⟨hr, hcond.1.symm, ?_⟩
      intro t ht
      have := (List.all_eq_true.mp hcond.2) t ht
      simp only [Bool.and_eq_true, decide_eq_true_eq] at this
      exact ⟨this.1.1, this.1.2⟩
    · rw [hs] at hcond hr
      -- the whole string passed as one hex group: then there is exactly one token
      have hall := (List.all_eq_true.mp hcond.2) ([c].intercalate toks) (by simp)
      simp only [Bool.and_eq_true, decide_eq_true_eq, List.all_eq_true] at hall
      match toks, h with
      | [], h => exact absurd rfl h.ne
      | [t], h =>
        have e : [c].intercalate [t] = t := by simp [List.intercalate, List.intersperse]
        rw [e] at hr hall hcond
        exact ⟨hr, by simpa using hcond.1.symm,
          by intro u hu; simp only [List.mem_singleton] at hu; subst hu; exact hall.1⟩
      | a :: b :: r', h =>
        have := hall.2 c (sep_mem_intercalate c a b r')
        rw [h.sepNotHex] at this; cases this
  · rw [if_neg hcond] at hm; cases hm

/-- a pattern with the spelling's separator (or the bare pattern, for one token), the right
    group count and length bounds captures the spelling's tokens -/
theorem matchExact_some (f : MacFmt) (c : Char) (toks : List (List Char)) (h : Spelling c toks)
    (hsep : f.sep = [c] ∨ (f.sep = [] ∧ toks.length = 1)) (hg : f.groups = toks.length)
    (hl : ∀ t ∈ toks, f.lo ≤ t.length ∧ t.length ≤ f.hi) :
    matchExact f ([c].intercalate toks) = some toks := by
  have hsplit : splitToks f ([c].intercalate toks) = toks := by
    unfold splitToks
    rcases hsep with hs | ⟨hs, h1⟩
    · rw [hs]; exact List.splitOn_intercalate c h.sep_not_mem h.ne
    · rw [hs]
      match toks, h1 with
      | [t], _ => simp [List.intercalate, List.intersperse]
  rw [matchExact_eq, hsplit, if_pos]
  refine ⟨hg.symm, ?_⟩
  rw [List.all_eq_true]
  intro t ht
  simp only [Bool.and_eq_true, decide_eq_true_eq, List.all_eq_true]
  exact ⟨⟨(hl t ht).1, (hl t ht).2⟩, (h.hex t ht).2⟩

theorem matchFmt_eq (f : MacFmt) (s : List Char) (h : ∀ x ∈ s, x ≠ '\n') : matchFmt f s = matchExact f s := by
  unfold matchFmt
  cases hm : matchExact f s with
  | some t => rfl
  | none =>
    simp only
    rw [if_neg]
    intro hl
    exact h _ (List.mem_of_getLast? hl) rfl

theorem firstMatch_some (fmts : List MacFmt) (s : List Char) (toks : List (List Char))
    (hA : ∀ f ∈ fmts, ∀ r, matchFmt f s = some r → r = toks)
    (hB : ∃ f ∈ fmts, matchFmt f s = some toks) : firstMatch fmts s = some toks := by
  unfold firstMatch
  induction fmts with
  | nil => obtain ⟨f, hf, _⟩ := hB; simp at hf
  | cons g t ih =>
    rw [List.findSome?_cons]
    cases hg : matchFmt g s with
    | some r => rw [hA g (by simp) r hg]
    | none =>
      simp only
      apply ih (fun f hf => hA f (by simp [hf]))
      obtain ⟨f, hf, hm⟩ := hB
      simp only [List.mem_cons] at hf
      rcases hf with rfl | hf
      · rw [hg] at hm; cases hm
      · exact ⟨f, hf, hm⟩

theorem firstMatch_none (fmts : List MacFmt) (s : List Char) (h : ∀ f ∈ fmts, matchFmt f s = none) :
    firstMatch fmts s = none := by
  unfold firstMatch
  rw [List.findSome?_eq_none_iff]; exact h

end NV.Eui
