
namespace NV

-- Prototype: is_hostmask / is_netmask bit tricks characterise the contiguous masks (core only)
theorem pw (k : Nat) : 0 < 2 ^ k := Nat.pos_of_ne_zero (by simp)

/-- `(v+1) & v == 0` (netaddr's is_hostmask) holds exactly for v = 2^k - 1 -/
theorem hostmask_iff (v : Nat) : (v + 1) &&& v = 0 ↔ ∃ k, v = 2 ^ k - 1 := by
  constructor
  · induction v using Nat.strongRecOn with
    | ind v ih =>
      intro h
      rcases Nat.mod_two_eq_zero_or_one v with hv | hv
      · -- v even: v+1 odd, so bit 0 of the AND is 0 but the rest is v/2 & v/2
        have hd := congrArg (· / 2) h
        simp only [Nat.and_div_two, Nat.zero_div] at hd
        have e1 : (v + 1) / 2 = v / 2 := by omega
        rw [e1, Nat.and_self] at hd
        exact ⟨0, by omega⟩
      · -- v odd: v = 2m+1, v+1 = 2(m+1)
        have hd := congrArg (· / 2) h
        simp only [Nat.and_div_two, Nat.zero_div] at hd
        have e1 : (v + 1) / 2 = v / 2 + 1 := by omega
        rw [e1] at hd
        obtain ⟨k, hk⟩ := ih (v / 2) (by omega) hd
        refine ⟨k + 1, ?_⟩
        have := pw k
        rw [Nat.pow_succ]; omega
  · rintro ⟨k, rfl⟩
    have := pw k
    have e : 2 ^ k - 1 + 1 = 2 ^ k := by omega
    rw [e, Nat.and_two_pow_sub_one_eq_mod]; simp

/-- is_netmask: `((v ^ max) + 1) & (v ^ max) == 0` for v ≤ max = 2^w - 1 ↔ v = max - (2^k - 1), k ≤ w -/
theorem netmask_iff (w v : Nat) (hv : v < 2 ^ w) :
    ((v ^^^ (2 ^ w - 1)) + 1) &&& (v ^^^ (2 ^ w - 1)) = 0 ↔ ∃ k, k ≤ w ∧ v = (2 ^ w - 1) - (2 ^ k - 1) := by
  have hw := pw w
  -- xor with all-ones is complement within w bits
  have hx : v ^^^ (2 ^ w - 1) = 2 ^ w - 1 - v := by
    apply Nat.eq_of_testBit_eq
    intro i
    rw [Nat.testBit_xor, Nat.testBit_two_pow_sub_one]
    by_cases hi : i < w
    · simp [hi]
      have := Nat.testBit_two_pow_sub_succ hv i
      simp [hi] at this
      have e : 2 ^ w - (v + 1) = 2 ^ w - 1 - v := by omega
      rw [e] at this; rw [this]; simp
    · simp [hi]
      have h1 : v < 2 ^ i := Nat.lt_of_lt_of_le hv (Nat.pow_le_pow_right (by decide) (by omega))
      have h2 : 2 ^ w - 1 - v < 2 ^ i := by
        have : 2 ^ w ≤ 2 ^ i := Nat.pow_le_pow_right (by decide) (by omega)
        omega
      rw [Nat.testBit_lt_two_pow h1, Nat.testBit_lt_two_pow h2]
  rw [hx, hostmask_iff]
  constructor
  · rintro ⟨k, hk⟩
    refine ⟨k, ?_, by omega⟩
    rcases Nat.lt_or_ge w k with h | h
    · exfalso
      have : 2 ^ (w + 1) ≤ 2 ^ k := Nat.pow_le_pow_right (by decide) h
      rw [Nat.pow_succ] at this; omega
    · exact h
  · rintro ⟨k, hkw, hk⟩
    have : 2 ^ k ≤ 2 ^ w := Nat.pow_le_pow_right (by decide) hkw
    have := pw k
    exact ⟨k, by omega⟩

end NV
