/-
Lemmas/C08LText.lean — `str_to_int` on spellings `tok sep tok … tok`, and what a dialect must
satisfy for its printed text to be such a spelling.  Core only.
-/
import NetaddrVerif.Lemmas.C08LMatch
namespace NV.Eui
open NV.Py NV.PyL NV.Codec NV.Gen

/-- the `'%.<pad>x'` width `eui48.str_to_int` chooses from the group count -/
def pad48 (n : Nat) : Option Nat :=
  if n = 6 then some 2 else if n = 3 then some 4 else if n = 2 then some 6 else if n = 1 then some 12 else none

/-- … and `eui64.str_to_int` -/
def pad64 (n : Nat) : Option Nat :=
  if n = 8 then some 2 else if n = 4 then some 4 else if n = 1 then some 16 else none

theorem strToInt48_eq (s : List Char) : strToInt48 s =
    match firstMatch macFormats s with
    | none => .error .addrFormat
    | some words => match pad48 words.length with
      | none => .error .addrFormat
      | some pad => match joinWords pad words with
        | some v => .ok v
        | none => .error .value := rfl

theorem strToInt64_eq (s : List Char) : strToInt64 s =
    match firstMatch eui64Formats s with
    | none => .error .addrFormat
    | some words => match pad64 words.length with
      | none => .error .addrFormat
      | some pad => match joinWords pad words with
        | some v => .ok v
        | none => .error .value := rfl

theorem mac_fmts_ok : ∀ f ∈ macFormats, fmtOk f = true := by decide
theorem eui64_fmts_ok : ∀ f ∈ eui64Formats, fmtOk f = true := by decide

/-- generic: a spelling that fits row `f` of a well-formed table parses to the big-endian
    value of its tokens in base 16^p -/
theorem parse_spelling (fmts : List MacFmt) (hok : ∀ g ∈ fmts, fmtOk g = true) (f : MacFmt) (hf : f ∈ fmts)
    (c : Char) (toks : List (List Char)) (h : Spelling c toks)
    (hsep : f.sep = [c] ∨ (f.sep = [] ∧ toks.length = 1)) (hg : f.groups = toks.length)
    (hl : ∀ t ∈ toks, f.lo ≤ t.length ∧ t.length ≤ f.hi) (p : Nat) (hhi : f.hi ≤ p) (hp1 : 1 ≤ p) :
    firstMatch fmts ([c].intercalate toks) = some toks ∧
    joinWords p toks = some (leValue (4 * p) (toks.map tokVal).reverse) := by
  constructor
  · apply firstMatch_some
    · intro g hg' r hm
      rw [matchFmt_eq g _ h.no_newline] at hm
      exact (matchExact_some_imp g (hok g hg') c toks h r hm).1
    · exact ⟨f, hf, by rw [matchFmt_eq f _ h.no_newline]; exact matchExact_some f c toks h hsep hg hl⟩
  · apply joinWords_spec p hp1 toks h.ne
    intro t ht
    exact ⟨h.hex t ht, tokVal_lt t p (Nat.le_trans (hl t ht).2 hhi)⟩

/-- generic: if no row of the table can capture the tokens (group count or length bounds
    never fit), nothing matches -/
theorem parse_none (fmts : List MacFmt) (hok : ∀ g ∈ fmts, fmtOk g = true)
    (c : Char) (toks : List (List Char)) (h : Spelling c toks)
    (hno : ∀ g ∈ fmts, ¬ (g.groups = toks.length ∧ ∀ t ∈ toks, g.lo ≤ t.length ∧ t.length ≤ g.hi)) :
    firstMatch fmts ([c].intercalate toks) = none := by
  apply firstMatch_none
  intro g hg
  rw [matchFmt_eq g _ h.no_newline]
  cases hm : matchExact g ([c].intercalate toks) with
  | none => rfl
  | some r =>
    have := matchExact_some_imp g (hok g hg) c toks h r hm
    exact absurd ⟨this.2.1, this.2.2⟩ (hno g hg)

/-! ### printed text of a dialect -/

/-- what makes a dialect's printed text a spelling that row `f` captures, decoded with `p`
    hex digits per word -/
def fits (d : Dialect) (f : MacFmt) (p width : Nat) : Bool :=
  (f.sep == d.sep) && (f.groups == d.numWords) && decide (f.lo ≤ max d.pad 1) && decide (max d.pad p ≤ f.hi) &&
  (d.wordSize == 4 * p) && decide (1 ≤ p) && decide (f.hi ≤ p) && (d.wordSize * d.numWords == width) &&
  decide (1 ≤ d.numWords) &&
  (match d.sep with
   | [] => d.numWords == 1
   | [c] => !isHex c && c != '\n'
   | _ => false)

theorem hexDigitChar_isHex (c : Char) (h : IsHexDigitChar c) : isHex c = true :=
  (isHex_iff c).mpr (hexDigitChar_val c h)

/-- the separator character to use in `Spelling` for a dialect (any character for a bare one) -/
def sepChar (d : Dialect) : Char := d.sep.headD '-'

/-- the printed text of a fitting dialect is a spelling captured by `f`, whose token values
    are the words of v -/
theorem print_spelling (d : Dialect) (f : MacFmt) (p width : Nat) (hfit : fits d f p width = true)
    (v : Nat) (hv : v < 2 ^ width) :
    let W := (wordsLoop d.wordSize d.numWords v).reverse
    let toks := W.map (fmtHex d.pad d.upper)
    intToStr d v = .ok ([sepChar d].intercalate toks) ∧ Spelling (sepChar d) toks ∧
    (f.sep = [sepChar d] ∨ (f.sep = [] ∧ toks.length = 1)) ∧ f.groups = toks.length ∧
    (∀ t ∈ toks, f.lo ≤ t.length ∧ t.length ≤ f.hi) ∧ f.hi ≤ p ∧ 1 ≤ p ∧
    leValue (4 * p) (toks.map tokVal).reverse = v := by
  intro W toks
  simp only [fits, Bool.and_eq_true, beq_iff_eq, decide_eq_true_eq] at hfit
  obtain ⟨⟨⟨⟨⟨⟨⟨⟨⟨h1, h2⟩, h3⟩, h4⟩, h5⟩, h6⟩, h7⟩, h8⟩, h9⟩, h10⟩ := hfit
  have hWlen : W.length = d.numWords := by simp [W, wordsLoop_length]
  have hWlt : ∀ w ∈ W, w < 16 ^ p := by
    intro w hw
    have := wordsLoop_lt d.wordSize d.numWords v w (by simpa [W] using hw)
    rw [h5, Nat.pow_mul] at this; exact this
  have htlen : toks.length = d.numWords := by simp [toks, hWlen]
  have hvv : v ≤ 2 ^ (d.numWords * d.wordSize) - 1 := by
    rw [Nat.mul_comm, h8]; omega
  have hprint : intToStr d v = .ok (d.sep.intercalate toks) := by
    simp only [intToStr, intToWords, if_pos hvv]; rfl
  have hsepform : d.sep.intercalate toks = [sepChar d].intercalate toks ∧
      isHex (sepChar d) = false ∧ sepChar d ≠ '\n' ∧ (f.sep = [sepChar d] ∨ (f.sep = [] ∧ toks.length = 1)) := by
    match hs : d.sep, h10 with
    | [], h10 =>
      have hn1 : d.numWords = 1 := by simpa using h10
      have : toks.length = 1 := by rw [htlen, hn1]
      match toks, this with
      | [t], _ =>
        refine ⟨by simp [List.intercalate, List.intersperse], by simp [sepChar, hs]; decide,
          by simp [sepChar, hs], Or.inr ⟨by rw [h1, hs], rfl⟩⟩
    | [c], h10 =>
      simp only [Bool.and_eq_true, Bool.not_eq_true', bne_iff_ne, ne_eq] at h10
      refine ⟨by simp [sepChar, hs], by simpa [sepChar, hs] using h10.1, by simpa [sepChar, hs] using h10.2,
        Or.inl (by rw [h1, hs]; simp [sepChar, hs])⟩
  refine ⟨by rw [hprint, hsepform.1], ?_, hsepform.2.2.2, by rw [htlen]; exact h2, ?_, h7, h6, ?_⟩
  · refine ⟨hsepform.2.1, hsepform.2.2.1, ?_, ?_⟩
    · intro e
      have : toks.length = 0 := by rw [e]; rfl
      omega
    · intro t ht
      simp only [toks, List.mem_map] at ht
      obtain ⟨w, _, rfl⟩ := ht
      exact ⟨fmtHex_ne_nil _ _ _, fun c hc => hexDigitChar_isHex c (fmtHex_chars _ _ _ c hc)⟩
  · intro t ht
    simp only [toks, List.mem_map] at ht
    obtain ⟨w, hw, rfl⟩ := ht
    have := fmtHex_length_bounds d.pad d.upper w p (hWlt w hw) h6
    omega
  · have hmap : toks.map tokVal = W := by
      simp only [toks, List.map_map]
      conv => rhs; rw [← List.map_id W]
      apply List.map_congr_left
      intro w _
      simp only [Function.comp, tokVal, fmtHex_val, Nat.zero_mul, Nat.zero_add, id]
    rw [hmap]
    simp only [W, List.reverse_reverse, ← h5, leValue_wordsLoop, h8]
    exact Nat.mod_eq_of_lt hv

end NV.Eui
