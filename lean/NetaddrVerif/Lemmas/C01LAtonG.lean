/-
Lemmas/C01LAtonG.lean — the modelled `inet_aton` accepts EXACTLY the BSD shorthand texts:
`Text4.aton s = some v ↔ AtonText s v`, where `AtonText` is a declarative description
(1-4 dot-separated C literals with the conventional ranges and value, optionally followed by
a C-locale whitespace character and then anything, no NUL anywhere).

The "if" direction re-does `aton_shorthand` with a tolerated tail; the "only if" direction
inverts `strtoul` and the part loop.  Core Lean only.
-/
import NetaddrVerif.Lemmas.C01LAton
namespace NV.C01L.AtonG
open NV NV.Text4 NV.C01L

/-! ### the declarative side -/

/-- what glibc tolerates after the last part: nothing, or one C-locale whitespace character
    followed by anything at all -/
def Tail (t : List Char) : Prop := t = [] ∨ ∃ c r, t = c :: r ∧ isCSpace c = true

/-- the dotted body: one to four C literals; non-last parts are bytes, the last part fills
    the remaining 32 / 24 / 16 / 8 bits -/
inductive Body : List Char → Nat → Prop
  | one (l0 : List Char) (a : Nat) (h0 : IsCLit l0 a) (ha : a ≤ 0xffffffff) : Body l0 a
  | two (l0 l1 : List Char) (a b : Nat) (h0 : IsCLit l0 a) (h1 : IsCLit l1 b)
      (ha : a ≤ 255) (hb : b ≤ 0xffffff) : Body (l0 ++ '.' :: l1) (a * 16777216 + b)
  | three (l0 l1 l2 : List Char) (a b c : Nat) (h0 : IsCLit l0 a) (h1 : IsCLit l1 b) (h2 : IsCLit l2 c)
      (ha : a ≤ 255) (hb : b ≤ 255) (hc : c ≤ 0xffff) :
      Body (l0 ++ '.' :: (l1 ++ '.' :: l2)) (a * 16777216 + b * 65536 + c)
  | four (l0 l1 l2 l3 : List Char) (a b c d : Nat) (h0 : IsCLit l0 a) (h1 : IsCLit l1 b) (h2 : IsCLit l2 c)
      (h3 : IsCLit l3 d) (ha : a ≤ 255) (hb : b ≤ 255) (hc : c ≤ 255) (hd : d ≤ 255) :
      Body (l0 ++ '.' :: (l1 ++ '.' :: (l2 ++ '.' :: l3))) (a * 16777216 + b * 65536 + c * 256 + d)

/-- the texts `inet_aton` reads, with their values -/
def AtonText (s : List Char) (v : Nat) : Prop :=
  Char.ofNat 0 ∉ s ∧ ∃ body tail, s = body ++ tail ∧ Body body v ∧ Tail tail

/-! ### character facts -/

theorem hex_of_dec (c : Char) (h : isDec c = true) : isHexC c = true := by
  simp only [isDec, Bool.and_eq_true, decide_eq_true_eq] at h
  simp [isHexC, h.1, h.2]

theorem dec_of_oct (c : Char) (h : isOct c = true) : isDec c = true := by
  simp only [isOct, Bool.and_eq_true, decide_eq_true_eq] at h
  have h2 : c ≤ '9' := Char.le_trans h.2 (by decide)
  simp [isDec, h.1, h2]

theorem hex_of_oct (c : Char) (h : isOct c = true) : isHexC c = true := hex_of_dec c (dec_of_oct c h)

theorem space_facts (c : Char) (h : isCSpace c = true) :
    isHexC c = false ∧ c ≠ 'x' ∧ c ≠ 'X' ∧ c ≠ '.' ∧ c ≠ '/' := by
  simp only [isCSpace, Bool.or_eq_true, beq_iff_eq] at h
  rcases h with ((((e | e) | e) | e) | e) | e <;> subst e <;> decide

/-- where a literal may stop: end of string, or a character that is neither a hex digit nor x/X -/
def Stop (rest : List Char) : Prop :=
  rest = [] ∨ ∃ c r, rest = c :: r ∧ isHexC c = false ∧ c ≠ 'x' ∧ c ≠ 'X'

theorem stop_of_tail (t : List Char) (h : Tail t) : Stop t := by
  rcases h with e | ⟨c, r, e, hc⟩
  · exact Or.inl e
  · obtain ⟨h1, h2, h3, _⟩ := space_facts c hc
    exact Or.inr ⟨c, r, e, h1, h2, h3⟩

theorem stop_dot (r : List Char) : Stop ('.' :: r) := Or.inr ⟨'.', r, rfl, by decide, by decide, by decide⟩

theorem span_stop {p : Char → Bool} (hp : ∀ c, p c = true → isHexC c = true) (l rest : List Char)
    (hl : ∀ x ∈ l, p x = true) (hrest : Stop rest) :
    (l ++ rest).takeWhile p = l ∧ (l ++ rest).dropWhile p = rest := by
  rcases hrest with e | ⟨c, r, e, hc, _, _⟩ <;> subst e
  · simp only [List.append_nil]
    exact ⟨takeWhile_self p l hl, dropWhile_nil_of_all p l hl⟩
  · have hpc : p c = false := by
      cases hq : p c with
      | false => rfl
      | true => rw [hp c hq] at hc; cases hc
    exact ⟨takeWhile_all p l c r hl hpc, dropWhile_all p l c r hl hpc⟩

/-- `strtoul` reads a literal up to any stopping point (generalises `strtoul_lit`) -/
theorem strtoul_lit_stop (lit : List Char) (val : Nat) (h : IsCLit lit val) (rest : List Char) (hrest : Stop rest) :
    strtoul (lit ++ rest) = (val, rest) := by
  cases h with
  | dec c r hc h0 hr =>
    have hall : ∀ x ∈ c :: r, isDec x = true := by
      intro x hx; rcases List.mem_cons.mp hx with e | e
      · subst e; exact hc
      · exact hr x e
    obtain ⟨e1, e2⟩ := span_stop (p := isDec) hex_of_dec (c :: r) rest hall hrest
    have key : strtoul (c :: (r ++ rest)) =
        (ofBase 10 ((c :: (r ++ rest)).takeWhile isDec), (c :: (r ++ rest)).dropWhile isDec) := by
      unfold strtoul
      split
      · rename_i heq; injection heq with h1 _; exact absurd h1 h0
      · rename_i heq; injection heq with h1 _; exact absurd h1 h0
      · rfl
    rw [List.cons_append, key, ← List.cons_append, e1, e2]
  | oct r hr =>
    have hall : ∀ x ∈ '0' :: r, isOct x = true := by
      intro x hx; rcases List.mem_cons.mp hx with e | e
      · subst e; decide
      · exact hr x e
    obtain ⟨e1, e2⟩ := span_stop (p := isOct) hex_of_oct ('0' :: r) rest hall hrest
    rw [List.cons_append] at e1 e2 ⊢
    cases hrr : r ++ rest with
    | nil =>
      have hr0 : r = [] := (List.append_eq_nil_iff.mp hrr).1
      have hrest0 : rest = [] := (List.append_eq_nil_iff.mp hrr).2
      subst hr0 hrest0
      simp [strtoul, ofBase, hexVal]
    | cons x r' =>
      have hx : (x == 'x' || x == 'X') = false := by
        cases r with
        | nil =>
          simp only [List.nil_append] at hrr
          rcases hrest with e | ⟨c, r2, e, _, hx1, hx2⟩
          · rw [e] at hrr; cases hrr
          · rw [e] at hrr; injection hrr with h1 _; subst h1
            simp [hx1, hx2]
        | cons y r2 =>
          simp only [List.cons_append] at hrr
          injection hrr with h1 _
          subst h1
          exact isOct_not_x _ (hr _ (by simp))
      rw [hrr] at e1 e2
      unfold strtoul
      simp only [hx, Bool.false_eq_true, if_false, e1, e2]
  | hex x r hx hne hr =>
    obtain ⟨e1, e2⟩ := span_stop (p := isHexC) (fun _ h => h) r rest hr hrest
    have hxx : (x == 'x' || x == 'X') = true := by
      rcases hx with e | e <;> subst e <;> decide
    have hemp : r.isEmpty = false := by
      cases r with
      | nil => exact absurd rfl hne
      | cons _ _ => rfl
    show strtoul ('0' :: x :: (r ++ rest)) = _
    unfold strtoul
    simp only [hxx, if_true, e1, e2, hemp, Bool.false_eq_true, if_false]

/-- the last part, followed by a tolerated tail -/
theorem atonLoop_end_tail (f : Nat) (lit : List Char) (val : Nat) (h : IsCLit lit val) (hv : val ≤ 4294967295)
    (tail : List Char) (ht : Tail tail) (parts : List Nat) :
    atonLoop (f + 1) (lit ++ tail) parts = some (parts, val) := by
  obtain ⟨c, tl, hs, hc⟩ := lit_head lit val h tail
  have hst := strtoul_lit_stop lit val h tail (stop_of_tail tail ht)
  rw [hs] at hst ⊢
  simp only [atonLoop, hc, hst]
  have h1 : ¬ (val > 4294967295) := by omega
  rcases ht with e | ⟨c', r', e, hsp⟩
  · subst e; simp [h1]
  · subst e
    have hd : (c' == '.') = false := beq_eq_false_iff_ne.mpr (space_facts c' hsp).2.2.2.1
    simp [h1, hd, hsp]

/-! ### `aton` with its inline `let`s named -/

def maxLast (n : Nat) : Nat :=
  match n with
  | 0 => 0xffffffff | 1 => 0xffffff | 2 => 0xffff | _ => 0xff

def hiOf (parts : List Nat) : Nat :=
  match parts with
  | [] => 0
  | [a] => a <<< 24
  | [a, b] => (a <<< 24) ||| (b <<< 16)
  | a :: b :: c :: _ => (a <<< 24) ||| (b <<< 16) ||| (c <<< 8)

theorem maxLast_0 : maxLast 0 = 4294967295 := rfl
theorem maxLast_1 : maxLast 1 = 16777215 := rfl
theorem maxLast_2 : maxLast 2 = 65535 := rfl
theorem maxLast_3 : maxLast 3 = 255 := rfl
theorem hiOf_0 : hiOf [] = 0 := rfl
theorem hiOf_1 (a : Nat) : hiOf [a] = a <<< 24 := rfl
theorem hiOf_2 (a b : Nat) : hiOf [a, b] = a <<< 24 ||| b <<< 16 := rfl
theorem hiOf_3 (a b c : Nat) : hiOf [a, b, c] = a <<< 24 ||| b <<< 16 ||| c <<< 8 := rfl

theorem aton_eq (s : List Char) : Text4.aton s =
    if s.any (fun c => c.toNat == 0) then none else
    match atonLoop 4 s [] with
    | none => none
    | some (parts, val) => if val > maxLast parts.length then none else some (hiOf parts ||| val) := rfl

theorem no_nul_iff (s : List Char) : s.any (fun c => c.toNat == 0) = false ↔ Char.ofNat 0 ∉ s := by
  constructor
  · intro h hm
    have : s.any (fun c => c.toNat == 0) = true := List.any_eq_true.mpr ⟨_, hm, by decide⟩
    rw [h] at this; cases this
  · intro h
    apply Bool.eq_false_iff.mpr
    intro hany
    obtain ⟨c, hc, hz⟩ := List.any_eq_true.mp hany
    have hz' : c.toNat = 0 := by simpa using hz
    have : c = Char.ofNat 0 := by rw [← hz', Char.ofNat_toNat]
    exact h (this ▸ hc)

/-! ### "if": every text of the grammar is read with its value -/

theorem aton_of_text (s : List Char) (v : Nat) (h : AtonText s v) : Text4.aton s = some v := by
  obtain ⟨hnul, body, tail, rfl, hb, ht⟩ := h
  unfold Text4.aton
  rw [(no_nul_iff _).mpr hnul]
  simp only [Bool.false_eq_true, if_false]
  cases hb with
  | one _ _ h0 ha =>
    rw [atonLoop_end_tail 3 body v h0 ha tail ht []]
    have : ¬ (v > 4294967295) := by omega
    simp [this]
  | two l0 l1 a b h0 h1 ha hb =>
    have e : (l0 ++ '.' :: l1) ++ tail = l0 ++ '.' :: (l1 ++ tail) := by simp
    rw [e, atonLoop_part 3 l0 a h0 ha _ [] (by simp), atonLoop_end_tail 2 l1 b h1 (by omega) tail ht _]
    have : ¬ (b > 16777215) := by omega
    simp only [List.nil_append, List.length_cons, List.length_nil, this, if_false]
    rw [or_low a b 24 (by omega)]
  | three l0 l1 l2 a b c h0 h1 h2 ha hb hc =>
    have e : (l0 ++ '.' :: (l1 ++ '.' :: l2)) ++ tail = l0 ++ '.' :: (l1 ++ '.' :: (l2 ++ tail)) := by simp
    rw [e, atonLoop_part 3 l0 a h0 ha _ [] (by simp), atonLoop_part 2 l1 b h1 hb _ _ (by simp),
      atonLoop_end_tail 1 l2 c h2 (by omega) tail ht _]
    have : ¬ (c > 65535) := by omega
    simp only [List.nil_append, List.cons_append, List.length_cons, List.length_nil, this, if_false]
    have e1 : a <<< 24 ||| b <<< 16 = (a * 256 + b) <<< 16 := by
      have : a <<< 24 = (a <<< 8) <<< 16 := by rw [← Nat.shiftLeft_add]
      rw [this, ← Nat.shiftLeft_or_distrib, ← Nat.shiftLeft_add_eq_or_of_lt (by omega : b < 2 ^ 8)]
      simp [Nat.shiftLeft_eq]
    have e2 : (a * 256 + b) * 2 ^ 16 + c = a * 16777216 + b * 65536 + c := by
      simp only [Nat.reducePow]; omega
    rw [e1, or_low _ c 16 (by omega), e2]
  | four l0 l1 l2 l3 a b c d h0 h1 h2 h3 ha hb hc hd =>
    have e : (l0 ++ '.' :: (l1 ++ '.' :: (l2 ++ '.' :: l3))) ++ tail =
        l0 ++ '.' :: (l1 ++ '.' :: (l2 ++ '.' :: (l3 ++ tail))) := by simp
    rw [e, atonLoop_part 3 l0 a h0 ha _ [] (by simp), atonLoop_part 2 l1 b h1 hb _ _ (by simp),
      atonLoop_part 1 l2 c h2 hc _ _ (by simp), atonLoop_end_tail 0 l3 d h3 (by omega) tail ht _]
    have : ¬ (d > 255) := by omega
    simp only [List.nil_append, List.cons_append, List.length_cons, List.length_nil, this, if_false]
    rw [or_bytes a b c d (by omega) (by omega) (by omega)]

/-! ### "only if": inverting `strtoul` and the part loop -/

theorem mem_takeWhile {α} (p : α → Bool) (l : List α) : ∀ x ∈ l.takeWhile p, p x = true := by
  induction l with
  | nil => intro x hx; cases hx
  | cons a t ih =>
    intro x hx
    rw [List.takeWhile_cons] at hx
    by_cases ha : p a = true
    · simp only [ha, if_true] at hx
      rcases List.mem_cons.mp hx with e | e
      · subst e; exact ha
      · exact ih x e
    · simp only [ha] at hx; cases hx

/-- whatever `strtoul` consumed from a string starting with a digit is a C literal of the value
    returned, unless it stopped right at the `x` of a bare `0x` -/
theorem strtoul_inv (c : Char) (t : List Char) (hc : isDec c = true) (val : Nat) (rest : List Char)
    (h : strtoul (c :: t) = (val, rest)) (hrest : ∀ c' r', rest = c' :: r' → c' ≠ 'x' ∧ c' ≠ 'X') :
    ∃ lit, IsCLit lit val ∧ c :: t = lit ++ rest := by
  unfold strtoul at h
  split at h
  · rename_i x r heq
    injection heq with hc0 ht
    subst hc0 ht
    split at h
    · rename_i hx
      have hxx : x = 'x' ∨ x = 'X' := by simpa using hx
      dsimp only at h
      split at h
      · -- bare "0x": stops at the x
        exfalso
        injection h with _ h2
        obtain ⟨n1, n2⟩ := hrest x r h2.symm
        rcases hxx with e | e
        · exact n1 e
        · exact n2 e
      · rename_i hne
        injection h with h1 h2
        subst h1 h2
        refine ⟨'0' :: x :: r.takeWhile isHexC, IsCLit.hex x _ hxx ?_ (mem_takeWhile isHexC r), ?_⟩
        · intro e; rw [e] at hne; exact hne rfl
        · simp [List.takeWhile_append_dropWhile]
    · injection h with h1 h2
      subst h1 h2
      have e1 : ('0' :: x :: r).takeWhile isOct = '0' :: (x :: r).takeWhile isOct := by
        rw [List.takeWhile_cons]; simp [isOct]
      have e2 : ('0' :: x :: r).dropWhile isOct = (x :: r).dropWhile isOct := by
        rw [List.dropWhile_cons]; simp [isOct]
      refine ⟨'0' :: (x :: r).takeWhile isOct, ?_, ?_⟩
      · rw [e1]; exact IsCLit.oct _ (mem_takeWhile isOct _)
      · rw [e2, List.cons_append, List.takeWhile_append_dropWhile]
  · rename_i r hno heq
    injection heq with hc0 ht
    subst hc0 ht
    cases t with
    | cons x r' => exact absurd rfl (hno x r')
    | nil =>
      injection h with h1 h2
      subst h1 h2
      exact ⟨['0'], IsCLit.oct [] (by intro x hx; cases hx), rfl⟩
  · rename_i hno1 hno2
    have h0 : c ≠ '0' := by
      intro e; subst e; exact hno2 t rfl
    injection h with h1 h2
    subst h1 h2
    have e1 : (c :: t).takeWhile isDec = c :: t.takeWhile isDec := by
      rw [List.takeWhile_cons]; simp [hc]
    have e2 : (c :: t).dropWhile isDec = t.dropWhile isDec := by
      rw [List.dropWhile_cons]; simp [hc]
    refine ⟨c :: t.takeWhile isDec, ?_, ?_⟩
    · rw [e1]; exact IsCLit.dec c _ hc h0 (mem_takeWhile isDec t)
    · rw [e2, List.cons_append, List.takeWhile_append_dropWhile]

/-- one round of the part loop, read backwards -/
theorem atonLoop_inv (f : Nat) (s : List Char) (parts ps : List Nat) (val : Nat)
    (h : atonLoop (f + 1) s parts = some (ps, val)) :
    ∃ lit x, IsCLit lit x ∧ x ≤ 0xffffffff ∧
      ((∃ tail, s = lit ++ tail ∧ Tail tail ∧ ps = parts ∧ val = x) ∨
       (∃ r, s = lit ++ '.' :: r ∧ parts.length < 3 ∧ x ≤ 255 ∧ atonLoop f r (parts ++ [x]) = some (ps, val))) := by
  unfold atonLoop at h
  cases s with
  | nil => cases h
  | cons c t =>
    simp only [] at h
    split at h
    · cases h
    · rename_i hcd
      have hc : isDec c = true := by simpa using hcd
      generalize hst : strtoul (c :: t) = st at h
      obtain ⟨x, rest⟩ := st
      simp only [] at h
      split at h
      · cases h
      · rename_i hbig
        have hx : x ≤ 0xffffffff := by omega
        cases rest with
        | nil =>
          simp only [] at h
          injection h with h; injection h with h1 h2
          obtain ⟨lit, hl, e⟩ := strtoul_inv c t hc x [] hst (by intro c' r' e; cases e)
          exact ⟨lit, x, hl, hx, Or.inl ⟨[], e, Or.inl rfl, h1.symm, h2.symm⟩⟩
        | cons c' rest' =>
          simp only [] at h
          split at h
          · rename_i hdot
            have hd : c' = '.' := by simpa using hdot
            subst hd
            split at h
            · cases h
            · rename_i hguard
              simp only [Bool.or_eq_true, decide_eq_true_eq, not_or] at hguard
              obtain ⟨lit, hl, e⟩ := strtoul_inv c t hc x ('.' :: rest') hst
                (by intro c' r' e; injection e with e1 _; subst e1; exact ⟨by decide, by decide⟩)
              exact ⟨lit, x, hl, hx, Or.inr ⟨rest', e, by omega, by omega, h⟩⟩
          · split at h
            · rename_i hsp
              injection h with h; injection h with h1 h2
              obtain ⟨lit, hl, e⟩ := strtoul_inv c t hc x (c' :: rest') hst
                (by intro c'' r' e; injection e with e1 _; subst e1
                    exact ⟨(space_facts _ hsp).2.1, (space_facts _ hsp).2.2.1⟩)
              exact ⟨lit, x, hl, hx, Or.inl ⟨c' :: rest', e, Or.inr ⟨c', rest', rfl, hsp⟩, h1.symm, h2.symm⟩⟩
            · cases h

/-- the structure of an accepted text, with the bound `aton` checks on the last part -/
theorem text_of_aton (s : List Char) (v : Nat) (h : Text4.aton s = some v) : ∃ v', AtonText s v' := by
  rw [aton_eq] at h
  split at h
  · cases h
  · rename_i hnul
    have hnul' : Char.ofNat 0 ∉ s := (no_nul_iff s).mp (by simpa using hnul)
    split at h
    · cases h
    · rename_i parts val hloop
      split at h
      · cases h
      · rename_i hmax
        clear h
        -- first part
        obtain ⟨l0, a, h0, ha, alt⟩ := atonLoop_inv 3 s [] parts val hloop
        rcases alt with ⟨tail, e, ht, hp, hv⟩ | ⟨r1, e1, _, ha', hloop1⟩
        · subst hp hv
          exact ⟨_, hnul', l0, tail, e, Body.one l0 _ h0 ha, ht⟩
        -- second part
        obtain ⟨l1, b, h1, hb, alt⟩ := atonLoop_inv 2 r1 _ parts val hloop1
        rcases alt with ⟨tail, e, ht, hp, hv⟩ | ⟨r2, e2, _, hb', hloop2⟩
        · subst hp hv
          have hb2 : val ≤ 0xffffff := by
            simp only [List.nil_append, List.length_cons, List.length_nil, Nat.zero_add, maxLast_1] at hmax; omega
          exact ⟨_, hnul', l0 ++ '.' :: l1, tail, by rw [e1, e]; simp, Body.two l0 l1 a _ h0 h1 ha' hb2, ht⟩
        -- third part
        obtain ⟨l2, c, h2, hc, alt⟩ := atonLoop_inv 1 r2 _ parts val hloop2
        rcases alt with ⟨tail, e, ht, hp, hv⟩ | ⟨r3, e3, _, hc', hloop3⟩
        · subst hp hv
          have hc2 : val ≤ 0xffff := by
            simp only [List.nil_append, List.cons_append, List.length_cons, List.length_nil, Nat.zero_add, Nat.reduceAdd, maxLast_2] at hmax; omega
          exact ⟨_, hnul', l0 ++ '.' :: (l1 ++ '.' :: l2), tail, by rw [e1, e2, e]; simp,
            Body.three l0 l1 l2 a b _ h0 h1 h2 ha' hb' hc2, ht⟩
        -- fourth part
        obtain ⟨l3, d, h3, hd, alt⟩ := atonLoop_inv 0 r3 _ parts val hloop3
        rcases alt with ⟨tail, e, ht, hp, hv⟩ | ⟨r4, _, hlen, _, _⟩
        · subst hp hv
          have hd2 : val ≤ 0xff := by
            simp only [List.nil_append, List.cons_append, List.length_cons, List.length_nil, Nat.zero_add, Nat.reduceAdd, maxLast_3] at hmax; omega
          exact ⟨_, hnul', l0 ++ '.' :: (l1 ++ '.' :: (l2 ++ '.' :: l3)), tail, by rw [e1, e2, e3, e]; simp,
            Body.four l0 l1 l2 l3 a b c _ h0 h1 h2 h3 ha' hb' hc' hd2, ht⟩
        · simp at hlen

/-- **`inet_aton` = the BSD shorthand grammar**, for every string -/
theorem aton_iff (s : List Char) (v : Nat) : Text4.aton s = some v ↔ AtonText s v := by
  constructor
  · intro h
    obtain ⟨v', h'⟩ := text_of_aton s v h
    have := aton_of_text s v' h'
    rw [h] at this
    injection this with e
    subst e; exact h'
  · exact aton_of_text s v

/-- the grammar is unambiguous -/
theorem atonText_functional (s : List Char) (v v' : Nat) (h : AtonText s v) (h' : AtonText s v') : v = v' := by
  have a := aton_of_text s v h
  have b := aton_of_text s v' h'
  rw [a] at b; injection b

end NV.C01L.AtonG
