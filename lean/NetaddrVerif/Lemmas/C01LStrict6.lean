/-
Lemmas/C01LStrict6.lean — necessary conditions for `inet_pton(AF_INET6, ·)` (model) to accept a
string: every colon-separated piece is empty, a group of 1-4 hex digits, or a canonical dotted
quad; hence only hex digits, ':' and '.' occur.  Core Lean only.
-/
import NetaddrVerif.Lemmas.C01LStrict
import NetaddrVerif.Lemmas.C01LCross
namespace NV.C01L
open NV NV.Text4 NV.Text6

/-- an acceptable colon-separated piece -/
def GoodPiece (t : List Char) : Prop :=
  t = [] ∨ (1 ≤ t.length ∧ t.length ≤ 4 ∧ ∀ c ∈ t, isHexC c = true) ∨ (∃ v, v < 2 ^ 32 ∧ t = ntoa v)

theorem groups_pieces (toks : List (List Char)) (ws : List Nat) (gap : Option Nat) (r : List Nat × Option Nat)
    (h : groups toks ws gap = some r) : ∀ t ∈ toks, GoodPiece t := by
  induction toks generalizing ws gap with
  | nil => intro t ht; simp at ht
  | cons t rest ih =>
    unfold groups at h
    intro x hx
    by_cases he : t.isEmpty = true
    · simp only [he, if_true] at h
      rcases List.mem_cons.mp hx with e | e
      · subst e; exact Or.inl (List.isEmpty_iff.mp he)
      · exact ih _ _ h x e
    · simp only [he, Bool.false_eq_true, if_false] at h
      by_cases hd : t.contains '.' = true
      · simp only [hd, if_true] at h
        cases hr : rest with
        | cons a b => simp [hr] at h
        | nil =>
          simp only [hr, List.isEmpty_nil, Bool.not_true, Bool.false_eq_true, if_false] at h
          cases hp : Text4.pton4 t with
          | none => simp [hp] at h
          | some v4 =>
            have := (pton4_iff t v4).mp hp
            rw [hr] at hx
            simp only [List.mem_singleton] at hx
            subst hx
            exact Or.inr (Or.inr ⟨v4, this.1, this.2⟩)
      · simp only [hd, Bool.false_eq_true, if_false] at h
        cases hh : hextet t with
        | none => simp [hh] at h
        | some hv =>
          simp only [hh] at h
          rcases List.mem_cons.mp hx with e | e
          · subst e
            unfold hextet at hh
            split at hh
            · rename_i hc; exact Or.inr (Or.inl ⟨hc.1, hc.2.1, List.all_eq_true.mp hc.2.2⟩)
            · cases hh
          · exact ih _ _ h x e

theorem trimFront_mem (toks t1 : List (List Char)) (h : trimFront toks = some t1) :
    ∀ t ∈ toks, t = [] ∨ t ∈ t1 := by
  unfold trimFront at h
  split at h
  · rename_i t0 ta rest
    by_cases h0 : t0.isEmpty = true
    · simp only [h0, if_true] at h
      by_cases ha : ta.isEmpty = true
      · simp only [ha, if_true, Option.some.injEq] at h
        subst h
        intro t ht
        rcases List.mem_cons.mp ht with e | e
        · subst e; exact Or.inl (List.isEmpty_iff.mp h0)
        · exact Or.inr e
      · simp [ha] at h
    · simp only [h0, Bool.false_eq_true, if_false, Option.some.injEq] at h
      subst h; intro t ht; exact Or.inr ht
  · cases h; intro t ht; exact Or.inr ht

theorem trimBack_mem (t1 t2 : List (List Char)) (h : trimBack t1 = some t2) :
    ∀ t ∈ t1, t = [] ∨ t ∈ t2 := by
  unfold trimBack at h
  by_cases hl : (t1.getLast? == some []) = true
  · simp only [hl, if_true] at h
    split at h
    · cases h
      have hl' : t1.getLast? = some [] := by simpa using hl
      obtain ⟨L, rfl⟩ := List.getLast?_eq_some_iff.mp hl'
      rw [List.dropLast_concat]
      intro t ht
      rcases List.mem_append.mp ht with e | e
      · exact Or.inr e
      · simp only [List.mem_singleton] at e; exact Or.inl e
    · cases h
  · simp only [hl, Bool.false_eq_true, if_false, Option.some.injEq] at h
    subst h; intro t ht; exact Or.inr ht

/-- every colon-separated piece of an accepted string is empty, a hex group or a dotted quad -/
theorem pton6_pieces (s : List Char) (v : Nat) (h : Text6.pton6 s = some v) :
    ∀ t ∈ s.splitOn ':', GoodPiece t := by
  unfold Text6.pton6 at h
  simp only at h
  split at h
  · cases h
  · cases hf : trimFront (s.splitOn ':') with
    | none => simp [hf] at h
    | some t1 =>
      simp only [hf] at h
      cases hb : trimBack t1 with
      | none => simp [hb] at h
      | some t2 =>
        simp only [hb] at h
        split at h
        · cases h
        · cases hg : groups t2 [] none with
          | none => simp [hg] at h
          | some r =>
            have hp := groups_pieces t2 [] none r hg
            intro t ht
            rcases trimFront_mem _ _ hf t ht with e | e
            · exact Or.inl e
            · rcases trimBack_mem _ _ hb t e with e2 | e2
              · exact Or.inl e2
              · exact hp t e2

/-- only hex digits, ':' and '.' occur in an accepted string -/
theorem pton6_charset (s : List Char) (v : Nat) (h : Text6.pton6 s = some v) :
    ∀ c ∈ s, isHexC c = true ∨ c = ':' ∨ c = '.' := by
  intro c hc
  by_cases hcol : c = ':'
  · exact Or.inr (Or.inl hcol)
  · obtain ⟨p, hp, hcp⟩ := mem_splitOn ':' c s hc hcol
    rcases pton6_pieces s v h p hp with e | ⟨_, _, hall⟩ | ⟨x, hx, e⟩
    · subst e; simp at hcp
    · exact Or.inl (hall c hcp)
    · subst e
      rcases mem_ntoa x c hcp with e | e | e | e | e
      · exact Or.inr (Or.inr e)
      all_goals
        have hd := (dec_facts _ (by first | exact (octs_lt x hx).1 | exact (octs_lt x hx).2.1 | exact (octs_lt x hx).2.2.1 | exact (octs_lt x hx).2.2.2)).1 c e
        left
        simp only [isDec, Bool.and_eq_true, decide_eq_true_eq] at hd
        simp only [isHexC, Bool.or_eq_true, Bool.and_eq_true, decide_eq_true_eq]
        exact Or.inl (Or.inl hd)

end NV.C01L
