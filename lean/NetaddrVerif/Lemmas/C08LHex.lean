/-
Lemmas/C08LHex.lean — hexadecimal numerals: `Nat.toDigits 16`, `fmtHex`, the hex character
class of the MAC regular expressions, and `joinWords`.  Core only.
-/
import NetaddrVerif.Model.Eui
import NetaddrVerif.Lemmas.C15LPyInt
import NetaddrVerif.Lemmas.C15LBits
namespace NV.Eui
open NV.Py NV.PyL NV.Codec

/-! ### the character class -/

theorem isHex_ascii (c : Char) (h : isHex c = true) : c.toNat < 128 := by
  apply Classical.byContradiction
  intro hn
  have h9 : ¬ c ≤ '9' := by
    rw [Char.le_def, UInt32.le_iff_toNat_le]; show ¬ c.toNat ≤ 57; omega
  have hf : ¬ c ≤ 'f' := by
    rw [Char.le_def, UInt32.le_iff_toNat_le]; show ¬ c.toNat ≤ 102; omega
  have hF : ¬ c ≤ 'F' := by
    rw [Char.le_def, UInt32.le_iff_toNat_le]; show ¬ c.toNat ≤ 70; omega
  simp [isHex, h9, hf, hF] at h

theorem isHex_tab : ∀ n, n < 128 → isHex (Char.ofNat n) = (digitVal 16 (Char.ofNat n)).isSome := by
  decide +kernel

theorem isHex_iff (c : Char) : isHex c = true ↔ ∃ d, digitVal 16 c = some d := by
  constructor
  · intro h
    have := isHex_tab c.toNat (isHex_ascii c h)
    rw [Char.ofNat_toNat, h] at this
    cases hd : digitVal 16 c with
    | none => rw [hd] at this; cases this
    | some d => exact ⟨d, rfl⟩
  · rintro ⟨d, hd⟩
    have := isHex_tab c.toNat (digitVal_ascii 16 c d hd)
    rw [Char.ofNat_toNat, hd] at this
    exact this

/-- a character that is the lower- or upper-case spelling of a hex digit -/
def IsHexDigitChar (c : Char) : Prop := ∃ d, d < 16 ∧ (c = Nat.digitChar d ∨ c = (Nat.digitChar d).toUpper)

theorem digitChar_val : ∀ d, d < 16 → digitVal 16 (Nat.digitChar d) = some d ∧
    digitVal 16 (Nat.digitChar d).toUpper = some d := by decide +kernel

theorem hexDigitChar_val (c : Char) (h : IsHexDigitChar c) : ∃ d, digitVal 16 c = some d := by
  obtain ⟨d, hd, rfl | rfl⟩ := h
  · exact ⟨d, (digitChar_val d hd).1⟩
  · exact ⟨d, (digitChar_val d hd).2⟩

/-! ### `Nat.toDigits 16` -/

theorem toDigits16_spec (n : Nat) : ∀ acc,
    (∀ c ∈ Nat.toDigits 16 n, ∃ d, d < 16 ∧ c = Nat.digitChar d) ∧
    digitsNat 16 (Nat.toDigits 16 n) acc = acc * 16 ^ (Nat.toDigits 16 n).length + n ∧
    digitsNat 16 ((Nat.toDigits 16 n).map Char.toUpper) acc = acc * 16 ^ (Nat.toDigits 16 n).length + n ∧
    (∀ k, (Nat.toDigits 16 n).length ≤ k ↔ (n < 16 ^ k ∧ 1 ≤ k)) := by
  induction n using Nat.strongRecOn with
  | ind n ih =>
    intro acc
    rw [Nat.toDigits_eq_if (by decide)]
    by_cases h : n < 16
    · simp only [h, if_true]
      refine ⟨?_, ?_, ?_, ?_⟩
      · intro c hc; simp only [List.mem_singleton] at hc; exact ⟨n, h, hc⟩
      · simp [digitsNat, (digitChar_val n h).1]
      · simp [digitsNat, (digitChar_val n h).2]
      · intro k
        simp only [List.length_singleton]
        constructor
        · intro hk; refine ⟨?_, hk⟩
          have : 16 ^ 1 ≤ 16 ^ k := Nat.pow_le_pow_right (by decide) hk
          omega
        · intro hk; exact hk.2
    · simp only [h, if_false]
      have hlt : n / 16 < n := Nat.div_lt_self (by omega) (by decide)
      have hm : n % 16 < 16 := Nat.mod_lt _ (by decide)
      obtain ⟨i1, i2, i3, i4⟩ := ih (n / 16) hlt acc
      refine ⟨?_, ?_, ?_, ?_⟩
      · intro c hc
        simp only [List.mem_append, List.mem_singleton] at hc
        rcases hc with hc | rfl
        · exact i1 c hc
        · exact ⟨n % 16, hm, rfl⟩
      · rw [digitsNat_append, i2]
        simp only [digitsNat, List.foldl_cons, List.foldl_nil, List.length_append, List.length_singleton,
          Nat.pow_succ, (digitChar_val _ hm).1, Option.getD_some]
        rw [Nat.add_mul, Nat.mul_assoc]; omega
      · rw [List.map_append, digitsNat_append, i3]
        simp only [digitsNat, List.map_cons, List.map_nil, List.foldl_cons, List.foldl_nil, List.length_append,
          List.length_singleton, Nat.pow_succ, (digitChar_val _ hm).2, Option.getD_some]
        rw [Nat.add_mul, Nat.mul_assoc]; omega
      · intro k
        simp only [List.length_append, List.length_singleton]
        cases k with
        | zero => simp
        | succ k =>
          rw [Nat.add_le_add_iff_right, i4 k, Nat.pow_succ]
          constructor
          · rintro ⟨a, b⟩; exact ⟨by omega, by omega⟩
          · rintro ⟨a, _⟩
            refine ⟨by omega, ?_⟩
            cases k with
            | zero => simp at a; omega
            | succ k => omega

/-! ### `fmtHex` -/

theorem digitsNat_zeros (k : Nat) (s : List Char) (acc : Nat) :
    digitsNat 16 (List.replicate k '0' ++ s) acc = digitsNat 16 s (acc * 16 ^ k) := by
  induction k generalizing acc with
  | zero => simp
  | succ k ih =>
    rw [List.replicate_succ, List.cons_append]
    simp only [digitsNat, List.foldl_cons] at ih ⊢
    have h0 : (digitVal 16 '0').getD 0 = 0 := by decide
    rw [h0, ih, Nat.pow_succ]
    congr 1
    rw [Nat.add_zero, Nat.mul_assoc, Nat.mul_comm 16]

theorem fmtHex_chars (pad : Nat) (upper : Bool) (n : Nat) : ∀ c ∈ fmtHex pad upper n, IsHexDigitChar c := by
  have hd := (toDigits16_spec n 0).1
  have hraw : ∀ c ∈ List.replicate (pad - (Nat.toDigits 16 n).length) '0' ++ Nat.toDigits 16 n,
      ∃ d, d < 16 ∧ c = Nat.digitChar d := by
    intro c hc
    simp only [List.mem_append, List.mem_replicate] at hc
    rcases hc with ⟨_, rfl⟩ | hc
    · exact ⟨0, by decide, rfl⟩
    · exact hd c hc
  intro c hc
  simp only [fmtHex] at hc
  split at hc
  · simp only [List.mem_map] at hc
    obtain ⟨x, hx, rfl⟩ := hc
    obtain ⟨d, h1, rfl⟩ := hraw x hx
    exact ⟨d, h1, Or.inr rfl⟩
  · obtain ⟨d, h1, rfl⟩ := hraw c hc
    exact ⟨d, h1, Or.inl rfl⟩

theorem fmtHex_length (pad : Nat) (upper : Bool) (n : Nat) :
    (fmtHex pad upper n).length = max pad (Nat.toDigits 16 n).length := by
  simp only [fmtHex]
  split <;> simp <;> omega

theorem toUpper_zero : Char.toUpper '0' = '0' := by decide

/-- value of the formatted word, continuing an accumulator -/
theorem fmtHex_val (pad : Nat) (upper : Bool) (n acc : Nat) :
    digitsNat 16 (fmtHex pad upper n) acc = acc * 16 ^ (fmtHex pad upper n).length + n := by
  obtain ⟨_, t2, t3, _⟩ := toDigits16_spec n (acc * 16 ^ (pad - (Nat.toDigits 16 n).length))
  have hl : (fmtHex pad upper n).length = (pad - (Nat.toDigits 16 n).length) + (Nat.toDigits 16 n).length := by
    rw [fmtHex_length]; omega
  rw [hl, Nat.pow_add, ← Nat.mul_assoc]
  simp only [fmtHex]
  split
  · rw [List.map_append, List.map_replicate, toUpper_zero, digitsNat_zeros, t3]
  · rw [digitsNat_zeros, t2]

theorem fmtHex_ne_nil (pad : Nat) (upper : Bool) (n : Nat) : fmtHex pad upper n ≠ [] := by
  intro h
  have := fmtHex_length pad upper n
  rw [h] at this
  have h1 : (Nat.toDigits 16 n).length ≠ 0 := by
    intro e; exact Nat.toDigits_ne_nil (List.length_eq_zero_iff.mp e)
  simp at this; omega

/-- bounds on the printed length of a word below 16^k -/
theorem fmtHex_length_bounds (pad : Nat) (upper : Bool) (n k : Nat) (hn : n < 16 ^ k) (hk : 1 ≤ k) :
    max pad 1 ≤ (fmtHex pad upper n).length ∧ (fmtHex pad upper n).length ≤ max pad k := by
  have h1 : (Nat.toDigits 16 n).length ≤ k := ((toDigits16_spec n 0).2.2.2 k).mpr ⟨hn, hk⟩
  have h2 : 1 ≤ (Nat.toDigits 16 n).length := by
    cases h : Nat.toDigits 16 n with
    | nil => exact absurd h Nat.toDigits_ne_nil
    | cons _ _ => simp
  rw [fmtHex_length]; omega

/-! ### Horner evaluation in base 2^k -/

theorem horner_eq (k : Nat) (xs : List Nat) : ∀ acc,
    xs.foldl (fun a n => a * 2 ^ k + n) acc = acc * 2 ^ (k * xs.length) + leValue k xs.reverse := by
  induction xs with
  | nil => intro acc; simp [leValue]
  | cons b t ih =>
    intro acc
    rw [List.foldl_cons, ih, List.reverse_cons, leValue_append]
    simp only [List.length_reverse, leValue, List.length_cons]
    have e : (2 : Nat) ^ (k * (t.length + 1)) = 2 ^ k * 2 ^ (k * t.length) := by
      rw [Nat.mul_succ, Nat.pow_add, Nat.mul_comm]
    rw [e, Nat.add_mul, Nat.mul_assoc]
    simp only [Nat.mul_zero, Nat.add_zero]
    rw [Nat.mul_comm b]; omega

end NV.Eui
