/-
Lemmas/IPSetIter2.lean — the queries as steps over the store of live sets: purity, totality,
and the equality of the driver's faster evaluation (`evalQFast`, dictionary keys computed once
per query) with the definitional one (`evalQ`).  No invariant is needed for any of this.
-/
import NetaddrVerif.Lemmas.IPSetL11
namespace NV.IPSet.Iter
open NV NV.IPSet

/-! ### the faster spellings are equal to the definitions -/

theorem vrOf_beq (c k : Net) : (vrOf c == vrOf k) = keyEq c k := by
  unfold vrOf keyEq
  show ((c.ver == k.ver) && ((c.first == k.first) && (c.last == k.last))) = _
  rw [Bool.and_assoc]

theorem dMemK_eq (s : St) (k : Net) : dMemK (s.map vrOf) k = dMem s k := by
  unfold dMemK dMem
  simp only [List.any_map]
  congr 1
  funext c
  exact vrOf_beq c k

theorem containsK_eq (s : St) (n : Net) : containsK (s.map vrOf) n = contains s n := by
  unfold containsK contains
  congr 1
  funext q
  exact dMemK_eq s _

theorem issubsetK_eq (s t : St) : issubsetK s t = issubset s t := by
  unfold issubsetK issubset
  show (s.all fun c => containsK (t.map vrOf) c) = _
  congr 1
  funext c
  exact containsK_eq t c

theorem eqK_eq (s t : St) : eqK s t = IPSet.eq s t := by
  unfold eqK IPSet.eq
  show (s.length == t.length && s.all fun c => dMemK (t.map vrOf) c) = _
  congr 2
  funext c
  exact dMemK_eq t c

theorem issuperset_eq_issubset (s t : St) : issuperset s t = issubset t s := rfl

/-- the driver's evaluation of a query is the model's -/
theorem evalQFast_eq (maxint : Nat) (sets : Store) (q : QOp) :
    evalQFast maxint sets q = evalQ maxint sets q := by
  cases q <;> simp only [evalQFast, evalQ, eqK_eq, issubsetK_eq, containsK_eq, IPSet.ne, IPSet.le, IPSet.ge,
    IPSet.lt, IPSet.gt, issuperset_eq_issubset]

end NV.IPSet.Iter
