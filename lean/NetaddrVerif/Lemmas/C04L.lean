/-
Lemmas/C04L.lean — helper lemmas for C04: each hand-written comparison of Model/Contains.lean
is interval inclusion (core Lean only).
-/
import NetaddrVerif.Lemmas.NetworkL
import NetaddrVerif.Lemmas.Canon
import NetaddrVerif.Model.Contains
namespace NV.Contains
open NV

/-- well-formed `IPRange`: known family, `start <= end`, inside the address space -/
def RngWF (r : Rng) : Prop := (r.ver = 4 ∨ r.ver = 6) ∧ r.lo ≤ r.hi ∧ r.hi < 2 ^ width r.ver

def Obj.WF : Obj → Prop
  | .addr a => a.WF
  | .net n => n.WF
  | .rng r => RngWF r

def Cont.WF : Cont → Prop
  | .net n => n.WF
  | .rng r => RngWF r

/-- `a` has the same quotient by `B` as `v` iff it lies in `v`'s block of size `B` -/
theorem div_eq_block (B a v : Nat) (hB : 0 < B) :
    a / B = v / B ↔ v / B * B ≤ a ∧ a ≤ v / B * B + (B - 1) := by
  rw [Nat.div_eq_iff hB]; omega

theorem first_le_last (w v p : Nat) (hv : v < 2 ^ w) : netFirst w v p ≤ v ∧ v ≤ netLast w v p := by
  rw [netFirst_eq w v p hv, netLast_eq]
  have hB := pw (w - p)
  have := Nat.div_add_mod' v (2 ^ (w - p))
  have := Nat.mod_lt v hB
  omega

/-- shift-compare of an address against a network's bits -/
theorem shr_eq_iff (w v p a : Nat) (hv : v < 2 ^ w) :
    (a >>> (w - p) = v >>> (w - p)) ↔ netFirst w v p ≤ a ∧ a ≤ netLast w v p := by
  rw [Nat.shiftRight_eq_div_pow, Nat.shiftRight_eq_div_pow, netFirst_eq w v p hv, netLast_eq,
    div_eq_block _ _ _ (pw _)]

/-- the block of a network as an aligned `Blk` -/
def blkOf (w v p : Nat) : Blk := ⟨netFirst w v p, w - p⟩

theorem blkOf_aligned (w v p : Nat) (hv : v < 2 ^ w) : (blkOf w v p).aligned := by
  unfold blkOf Blk.aligned; simp only; rw [netFirst_eq w v p hv]; exact Nat.mul_mod_left _ _

theorem blkOf_mem (w v p a : Nat) (hv : v < 2 ^ w) :
    (blkOf w v p).mem a ↔ netFirst w v p ≤ a ∧ a ≤ netLast w v p := by
  unfold blkOf Blk.mem; simp only
  rw [netLast_eq, netFirst_eq w v p hv]
  have := pw (w - p); omega

theorem last_eq (w v p : Nat) (hv : v < 2 ^ w) : netLast w v p = netFirst w v p + (2 ^ (w - p) - 1) := by
  rw [netLast_eq, netFirst_eq w v p hv]

/-- network-in-network: equal network bits at the container's shift and a prefix at least
    as long, iff the operand's block lies inside the container's block -/
theorem net_in_net_iff (w v p u q : Nat) (hv : v < 2 ^ w) (hu : u < 2 ^ w) (hp : p ≤ w) (hq : q ≤ w) :
    (v >>> (w - p) = u >>> (w - p) ∧ p ≤ q) ↔
      (netFirst w v p ≤ netFirst w u q ∧ netLast w u q ≤ netLast w v p) := by
  have hfu := first_le_last w u q hu
  constructor
  · rintro ⟨hs, hpq⟩
    have hmem : (blkOf w v p).mem u := (blkOf_mem w v p u hv).2 ((shr_eq_iff w v p u hv).1 hs.symm)
    have hmemu : (blkOf w u q).mem u := (blkOf_mem w u q u hu).2 hfu
    have hsub := Blk.sub_of_share (blkOf w u q) (blkOf w v p) (blkOf_aligned w u q hu) (blkOf_aligned w v p hv)
      (by show w - q ≤ w - p; omega) u hmemu hmem
    have h1 := (blkOf_mem w v p _ hv).1 (hsub _ ((blkOf_mem w u q _ hu).2 ⟨Nat.le_refl _, by omega⟩))
    have h2 := (blkOf_mem w v p _ hv).1 (hsub _ ((blkOf_mem w u q _ hu).2 ⟨by omega, Nat.le_refl _⟩))
    exact ⟨h1.1, h2.2⟩
  · rintro ⟨h1, h2⟩
    refine ⟨((shr_eq_iff w v p u hv).2 ⟨by omega, by omega⟩).symm, ?_⟩
    rw [last_eq w v p hv, last_eq w u q hu] at h2
    have hle : 2 ^ (w - q) ≤ 2 ^ (w - p) := by
      have := pw (w - q); have := pw (w - p); omega
    have hk : w - q ≤ w - p := (Nat.pow_le_pow_iff_right (by decide : 1 < 2)).1 hle
    omega

/-- `IPNetwork.__contains__` (shift-compare; IPRange special case) is interval inclusion for
    every kind of operand. -/
theorem netContains_iff (y : Net) (x : Obj) (hy : y.WF) (hx : x.WF) :
    netContains y x = true ↔ (x.ver = y.ver ∧ y.first ≤ x.first ∧ x.last ≤ y.last) := by
  obtain ⟨_, hyv, hyp⟩ := hy
  unfold netContains
  by_cases hver : y.ver = x.ver
  · have hne : (y.ver != x.ver) = false := by simp [hver]
    rw [hne]
    simp only [Bool.false_eq_true, if_false]
    cases x with
    | addr a =>
      simp only [Obj.ver, Obj.first, Obj.last] at hver ⊢
      rw [beq_iff_eq, shr_eq_iff _ _ _ _ hyv]
      unfold Net.first Net.last; simp [hver]
    | rng r =>
      simp only [Obj.ver, Obj.first, Obj.last] at hver ⊢
      rw [Bool.and_eq_true, decide_eq_true_iff, decide_eq_true_iff, shr_shl, Nat.shiftRight_eq_div_pow,
        Nat.shiftLeft_eq]
      unfold Net.first Net.last
      rw [netFirst_eq _ _ _ hyv, netLast_eq]
      have hB := pw (width y.ver - y.plen)
      rw [Nat.add_mul, Nat.one_mul]
      simp only [hver, true_and]
      rw [← hver]
      omega
    | net n =>
      simp only [Obj.ver, Obj.first, Obj.last] at hver ⊢
      obtain ⟨_, hnv, hnp⟩ := hx
      rw [← hver] at hnv hnp
      rw [Bool.and_eq_true, beq_iff_eq, decide_eq_true_iff,
        net_in_net_iff _ _ _ _ _ hyv hnv hyp hnp]
      unfold Net.first Net.last
      simp [hver]
  · have hne : (y.ver != x.ver) = true := by simp [hver]
    rw [hne]; simp only [if_true]
    constructor
    · intro h; cases h
    · rintro ⟨h, _⟩; exact absurd h.symm hver

/-- `IPRange.__contains__` (and `IPGlob`, which inherits it) is interval inclusion for every
    kind of operand. -/
theorem rngContains_iff (y : Rng) (x : Obj) (hx : x.WF) :
    rngContains y x = true ↔ (x.ver = y.ver ∧ y.lo ≤ x.first ∧ x.last ≤ y.hi) := by
  unfold rngContains
  by_cases hver : y.ver = x.ver
  · have hne : (y.ver != x.ver) = false := by simp [hver]
    rw [hne]
    simp only [Bool.false_eq_true, if_false]
    cases x with
    | addr a =>
      simp only [Obj.ver, Obj.first, Obj.last] at hver ⊢
      rw [Bool.and_eq_true, decide_eq_true_iff, decide_eq_true_iff]
      simp [hver]
    | rng r =>
      simp only [Obj.ver, Obj.first, Obj.last] at hver ⊢
      rw [Bool.and_eq_true, decide_eq_true_iff, decide_eq_true_iff]
      simp [hver]
    | net n =>
      simp only [Obj.ver, Obj.first, Obj.last] at hver ⊢
      obtain ⟨_, hnv, hnp⟩ := hx
      rw [Bool.and_eq_true, decide_eq_true_iff, decide_eq_true_iff, shr_shl, Nat.shiftLeft_eq, Nat.one_mul]
      unfold Net.first Net.last
      rw [netFirst_eq _ _ _ hnv, netLast_eq]
      have hB := pw (width n.ver - n.plen)
      simp only [hver, true_and]
      omega
  · have hne : (y.ver != x.ver) = true := by simp [hver]
    rw [hne]; simp only [if_true]
    constructor
    · intro h; cases h
    · rintro ⟨h, _⟩; exact absurd h.symm hver

/-- `IPListMixin.__contains__` is interval inclusion for every kind of operand. -/
theorem mixinContains_iff (y : Cont) (x : Obj) :
    mixinContains y x = true ↔ (x.ver = y.ver ∧ y.first ≤ x.first ∧ x.last ≤ y.last) := by
  unfold mixinContains
  by_cases hver : y.ver = x.ver
  · have hne : (y.ver != x.ver) = false := by simp [hver]
    rw [hne]
    simp only [Bool.false_eq_true, if_false]
    cases x <;> simp [Obj.first, Obj.last, hver] <;> intro _ <;> exact decide_eq_true_iff
  · have hne : (y.ver != x.ver) = true := by simp [hver]
    rw [hne]; simp only [if_true]
    constructor
    · intro h; cases h
    · rintro ⟨h, _⟩; exact absurd h.symm hver

/-- the class's own `__contains__`, for either container class -/
theorem contains_own_iff (y : Cont) (x : Obj) (hy : y.WF) (hx : x.WF) :
    contains y x = true ↔ (x.ver = y.ver ∧ y.first ≤ x.first ∧ x.last ≤ y.last) := by
  cases y with
  | net n => exact netContains_iff n x hy hx
  | rng r => exact rngContains_iff r x hx

end NV.Contains
