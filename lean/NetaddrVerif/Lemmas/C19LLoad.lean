/-
Lemmas/C19LLoad.lean — C19: the dict `iana.query` returns (which keys exist), `load_index`
(`Registry.loadRows`), and list plumbing for "index rows ↔ records of the text, in order".
-/
import NetaddrVerif.Model.Registry
import NetaddrVerif.Lemmas.C19L
namespace NV.C19L
open NV NV.Registry

/-! ## the dict of `query` -/

/-- a list as a dict entry that exists only when something was appended -/
def toEntry (l : List Rec) : Option (List Rec) := if l.isEmpty then none else some l

theorem scanD_eq (ip : Addr) (t : List Rec) : ∀ acc : Option (List Rec),
    scanD ip t acc = (if (scan ip t).isEmpty then acc
      else some (acc.getD [] ++ scan ip t)) := by
  induction t with
  | nil => intro acc; simp [scanD, scan]
  | cons r t ih =>
    intro acc
    simp only [scanD]
    by_cases h : withinBounds ip r.key = true
    · simp only [h, ↓reduceIte]
      rw [ih]
      have e : scan ip (r :: t) = r :: scan ip t := by simp [scan, h]
      rw [e]
      by_cases h2 : (scan ip t).isEmpty = true
      · have : scan ip t = [] := List.isEmpty_iff.mp h2
        cases acc <;> simp [this]
      · cases acc <;> simp [h2]
    · have e : scan ip (r :: t) = scan ip t := by simp [scan, h]
      simp only [h, Bool.false_eq_true, ↓reduceIte]
      rw [ih, e]

theorem scanD_none (ip : Addr) (t : List Rec) : scanD ip t none = toEntry (scan ip t) := by
  rw [scanD_eq]; simp [toEntry]

/-- the dict is the four lists with the empty ones left out -/
theorem queryD_eq (T : Tables) (a : Addr) :
    queryD T a = ⟨toEntry (query T a).ipv4, toEntry (query T a).ipv6, toEntry (query T a).ipv6u,
      toEntry (query T a).mcast⟩ := by
  unfold queryD query
  by_cases h4 : a.ver = 4
  · simp only [h4, ↓reduceIte, scanD_none]
    by_cases hm : isMulticast4 a.val = true
    · simp [hm, toEntry]
    · simp [hm, toEntry]
  · by_cases h6 : a.ver = 6
    · simp [h6, scanD_none, toEntry]
    · simp [h4, h6, toEntry]

theorem toEntry_none_iff (l : List Rec) : toEntry l = none ↔ l = [] := by
  unfold toEntry; cases l <;> simp

theorem toEntry_some_iff (l m : List Rec) : toEntry l = some m ↔ l = m ∧ m ≠ [] := by
  unfold toEntry
  cases l with
  | nil => simp
  | cons x xs =>
    simp only [List.isEmpty_cons, Bool.false_eq_true, ↓reduceIte, Option.some.injEq]
    constructor
    · intro h; subst h; simp
    · intro h; exact h.1

/-! ## `All2` plumbing -/

theorem all2_imp {α β : Type} {P Q : α → β → Prop} {xs : List α} {ys : List β}
    (h : All2 P xs ys) (hpq : ∀ x y, P x y → Q x y) : All2 Q xs ys := by
  induction h with
  | nil => exact All2.nil
  | cons hp _ ih => exact All2.cons (hpq _ _ hp) ih

/-- compose two position-wise relations through the middle list -/
theorem all2_trans {α β γ : Type} {P : β → α → Prop} {Q : β → γ → Prop} {ms : List β} {xs : List α} {zs : List γ}
    (h1 : All2 P ms xs) (h2 : All2 Q ms zs) : All2 (fun x z => ∃ m, P m x ∧ Q m z) xs zs := by
  induction h1 generalizing zs with
  | nil => cases h2; exact All2.nil
  | cons hp _ ih =>
    cases h2 with
    | cons hq h2' => exact All2.cons ⟨_, hp, hq⟩ (ih h2')

/-- filtering both sides with predicates that agree on related positions keeps the relation -/
theorem all2_filter {α β : Type} {P : α → β → Prop} {xs : List α} {ys : List β} (p : α → Bool) (q : β → Bool)
    (h : All2 P xs ys) (hpq : ∀ x y, P x y → p x = q y) : All2 P (xs.filter p) (ys.filter q) := by
  induction h with
  | nil => exact All2.nil
  | @cons a b as bs hp _ ih =>
    have e := hpq a b hp
    by_cases hq : q b = true
    · rw [List.filter_cons_of_pos (by rw [e]; exact hq), List.filter_cons_of_pos hq]
      exact All2.cons hp ih
    · rw [List.filter_cons_of_neg (by rw [e]; exact hq), List.filter_cons_of_neg hq]
      exact ih

theorem all2_map_left {α α' β : Type} {P : α' → β → Prop} {xs : List α} {ys : List β} (f : α → α')
    (h : All2 (fun x y => P (f x) y) xs ys) : All2 P (xs.map f) ys := by
  induction h with
  | nil => exact All2.nil
  | cons hp _ ih => exact All2.cons hp ih

theorem all2_of_map_left {α α' β : Type} {P : α' → β → Prop} (f : α → α') : ∀ {xs : List α} {ys : List β},
    All2 P (xs.map f) ys → All2 (fun x y => P (f x) y) xs ys := by
  intro xs
  induction xs with
  | nil => intro ys h; cases h; exact All2.nil
  | cons a t ih =>
    intro ys h
    cases h with
    | cons h1 h2 => exact All2.cons h1 (ih h2)

theorem all2_flip {α β : Type} {P : α → β → Prop} {xs : List α} {ys : List β} (h : All2 P xs ys) :
    All2 (fun y x => P x y) ys xs := by
  induction h with
  | nil => exact All2.nil
  | cons hp _ ih => exact All2.cons hp ih

theorem all2_nil_left {α β : Type} {P : α → β → Prop} {ys : List β} (h : All2 P [] ys) : ys = [] := by
  cases h; rfl

theorem all2_nil_right {α β : Type} {P : α → β → Prop} {xs : List α} (h : All2 P xs []) : xs = [] := by
  cases h; rfl

/-- running two fallible maps over related lists gives the same outcome (results compared through `g`) -/
theorem mapM_sync {α β γ δ : Type} (f : α → R γ) (h : β → R δ) (g : γ → δ) {xs : List α} {ys : List β}
    (hr : All2 (fun x y => (f x).map g = h y) xs ys) :
    (xs.mapM f).map (List.map g) = ys.mapM h := by
  induction hr with
  | nil => rfl
  | @cons a b as bs hab _ ih =>
    rw [List.mapM_cons, List.mapM_cons, ← hab, ← ih]
    cases f a with
    | error e => rfl
    | ok c =>
      cases List.mapM f as with
      | error e => rfl
      | ok cs => rfl

/-! ## `load_index` -/

section load
variable {K : Type} (key : K → R Int)

theorem loadRows_ok : ∀ (rows : List (Row K)) (idx : List (Int × Nat × Nat)), loadRows key rows = .ok idx →
    All2 (fun (row : Row K) (i : Int × Nat × Nat) => key row.1 = .ok i.1 ∧ i.2 = row.2) rows idx := by
  intro rows
  induction rows with
  | nil => intro idx h; simp only [loadRows] at h; injection h with h; subst h; exact All2.nil
  | cons r t ih =>
    intro idx h
    obtain ⟨k, o, s⟩ := r
    simp only [loadRows] at h
    cases hk : key k with
    | error e => rw [hk] at h; simp [bind, Except.bind] at h
    | ok n =>
      rw [hk] at h
      cases ht : loadRows key t with
      | error e => rw [ht] at h; simp [bind, Except.bind] at h
      | ok rest =>
        rw [ht] at h
        simp only [bind, Except.bind, pure, Except.pure] at h
        injection h with h; subst h
        exact All2.cons ⟨hk, rfl⟩ (ih rest ht)

/-- `load_index` returns normally iff every key cell reads as an integer -/
theorem loadRows_ok_iff (rows : List (Row K)) :
    (∃ idx, loadRows key rows = .ok idx) ↔ ∀ r ∈ rows, ∃ n, key r.1 = .ok n := by
  induction rows with
  | nil => simp [loadRows]
  | cons r t ih =>
    obtain ⟨k, o, s⟩ := r
    simp only [loadRows, List.mem_cons, forall_eq_or_imp]
    cases hk : key k with
    | error e =>
      simp only [bind, Except.bind]
      constructor
      · rintro ⟨_, h⟩; cases h
      · rintro ⟨⟨n, hn⟩, _⟩; cases hn
    | ok n =>
      rw [← ih]
      cases ht : loadRows key t with
      | error e =>
        simp only [bind, Except.bind]
        constructor
        · rintro ⟨_, h⟩; cases h
        · rintro ⟨_, ⟨_, h⟩⟩; cases h
      | ok rest =>
        simp only [bind, Except.bind, pure, Except.pure]
        exact ⟨fun _ => ⟨⟨n, rfl⟩, ⟨rest, rfl⟩⟩, fun _ => ⟨_, rfl⟩⟩

/-- … and otherwise raises what the first unreadable key cell raises -/
theorem loadRows_err (rows : List (Row K)) (e : Err) (h : loadRows key rows = .error e) :
    ∃ r ∈ rows, key r.1 = .error e := by
  induction rows with
  | nil => simp [loadRows] at h
  | cons r t ih =>
    obtain ⟨k, o, s⟩ := r
    simp only [loadRows] at h
    cases hk : key k with
    | error e' =>
      rw [hk] at h; simp only [bind, Except.bind] at h; injection h with h; subst h
      exact ⟨(k, o, s), by simp, hk⟩
    | ok n =>
      rw [hk] at h
      cases ht : loadRows key t with
      | error e' =>
        rw [ht] at h; simp only [bind, Except.bind] at h; injection h with h; subst h
        obtain ⟨x, hx, hfx⟩ := ih ht
        exact ⟨x, by simp [hx], hfx⟩
      | ok rest => rw [ht] at h; simp [bind, Except.bind, pure, Except.pure] at h

end load

/-- what `OUI(v)` / `IAB(v)` find in the loaded dict: the rows whose key is the integer `v`, in file order -/
theorem lookupRows_dictView (idx : List (Int × Nat × Nat)) (v : Nat) :
    lookupRows (dictView idx) v =
      (idx.filter (fun i => i.1 == (v : Int))).map (fun i => (i.2.1, i.2.2)) := by
  induction idx with
  | nil => rfl
  | cons i t ih =>
    obtain ⟨k, o, s⟩ := i
    simp only [lookupRows, dictView] at ih ⊢
    by_cases hk : 0 ≤ k
    · simp only [List.filterMap_cons, hk, ↓reduceIte]
      by_cases hv : k = (v : Int)
      · have : (k.toNat == v) = true := by simp; omega
        simp only [List.filter_cons, hv, beq_self_eq_true, ↓reduceIte, List.map_cons]
        simpa [hv] using ih
      · have : (k.toNat == v) = false := by simp; omega
        have h2 : (k == (v : Int)) = false := by simp [hv]
        simp only [List.filter_cons, this, h2, Bool.false_eq_true, ↓reduceIte]
        exact ih
    · have h2 : (k == (v : Int)) = false := by simp; omega
      simp only [List.filterMap_cons, hk, ↓reduceIte, List.filter_cons, h2, Bool.false_eq_true]
      exact ih

/-- an index whose keys are all non-negative is seen whole -/
theorem dictView_ofNat (idx : List (Nat × Nat × Nat)) :
    dictView (idx.map (fun r => ((r.1 : Int), r.2.1, r.2.2))) = idx := by
  induction idx with
  | nil => rfl
  | cons r t ih =>
    simp only [dictView] at ih
    simp [dictView, ih]

/-! ## which kind of key an IAB record ends up with -/

/-- once `record[0]` is an int it stays that int (a further `(base 16)` line raises) -/
theorem iab_fold_num (t : List Line) : ∀ (n : Int) (k : IabKey), List.foldlM iabCont (.num n) t = .ok k → k = .num n := by
  induction t with
  | nil => intro n k h; simp only [List.foldlM_nil, pure, Except.pure] at h; injection h with h; exact h.symm
  | cons l t ih =>
    intro n k h
    rw [List.foldlM_cons] at h
    by_cases hb : hasBase16 l = true
    · simp [iabCont, hb, bind, Except.bind] at h
    · simp only [iabCont, hb, Bool.false_eq_true, ↓reduceIte, bind, Except.bind] at h
      exact ih n k h

/-- the parser's key of a record is an int iff the record has a `(base 16)` line after its first line -/
theorem iab_fold_kind (t : List Line) : ∀ (k0 k : IabKey), List.foldlM iabCont k0 t = .ok k →
    ((∃ n, k = .num n) ↔ ((∃ n, k0 = .num n) ∨ ∃ l ∈ t, hasBase16 l = true)) := by
  induction t with
  | nil =>
    intro k0 k h
    simp only [List.foldlM_nil, pure, Except.pure] at h; injection h with h; subst h
    simp
  | cons l t ih =>
    intro k0 k h
    rw [List.foldlM_cons] at h
    by_cases hb : hasBase16 l = true
    · cases k0 with
      | num n => simp [iabCont, hb, bind, Except.bind] at h
      | raw p =>
        cases hc : iabCont (.raw p) l with
        | error e => rw [hc] at h; simp [bind, Except.bind] at h
        | ok k1 =>
          rw [hc] at h
          simp only [bind, Except.bind] at h
          -- k1 is a num
          have hk1 : ∃ n, k1 = .num n := by
            simp only [iabCont, hb, ↓reduceIte] at hc
            cases hf : firstTok l with
            | error e => rw [hf] at hc; simp [bind, Except.bind] at hc
            | ok tok =>
              rw [hf] at hc
              simp only [bind, Except.bind] at hc
              cases hi : intHex (dropHyphens p ++ List.takeWhile (fun x => x != 45) tok) with
              | error e => rw [hi] at hc; simp at hc
              | ok v => rw [hi] at hc; simp only [pure, Except.pure] at hc; injection hc with hc; exact ⟨_, hc.symm⟩
          obtain ⟨n, rfl⟩ := hk1
          have := iab_fold_num t n k h
          subst this
          simp only [IabKey.num.injEq, exists_eq', reduceCtorEq, exists_false, List.mem_cons, exists_eq_or_imp, hb,
            true_or, or_true]
    · simp only [iabCont, hb, Bool.false_eq_true, ↓reduceIte, bind, Except.bind] at h
      rw [ih k0 k h]
      simp [hb]

theorem iab_recKey_kind (h : Line) (t : List Line) (k : IabKey) (hk : recKey iabStart iabCont (h :: t) = .ok k) :
    (∃ n, k = .num n) ↔ ∃ l ∈ t, hasBase16 l = true := by
  simp only [recKey, iabStart] at hk
  cases hf : firstTok h with
  | error e => rw [hf] at hk; simp [bind, Except.bind] at hk
  | ok tok =>
    rw [hf] at hk
    simp only [bind, Except.bind, pure, Except.pure] at hk
    rw [iab_fold_kind t _ k hk]
    simp

end NV.C19L
