
namespace NV

-- Prototype: hex numerals round-trip (core only); same pattern for bases 2, 10, 85
def hexVal (c : Char) : Option Nat :=
  if '0' ≤ c ∧ c ≤ '9' then some (c.toNat - '0'.toNat)
  else if 'a' ≤ c ∧ c ≤ 'f' then some (c.toNat - 'a'.toNat + 10)
  else if 'A' ≤ c ∧ c ≤ 'F' then some (c.toNat - 'A'.toNat + 10)
  else none

/-- left fold, as `int(s, 16)` on a digits-only string -/
def ofHexAux : List Char → Nat → Option Nat
  | [], acc => some acc
  | c :: cs, acc => match hexVal c with
    | some d => ofHexAux cs (acc * 16 + d)
    | none => none

def ofHex (s : List Char) : Option Nat := if s = [] then none else ofHexAux s 0

theorem hexVal_digitChar : ∀ d, d < 16 → hexVal (Nat.digitChar d) = some d := by decide

theorem ofHexAux_append (s t : List Char) (acc : Nat) :
    ofHexAux (s ++ t) acc = (ofHexAux s acc).bind (fun a => ofHexAux t a) := by
  induction s generalizing acc with
  | nil => simp [ofHexAux]
  | cons c cs ih =>
    simp only [List.cons_append, ofHexAux]
    cases hexVal c with
    | none => simp
    | some d => simp [ih]

theorem ofHexAux_toDigits (n : Nat) : ∀ acc, n = n → 
    ofHexAux (Nat.toDigits 16 n) acc = some (acc * 16 ^ (Nat.toDigits 16 n).length + n) := by
  induction n using Nat.strongRecOn with
  | ind n ih =>
    intro acc _
    rw [Nat.toDigits_eq_if (by decide)]
    by_cases h : n < 16
    · simp [h, ofHexAux, hexVal_digitChar n h]
    · simp only [h, if_false]
      have hlt : n / 16 < n := Nat.div_lt_self (by omega) (by decide)
      rw [ofHexAux_append, ih (n / 16) hlt acc rfl]
      simp only [Option.bind_some, ofHexAux, hexVal_digitChar (n % 16) (Nat.mod_lt _ (by decide))]
      simp only [List.length_append, List.length_singleton, Nat.pow_succ]
      have := Nat.div_add_mod n 16
      congr 1
      rw [Nat.add_mul, Nat.mul_assoc, Nat.add_assoc]
      congr 1
      omega

theorem ofHex_toHex (n : Nat) : ofHex (Nat.toDigits 16 n) = some n := by
  unfold ofHex
  have hne : Nat.toDigits 16 n ≠ [] := Nat.toDigits_ne_nil
  simp only [hne, if_false]
  rw [ofHexAux_toDigits n 0 rfl]; simp

example : Nat.toDigits 16 0xbeef = ['b','e','e','f'] := by decide

end NV
