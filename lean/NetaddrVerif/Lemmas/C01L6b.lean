/-
Lemmas/C01L6b.lean — the platform printer `Text6.ntop6` against the platform reader
`Text6.pton6`: every 128-bit value is read back from its compact text.  Core Lean only.
-/
import NetaddrVerif.Lemmas.C01L6
namespace NV.C01L
open NV NV.Text4 NV.Text6

/-- what the round trip needs of the chosen run: at least two groups, inside the address, all zero -/
def runOk (fl : List Bool) : Bool :=
  match longestRun fl with
  | none => true
  | some (b, l) => decide (2 ≤ l) && decide (b + l ≤ 8) && ((fl.drop b).take l == List.replicate l true)

/-- complete finite domain: the 256 zero / non-zero patterns of eight groups -/
theorem runOk_all : ∀ b0 b1 b2 b3 b4 b5 b6 b7 : Bool, runOk [b0, b1, b2, b3, b4, b5, b6, b7] = true := by
  decide

theorem zeros_of_flags (xs : List Nat) (l : Nat) (h : xs.map (· == 0) = List.replicate l true) :
    xs = List.replicate l 0 := by
  induction xs generalizing l with
  | nil =>
    cases l with
    | zero => rfl
    | succ l => simp [List.replicate_succ] at h
  | cons a t ih =>
    cases l with
    | zero => simp at h
    | succ l =>
      simp only [List.map_cons, List.replicate_succ, List.cons.injEq] at h
      obtain ⟨ha, ht⟩ := h
      have : a = 0 := by simpa using ha
      rw [this, ih l ht, List.replicate_succ]

theorem run_facts (ws : List Nat) (hl : ws.length = 8) (b l : Nat)
    (h : longestRun (ws.map (· == 0)) = some (b, l)) :
    2 ≤ l ∧ b + l ≤ 8 ∧ ws = ws.take b ++ List.replicate l 0 ++ ws.drop (b + l) := by
  match ws, hl with
  | [w0, w1, w2, w3, w4, w5, w6, w7], _ =>
    have hk := runOk_all (w0 == 0) (w1 == 0) (w2 == 0) (w3 == 0) (w4 == 0) (w5 == 0) (w6 == 0) (w7 == 0)
    have e : [w0 == 0, w1 == 0, w2 == 0, w3 == 0, w4 == 0, w5 == 0, w6 == 0, w7 == 0] =
        [w0, w1, w2, w3, w4, w5, w6, w7].map (· == 0) := rfl
    rw [e] at hk
    generalize [w0, w1, w2, w3, w4, w5, w6, w7] = ws at *
    unfold runOk at hk
    rw [h] at hk
    simp only [Bool.and_eq_true, decide_eq_true_eq, beq_iff_eq] at hk
    obtain ⟨⟨h2, h8⟩, hz⟩ := hk
    refine ⟨h2, h8, ?_⟩
    rw [← List.map_drop, ← List.map_take] at hz
    have hz' := zeros_of_flags _ _ hz
    have e1 : ws = ws.take b ++ ws.drop b := (List.take_append_drop b ws).symm
    have e2 : ws.drop b = (ws.drop b).take l ++ (ws.drop b).drop l := (List.take_append_drop l _).symm
    rw [hz', List.drop_drop] at e2
    rw [List.append_assoc, ← e2]
    exact e1

theorem words_v4 (v : Nat) : (v % 4294967296) / 65536 = (v >>> 16) % 65536 ∧ (v % 4294967296) % 65536 = v % 65536 := by
  rw [Nat.shiftRight_eq_div_pow]; omega

/-- the platform reader reads back what the platform printer prints -/
theorem pton6_ntop6 (v : Nat) (hv : v < 2 ^ 128) : pton6 (ntop6 v) = some v := by
  have hsm := small_words v
  have how := ofWords_words v hv
  unfold ntop6
  generalize hbest : longestRun ((words v).map (· == 0)) = best
  unfold ntop6Toks
  cases best with
  | none =>
    simp only [v4Tail, Bool.false_eq_true, if_false]
    rw [pton6_nogap hex goodF_hex (words v) hsm rfl, how]
  | some bl =>
    obtain ⟨b, l⟩ := bl
    obtain ⟨h2, h8, hws⟩ := run_facts (words v) rfl b l hbest
    by_cases htail : v4Tail (words v) (some (b, l)) = true
    · -- dotted-quad tail: b = 0 and l ∈ {5, 6}
      have hb : b = 0 := by
        cases b with
        | zero => rfl
        | succ b => simp [v4Tail] at htail
      subst hb
      have hx : v % 4294967296 < 2 ^ 32 := Nat.mod_lt _ (by decide)
      obtain ⟨hx1, hx2⟩ := words_v4 v
      simp only [htail, if_true]
      simp only [v4Tail, Bool.or_eq_true, Bool.and_eq_true, beq_iff_eq] at htail
      rcases htail with h6 | ⟨h5, hffff⟩
      · subst h6
        have := pton6_gap [] [] (by intro n hn; simp at hn) (by intro n hn; simp at hn) (some (v % 4294967296))
          (by intro x hx'; cases hx'; exact hx) (by simp)
        simp only [List.map_nil, List.length_nil, List.nil_append, List.append_nil] at this
        simp only [words, List.map_cons, List.map_nil] at hws ⊢
        simp only [List.take, List.drop, List.nil_append, Nat.zero_add] at hws ⊢
        simp at this ⊢
        rw [this]
        simp only [words, List.replicate, List.cons_append, List.nil_append] at hws
        simp only [List.cons.injEq] at hws
        obtain ⟨e0, e1, e2, e3, e4, e5, _⟩ := hws
        have hw : words v = [0, 0, 0, 0, 0, 0, (v >>> 16) % 65536, v % 65536] := by
          simp only [words, e0, e1, e2, e3, e4, e5]
        rw [hx1, ← hw, how]
      · subst h5
        have hs5 : Small [(words v).getD 5 0] := by
          intro n hn; simp only [List.mem_singleton] at hn; subst hn
          exact hsm _ (by simp [words])
        have := pton6_gap [] [(words v).getD 5 0] (by intro n hn; simp at hn) hs5 (some (v % 4294967296))
          (by intro x hx'; cases hx'; exact hx) (by simp)
        simp only [List.map_nil, List.length_nil, List.nil_append] at this
        simp only [words, List.map_cons, List.map_nil] at hws ⊢
        simp only [List.take, List.drop, List.nil_append, Nat.zero_add] at hws ⊢
        simp [words] at this ⊢
        rw [this]
        simp only [words, List.replicate, List.cons_append, List.nil_append] at hws
        simp only [List.cons.injEq] at hws
        obtain ⟨e0, e1, e2, e3, e4, _⟩ := hws
        have hw : words v = [0, 0, 0, 0, 0, (v >>> 32) % 65536, (v >>> 16) % 65536, v % 65536] := by
          simp only [words, e0, e1, e2, e3, e4]
        rw [hx1, ← hw, how]
    · -- all groups printed in hex
      have htail' : v4Tail (words v) (some (b, l)) = false := by
        cases h : v4Tail (words v) (some (b, l)) with
        | true => exact absurd h htail
        | false => rfl
      dsimp only
      rw [if_neg htail]
      generalize hwsdef : words v = ws at *
      have hl8 : ws.length = 8 := by rw [← hwsdef]; rfl
      have hA : (ws.take b).length = b := by rw [List.length_take]; omega
      have hB : (ws.drop (b + l)).length = 8 - (b + l) := by rw [List.length_drop]; omega
      have := pton6_gap (ws.take b) (ws.drop (b + l))
        (fun n hn => hsm n (List.mem_of_mem_take hn)) (fun n hn => hsm n (List.mem_of_mem_drop hn)) none
        (by intro x hx; cases hx) (by simp only [hA, hB]; simp; omega)
      simp only [hA, hB, List.append_nil, List.length_map, List.length_nil, Nat.add_zero] at this
      rw [← List.map_take, ← List.map_drop]
      have c1 : (b + l == 8) = (8 - (b + l) == 0) := by
        by_cases h : b + l = 8
        · simp [h]
        · have h' : ¬ (8 - (b + l) = 0) := by omega
          have e1 : (b + l == 8) = false := beq_eq_false_iff_ne.mpr h
          have e2 : (8 - (b + l) == 0) = false := beq_eq_false_iff_ne.mpr h'
          rw [e1, e2]
      rw [c1, this]
      have c2 : 8 - (b + (8 - (b + l))) = l := by omega
      rw [c2, ← hws, how]

end NV.C01L
