
namespace NV

-- Prototype: mask lemmas used by C02 (core Lean only)
theorem pow_pos2 (k : Nat) : 0 < 2 ^ k := Nat.pos_of_ne_zero (by simp)

theorem and_netmask (w k v : Nat) (hv : v < 2 ^ w) (hk : k ≤ w) :
    v &&& ((2 ^ w - 1) ^^^ (2 ^ k - 1)) = v / 2 ^ k * 2 ^ k := by
  apply Nat.eq_of_testBit_eq
  intro i
  rw [Nat.testBit_and, Nat.testBit_xor, Nat.testBit_two_pow_sub_one, Nat.testBit_two_pow_sub_one,
      Nat.testBit_mul_two_pow, Nat.testBit_div_two_pow]
  by_cases h1 : i < k
  · have : i < w := by omega
    simp [h1, this]
    omega
  · have h1' : k ≤ i := by omega
    by_cases h2 : i < w
    · simp [h1, h1', h2]
    · have hlt : v < 2 ^ i := Nat.lt_of_lt_of_le hv (Nat.pow_le_pow_right (by decide) (by omega))
      simp [h1, h1', h2, Nat.testBit_lt_two_pow hlt]

theorem or_hostmask (k v : Nat) :
    v ||| (2 ^ k - 1) = v / 2 ^ k * 2 ^ k + (2 ^ k - 1) := by
  have hp := pow_pos2 k
  have key : v / 2 ^ k * 2 ^ k + (2 ^ k - 1) = (v / 2 ^ k) <<< k ||| (2 ^ k - 1) := by
    rw [Nat.shiftLeft_eq]
    have hlt : 2 ^ k - 1 < 2 ^ k := by omega
    rw [Nat.mul_comm, ← Nat.two_pow_add_eq_or_of_lt hlt, Nat.mul_comm]
  rw [key]
  apply Nat.eq_of_testBit_eq
  intro i
  rw [Nat.testBit_or, Nat.testBit_or, Nat.testBit_two_pow_sub_one, Nat.testBit_shiftLeft,
      Nat.testBit_div_two_pow]
  by_cases h1 : i < k
  · simp [h1]
  · have h1' : k ≤ i := by omega
    simp [h1, h1']

theorem shr_shl (k v : Nat) : (v >>> k) <<< k = v / 2 ^ k * 2 ^ k := by
  rw [Nat.shiftRight_eq_div_pow, Nat.shiftLeft_eq]

/-- the five Python spellings collapse to one closed form -/
theorem last_eq_first_add (w p v : Nat) (hv : v < 2 ^ w) (hp : p ≤ w) :
    (v ||| ((1 <<< (w - p)) - 1)) =
      (v &&& ((2 ^ w - 1) ^^^ ((1 <<< (w - p)) - 1))) + (2 ^ (w - p) - 1) := by
  rw [Nat.shiftLeft_eq, Nat.one_mul, or_hostmask, and_netmask w (w - p) v hv (by omega)]

end NV
