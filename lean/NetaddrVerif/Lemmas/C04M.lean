/-
Lemmas/C04M.lean — helper lemmas for the matching helpers of C04: Python tuple order on
`sort_key()` is a total preorder, `sorted()` output is pairwise ordered, and the scan loops
of `all_/smallest_/largest_matching_cidr` compute a filter of the sorted list.
-/
import NetaddrVerif.Lemmas.C04L
namespace NV.Contains
open NV

/-- lexicographic `<=` on int tuples, as a proposition -/
def LexLe : List Int → List Int → Prop
  | [], _ => True
  | _ :: _, [] => False
  | a :: as, b :: bs => a < b ∨ (a = b ∧ LexLe as bs)

theorem tupleLe_iff (a b : List Int) : tupleLe a b = true ↔ LexLe a b := by
  induction a generalizing b with
  | nil => cases b <;> simp [tupleLe, tupleCmp, LexLe]
  | cons x xs ih =>
    cases b with
    | nil => simp [tupleLe, tupleCmp, LexLe]
    | cons y ys =>
      have ih' := ih ys
      simp only [tupleLe, tupleCmp, LexLe] at ih' ⊢
      by_cases h1 : x < y
      · simp [h1]
      · by_cases h2 : x > y
        · simp only [h1, h2, if_true, if_false]
          constructor
          · intro h; simp at h
          · rintro (h | ⟨h, _⟩)
            · exact h.elim
            · omega
        · have he : x = y := by omega
          simp only [h1, h2, if_false]
          rw [ih']
          constructor
          · intro h; exact Or.inr ⟨he, h⟩
          · rintro (h | ⟨_, h⟩)
            · exact h.elim
            · exact h

theorem lexLe_trans : ∀ (a b c : List Int), LexLe a b → LexLe b c → LexLe a c
  | [], _, _, _, _ => by simp [LexLe]
  | _ :: _, [], _, h, _ => by simp [LexLe] at h
  | _ :: _, _ :: _, [], _, h => by simp [LexLe] at h
  | x :: xs, y :: ys, z :: zs, h1, h2 => by
    simp only [LexLe] at h1 h2 ⊢
    rcases h1 with h1 | ⟨e1, t1⟩
    · rcases h2 with h2 | ⟨e2, _⟩
      · left; omega
      · left; omega
    · rcases h2 with h2 | ⟨e2, t2⟩
      · left; omega
      · right; exact ⟨by omega, lexLe_trans xs ys zs t1 t2⟩

theorem lexLe_total : ∀ (a b : List Int), LexLe a b ∨ LexLe b a
  | [], _ => by left; simp [LexLe]
  | _ :: _, [] => by right; simp [LexLe]
  | x :: xs, y :: ys => by
    simp only [LexLe]
    rcases lexLe_total xs ys with h | h
    · by_cases h1 : x < y
      · left; left; exact h1
      · by_cases h2 : y < x
        · right; left; exact h2
        · left; right; exact ⟨by omega, h⟩
    · by_cases h1 : x < y
      · left; left; exact h1
      · by_cases h2 : y < x
        · right; left; exact h2
        · right; right; exact ⟨by omega, h⟩

/-- the comparison `sorted()` uses on networks -/
def netLe (a b : Net) : Bool := tupleLe a.sortKey b.sortKey

theorem netLe_trans (a b c : Net) : netLe a b = true → netLe b c = true → netLe a c = true := by
  unfold netLe; rw [tupleLe_iff, tupleLe_iff, tupleLe_iff]; exact lexLe_trans _ _ _

theorem netLe_total (a b : Net) : (netLe a b || netLe b a) = true := by
  rw [Bool.or_eq_true]; unfold netLe; rw [tupleLe_iff, tupleLe_iff]; exact lexLe_total _ _

/-- `sorted()` output is pairwise ordered by `sort_key` -/
theorem sortNets_pairwise (l : List Net) : (sortNets l).Pairwise (fun a b => netLe a b = true) :=
  List.pairwise_mergeSort netLe_trans netLe_total l

theorem sortNets_perm (l : List Net) : (sortNets l).Perm l := List.mergeSort_perm _ _

/-- what `sort_key` order says about version, first address and prefix length -/
theorem netLe_facts (a b : Net) (h : netLe a b = true) :
    a.ver ≤ b.ver ∧ (a.ver = b.ver → a.first ≤ b.first ∧ (a.first = b.first → a.plen ≤ b.plen)) := by
  unfold netLe at h
  rw [tupleLe_iff] at h
  simp only [Net.sortKey, LexLe] at h
  omega

/-- `ip in cidr` -/
def hit (ip : Addr) (c : Net) : Bool := netContains c (.addr ip)

end NV.Contains

namespace NV.Contains
open NV

theorem hit_iff (ip : Addr) (c : Net) (hc : c.WF) (hip : ip.WF) :
    hit ip c = true ↔ (ip.ver = c.ver ∧ c.first ≤ ip.val ∧ ip.val ≤ c.last) :=
  netContains_iff c (.addr ip) hc hip

theorem network_wf (c : Net) (hc : c.WF) : (network c).WF := by
  obtain ⟨h1, h2, _⟩ := hc
  refine ⟨h1, ?_⟩
  have := first_le_last (width c.ver) c.val c.plen h2
  show netFirst (width c.ver) c.val c.plen < 2 ^ width c.ver
  omega

/-- soundness of the early `break`: once a candidate `c` that sorts after the last match `m`
    has its network address outside `m`, no candidate sorting at or after `c` contains `ip` -/
theorem break_sound (ip : Addr) (m c d : Net) (hm : m.WF) (hc : c.WF) (hd : d.WF) (hip : ip.WF)
    (hmh : hit ip m = true) (hmc : netLe m c = true) (hcd : netLe c d = true)
    (hnot : netContains m (.addr (network c)) = false) : hit ip d = false := by
  cases hdh : hit ip d with
  | false => rfl
  | true =>
    exfalso
    have h1 := (hit_iff ip m hm hip).1 hmh
    have h2 := (hit_iff ip d hd hip).1 hdh
    have f1 := netLe_facts m c hmc
    have f2 := netLe_facts c d hcd
    have hcv : c.ver = m.ver := by omega
    have hcf : m.first ≤ c.first ∧ c.first ≤ m.last := by
      have a1 := (f1.2 hcv.symm).1
      have a2 := (f2.2 (by omega)).1
      omega
    have := (netContains_iff m (.addr (network c)) hm (network_wf c hc)).2 ⟨hcv, hcf.1, hcf.2⟩
    rw [this] at hnot
    cases hnot

theorem allLoop_eq (ip : Addr) (hip : ip.WF) : ∀ (l acc : List Net), (∀ c ∈ l, c.WF) →
    l.Pairwise (fun a b => netLe a b = true) →
    (∀ m, acc.getLast? = some m → m.WF ∧ hit ip m = true ∧ ∀ c ∈ l, netLe m c = true) →
    allLoop ip l acc = acc ++ l.filter (hit ip)
  | [], acc, _, _, _ => by simp [allLoop]
  | c :: rest, acc, hwf, hs, hacc => by
    have hwf' : ∀ d ∈ rest, d.WF := fun d hd => hwf d (List.mem_cons_of_mem _ hd)
    have hcwf : c.WF := hwf c (List.mem_cons_self ..)
    rw [List.pairwise_cons] at hs
    unfold allLoop
    by_cases hh : netContains c (.addr ip) = true
    · have hh' : hit ip c = true := hh
      rw [if_pos hh, allLoop_eq ip hip rest (acc ++ [c]) hwf' hs.2]
      · simp [hh']
      · intro m hm
        rw [List.getLast?_concat] at hm
        cases hm
        exact ⟨hcwf, hh', hs.1⟩
    · have hh' : hit ip c = false := by simpa [hit] using hh
      rw [if_neg hh]
      cases hlast : acc.getLast? with
      | none =>
        simp only
        rw [allLoop_eq ip hip rest acc hwf' hs.2]
        · simp [hh']
        · intro m hm; rw [hlast] at hm; cases hm
      | some m =>
        obtain ⟨hmwf, hmh, hmle⟩ := hacc m hlast
        simp only
        by_cases hb : netContains m (.addr (network c)) = true
        · simp only [hb, Bool.not_true, Bool.false_eq_true, if_false]
          rw [allLoop_eq ip hip rest acc hwf' hs.2]
          · simp [hh']
          · intro m' hm'
            rw [hlast] at hm'; cases hm'
            exact ⟨hmwf, hmh, fun d hd => hmle d (List.mem_cons_of_mem _ hd)⟩
        · have hb' : netContains m (.addr (network c)) = false := by simpa using hb
          simp only [hb', Bool.not_false, if_true]
          have hnone : (c :: rest).filter (hit ip) = [] := by
            rw [List.filter_eq_nil_iff]
            intro d hd
            have hcd : netLe c d = true := by
              rcases List.mem_cons.1 hd with rfl | hd'
              · have := netLe_total d d; simpa using this
              · exact hs.1 d hd'
            have := break_sound ip m c d hmwf hcwf (hwf d hd) hip hmh (hmle c (List.mem_cons_self ..)) hcd hb'
            simp [this]
          rw [hnone, List.append_nil]

/-- the `smallest` loop tracks the last element of the `all` loop's list -/
theorem smallLoop_eq (ip : Addr) : ∀ (l acc : List Net),
    smallLoop ip l acc.getLast? = (allLoop ip l acc).getLast?
  | [], acc => by simp [smallLoop, allLoop]
  | c :: rest, acc => by
    unfold smallLoop allLoop
    by_cases hh : netContains c (.addr ip) = true
    · rw [if_pos hh, if_pos hh, ← smallLoop_eq ip rest (acc ++ [c]), List.getLast?_concat]
    · rw [if_neg hh, if_neg hh]
      cases hlast : acc.getLast? with
      | none => simp only; rw [← hlast]; exact smallLoop_eq ip rest acc
      | some m =>
        simp only
        by_cases hb : (!netContains m (.addr (network c))) = true
        · rw [if_pos hb, if_pos hb, hlast]
        · rw [if_neg hb, if_neg hb, ← hlast]; exact smallLoop_eq ip rest acc

theorem largeLoop_eq (ip : Addr) : ∀ (l : List Net), largeLoop ip l = (l.filter (hit ip)).head?
  | [] => by simp [largeLoop]
  | c :: rest => by
    unfold largeLoop
    by_cases hh : netContains c (.addr ip) = true
    · have hh' : hit ip c = true := hh
      rw [if_pos hh]; simp [hh']
    · have hh' : hit ip c = false := by simpa [hit] using hh
      rw [if_neg hh, largeLoop_eq ip rest]; simp [hh']

end NV.Contains

namespace NV.Contains
open NV

/-- among candidates containing the address, `sort_key` order is least specific first -/
theorem plen_le_of_hits (ip : Addr) (a b : Net) (ha : a.WF) (hb : b.WF) (hip : ip.WF)
    (h1 : hit ip a = true) (h2 : hit ip b = true) (hle : netLe a b = true) : a.plen ≤ b.plen := by
  have f := netLe_facts a b hle
  have i1 := (hit_iff ip a ha hip).1 h1
  have i2 := (hit_iff ip b hb hip).1 h2
  obtain ⟨av, aval, ap⟩ := a
  obtain ⟨bv, bval, bp⟩ := b
  obtain ⟨_, hav, hap⟩ := ha
  obtain ⟨_, hbv, hbp⟩ := hb
  simp only [Net.first, Net.last] at *
  obtain ⟨e1, i1a, i1b⟩ := i1
  obtain ⟨e2, i2a, i2b⟩ := i2
  subst e1
  subst e2
  have f2 := f.2 rfl
  by_cases hlt : ap ≤ bp
  · exact hlt
  · exfalso
    have hsub := Blk.sub_of_share (blkOf (width ip.ver) aval ap) (blkOf (width ip.ver) bval bp)
      (blkOf_aligned _ _ _ hav) (blkOf_aligned _ _ _ hbv) (by show width ip.ver - ap ≤ width ip.ver - bp; omega)
      ip.val ((blkOf_mem _ _ _ _ hav).2 ⟨i1a, i1b⟩) ((blkOf_mem _ _ _ _ hbv).2 ⟨i2a, i2b⟩)
    have := (blkOf_mem _ _ _ _ hbv).1 (hsub _ ((blkOf_mem _ _ _ (netFirst (width ip.ver) aval ap) hav).2
      ⟨Nat.le_refl _, by omega⟩))
    have := f2.2 (by omega)
    omega

end NV.Contains

namespace NV.Contains
open NV

theorem lexLe_antisymm : ∀ (a b : List Int), LexLe a b → LexLe b a → a = b
  | [], [], _, _ => rfl
  | [], _ :: _, _, h => by simp [LexLe] at h
  | _ :: _, [], h, _ => by simp [LexLe] at h
  | x :: xs, y :: ys, h1, h2 => by
    simp only [LexLe] at h1 h2
    rcases h1 with h1 | ⟨e1, t1⟩
    · rcases h2 with h2 | ⟨e2, _⟩ <;> omega
    · rcases h2 with h2 | ⟨_, t2⟩
      · omega
      · rw [e1, lexLe_antisymm xs ys t1 t2]

/-- `sort_key` identifies a network: ties in the sort are equal objects -/
theorem netLe_antisymm (a b : Net) (h1 : netLe a b = true) (h2 : netLe b a = true) : a = b := by
  unfold netLe at h1 h2
  rw [tupleLe_iff] at h1 h2
  have h := lexLe_antisymm _ _ h1 h2
  obtain ⟨av, aval, ap⟩ := a
  obtain ⟨bv, bval, bp⟩ := b
  simp only [Net.sortKey, List.cons.injEq, and_true] at h
  obtain ⟨e1, e2, e3, e4⟩ := h
  have hv : av = bv := by omega
  have hp : ap = bp := by omega
  subst hv; subst hp
  have : aval = bval := by omega
  subst this; rfl

/-- `sorted()` of two permutations of the same candidates is the same list -/
theorem sortNets_perm_eq (l l' : List Net) (h : l.Perm l') : sortNets l = sortNets l' :=
  List.Perm.eq_of_pairwise (fun a b _ _ => netLe_antisymm a b) (sortNets_pairwise l) (sortNets_pairwise l')
    (((sortNets_perm l).trans h).trans (sortNets_perm l').symm)

end NV.Contains
