/-
Lemmas/IPSetQ4.lean — `iscontiguous()` / `iprange()` in terms of the denoted addresses, and
`size` as a monotone measure: `s ⊆ t → size s ≤ size t` with equality only for equal sets,
hence `<` / `>` are strict inclusion (C07).
-/
import NetaddrVerif.Lemmas.IPSetQ1
import NetaddrVerif.Lemmas.IPSetQ3
namespace NV.IPSet
open NV NV.Blk

/-! ### one range / no range, read on the denotation -/

theorem ranges_nil_iff (s : St) (hs : Inv s) : iterIpranges s = [] ↔ ∀ ver a, ¬ denS s ver a := by
  obtain ⟨i1, _, i3⟩ := iterIpranges_spec s hs
  constructor
  · intro h ver a hd
    obtain ⟨r, hr, _⟩ := (i3 ver a).2 hd
    rw [h] at hr; simp at hr
  · intro h
    cases hl : iterIpranges s with
    | nil => rfl
    | cons r t =>
      exfalso
      have hr : r ∈ iterIpranges s := by rw [hl]; exact List.mem_cons_self ..
      exact h r.1 r.2.1 ((i3 r.1 r.2.1).1 ⟨r, hr, rfl, Nat.le_refl _, i1 r hr⟩)

theorem ranges_single_iff (s : St) (hs : Inv s) (v lo hi : Nat) :
    iterIpranges s = [(v, lo, hi)] ↔
      lo ≤ hi ∧ ∀ u a, denS s u a ↔ u = v ∧ lo ≤ a ∧ a ≤ hi := by
  obtain ⟨i1, i2, i3⟩ := iterIpranges_spec s hs
  constructor
  · intro h
    rw [h] at i1 i3
    refine ⟨i1 (v, lo, hi) (List.mem_cons_self ..), fun u a => ?_⟩
    rw [← i3 u a]
    unfold denVR
    simp only [List.mem_singleton, exists_eq_left]
    constructor
    · rintro ⟨h1, h2⟩; exact ⟨h1.symm, h2⟩
    · rintro ⟨h1, h2⟩; exact ⟨h1.symm, h2⟩
  · rintro ⟨hle, hd⟩
    -- every emitted range lies inside [lo, hi] of family v
    have inside : ∀ r ∈ iterIpranges s, r.1 = v ∧ lo ≤ r.2.1 ∧ r.2.2 ≤ hi := by
      intro r hr
      have hv := i1 r hr
      have a1 := (hd r.1 r.2.1).1 ((i3 r.1 r.2.1).1 ⟨r, hr, rfl, Nat.le_refl _, hv⟩)
      have a2 := (hd r.1 r.2.2).1 ((i3 r.1 r.2.2).1 ⟨r, hr, rfl, hv, Nat.le_refl _⟩)
      exact ⟨a1.1, a1.2.1, a2.2.2⟩
    cases hl : iterIpranges s with
    | nil =>
      exfalso
      exact (ranges_nil_iff s hs).1 hl v lo ((hd v lo).2 ⟨rfl, Nat.le_refl _, hle⟩)
    | cons r t =>
      have hr : r ∈ iterIpranges s := by rw [hl]; exact List.mem_cons_self ..
      obtain ⟨r1, r2, r3⟩ := inside r hr
      have hvr := i1 r hr
      cases t with
      | nil =>
        -- lo and hi are covered, by the only range
        obtain ⟨x, hx, _, x2, _⟩ := (i3 v lo).2 ((hd v lo).2 ⟨rfl, Nat.le_refl _, hle⟩)
        obtain ⟨y, hy, _, _, y3⟩ := (i3 v hi).2 ((hd v hi).2 ⟨rfl, hle, Nat.le_refl _⟩)
        rw [hl, List.mem_singleton] at hx hy
        rw [hx] at x2; rw [hy] at y3
        obtain ⟨rv, rlo, rhi⟩ := r
        simp only at r1 r2 r3 x2 y3 ⊢
        have e1 : rlo = lo := by omega
        have e2 : rhi = hi := by omega
        rw [r1, e1, e2]
      | cons r' t' =>
        exfalso
        have hr' : r' ∈ iterIpranges s := by rw [hl]; simp
        obtain ⟨q1, q2, q3⟩ := inside r' hr'
        have hvr' := i1 r' hr'
        have hg : GapR_q r r' := by
          rw [hl] at i2
          exact (List.pairwise_cons.1 i2).1 r' (List.mem_cons_self ..)
        have hgap : r.2.2 + 1 < r'.2.1 := by
          rcases hg with h | h
          · omega
          · exact h.2
        apply gap_not_den (iterIpranges s) i1 i2 r hr
        rw [i3, hd]
        exact ⟨r1, by omega, by omega⟩

/-- `iscontiguous()`: the set is empty or one interval of one family -/
theorem iscontiguous_iff (s : St) (hs : Inv s) :
    iscontiguous s = true ↔
      (∀ ver a, ¬ denS s ver a) ∨
      ∃ v lo hi, lo ≤ hi ∧ ∀ u a, denS s u a ↔ u = v ∧ lo ≤ a ∧ a ≤ hi := by
  rw [iscontiguous_iff_len]
  constructor
  · intro h
    cases hl : iterIpranges s with
    | nil => exact Or.inl ((ranges_nil_iff s hs).1 hl)
    | cons r t =>
      cases t with
      | nil =>
        obtain ⟨v, lo, hi⟩ := r
        exact Or.inr ⟨v, lo, hi, (ranges_single_iff s hs v lo hi).1 hl⟩
      | cons r' t' => rw [hl] at h; simp at h
  · rintro (h | ⟨v, lo, hi, h⟩)
    · rw [(ranges_nil_iff s hs).2 h]; simp
    · rw [(ranges_single_iff s hs v lo hi).2 h]; simp

theorem iprange_none_iff (s : St) (hs : Inv s) : iprange s = .ok none ↔ ∀ ver a, ¬ denS s ver a := by
  rw [← ranges_nil_iff s hs, iprange_eq]
  cases hl : iterIpranges s with
  | nil => simp
  | cons r t =>
    cases t with
    | nil => simp
    | cons r' t' => simp

theorem iprange_some_iff (s : St) (hs : Inv s) (r : Rng) :
    iprange s = .ok (some r) ↔
      r.lo ≤ r.hi ∧ ∀ u a, denS s u a ↔ u = r.ver ∧ r.lo ≤ a ∧ a ≤ r.hi := by
  rw [← ranges_single_iff s hs, iprange_eq]
  cases hl : iterIpranges s with
  | nil => simp
  | cons x t =>
    cases t with
    | nil =>
      obtain ⟨v, lo, hi⟩ := x
      obtain ⟨rv, rlo, rhi⟩ := r
      simp only [Except.ok.injEq, Option.some.injEq, Rng.mk.injEq, List.cons.injEq, Prod.mk.injEq, and_true]
    | cons r' t' => simp

theorem iprange_error_iff (s : St) (e : Err) :
    iprange s = .error e ↔ e = .value ∧ iscontiguous s = false := by
  unfold iprange
  by_cases hc : iscontiguous s = true
  · rw [if_pos hc]
    cases iterCidrs s with
    | nil => simp [hc]
    | cons c rest => simp [hc]
  · rw [if_neg hc]
    simp only [Bool.not_eq_true] at hc
    simp only [Except.error.injEq, hc, and_true]
    exact eq_comm

/-! ### size as a measure on the common number line -/

theorem size_eq_total (s : St) (hg : ∀ n ∈ s, n.WF) : size s = total (s.map lin) := by
  unfold size
  induction s with
  | nil => rfl
  | cons n s ih =>
    simp only [List.map_cons, List.sum_cons, total]
    rw [ih (fun m hm => hg m (List.mem_cons_of_mem _ hm))]
    have hw := hg n (List.mem_cons_self ..)
    have : netSize (width n.ver) n.val n.plen = 2 ^ (width n.ver - n.plen) := by
      show n.last - n.first + 1 = _
      rw [last_eq n hw]; have := pw (width n.ver - n.plen); omega
    rw [this]; rfl

theorem lin_pairwise_disj (s : St) (hs : Inv s) : (s.map lin).Pairwise Blk.disj := by
  rw [List.pairwise_map]
  have hcs := canonset_lin s hs
  refine List.Pairwise.imp_of_mem ?_ hs.nodup
  intro a b ha hb hne
  apply hcs.dj _ (List.mem_map.2 ⟨a, ha, rfl⟩) _ (List.mem_map.2 ⟨b, hb, rfl⟩)
  intro e
  have hga := hs.good a ha; have hgb := hs.good b hb
  have := (lin_eq_iff a b hga.1 hgb.1).1 e
  exact hne ((keyEq_good a b hga hgb).1 ((keyEq_iff a b hga.1 hgb.1).2 this))

theorem sub_lin (s t : St) (hs : ∀ n ∈ s, n.WF) (ht : ∀ n ∈ t, n.WF)
    (h : ∀ ver a, denS s ver a → denS t ver a) (x : Nat) : den (s.map lin) x → den (t.map lin) x := by
  rw [den_lin s hs, den_lin t ht]
  rintro ⟨ver, a, e, hd⟩; exact ⟨ver, a, e, h ver a hd⟩

theorem sub_of_lin (s t : St) (hs : ∀ n ∈ s, n.WF) (ht : ∀ n ∈ t, n.WF)
    (h : ∀ x, den (s.map lin) x → den (t.map lin) x) (ver a : Nat) : denS s ver a → denS t ver a := by
  rw [denS_iff_lin s hs, denS_iff_lin t ht]
  rintro ⟨h1, h2, h3⟩; exact ⟨h1, h2, h _ h3⟩

/-- inclusion bounds the sizes -/
theorem size_le_of_sub (s t : St) (hs : Inv s) (ht : Inv t)
    (h : ∀ ver a, denS s ver a → denS t ver a) : size s ≤ size t := by
  have hws : ∀ n ∈ s, n.WF := fun n hn => (hs.good n hn).1
  have hwt : ∀ n ∈ t, n.WF := fun n hn => (ht.good n hn).1
  rw [size_eq_total s hws, size_eq_total t hwt]
  exact total_le_of_sub _ _ (lin_pairwise_disj s hs) (lin_pairwise_disj t ht) (sub_lin s t hws hwt h)

/-- inclusion with equal sizes is equality -/
theorem sup_of_sub_of_size_eq (s t : St) (hs : Inv s) (ht : Inv t)
    (h : ∀ ver a, denS s ver a → denS t ver a) (he : size s = size t) :
    ∀ ver a, denS t ver a → denS s ver a := by
  have hws : ∀ n ∈ s, n.WF := fun n hn => (hs.good n hn).1
  have hwt : ∀ n ∈ t, n.WF := fun n hn => (ht.good n hn).1
  rw [size_eq_total s hws, size_eq_total t hwt] at he
  exact sub_of_lin t s hwt hws
    (den_eq_of_total_eq _ _ (lin_pairwise_disj s hs) (lin_pairwise_disj t ht) (sub_lin s t hws hwt h) he)

/-- `s < t`: strict inclusion of the address sets -/
theorem lt_iff (s t : St) (hs : Inv s) (ht : Inv t) :
    lt s t = true ↔
      (∀ ver a, denS s ver a → denS t ver a) ∧ ¬ (∀ ver a, denS t ver a → denS s ver a) := by
  unfold lt
  simp only [Bool.and_eq_true, decide_eq_true_eq]
  rw [issubset_iff s t hs ht]
  constructor
  · rintro ⟨h1, h2⟩
    refine ⟨h2, fun h3 => ?_⟩
    have := size_le_of_sub t s ht hs h3
    omega
  · rintro ⟨h1, h2⟩
    refine ⟨?_, h1⟩
    have hle := size_le_of_sub s t hs ht h1
    rcases Nat.lt_or_ge (size s) (size t) with h | h
    · exact h
    · exact absurd (sup_of_sub_of_size_eq s t hs ht h1 (by omega)) h2

theorem gt_eq_lt (s t : St) : gt s t = lt t s := rfl

theorem vrSum_eq_sum (l : List VR) : vrSum l = (l.map (fun r => r.2.2 - r.2.1 + 1)).sum := by
  induction l with
  | nil => rfl
  | cons r l ih => simp only [vrSum, List.map_cons, List.sum_cons, ih]

/-- evaluation helper for concrete instances: `sorted()` leaves a sorted key list alone -/
theorem iterCidrs_sorted (l : St) (h : l.Pairwise (fun a b => tupleLe a.sortKey b.sortKey = true)) :
    iterCidrs l = l := List.mergeSort_of_pairwise h

end NV.IPSet
