/-
Lemmas/IPSetL1.lean — abstraction of IPSet states to block sets, the state invariant, and
basic facts about keys (C06/C07).
-/
import NetaddrVerif.Model.IPSet
import NetaddrVerif.Lemmas.NetworkL
import NetaddrVerif.Lemmas.Canon
import NetaddrVerif.Lemmas.MergeUp
namespace NV.IPSet
open NV NV.Blk

/-- the aligned block a network denotes -/
def blk (n : Net) : Blk := ⟨n.first, width n.ver - n.plen⟩

/-- a key as the repaired code stores it: in range and host-bit-free -/
def Good (n : Net) : Prop := n.WF ∧ n.val = n.first

theorem first_eq (n : Net) (h : n.WF) :
    n.first = n.val / 2 ^ (width n.ver - n.plen) * 2 ^ (width n.ver - n.plen) :=
  netFirst_eq _ _ _ h.2.1

theorem last_eq (n : Net) (h : n.WF) : n.last = n.first + (2 ^ (width n.ver - n.plen) - 1) := by
  unfold Net.last Net.first
  rw [netLast_eq, netFirst_eq _ _ _ h.2.1]

theorem blk_aligned (n : Net) (h : n.WF) : (blk n).aligned := by
  unfold Blk.aligned blk
  simp only
  rw [first_eq n h]; exact Nat.mul_mod_left _ _

theorem blk_mem (n : Net) (h : n.WF) (a : Nat) : (blk n).mem a ↔ n.first ≤ a ∧ a ≤ n.last := by
  unfold Blk.mem blk
  simp only
  rw [last_eq n h]
  have := pw (width n.ver - n.plen)
  omega

theorem first_le_last (n : Net) (h : n.WF) : n.first ≤ n.last := by
  rw [last_eq n h]; omega

theorem last_lt (n : Net) (h : n.WF) : n.last < 2 ^ width n.ver := by
  rw [last_eq n h, first_eq n h]
  have := block_lt (width n.ver) n.val n.plen h.2.1 h.2.2
  have := pw (width n.ver - n.plen)
  omega

theorem pow_inj {i j : Nat} (h : 2 ^ i = 2 ^ j) : i = j :=
  (Nat.pow_right_inj (by decide)).1 h

/-- for in-range networks, equal keys = same version and same block -/
theorem keyEq_iff (a b : Net) (ha : a.WF) (hb : b.WF) :
    keyEq a b = true ↔ a.ver = b.ver ∧ blk a = blk b := by
  unfold keyEq blk
  simp only [Bool.and_eq_true, beq_iff_eq, Blk.mk.injEq]
  constructor
  · rintro ⟨⟨hv, hf⟩, hl⟩
    refine ⟨hv, hf, ?_⟩
    rw [last_eq a ha, last_eq b hb, hf] at hl
    have h1 := pw (width a.ver - a.plen); have h2 := pw (width b.ver - b.plen)
    exact pow_inj (by omega)
  · rintro ⟨hv, hf, hk⟩
    refine ⟨⟨hv, hf⟩, ?_⟩
    rw [last_eq a ha, last_eq b hb, hf, hk]

/-- host-bit-free in-range keys are equal as keys iff they are the same record -/
theorem keyEq_good (a b : Net) (ha : Good a) (hb : Good b) : keyEq a b = true ↔ a = b := by
  rw [keyEq_iff a b ha.1 hb.1]
  constructor
  · rintro ⟨hv, hblk⟩
    unfold blk at hblk
    simp only [Blk.mk.injEq] at hblk
    obtain ⟨av, aval, ap⟩ := a
    obtain ⟨bv, bval, bp⟩ := b
    simp only at hv; subst hv
    have h1 : aval = bval := by
      have := ha.2; have := hb.2; simp only at *; omega
    have h2 : ap = bp := by
      have := ha.1.2.2; have := hb.1.2.2; simp only at *; omega
    subst h1; subst h2; rfl
  · rintro rfl; exact ⟨rfl, rfl⟩

theorem keyEq_refl (a : Net) : keyEq a a = true := by simp [keyEq]

theorem keyEq_symm (a b : Net) : keyEq a b = keyEq b a := by
  unfold keyEq
  simp only [Bool.beq_comm (a := a.ver), Bool.beq_comm (a := a.first), Bool.beq_comm (a := a.last)]

/-- the blocks of one family in a state -/
def fam (ver : Nat) (s : St) : List Blk := (s.filter (fun n => n.ver == ver)).map blk

/-- the addresses a state denotes, per family -/
def denS (s : St) (ver a : Nat) : Prop := ∃ n ∈ s, n.ver = ver ∧ n.first ≤ a ∧ a ≤ n.last

/-- State invariant: every key in range and host-bit-free, no two equal keys, and per
    family the blocks are aligned, pairwise disjoint and no two can be combined. -/
structure Inv (s : St) : Prop where
  good : ∀ n ∈ s, Good n
  nodup : s.Nodup
  cs : ∀ ver, CanonSet (fam ver s)

theorem mem_fam {ver : Nat} {s : St} {b : Blk} : b ∈ fam ver s ↔ ∃ n ∈ s, n.ver = ver ∧ blk n = b := by
  unfold fam
  simp only [List.mem_map, List.mem_filter, beq_iff_eq]
  constructor
  · rintro ⟨n, ⟨h1, h2⟩, h3⟩; exact ⟨n, h1, h2, h3⟩
  · rintro ⟨n, h1, h2, h3⟩; exact ⟨n, ⟨h1, h2⟩, h3⟩

theorem den_fam (s : St) (hg : ∀ n ∈ s, Good n) (ver a : Nat) : den (fam ver s) a ↔ denS s ver a := by
  unfold den denS
  constructor
  · rintro ⟨b, hb, hm⟩
    obtain ⟨n, hn, hv, rfl⟩ := mem_fam.1 hb
    exact ⟨n, hn, hv, (blk_mem n (hg n hn).1 a).1 hm⟩
  · rintro ⟨n, hn, hv, h⟩
    exact ⟨blk n, mem_fam.2 ⟨n, hn, hv, rfl⟩, (blk_mem n (hg n hn).1 a).2 h⟩

theorem inv_nil : Inv [] :=
  ⟨by simp, List.nodup_nil, fun ver => ⟨by simp [fam], by simp [fam], by simp [fam]⟩⟩

/-- in a state of good keys, dictionary membership of a good key is list membership -/
theorem dMem_good (s : St) (hg : ∀ n ∈ s, Good n) (k : Net) (hk : Good k) : dMem s k = true ↔ k ∈ s := by
  unfold dMem
  simp only [List.any_eq_true]
  constructor
  · rintro ⟨c, hc, he⟩
    have := (keyEq_good c k (hg c hc) hk).1 he
    exact this ▸ hc
  · intro h; exact ⟨k, h, keyEq_refl k⟩

end NV.IPSet
