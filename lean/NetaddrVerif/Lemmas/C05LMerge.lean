import NetaddrVerif.Lemmas.C05LRange
import NetaddrVerif.Lemmas.C05LSweep
/-! C05 helper lemmas, part 6: emitting the swept tuples; `cidr_merge` as a whole. -/
namespace NV.C05L
open NV Blk

/-- an input of `cidr_merge` that the constructors of netaddr can produce: a network with value
    and prefix inside the width (host bits allowed), or a range `lo ≤ hi` inside the width -/
def ItemWF : MItem → Prop
  | .net ver p => p.val < 2 ^ width ver ∧ p.plen ≤ width ver
  | .rng ver lo hi => lo ≤ hi ∧ hi < 2 ^ width ver

/-- address `a` of family `u` belongs to one of the inputs -/
def iden (xs : List MItem) (u a : Nat) : Prop := ∃ it ∈ xs, rmem it.toRange u a

/-- a tuple that still carries its original object describes exactly that (well-formed) object -/
def Good (r : MRange) : Prop := ∀ it, r.orig = some it → ItemWF it ∧ it.toRange = r

theorem toRange_good (it : MItem) (h : ItemWF it) : Good it.toRange := by
  intro it' h'
  cases it <;> simp only [MItem.toRange, Option.some.injEq] at h' <;> subst h' <;> exact ⟨h, rfl⟩

theorem toRange_valid (it : MItem) (h : ItemWF it) :
    it.toRange.first ≤ it.toRange.last ∧ it.toRange.last < 2 ^ width it.toRange.ver := by
  cases it with
  | net ver p =>
    obtain ⟨h1, h2⟩ := h
    simp only [MItem.toRange]
    rw [pfx_first_eq _ p h1, pfx_last_eq]
    have := block_lt (width ver) p.val p.plen h1 h2
    have := pp (width ver - p.plen)
    unfold fl; omega
  | rng ver lo hi => exact h

theorem mden_cons (r : MRange) (t : List MRange) (u a : Nat) : mden (r :: t) u a ↔ rmem r u a ∨ mden t u a := by
  simp [mden]

theorem mnorm_valid : ∀ (l : List MRange), MNorm l → ∀ r ∈ l, r.first ≤ r.last
  | [], _, r, hr => by simp at hr
  | x :: t, h, r, hr => by
    rcases List.mem_cons.1 hr with rfl | h'
    · exact mnorm_head_valid h
    · exact mnorm_valid t (mnorm_tail h) r h'

theorem mnorm_forall : ∀ (r : MRange) (t : List MRange), MNorm (r :: t) →
    ∀ s ∈ t, r.ver < s.ver ∨ (r.ver = s.ver ∧ r.last + 1 < s.first)
  | _, [], _, s, hs => by simp at hs
  | r, x :: t, h, s, hs => by
    rw [mnorm_cons] at h
    rcases List.mem_cons.1 hs with rfl | h'
    · exact h.2.1
    · have := mnorm_forall x t h.2.2 s h'
      have := mnorm_head_valid h.2.2
      omega

/-- what the final loop of `cidr_merge` appends for one tuple -/
theorem emit_spec (r : MRange) (hg : Good r) (hv : r.first ≤ r.last) (hl : r.last < 2 ^ width r.ver) :
    ∃ L, r.emit = L.map (fun b => (⟨r.ver, b.val, b.plen⟩ : Net)) ∧ RangeOK (width r.ver) L r.first r.last := by
  unfold MRange.emit
  cases hor : r.orig with
  | none =>
    exact ⟨_, rfl, range_addr _ _ _ hv hl⟩
  | some it =>
    obtain ⟨hwf, htr⟩ := hg it hor
    cases it with
    | net ver p =>
      subst htr
      obtain ⟨h1, h2⟩ := hwf
      refine ⟨[p.cidr (width ver)], rfl, ?_⟩
      simp only [MItem.toRange]
      have hal := fl_mod (width ver - p.plen) p.val
      have := single_rangeOK (width ver) (fl (width ver - p.plen) p.val) p.plen h2 hal
      have e1 : p.cidr (width ver) = ⟨fl (width ver - p.plen) p.val, p.plen⟩ := by
        show (⟨netFirst (width ver) p.val p.plen, p.plen⟩ : Pfx) = _
        rw [netFirst_eq _ _ _ h1]; rfl
      rw [e1, pfx_first_eq _ p h1, pfx_last_eq]
      have hp := pp (width ver - p.plen)
      have e2 : fl (width ver - p.plen) p.val + 2 ^ (width ver - p.plen) - 1 =
          fl (width ver - p.plen) p.val + (2 ^ (width ver - p.plen) - 1) := by omega
      rw [e2] at this
      exact this
    | rng ver lo hi =>
      subst htr
      exact ⟨_, rfl, range_addr _ _ _ hwf.1 hwf.2⟩

/-- the blocks of family `u` in a result list, as `Blk`s -/
def famBlks (u : Nat) (l : List Net) : List Blk :=
  (l.filter (fun n => n.ver == u)).map (fun n => ⟨n.val, width u - n.plen⟩)

theorem famBlks_append (u : Nat) (l₁ l₂ : List Net) : famBlks u (l₁ ++ l₂) = famBlks u l₁ ++ famBlks u l₂ := by
  simp [famBlks]

theorem famBlks_same (u : Nat) (L : List Pfx) :
    famBlks u (L.map (fun b => (⟨u, b.val, b.plen⟩ : Net))) = L.map (toBlk (width u)) := by
  induction L with
  | nil => rfl
  | cons x xs ih =>
    simp only [famBlks, List.map_cons, List.filter_cons, beq_self_eq_true, if_true] at ih ⊢
    rw [ih]; rfl

theorem famBlks_other (u v : Nat) (h : v ≠ u) (L : List Pfx) :
    famBlks u (L.map (fun b => (⟨v, b.val, b.plen⟩ : Net))) = [] := by
  induction L with
  | nil => rfl
  | cons x xs ih =>
    have : (v == u) = false := by simpa using h
    simp only [famBlks, List.map_cons, List.filter_cons, this] at ih ⊢
    simpa using ih

theorem den_nil (a : Nat) : ¬ den [] a := by simp [den]

/-- per family: the emitted blocks of a normal-form tuple list are canonical and exact -/
theorem flat_canon (u : Nat) : ∀ (l : List MRange), MNorm l →
    (∀ r ∈ l, Good r ∧ r.last < 2 ^ width r.ver) →
    Canon (famBlks u (l.flatMap MRange.emit)) ∧
    ∀ a, den (famBlks u (l.flatMap MRange.emit)) a ↔ mden l u a
  | [], _, _ => ⟨canon_nil, fun a => by simp [famBlks, den, mden]⟩
  | r :: t, hn, hg => by
    obtain ⟨ihc, ihd⟩ := flat_canon u t (mnorm_tail hn) (fun s hs => hg s (List.mem_cons_of_mem _ hs))
    obtain ⟨L, hL, hok⟩ := emit_spec r (hg r (by simp)).1 (mnorm_head_valid hn) (hg r (by simp)).2
    rw [List.flatMap_cons, famBlks_append, hL]
    by_cases hru : r.ver = u
    · subst hru
      rw [famBlks_same]
      have hcross : ∀ b ∈ L.map (toBlk (width r.ver)), ∀ c ∈ famBlks r.ver (t.flatMap MRange.emit),
          b.base + 2 ^ b.k < c.base := by
        intro b hb c hc
        obtain ⟨p, hp, rfl⟩ := List.mem_map.1 hb
        have hpk := pp (width r.ver - p.plen)
        have h1 := (hok.den (p.val + 2 ^ (width r.ver - p.plen) - 1)).1 ⟨p, hp, by simp only [bmem]; omega⟩
        obtain ⟨s, hs, hsv, hsf, _⟩ := (ihd c.base).1 ⟨c, hc, mem_base c⟩
        have := mnorm_forall r t hn s hs
        simp only [toBlk]; omega
      refine ⟨?_, fun a => ?_⟩
      · apply canon_append _ _ hok.canon ihc
        · intro b hb c hc; exact Nat.le_of_lt (hcross b hb c hc)
        · intro b hb c hc hs
          have := hcross b hb c hc
          have := hs.2.2
          omega
      · rw [den_append, den_map_toBlk, hok.den a, ihd a, mden_cons]
        simp only [rmem, true_and]
    · rw [famBlks_other u r.ver hru, List.nil_append]
      refine ⟨ihc, fun a => ?_⟩
      rw [ihd a, mden_cons]
      simp only [rmem, hru, false_and, false_or]

/-- result order: IPv4 (smaller version number) first, ascending by address inside a family -/
def NetLt (m n : Net) : Prop := m.ver < n.ver ∨ (m.ver = n.ver ∧ m.val < n.val)

/-- every emitted network is a proper CIDR inside the range of some tuple -/
def NetIn (l : List MRange) (n : Net) : Prop :=
  ∃ r ∈ l, n.ver = r.ver ∧ r.first ≤ n.val ∧ n.val ≤ r.last ∧ n.plen ≤ width n.ver ∧
    n.val % 2 ^ (width n.ver - n.plen) = 0

theorem flat_order : ∀ (l : List MRange), MNorm l →
    (∀ r ∈ l, Good r ∧ r.last < 2 ^ width r.ver) →
    (l.flatMap MRange.emit).Pairwise NetLt ∧ ∀ n ∈ l.flatMap MRange.emit, NetIn l n
  | [], _, _ => ⟨by simp, by simp⟩
  | r :: t, hn, hg => by
    obtain ⟨iho, ihi⟩ := flat_order t (mnorm_tail hn) (fun s hs => hg s (List.mem_cons_of_mem _ hs))
    obtain ⟨L, hL, hok⟩ := emit_spec r (hg r (by simp)).1 (mnorm_head_valid hn) (hg r (by simp)).2
    rw [List.flatMap_cons, hL]
    have hin : ∀ n ∈ L.map (fun b => (⟨r.ver, b.val, b.plen⟩ : Net)), NetIn (r :: t) n := by
      intro n hn'
      obtain ⟨p, hp, rfl⟩ := List.mem_map.1 hn'
      have hpk := pp (width r.ver - p.plen)
      have h1 := (hok.den p.val).1 ⟨p, hp, by simp only [bmem]; omega⟩
      exact ⟨r, by simp, rfl, h1.1, h1.2, (hok.wf p hp).2, (hok.wf p hp).1⟩
    refine ⟨?_, ?_⟩
    · rw [List.pairwise_append]
      refine ⟨?_, iho, ?_⟩
      · rw [List.pairwise_map]
        have := hok.canon.sorted
        rw [List.pairwise_map] at this
        exact this.imp (fun {a b} h => Or.inr ⟨rfl, h⟩)
      · intro m hm n hn'
        obtain ⟨r', hr', e1, _, e3, _⟩ := hin m hm
        rcases List.mem_cons.1 hr' with rfl | hr''
        · obtain ⟨s, hs, f1, f2, _⟩ := ihi n hn'
          have := mnorm_forall r' t hn s hs
          unfold NetLt; omega
        · -- cannot happen: `hin` only ever names `r`; redo with r itself
          obtain ⟨p, hp, rfl⟩ := List.mem_map.1 hm
          have hpk := pp (width r.ver - p.plen)
          have h1 := (hok.den p.val).1 ⟨p, hp, by simp only [bmem]; omega⟩
          obtain ⟨s, hs, f1, f2, _⟩ := ihi n hn'
          have := mnorm_forall r t hn s hs
          unfold NetLt; simp only; omega
    · intro n hn'
      rcases List.mem_append.1 hn' with h | h
      · exact hin n h
      · obtain ⟨s, hs, rest⟩ := ihi n h
        exact ⟨s, List.mem_cons_of_mem _ hs, rest⟩

end NV.C05L
