/-
Lemmas/C17LPlan.lean — nmap: the parse phase / enumeration phase presentation equals the
generator model; several specs in one call (`iter_nmap_range(*specs)`), per-spec budget and
`islice` budget.
-/
import NetaddrVerif.Lemmas.C17LNmap
namespace NV.C17L.Plan
open NV NV.Nmap NV.C17

/-! ### parse phase + enumeration phase = the generator model -/

/-- the generator model is "parse, then enumerate": every error of `parseTargetSpec` is an
    error of `parsePlan`, and `Plan.items` is total -/
theorem parseTargetSpec_eq_plan (F : Foreign) (fuel : Nat) (spec : List Char) :
    parseTargetSpec F fuel spec = (parsePlan F spec).map (Plan.items fuel) := by
  unfold parseTargetSpec parsePlan
  by_cases h1 : spec.contains '/' = true
  · simp only [h1, if_true]
    cases Py.pyInt 10 (split1 '/' spec).2 with
    | none => rfl
    | some p =>
      simp only
      by_cases hg : (0 < p ∧ p < 33)
      · simp only [hg, and_self, not_true_eq_false, if_false]
        cases F.ipNetwork spec with
        | error e => rfl
        | ok net =>
          simp only
          by_cases hv : net.ver ≠ 4
          · rw [if_pos hv, if_pos hv]; rfl
          · rw [if_neg hv, if_neg hv]; rfl
      · simp only [hg, not_false_eq_true, if_true]; rfl
  · simp only [h1, Bool.false_eq_true, if_false]
    by_cases h2 : spec.contains ':' = true
    · simp only [h2, if_true]
      cases F.ipAddress spec with
      | error e => rfl
      | ok a => rfl
    · simp only [h2, Bool.false_eq_true, if_false]
      cases generateOctetRanges spec with
      | error e => rfl
      | ok rs =>
        match rs with
        | [] => rfl
        | [_] => rfl
        | [_, _] => rfl
        | [_, _, _] => rfl
        | [_, _, _, _] => rfl
        | _ :: _ :: _ :: _ :: _ :: _ => rfl

/-- the first `fuel` items are a prefix of the whole enumeration -/
theorem items_eq_take (p : Plan) (fuel : Nat) : p.items fuel = p.all.take fuel := by
  cases p with
  | cidr net =>
    simp only [Plan.items, Plan.all, netIter]
    rw [← List.map_take, ← List.map_take, List.take_range, Nat.min_comm]
  | addr a => rfl
  | octets ws xs ys zs =>
    simp only [Plan.items, Plan.all, product4_eq, fullProduct]
    rw [← List.map_take]

theorem items_length_le (p : Plan) (fuel : Nat) : (p.items fuel).length ≤ fuel := by
  rw [items_eq_take, List.length_take]; omega

/-- a spec that parses has at least one item (so `next()` in `valid_nmap_range` never sees
    StopIteration) -/
theorem plan_all_ne_nil (F : Foreign) (spec : List Char) (p : Plan) (h : parsePlan F spec = .ok p) :
    p.all ≠ [] := by
  cases p with
  | cidr net =>
    have hle : net.first ≤ net.last := by
      unfold Net.first Net.last netFirst netLast
      exact Nat.le_trans Nat.and_le_left Nat.left_le_or
    simp only [Plan.all, ne_eq, List.map_eq_nil_iff, List.range_eq_nil]
    omega
  | addr a => simp [Plan.all]
  | octets ws xs ys zs =>
    unfold parsePlan at h
    by_cases h1 : spec.contains '/' = true
    · simp only [h1, if_true] at h
      cases hp : Py.pyInt 10 (split1 '/' spec).2 with
      | none => simp [hp] at h
      | some q =>
        simp only [hp] at h
        split at h
        · cases h
        · cases hn : F.ipNetwork spec with
          | error e => simp [hn] at h
          | ok net =>
            simp only [hn] at h
            split at h <;> cases h
    · simp only [h1, Bool.false_eq_true, if_false] at h
      by_cases h2 : spec.contains ':' = true
      · simp only [h2, if_true] at h
        cases ha : F.ipAddress spec with
        | error e => simp [ha] at h
        | ok a => simp [ha] at h
      · simp only [h2, Bool.false_eq_true, if_false] at h
        cases hgen : generateOctetRanges spec with
        | error e => simp [hgen] at h
        | ok rs =>
          obtain ⟨_, t0, t1, t2, t3, l0, l1, l2, l3, _, hrs, h0, h1', h2', h3⟩ := generate_ok hgen
          subst hrs
          simp only [hgen, Except.ok.injEq, Plan.octets.injEq] at h
          obtain ⟨rfl, rfl, rfl, rfl⟩ := h
          have ne : ∀ t l, octetTargetValues t = .ok l → l ≠ [] := by
            intro t l h
            rcases octetTargetValues_cases t with ⟨_, l', h', hne, _⟩ | ⟨_, h'⟩
            · rw [h] at h'; simp only [Except.ok.injEq] at h'; subst h'; exact hne
            · rw [h] at h'; exact absurd h' (by simp)
          have := fullProduct_ne_nil l0 l1 l2 l3 (ne _ _ h0) (ne _ _ h1') (ne _ _ h2') (ne _ _ h3)
          simp only [Plan.all, ne_eq, List.map_eq_nil_iff]
          exact this

/-! ### several specs, per-spec budget (`Nmap.iterNmapRanges`) -/

/-- the items one spec contributes (nothing if it fails) -/
def itemsOf (F : Foreign) (fuel : Nat) (s : List Char) : List Addr :=
  match iterNmapRange F fuel s with
  | .ok l => l
  | .error _ => []

theorem ranges_all_ok (F : Foreign) (fuel : Nat) (specs : List (List Char))
    (h : ∀ s ∈ specs, ∃ l, iterNmapRange F fuel s = .ok l) :
    iterNmapRanges F fuel specs = (specs.flatMap (itemsOf F fuel), none) := by
  induction specs with
  | nil => rfl
  | cons s r ih =>
    obtain ⟨l, hl⟩ := h s (List.mem_cons_self ..)
    have ih' := ih (fun x hx => h x (List.mem_cons_of_mem _ hx))
    have hl' : parseTargetSpec F fuel s = .ok l := hl
    simp only [iterNmapRanges, hl', ih', List.flatMap_cons, itemsOf, hl]

theorem ranges_first_fail (F : Foreign) (fuel : Nat) (pre post : List (List Char)) (s : List Char) (e : Err)
    (hpre : ∀ x ∈ pre, ∃ l, iterNmapRange F fuel x = .ok l) (hs : iterNmapRange F fuel s = .error e) :
    iterNmapRanges F fuel (pre ++ s :: post) = (pre.flatMap (itemsOf F fuel), some e) := by
  induction pre with
  | nil =>
    have hs' : parseTargetSpec F fuel s = .error e := hs
    simp [iterNmapRanges, hs']
  | cons x r ih =>
    obtain ⟨l, hl⟩ := hpre x (List.mem_cons_self ..)
    have ih' := ih (fun y hy => hpre y (List.mem_cons_of_mem _ hy))
    have hl' : parseTargetSpec F fuel x = .ok l := hl
    simp only [List.cons_append, iterNmapRanges, hl', ih', List.flatMap_cons, itemsOf, hl]

/-- every argument list is in exactly one of the two situations -/
theorem ok_or_first_fail {α : Type} (P : α → Prop) (specs : List α) :
    (∀ s ∈ specs, P s) ∨ ∃ pre s post, specs = pre ++ s :: post ∧ (∀ x ∈ pre, P x) ∧ ¬ P s := by
  induction specs with
  | nil => left; intro s hs; cases hs
  | cons a r ih =>
    by_cases ha : P a
    · rcases ih with h | ⟨pre, s, post, e, hp, hs⟩
      · left; intro s hs
        rcases List.mem_cons.1 hs with rfl | h'
        · exact ha
        · exact h s h'
      · right
        refine ⟨a :: pre, s, post, by rw [e]; rfl, ?_, hs⟩
        intro x hx
        rcases List.mem_cons.1 hx with rfl | h'
        · exact ha
        · exact hp x h'
    · right; exact ⟨[], a, r, rfl, ⟨fun x hx => absurd hx (by simp), ha⟩⟩

/-! ### several specs, one `islice` budget (`Nmap.isliceNmapRanges`) -/

/-- the whole run of `iter_nmap_range(*specs)` without a budget: all items of the specs before
    the first one that fails to parse, and that spec's exception (specification only) -/
def fullTrace (F : Foreign) : List (List Char) → List Addr × Option Err
  | [] => ([], none)
  | s :: r =>
    match parsePlan F s with
    | .error e => ([], some e)
    | .ok p => let t := fullTrace F r; (p.all ++ t.1, t.2)

/-- what a consumer that takes at most `fuel` items sees of a run: if the run has `fuel` items
    or more it sees the first `fuel` and never the exception behind them -/
def truncTrace (fuel : Nat) (t : List Addr × Option Err) : List Addr × Option Err :=
  if fuel ≤ t.1.length then (t.1.take fuel, none) else t

theorem islice_eq (F : Foreign) (specs : List (List Char)) :
    ∀ fuel, isliceNmapRanges F fuel specs = truncTrace fuel (fullTrace F specs) := by
  induction specs with
  | nil =>
    intro fuel
    simp only [isliceNmapRanges, fullTrace, truncTrace, List.length_nil, List.take_nil]
    split <;> rfl
  | cons s r ih =>
    intro fuel
    unfold isliceNmapRanges fullTrace
    by_cases h0 : fuel = 0
    · subst h0; simp [truncTrace]
    · simp only [h0, if_false]
      cases hp : parsePlan F s with
      | error e =>
        simp only [truncTrace, List.length_nil, List.take_nil]
        have : ¬ fuel ≤ 0 := by omega
        simp [this]
      | ok p =>
        simp only [ih, items_eq_take, List.length_take]
        generalize fullTrace F r = T
        obtain ⟨tl, te⟩ := T
        unfold truncTrace
        simp only [List.length_append]
        by_cases hlen : fuel ≤ p.all.length
        · have e1 : min fuel p.all.length = fuel := by omega
          have c1 : 0 ≤ tl.length := by omega
          have c2 : fuel ≤ p.all.length + tl.length := by omega
          simp only [e1, c1, c2, if_true, Nat.sub_self, List.take_zero, List.append_nil]
          rw [List.take_append_of_le_length hlen]
        · have e1 : min fuel p.all.length = p.all.length := by omega
          have hta : List.take fuel p.all = p.all := List.take_of_length_le (by omega)
          simp only [e1, hta]
          by_cases c : fuel - p.all.length ≤ tl.length
          · have c2 : fuel ≤ p.all.length + tl.length := by omega
            simp only [c, c2, if_true]
            rw [List.take_append, hta]
          · have c2 : ¬ fuel ≤ p.all.length + tl.length := by omega
            simp only [c, c2, if_false]

/-- the items one spec contributes to an unbounded run -/
def allOf (F : Foreign) (s : List Char) : List Addr :=
  match parsePlan F s with
  | .ok p => p.all
  | .error _ => []

theorem trace_all_ok (F : Foreign) (specs : List (List Char)) (h : ∀ s ∈ specs, ∃ p, parsePlan F s = .ok p) :
    fullTrace F specs = (specs.flatMap (allOf F), none) := by
  induction specs with
  | nil => rfl
  | cons s r ih =>
    obtain ⟨p, hp⟩ := h s (List.mem_cons_self ..)
    have ih' := ih (fun x hx => h x (List.mem_cons_of_mem _ hx))
    simp only [fullTrace, hp, ih', List.flatMap_cons, allOf]

theorem trace_first_fail (F : Foreign) (pre post : List (List Char)) (s : List Char) (e : Err)
    (hpre : ∀ x ∈ pre, ∃ p, parsePlan F x = .ok p) (hs : parsePlan F s = .error e) :
    fullTrace F (pre ++ s :: post) = (pre.flatMap (allOf F), some e) := by
  induction pre with
  | nil => simp [fullTrace, hs]
  | cons x r ih =>
    obtain ⟨p, hp⟩ := hpre x (List.mem_cons_self ..)
    have ih' := ih (fun y hy => hpre y (List.mem_cons_of_mem _ hy))
    simp only [List.cons_append, fullTrace, hp, ih', List.flatMap_cons, allOf]

end NV.C17L.Plan
