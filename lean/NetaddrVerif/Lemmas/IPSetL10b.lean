/-
Lemmas/IPSetL10b.lean — add(x) for every argument form; remove(x): add, locate the containing
block, replace it by cidr_exclude — via the C09 theorem (C06).
-/
import NetaddrVerif.Lemmas.IPSetL10
import NetaddrVerif.Props.C09
namespace NV.IPSet
open NV NV.Blk NV.C05L

theorem add_spec (s : St) (hs : Inv s) (x : Arg) (hx : ArgOK x) :
    Inv (add s x) ∧ ∀ u a, denS (add s x) u a ↔ denS s u a ∨ argDen x u a := by
  cases x with
  | net n =>
    obtain ⟨hg, hb, hv, hp⟩ := netCidr_good n hx
    have hfl : (netCidr n).first = n.first ∧ (netCidr n).last = n.last := by
      have h1 : (netCidr n).first = n.first := by
        have := congrArg Blk.base hb; simpa [blk] using this
      exact ⟨h1, by rw [last_eq _ hg.1, last_eq n hx, h1, hv, hp]⟩
    have := compactSingle_spec s hs (netCidr n) hg
    refine ⟨this.1, fun u a => ?_⟩
    show denS (compactSingle (dInsert s (netCidr n)) (netCidr n)) u a ↔ _
    rw [this.2 u a, hfl.1, hfl.2, hv]
    unfold argDen
    constructor
    · rintro (h | ⟨h1, h2⟩)
      · exact Or.inl h
      · exact Or.inr ⟨h1.symm, h2⟩
    · rintro (h | ⟨h1, h2⟩)
      · exact Or.inl h
      · exact Or.inr ⟨h1.symm, h2⟩
  | rng r => exact addRange_spec s hs.good r hx

theorem denS_nil (u a : Nat) : ¬ denS [] u a := by
  rintro ⟨n, hn, _⟩; simp at hn

/-- a sibling's base lies in the other one's parent -/
theorem sib_base_mem_parent (r1 r2 : Blk) (hr1 : r1.aligned) (hr2 : r2.aligned) (hs : r1.sib r2 ∨ r2.sib r1) :
    r2.parent.mem r1.base := by
  rcases hs with ⟨e1, e2, e3⟩ | ⟨e1, e2, e3⟩
  · have hp2 : r2.parent.mem r2.base := sub_parent r2 hr2 _ (mem_base r2)
    have hp1 : r1.parent.base = r1.base := by
      simp only [parent]
      have := Nat.div_add_mod r1.base (2 ^ (r1.k + 1))
      rw [e2] at this; rw [Nat.mul_comm]; omega
    have hm : r1.parent.mem r2.base := by
      simp only [mem, hp1]
      show r1.base ≤ r2.base ∧ r2.base < r1.base + 2 ^ (r1.k + 1)
      rw [pow_succ2]; have := pow_pos' r1.k; omega
    have hkk : r2.parent.k = r1.parent.k := by simp [parent]; exact e1.symm
    have := eq_of_share r2.parent r1.parent (parent_aligned r2) (parent_aligned r1) hkk r2.base hp2 hm
    rw [this]; exact sub_parent r1 hr1 _ (mem_base r1)
  · have hp2 : r2.parent.base = r2.base := by
      simp only [parent]
      have := Nat.div_add_mod r2.base (2 ^ (r2.k + 1))
      rw [e2] at this; rw [Nat.mul_comm]; omega
    simp only [mem, hp2]
    show r2.base ≤ r1.base ∧ r1.base < r2.base + 2 ^ (r2.k + 1)
    rw [pow_succ2]; have := pow_pos' r2.k; omega

theorem nodup_foldl_dInsert (l : List Net) (hl : ∀ n ∈ l, Good n) : ∀ (s : St), (∀ n ∈ s, Good n) → s.Nodup →
    (l.foldl dInsert s).Nodup := by
  induction l with
  | nil => intro s _ h; exact h
  | cons x xs ih =>
    intro s hs hn
    have hx := hl x (List.mem_cons_self ..)
    exact ih (fun n h => hl n (List.mem_cons_of_mem _ h)) _ (good_dInsert s hs x hx) (nodup_dInsert s hs hn x hx)

/-- `remove(addr)` for a network / address / int argument: add, find the containing block,
    replace it by `cidr_exclude(block, addr)` — canonical again, denoting the old addresses
    minus the argument's block. -/
theorem removeNet_spec (s : St) (hs : Inv s) (addr : Net) (hw : addr.WF) :
    Inv (removeNet s addr) ∧
    ∀ u a, denS (removeNet s addr) u a ↔ denS s u a ∧ ¬ (u = addr.ver ∧ addr.first ≤ a ∧ a ≤ addr.last) := by
  obtain ⟨hi1, hd1⟩ := add_spec s hs (.net addr) hw
  have hs1 : Inv (addNet s addr) := hi1
  have hden1 : ∀ u a, denS (addNet s addr) u a ↔ denS s u a ∨ (addr.ver = u ∧ addr.first ≤ a ∧ a ≤ addr.last) := hd1
  -- some stored block contains the argument
  have hcov : ∀ a, (blk addr).mem a → den (fam addr.ver (addNet s addr)) a := by
    intro a ha
    rw [den_fam _ hs1.good, hden1]
    exact Or.inr ⟨rfl, (blk_mem addr hw a).1 ha⟩
  obtain ⟨cb, hcb, hsubc⟩ := covered_imp_single _ (hs1.cs addr.ver) (blk addr) (blk_aligned addr hw) hcov
  obtain ⟨c0, hc0, hv0, rfl⟩ := mem_fam.1 hcb
  have hin0 : netIn addr c0 = true := by
    unfold netIn
    have := (sub_iff addr c0 hw (hs1.good c0 hc0).1).1 hsubc
    simp [hv0, this.1, this.2]
  cases hf : (addNet s addr).find? (fun c => netIn addr c) with
  | none =>
    have := List.find?_eq_none.1 hf c0 hc0
    rw [hin0] at this; exact absurd rfl this
  | some c =>
    have hres : removeNet s addr =
        ((cidrExclude (width c.ver) (toPfx c) (toPfx addr)).map (ofPfx c.ver)).foldl dInsert
          (dDel (addNet s addr) c) := by
      unfold removeNet; simp only [hf]
    rw [hres]
    have hc : c ∈ addNet s addr := List.mem_of_find?_eq_some hf
    have hin : netIn addr c = true := List.find?_some hf
    have hcg := hs1.good c hc
    obtain ⟨hcv, hcf, hcl⟩ : addr.ver = c.ver ∧ c.first ≤ addr.first ∧ addr.last ≤ c.last := by
      unfold netIn at hin
      simp only [Bool.and_eq_true, beq_iff_eq, decide_eq_true_eq] at hin
      exact ⟨hin.1.1, hin.1.2, hin.2⟩
    -- cidr_exclude on the containing block
    have ht : NV.C09L.PWF (width c.ver) (toPfx c) := ⟨hcg.1.2.1, hcg.1.2.2⟩
    have he : NV.C09L.PWF (width c.ver) (toPfx addr) := ⟨by rw [← hcv]; exact hw.2.1, by rw [← hcv]; exact hw.2.2⟩
    obtain ⟨xd, xc, xw⟩ := C09.exclude_spec (width c.ver) (toPfx c) (toPfx addr) ht he
    generalize hrem0 : cidrExclude (width c.ver) (toPfx c) (toPfx addr) = rem0 at xd xc xw
    -- membership facts in terms of Net-level first/last
    have tmem : ∀ a, (toPfx c).mem (width c.ver) a ↔ c.first ≤ a ∧ a ≤ c.last := fun a => Iff.rfl
    have emem : ∀ a, (toPfx addr).mem (width c.ver) a ↔ addr.first ≤ a ∧ a ≤ addr.last := by
      intro a; unfold Pfx.mem Pfx.first Pfx.last Net.first Net.last toPfx; rw [hcv]
    -- the replacement keys
    have hrg : ∀ n ∈ rem0.map (ofPfx c.ver), Good n ∧ n.ver = c.ver := by
      intro n hn
      obtain ⟨b, hb, rfl⟩ := List.mem_map.1 hn
      obtain ⟨hp, _, hal⟩ := xw b hb
      exact ⟨good_of_aligned _ ⟨hcg.1.1, hp.val_lt, hp.plen_le⟩ hal, rfl⟩
    have hrblk : ∀ b ∈ rem0, blk (ofPfx c.ver b) = NV.C09L.blk (width c.ver) b := by
      intro b hb
      rw [blk_good _ (hrg _ (List.mem_map.2 ⟨b, hb, rfl⟩)).1]; rfl
    have g0 := good_dDel (addNet s addr) hs1.good c
    obtain ⟨g1, g2⟩ := denS_foldl_dInsert (rem0.map (ofPfx c.ver)) (fun n hn => (hrg n hn).1) _ g0
    have hmemR : ∀ n, n ∈ (rem0.map (ofPfx c.ver)).foldl dInsert (dDel (addNet s addr) c) ↔
        (n ∈ addNet s addr ∧ n ≠ c) ∨ n ∈ rem0.map (ofPfx c.ver) := by
      intro n; rw [g2 n, mem_dDel _ hs1.good c hcg]
    have hnd := nodup_foldl_dInsert (rem0.map (ofPfx c.ver)) (fun n hn => (hrg n hn).1) _ g0
      (nodup_dDel _ hs1.nodup c)
    -- a replacement block lies strictly inside c
    have hrsub : ∀ b ∈ rem0, (NV.C09L.blk (width c.ver) b).sub (blk c) ∧ (NV.C09L.blk (width c.ver) b).k < (blk c).k := by
      intro b hb
      have hbm : NV.C09L.blk (width c.ver) b ∈ NV.C09L.blks (width c.ver) rem0 := List.mem_map.2 ⟨b, hb, rfl⟩
      have hsub : (NV.C09L.blk (width c.ver) b).sub (blk c) := by
        intro a ha
        have := (xd a).1 ⟨_, hbm, ha⟩
        exact (blk_mem c hcg.1 a).2 ((tmem a).1 this.1)
      refine ⟨hsub, ?_⟩
      rcases Nat.lt_or_ge (NV.C09L.blk (width c.ver) b).k (blk c).k with h | h
      · exact h
      · exfalso
        have hle := sub_k_le _ _ hsub
        have hal : (NV.C09L.blk (width c.ver) b).aligned := xc.al _ hbm
        have e := eq_of_share _ _ hal (blk_aligned c hcg.1) (by omega) _ (mem_base _) (hsub _ (mem_base _))
        -- then addr.first would be in the replacement block, but it is excluded
        have h1 : (blk c).mem addr.first := (blk_mem c hcg.1 _).2 ⟨hcf, by have := first_le_last addr hw; omega⟩
        rw [← e] at h1
        have := (xd addr.first).1 ⟨_, hbm, h1⟩
        exact this.2 ((emem _).2 ⟨Nat.le_refl _, first_le_last addr hw⟩)
    refine ⟨⟨g1, hnd, ?_⟩, ?_⟩
    · intro ver
      by_cases hver : ver = c.ver
      · subst hver
        refine ⟨?_, ?_, ?_⟩
        · intro x hx
          obtain ⟨n, hn, _, rfl⟩ := mem_fam.1 hx
          exact blk_aligned n (g1 n hn).1
        · intro x hx y hy hne
          obtain ⟨n, hn, hvn, rfl⟩ := mem_fam.1 hx
          obtain ⟨m, hm, hvm, rfl⟩ := mem_fam.1 hy
          rcases (hmemR n).1 hn with ⟨n1, n2⟩ | n1 <;> rcases (hmemR m).1 hm with ⟨m1, m2⟩ | m1
          · exact (hs1.cs c.ver).dj _ (mem_fam.2 ⟨n, n1, hvn, rfl⟩) _ (mem_fam.2 ⟨m, m1, hvm, rfl⟩) hne
          · obtain ⟨b, hb, rfl⟩ := List.mem_map.1 m1
            rw [hrblk b hb]
            intro a ⟨h1, h2⟩
            exact (hs1.cs c.ver).dj _ (mem_fam.2 ⟨n, n1, hvn, rfl⟩) _ (mem_fam.2 ⟨c, hc, rfl, rfl⟩)
              (blk_ne n c (hs1.good n n1) hcg hvn n2) a ⟨h1, (hrsub b hb).1 a h2⟩
          · obtain ⟨b, hb, rfl⟩ := List.mem_map.1 n1
            rw [hrblk b hb]
            intro a ⟨h1, h2⟩
            exact (hs1.cs c.ver).dj _ (mem_fam.2 ⟨m, m1, hvm, rfl⟩) _ (mem_fam.2 ⟨c, hc, rfl, rfl⟩)
              (blk_ne m c (hs1.good m m1) hcg hvm m2) a ⟨h2, (hrsub b hb).1 a h1⟩
          · obtain ⟨b, hb, rfl⟩ := List.mem_map.1 n1
            obtain ⟨b', hb', rfl⟩ := List.mem_map.1 m1
            rw [hrblk b hb, hrblk b' hb'] at hne ⊢
            exact xc.dj _ (List.mem_map.2 ⟨b, hb, rfl⟩) _ (List.mem_map.2 ⟨b', hb', rfl⟩) hne
        · intro x hx y hy hsib
          obtain ⟨n, hn, hvn, rfl⟩ := mem_fam.1 hx
          obtain ⟨m, hm, hvm, rfl⟩ := mem_fam.1 hy
          -- an old block o and a replacement block r cannot be siblings
          have mixed : ∀ (o : Net) (b : Pfx), o ∈ addNet s addr → o ≠ c → o.ver = c.ver → b ∈ rem0 →
              ((blk o).sib (NV.C09L.blk (width c.ver) b) ∨ (NV.C09L.blk (width c.ver) b).sib (blk o)) → False := by
            intro o b ho hoc hov hb hsb
            have hral : (NV.C09L.blk (width c.ver) b).aligned := xc.al _ (List.mem_map.2 ⟨b, hb, rfl⟩)
            have hoal := blk_aligned o (hs1.good o ho).1
            have hpm := sib_base_mem_parent (blk o) (NV.C09L.blk (width c.ver) b) hoal hral hsb
            obtain ⟨rs, rk⟩ := hrsub b hb
            have hps : (NV.C09L.blk (width c.ver) b).parent.sub (blk c) :=
              sub_of_share _ _ (parent_aligned _) (blk_aligned c hcg.1) (by simp [parent]; omega) _
                (sub_parent _ hral _ (mem_base _)) (rs _ (mem_base _))
            exact (hs1.cs c.ver).dj _ (mem_fam.2 ⟨o, ho, hov, rfl⟩) _ (mem_fam.2 ⟨c, hc, rfl, rfl⟩)
              (blk_ne o c (hs1.good o ho) hcg hov hoc) (blk o).base ⟨mem_base _, hps _ hpm⟩
          rcases (hmemR n).1 hn with ⟨n1, n2⟩ | n1 <;> rcases (hmemR m).1 hm with ⟨m1, m2⟩ | m1
          · exact (hs1.cs c.ver).ns _ (mem_fam.2 ⟨n, n1, hvn, rfl⟩) _ (mem_fam.2 ⟨m, m1, hvm, rfl⟩) hsib
          · obtain ⟨b, hb, rfl⟩ := List.mem_map.1 m1
            rw [hrblk b hb] at hsib
            exact mixed n b n1 n2 hvn hb (Or.inl hsib)
          · obtain ⟨b, hb, rfl⟩ := List.mem_map.1 n1
            rw [hrblk b hb] at hsib
            exact mixed m b m1 m2 hvm hb (Or.inr hsib)
          · obtain ⟨b, hb, rfl⟩ := List.mem_map.1 n1
            obtain ⟨b', hb', rfl⟩ := List.mem_map.1 m1
            rw [hrblk b hb, hrblk b' hb'] at hsib
            exact xc.ns _ (List.mem_map.2 ⟨b, hb, rfl⟩) _ (List.mem_map.2 ⟨b', hb', rfl⟩) hsib
      · -- the other family is untouched
        apply canonset_subset (hs1.cs ver)
        intro x hx
        obtain ⟨n, hn, hvn, rfl⟩ := mem_fam.1 hx
        rcases (hmemR n).1 hn with ⟨n1, _⟩ | n1
        · exact mem_fam.2 ⟨n, n1, hvn, rfl⟩
        · exact absurd ((hrg n n1).2 ▸ hvn).symm hver
    · intro u a
      -- den: (den s1 \ c) ∪ (c \ addr) = den s1 \ addr = den s \ addr
      have hremden : (∃ n ∈ rem0.map (ofPfx c.ver), n.ver = u ∧ n.first ≤ a ∧ a ≤ n.last) ↔
          (c.ver = u ∧ (c.first ≤ a ∧ a ≤ c.last) ∧ ¬ (addr.first ≤ a ∧ a ≤ addr.last)) := by
        constructor
        · rintro ⟨n, hn, hvn, hx⟩
          obtain ⟨b, hb, rfl⟩ := List.mem_map.1 hn
          have hm : (NV.C09L.blk (width c.ver) b).mem a := by
            rw [← hrblk b hb]; exact (blk_mem _ (hrg _ hn).1.1 a).2 hx
          have := (xd a).1 ⟨_, List.mem_map.2 ⟨b, hb, rfl⟩, hm⟩
          exact ⟨hvn, (tmem a).1 this.1, fun h => this.2 ((emem a).2 h)⟩
        · rintro ⟨hv, h1, h2⟩
          obtain ⟨x, hx, hxa⟩ := (xd a).2 ⟨(tmem a).2 h1, fun h => h2 ((emem a).1 h)⟩
          obtain ⟨b, hb, rfl⟩ := List.mem_map.1 hx
          refine ⟨ofPfx c.ver b, List.mem_map.2 ⟨b, hb, rfl⟩, hv, ?_⟩
          have hg := (hrg _ (List.mem_map.2 ⟨b, hb, rfl⟩)).1
          rw [← blk_mem _ hg.1, hrblk b hb]; exact hxa
      unfold denS
      constructor
      · rintro ⟨n, hn, hvn, hx⟩
        rcases (hmemR n).1 hn with ⟨n1, n2⟩ | n1
        · -- an old block other than c: disjoint from c, hence from addr
          have hds : denS (addNet s addr) u a := ⟨n, n1, hvn, hx⟩
          have hnot : ¬ (u = addr.ver ∧ addr.first ≤ a ∧ a ≤ addr.last) := by
            rintro ⟨hu, h1, h2⟩
            have hvc : n.ver = c.ver := by rw [hvn, hu, hcv]
            exact (hs1.cs c.ver).dj _ (mem_fam.2 ⟨n, n1, hvc, rfl⟩) _ (mem_fam.2 ⟨c, hc, rfl, rfl⟩)
              (blk_ne n c (hs1.good n n1) hcg hvc n2) a
              ⟨(blk_mem n (hs1.good n n1).1 a).2 hx, (blk_mem c hcg.1 a).2 ⟨by omega, by omega⟩⟩
          rcases (hden1 u a).1 hds with h | h
          · exact ⟨h, hnot⟩
          · exact absurd ⟨h.1.symm, h.2⟩ hnot
        · obtain ⟨hv, h1, h2⟩ := hremden.1 ⟨n, n1, hvn, hx⟩
          have hds : denS (addNet s addr) u a := ⟨c, hc, hv, h1⟩
          have hnot : ¬ (u = addr.ver ∧ addr.first ≤ a ∧ a ≤ addr.last) := fun h => h2 h.2
          rcases (hden1 u a).1 hds with h | h
          · exact ⟨h, hnot⟩
          · exact absurd ⟨h.1.symm, h.2⟩ hnot
      · rintro ⟨hds, hnot⟩
        obtain ⟨n, hn, hvn, hx⟩ := (hden1 u a).2 (Or.inl hds)
        by_cases e : n = c
        · subst e
          have hnot' : ¬ (addr.first ≤ a ∧ a ≤ addr.last) := fun h => hnot ⟨by rw [← hvn, hcv], h⟩
          obtain ⟨m, hm, hm2⟩ := hremden.2 ⟨hvn, hx, hnot'⟩
          exact ⟨m, (hmemR m).2 (Or.inr hm), hm2⟩
        · exact ⟨n, (hmemR n).2 (Or.inl ⟨hn, e⟩), hvn, hx⟩

theorem foldl_removeNet_spec (l : List Net) (hl : ∀ n ∈ l, n.WF) : ∀ (s : St), Inv s →
    Inv (l.foldl removeNet s) ∧
    ∀ u a, denS (l.foldl removeNet s) u a ↔ denS s u a ∧ ¬ ∃ n ∈ l, u = n.ver ∧ n.first ≤ a ∧ a ≤ n.last := by
  induction l with
  | nil => intro s hs; exact ⟨hs, fun u a => by simp⟩
  | cons x xs ih =>
    intro s hs
    obtain ⟨h1, h2⟩ := removeNet_spec s hs x (hl x (List.mem_cons_self ..))
    obtain ⟨h3, h4⟩ := ih (fun n h => hl n (List.mem_cons_of_mem _ h)) _ h1
    refine ⟨h3, fun u a => ?_⟩
    simp only [List.foldl_cons]
    rw [h4 u a, h2 u a]
    constructor
    · rintro ⟨⟨k1, k2⟩, k3⟩
      refine ⟨k1, ?_⟩
      rintro ⟨n, hn, hx⟩
      rcases List.mem_cons.1 hn with e | e
      · subst e; exact k2 hx
      · exact k3 ⟨n, e, hx⟩
    · rintro ⟨k1, k2⟩
      exact ⟨⟨k1, fun hx => k2 ⟨x, List.mem_cons_self .., hx⟩⟩,
        fun ⟨n, hn, hx⟩ => k2 ⟨n, List.mem_cons_of_mem _ hn, hx⟩⟩

/-- `remove(x)` for every argument form -/
theorem remove_spec (s : St) (hs : Inv s) (x : Arg) (hx : ArgOK x) :
    Inv (remove s x) ∧ ∀ u a, denS (remove s x) u a ↔ denS s u a ∧ ¬ argDen x u a := by
  cases x with
  | net n =>
    obtain ⟨h1, h2⟩ := removeNet_spec s hs n hx
    refine ⟨h1, fun u a => ?_⟩
    show denS (removeNet s n) u a ↔ _
    rw [h2 u a]
    unfold argDen
    constructor
    · rintro ⟨k1, k2⟩; exact ⟨k1, fun ⟨e, k3⟩ => k2 ⟨e.symm, k3⟩⟩
    · rintro ⟨k1, k2⟩; exact ⟨k1, fun ⟨e, k3⟩ => k2 ⟨e.symm, k3⟩⟩
  | rng r =>
    obtain ⟨hv, hle, hhi⟩ := hx
    obtain ⟨g, c, d⟩ := rangeCidrs_spec r.ver r.lo r.hi hv hle hhi
    obtain ⟨h1, h2⟩ := foldl_removeNet_spec (rangeCidrs r.ver r.lo r.hi) (fun n hn => (g n hn).1.1) s hs
    refine ⟨h1, fun u a => ?_⟩
    show denS ((rangeCidrs r.ver r.lo r.hi).foldl removeNet s) u a ↔ _
    rw [h2 u a]
    have hrd : (∃ n ∈ rangeCidrs r.ver r.lo r.hi, u = n.ver ∧ n.first ≤ a ∧ a ≤ n.last) ↔
        (r.ver = u ∧ r.lo ≤ a ∧ a ≤ r.hi) := by
      rw [← d u a]
      unfold den
      constructor
      · rintro ⟨n, hn, hvn, hx⟩
        refine ⟨blk n, (mem_famBlks _ _ _).2 ⟨n, hn, hvn.symm, by rw [hvn]; exact blk_good n (g n hn).1⟩, ?_⟩
        exact (blk_mem n (g n hn).1.1 a).2 hx
      · rintro ⟨b, hb, hx⟩
        obtain ⟨n, hn, hvn, rfl⟩ := (mem_famBlks _ _ _).1 hb
        refine ⟨n, hn, hvn.symm, ?_⟩
        have : (⟨n.val, width u - n.plen⟩ : Blk) = blk n := by rw [← hvn]; exact (blk_good n (g n hn).1).symm
        rw [this] at hx
        exact (blk_mem n (g n hn).1.1 a).1 hx
    show _ ↔ denS s u a ∧ ¬ (r.ver = u ∧ r.lo ≤ a ∧ a ≤ r.hi)
    rw [hrd]

end NV.IPSet
