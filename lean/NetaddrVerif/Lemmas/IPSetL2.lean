/-
Lemmas/IPSetL2.lean — consequences of the IPSet invariant: extensional equality and
membership (C06 eq_iff, C07 contains_iff).
-/
import NetaddrVerif.Lemmas.IPSetL1
import NetaddrVerif.Lemmas.CanonSetL
namespace NV.IPSet
open NV NV.Blk

theorem sub_k_le (b c : Blk) (h : b.sub c) : b.k ≤ c.k := by
  have h1 := h b.base (mem_base b)
  have hp := pow_pos' b.k
  have h2 := h (b.base + 2 ^ b.k - 1) ⟨by omega, by omega⟩
  rcases Nat.lt_or_ge c.k b.k with hlt | hge
  · have : 2 ^ c.k < 2 ^ b.k := Nat.pow_lt_pow_right (by decide) hlt
    unfold mem at h1 h2; omega
  · exact hge

/-- a duplicate-free list contained in a duplicate-free list of the same length has the same members -/
theorem subset_of_length_eq {α : Type} [DecidableEq α] : ∀ (s t : List α), s.Nodup → t.Nodup → s ⊆ t →
    s.length = t.length → t ⊆ s
  | [], t, _, _, _, hl => by
    have : t = [] := List.eq_nil_of_length_eq_zero (by simpa using hl.symm)
    subst this; exact fun _ h => h
  | a :: s', t, hs, ht, hsub, hl => by
    rw [List.nodup_cons] at hs
    have ha : a ∈ t := hsub (List.mem_cons_self ..)
    have hsub' : s' ⊆ t.erase a := by
      intro x hx
      have hxa : x ≠ a := fun h => hs.1 (h ▸ hx)
      exact (List.mem_erase_of_ne hxa).2 (hsub (List.mem_cons_of_mem _ hx))
    have hlen : (t.erase a).length = s'.length := by
      rw [List.length_erase_of_mem ha]; simp at hl; omega
    have ih := subset_of_length_eq s' (t.erase a) hs.2 (ht.erase a) hsub' hlen.symm
    intro x hx
    by_cases hxa : x = a
    · subst hxa; exact List.mem_cons_self ..
    · exact List.mem_cons_of_mem _ (ih ((List.mem_erase_of_ne hxa).2 hx))

/-- `dMem` on a state of good keys, for an arbitrary in-range key: some stored key has the
    same version and block -/
theorem dMem_iff (s : St) (hg : ∀ n ∈ s, Good n) (k : Net) (hk : k.WF) :
    dMem s k = true ↔ ∃ c ∈ s, c.ver = k.ver ∧ blk c = blk k := by
  unfold dMem
  simp only [List.any_eq_true]
  constructor
  · rintro ⟨c, hc, he⟩
    exact ⟨c, hc, (keyEq_iff c k (hg c hc).1 hk).1 he⟩
  · rintro ⟨c, hc, h⟩
    exact ⟨c, hc, (keyEq_iff c k (hg c hc).1 hk).2 h⟩

/-- two states satisfying the invariant have the same keys iff they denote the same addresses -/
theorem mem_iff_of_den (s t : St) (hs : Inv s) (ht : Inv t)
    (hd : ∀ ver a, denS s ver a ↔ denS t ver a) (n : Net) : n ∈ s ↔ n ∈ t := by
  have key : ∀ (s t : St), Inv s → Inv t → (∀ ver a, denS s ver a ↔ denS t ver a) → ∀ n, n ∈ s → n ∈ t := by
    intro s t hs ht hd n hn
    have hb : blk n ∈ fam n.ver s := mem_fam.2 ⟨n, hn, rfl, rfl⟩
    have hb' : blk n ∈ fam n.ver t := by
      apply (canonset_ext _ _ (hs.cs n.ver) (ht.cs n.ver) _ (blk n)).1 hb
      intro a
      rw [den_fam s hs.good, den_fam t ht.good]; exact hd n.ver a
    obtain ⟨m, hm, hv, hbm⟩ := mem_fam.1 hb'
    have : keyEq m n = true := (keyEq_iff m n (ht.good m hm).1 (hs.good n hn).1).2 ⟨hv, hbm⟩
    exact ((keyEq_good m n (ht.good m hm) (hs.good n hn)).1 this) ▸ hm
  exact ⟨key s t hs ht hd n, key t s ht hs (fun v a => (hd v a).symm) n⟩

theorem eq_iff_mem (s t : St) (hs : Inv s) (ht : Inv t) : IPSet.eq s t = true ↔ ∀ n, n ∈ s ↔ n ∈ t := by
  unfold IPSet.eq
  simp only [Bool.and_eq_true, beq_iff_eq, List.all_eq_true]
  constructor
  · rintro ⟨hlen, hall⟩
    have hsub : s ⊆ t := fun n hn => (dMem_good t ht.good n (hs.good n hn)).1 (hall n hn)
    have hsup : t ⊆ s := subset_of_length_eq s t hs.nodup ht.nodup hsub hlen
    intro n; exact ⟨fun h => hsub h, fun h => hsup h⟩
  · intro h
    have hperm : s.Perm t := (List.perm_ext_iff_of_nodup hs.nodup ht.nodup).2 h
    exact ⟨hperm.length_eq, fun n hn => (dMem_good t ht.good n (hs.good n hn)).2 ((h n).1 hn)⟩

/-- the stored value lies in the network's own block -/
theorem val_mem_blk (n : Net) (hn : n.WF) : (blk n).mem n.val := by
  rw [blk_mem n hn, last_eq n hn, first_eq n hn]
  have := Nat.div_add_mod' n.val (2 ^ (width n.ver - n.plen))
  have := Nat.mod_lt n.val (pw (width n.ver - n.plen))
  omega

/-- `__contains__` answers True exactly when every address of the queried network is in the
    set: the walk over the ≤ width supernets finds a stored block iff one stored block
    contains the network, and a network covered by a canonical set lies in one block. -/
theorem contains_iff (s : St) (hs : Inv s) (n : Net) (hn : n.WF) :
    contains s n = true ↔ ∀ a, n.first ≤ a → a ≤ n.last → denS s n.ver a := by
  unfold contains
  simp only [List.any_eq_true, List.mem_range]
  constructor
  · rintro ⟨q, hq, hm⟩ a h1 h2
    have hk : (⟨n.ver, n.val, q⟩ : Net).WF := ⟨hn.1, hn.2.1, by have := hn.2.2; show q ≤ width n.ver; omega⟩
    obtain ⟨c, hc, hv, hb⟩ := (dMem_iff s hs.good _ hk).1 hm
    refine ⟨c, hc, hv, ?_⟩
    rw [← blk_mem c (hs.good c hc).1, hb]
    -- the key's block is at least as large as n's and shares n.val with it
    have hsub : (blk n).sub (blk ⟨n.ver, n.val, q⟩) := by
      apply sub_of_share _ _ (blk_aligned n hn) (blk_aligned _ hk) _ n.val (val_mem_blk n hn) (val_mem_blk _ hk)
      show width n.ver - n.plen ≤ width n.ver - q
      omega
    exact hsub a ((blk_mem n hn a).2 ⟨h1, h2⟩)
  · intro h
    have hcov : ∀ a, (blk n).mem a → den (fam n.ver s) a := by
      intro a ha
      rw [den_fam s hs.good]
      have := (blk_mem n hn a).1 ha
      exact h a this.1 this.2
    obtain ⟨c, hc, hsub⟩ := covered_imp_single _ (hs.cs n.ver) (blk n) (blk_aligned n hn) hcov
    obtain ⟨m, hm, hv, hbm⟩ := mem_fam.1 hc
    have hmw := (hs.good m hm).1
    have hkle := sub_k_le _ _ hsub
    rw [← hbm] at hkle
    have hple : m.plen ≤ n.plen := by
      have h1 : width n.ver - n.plen ≤ width m.ver - m.plen := hkle
      have := hn.2.2; have := hmw.2.2; rw [hv] at h1 this; omega
    refine ⟨m.plen, by omega, ?_⟩
    have hk : (⟨n.ver, n.val, m.plen⟩ : Net).WF := ⟨hn.1, hn.2.1, by rw [← hv]; exact hmw.2.2⟩
    apply (dMem_iff s hs.good _ hk).2
    refine ⟨m, hm, hv, ?_⟩
    apply eq_of_share _ _ (blk_aligned m hmw) (blk_aligned _ hk) (by show width m.ver - m.plen = width n.ver - m.plen; rw [hv]) n.val
    · rw [hbm]; exact hsub _ (val_mem_blk n hn)
    · exact val_mem_blk _ hk

end NV.IPSet
