/-
Lemmas/IPSetL4.lean — the sibling-merge loop of `_compact_single_network` keeps the state
canonical and its denotation unchanged (C06).
-/
import NetaddrVerif.Lemmas.IPSetL3
namespace NV.IPSet
open NV NV.Blk

/-- the other keys -/
def others (s : St) (a : Net) : St := s.filter (fun n => decide (n ≠ a))

theorem mem_others {s : St} {a n : Net} : n ∈ others s a ↔ n ∈ s ∧ n ≠ a := by
  unfold others; simp

/-- precondition of the merge loop: `a` is a stored good key, the other keys are canonical
    per family, and `a`'s block is disjoint from all of them -/
structure Pre (s : St) (a : Net) : Prop where
  good : ∀ n ∈ s, Good n
  nodup : s.Nodup
  mem : a ∈ s
  cs : ∀ ver, CanonSet (fam ver (others s a))
  dj : ∀ c ∈ s, c ≠ a → c.ver = a.ver → (blk a).disj (blk c)

theorem fam_nodup (ver : Nat) (t : St) (hg : ∀ n ∈ t, Good n) (hn : t.Nodup) : (fam ver t).Nodup := by
  unfold fam
  have hf : (t.filter (fun n => n.ver == ver)).Nodup := hn.filter _
  rw [List.Nodup, List.pairwise_map]
  refine List.Pairwise.imp_of_mem ?_ hf
  intro x y hx hy hne
  have hx' := List.mem_filter.1 hx
  have hy' := List.mem_filter.1 hy
  have hvx : x.ver = ver := by simpa using hx'.2
  have hvy : y.ver = ver := by simpa using hy'.2
  exact blk_ne x y (hg x hx'.1) (hg y hy'.1) (hvx.trans hvy.symm) hne

/-- when the sibling of `a` is not stored, the state is canonical -/
theorem stop_inv (s : St) (a : Net) (h : Pre s a) (hs : sibling (blk a) ∉ fam a.ver (others s a)) : Inv s := by
  refine ⟨h.good, h.nodup, ?_⟩
  intro ver
  have hgo : ∀ n ∈ others s a, Good n := fun n hn => h.good n (mem_others.1 hn).1
  by_cases hv : ver = a.ver
  · subst hv
    -- members of the family = blk a :: the others
    have hmem : ∀ b, b ∈ fam a.ver s ↔ b ∈ blk a :: fam a.ver (others s a) := by
      intro b
      rw [List.mem_cons, mem_fam, mem_fam]
      constructor
      · rintro ⟨n, hn, hv, rfl⟩
        by_cases e : n = a
        · subst e; exact Or.inl rfl
        · exact Or.inr ⟨n, mem_others.2 ⟨hn, e⟩, hv, rfl⟩
      · rintro (rfl | ⟨n, hn, hv, rfl⟩)
        · exact ⟨a, h.mem, rfl, rfl⟩
        · exact ⟨n, (mem_others.1 hn).1, hv, rfl⟩
    apply canonset_congr _ hmem
    have hl := fam_nodup a.ver (others s a) hgo (h.nodup.filter _)
    have hd : ∀ c ∈ fam a.ver (others s a), (blk a).disj c := by
      intro c hc
      obtain ⟨n, hn, hv, rfl⟩ := mem_fam.1 hc
      exact h.dj n (mem_others.1 hn).1 (mem_others.1 hn).2 hv
    have := (mergeUp_spec ((fam a.ver (others s a)).length + 1) _ (blk a) (by omega) hl (h.cs a.ver)
      (blk_aligned a (h.good a h.mem).1) hd).1
    simpa [mergeUp, hs] using this
  · apply canonset_congr (h.cs ver)
    intro b
    rw [mem_fam, mem_fam]
    constructor
    · rintro ⟨n, hn, hvn, rfl⟩
      have : n ≠ a := by intro e; subst e; exact hv hvn.symm
      exact ⟨n, mem_others.2 ⟨hn, this⟩, hvn, rfl⟩
    · rintro ⟨n, hn, hvn, rfl⟩
      exact ⟨n, (mem_others.1 hn).1, hvn, rfl⟩


/-- the state after one merge of the loop -/
def stepState (s : St) (a : Net) : St := dInsert (dDel (dDel s (candOf a)) a) (mergedOf a)

theorem mem_stepState (s : St) (a : Net) (h : Pre s a) (hp : 1 ≤ a.plen) (n : Net) :
    n ∈ stepState s a ↔ (n ∈ s ∧ n ≠ candOf a ∧ n ≠ a) ∨ n = mergedOf a := by
  have ha := h.good a h.mem
  have hcg := (cand_spec a ha hp).1
  have hmg := (merged_spec a ha hp).1
  unfold stepState
  have g1 := good_dDel s h.good (candOf a)
  have g2 := good_dDel _ g1 a
  rw [mem_dInsert _ g2 _ hmg, mem_dDel _ g1 a ha, mem_dDel s h.good _ hcg]
  constructor
  · rintro (⟨⟨h1, h2⟩, h3⟩ | h4)
    · exact Or.inl ⟨h1, h2, h3⟩
    · exact Or.inr h4
  · rintro (⟨h1, h2, h3⟩ | h4)
    · exact Or.inl ⟨⟨h1, h2⟩, h3⟩
    · exact Or.inr h4

/-- one merge keeps the loop's precondition and the denoted addresses -/
theorem step_pre (s : St) (a : Net) (h : Pre s a) (hp : 1 ≤ a.plen) (hc : candOf a ∈ s) :
    Pre (stepState s a) (mergedOf a) ∧ ∀ ver x, denS (stepState s a) ver x ↔ denS s ver x := by
  have ha := h.good a h.mem
  obtain ⟨hcg, hcv, hcb⟩ := cand_spec a ha hp
  obtain ⟨hmg, hmb, hmv, hmp⟩ := merged_spec a ha hp
  obtain ⟨hsa, hsk, hsib, hpar, hbs⟩ := sibling_spec (blk a) (blk_aligned a ha.1)
  have hca : candOf a ≠ a := by
    intro e
    have : blk (candOf a) = blk a := by rw [e]
    rw [hcb] at this
    have hm : (sibling (blk a)).mem (blk a).base := by rw [this]; exact mem_base _
    exact hbs (blk a).base ⟨mem_base _, hm⟩
  have hmem := mem_stepState s a h hp
  have g1 := good_dDel s h.good (candOf a)
  have g2 := good_dDel _ g1 a
  have hgood : ∀ n ∈ stepState s a, Good n := good_dInsert _ g2 _ hmg
  have hnd : (stepState s a).Nodup :=
    nodup_dInsert _ g2 (nodup_dDel _ (nodup_dDel _ h.nodup _) _) _ hmg
  -- the others of the new state are among the others of the old one
  have hsub : ∀ n, n ∈ others (stepState s a) (mergedOf a) → n ∈ others s a ∧ n ≠ candOf a := by
    intro n hn
    obtain ⟨h1, h2⟩ := mem_others.1 hn
    rcases (hmem n).1 h1 with ⟨h3, h4, h5⟩ | h3
    · exact ⟨mem_others.2 ⟨h3, h5⟩, h4⟩
    · exact absurd h3 h2
  have hcand_o : candOf a ∈ others s a := mem_others.2 ⟨hc, hca⟩
  refine ⟨⟨hgood, hnd, (hmem _).2 (Or.inr rfl), ?_, ?_⟩, ?_⟩
  · intro ver
    apply canonset_subset (h.cs ver)
    intro b hb
    obtain ⟨n, hn, hv, rfl⟩ := mem_fam.1 hb
    exact mem_fam.2 ⟨n, (hsub n hn).1, hv, rfl⟩
  · intro c hc1 hc2 hc3
    rcases (hmem c).1 hc1 with ⟨h3, h4, h5⟩ | h3
    · rw [hmb]
      rw [hmv] at hc3
      intro x ⟨hx1, hx2⟩
      rcases (hpar x).1 hx1 with hx | hx
      · exact h.dj c h3 h5 hc3 x ⟨hx, hx2⟩
      · -- x in the sibling = blk (candOf a), and in blk c: both are others of the old state
        have hb1 : blk (candOf a) ∈ fam a.ver (others s a) := mem_fam.2 ⟨_, hcand_o, hcv, rfl⟩
        have hb2 : blk c ∈ fam a.ver (others s a) := mem_fam.2 ⟨c, mem_others.2 ⟨h3, h5⟩, hc3, rfl⟩
        have hne : blk (candOf a) ≠ blk c :=
          blk_ne _ _ hcg (h.good c h3) (hcv.trans hc3.symm) (fun e => h4 e.symm)
        exact (h.cs a.ver).dj _ hb1 _ hb2 hne x ⟨hcb ▸ hx, hx2⟩
    · exact absurd h3 hc2
  · intro ver x
    unfold denS
    constructor
    · rintro ⟨n, hn, hv, hx⟩
      rcases (hmem n).1 hn with ⟨h3, _, _⟩ | h3
      · exact ⟨n, h3, hv, hx⟩
      · subst h3
        have hxm : (blk (mergedOf a)).mem x := (blk_mem _ hmg.1 x).2 hx
        rw [hmb] at hxm
        rcases (hpar x).1 hxm with hx' | hx'
        · exact ⟨a, h.mem, hmv ▸ hv, (blk_mem a ha.1 x).1 hx'⟩
        · rw [← hcb] at hx'
          exact ⟨candOf a, hc, by rw [hcv]; exact hmv ▸ hv, (blk_mem _ hcg.1 x).1 hx'⟩
    · rintro ⟨n, hn, hv, hx⟩
      by_cases e1 : n = a
      · subst e1
        refine ⟨mergedOf n, (hmem _).2 (Or.inr rfl), hmv.trans hv, ?_⟩
        rw [← blk_mem _ hmg.1, hmb]
        exact (hpar x).2 (Or.inl ((blk_mem n ha.1 x).2 hx))
      · by_cases e2 : n = candOf a
        · subst e2
          refine ⟨mergedOf a, (hmem _).2 (Or.inr rfl), by rw [hmv, ← hcv]; exact hv, ?_⟩
          rw [← blk_mem _ hmg.1, hmb]
          exact (hpar x).2 (Or.inr (hcb ▸ (blk_mem _ hcg.1 x).2 hx))
        · exact ⟨n, (hmem n).2 (Or.inl ⟨hn, e2, e1⟩), hv, hx⟩

theorem mergeLoop_succ (f : Nat) (s : St) (a : Net) :
    mergeLoop (f + 1) s a (width a.ver - a.plen) =
      if a.plen = 0 then s else if !dMem s (candOf a) then s
      else mergeLoop f (stepState s a) (mergedOf a) (width a.ver - a.plen + 1) := rfl

/-- sibling of a whole-space block is outside the space: never stored -/
theorem sibling_not_mem_of_plen0 (s : St) (a : Net) (h : Pre s a) (hp : a.plen = 0) :
    sibling (blk a) ∉ fam a.ver (others s a) := by
  intro hm
  obtain ⟨n, hn, hv, hb⟩ := mem_fam.1 hm
  have ha := h.good a h.mem
  have hng := h.good n (mem_others.1 hn).1
  -- blk a = ⟨0, w⟩
  have hal := good_aligned a ha
  rw [hp, Nat.sub_zero] at hal
  have hv0 : a.val = 0 := by
    have := ha.1.2.1
    have := Nat.div_add_mod a.val (2 ^ width a.ver)
    rw [hal, Nat.div_eq_of_lt ha.1.2.1] at this; omega
  have hblk : blk a = ⟨0, width a.ver⟩ := by rw [blk_good a ha, hv0, hp, Nat.sub_zero]
  rw [hblk] at hb
  have : sibling ⟨0, width a.ver⟩ = ⟨2 ^ width a.ver, width a.ver⟩ := by simp [sibling]
  rw [this] at hb
  have h1 : n.first = 2 ^ width a.ver := by
    have := congrArg Blk.base hb; simpa [blk] using this
  have h2 := first_le_last n hng.1
  have h3 := last_lt n hng.1
  rw [hv] at h3; omega

/-- The sibling-merge loop of `_compact_single_network`: started on a state whose other keys
    are canonical and disjoint from the added block, it ends in a canonical state denoting
    the same addresses. -/
theorem mergeLoop_spec : ∀ (fuel : Nat) (s : St) (a : Net), a.plen = fuel → Pre s a →
    Inv (mergeLoop fuel s a (width a.ver - a.plen)) ∧
    ∀ ver x, denS (mergeLoop fuel s a (width a.ver - a.plen)) ver x ↔ denS s ver x := by
  intro fuel
  induction fuel with
  | zero =>
    intro s a hp h
    have e : mergeLoop 0 s a (width a.ver - a.plen) = s := rfl
    rw [e]
    exact ⟨stop_inv s a h (sibling_not_mem_of_plen0 s a h hp), fun _ _ => Iff.rfl⟩
  | succ f ih =>
    intro s a hp h
    have hp1 : 1 ≤ a.plen := by omega
    have ha := h.good a h.mem
    obtain ⟨hcg, hcv, hcb⟩ := cand_spec a ha hp1
    rw [mergeLoop_succ]
    have hp0 : ¬ (a.plen = 0) := by omega
    simp only [hp0, if_false]
    by_cases hc : dMem s (candOf a) = true
    · simp only [hc, Bool.not_true, Bool.false_eq_true, if_false]
      have hcs := (dMem_good s h.good _ hcg).1 hc
      obtain ⟨hpre, hden⟩ := step_pre s a h hp1 hcs
      obtain ⟨_, _, hmv, hmp⟩ := merged_spec a ha hp1
      have hsh : width a.ver - a.plen + 1 = width (mergedOf a).ver - (mergedOf a).plen := by
        rw [hmv, hmp]; have := ha.1.2.2; omega
      rw [hsh]
      obtain ⟨r1, r2⟩ := ih (stepState s a) (mergedOf a) (by rw [hmp]; omega) hpre
      exact ⟨r1, fun ver x => (r2 ver x).trans (hden ver x)⟩
    · have hc' : dMem s (candOf a) = false := by simpa using hc
      rw [hc']
      refine ⟨stop_inv s a h ?_, fun _ _ => Iff.rfl⟩
      intro hm
      obtain ⟨n, hn, hv, hb⟩ := mem_fam.1 hm
      have hng := h.good n (mem_others.1 hn).1
      rw [← hcb] at hb
      have : n = candOf a := by
        apply Classical.byContradiction
        intro hne
        exact blk_ne n _ hng hcg (hv.trans hcv.symm) hne hb
      exact hc ((dMem_good s h.good _ hcg).2 (this ▸ (mem_others.1 hn).1))

end NV.IPSet
