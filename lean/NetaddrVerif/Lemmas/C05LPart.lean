import NetaddrVerif.Lemmas.C05LBlk
import NetaddrVerif.Lemmas.NetworkL
/-! C05 helper lemmas, part 2: what `cidr_partition(target, (x, width))` returns for an aligned
    target containing `x` (the two trims of `iprange_to_cidrs`). -/
namespace NV.C05L
open NV Blk

/-- the accumulators of the loop are only ever appended to -/
theorem partLoop_acc (w ef ep : Nat) :
    ∀ (fuel np iLower iUpper : Nat) (left right : List Pfx), fuel = ep + 1 - np →
      partLoop w ef ep np iLower iUpper left right =
        (left ++ (partLoop w ef ep np iLower iUpper [] []).1,
         right ++ (partLoop w ef ep np iLower iUpper [] []).2) := by
  intro fuel
  induction fuel with
  | zero =>
    intro np iLower iUpper left right hf
    have hng : ¬ ep ≥ np := by omega
    rw [partLoop, partLoop]
    simp [hng]
  | succ fuel ih =>
    intro np iLower iUpper left right hf
    have hge : ep ≥ np := by omega
    rw [partLoop, partLoop]
    simp only [hge, dite_true]
    by_cases hcase : ef ≥ iUpper
    · simp only [hcase, ite_true]
      by_cases hbrk : np + 1 > w
      · simp [hbrk]
      · simp only [hbrk, ite_false]
        rw [ih (np + 1) _ _ (left ++ [(⟨iLower, np⟩ : Pfx)]) right (by omega),
            ih (np + 1) _ _ ([] ++ [(⟨iLower, np⟩ : Pfx)]) [] (by omega)]
        simp
    · simp only [hcase, ite_false]
      by_cases hbrk : np + 1 > w
      · simp [hbrk]
      · simp only [hbrk, ite_false]
        rw [ih (np + 1) _ _ left (right ++ [(⟨iUpper, np⟩ : Pfx)]) (by omega),
            ih (np + 1) _ _ [] ([] ++ [(⟨iUpper, np⟩ : Pfx)]) (by omega)]
        simp

/-- every block the loop emits has a prefix length between the starting one and the width -/
theorem partLoop_plen (w ef ep : Nat) :
    ∀ (fuel np iLower iUpper : Nat), fuel = ep + 1 - np → np ≤ w →
      ∀ b, (b ∈ (partLoop w ef ep np iLower iUpper [] []).1 ∨ b ∈ (partLoop w ef ep np iLower iUpper [] []).2) →
        np ≤ b.plen ∧ b.plen ≤ w := by
  intro fuel
  induction fuel with
  | zero =>
    intro np iLower iUpper hf _ b hb
    have hng : ¬ ep ≥ np := by omega
    rw [partLoop] at hb
    simp [hng] at hb
  | succ fuel ih =>
    intro np iLower iUpper hf hnw b hb
    have hge : ep ≥ np := by omega
    rw [partLoop] at hb
    simp only [hge, dite_true] at hb
    by_cases hcase : ef ≥ iUpper
    · simp only [hcase, ite_true] at hb
      by_cases hbrk : np + 1 > w
      · simp [hbrk] at hb; subst hb; simp; omega
      · simp only [hbrk, ite_false] at hb
        rw [partLoop_acc w ef ep fuel (np + 1) _ _ _ _ (by omega)] at hb
        simp only [List.nil_append, List.mem_append, List.mem_cons, List.not_mem_nil, or_false] at hb
        rcases hb with (hb | hb) | hb
        · subst hb; simp; omega
        · have := ih (np + 1) _ _ (by omega) (by omega) b (Or.inl hb); omega
        · have := ih (np + 1) _ _ (by omega) (by omega) b (Or.inr hb); omega
    · simp only [hcase, ite_false] at hb
      by_cases hbrk : np + 1 > w
      · simp [hbrk] at hb; subst hb; simp; omega
      · simp only [hbrk, ite_false] at hb
        rw [partLoop_acc w ef ep fuel (np + 1) _ _ _ _ (by omega)] at hb
        simp only [List.nil_append, List.mem_append, List.mem_cons, List.not_mem_nil, or_false] at hb
        rcases hb with hb | hb | hb
        · have := ih (np + 1) _ _ (by omega) (by omega) b (Or.inl hb); omega
        · subst hb; simp; omega
        · have := ih (np + 1) _ _ (by omega) (by omega) b (Or.inr hb); omega

end NV.C05L

namespace NV.C05L
open NV Blk

theorem first_full (w x : Nat) (hx : x < 2 ^ w) : netFirst w x w = x := by
  rw [netFirst_eq w x w hx]; simp
theorem last_full (w x : Nat) : netLast w x w = x := by
  rw [netLast_eq]; simp
theorem first_aligned (w v p : Nat) (hv : v < 2 ^ w) (hal : v % 2 ^ (w - p) = 0) : netFirst w v p = v := by
  rw [netFirst_eq w v p hv]; exact Nat.div_mul_cancel (Nat.dvd_of_mod_eq_zero hal)
theorem last_aligned (w v p : Nat) (hal : v % 2 ^ (w - p) = 0) : netLast w v p = v + (2 ^ (w - p) - 1) := by
  rw [netLast_eq, Nat.div_mul_cancel (Nat.dvd_of_mod_eq_zero hal)]

/-- `l` is an ascending run of aligned blocks of pairwise distinct sizes below `2^K`, with
    prefix lengths inside the width, covering exactly `[lo, hi1)` -/
structure Run (w K : Nat) (l : List Pfx) (lo hi1 : Nat) : Prop where
  al : ∀ b ∈ l, alignedN w b
  plen : ∀ b ∈ l, b.plen ≤ w ∧ w - b.plen < K
  asc : l.Pairwise (fun b c => b.val + 2 ^ (w - b.plen) ≤ c.val)
  distinct : l.Pairwise (fun b c => b.plen ≠ c.plen)
  den : ∀ a, lden w l a ↔ lo ≤ a ∧ a < hi1

theorem run_nil (w K lo : Nat) : Run w K [] lo lo :=
  ⟨by simp, by simp, List.Pairwise.nil, List.Pairwise.nil, fun a => by simp [lden]⟩

theorem Run.canon {w K : Nat} {l : List Pfx} {lo hi1 : Nat} (h : Run w K l lo hi1) :
    Canon (l.map (toBlk w)) := by
  apply canon_of_asc
  · intro b hb
    obtain ⟨p, hp, rfl⟩ := List.mem_map.1 hb
    exact h.al p hp
  · exact List.pairwise_map.2 h.asc
  · apply nosib_of_distinct
    apply List.pairwise_map.2
    have : l.Pairwise (fun b c => (b.plen ≤ w ∧ c.plen ≤ w) ∧ b.plen ≠ c.plen) := by
      have h1 : l.Pairwise (fun b c => b.plen ≤ w ∧ c.plen ≤ w) :=
        List.pairwise_of_forall_mem_list (fun b hb c hc => ⟨(h.plen b hb).1, (h.plen c hc).1⟩)
      exact h1.and h.distinct
    exact this.imp (fun {b c} hh => by simp only [toBlk]; omega)

theorem loop_run (w x np iL : Nat) (h1 : 1 ≤ np) (hnw : np ≤ w)
    (hal : iL % (2 * 2 ^ (w - np)) = 0) (hlo : iL ≤ x) (hhi : x + 1 ≤ iL + 2 * 2 ^ (w - np)) :
    Run w (w - np + 1) (partLoop w x w np iL (iL + 2 ^ (w - np)) [] []).1 iL x ∧
    Run w (w - np + 1) (partLoop w x w np iL (iL + 2 ^ (w - np)) [] []).2.reverse (x + 1) (iL + 2 * 2 ^ (w - np)) := by
  have hspec := partLoop_spec w x w iL (iL + 2 * 2 ^ (w - np)) (Nat.le_refl w) (by simp [Nat.mod_one])
    (w + 1 - np) np iL [] [] rfl h1 (by omega) hnw hal hlo (by simpa using hhi) (Nat.le_refl _) (Nat.le_refl _)
    (fun a => by simp [lden]) (fun a => by simp [lden])
  have hstruct := partLoop_struct w x w (Nat.le_refl w) (w + 1 - np) np iL [] [] rfl h1 (by omega) hnw hal
    ⟨by simp, List.Pairwise.nil⟩ ⟨by simp, List.Pairwise.nil⟩ (by simp) (by simp)
  have hplen := partLoop_plen w x w (w + 1 - np) np iL (iL + 2 ^ (w - np)) rfl hnw
  generalize partLoop w x w np iL (iL + 2 ^ (w - np)) [] [] = lr at *
  obtain ⟨hL, hR⟩ := hstruct
  constructor
  · refine ⟨hL.1, ?_, ?_, ?_, hspec.1⟩
    · intro b hb; have := hplen b (Or.inl hb); omega
    · exact hL.2.imp (fun {b c} h => h.1)
    · exact hL.2.imp (fun {b c} h => by omega)
  · refine ⟨?_, ?_, ?_, ?_, ?_⟩
    · intro b hb; exact hR.1 b (List.mem_reverse.1 hb)
    · intro b hb; have := hplen b (Or.inr (List.mem_reverse.1 hb)); omega
    · exact List.pairwise_reverse.2 (hR.2.imp (fun {b c} h => h.1))
    · exact List.pairwise_reverse.2 (hR.2.imp (fun {b c} h => by omega))
    · intro a; rw [lden_reverse, hspec.2 a]; simp

/-- `cidr_partition(target, (x, width))` for an aligned target strictly larger than one address
    that contains `x`: the `before` list covers `[target.first, x)`, the `after` list `(x, target.last]` -/
theorem part_spec (w tv tp x : Nat) (htp : tp < w) (hal : tv % 2 ^ (w - tp) = 0)
    (hfit : tv + 2 ^ (w - tp) ≤ 2 ^ w) (h1 : tv ≤ x) (h2 : x < tv + 2 ^ (w - tp)) :
    Run w (w - tp) (cidrPartition w ⟨tv, tp⟩ ⟨x, w⟩).1 tv x ∧
    Run w (w - tp) (cidrPartition w ⟨tv, tp⟩ ⟨x, w⟩).2.2 (x + 1) (tv + 2 ^ (w - tp)) := by
  have hp := pp (w - tp)
  have htv : tv < 2 ^ w := by omega
  have hx : x < 2 ^ w := by omega
  have hhalf := pow_half w tp (by omega)
  have := loop_run w x (tp + 1) tv (by omega) (by omega) (by rw [← hhalf]; exact hal) h1 (by rw [← hhalf]; omega)
  rw [← hhalf] at this
  have e : w - (tp + 1) + 1 = w - tp := by omega
  rw [e] at this
  unfold cidrPartition
  simp only [Pfx.first, Pfx.last, first_full w x hx, last_full, first_aligned w tv tp htv hal, last_aligned w tv tp hal]
  have c1 : ¬ x < tv := by omega
  have c2 : ¬ tv + (2 ^ (w - tp) - 1) < x := by omega
  have c3 : ¬ tp ≥ w := by omega
  simp only [c1, c2, c3, if_false]
  exact this

/-- the `after` list when `x` lies in the lower half: it ends with the upper half, and what
    precedes it covers `(x, mid)` -/
theorem part_split (w tv tp x : Nat) (htp : tp < w) (hal : tv % 2 ^ (w - tp) = 0)
    (hfit : tv + 2 ^ (w - tp) ≤ 2 ^ w) (h1 : tv ≤ x) (h2 : x < tv + 2 ^ (w - (tp + 1))) :
    ∃ rest, (cidrPartition w ⟨tv, tp⟩ ⟨x, w⟩).2.2 = rest ++ [⟨tv + 2 ^ (w - (tp + 1)), tp + 1⟩] ∧
      Run w (w - (tp + 1)) rest (x + 1) (tv + 2 ^ (w - (tp + 1))) := by
  have hp := pp (w - tp)
  have hp1 := pp (w - (tp + 1))
  have hhalf := pow_half w tp (by omega)
  have htv : tv < 2 ^ w := by omega
  have hx : x < 2 ^ w := by omega
  unfold cidrPartition
  simp only [Pfx.first, Pfx.last, first_full w x hx, last_full, first_aligned w tv tp htv hal, last_aligned w tv tp hal]
  have c1 : ¬ x < tv := by omega
  have c2 : ¬ tv + (2 ^ (w - tp) - 1) < x := by omega
  have c3 : ¬ tp ≥ w := by omega
  simp only [c1, c2, c3, if_false]
  rw [partLoop]
  have c4 : w ≥ tp + 1 := by omega
  have c5 : ¬ x ≥ tv + 2 ^ (w - (tp + 1)) := by omega
  simp only [c4, dite_true, c5, if_false]
  by_cases hbrk : tp + 1 + 1 > w
  · simp only [hbrk, if_true]
    refine ⟨[], by simp, ?_⟩
    have e : w - (tp + 1) = 0 := by omega
    rw [e] at h2 ⊢
    have : x = tv := by omega
    subst this
    simpa using run_nil w 0 (x + 1)
  · simp only [hbrk, if_false]
    rw [partLoop_acc w x w (w + 1 - (tp + 1 + 1)) (tp + 1 + 1) _ _ _ _ rfl]
    refine ⟨_, by simp; rfl, ?_⟩
    have hhalf2 := pow_half w (tp + 1) (by omega)
    have hal2 : tv % (2 * 2 ^ (w - (tp + 1 + 1))) = 0 := by
      rw [← hhalf2]
      have := Nat.mod_mul_right_mod tv (2 ^ (w - (tp + 1))) 2
      rw [Nat.mul_comm, ← hhalf, hal] at this
      simpa using this.symm
    have := (loop_run w x (tp + 1 + 1) tv (by omega) (by omega) hal2 h1 (by rw [← hhalf2]; omega)).2
    rw [← hhalf2] at this
    have e : w - (tp + 1 + 1) + 1 = w - (tp + 1) := by omega
    rw [e] at this
    exact this

end NV.C05L
