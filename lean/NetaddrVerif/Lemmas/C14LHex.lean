/-
Lemmas/C14LHex.lean — the exact string of `hex(a)`: `"0x"` followed by the lowercase
hexadecimal digits of the value, most significant first, no leading zeros, `"0x0"` for zero.
`Address.hexDigits` is that digit string written out independently of `Nat.toDigits`; here it is
proved equal to what the model's `hex` produces, its shape is characterised, and it is proved to
be the *only* lowercase numeral without leading zeros that reads back as the value.
-/
import NetaddrVerif.Lemmas.C14L
namespace NV.C14L.Hex
open NV NV.Address

/-- the alphabet of `'%x'` -/
def lowerHexChars : List Char :=
  ['0', '1', '2', '3', '4', '5', '6', '7', '8', '9', 'a', 'b', 'c', 'd', 'e', 'f']

theorem lowerHexDigit_eq_digitChar : ∀ d, d < 16 → lowerHexDigit d = Nat.digitChar d := by decide

theorem lowerHexDigit_mem : ∀ d, d < 16 → lowerHexDigit d ∈ lowerHexChars := by decide

theorem hexVal_lowerHexDigit : ∀ d, d < 16 → hexVal (lowerHexDigit d) = some d := by decide

theorem lowerHexDigit_zero_iff : ∀ d, d < 16 → (lowerHexDigit d = '0' ↔ d = 0) := by decide

/-- every character of the alphabet is the digit of exactly one value below 16 -/
theorem mem_lowerHexChars : ∀ c ∈ lowerHexChars, ∃ d, d < 16 ∧ c = lowerHexDigit d := by decide

theorem head?_append_ne {α : Type} (l l' : List α) (h : l ≠ []) : (l ++ l').head? = l.head? := by
  cases l with
  | nil => exact absurd rfl h
  | cons x xs => rfl

theorem hexDigits_lt (n : Nat) (h : n < 16) : hexDigits n = [lowerHexDigit n] := by
  rw [hexDigits, dif_pos h]

theorem hexDigits_ge (n : Nat) (h : 16 ≤ n) :
    hexDigits n = hexDigits (n / 16) ++ [lowerHexDigit (n % 16)] := by
  rw [hexDigits, dif_neg (by omega)]

/-- the specification string is what `Nat.toDigits 16` (the model's `'%x'`) produces -/
theorem hexDigits_eq_toDigits (n : Nat) : hexDigits n = Nat.toDigits 16 n := by
  induction n using Nat.strongRecOn with
  | ind n ih =>
    rw [Nat.toDigits_eq_if (by decide)]
    by_cases h : n < 16
    · rw [hexDigits_lt n h, if_pos h, lowerHexDigit_eq_digitChar n h]
    · rw [hexDigits_ge n (by omega), if_neg h, ih (n / 16) (Nat.div_lt_self (by omega) (by decide)),
        lowerHexDigit_eq_digitChar _ (Nat.mod_lt _ (by decide))]

theorem hexDigits_ne_nil (n : Nat) : hexDigits n ≠ [] := by
  rw [hexDigits_eq_toDigits]; exact Nat.toDigits_ne_nil

theorem hexDigits_zero : hexDigits 0 = ['0'] := hexDigits_lt 0 (by decide)

/-- only lowercase hexadecimal digits occur -/
theorem hexDigits_chars (n : Nat) : ∀ c ∈ hexDigits n, c ∈ lowerHexChars := by
  induction n using Nat.strongRecOn with
  | ind n ih =>
    by_cases h : n < 16
    · rw [hexDigits_lt n h]
      intro c hc
      rw [List.mem_singleton] at hc
      rw [hc]; exact lowerHexDigit_mem n h
    · rw [hexDigits_ge n (by omega)]
      intro c hc
      rcases List.mem_append.1 hc with hc | hc
      · exact ih (n / 16) (Nat.div_lt_self (by omega) (by decide)) c hc
      · rw [List.mem_singleton] at hc
        rw [hc]; exact lowerHexDigit_mem _ (Nat.mod_lt _ (by decide))

/-- no leading zero, except for the numeral `0` itself -/
theorem hexDigits_head (n : Nat) (hn : n ≠ 0) : (hexDigits n).head? ≠ some '0' := by
  induction n using Nat.strongRecOn with
  | ind n ih =>
    by_cases h : n < 16
    · rw [hexDigits_lt n h]
      intro hc
      simp only [List.head?_cons, Option.some.injEq] at hc
      exact hn ((lowerHexDigit_zero_iff n h).1 hc)
    · rw [hexDigits_ge n (by omega)]
      have hne := hexDigits_ne_nil (n / 16)
      rw [head?_append_ne _ _ hne]
      exact ih (n / 16) (Nat.div_lt_self (by omega) (by decide)) (by omega)

/-- the number of digits is the hexadecimal length of the value -/
theorem hexDigits_length (n : Nat) (hn : n ≠ 0) :
    16 ^ ((hexDigits n).length - 1) ≤ n ∧ n < 16 ^ (hexDigits n).length := by
  induction n using Nat.strongRecOn with
  | ind n ih =>
    by_cases h : n < 16
    · rw [hexDigits_lt n h]
      simp only [List.length_singleton, Nat.sub_self, Nat.pow_zero, Nat.pow_one]
      omega
    · rw [hexDigits_ge n (by omega)]
      obtain ⟨h1, h2⟩ := ih (n / 16) (Nat.div_lt_self (by omega) (by decide)) (by omega)
      have hpos : 0 < (hexDigits (n / 16)).length := List.length_pos_iff.2 (hexDigits_ne_nil _)
      simp only [List.length_append, List.length_singleton, Nat.add_sub_cancel]
      generalize (hexDigits (n / 16)).length = L at h1 h2 hpos
      obtain ⟨k, rfl⟩ : ∃ k, L = k + 1 := ⟨L - 1, by omega⟩
      simp only [Nat.add_sub_cancel] at h1
      rw [Nat.pow_succ] at h2 ⊢
      rw [Nat.pow_succ]
      constructor <;> omega

/-- it reads back as the value -/
theorem ofHex_hexDigits (n : Nat) : ofHex (hexDigits n) = some n := by
  rw [hexDigits_eq_toDigits]; exact ofHex_toHex n

/-! ### uniqueness -/

/-- a lowercase numeral in canonical form: non-empty, only lowercase hex digits, no leading zero
    unless it is `"0"` -/
structure Canonical (s : List Char) : Prop where
  chars : ∀ c ∈ s, c ∈ lowerHexChars
  lead : s = ['0'] ∨ (s ≠ [] ∧ s.head? ≠ some '0')

theorem canonical_hexDigits (n : Nat) : Canonical (hexDigits n) := by
  refine ⟨hexDigits_chars n, ?_⟩
  by_cases hn : n = 0
  · left; rw [hn]; exact hexDigits_zero
  · right; exact ⟨hexDigits_ne_nil n, hexDigits_head n hn⟩

/-- reversed-list form, for the induction from the least significant digit -/
theorem unique_rev (r : List Char) : ∀ n, Canonical r.reverse → ofHex r.reverse = some n →
    r.reverse = hexDigits n := by
  induction r with
  | nil =>
    intro n hc _
    rcases hc.lead with h | ⟨h, _⟩
    · simp at h
    · simp at h
  | cons c r ih =>
    intro n hc hv
    rw [List.reverse_cons] at hc hv ⊢
    obtain ⟨d, hd, rfl⟩ := mem_lowerHexChars c (hc.chars c (by simp))
    unfold ofHex at hv
    rw [if_neg (by simp), ofHexAux_append] at hv
    cases hinit : ofHexAux r.reverse 0 with
    | none => rw [hinit] at hv; simp at hv
    | some v =>
      rw [hinit] at hv
      simp only [Option.bind_some, ofHexAux, hexVal_lowerHexDigit d hd, Option.some.injEq] at hv
      by_cases hr : r = []
      · subst hr
        simp only [List.reverse_nil, ofHexAux, Option.some.injEq] at hinit
        have : n = d := by omega
        rw [this, List.reverse_nil, List.nil_append, hexDigits_lt d hd]
      · have hrr : r.reverse ≠ [] := by simpa using hr
        have hhead : r.reverse.head? ≠ some '0' := by
          rcases hc.lead with h | ⟨_, h⟩
          · have := congrArg List.length h
            simp only [List.length_append, List.length_singleton] at this
            have : r.reverse.length = 0 := by omega
            exact absurd (List.length_eq_zero_iff.1 this) hrr
          · rwa [head?_append_ne _ _ hrr] at h
        have hcan : Canonical r.reverse :=
          ⟨fun c' hc' => hc.chars c' (List.mem_append_left _ hc'), Or.inr ⟨hrr, hhead⟩⟩
        have hinit' : ofHex r.reverse = some v := by unfold ofHex; rw [if_neg hrr, hinit]
        have hrv := ih v hcan hinit'
        have hv0 : v ≠ 0 := by
          intro h0
          rw [h0, hexDigits_zero] at hrv
          rw [hrv] at hhead
          exact hhead rfl
        have hn16 : 16 ≤ n := by omega
        rw [hexDigits_ge n hn16, hrv]
        have h1 : n / 16 = v := by omega
        have h2 : n % 16 = d := by omega
        rw [h1, h2]

/-- **uniqueness**: the only canonical lowercase numeral that reads back as `n` is `hexDigits n` -/
theorem hexDigits_unique (s : List Char) (n : Nat) (hc : Canonical s) (hv : ofHex s = some n) :
    s = hexDigits n := by
  have := unique_rev s.reverse n (by rwa [List.reverse_reverse]) (by rwa [List.reverse_reverse])
  rwa [List.reverse_reverse] at this

end NV.C14L.Hex
