/-
Lemmas/C01LRaw.lean — the raw-exception model of Model/AddrRaw.lean against the `Option` /
`Err`-level model of Model/AddrParse.lean: what the try/except structure does to an arbitrary
sane platform.  Core Lean only.
-/
import NetaddrVerif.Model.AddrRaw
namespace NV.C01L.Raw
open NV NV.Text4 NV.AddrParse NV.AddrRaw

/-- an `Option` read as "value or AddrFormatError" -/
def ofOpt {α : Type} : Option α → X α
  | some v => .ok v
  | none => .error .addrFormat

theorem agrees_some {α : Type} {r : X α} {v : α} (h : Agrees r (some v)) : r = .ok v := h
theorem agrees_none {α : Type} {r : X α} (h : Agrees r (none : Option α)) :
    ∃ e, r = .error e ∧ e.isException = true := h

/-- `try: r` / `except Exception: raise AddrFormatError` over a call that agrees with `o` -/
theorem try_exception_agrees {α : Type} (r : X α) (o : Option α) (h : Agrees r o) :
    tryExcept r .exception (fun _ => .error .addrFormat) = ofOpt o := by
  cases o with
  | some v => rw [agrees_some h]; rfl
  | none =>
    obtain ⟨e, he, hx⟩ := agrees_none h
    rw [he]; simp [tryExcept, Clause.catches, hx, ofOpt]

/-- `Agrees` is kept by sequencing -/
theorem agrees_bind {α β : Type} (r : X α) (o : Option α) (f : α → X β) (g : α → Option β)
    (h : Agrees r o) (hf : ∀ a, Agrees (f a) (g a)) : Agrees (r >>= f) (o >>= g) := by
  cases o with
  | some v => rw [agrees_some h]; exact hf v
  | none =>
    obtain ⟨e, he, hx⟩ := agrees_none h
    rw [he]; exact ⟨e, rfl, hx⟩

theorem agrees_pure {α : Type} (a : α) : Agrees (pure a : X α) (pure a : Option α) := rfl

theorem agrees_mapM {α β : Type} (f : α → X β) (g : α → Option β) (h : ∀ a, Agrees (f a) (g a))
    (l : List α) : Agrees (l.mapM f) (l.mapM g) := by
  induction l with
  | nil => simp only [List.mapM_nil]; exact agrees_pure _
  | cons a t ih =>
    simp only [List.mapM_cons]
    exact agrees_bind _ _ _ _ (h a) (fun b => agrees_bind _ _ _ _ ih (fun bs => agrees_pure _))

theorem zerofillRaw_agrees (P : RawPlatform) (hP : P.Sane) (s : List Char) :
    Agrees (zerofillRaw P s) (zerofill s) := by
  unfold zerofillRaw zerofill
  have hm := agrees_mapM (fun i => do let n ← P.pyInt i; pure (showInt n))
    (fun i => (Py.pyInt 10 i).map showInt)
    (fun i => by
      have := agrees_bind _ _ (fun n => (pure (showInt n) : X (List Char))) (fun n => some (showInt n))
        (hP.pyInt i) (fun n => agrees_pure _)
      simpa [Option.map_eq_bind, Function.comp_def] using this)
    (s.splitOn '.')
  have := agrees_bind _ _ (fun ts => (pure (['.'].intercalate ts) : X (List Char)))
    (fun ts => some (['.'].intercalate ts)) hm (fun ts => agrees_pure _)
  simpa [Option.map_eq_bind, Function.comp_def] using this

/-- the `Option` reading of the statements inside `str_to_int`'s `try` -/
def body4 (be : Backend) (s : List Char) (fl : Nat) : Option Nat :=
  (if hasFlag fl ZEROFILL then zerofill s else some s) >>= fun a =>
    if hasFlag fl INET_PTON then inetPton4 be a else Text4.aton a

theorem strToInt4_ofOpt (be : Backend) (s : List Char) (fl : Nat) :
    liftR (strToInt4 be s fl) = ofOpt (body4 be s fl) := by
  unfold strToInt4 body4
  cases hz : hasFlag fl ZEROFILL <;> cases hp : hasFlag fl INET_PTON <;>
    simp only [Bool.false_eq_true, if_false, if_true, Option.bind_eq_bind, Option.bind_some]
  · cases Text4.aton s <;> rfl
  · cases inetPton4 be s <;> rfl
  · cases zerofill s with
    | none => rfl
    | some a => simp only [Option.bind_some]; cases Text4.aton a <;> rfl
  · cases zerofill s with
    | none => rfl
    | some a => simp only [Option.bind_some]; cases inetPton4 be a <;> rfl

theorem strToInt4Body_agrees (P : RawPlatform) (hP : P.Sane) (be : Backend) (s : List Char) (fl : Nat) :
    Agrees (strToInt4Body P be s fl) (body4 be s fl) := by
  unfold strToInt4Body body4
  apply agrees_bind
  · by_cases hz : hasFlag fl ZEROFILL = true
    · simp only [hz, if_true]; exact zerofillRaw_agrees P hP s
    · simp only [hz]; exact agrees_pure s
  · intro a
    by_cases hp : hasFlag fl INET_PTON = true
    · simp only [hp, if_true]; exact hP.pton4 be a
    · simp only [hp]; exact hP.aton a

/-- **`strategy.ipv4.str_to_int`**: over every sane platform the try/except structure gives the
    value or AddrFormatError, as Model/AddrParse.lean says -/
theorem strToInt4Raw_eq (P : RawPlatform) (hP : P.Sane) (be : Backend) (s : List Char) (fl : Nat) :
    strToInt4Raw P be s fl = liftR (strToInt4 be s fl) := by
  rw [strToInt4_ofOpt]
  exact try_exception_agrees _ _ (strToInt4Body_agrees P hP be s fl)

theorem strToInt6_ofOpt (be : Backend) (s : List Char) (fl : Nat) :
    liftR (strToInt6 be s fl) = ofOpt (inetPton6 be s) := by
  unfold strToInt6; cases inetPton6 be s <;> rfl

theorem strToInt6Raw_eq (P : RawPlatform) (hP : P.Sane) (be : Backend) (s : List Char) (fl : Nat) :
    strToInt6Raw P be s fl = liftR (strToInt6 be s fl) := by
  rw [strToInt6_ofOpt]
  exact try_exception_agrees _ _ (hP.pton6 be s)

/-- `try: r; validity stays True` / `except <clause>: False` over a call that agrees with `o`,
    for the two clauses the code uses -/
theorem try_valid_agrees {α : Type} (r : X α) (o : Option α) (h : Agrees r o) (c : Clause)
    (hc : c = .exception ∨ c = .bare) :
    tryExcept (do let _ ← r; pure true) c (fun _ => pure false) = .ok o.isSome := by
  cases o with
  | some v => rw [agrees_some h]; rfl
  | none =>
    obtain ⟨e, he, hx⟩ := agrees_none h
    rw [he]
    rcases hc with rfl | rfl <;> simp [tryExcept, Clause.catches, hx, bind, Except.bind, pure, Except.pure]

theorem validStr4_isSome (be : Backend) (s : List Char) (fl : Nat) (hs : (s == []) = false) :
    validStr4 be s fl = .ok (body4 be s fl).isSome := by
  have h := strToInt4_ofOpt be s fl
  unfold validStr4
  simp only [hs, Bool.false_eq_true, if_false]
  cases hb : body4 be s fl with
  | some v =>
    rw [hb] at h
    cases h4 : strToInt4 be s fl with
    | ok w => rfl
    | error e => rw [h4] at h; cases e <;> cases h
  | none =>
    rw [hb] at h
    cases h4 : strToInt4 be s fl with
    | ok w => rw [h4] at h; cases h
    | error e => rfl

/-- **`strategy.ipv4.valid_str`**, transcribed on its own, is the `validStr4` of
    Model/AddrParse.lean on every sane platform -/
theorem validStr4Raw_eq (P : RawPlatform) (hP : P.Sane) (be : Backend) (s : List Char) (fl : Nat) :
    validStr4Raw P be s fl = liftR (validStr4 be s fl) := by
  by_cases hs : (s == []) = true
  · simp [validStr4Raw, validStr4, hs, liftR]
  · have hs' : (s == []) = false := by simpa using hs
    rw [validStr4_isSome be s fl hs']
    unfold validStr4Raw
    simp only [hs', Bool.false_eq_true, if_false]
    have hb := strToInt4Body_agrees P hP be s fl
    have key := try_valid_agrees (strToInt4Body P be s fl) (body4 be s fl) hb .exception (Or.inl rfl)
    rw [show liftR (Except.ok (body4 be s fl).isSome : R Bool) = .ok (body4 be s fl).isSome from rfl, ← key]
    congr 1
    unfold strToInt4Body
    by_cases hp : hasFlag fl INET_PTON = true <;> simp [hp]

/-- **`strategy.ipv6.valid_str`** likewise (bare `except:`) -/
theorem validStr6Raw_eq (P : RawPlatform) (hP : P.Sane) (be : Backend) (s : List Char) :
    validStr6Raw P be s = liftR (validStr6 be s) := by
  by_cases hs : (s == []) = true
  · simp [validStr6Raw, validStr6, hs, liftR]
  · have hs' : (s == []) = false := by simpa using hs
    unfold validStr6Raw validStr6
    simp only [hs', Bool.false_eq_true, if_false]
    rw [try_valid_agrees (P.pton6 be s) (inetPton6 be s) (hP.pton6 be s) .bare (Or.inr rfl)]
    cases inetPton6 be s <;> rfl

/-- what the three `try` statements of `IPAddress.__init__` do with a `str_to_int` that raises
    nothing but AddrFormatError -/
theorem ipAddressRawOf_lift (f4 f6 : List Char → Nat → R Nat) (be4 be6 : Backend)
    (h4 : f4 = strToInt4 be4) (h6 : f6 = strToInt6 be6)
    (s : List Char) (ver : Option Nat) (fl : Nat) :
    ipAddressRawOf (fun a f => liftR (f4 a f)) (fun a f => liftR (f6 a f)) s ver fl
      = liftR (ipAddress2 be4 be6 s ver fl) := by
  subst h4; subst h6
  have e4 : ∀ r : R Nat, (∀ e, r = .error e → e = .addrFormat) → ∀ (k : Nat → Addr) (c : Clause)
      (hc : c.catches .addrFormat = true) (h : Exn → X Addr),
      tryExcept (do let v ← liftR r; pure (k v)) c h =
        match r with | .ok v => .ok (k v) | .error _ => h .addrFormat := by
    intro r hr k c hc h
    cases r with
    | ok v => rfl
    | error e => cases hr e rfl; simp [liftR, tryExcept, hc, bind, Except.bind]
  have r4 : ∀ e, strToInt4 be4 s fl = .error e → e = .addrFormat := by
    intro e he; unfold strToInt4 at he
    generalize (if hasFlag fl ZEROFILL = true then zerofill s else some s) = z at he
    cases z with
    | none => cases he; rfl
    | some a =>
      simp only at he
      generalize (if hasFlag fl INET_PTON = true then inetPton4 be4 a else Text4.aton a) = r at he
      cases r with
      | none => cases he; rfl
      | some v => cases he
  have r6 : ∀ e, strToInt6 be6 s fl = .error e → e = .addrFormat := by
    intro e he; unfold strToInt6 at he
    generalize inetPton6 be6 s = r at he
    cases r with
    | none => cases he; rfl
    | some v => cases he
  unfold ipAddressRawOf ipAddress2
  cases ver with
  | none =>
    simp only [pure_bind]
    by_cases hsl : s.contains '/' = true
    · simp only [hsl, if_true]; rfl
    · simp only [hsl, Bool.false_eq_true, if_false]
      rw [e4 _ r4 (fun v => ⟨4, v⟩) .bare rfl]
      cases strToInt4 be4 s fl with
      | ok v => rfl
      | error e =>
        simp only
        rw [e4 _ r6 (fun v => ⟨6, v⟩) .bare rfl]
        cases strToInt6 be6 s fl <;> rfl
  | some v =>
    by_cases h4 : v = 4
    · subst h4
      simp only [if_true, pure_bind]
      have hv4 : ¬ ((4 : Nat) ≠ 4 ∧ (4 : Nat) ≠ 6) := by decide
      simp only [hv4, if_false, strToInt2, if_true]
      by_cases hsl : s.contains '/' = true
      · simp only [hsl, if_true]; rfl
      · simp only [hsl, Bool.false_eq_true, if_false]
        rw [e4 _ r4 (fun v => ⟨4, v⟩) (.cls .addrFormat) rfl]
        cases strToInt4 be4 s fl <;> rfl
    · by_cases h6 : v = 6
      · subst h6
        have hv6 : ¬ ((6 : Nat) ≠ 4 ∧ (6 : Nat) ≠ 6) := by decide
        have h64 : ¬ ((6 : Nat) = 4) := by decide
        simp only [h64, if_false, if_true, pure_bind, hv6, strToInt2]
        by_cases hsl : s.contains '/' = true
        · simp only [hsl, if_true]; rfl
        · simp only [hsl, Bool.false_eq_true, if_false]
          rw [e4 _ r6 (fun v => ⟨6, v⟩) (.cls .addrFormat) rfl]
          cases strToInt6 be6 s fl <;> rfl
      · simp [h4, h6, liftR, bind, Except.bind]

/-- **`IPAddress.__init__`**: the raw model with the try/except structure of the code equals the
    `Err`-level model on every sane platform, for every string, version and flags -/
theorem ipAddressRaw_eq (P : RawPlatform) (hP : P.Sane) (be4 be6 : Backend) (s : List Char)
    (ver : Option Nat) (fl : Nat) :
    ipAddressRaw P be4 be6 s ver fl = liftR (ipAddress2 be4 be6 s ver fl) := by
  unfold ipAddressRaw
  have a4 : strToInt4Raw P be4 = fun a f => liftR (strToInt4 be4 a f) := by
    funext a f; exact strToInt4Raw_eq P hP be4 a f
  have a6 : strToInt6Raw P be6 = fun a f => liftR (strToInt6 be6 a f) := by
    funext a f; exact strToInt6Raw_eq P hP be6 a f
  rw [a4, a6]
  exact ipAddressRawOf_lift _ _ be4 be6 rfl rfl s ver fl

theorem ipAddress2_self (be : Backend) (s : List Char) (ver : Option Nat) (fl : Nat) :
    ipAddress2 be be s ver fl = ipAddress be s ver fl := by
  unfold ipAddress2 ipAddress strToInt2 strToInt; rfl

/-- the observed platform is sane -/
theorem std_sane : std.Sane := by
  refine ⟨?_, ?_, ?_, ?_⟩
  · intro s
    show Agrees (match Text4.aton s with | some v => _ | none => _) _
    cases Text4.aton s with
    | some v => rfl
    | none => exact ⟨_, rfl, by unfold glibcFailure; split <;> rfl⟩
  · intro be s
    cases be with
    | platform =>
      show Agrees (match Text4.pton4 s with | some v => _ | none => _) (Text4.pton4 s)
      cases Text4.pton4 s with
      | some v => rfl
      | none => exact ⟨_, rfl, by unfold glibcFailure; split <;> rfl⟩
    | fallback =>
      show Agrees (match FbSocket.pton4 s with | some v => _ | none => _) (FbSocket.pton4 s)
      cases FbSocket.pton4 s with
      | some v => rfl
      | none => exact ⟨_, rfl, rfl⟩
  · intro be s
    cases be with
    | platform =>
      show Agrees (match Text6.pton6 s with | some v => _ | none => _) (Text6.pton6 s)
      cases Text6.pton6 s with
      | some v => rfl
      | none => exact ⟨_, rfl, by unfold glibcFailure; split <;> rfl⟩
    | fallback =>
      show Agrees (match FbSocket.pton6 s with | some v => _ | none => _) (FbSocket.pton6 s)
      cases FbSocket.pton6 s with
      | some v => rfl
      | none => exact ⟨_, rfl, rfl⟩
  · intro s
    show Agrees (match Py.pyInt 10 s with | some v => _ | none => _) _
    cases Py.pyInt 10 s with
    | some v => rfl
    | none => exact ⟨_, rfl, rfl⟩

end NV.C01L.Raw
