/-
Lemmas/C08L.lean — arithmetic of the derived EUI identifiers and per-index word access.
Core only.
-/
import NetaddrVerif.Model.Eui
import NetaddrVerif.Lemmas.C15LWords
namespace NV.Eui
open NV.Codec

/-- `(first_three << 40) | 0xfffe000000 | last_three` as plain arithmetic -/
theorem eui64Value_48 (v : Nat) :
    eui64Value 48 v = (v / 2 ^ 24) * 2 ^ 40 + 0xfffe000000 + v % 2 ^ 24 := by
  have e2 : v &&& 0xffffff = v % 2 ^ 24 := Nat.and_two_pow_sub_one_eq_mod v 24
  simp only [eui64Value, if_true, e2, Nat.shiftRight_eq_div_pow]
  have h1 : (0xfffe000000 : Nat) < 2 ^ 40 := by decide
  rw [← Nat.shiftLeft_add_eq_or_of_lt h1]
  have h2 : (v / 2 ^ 24) <<< 40 + 0xfffe000000 = ((v / 2 ^ 24) * 2 ^ 16 + 0xfffe) <<< 24 := by
    simp only [Nat.shiftLeft_eq]; omega
  have h3 : v % 2 ^ 24 < 2 ^ 24 := Nat.mod_lt _ (by decide)
  rw [h2, ← Nat.shiftLeft_add_eq_or_of_lt h3]
  simp only [Nat.shiftLeft_eq]; omega

theorem wordsLoop_get (ws : Nat) : ∀ n v i, i < n → (wordsLoop ws n v)[i]? = some (v / 2 ^ (ws * i) % 2 ^ ws) := by
  intro n
  induction n with
  | zero => intro v i h; omega
  | succ n ih =>
    intro v i h
    cases i with
    | zero => simp [wordsLoop, Nat.and_two_pow_sub_one_eq_mod]
    | succ i =>
      simp only [wordsLoop, List.getElem?_cons_succ, ih _ i (by omega), Nat.shiftRight_eq_div_pow]
      rw [Nat.div_div_eq_div_mul, Nat.mul_succ, Nat.add_comm (ws * i) ws, Nat.pow_add]

/-- words, most significant first: index i holds digit nw-1-i of v in base 2^ws -/
theorem beWords_get (ws nw v i : Nat) (h : i < nw) :
    (wordsLoop ws nw v).reverse[i]? = some (v / 2 ^ (ws * (nw - 1 - i)) % 2 ^ ws) := by
  rw [List.getElem?_reverse (by simpa [wordsLoop_length] using h), wordsLoop_length,
    wordsLoop_get ws nw v _ (by omega)]

theorem leValue_inj (k : Nat) : ∀ (xs ys : List Nat), xs.length = ys.length → (∀ x ∈ xs, x < 2 ^ k) →
    (∀ y ∈ ys, y < 2 ^ k) → leValue k xs = leValue k ys → xs = ys := by
  intro xs
  induction xs with
  | nil => intro ys hl _ _ _; cases ys with
    | nil => rfl
    | cons _ _ => simp at hl
  | cons x t ih =>
    intro ys hl hx hy he
    cases ys with
    | nil => simp at hl
    | cons y u =>
      have h1 := hx x (by simp)
      have h2 := hy y (by simp)
      simp only [leValue] at he
      have hp := pow_pos2 k
      have e1 : x = y := by
        have a := congrArg (· % 2 ^ k) he
        simp only [Nat.add_mul_mod_self_left, Nat.mod_eq_of_lt h1, Nat.mod_eq_of_lt h2] at a
        exact a
      subst e1
      have e2 : leValue k t = leValue k u := by
        have : 2 ^ k * leValue k t = 2 ^ k * leValue k u := by omega
        exact Nat.eq_of_mul_eq_mul_left hp this
      rw [ih u (by simpa using hl) (fun a ha => hx a (by simp [ha])) (fun a ha => hy a (by simp [ha])) e2]

end NV.Eui
