/-
Lemmas/C17LNmapGrammar.lean — an independent grammar of the nmap octet-list form, written with
explicit productions (nothing here is defined through `Py.pyInt` or through the model's own
first-hyphen split), and its equivalence with what the model of `_nmap_octet_target_values` /
`_generate_nmap_octet_ranges` accepts.

    spec     ::= octets '.' octets '.' octets '.' octets
    octets   ::= element ( ',' element )*
    element  ::= natlit                        -- one value, 0..255
               | lo '-' hi                     -- lo <= hi <= 255
    lo       ::= ε (= 0)   | natlit
    hi       ::= ε (= 255) | natlit | negzero  -- "0--0" is the octet 0: int('-0') = 0
    natlit   ::= ws* '+'? udigits ws*          -- int() leniencies: blanks around, a plus sign,
    negzero  ::= ws* '-' udigits ws*  (value 0)   leading zeros, single '_' between digits
    udigits  ::= digit ( '_'? digit )*

`'*'` is NOT accepted (int('*') raises), an empty element is not accepted ("1,,2", "1,").
-/
import NetaddrVerif.Lemmas.C17LNmap
import NetaddrVerif.Lemmas.C17LPyLit
namespace NV.C17L.Grammar
open NV NV.Nmap NV.C17 NV.C17L.PyLit

/-! ### the productions -/

/-- `ws* '+'? udigits ws*` with its value -/
def NatLit (s : List Char) (n : Nat) : Prop :=
  ∃ (pre sg body post : List Char) (ds : List Nat),
    s = pre ++ sg ++ body ++ post ∧ (∀ c ∈ pre, Ws c) ∧ (∀ c ∈ post, Ws c) ∧ (sg = [] ∨ sg = ['+']) ∧
    UDigits body ds ∧ n = valOf ds

/-- `ws* '-' udigits ws*` of value zero ("-0", " -00", "-0_0") -/
def NegZero (s : List Char) : Prop :=
  ∃ (pre body post : List Char) (ds : List Nat),
    s = pre ++ ['-'] ++ body ++ post ∧ (∀ c ∈ pre, Ws c) ∧ (∀ c ∈ post, Ws c) ∧ UDigits body ds ∧ valOf ds = 0

/-- left side of a hyphen -/
inductive LoLit : List Char → Nat → Prop
  | empty : LoLit [] 0
  | lit {l : List Char} {a : Nat} : NatLit l a → LoLit l a

/-- right side of a hyphen -/
inductive HiLit : List Char → Nat → Prop
  | empty : HiLit [] 255
  | lit {r : List Char} {b : Nat} : NatLit r b → HiLit r b
  | negzero {r : List Char} : NegZero r → HiLit r 0

/-- one comma-separated element and the closed octet interval it denotes -/
inductive Element : List Char → Nat → Nat → Prop
  | single {t : List Char} {n : Nat} : NatLit t n → n ≤ 255 → Element t n n
  | range {l r : List Char} {a b : Nat} : LoLit l a → HiLit r b → a ≤ b → b ≤ 255 → Element (l ++ '-' :: r) a b

/-- `element (',' element)*` -/
def OctetList (tok : List Char) : Prop :=
  ∃ els : List (List Char), els ≠ [] ∧ tok = [','].intercalate els ∧ ∀ el ∈ els, ∃ lo hi, Element el lo hi

/-- the values an octet list denotes -/
def OctetListDen (tok : List Char) (v : Nat) : Prop :=
  ∃ els : List (List Char), tok = [','].intercalate els ∧ (∀ el ∈ els, ∃ lo hi, Element el lo hi) ∧
    ∃ el ∈ els, ∃ lo hi, Element el lo hi ∧ lo ≤ v ∧ v ≤ hi

/-- the octet-list form of an nmap target spec -/
def OctetsSpec (spec : List Char) : Prop :=
  ∃ t0 t1 t2 t3, spec = ['.'].intercalate [t0, t1, t2, t3] ∧ OctetList t0 ∧ OctetList t1 ∧ OctetList t2 ∧ OctetList t3

/-- the addresses an octet-list spec denotes -/
def OctetsSpecDen (spec : List Char) (a : Nat) : Prop :=
  ∃ t0 t1 t2 t3, spec = ['.'].intercalate [t0, t1, t2, t3] ∧ a < 2 ^ 32 ∧ OctetListDen t0 (a / 2 ^ 24 % 256) ∧
    OctetListDen t1 (a / 2 ^ 16 % 256) ∧ OctetListDen t2 (a / 2 ^ 8 % 256) ∧ OctetListDen t3 (a % 256)

/-! ### characters -/

theorem digit_special_tab : ∀ d, d < 10 → Char.ofNat (48 + d) ≠ '.' ∧ Char.ofNat (48 + d) ≠ ',' ∧
    Char.ofNat (48 + d) ≠ '/' ∧ Char.ofNat (48 + d) ≠ ':' := by
  decide +kernel

/-- the separators of the notation -/
def Special (c : Char) : Prop := c = '.' ∨ c = ',' ∨ c = '/' ∨ c = ':'

theorem ws_not_special {c : Char} (h : Ws c) : ¬ Special c := by
  rcases h with h | h | h | h | h | h <;> subst h <;> unfold Special <;> decide

theorem ws_not_hyphen {c : Char} (h : Ws c) : c ≠ '-' := by
  rcases h with h | h | h | h | h | h <;> subst h <;> decide

theorem digit_not_special {c : Char} {d : Nat} (h : DigitCh c d) : ¬ Special c := by
  obtain ⟨hd, rfl⟩ := h
  have := digit_special_tab d hd
  unfold Special
  intro hs
  rcases hs with e | e | e | e
  · exact this.1 e
  · exact this.2.1 e
  · exact this.2.2.1 e
  · exact this.2.2.2 e

theorem udigits_not_special {t : List Char} {ds : List Nat} (h : UDigits t ds) : ∀ c ∈ t, ¬ Special c ∧ c ≠ '-' := by
  intro c hc
  rcases uDigits_charset h c hc with e | ⟨d, e⟩
  · subst e; unfold Special; decide
  · exact ⟨digit_not_special e, (digitCh_plain c d e).2.2.2⟩

theorem natLit_chars {s : List Char} {n : Nat} (h : NatLit s n) : ∀ c ∈ s, ¬ Special c ∧ c ≠ '-' := by
  obtain ⟨pre, sg, body, post, ds, rfl, hpre, hpost, hsg, hbody, _⟩ := h
  intro c hc
  simp only [List.mem_append] at hc
  rcases hc with ((hc | hc) | hc) | hc
  · exact ⟨ws_not_special (hpre c hc), ws_not_hyphen (hpre c hc)⟩
  · rcases hsg with e | e
    · subst e; cases hc
    · subst e; simp only [List.mem_singleton] at hc; subst hc; unfold Special; decide
  · exact udigits_not_special hbody c hc
  · exact ⟨ws_not_special (hpost c hc), ws_not_hyphen (hpost c hc)⟩

theorem natLit_ne_nil {s : List Char} {n : Nat} (h : NatLit s n) : s ≠ [] := by
  obtain ⟨pre, sg, body, post, ds, rfl, _, _, _, hbody, _⟩ := h
  have := uDigits_ne_nil hbody
  intro e
  simp only [List.append_eq_nil_iff] at e
  exact this e.1.2

theorem negZero_chars {s : List Char} (h : NegZero s) : ∀ c ∈ s, ¬ Special c := by
  obtain ⟨pre, body, post, ds, rfl, hpre, hpost, hbody, _⟩ := h
  intro c hc
  simp only [List.mem_append] at hc
  rcases hc with ((hc | hc) | hc) | hc
  · exact ws_not_special (hpre c hc)
  · simp only [List.mem_singleton] at hc; subst hc; unfold Special; decide
  · exact (udigits_not_special hbody c hc).1
  · exact ws_not_special (hpost c hc)

theorem negZero_ne_nil {s : List Char} (h : NegZero s) : s ≠ [] := by
  obtain ⟨pre, body, post, ds, rfl, _, _, _, _⟩ := h
  simp

theorem element_chars {el : List Char} {lo hi : Nat} (h : Element el lo hi) : ∀ c ∈ el, ¬ Special c := by
  cases h with
  | single hn _ => exact fun c hc => (natLit_chars hn c hc).1
  | range hl hr _ _ =>
    intro c hc
    simp only [List.mem_append, List.mem_cons] at hc
    rcases hc with hc | hc | hc
    · cases hl with
      | empty => cases hc
      | lit hn => exact (natLit_chars hn c hc).1
    · subst hc; unfold Special; decide
    · cases hr with
      | empty => cases hc
      | lit hn => exact (natLit_chars hn c hc).1
      | negzero hz => exact negZero_chars hz c hc

theorem element_ne_nil {el : List Char} {lo hi : Nat} (h : Element el lo hi) : el ≠ [] := by
  cases h with
  | single hn _ => exact natLit_ne_nil hn
  | range _ _ _ _ => simp

/-! ### numerals: the grammar against `int()` -/

/-- a non-negative `int()` literal is a `natlit`, or a negative zero -/
theorem intLit_nat_iff (s : List Char) (n : Nat) : IntLit s (n : Int) ↔ NatLit s n ∨ (NegZero s ∧ n = 0) := by
  constructor
  · rintro ⟨pre, sg, body, post, neg, ds, rfl, hpre, hpost, hsg, hbody, hz⟩
    cases hsg with
    | none =>
      left
      simp only [Bool.false_eq_true, if_false] at hz
      exact ⟨pre, [], body, post, ds, rfl, hpre, hpost, Or.inl rfl, hbody, by omega⟩
    | plus =>
      left
      simp only [Bool.false_eq_true, if_false] at hz
      exact ⟨pre, ['+'], body, post, ds, rfl, hpre, hpost, Or.inr rfl, hbody, by omega⟩
    | minus =>
      right
      simp only [if_true] at hz
      exact ⟨⟨pre, body, post, ds, rfl, hpre, hpost, hbody, by omega⟩, by omega⟩
  · rintro (⟨pre, sg, body, post, ds, rfl, hpre, hpost, hsg, hbody, rfl⟩ | ⟨⟨pre, body, post, ds, rfl, hpre, hpost, hbody, h0⟩, rfl⟩)
    · rcases hsg with e | e <;> subst e
      · exact ⟨pre, [], body, post, false, ds, rfl, hpre, hpost, .none, hbody, by simp⟩
      · exact ⟨pre, ['+'], body, post, false, ds, rfl, hpre, hpost, .plus, hbody, by simp⟩
    · exact ⟨pre, ['-'], body, post, true, ds, rfl, hpre, hpost, .minus, hbody, by simp [h0]⟩

theorem negZero_hyphen {s : List Char} (h : NegZero s) : '-' ∈ s := by
  obtain ⟨pre, body, post, ds, rfl, _⟩ := h
  simp

/-- `int(t)` for a text without '-' -/
theorem pyInt_nat_iff (t : List Char) (ht : '-' ∉ t) (n : Nat) : Py.pyInt 10 t = some (n : Int) ↔ NatLit t n := by
  rw [pyInt_iff, intLit_nat_iff]
  constructor
  · rintro (h | ⟨h, _⟩)
    · exact h
    · exact absurd (negZero_hyphen h) ht
  · exact Or.inl

theorem pyInt_nonneg_of_no_hyphen (t : List Char) (ht : '-' ∉ t) (z : Int) (h : Py.pyInt 10 t = some z) : 0 ≤ z :=
  intLit_nonneg t z ((pyInt_iff t z).1 h) ht

/-- `if not left: left = 0 ... int(left)` on a text without '-' -/
theorem lo_iff (l : List Char) (hl : '-' ∉ l) (n : Nat) :
    (if l = [] then some (0 : Int) else Py.pyInt 10 l) = some (n : Int) ↔ LoLit l n := by
  by_cases he : l = []
  · subst he
    simp only [if_true, Option.some.injEq]
    constructor
    · intro h
      have : n = 0 := by omega
      subst this; exact .empty
    · intro h
      cases h with
      | empty => rfl
      | lit hn => exact absurd rfl (natLit_ne_nil hn)
  · simp only [he, if_false]
    rw [pyInt_nat_iff l hl]
    constructor
    · exact .lit
    · intro h
      cases h with
      | empty => exact absurd rfl he
      | lit hn => exact hn

/-- `if not right: right = 255 ... int(right)` -/
theorem hi_iff (r : List Char) (n : Nat) :
    (if r = [] then some (255 : Int) else Py.pyInt 10 r) = some (n : Int) ↔ HiLit r n := by
  by_cases he : r = []
  · subst he
    simp only [if_true, Option.some.injEq]
    constructor
    · intro h
      have : n = 255 := by omega
      subst this; exact .empty
    · intro h
      cases h with
      | empty => rfl
      | lit hn => exact absurd rfl (natLit_ne_nil hn)
      | negzero hz => exact absurd rfl (negZero_ne_nil hz)
  · simp only [he, if_false]
    rw [pyInt_iff, intLit_nat_iff]
    constructor
    · rintro (h | ⟨h, rfl⟩)
      · exact .lit h
      · exact .negzero h
    · intro h
      cases h with
      | empty => exact absurd rfl he
      | lit hn => exact Or.inl hn
      | negzero hz => exact Or.inr ⟨hz, rfl⟩

/-! ### one element -/

theorem takeWhile_ne_app (c : Char) (l r : List Char) (hl : c ∉ l) :
    (l ++ c :: r).takeWhile (· != c) = l ∧ ((l ++ c :: r).dropWhile (· != c)).drop 1 = r := by
  induction l with
  | nil => simp
  | cons a t ih =>
    have ha : (a != c) = true := by
      have : a ≠ c := fun e => hl (e ▸ List.mem_cons_self ..)
      simpa using this
    have ih' := ih (fun h => hl (List.mem_cons_of_mem _ h))
    simp only [List.cons_append, List.takeWhile_cons, ha, if_true, List.dropWhile_cons, ih'.1, ih'.2, and_self]

theorem split_first (c : Char) (s : List Char) (h : c ∈ s) :
    s = s.takeWhile (· != c) ++ c :: (s.dropWhile (· != c)).drop 1 ∧ c ∉ s.takeWhile (· != c) := by
  induction s with
  | nil => cases h
  | cons a t ih =>
    by_cases ha : a = c
    · subst ha
      simp
    · have hne : (a != c) = true := by simpa using ha
      have ht : c ∈ t := by
        rcases List.mem_cons.1 h with e | e
        · exact absurd e.symm ha
        · exact e
      obtain ⟨e1, e2⟩ := ih ht
      simp only [List.takeWhile_cons, hne, if_true, List.dropWhile_cons, List.cons_append, List.mem_cons, not_or]
      exact ⟨by rw [← e1], fun e => ha e.symm, e2⟩

/-- the model's reading of one element = the grammar's -/
theorem elemBounds_iff (el : List Char) (lo hi : Nat) : elemBounds el = some (lo, hi) ↔ Element el lo hi := by
  constructor
  · intro h
    unfold elemBounds at h
    by_cases hm : '-' ∈ el
    · simp only [hm, if_true] at h
      obtain ⟨hel, hl⟩ := split_first '-' el hm
      generalize el.takeWhile (· != '-') = l at h hel hl
      generalize (el.dropWhile (· != '-')).drop 1 = r at h hel
      subst hel
      cases ha : (if l = [] then some (0 : Int) else Py.pyInt 10 l) with
      | none => simp [ha] at h
      | some a =>
        cases hb : (if r = [] then some (255 : Int) else Py.pyInt 10 r) with
        | none => simp [ha, hb] at h
        | some b =>
          simp only [ha, hb] at h
          split at h
          · rename_i hc
            simp only [Option.some.injEq, Prod.mk.injEq] at h
            obtain ⟨rfl, rfl⟩ := h
            obtain ⟨n, rfl⟩ := Int.eq_ofNat_of_zero_le hc.1
            obtain ⟨m, rfl⟩ := Int.eq_ofNat_of_zero_le (by omega : 0 ≤ b)
            simp only [Int.toNat_natCast]
            exact .range ((lo_iff l hl n).1 ha) ((hi_iff r m).1 hb) (by omega) (by omega)
          · cases h
    · simp only [hm, if_false] at h
      cases ha : Py.pyInt 10 el with
      | none => simp [ha] at h
      | some a =>
        simp only [ha] at h
        split at h
        · rename_i hc
          simp only [Option.some.injEq, Prod.mk.injEq] at h
          obtain ⟨rfl, rfl⟩ := h
          obtain ⟨n, rfl⟩ := Int.eq_ofNat_of_zero_le hc.1
          simp only [Int.toNat_natCast]
          exact .single ((pyInt_nat_iff el hm n).1 ha) (by omega)
        · cases h
  · intro h
    cases h with
    | single hn hle =>
      have hm : '-' ∉ el := fun hc => (natLit_chars hn _ hc).2 rfl
      have hp := (pyInt_nat_iff el hm lo).2 hn
      have hc : (0 : Int) ≤ (lo : Int) ∧ (lo : Int) ≤ 255 := by omega
      simp only [elemBounds, hm, if_false, hp, hc, and_self, if_true, Int.toNat_natCast]
    | @range l r a b hl hr hab hb =>
      have hlm : '-' ∉ l := by
        cases hl with
        | empty => simp
        | lit hn => exact fun hc => (natLit_chars hn _ hc).2 rfl
      have hm : '-' ∈ l ++ '-' :: r := by simp
      obtain ⟨e1, e2⟩ := takeWhile_ne_app '-' l r hlm
      have ha := (lo_iff l hlm lo).2 hl
      have hb' := (hi_iff r hi).2 hr
      have hc : (0 : Int) ≤ (lo : Int) ∧ (lo : Int) ≤ (hi : Int) ∧ (hi : Int) ≤ 255 := by omega
      simp only [elemBounds, hm, if_true, e1, e2, ha, hb', hc, and_self, Int.toNat_natCast]

/-! ### one octet list -/

theorem no_comma_of_elements (els : List (List Char)) (h : ∀ el ∈ els, ∃ lo hi, Element el lo hi) :
    ∀ el ∈ els, ',' ∉ el := by
  intro el hel hc
  obtain ⟨lo, hi, he⟩ := h el hel
  exact element_chars he _ hc (Or.inr (Or.inl rfl))

theorem octetWF_iff (tok : List Char) : OctetWF tok ↔ OctetList tok := by
  constructor
  · intro h
    refine ⟨tok.splitOn ',', List.splitOn_ne_nil ',' tok, (List.intercalate_splitOn ',').symm, ?_⟩
    intro el hel
    have := h el hel
    cases hb : elemBounds el with
    | none => rw [hb] at this; cases this
    | some p => exact ⟨p.1, p.2, (elemBounds_iff el p.1 p.2).1 hb⟩
  · rintro ⟨els, hne, rfl, h⟩
    intro el hel
    rw [List.splitOn_intercalate ',' (no_comma_of_elements els h) hne] at hel
    obtain ⟨lo, hi, he⟩ := h el hel
    rw [(elemBounds_iff el lo hi).2 he]; rfl

theorem octetDen_iff (tok : List Char) (hwf : OctetWF tok) (v : Nat) : OctetDen tok v ↔ OctetListDen tok v := by
  obtain ⟨els, hne, rfl, h⟩ := (octetWF_iff tok).1 hwf
  have hsp := List.splitOn_intercalate ',' (no_comma_of_elements els h) hne
  constructor
  · rintro ⟨el, hel, lo, hi, hb, hv⟩
    rw [hsp] at hel
    exact ⟨els, rfl, h, el, hel, lo, hi, (elemBounds_iff el lo hi).1 hb, hv⟩
  · rintro ⟨els', e, h', el, hel, lo, hi, he, hv⟩
    have hne' : els' ≠ [] := by intro e'; subst e'; cases hel
    have hsp' := List.splitOn_intercalate ',' (no_comma_of_elements els' h') hne'
    rw [← e, hsp] at hsp'
    subst hsp'
    exact ⟨el, by rw [hsp]; exact hel, lo, hi, (elemBounds_iff el lo hi).2 he, hv⟩

theorem mem_intercalate_comma (c : Char) : ∀ (els : List (List Char)), c ∈ [','].intercalate els →
    c = ',' ∨ ∃ el ∈ els, c ∈ el := by
  intro els
  induction els with
  | nil => intro hc; simp [List.intercalate] at hc
  | cons a r ih =>
    intro hc
    cases r with
    | nil =>
      simp only [List.intercalate, List.intersperse, List.flatten_cons, List.flatten_nil, List.append_nil] at hc
      exact Or.inr ⟨a, List.mem_cons_self .., hc⟩
    | cons b r' =>
      have : [','].intercalate (a :: b :: r') = a ++ ',' :: [','].intercalate (b :: r') := by
        simp [List.intercalate, List.intersperse]
      rw [this] at hc
      simp only [List.mem_append, List.mem_cons] at hc
      rcases hc with hc | hc | hc
      · exact Or.inr ⟨a, List.mem_cons_self .., hc⟩
      · exact Or.inl hc
      · rcases ih hc with e | ⟨el, hel, he⟩
        · exact Or.inl e
        · exact Or.inr ⟨el, List.mem_cons_of_mem _ hel, he⟩

theorem octetList_chars {tok : List Char} (h : OctetList tok) : ∀ c ∈ tok, c ≠ '.' ∧ c ≠ '/' ∧ c ≠ ':' := by
  obtain ⟨els, _, rfl, h⟩ := h
  intro c hc
  have key : ¬ Special c ∨ c = ',' := by
    rcases mem_intercalate_comma c els hc with e | ⟨el, hel, he⟩
    · exact Or.inr e
    · obtain ⟨lo, hi, hE⟩ := h el hel
      exact Or.inl (element_chars hE c he)
  rcases key with k | k
  · exact ⟨fun e => k (Or.inl e), fun e => k (Or.inr (Or.inr (Or.inl e))), fun e => k (Or.inr (Or.inr (Or.inr e)))⟩
  · subst k; decide

/-! ### the whole spec -/

theorem intercalate4 (t0 t1 t2 t3 : List Char) :
    ['.'].intercalate [t0, t1, t2, t3] = t0 ++ '.' :: (t1 ++ '.' :: (t2 ++ '.' :: t3)) := by
  simp [List.intercalate, List.intersperse]

theorem octetsSpec_chars {spec : List Char} (h : OctetsSpec spec) : '/' ∉ spec ∧ ':' ∉ spec := by
  obtain ⟨t0, t1, t2, t3, rfl, h0, h1, h2, h3⟩ := h
  rw [intercalate4]
  have c0 := octetList_chars h0; have c1 := octetList_chars h1
  have c2 := octetList_chars h2; have c3 := octetList_chars h3
  constructor <;> intro hc <;> simp only [List.mem_append, List.mem_cons] at hc <;>
    rcases hc with hc | hc | hc | hc | hc | hc | hc
  · exact (c0 _ hc).2.1 rfl
  · exact absurd hc (by decide)
  · exact (c1 _ hc).2.1 rfl
  · exact absurd hc (by decide)
  · exact (c2 _ hc).2.1 rfl
  · exact absurd hc (by decide)
  · exact (c3 _ hc).2.1 rfl
  · exact (c0 _ hc).2.2 rfl
  · exact absurd hc (by decide)
  · exact (c1 _ hc).2.2 rfl
  · exact absurd hc (by decide)
  · exact (c2 _ hc).2.2 rfl
  · exact absurd hc (by decide)
  · exact (c3 _ hc).2.2 rfl

theorem split_of_octetsSpec {t0 t1 t2 t3 : List Char} (h0 : OctetList t0) (h1 : OctetList t1) (h2 : OctetList t2)
    (h3 : OctetList t3) : (['.'].intercalate [t0, t1, t2, t3]).splitOn '.' = [t0, t1, t2, t3] := by
  apply List.splitOn_intercalate
  · intro l hl
    simp only [List.mem_cons, List.not_mem_nil, or_false] at hl
    rcases hl with rfl | rfl | rfl | rfl
    · exact fun hc => (octetList_chars h0 _ hc).1 rfl
    · exact fun hc => (octetList_chars h1 _ hc).1 rfl
    · exact fun hc => (octetList_chars h2 _ hc).1 rfl
    · exact fun hc => (octetList_chars h3 _ hc).1 rfl
  · simp

end NV.C17L.Grammar
