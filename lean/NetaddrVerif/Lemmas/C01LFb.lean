/-
Lemmas/C01LFb.lean — netaddr's fallback readers (`FbSocket.pton4`, `FbSocket.pton6`, modelled
line by line from fbsocket.py) accept exactly the strings the platform models (`Text4.pton4`,
`Text6.pton6`) accept, with the same values.  Core Lean only.
-/
import NetaddrVerif.Model.AddrParse
namespace NV.C01L
open NV NV.Text4

theorem any_not_isDec (t : List Char) : t.any (fun c => !isDec c) = !t.all isDec := by
  induction t with
  | nil => rfl
  | cons a r ih => simp [List.any_cons, List.all_cons, ih, Bool.not_and]

theorem any_not_isHexC (t : List Char) : t.any (fun c => !isHexC c) = !t.all isHexC := by
  induction t with
  | nil => rfl
  | cons a r ih => simp [List.any_cons, List.all_cons, ih, Bool.not_and]

/-- the two octet rules are the same rule -/
theorem fb_octet_eq (t : List Char) : FbSocket.octet t = Text4.octet t := by
  unfold FbSocket.octet Text4.octet
  rw [any_not_isDec]
  have hsh : (ofBase 10 t >>> 8 ≠ 0) ↔ ¬ (ofBase 10 t ≤ 255) := by rw [Nat.shiftRight_eq_div_pow]; omega
  simp only [hsh]
  generalize ofBase 10 t = o
  cases hall : t.all isDec <;> by_cases hlen1 : 1 ≤ t.length <;> by_cases hlen3 : t.length ≤ 3 <;>
    by_cases hz : t.head? = some '0' <;> by_cases h1 : t.length = 1 <;> by_cases ho : o ≤ 255 <;>
    simp [*] <;> omega

/-- `fbsocket._inet_pton_af_inet` = `socket.inet_pton(AF_INET, ·)` (models), all strings -/
theorem fb_pton4_eq (s : List Char) : FbSocket.pton4 s = Text4.pton4 s := by
  unfold FbSocket.pton4 Text4.pton4
  generalize s.splitOn '.' = toks
  match toks with
  | [] => simp
  | [_] => simp
  | [_, _] => simp
  | [_, _, _] => simp
  | [a, b, c, d] =>
    simp only [List.length_cons, List.length_nil, List.mapM_cons, List.mapM_nil, fb_octet_eq]
    cases Text4.octet a <;> cases Text4.octet b <;> cases Text4.octet c <;> cases Text4.octet d <;> simp <;> omega
  | _ :: _ :: _ :: _ :: _ :: _ => simp

theorem fb_front_eq (t0 t1 : List Char) (rest : List (List Char)) :
    (if (t0 :: t1 :: rest).head? == some [] then
      (if (t0 :: t1 :: rest).getD 1 ['x'] != [] then none else some ((t0 :: t1 :: rest).drop 1))
     else some (t0 :: t1 :: rest)) = Text6.trimFront (t0 :: t1 :: rest) := by
  cases t0 <;> cases t1 <;> simp [Text6.trimFront]

theorem fb_back_eq (toks : List (List Char)) :
    (if toks.getLast? == some [] then
      (if toks.length < 2 || toks.getD (toks.length - 2) ['x'] != [] then none else some toks.dropLast)
     else some toks) = Text6.trimBack toks := by
  unfold Text6.trimBack
  by_cases h : toks.getLast? == some []
  · simp only [h, if_true]
    have h' : toks.getLast? = some [] := by simpa using h
    obtain ⟨L, rfl⟩ := List.getLast?_eq_some_iff.mp h'
    rw [List.dropLast_concat]
    rcases List.eq_nil_or_concat L with hL | ⟨L', y, hL⟩
    · subst hL; simp
    · rw [List.concat_eq_append] at hL; subst hL
      have hlen : (L' ++ [y] ++ [[]]).length - 2 = L'.length := by simp
      have hget : (L' ++ [y] ++ [([] : List Char)]).getD L'.length ['x'] = y := by
        rw [List.getD_eq_getElem?_getD, List.append_assoc, List.getElem?_append_right (Nat.le_refl _)]
        simp
      have hl2 : ¬ ((L' ++ [y] ++ [([] : List Char)]).length < 2) := by simp
      rw [hlen, hget, List.getLast?_concat]
      cases y <;> simp
  · simp [h]

theorem count_nil_eq (toks : List (List Char)) : toks.count [] = (toks.filter List.isEmpty).length := by
  rw [List.count_eq_length_filter]
  congr 1
  apply List.filter_congr
  intro t _
  cases t <;> rfl

/-- the fallback token loop is the platform model's group loop -/
theorem tokenLoop_eq (n : Nat) (rest : List (List Char)) (idx : Nat) (ws : List Nat) (gap : Option Nat)
    (h : idx + rest.length = n) :
    FbSocket.tokenLoop n rest idx ws gap = Text6.groups rest ws gap := by
  induction rest generalizing idx ws gap with
  | nil => simp [FbSocket.tokenLoop, Text6.groups]
  | cons t r ih =>
    have hn : idx + 1 + r.length = n := by simp at h; omega
    unfold FbSocket.tokenLoop Text6.groups
    by_cases ht : t = []
    · subst ht; simp [ih (idx + 1) ws (some ws.length) hn]
    · have e1 : (t == ([] : List Char)) = false := beq_eq_false_iff_ne.mpr ht
      have e2 : t.isEmpty = false := by cases t with
        | nil => exact absurd rfl ht
        | cons _ _ => rfl
      simp only [e1, e2, Bool.false_eq_true, if_false]
      by_cases hdot : t.contains '.' = true
      · simp only [hdot, if_true, fb_pton4_eq]
        cases r with
        | nil =>
          have : idx = n - 1 := by simp at h; omega
          simp only [this, ne_eq, not_true_eq_false, if_false, List.isEmpty_nil, Bool.not_true, Bool.false_eq_true]
          cases Text4.pton4 t <;> simp [FbSocket.tokenLoop]
        | cons r0 r' =>
          have : idx ≠ n - 1 := by simp at h; omega
          simp [this]
      · have hdot' : t.contains '.' = false := by
          cases hh : t.contains '.' with
          | true => exact absurd hh hdot
          | false => rfl
        simp only [hdot', Bool.false_eq_true, if_false, any_not_isHexC, Text6.hextet]
        by_cases hl1 : 1 ≤ t.length <;> by_cases hl4 : t.length ≤ 4 <;> cases hall : t.all isHexC <;>
          simp [*, ih (idx + 1) _ gap hn]

/-- `fbsocket.inet_pton(AF_INET6, ·)` = `socket.inet_pton(AF_INET6, ·)` (models), all strings -/
theorem fb_pton6_eq (s : List Char) : FbSocket.pton6 s = Text6.pton6 s := by
  unfold FbSocket.pton6 Text6.pton6
  generalize s.splitOn ':' = toks
  by_cases h3 : toks.length < 3
  · simp [h3]
  · simp only [h3, if_false]
    match toks, h3 with
    | [], h => exact absurd (by simp) h
    | [_], h => exact absurd (by simp) h
    | t0 :: t1 :: rest, _ =>
      rw [fb_front_eq]
      cases Text6.trimFront (t0 :: t1 :: rest) with
      | none => rfl
      | some toks1 =>
        simp only []
        rw [fb_back_eq]
        cases Text6.trimBack toks1 with
        | none => rfl
        | some toks2 =>
          simp only []
          rw [count_nil_eq, tokenLoop_eq toks2.length toks2 0 [] none (by simp)]
          by_cases hc : (toks2.filter List.isEmpty).length > 1
          · simp [hc]
          · simp only [hc, if_false]
            cases Text6.groups toks2 [] none with
            | none => rfl
            | some r =>
              obtain ⟨ws, g⟩ := r
              cases g with
              | none => by_cases h8 : ws.length = 8 <;> simp [h8, Text6.ofWords]
              | some g => simp [Text6.ofWords]

end NV.C01L
