import NetaddrVerif.Model.Network
import NetaddrVerif.Lemmas.Bitwise
import NetaddrVerif.Lemmas.Masks
/-! Helper lemmas for the network model (C02 and its users). -/
namespace NV

theorem xor_allones (w v : Nat) (hv : v < 2 ^ w) : v ^^^ (2 ^ w - 1) = 2 ^ w - 1 - v := by
  have hw := pw w
  apply Nat.eq_of_testBit_eq
  intro i
  rw [Nat.testBit_xor, Nat.testBit_two_pow_sub_one]
  by_cases hi : i < w
  · simp [hi]
    have := Nat.testBit_two_pow_sub_succ hv i
    simp [hi] at this
    have e : 2 ^ w - (v + 1) = 2 ^ w - 1 - v := by omega
    rw [e] at this; rw [this]; simp
  · simp [hi]
    have h1 : v < 2 ^ i := Nat.lt_of_lt_of_le hv (Nat.pow_le_pow_right (by decide) (by omega))
    have h2 : 2 ^ w - 1 - v < 2 ^ i := by
      have : 2 ^ w ≤ 2 ^ i := Nat.pow_le_pow_right (by decide) (by omega)
      omega
    rw [Nat.testBit_lt_two_pow h1, Nat.testBit_lt_two_pow h2]

theorem tzAux_pow_mul (k j : Nat) : ∀ f, k < f → tzAux f (2 ^ k * (2 * j + 1)) = k := by
  induction k with
  | zero =>
    intro f hf
    obtain ⟨f', rfl⟩ : ∃ f', f = f' + 1 := ⟨f - 1, by omega⟩
    simp [tzAux]
  | succ k ih =>
    intro f hf
    obtain ⟨f', rfl⟩ : ∃ f', f = f' + 1 := ⟨f - 1, by omega⟩
    have hp := pw k
    have e : 2 ^ (k + 1) * (2 * j + 1) = 2 * (2 ^ k * (2 * j + 1)) := by rw [Nat.pow_succ]; ac_rfl
    have hpos : 0 < 2 ^ k * (2 * j + 1) := Nat.mul_pos hp (by omega)
    rw [e]
    unfold tzAux
    have hne : ¬ (2 * (2 ^ k * (2 * j + 1)) = 0) := by omega
    have h2 : ¬ (2 * (2 ^ k * (2 * j + 1)) % 2 = 1) := by omega
    simp only [hne, h2, ite_false]
    have h3 : 2 * (2 ^ k * (2 * j + 1)) / 2 = 2 ^ k * (2 * j + 1) := by omega
    rw [h3, ih f' (by omega)]; omega

theorem lt_two_pow_self' (k : Nat) : k < 2 ^ k := Nat.lt_two_pow_self

theorem trailingZeros_pow_mul (k j : Nat) : trailingZeros (2 ^ k * (2 * j + 1)) = k := by
  unfold trailingZeros
  apply tzAux_pow_mul
  have h1 := lt_two_pow_self' k
  have : 2 ^ k * 1 ≤ 2 ^ k * (2 * j + 1) := Nat.mul_le_mul_left _ (by omega)
  omega

theorem hostmaskInt_eq (w p : Nat) : hostmaskInt w p = 2 ^ (w - p) - 1 := by
  simp [hostmaskInt, Nat.shiftLeft_eq]

theorem pow_sub_le (w p : Nat) : 2 ^ (w - p) ≤ 2 ^ w := Nat.pow_le_pow_right (by decide) (by omega)

/-- `max_int ^ hostmask = 2^w - 2^(w-p)` -/
theorem netmaskInt_eq (w p : Nat) : netmaskInt w p = 2 ^ w - 2 ^ (w - p) := by
  have h1 := pw (w - p); have h2 := pow_sub_le w p
  unfold netmaskInt; rw [hostmaskInt_eq, Nat.xor_comm, xor_allones w _ (by omega)]; omega

theorem netFirst_eq (w v p : Nat) (hv : v < 2 ^ w) : netFirst w v p = v / 2 ^ (w - p) * 2 ^ (w - p) := by
  unfold netFirst; rw [hostmaskInt_eq]; exact and_netmask w (w - p) v hv (by omega)

theorem netLast_eq (w v p : Nat) : netLast w v p = v / 2 ^ (w - p) * 2 ^ (w - p) + (2 ^ (w - p) - 1) := by
  unfold netLast; rw [Nat.shiftLeft_eq, Nat.one_mul]; exact or_hostmask (w - p) v

theorem netNetwork_eq_first (w v p : Nat) : netNetwork w v p = netFirst w v p := rfl

/-- the block of width `2^(w-p)` around `v` stays below `2^w` -/
theorem block_lt (w v p : Nat) (hv : v < 2 ^ w) (hp : p ≤ w) :
    v / 2 ^ (w - p) * 2 ^ (w - p) + 2 ^ (w - p) ≤ 2 ^ w := by
  have e : 2 ^ w = 2 ^ p * 2 ^ (w - p) := by rw [← Nat.pow_add]; congr 1; omega
  have hB := pw (w - p)
  rw [e] at hv ⊢
  generalize 2 ^ (w - p) = B at *
  have hq : v / B < 2 ^ p := (Nat.div_lt_iff_lt_mul hB).2 hv
  calc v / B * B + B = (v / B + 1) * B := by rw [Nat.add_mul, Nat.one_mul]
    _ ≤ 2 ^ p * B := Nat.mul_le_mul_right B hq

end NV
