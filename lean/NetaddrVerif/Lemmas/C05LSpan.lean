import NetaddrVerif.Lemmas.C05LPart
/-! C05 helper lemmas, part 3: the widening loop of `spanning_cidr` returns the smallest
    aligned block that contains `lo` and `hi`. -/
namespace NV.C05L
open NV

/-- floor of `x` to a multiple of `2^k` -/
def fl (k x : Nat) : Nat := x / 2 ^ k * 2 ^ k

theorem fl_le (k x : Nat) : fl k x ≤ x := Nat.div_mul_le_self x (2 ^ k)

theorem fl_mod (k x : Nat) : fl k x % 2 ^ k = 0 := Nat.mul_mod_left _ _

theorem lt_fl_add (k x : Nat) : x < fl k x + 2 ^ k := by
  have := Nat.div_add_mod x (2 ^ k)
  have := Nat.mod_lt x (pp k)
  unfold fl
  rw [Nat.mul_comm]; omega

/-- flooring one bit finer lands on the block start or on its midpoint -/
theorem fl_half (k x : Nat) : fl k x = fl (k + 1) x ∨ fl k x = fl (k + 1) x + 2 ^ k := by
  unfold fl
  have e : x / 2 ^ (k + 1) = x / 2 ^ k / 2 := by
    rw [Nat.pow_succ, Nat.div_div_eq_div_mul]
  rw [e, Nat.pow_succ]
  generalize x / 2 ^ k = q
  generalize 2 ^ k = B
  have e2 : q / 2 * (B * 2) = 2 * (q / 2) * B := by
    rw [Nat.mul_comm B 2, ← Nat.mul_assoc, Nat.mul_comm (q / 2) 2]
  rw [e2]
  rcases Nat.mod_two_eq_zero_or_one q with h | h
  · left
    have : q = 2 * (q / 2) := by omega
    rw [← this]
  · right
    have : q = 2 * (q / 2) + 1 := by omega
    conv => lhs; rw [this]
    rw [Nat.add_mul, Nat.one_mul]

theorem spanLoop_spec (w lo hi : Nat) : ∀ (p ipnum : Nat), p ≤ w → ipnum = fl (w - p) hi →
    (∀ q, p < q → q ≤ w → lo < fl (w - q) hi) →
    (spanLoop w lo hi p ipnum).plen ≤ w ∧
    (spanLoop w lo hi p ipnum).val = fl (w - (spanLoop w lo hi p ipnum).plen) hi ∧
    ((spanLoop w lo hi p ipnum).plen = 0 ∨ (spanLoop w lo hi p ipnum).val ≤ lo) ∧
    (∀ q, (spanLoop w lo hi p ipnum).plen < q → q ≤ w → lo < fl (w - q) hi) := by
  intro p
  induction p with
  | zero =>
    intro ipnum _ hi' hq
    simp only [spanLoop]
    exact ⟨Nat.zero_le _, hi', Or.inl trivial, hq⟩
  | succ p ih =>
    intro ipnum hpw hi' hq
    simp only [spanLoop]
    by_cases hc : ipnum > lo
    · simp only [hc, if_true]
      apply ih _ (by omega) (by rw [shr_shl]; rfl)
      intro q h1 h2
      rcases Nat.lt_or_ge (p + 1) q with h | h
      · exact hq q h h2
      · have : q = p + 1 := by omega
        subst this; rw [← hi']; exact hc
    · simp only [hc, if_false]
      exact ⟨hpw, hi', Or.inr (by omega), hq⟩

/-- `spanning_cidr` over the two ends `lo ≤ hi < 2^w`: an aligned block inside the width that
    starts at or below `lo`, contains `hi`, and — unless it is a single address — has `lo` in its
    lower and `hi` in its upper half (it is the smallest such block) -/
theorem spanningOf_spec (w lo hi : Nat) (_hle : lo ≤ hi) (hhi : hi < 2 ^ w) :
    (spanningOf w lo hi).plen ≤ w ∧
    (spanningOf w lo hi).val % 2 ^ (w - (spanningOf w lo hi).plen) = 0 ∧
    (spanningOf w lo hi).val ≤ lo ∧
    hi < (spanningOf w lo hi).val + 2 ^ (w - (spanningOf w lo hi).plen) ∧
    (spanningOf w lo hi).val + 2 ^ (w - (spanningOf w lo hi).plen) ≤ 2 ^ w ∧
    ((spanningOf w lo hi).plen < w →
      lo < (spanningOf w lo hi).val + 2 ^ (w - ((spanningOf w lo hi).plen + 1)) ∧
      (spanningOf w lo hi).val + 2 ^ (w - ((spanningOf w lo hi).plen + 1)) ≤ hi) ∧
    (∀ q, (spanningOf w lo hi).plen < q → q ≤ w → lo < fl (w - q) hi) := by
  have h := spanLoop_spec w lo hi w hi (Nat.le_refl w) (by simp [fl]) (by intro q h1 h2; omega)
  unfold spanningOf
  generalize spanLoop w lo hi w hi = s at h
  obtain ⟨h1, h2, h3, h4⟩ := h
  refine ⟨h1, by rw [h2]; exact fl_mod _ _, ?_, by rw [h2]; exact lt_fl_add _ _, ?_, ?_, h4⟩
  · rcases h3 with h3 | h3
    · rw [h2, h3]
      simp only [fl, Nat.sub_zero]
      rw [Nat.div_eq_of_lt hhi]; simp
    · exact h3
  · rw [h2]; exact block_lt w hi s.plen hhi h1
  · intro hlt
    have hq := h4 (s.plen + 1) (by omega) (by omega)
    have e : w - s.plen = (w - (s.plen + 1)) + 1 := by omega
    have hv : s.val ≤ lo := by
      rcases h3 with h3 | h3
      · rw [h2, h3]; simp only [fl, Nat.sub_zero]; rw [Nat.div_eq_of_lt hhi]; simp
      · exact h3
    have hfl := fl_le (w - (s.plen + 1)) hi
    rw [h2, e]
    rcases fl_half (w - (s.plen + 1)) hi with hh | hh
    · rw [h2, e] at hv; omega
    · omega

end NV.C05L
