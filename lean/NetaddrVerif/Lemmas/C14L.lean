/-
Lemmas/C14L.lean — specification vocabulary and helper lemmas of property C14.
-/
import NetaddrVerif.Model.Address
import NetaddrVerif.Lemmas.Digits
import NetaddrVerif.Model.Network   -- for the `DecidableEq (Except ..)` instance used by the examples
namespace NV.C14
open NV NV.Address

/-- Specification of "exact and range-checked": the exact unbounded result `x` as an address
    of version `ver` when `0 ≤ x < 2^width`, otherwise the error `e`. -/
def checked (ver : Nat) (x : Int) (e : Err) : R Addr :=
  if 0 ≤ x ∧ x < ((2 ^ width ver : Nat) : Int) then .ok ⟨ver, x.toNat⟩ else .error e

/-- bit `i` of the infinite two's-complement expansion of an integer (`-(m+1) = ~m`) -/
def ibit (x : Int) (i : Nat) : Bool :=
  match x with
  | .ofNat n => n.testBit i
  | .negSucc m => !m.testBit i

theorem maxInt_cast (v : Nat) : ((maxInt v : Nat) : Int) = ((2 ^ width v : Nat) : Int) - 1 := by
  have := NV.two_pow_pos (width v)
  unfold maxInt; omega

/-- explicit-version constructor: exactly the ints in `0 .. 2^width-1` are accepted -/
theorem ctor_some (x : Int) (v : Nat) (hv : v = 4 ∨ v = 6) :
    ctor x (some v) = checked v x .addrFormat := by
  have hm := maxInt_cast v
  simp only [ctor, if_pos hv, checked]
  by_cases h : 0 ≤ x ∧ x < ((2 ^ width v : Nat) : Int)
  · rw [if_pos h, if_pos (by omega)]
  · rw [if_neg h, if_neg (by omega)]

theorem guardNew_spec (a : Addr) (nv : Int) (h : a.WF) :
    guardNew a nv = checked a.ver nv .index := by
  have hm := maxInt_cast a.ver
  unfold guardNew
  by_cases hr : 0 ≤ nv ∧ nv < ((2 ^ width a.ver : Nat) : Int)
  · rw [if_pos (by omega), ctor_some _ _ h.1]; unfold checked; rw [if_pos hr, if_pos hr]
  · rw [if_neg (by omega)]; unfold checked; rw [if_neg hr]

theorem guardInplace_spec (a : Addr) (nv : Int) :
    guardInplace a nv = checked a.ver nv .index := by
  have hm := maxInt_cast a.ver
  unfold guardInplace checked
  by_cases hr : 0 ≤ nv ∧ nv < ((2 ^ width a.ver : Nat) : Int)
  · rw [if_pos (by omega), if_pos hr]
  · rw [if_neg (by omega), if_neg hr]

theorem testBit_big (n k : Nat) : n.testBit (n + k) = false :=
  Nat.testBit_lt_two_pow (Nat.lt_of_lt_of_le Nat.lt_two_pow_self (Nat.pow_le_pow_right (by decide) (Nat.le_add_right n k)))

theorem ibit_inj (x y : Int) (h : ∀ i, ibit x i = ibit y i) : x = y := by
  cases x with
  | ofNat n =>
    cases y with
    | ofNat k => congr 1; exact Nat.eq_of_testBit_eq h
    | negSucc k =>
      have := h (n + k)
      simp only [ibit] at this
      rw [testBit_big n k, Nat.add_comm, testBit_big k n] at this
      simp at this
  | negSucc m =>
    cases y with
    | ofNat k =>
      have := h (m + k)
      simp only [ibit] at this
      rw [testBit_big m k, Nat.add_comm, testBit_big k m] at this
      simp at this
    | negSucc k =>
      congr 1
      apply Nat.eq_of_testBit_eq
      intro i
      have := h i
      simp only [ibit] at this
      cases hm : m.testBit i <;> cases hk : k.testBit i <;> simp_all

/-- `a & n` is a sub-mask of `a`, whatever the sign of `n` -/
theorem pyAnd_le (a : Nat) (n : Int) : ∃ k : Nat, pyAnd a n = (k : Int) ∧ k ≤ a := by
  cases n with
  | ofNat n => exact ⟨a &&& n, rfl, Nat.and_le_left⟩
  | negSucc m =>
    refine ⟨a ^^^ (a &&& m), rfl, ?_⟩
    have : a ^^^ (a &&& m) = a &&& (a ^^^ (a &&& m)) := by
      apply Nat.eq_of_testBit_eq
      intro i
      simp only [Nat.testBit_xor, Nat.testBit_and]
      cases a.testBit i <;> cases m.testBit i <;> rfl
    rw [this]; exact Nat.and_le_left

end NV.C14
