/-
Lemmas/C17LCidrGrammar.lean — the address part of an nmap CIDR spec as an explicit grammar, and
its equivalence with what `IPNetwork(addr '/' prefix)` (the C03 model, version=None,
implicit_prefix=False, flags=0) reads as an IPv4 network when the prefix is an int() literal.

    cidraddr ::= oct | oct '.' oct | oct '.' oct '.' oct | oct '.' oct '.' oct '.' oct
    oct      ::= intlit of a value 0..255        (missing octets are 0: "10/8" = 10.0.0.0/8)

A canonical dotted quad is the four-octet case with plain numerals; everything else is what
`expand_partial_address` (strategy/ipv4.py) lets through: one to four `int()` literals — blanks,
'+', leading zeros, underscores and "-0" included — joined by '.'.
-/
import NetaddrVerif.Props.C03
import NetaddrVerif.Lemmas.C17LPyLit
import NetaddrVerif.Lemmas.C17LGlob
namespace NV.C17L.Cidr
open NV NV.Text4 NV.AddrParse NV.NetParse NV.C01L NV.C03L NV.C17L.PyLit

/-- one octet of the address part -/
def Oct (t : List Char) (n : Nat) : Prop := IntLit t (n : Int) ∧ n ≤ 255

/-- the address part in front of the slash and the 32-bit value it denotes -/
inductive CidrAddr : List Char → Nat → Prop
  | one {t0 : List Char} {n0 : Nat} : Oct t0 n0 → CidrAddr t0 (n0 * 16777216)
  | two {t0 t1 : List Char} {n0 n1 : Nat} : Oct t0 n0 → Oct t1 n1 →
      CidrAddr (t0 ++ '.' :: t1) (n0 * 16777216 + n1 * 65536)
  | three {t0 t1 t2 : List Char} {n0 n1 n2 : Nat} : Oct t0 n0 → Oct t1 n1 → Oct t2 n2 →
      CidrAddr (t0 ++ '.' :: (t1 ++ '.' :: t2)) (n0 * 16777216 + n1 * 65536 + n2 * 256)
  | four {t0 t1 t2 t3 : List Char} {n0 n1 n2 n3 : Nat} : Oct t0 n0 → Oct t1 n1 → Oct t2 n2 → Oct t3 n3 →
      CidrAddr (t0 ++ '.' :: (t1 ++ '.' :: (t2 ++ '.' :: t3))) (n0 * 16777216 + n1 * 65536 + n2 * 256 + n3)

/-! ### small facts -/

theorem intLit_dec (n : Nat) : IntLit (dec n) (n : Int) := (pyInt_iff _ _).1 (C03L.pyInt_dec n)

theorem intLit_fun {s : List Char} {z z' : Int} (h : IntLit s z) (h' : IntLit s z') : z = z' := by
  have := (pyInt_iff s z).2 h
  rw [(pyInt_iff s z').2 h'] at this
  exact (Option.some.inj this).symm

theorem digit_tab : ∀ d, d < 10 → Char.ofNat (48 + d) ≠ '.' ∧ Char.ofNat (48 + d) ≠ ':' ∧ Char.ofNat (48 + d) ≠ '/' := by
  decide +kernel

theorem intLit_plain {s : List Char} {z : Int} (h : IntLit s z) : '.' ∉ s ∧ ':' ∉ s ∧ '/' ∉ s := by
  have key : ∀ c ∈ s, c ≠ '.' ∧ c ≠ ':' ∧ c ≠ '/' := by
    intro c hc
    rcases intLit_charset s z h c hc with e | e | e | e | ⟨d, hd, e⟩
    · rcases e with e | e | e | e | e | e <;> subst e <;> decide
    · subst e; decide
    · subst e; decide
    · subst e; decide
    · subst e; exact digit_tab d hd
  exact ⟨fun hc => (key _ hc).1 rfl, fun hc => (key _ hc).2.1 rfl, fun hc => (key _ hc).2.2 rfl⟩

theorem dot_not_in_showInt (i : Int) : '.' ∉ showInt i := by
  unfold showInt
  split
  · intro h
    rcases List.mem_cons.1 h with e | e
    · cases e
    · exact C03L.dot_not_in_dec _ e
  · exact C03L.dot_not_in_dec _

theorem showInt_eq_dec (i : Int) (o : Nat) (h : showInt i = dec o) : i = (o : Int) := by
  unfold showInt at h
  split at h
  · exfalso
    have : '-' ∈ dec o := by rw [← h]; exact List.mem_cons_self ..
    have := C03L.dec_decCh o _ this
    revert this; unfold C03L.DecCh; decide
  · rename_i hn
    have h1 := C03L.pyInt_dec i.toNat
    rw [h, C03L.pyInt_dec] at h1
    have := Option.some.inj h1
    omega

theorem ntoa_of (o0 o1 o2 o3 : Nat) (_h0 : o0 < 256) (h1 : o1 < 256) (h2 : o2 < 256) (h3 : o3 < 256) :
    ntoa (o0 * 16777216 + o1 * 65536 + o2 * 256 + o3) = ['.'].intercalate [dec o0, dec o1, dec o2, dec o3] := by
  rw [ntoa_eq]
  have e0 : (o0 * 16777216 + o1 * 65536 + o2 * 256 + o3) / 16777216 = o0 := by omega
  have e1 : (o0 * 16777216 + o1 * 65536 + o2 * 256 + o3) / 65536 % 256 = o1 := by omega
  have e2 : (o0 * 16777216 + o1 * 65536 + o2 * 256 + o3) / 256 % 256 = o2 := by omega
  have e3 : (o0 * 16777216 + o1 * 65536 + o2 * 256 + o3) % 256 = o3 := by omega
  rw [e0, e1, e2, e3]

/-- strict IPv4 parsing at the constructor, for a text without '/' -/
theorem ipAddress4_strict (be : Backend) (s : List Char) (hs : '/' ∉ s) :
    ipAddress be s (some 4) INET_PTON =
      match inetPton4 be s with
      | some v => .ok ⟨4, v⟩
      | none => .error .addrFormat := by
  have c : s.contains '/' = false := contains_false_of_not_mem hs
  have h4 : ¬ ((4 : Nat) ≠ 4 ∧ (4 : Nat) ≠ 6) := by decide
  have hpt : hasFlag INET_PTON INET_PTON = true := by decide
  have hzf : hasFlag INET_PTON ZEROFILL = false := by decide
  simp only [ipAddress, h4, if_false, c, Bool.false_eq_true, strToInt, if_true, strToInt4, hpt, hzf]
  cases inetPton4 be s <;> rfl

/-- the address computation of `parse_ip_network` for IPv4 -/
def ip4 (be : Backend) (a : List Char) : R Addr :=
  match ipAddress be a (some 4) INET_PTON with
  | .ok x => .ok x
  | .error .addrFormat =>
    match expandPartialAddress a with
    | .ok e => ipAddress be e (some 4) INET_PTON
    | .error e => .error e
  | .error e => .error e

theorem parseStrCore4 (be : Backend) (a t : List Char) (p : Nat) (ht : IntLit t (p : Int)) (hp : p ≤ 32) :
    parseStrCore be 4 a (some t) 0 =
      match ip4 be a with
      | .error e => .error e
      | .ok x => .ok (x.val, p) := by
  have hres : resolvePrefix be 4 (some t) = .ok (p : Int) := by
    simp [resolvePrefix, (pyInt_iff t _).2 ht]
  have hrange : ¬ ¬ (0 ≤ (p : Int) ∧ (p : Int) ≤ (width 4 : Int)) := by
    have : width 4 = 32 := rfl
    rw [this]; omega
  have hfl : hasFlag 0 NOHOST = false := by decide
  unfold parseStrCore ip4
  simp only [if_true]
  cases h1 : ipAddress be a (some 4) INET_PTON with
  | ok x => simp only [hres, hrange, if_false, applyNohost, hfl, Bool.false_eq_true, Int.toNat_natCast]
  | error e =>
    cases e with
    | addrFormat =>
      simp only
      cases h2 : expandPartialAddress a with
      | error e' => rfl
      | ok ex =>
        simp only
        cases h3 : ipAddress be ex (some 4) INET_PTON with
        | ok x => simp only [hres, hrange, if_false, applyNohost, hfl, Bool.false_eq_true, Int.toNat_natCast]
        | error e' => rfl
    | _ => rfl

/-! ### `expand_partial_address` on the token list -/

theorem splitOn_no_sep (c : Char) (s : List Char) (h : c ∉ s) : s.splitOn c = [s] := by
  have := List.splitOn_intercalate (ls := [s]) c (by intro l hl; simp only [List.mem_singleton] at hl; subst hl; exact h) (by simp)
  simpa [List.intercalate, List.intersperse] using this

/-- uniform form of `expand_partial_address` (the `'.' in addr` test only chooses between two
    spellings of the same token list) -/
theorem expand_eq (a : List Char) (hc : ':' ∉ a) :
    expandPartialAddress a =
      match (a.splitOn '.').mapM (fun o => (Py.pyInt 10 o).map showInt) with
      | none => .error .addrFormat
      | some tokens =>
        if 1 ≤ tokens.length ∧ tokens.length ≤ 4 then
          .ok (['.'].intercalate (tokens ++ List.replicate (4 - tokens.length) ['0']))
        else .error .addrFormat := by
  have c1 : a.contains ':' = false := contains_false_of_not_mem hc
  unfold expandPartialAddress
  simp only [c1, Bool.false_eq_true, if_false]
  by_cases hd : a.contains '.' = true
  · simp only [hd, if_true]
    cases List.mapM (fun o => Option.map showInt (Py.pyInt 10 o)) (List.splitOn '.' a) <;> rfl
  · have hd' : '.' ∉ a := fun h => hd (List.contains_iff_mem.2 h)
    simp only [hd, Bool.false_eq_true, if_false, splitOn_no_sep '.' a hd', NV.C17.mapM_opt_cons, NV.C17.mapM_opt_nil]
    cases Py.pyInt 10 a <;> rfl

/-! ### the grammar is what IPv4 network parsing accepts -/

theorem oct_plain {t : List Char} {n : Nat} (h : Oct t n) : '.' ∉ t ∧ ':' ∉ t ∧ '/' ∉ t := intLit_plain h.1

theorem icat1 (t0 : List Char) : ['.'].intercalate [t0] = t0 := by simp [List.intercalate, List.intersperse]
theorem icat2 (t0 t1 : List Char) : ['.'].intercalate [t0, t1] = t0 ++ '.' :: t1 := by
  simp [List.intercalate, List.intersperse]
theorem icat3 (t0 t1 t2 : List Char) : ['.'].intercalate [t0, t1, t2] = t0 ++ '.' :: (t1 ++ '.' :: t2) := by
  simp [List.intercalate, List.intersperse]
theorem icat4 (t0 t1 t2 t3 : List Char) :
    ['.'].intercalate [t0, t1, t2, t3] = t0 ++ '.' :: (t1 ++ '.' :: (t2 ++ '.' :: t3)) := by
  simp [List.intercalate, List.intersperse]

/-- a token list that reads as octets -/
inductive Octs : List (List Char) → List Nat → Prop
  | nil : Octs [] []
  | cons {t : List Char} {n : Nat} {ts : List (List Char)} {ns : List Nat} : Oct t n → Octs ts ns → Octs (t :: ts) (n :: ns)

theorem octs_nodot {ts : List (List Char)} {ns : List Nat} (h : Octs ts ns) : ∀ t ∈ ts, '.' ∉ t := by
  induction h with
  | nil => intro t ht; cases ht
  | cons ho _ ih =>
    intro t ht
    rcases List.mem_cons.1 ht with e | e
    · subst e; exact (oct_plain ho).1
    · exact ih t e

theorem octs_mapM {ts : List (List Char)} {ns : List Nat} (h : Octs ts ns) :
    ts.mapM (fun o => (Py.pyInt 10 o).map showInt) = some (ns.map dec) := by
  induction h with
  | nil => rfl
  | cons ho _ ih =>
    rw [NV.C17.mapM_opt_cons, (pyInt_iff _ _).2 ho.1, ih]
    simp [showInt_nat]

theorem octs_length {ts : List (List Char)} {ns : List Nat} (h : Octs ts ns) : ts.length = ns.length := by
  induction h with
  | nil => rfl
  | cons _ _ ih => simp [ih]

theorem octs_colon {ts : List (List Char)} {ns : List Nat} (h : Octs ts ns) : ':' ∉ ['.'].intercalate ts := by
  intro hc
  rcases C01L.mem_intercalate '.' ts ':' hc with e | ⟨t, ht, hx⟩
  · cases e
  · clear hc
    induction h with
    | nil => cases ht
    | cons ho _ ih =>
      rcases List.mem_cons.1 ht with e | e
      · subst e; exact (oct_plain ho).2.1 hx
      · exact ih e

theorem octs_noslash {ts : List (List Char)} {ns : List Nat} (h : Octs ts ns) : '/' ∉ ['.'].intercalate ts := by
  intro hc
  rcases C01L.mem_intercalate '.' ts '/' hc with e | ⟨t, ht, hx⟩
  · cases e
  · clear hc
    induction h with
    | nil => cases ht
    | cons ho _ ih =>
      rcases List.mem_cons.1 ht with e | e
      · subst e; exact (oct_plain ho).2.2 hx
      · exact ih e

/-- padded value of one to four octets -/
def quad : List Nat → Nat
  | [a] => a * 16777216
  | [a, b] => a * 16777216 + b * 65536
  | [a, b, c] => a * 16777216 + b * 65536 + c * 256
  | [a, b, c, d] => a * 16777216 + b * 65536 + c * 256 + d
  | _ => 0

theorem octs_bound {ts : List (List Char)} {ns : List Nat} (h : Octs ts ns) : ∀ n ∈ ns, n < 256 := by
  induction h with
  | nil => intro n hn; cases hn
  | cons ho _ ih =>
    intro n hn
    rcases List.mem_cons.1 hn with e | e
    · subst e; have := ho.2; omega
    · exact ih n e

theorem dec0 : dec 0 = ['0'] := by decide

/-- the padded, re-printed token list is the canonical text of the padded value -/
theorem padded_ntoa (ns : List Nat) (hb : ∀ n ∈ ns, n < 256) (h1 : 1 ≤ ns.length) (h4 : ns.length ≤ 4) :
    ['.'].intercalate (ns.map dec ++ List.replicate (4 - ns.length) ['0']) = ntoa (quad ns) ∧ quad ns < 2 ^ 32 := by
  match ns, h1, h4 with
  | [a], _, _ =>
    have := hb a (by simp)
    have e := ntoa_of a 0 0 0 this (by decide) (by decide) (by decide)
    simp only [Nat.zero_mul, Nat.add_zero] at e
    refine ⟨?_, by simp only [quad]; omega⟩
    simp only [quad, e, dec0]; rfl
  | [a, b], _, _ =>
    have := hb a (by simp); have := hb b (by simp)
    have e := ntoa_of a b 0 0 (by assumption) (by assumption) (by decide) (by decide)
    simp only [Nat.zero_mul, Nat.add_zero] at e
    refine ⟨?_, by simp only [quad]; omega⟩
    simp only [quad, e, dec0]; rfl
  | [a, b, c], _, _ =>
    have := hb a (by simp); have := hb b (by simp); have := hb c (by simp)
    have e := ntoa_of a b c 0 (by assumption) (by assumption) (by assumption) (by decide)
    simp only [Nat.add_zero] at e
    refine ⟨?_, by simp only [quad]; omega⟩
    simp only [quad, e, dec0]; rfl
  | [a, b, c, d], _, _ =>
    have := hb a (by simp); have := hb b (by simp); have := hb c (by simp); have := hb d (by simp)
    have e := ntoa_of a b c d (by assumption) (by assumption) (by assumption) (by assumption)
    refine ⟨?_, by simp only [quad]; omega⟩
    simp only [quad, e]; rfl

/-- one to four octet tokens: the IPv4 address computation of `parse_ip_network` yields the
    padded value -/
theorem ip4_of_octs (be : Backend) {ts : List (List Char)} {ns : List Nat} (h : Octs ts ns)
    (h1 : 1 ≤ ns.length) (h4 : ns.length ≤ 4) : ip4 be (['.'].intercalate ts) = .ok ⟨4, quad ns⟩ := by
  have hne : ts ≠ [] := by
    intro e; subst e; cases h; simp at h1
  have hsplit : (['.'].intercalate ts).splitOn '.' = ts := List.splitOn_intercalate '.' (octs_nodot h) hne
  have hslash : '/' ∉ ['.'].intercalate ts := octs_noslash h
  obtain ⟨hpad, hlt⟩ := padded_ntoa ns (octs_bound h) h1 h4
  have hexp : expandPartialAddress (['.'].intercalate ts) = .ok (ntoa (quad ns)) := by
    rw [expand_eq _ (octs_colon h), hsplit, octs_mapM h]
    have hl : 1 ≤ (ns.map dec).length ∧ (ns.map dec).length ≤ 4 := by simp; omega
    simp only [hl, and_self, if_true]
    rw [List.length_map, hpad]
  have hrt : ipAddress be (ntoa (quad ns)) (some 4) INET_PTON = .ok ⟨4, quad ns⟩ :=
    C03L.addr_rt be 4 (Or.inl rfl) (quad ns) hlt
  unfold ip4
  rw [ipAddress4_strict be _ hslash]
  cases hp : inetPton4 be (['.'].intercalate ts) with
  | none => simp only [hexp, hrt]
  | some v =>
    -- the text is already canonical: it is the canonical text of the same value
    simp only
    obtain ⟨hv, hs⟩ := (C01.strict4_iff be _ v).1 hp
    have hexp' := hexp
    rw [hs] at hexp'
    -- expand of a canonical text is itself
    have hcan : expandPartialAddress (ntoa v) = .ok (ntoa v) := by
      obtain ⟨b0, b1, b2, b3⟩ := octs_lt v hv
      have hO : Octs [dec (v / 16777216), dec (v / 65536 % 256), dec (v / 256 % 256), dec (v % 256)]
          [v / 16777216, v / 65536 % 256, v / 256 % 256, v % 256] :=
        .cons ⟨intLit_dec _, by omega⟩ (.cons ⟨intLit_dec _, by omega⟩ (.cons ⟨intLit_dec _, by omega⟩
          (.cons ⟨intLit_dec _, by omega⟩ .nil)))
      have hsp : (ntoa v).splitOn '.' = [dec (v / 16777216), dec (v / 65536 % 256), dec (v / 256 % 256), dec (v % 256)] := by
        rw [ntoa_eq]; exact List.splitOn_intercalate '.' (octs_nodot hO) (by simp)
      have hcol : ':' ∉ ntoa v := by rw [ntoa_eq]; exact octs_colon hO
      rw [expand_eq _ hcol, hsp, octs_mapM hO]
      simp only [List.map_cons, List.map_nil, List.length_cons, List.length_nil]
      simp only [show (1 ≤ 0 + 1 + 1 + 1 + 1 ∧ 0 + 1 + 1 + 1 + 1 ≤ 4) from by omega]
      rw [ntoa_eq]; rfl
    rw [hcan] at hexp'
    have : ntoa v = ntoa (quad ns) := Except.ok.inj hexp'
    have hv' : inetPton4 be (ntoa v) = some (quad ns) := by
      rw [this]; exact (C01.strict4_iff be _ _).2 ⟨hlt, rfl⟩
    rw [← hs, hp] at hv'
    cases hv'; rfl

theorem cidr1 {t0 : List Char} {n0 : Nat} (h0 : Oct t0 n0) : CidrAddr (['.'].intercalate [t0]) (quad [n0]) := by
  rw [icat1]; exact .one h0
theorem cidr2 {t0 t1 : List Char} {n0 n1 : Nat} (h0 : Oct t0 n0) (h1 : Oct t1 n1) :
    CidrAddr (['.'].intercalate [t0, t1]) (quad [n0, n1]) := by
  rw [icat2]; exact .two h0 h1
theorem cidr3 {t0 t1 t2 : List Char} {n0 n1 n2 : Nat} (h0 : Oct t0 n0) (h1 : Oct t1 n1) (h2 : Oct t2 n2) :
    CidrAddr (['.'].intercalate [t0, t1, t2]) (quad [n0, n1, n2]) := by
  rw [icat3]; exact .three h0 h1 h2
theorem cidr4 {t0 t1 t2 t3 : List Char} {n0 n1 n2 n3 : Nat} (h0 : Oct t0 n0) (h1 : Oct t1 n1) (h2 : Oct t2 n2)
    (h3 : Oct t3 n3) : CidrAddr (['.'].intercalate [t0, t1, t2, t3]) (quad [n0, n1, n2, n3]) := by
  rw [icat4]; exact .four h0 h1 h2 h3

theorem cidrAddr_octs {a : List Char} {v : Nat} (h : CidrAddr a v) :
    ∃ ts ns, Octs ts ns ∧ a = ['.'].intercalate ts ∧ 1 ≤ ns.length ∧ ns.length ≤ 4 ∧ v = quad ns := by
  cases h with
  | one h0 => exact ⟨[_], [_], .cons h0 .nil, (icat1 _).symm, by simp, by simp, rfl⟩
  | two h0 h1 => exact ⟨[_, _], [_, _], .cons h0 (.cons h1 .nil), (icat2 _ _).symm, by simp, by simp, rfl⟩
  | three h0 h1 h2 =>
    exact ⟨[_, _, _], [_, _, _], .cons h0 (.cons h1 (.cons h2 .nil)), (icat3 _ _ _).symm, by simp, by simp, rfl⟩
  | four h0 h1 h2 h3 =>
    exact ⟨[_, _, _, _], [_, _, _, _], .cons h0 (.cons h1 (.cons h2 (.cons h3 .nil))), (icat4 _ _ _ _).symm,
      by simp, by simp, rfl⟩

theorem quadv1 (v : Nat) (z1 : v / 65536 % 256 = 0) (z2 : v / 256 % 256 = 0) (z3 : v % 256 = 0) :
    v / 16777216 * 16777216 = v := by omega
theorem quadv2 (v : Nat) (z2 : v / 256 % 256 = 0) (z3 : v % 256 = 0) :
    v / 16777216 * 16777216 + v / 65536 % 256 * 65536 = v := by omega
theorem quadv3 (v : Nat) (z3 : v % 256 = 0) :
    v / 16777216 * 16777216 + v / 65536 % 256 * 65536 + v / 256 % 256 * 256 = v := by omega

/-- from a successful `mapM` of `int()` over a token list: the tokens are int() literals -/
theorem mapM_ints : ∀ (ts : List (List Char)) (out : List (List Char)),
    ts.mapM (fun o => (Py.pyInt 10 o).map showInt) = some out →
    ∃ is : List Int, out = is.map showInt ∧ ts.length = is.length ∧
      ∀ k (hk : k < ts.length) (hk' : k < is.length), IntLit (ts[k]) (is[k]) := by
  intro ts
  induction ts with
  | nil =>
    intro out h
    cases h
    exact ⟨[], rfl, rfl, fun k hk => absurd hk (by simp)⟩
  | cons t r ih =>
    intro out h
    rw [NV.C17.mapM_opt_cons] at h
    cases hp : Py.pyInt 10 t with
    | none => simp [hp] at h
    | some i =>
      simp only [hp, Option.map_some] at h
      cases hr : r.mapM (fun o => (Py.pyInt 10 o).map showInt) with
      | none => simp [hr] at h
      | some out' =>
        simp only [hr, Option.some.injEq] at h
        obtain ⟨is, e1, e2, e3⟩ := ih out' hr
        refine ⟨i :: is, by rw [← h, e1]; rfl, by simp [e2], ?_⟩
        intro k hk hk'
        cases k with
        | zero => exact (pyInt_iff t i).1 hp
        | succ k' => exact e3 k' (by simpa using hk) (by simpa using hk')

/-- the address computation succeeds only on the grammar -/
theorem ip4_ok (be : Backend) (a : List Char) (ha : '/' ∉ a) (x : Addr) (h : ip4 be a = .ok x) :
    x.ver = 4 ∧ CidrAddr a x.val := by
  unfold ip4 at h
  rw [ipAddress4_strict be a ha] at h
  cases hp : inetPton4 be a with
  | some v =>
    simp only [hp] at h
    cases h
    obtain ⟨hv, hs⟩ := (C01.strict4_iff be a v).1 hp
    obtain ⟨b0, b1, b2, b3⟩ := octs_lt v hv
    refine ⟨rfl, ?_⟩
    have hO4 : Oct (dec (v / 16777216)) (v / 16777216) ∧ Oct (dec (v / 65536 % 256)) (v / 65536 % 256) ∧
        Oct (dec (v / 256 % 256)) (v / 256 % 256) ∧ Oct (dec (v % 256)) (v % 256) :=
      ⟨⟨intLit_dec _, by omega⟩, ⟨intLit_dec _, by omega⟩, ⟨intLit_dec _, by omega⟩, ⟨intLit_dec _, by omega⟩⟩
    have := cidr4 hO4.1 hO4.2.1 hO4.2.2.1 hO4.2.2.2
    rw [← ntoa_eq, ← hs] at this
    have hq : quad [v / 16777216, v / 65536 % 256, v / 256 % 256, v % 256] = v := by
      simp only [quad]; omega
    rw [hq] at this
    exact this
  | none =>
    simp only [hp] at h
    cases hexp : expandPartialAddress a with
    | error e => simp [hexp] at h
    | ok ex =>
      simp only [hexp] at h
      have hcol : ':' ∉ a := by
        intro hc
        simp [expandPartialAddress, hc] at hexp
      rw [expand_eq a hcol] at hexp
      cases hm : (a.splitOn '.').mapM (fun o => (Py.pyInt 10 o).map showInt) with
      | none => simp [hm] at hexp
      | some out =>
        simp only [hm] at hexp
        split at hexp
        · rename_i hlen
          have hex := Except.ok.inj hexp
          obtain ⟨is, e1, e2, e3⟩ := mapM_ints _ _ hm
          -- the expanded text parses strictly: it is the canonical text of x
          have hexs : '/' ∉ ex := by
            intro hc
            have : ipAddress be ex (some 4) INET_PTON = .error .value := by
              simp [ipAddress, hc]
            rw [this] at h; cases h
          rw [ipAddress4_strict be ex hexs] at h
          cases hp' : inetPton4 be ex with
          | none => simp [hp'] at h
          | some v =>
            simp only [hp'] at h
            cases h
            obtain ⟨hv, hs⟩ := (C01.strict4_iff be ex v).1 hp'
            refine ⟨rfl, ?_⟩
            show CidrAddr a v
            -- compare the two token lists of `ex`
            have hnd : ∀ l ∈ out ++ List.replicate (4 - out.length) ['0'], '.' ∉ l := by
              intro l hl
              rcases List.mem_append.1 hl with hl | hl
              · rw [e1] at hl
                obtain ⟨i, _, rfl⟩ := List.mem_map.1 hl
                exact dot_not_in_showInt i
              · rw [List.mem_replicate] at hl
                rw [hl.2]; decide
            have hne : out ++ List.replicate (4 - out.length) ['0'] ≠ [] := by
              intro e
              have := congrArg List.length e
              rw [List.length_append, List.length_replicate, List.length_nil] at this
              omega
            have hsp1 : ex.splitOn '.' = out ++ List.replicate (4 - out.length) ['0'] := by
              rw [← hex]; exact List.splitOn_intercalate '.' hnd hne
            have hsp2 : ex.splitOn '.' = [dec (v / 16777216), dec (v / 65536 % 256), dec (v / 256 % 256), dec (v % 256)] := by
              rw [hs, ntoa_eq]
              apply List.splitOn_intercalate
              · intro l hl
                simp only [List.mem_cons, List.not_mem_nil, or_false] at hl
                rcases hl with rfl | rfl | rfl | rfl <;> exact C03L.dot_not_in_dec _
              · simp
            rw [hsp1, e1] at hsp2
            have hsplit : a = ['.'].intercalate (a.splitOn '.') := (List.intercalate_splitOn '.').symm
            obtain ⟨b0, b1, b2, b3⟩ := octs_lt v hv
            have hsum := octs_sum v
            have dz : ∀ o : Nat, ['0'] = dec o → o = 0 := by
              intro o h
              have := showInt_eq_dec 0 o (by rw [← h]; decide)
              omega
            rw [e1, List.length_map] at hlen
            generalize a.splitOn '.' = ts at hsplit e2 e3
            rw [hsplit]
            match is, ts, e2, e3, hlen, hsp2 with
            | [i0], [t0], _, e3, _, hsp2 =>
              simp only [List.map_cons, List.map_nil, List.length_cons, List.length_nil, List.replicate, List.cons_append,
                List.nil_append, List.cons.injEq, and_true] at hsp2
              obtain ⟨q0, q1, q2, q3⟩ := hsp2
              have r0 := showInt_eq_dec _ _ q0
              have l0 := e3 0 (by simp) (by simp)
              simp only [List.getElem_cons_zero] at l0
              rw [r0] at l0
              have z1 := dz _ q1; have z2 := dz _ q2; have z3 := dz _ q3
              have := cidr1 (n0 := v / 16777216) ⟨l0, by omega⟩
              have hq : quad [v / 16777216] = v := quadv1 v z1 z2 z3
              rw [hq] at this; exact this
            | [i0, i1], [t0, t1], _, e3, _, hsp2 =>
              simp only [List.map_cons, List.map_nil, List.length_cons, List.length_nil, List.replicate, List.cons_append,
                List.nil_append, List.cons.injEq, and_true] at hsp2
              obtain ⟨q0, q1, q2, q3⟩ := hsp2
              have r0 := showInt_eq_dec _ _ q0; have r1 := showInt_eq_dec _ _ q1
              have l0 := e3 0 (by simp) (by simp)
              have l1 := e3 1 (by simp) (by simp)
              simp only [List.getElem_cons_zero, List.getElem_cons_succ] at l0 l1
              rw [r0] at l0; rw [r1] at l1
              have z2 := dz _ q2; have z3 := dz _ q3
              have := cidr2 (n0 := v / 16777216) (n1 := v / 65536 % 256) ⟨l0, by omega⟩ ⟨l1, by omega⟩
              have hq : quad [v / 16777216, v / 65536 % 256] = v := quadv2 v z2 z3
              rw [hq] at this; exact this
            | [i0, i1, i2], [t0, t1, t2], _, e3, _, hsp2 =>
              simp only [List.map_cons, List.map_nil, List.length_cons, List.length_nil, List.replicate, List.cons_append,
                List.nil_append, List.cons.injEq, and_true] at hsp2
              obtain ⟨q0, q1, q2, q3⟩ := hsp2
              have r0 := showInt_eq_dec _ _ q0; have r1 := showInt_eq_dec _ _ q1; have r2 := showInt_eq_dec _ _ q2
              have l0 := e3 0 (by simp) (by simp)
              have l1 := e3 1 (by simp) (by simp)
              have l2 := e3 2 (by simp) (by simp)
              simp only [List.getElem_cons_zero, List.getElem_cons_succ] at l0 l1 l2
              rw [r0] at l0; rw [r1] at l1; rw [r2] at l2
              have z3 := dz _ q3
              have := cidr3 (n0 := v / 16777216) (n1 := v / 65536 % 256) (n2 := v / 256 % 256) ⟨l0, by omega⟩ ⟨l1, by omega⟩ ⟨l2, by omega⟩
              have hq : quad [v / 16777216, v / 65536 % 256, v / 256 % 256] = v := quadv3 v z3
              rw [hq] at this; exact this
            | [i0, i1, i2, i3], [t0, t1, t2, t3], _, e3, _, hsp2 =>
              simp only [List.map_cons, List.map_nil, List.length_cons, List.length_nil, List.replicate,
                List.cons.injEq, and_true, Nat.sub_self, List.append_nil] at hsp2
              obtain ⟨q0, q1, q2, q3⟩ := hsp2
              have r0 := showInt_eq_dec _ _ q0; have r1 := showInt_eq_dec _ _ q1
              have r2 := showInt_eq_dec _ _ q2; have r3 := showInt_eq_dec _ _ q3
              have l0 := e3 0 (by simp) (by simp)
              have l1 := e3 1 (by simp) (by simp)
              have l2 := e3 2 (by simp) (by simp)
              have l3 := e3 3 (by simp) (by simp)
              simp only [List.getElem_cons_zero, List.getElem_cons_succ] at l0 l1 l2 l3
              rw [r0] at l0; rw [r1] at l1; rw [r2] at l2; rw [r3] at l3
              have := cidr4 (n0 := v / 16777216) (n1 := v / 65536 % 256) (n2 := v / 256 % 256) (n3 := v % 256)
                ⟨l0, by omega⟩ ⟨l1, by omega⟩ ⟨l2, by omega⟩ ⟨l3, by omega⟩
              have hq : quad [v / 16777216, v / 65536 % 256, v / 256 % 256, v % 256] = v := by simp only [quad]; omega
              rw [hq] at this; exact this
        · cases hexp

theorem cidrAddr_noslash {a : List Char} {v : Nat} (h : CidrAddr a v) : '/' ∉ a := by
  obtain ⟨ts, ns, hO, rfl, _, _, _⟩ := cidrAddr_octs h
  exact octs_noslash hO

theorem cidrAddr_lt {a : List Char} {v : Nat} (h : CidrAddr a v) : v < 2 ^ 32 := by
  obtain ⟨ts, ns, hO, _, h1, h4, rfl⟩ := cidrAddr_octs h
  exact (padded_ntoa ns (octs_bound hO) h1 h4).2

/-- a canonical dotted quad is in the grammar, with its own value -/
theorem cidrAddr_ntoa (v : Nat) (hv : v < 2 ^ 32) : CidrAddr (ntoa v) v := by
  obtain ⟨b0, b1, b2, b3⟩ := octs_lt v hv
  have := cidr4 (t0 := dec (v / 16777216)) (t1 := dec (v / 65536 % 256)) (t2 := dec (v / 256 % 256)) (t3 := dec (v % 256))
    ⟨intLit_dec _, by omega⟩ ⟨intLit_dec _, by omega⟩ ⟨intLit_dec _, by omega⟩ ⟨intLit_dec _, by omega⟩
  rw [← ntoa_eq] at this
  have hq : quad [v / 16777216, v / 65536 % 256, v / 256 % 256, v % 256] = v := by simp only [quad]; omega
  rw [hq] at this
  exact this

/-- **The address part of a CIDR spec.**  With an `int()`-literal prefix `p ≤ 32` and no '/' in
    the address part, `IPNetwork(a '/' t)` is the IPv4 network `(v, p)` exactly when `a` is in the
    grammar `CidrAddr` with value `v`. -/
theorem cidr_net_iff (be : Backend) (a t : List Char) (p : Nat) (ha : '/' ∉ a) (ht : IntLit t (p : Int)) (hp : p ≤ 32)
    (net : Net) :
    (ipNetwork be (.str (a ++ '/' :: t)) false none 0 = .ok net ∧ net.ver = 4) ↔
      ∃ v, CidrAddr a v ∧ net = ⟨4, v, p⟩ := by
  have hsl : splitSlash (a ++ '/' :: t) = (a, some t) := splitSlash_app a t (contains_false_of_not_mem ha)
  have hss : secondSlash (some t) = false := contains_false_of_not_mem (intLit_plain ht).2.2
  have hparse : parseIpNetwork be 4 (.str (a ++ '/' :: t)) false 0 =
      match ip4 be a with
      | .error e => .error e
      | .ok x => .ok (x.val, p) := by
    unfold parseIpNetwork
    simp only [Bool.false_eq_true, if_false, hsl, hss]
    exact parseStrCore4 be a t p ht hp
  constructor
  · rintro ⟨h, hv⟩
    unfold ipNetwork at h
    simp only [hparse] at h
    cases hi : ip4 be a with
    | ok x =>
      simp only [hi] at h
      cases h
      obtain ⟨_, hc⟩ := ip4_ok be a ha x hi
      exact ⟨x.val, hc, rfl⟩
    | error e =>
      simp only [hi] at h
      cases e with
      | addrFormat =>
        simp only at h
        cases h6 : parseIpNetwork be 6 (.str (a ++ '/' :: t)) false 0 with
        | ok r => simp only [h6] at h; cases h; cases hv
        | error e' => simp [h6] at h
      | _ => cases h
  · rintro ⟨v, hc, rfl⟩
    obtain ⟨ts, ns, hO, rfl, h1, h4, rfl⟩ := cidrAddr_octs hc
    refine ⟨?_, rfl⟩
    unfold ipNetwork
    simp only [hparse, ip4_of_octs be hO h1 h4]

end NV.C17L.Cidr
