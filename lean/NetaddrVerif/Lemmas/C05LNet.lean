import NetaddrVerif.Lemmas.C05LTop
import NetaddrVerif.Lemmas.Minimal
/-! C05 helper lemmas, part 8: canonical `Net` lists are determined by their per-family denotation. -/
namespace NV.C05L
open NV Blk

/-- a result list in the form the property describes: ascending by (version, address),
    prefixes inside the width, and per family a canonical block list -/
structure NetCanon (l : List Net) : Prop where
  sorted : l.Pairwise NetLt
  wf : ∀ n ∈ l, n.plen ≤ width n.ver
  canon : ∀ u, Canon (famBlks u l)

theorem mem_famBlks (u : Nat) (l : List Net) (b : Blk) :
    b ∈ famBlks u l ↔ ∃ n ∈ l, n.ver = u ∧ b = ⟨n.val, width u - n.plen⟩ := by
  simp only [famBlks, List.mem_map, List.mem_filter, beq_iff_eq]
  constructor
  · rintro ⟨n, ⟨h1, h2⟩, rfl⟩; exact ⟨n, h1, h2, rfl⟩
  · rintro ⟨n, h1, h2, rfl⟩; exact ⟨n, ⟨h1, h2⟩, rfl⟩

theorem netlt_irrefl (n : Net) : ¬ NetLt n n := by unfold NetLt; omega
theorem netlt_asymm (m n : Net) : NetLt m n → ¬ NetLt n m := by unfold NetLt; omega

theorem netlt_sorted_ext : ∀ (l₁ l₂ : List Net), l₁.Pairwise NetLt → l₂.Pairwise NetLt →
    (∀ b, b ∈ l₁ ↔ b ∈ l₂) → l₁ = l₂
  | [], [], _, _, _ => rfl
  | [], y :: ys, _, _, h => by have := (h y).2 (by simp); simp at this
  | x :: xs, [], _, _, h => by have := (h x).1 (by simp); simp at this
  | x :: xs, y :: ys, h1, h2, h => by
    have hx := List.pairwise_cons.1 h1
    have hy := List.pairwise_cons.1 h2
    have hxy : x = y := by
      have a1 : x ∈ y :: ys := (h x).1 (by simp)
      have a2 : y ∈ x :: xs := (h y).2 (by simp)
      rcases List.mem_cons.1 a1 with e | e
      · exact e
      · rcases List.mem_cons.1 a2 with e' | e'
        · exact e'.symm
        · exact absurd (hy.1 x e) (netlt_asymm _ _ (hx.1 y e'))
    subst hxy
    congr 1
    apply netlt_sorted_ext xs ys hx.2 hy.2
    intro b
    constructor
    · intro hb
      rcases List.mem_cons.1 ((h b).1 (List.mem_cons_of_mem _ hb)) with e | e
      · have := hx.1 b hb; rw [e] at this; exact absurd this (netlt_irrefl _)
      · exact e
    · intro hb
      rcases List.mem_cons.1 ((h b).2 (List.mem_cons_of_mem _ hb)) with e | e
      · have := hy.1 b hb; rw [e] at this; exact absurd this (netlt_irrefl _)
      · exact e

theorem net_ext (l₁ l₂ : List Net) (h1 : NetCanon l₁) (h2 : NetCanon l₂)
    (hd : ∀ u a, den (famBlks u l₁) a ↔ den (famBlks u l₂) a) : l₁ = l₂ := by
  have hf : ∀ u, famBlks u l₁ = famBlks u l₂ := fun u => canon_unique _ _ (h1.canon u) (h2.canon u) (hd u)
  have key : ∀ (la lb : List Net), (∀ n ∈ la, n.plen ≤ width n.ver) → (∀ n ∈ lb, n.plen ≤ width n.ver) →
      (∀ u, famBlks u la = famBlks u lb) → ∀ n ∈ la, n ∈ lb := by
    intro la lb wa wb hf n hn
    have : (⟨n.val, width n.ver - n.plen⟩ : Blk) ∈ famBlks n.ver la := (mem_famBlks _ _ _).2 ⟨n, hn, rfl, rfl⟩
    rw [hf n.ver] at this
    obtain ⟨m, hm, hv, he⟩ := (mem_famBlks _ _ _).1 this
    have hmw := wb m hm
    have hnw := wa n hn
    have e1 : n.val = m.val := by injection he
    have e2 : width n.ver - n.plen = width n.ver - m.plen := by injection he
    rw [hv] at hmw
    have e3 : n.plen = m.plen := by omega
    have : n = m := by
      obtain ⟨a, b, c⟩ := n; obtain ⟨a', b', c'⟩ := m
      simp only at hv e1 e3; subst hv; subst e1; subst e3; rfl
    exact this ▸ hm
  apply netlt_sorted_ext l₁ l₂ h1.sorted h2.sorted
  intro n
  exact ⟨key l₁ l₂ h1.wf h2.wf hf n, key l₂ l₁ h2.wf h1.wf (fun u => (hf u).symm) n⟩

theorem toBlk_inj (w : Nat) : ∀ (l₁ l₂ : List Pfx), (∀ b ∈ l₁, b.plen ≤ w) → (∀ b ∈ l₂, b.plen ≤ w) →
    l₁.map (toBlk w) = l₂.map (toBlk w) → l₁ = l₂
  | [], [], _, _, _ => rfl
  | [], _ :: _, _, _, h => by simp at h
  | _ :: _, [], _, _, h => by simp at h
  | x :: xs, y :: ys, h1, h2, h => by
    simp only [List.map_cons, List.cons.injEq] at h
    have hx := h1 x (by simp); have hy := h2 y (by simp)
    have e1 : x.val = y.val := by have := h.1; simp only [toBlk] at this; injection this
    have e2 : w - x.plen = w - y.plen := by have := h.1; simp only [toBlk] at this; injection this
    have e3 : x.plen = y.plen := by omega
    have : x = y := by
      obtain ⟨a, b⟩ := x; obtain ⟨a', b'⟩ := y
      simp only at e1 e3; subst e1; subst e3; rfl
    rw [this, toBlk_inj w xs ys (fun b hb => h1 b (List.mem_cons_of_mem _ hb))
      (fun b hb => h2 b (List.mem_cons_of_mem _ hb)) h.2]

end NV.C05L
