/-
Lemmas/C19LAudit2.lean — C19, audit round 2 (finding 5): helper lemmas for `.info` of a block
(`Registry.queryObjD`) and for the `EUI.oui / .iab / .info` compositions.
-/
import NetaddrVerif.Lemmas.C19LLoad
namespace NV.C19L
open NV NV.Registry NV.Contains

/-! ## the block query: list view and dict view -/

/-- list view of one registry scan for any operand kind -/
def scanObj (ip : Obj) (t : List Rec) : List Rec := t.filter (fun r => withinBoundsObj ip r.key)

theorem scanObjD_eq (ip : Obj) (t : List Rec) : ∀ acc : Option (List Rec),
    scanObjD ip t acc = (if (scanObj ip t).isEmpty then acc
      else some (acc.getD [] ++ scanObj ip t)) := by
  induction t with
  | nil => intro acc; simp [scanObjD, scanObj]
  | cons r t ih =>
    intro acc
    simp only [scanObjD]
    by_cases h : withinBoundsObj ip r.key = true
    · simp only [h, ↓reduceIte]
      rw [ih]
      have e : scanObj ip (r :: t) = r :: scanObj ip t := by simp [scanObj, h]
      rw [e]
      by_cases h2 : (scanObj ip t).isEmpty = true
      · have : scanObj ip t = [] := List.isEmpty_iff.mp h2
        cases acc <;> simp [this]
      · cases acc <;> simp [h2]
    · have e : scanObj ip (r :: t) = scanObj ip t := by simp [scanObj, h]
      simp only [h, Bool.false_eq_true, ↓reduceIte]
      rw [ih, e]

theorem scanObjD_none (ip : Obj) (t : List Rec) : scanObjD ip t none = toEntry (scanObj ip t) := by
  rw [scanObjD_eq]; simp [toEntry]

/-- on an address operand `_within_bounds` is the address version -/
theorem withinBoundsObj_addr (a : Addr) (k : Key) : withinBoundsObj (.addr a) k = withinBounds a k := by
  cases k with
  | net n =>
    simp only [withinBoundsObj, withinBounds, netContains, Obj.ver]
    by_cases hv : n.ver = a.ver <;> simp [hv]
  | rng r =>
    simp only [withinBoundsObj, withinBounds, rngContains, Obj.ver]
    by_cases hv : r.ver = a.ver <;> simp [hv]
  | addr b => simp [withinBoundsObj, withinBounds]

theorem scanObjD_addr (a : Addr) (t : List Rec) : ∀ acc, scanObjD (.addr a) t acc = scanD a t acc := by
  induction t with
  | nil => intro acc; rfl
  | cons r t ih => intro acc; simp only [scanObjD, scanD, withinBoundsObj_addr, ih]

/-! ## small facts about the EUI shifts -/

theorem shr24_lt (v : Nat) (h : v < 2 ^ 48) : v >>> 24 ≤ 0xffffff := by
  rw [Nat.shiftRight_eq_div_pow]; omega

theorem shr40_lt (v : Nat) (h : v < 2 ^ 64) : v >>> 40 ≤ 0xffffff := by
  rw [Nat.shiftRight_eq_div_pow]; omega

end NV.C19L
