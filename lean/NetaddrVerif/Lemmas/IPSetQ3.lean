/-
Lemmas/IPSetQ3.lean — `iter_ipranges()`, `iscontiguous()`, `iprange()`, `size` of a canonical
IPSet state, in terms of the denoted addresses (C07).
-/
import NetaddrVerif.Lemmas.IPSetL9
import NetaddrVerif.Lemmas.IPSetQ2
namespace NV.IPSet
open NV NV.Blk

theorem mem_iterCidrs (s : St) (n : Net) : n ∈ iterCidrs s ↔ n ∈ s := (sortNets_perm s).mem_iff

/-- what `iter_cidrs()` hands to `_iter_merged_ranges`: valid tuples, ascending (IPv4 before
    IPv6), pairwise separated -/
theorem shown_sep (s : St) (hs : Inv s) :
    (∀ r ∈ (iterCidrs s).map vrOf, r.2.1 ≤ r.2.2) ∧ ((iterCidrs s).map vrOf).Pairwise SepR := by
  constructor
  · intro r hr
    obtain ⟨n, hn, rfl⟩ := List.mem_map.1 hr
    exact first_le_last n (hs.good n ((mem_iterCidrs s n).1 hn)).1
  · rw [List.pairwise_map]
    have hc := canon_shown s hs
    have hsorted := List.pairwise_map.1 hc.sorted
    refine List.Pairwise.imp_of_mem ?_ hsorted
    intro a b ha hb hlt
    have haw := (hs.good a ((mem_iterCidrs s a).1 ha)).1
    have hbw := (hs.good b ((mem_iterCidrs s b).1 hb)).1
    have h1 := first_lt_128 a haw; have h2 := first_lt_128 b hbw
    have h3 := first_le_last a haw; have h4 := first_le_last b hbw
    have hp := p129
    have hlt' : off a.ver + a.first < off b.ver + b.first := hlt
    show a.ver < b.ver ∨ (a.ver = b.ver ∧ a.last < b.first)
    by_cases hv : a.ver = b.ver
    · refine Or.inr ⟨hv, ?_⟩
      rw [hv] at hlt'
      have hne : lin a ≠ lin b := fun e => by rw [e] at hlt; exact Nat.lt_irrefl _ hlt
      have hd := hc.dj (lin a) (List.mem_map.2 ⟨a, ha, rfl⟩) (lin b) (List.mem_map.2 ⟨b, hb, rfl⟩) hne
      apply Classical.byContradiction
      intro hn
      apply hd (off b.ver + b.first)
      rw [lin_mem a haw, lin_mem b hbw, hv]
      omega
    · refine Or.inl ?_
      unfold off at hlt'
      rcases haw.1 with x | x <;> rcases hbw.1 with y | y <;> simp [x, y] at hlt' hv ⊢ <;> omega

theorem denVR_shown (s : St) (ver a : Nat) : denVR ((iterCidrs s).map vrOf) ver a ↔ denS s ver a := by
  unfold denVR denS
  constructor
  · rintro ⟨r, hr, h⟩
    obtain ⟨n, hn, rfl⟩ := List.mem_map.1 hr
    exact ⟨n, (mem_iterCidrs s n).1 hn, h⟩
  · rintro ⟨n, hn, h⟩
    exact ⟨vrOf n, List.mem_map.2 ⟨n, (mem_iterCidrs s n).2 hn, rfl⟩, h⟩

/-- `iter_ipranges()` is the interval normal form of the set -/
theorem iterIpranges_spec (s : St) (hs : Inv s) :
    (∀ r ∈ iterIpranges s, r.2.1 ≤ r.2.2) ∧ (iterIpranges s).Pairwise GapR_q ∧
    (∀ ver a, denVR (iterIpranges s) ver a ↔ denS s ver a) := by
  obtain ⟨h1, h2⟩ := shown_sep s hs
  obtain ⟨i1, i2, i3, _⟩ := mergedRanges_normal _ h1 h2
  exact ⟨i1, i2, fun ver a => (i3 ver a).trans (denVR_shown s ver a)⟩

/-- every emitted range belongs to a real family -/
theorem iterIpranges_ver (s : St) (hs : Inv s) (r : VR) (hr : r ∈ iterIpranges s) : r.1 = 4 ∨ r.1 = 6 := by
  obtain ⟨i1, _, i3⟩ := iterIpranges_spec s hs
  obtain ⟨n, hn, hv, _⟩ := (i3 r.1 r.2.1).1 ⟨r, hr, rfl, Nat.le_refl _, i1 r hr⟩
  exact hv ▸ (hs.good n hn).1.1

theorem iterIpranges_unique (s t : St) (hs : Inv s) (ht : Inv t)
    (h : ∀ ver a, denS s ver a ↔ denS t ver a) : iterIpranges s = iterIpranges t := by
  unfold iterIpranges; rw [shown_unique s t hs ht h]

/-! ### size -/

theorem size_eq_sum (s : St) : size s = vrSum (s.map vrOf) := by
  unfold size
  induction s with
  | nil => rfl
  | cons n s ih =>
    simp only [List.map_cons, List.sum_cons, vrSum, ih]
    rfl

theorem size_shown (s : St) : size (iterCidrs s) = size s := by
  unfold size
  exact ((sortNets_perm s).map _).sum_nat

/-- `size` adds up the lengths of the merged ranges -/
theorem size_eq_ranges (s : St) (hs : Inv s) : size s = vrSum (iterIpranges s) := by
  obtain ⟨h1, h2⟩ := shown_sep s hs
  obtain ⟨_, _, _, i4⟩ := mergedRanges_normal _ h1 h2
  unfold iterIpranges
  rw [i4, ← size_eq_sum, size_shown]

theorem size_unique (s t : St) (hs : Inv s) (ht : Inv t)
    (h : ∀ ver a, denS s ver a ↔ denS t ver a) : size s = size t := by
  rw [← size_shown s, ← size_shown t, shown_unique s t hs ht h]

theorem len_spec (maxint : Nat) (s : St) :
    (len maxint s = .error .index ↔ size s > maxint) ∧
    (¬ size s > maxint → len maxint s = .ok (size s)) ∧
    (len maxint s = .error .index ∨ len maxint s = .ok (size s)) := by
  unfold len
  by_cases h : size s > maxint
  · simp [h]
  · simp [h]

/-! ### iscontiguous / iprange -/

/-- the `[]` / `[_]` special cases of `iscontiguous` agree with the general loop -/
theorem iscontiguous_eq (s : St) :
    iscontiguous s = match iterCidrs s with
      | [] => true
      | c :: rest => contigAux (c.ver, c.last + 1) rest := by
  unfold iscontiguous
  cases iterCidrs s with
  | nil => rfl
  | cons c rest =>
    cases rest with
    | nil => simp [contigAux]
    | cons d r => simp [contigAux]

theorem contigAux_cons (p : Nat × Nat) (c : Net) (rest : List Net) :
    contigAux p (c :: rest) = if c.ver = p.1 ∧ c.first = p.2 then contigAux (c.ver, c.last + 1) rest else false := by
  rw [contigAux]
  obtain ⟨p1, p2⟩ := p
  by_cases h : c.ver = p1 ∧ c.first = p2
  · simp [h]
  · rw [if_neg h]
    simp only [bne_iff_ne, ne_eq, Prod.mk.injEq, ite_eq_left_iff, Decidable.not_not]
    intro h'; exact absurd h' h

/-- the loop of `iscontiguous` succeeds exactly when `_iter_merged_ranges` merges everything -/
theorem contig_iff_len (rest : List Net) : ∀ (cv cs ce : Nat),
    contigAux (cv, ce + 1) rest = true ↔ (mergedRangesAux (cv, cs, ce) (rest.map vrOf)).length ≤ 1 := by
  induction rest with
  | nil => intro cv cs ce; simp [contigAux, mergedRangesAux_nil_q]
  | cons n rest ih =>
    intro cv cs ce
    rw [contigAux_cons, List.map_cons]
    show _ ↔ (mergedRangesAux (cv, cs, ce) ((n.ver, n.first, n.last) :: rest.map vrOf)).length ≤ 1
    rw [mergedRangesAux_cons_q]
    by_cases h : n.ver = cv ∧ n.first = ce + 1
    · rw [if_pos h, if_pos ⟨h.2, h.1⟩, h.1]
      exact ih cv cs n.last
    · rw [if_neg h, if_neg (fun h' => h ⟨h'.2, h'.1⟩)]
      have := mergedRangesAux_ne_nil (n.ver, n.first, n.last) (rest.map vrOf)
      cases hm : mergedRangesAux (n.ver, n.first, n.last) (rest.map vrOf) with
      | nil => exact absurd hm this
      | cons x t => simp

/-- when everything merges, the single range runs from the first start to the last end -/
theorem contig_merged (rest : List Net) : ∀ (c : Net) (cs : Nat),
    contigAux (c.ver, c.last + 1) rest = true →
    mergedRangesAux (c.ver, cs, c.last) (rest.map vrOf) = [(c.ver, cs, ((c :: rest).getLast?.getD c).last)] := by
  induction rest with
  | nil => intro c cs _; simp [mergedRangesAux_nil_q]
  | cons n rest ih =>
    intro c cs h
    rw [contigAux_cons] at h
    by_cases h' : n.ver = c.ver ∧ n.first = c.last + 1
    · rw [if_pos h'] at h
      rw [List.map_cons]
      show mergedRangesAux (c.ver, cs, c.last) ((n.ver, n.first, n.last) :: rest.map vrOf) = _
      rw [mergedRangesAux_cons_q, if_pos ⟨h'.2, h'.1⟩, ← h'.1, ih n cs h, List.getLast?_cons_cons]
      cases hl : (n :: rest).getLast? with
      | none => simp at hl
      | some x => simp
    · rw [if_neg h'] at h; exact absurd h (by simp)

/-- `iscontiguous()` is True exactly when `iter_ipranges()` yields at most one range -/
theorem iscontiguous_iff_len (s : St) : iscontiguous s = true ↔ (iterIpranges s).length ≤ 1 := by
  rw [iscontiguous_eq]
  unfold iterIpranges
  cases iterCidrs s with
  | nil => simp [mergedRanges]
  | cons c rest => exact contig_iff_len rest c.ver c.first c.last

/-- `iprange()` read off `iter_ipranges()` -/
theorem iprange_eq (s : St) :
    iprange s = match iterIpranges s with
      | [] => .ok none
      | [r] => .ok (some ⟨r.1, r.2.1, r.2.2⟩)
      | _ :: _ :: _ => .error .value := by
  unfold iprange
  by_cases hc : iscontiguous s = true
  · rw [if_pos hc]
    have hlen := (iscontiguous_iff_len s).1 hc
    rw [iscontiguous_eq] at hc
    unfold iterIpranges at hlen ⊢
    cases hi : iterCidrs s with
    | nil => simp [mergedRanges]
    | cons c rest =>
      rw [hi] at hc
      simp only [List.map_cons, mergedRanges]
      show _ = match mergedRangesAux (c.ver, c.first, c.last) (rest.map vrOf) with
        | [] => _ | [r] => _ | _ :: _ :: _ => _
      rw [contig_merged rest c c.first hc]
  · rw [if_neg hc]
    have hlen : ¬ (iterIpranges s).length ≤ 1 := fun h => hc ((iscontiguous_iff_len s).2 h)
    cases hi : iterIpranges s with
    | nil => rw [hi] at hlen; simp at hlen
    | cons r t =>
      cases t with
      | nil => rw [hi] at hlen; simp at hlen
      | cons r' t' => rfl

end NV.IPSet
