/-
Lemmas/InterL.lean — the blocks emitted by the intersection sweep form a canonical set.
-/
import NetaddrVerif.Lemmas.Inter
import NetaddrVerif.Lemmas.CanonSetL
namespace NV
open Blk

theorem sub_k_le' (b c : Blk) (h : b.sub c) : b.k ≤ c.k := by
  have h1 := h b.base (mem_base b)
  have hp := pow_pos' b.k
  have h2 := h (b.base + 2 ^ b.k - 1) ⟨by omega, by omega⟩
  rcases Nat.lt_or_ge c.k b.k with hlt | hge
  · have : 2 ^ c.k < 2 ^ b.k := Nat.pow_lt_pow_right (by decide) hlt
    unfold mem at h1 h2; omega
  · exact hge

/-- every block emitted by the sweep is a member of one list lying inside a member of the other -/
theorem inter_mem_sub : ∀ (A B : List Blk) (x : Blk), x ∈ inter A B →
    (x ∈ A ∧ ∃ b ∈ B, x.sub b) ∨ (x ∈ B ∧ ∃ a ∈ A, x.sub a) := by
  intro A B
  fun_induction inter A B with
  | case1 B => intro x h; simp at h
  | case2 a as => intro x h; simp at h
  | case3 a as bs ih =>
    intro x h
    rcases List.mem_cons.1 h with e | e
    · subst e; exact Or.inl ⟨by simp, x, by simp, fun _ h => h⟩
    · rcases ih x e with ⟨h1, b, hb, hs⟩ | ⟨h1, a', ha, hs⟩
      · exact Or.inl ⟨List.mem_cons_of_mem _ h1, b, List.mem_cons_of_mem _ hb, hs⟩
      · exact Or.inr ⟨List.mem_cons_of_mem _ h1, a', List.mem_cons_of_mem _ ha, hs⟩
  | case4 a as b bs hab hsub ih =>
    intro x h
    rcases List.mem_cons.1 h with e | e
    · subst e; exact Or.inl ⟨by simp, b, by simp, (subB_iff x b).1 hsub⟩
    · rcases ih x e with ⟨h1, b', hb, hs⟩ | ⟨h1, a', ha, hs⟩
      · exact Or.inl ⟨List.mem_cons_of_mem _ h1, b', hb, hs⟩
      · exact Or.inr ⟨h1, a', List.mem_cons_of_mem _ ha, hs⟩
  | case5 a as b bs hab hnsub hsub ih =>
    intro x h
    rcases List.mem_cons.1 h with e | e
    · subst e; exact Or.inr ⟨by simp, a, by simp, (subB_iff x a).1 hsub⟩
    · rcases ih x e with ⟨h1, b', hb, hs⟩ | ⟨h1, a', ha, hs⟩
      · exact Or.inl ⟨h1, b', List.mem_cons_of_mem _ hb, hs⟩
      · exact Or.inr ⟨List.mem_cons_of_mem _ h1, a', ha, hs⟩
  | case6 a as b bs hab hn1 hn2 hlt ih =>
    intro x h
    rcases ih x h with ⟨h1, b', hb, hs⟩ | ⟨h1, a', ha, hs⟩
    · exact Or.inl ⟨List.mem_cons_of_mem _ h1, b', hb, hs⟩
    · exact Or.inr ⟨h1, a', List.mem_cons_of_mem _ ha, hs⟩
  | case7 a as b bs hab hn1 hn2 hnlt ih =>
    intro x h
    rcases ih x h with ⟨h1, b', hb, hs⟩ | ⟨h1, a', ha, hs⟩
    · exact Or.inl ⟨h1, b', List.mem_cons_of_mem _ hb, hs⟩
    · exact Or.inr ⟨List.mem_cons_of_mem _ h1, a', ha, hs⟩

theorem sub_antisymm (b c : Blk) (hb : b.aligned) (hc : c.aligned) (h1 : b.sub c) (h2 : c.sub b) : b = c :=
  eq_of_share b c hb hc (Nat.le_antisymm (sub_k_le' b c h1) (sub_k_le' c b h2)) b.base (mem_base b) (h1 _ (mem_base b))

/-- two sets A, B canonical: any collection of blocks, each a member of one lying inside a
    member of the other, is again canonical -/
theorem canonset_of_mutual (A B R : List Blk) (hA : CanonSet A) (hB : CanonSet B)
    (hR : ∀ x ∈ R, (x ∈ A ∧ ∃ b ∈ B, x.sub b) ∨ (x ∈ B ∧ ∃ a ∈ A, x.sub a)) : CanonSet R := by
  have hal : ∀ x ∈ R, x.aligned := by
    intro x hx
    rcases hR x hx with ⟨h, _⟩ | ⟨h, _⟩
    · exact hA.al x h
    · exact hB.al x h
  -- key fact: a result from A that meets a result from B … (symmetric helper)
  have cross : ∀ (A B : List Blk), CanonSet A → CanonSet B → ∀ r1 r2 : Blk, r1 ∈ A → r2 ∈ B →
      (∃ a ∈ A, r2.sub a) → ∀ x, r1.mem x → r2.mem x → r2.sub r1 := by
    intro A B hA hB r1 r2 h1 h2 ⟨a, ha, hs⟩ x hx1 hx2
    have : a = r1 := by
      apply Classical.byContradiction
      intro hne
      exact hA.dj a ha r1 h1 hne x ⟨hs x hx2, hx1⟩
    exact this ▸ hs
  refine ⟨hal, ?_, ?_⟩
  · intro r1 h1 r2 h2 hne x ⟨hx1, hx2⟩
    rcases hR r1 h1 with ⟨o1, c1⟩ | ⟨o1, c1⟩ <;> rcases hR r2 h2 with ⟨o2, c2⟩ | ⟨o2, c2⟩
    · exact hA.dj r1 o1 r2 o2 hne x ⟨hx1, hx2⟩
    · -- r1 ∈ A, r2 ∈ B
      have s21 := cross A B hA hB r1 r2 o1 o2 c2 x hx1 hx2
      have s12 := cross B A hB hA r2 r1 o2 o1 c1 x hx2 hx1
      exact hne (sub_antisymm r1 r2 (hal r1 h1) (hal r2 h2) s12 s21)
    · have s12 := cross A B hA hB r2 r1 o2 o1 c1 x hx2 hx1
      have s21 := cross B A hB hA r1 r2 o1 o2 c2 x hx1 hx2
      exact hne (sub_antisymm r1 r2 (hal r1 h1) (hal r2 h2) s12 s21)
    · exact hB.dj r1 o1 r2 o2 hne x ⟨hx1, hx2⟩
  · intro r1 h1 r2 h2 hsib
    -- siblings are disjoint halves of one parent
    have mixed : ∀ (A B : List Blk), CanonSet A → CanonSet B → ∀ r1 r2 : Blk, r1 ∈ A → r2 ∈ B →
        (r1.sib r2 ∨ r2.sib r1) → (∃ a ∈ A, r2.sub a) → False := by
      intro A B hA hB r1 r2 o1 o2 hs ⟨a, ha, hsub⟩
      have hr1 := hA.al r1 o1; have hr2 := hB.al r2 o2
      obtain ⟨hsa, hsk, hsibs, hpar, hbs⟩ := sibling_spec r2 hr2
      -- r1 is the sibling of r2
      have hk : r1.k = r2.k := by rcases hs with h | h; exact h.1; exact h.1.symm
      have hr1par : r2.parent.mem r1.base := by
        rcases hs with ⟨e1, e2, e3⟩ | ⟨e1, e2, e3⟩
        · -- r1 lower, r2 upper: parent of r2 = parent of r1 starts at r1.base
          have hp2 : r2.parent.mem r2.base := sub_parent r2 hr2 _ (mem_base r2)
          have hp1 : r1.parent.base = r1.base := by
            simp only [parent]
            have := Nat.div_add_mod r1.base (2 ^ (r1.k + 1))
            rw [e2] at this; rw [Nat.mul_comm]; omega
          have hm : r1.parent.mem r2.base := by
            simp only [mem, hp1]
            show r1.base ≤ r2.base ∧ r2.base < r1.base + 2 ^ (r1.k + 1)
            rw [pow_succ2]; have := pow_pos' r1.k; omega
          have hkk : r2.parent.k = r1.parent.k := by simp [parent]; exact e1.symm
          have := eq_of_share r2.parent r1.parent (parent_aligned r2) (parent_aligned r1) hkk r2.base hp2 hm
          rw [this]; exact sub_parent r1 hr1 _ (mem_base r1)
        · -- r2 lower, r1 upper
          have hp2 : r2.parent.base = r2.base := by
            simp only [parent]
            have := Nat.div_add_mod r2.base (2 ^ (r2.k + 1))
            rw [e2] at this; rw [Nat.mul_comm]; omega
          simp only [mem, hp2]
          show r2.base ≤ r1.base ∧ r1.base < r2.base + 2 ^ (r2.k + 1)
          rw [pow_succ2]; have := pow_pos' r2.k; omega
      have hdisj : r1.disj r2 := by
        intro y ⟨hy1, hy2⟩
        rcases hs with ⟨e1, e2, e3⟩ | ⟨e1, e2, e3⟩ <;> simp only [mem] at hy1 hy2 <;> omega
      -- a ≠ r2 (else r1, r2 both in A: sibling pair), so a is strictly bigger and contains the parent
      have hane : a ≠ r2 := by
        intro e; subst e
        rcases hs with h | h
        · exact hA.ns r1 o1 a ha h
        · exact hA.ns a ha r1 o1 h
      have hak : r2.k < a.k := by
        have hle := (sub_k_le' r2 a hsub)
        rcases Nat.lt_or_ge r2.k a.k with h | h
        · exact h
        · exact absurd (eq_of_share a r2 (hA.al a ha) hr2 (by omega) r2.base (hsub _ (mem_base r2)) (mem_base r2)) hane
      have hpa : r2.parent.sub a :=
        sub_of_share r2.parent a (parent_aligned r2) (hA.al a ha) (by simp [parent]; omega) r2.base
          (sub_parent r2 hr2 _ (mem_base r2)) (hsub _ (mem_base r2))
      have ha1 : a ≠ r1 := by
        intro e; subst e
        exact hdisj r2.base ⟨hsub _ (mem_base r2), mem_base r2⟩
      exact hA.dj a ha r1 o1 ha1 r1.base ⟨hpa _ hr1par, mem_base r1⟩
    rcases hR r1 h1 with ⟨o1, c1⟩ | ⟨o1, c1⟩ <;> rcases hR r2 h2 with ⟨o2, c2⟩ | ⟨o2, c2⟩
    · exact hA.ns r1 o1 r2 o2 hsib
    · exact mixed A B hA hB r1 r2 o1 o2 (Or.inl hsib) c2
    · exact mixed A B hA hB r2 r1 o2 o1 (Or.inr hsib) c1
    · exact hB.ns r1 o1 r2 o2 hsib

end NV
