/-
Lemmas/C01LFbPrint.lean — netaddr's fallback printer (`FbSocket.ntop6`: `_compact_ipv6_tokens`
with its positions list, sort and scan, and the integer test for the dotted-quad tail) prints
exactly what the platform model (`Text6.ntop6`) prints, for every 128-bit value.  Core Lean only.
-/
import NetaddrVerif.Lemmas.C01L6b
namespace NV.C01L
open NV NV.Text4 NV.Text6

/-! complete finite domains: the 256 zero / non-zero patterns of eight groups -/
theorem fbBest_eq : ∀ b0 b1 b2 b3 b4 b5 b6 b7 : Bool,
    FbSocket.bestPosition (FbSocket.zeroRuns [b0, b1, b2, b3, b4, b5, b6, b7] 0 none 0 []) =
      (longestRun [b0, b1, b2, b3, b4, b5, b6, b7]).map (fun p => (p.2, p.1)) := by decide
theorem run06_iff : ∀ b0 b1 b2 b3 b4 b5 b6 b7 : Bool,
    (longestRun [b0, b1, b2, b3, b4, b5, b6, b7] == some (0, 6)) = (b0 && b1 && b2 && b3 && b4 && b5 && !b6) := by
  decide
theorem run05_iff : ∀ b0 b1 b2 b3 b4 b5 b6 b7 : Bool,
    (longestRun [b0, b1, b2, b3, b4, b5, b6, b7] == some (0, 5)) = (b0 && b1 && b2 && b3 && b4 && !b5) := by
  decide

/-- the token assembly of `_compact_ipv6_tokens` (blank tests on the new list) equals the
    positional assembly of the platform model, on token lists without empty tokens -/
theorem assemble_eq (toks : List (List Char)) (hne : ∀ t ∈ toks, t ≠ []) (b l : Nat) (hbl : b + l ≤ toks.length) :
    (let new := toks.take b ++ [[]] ++ toks.drop (b + l)
     let new := if new.head? == some [] then [] :: new else new
     if new.getLast? == some [] then new ++ [[]] else new) =
    (if b == 0 then [[]] else []) ++ toks.take b ++ [[]] ++ toks.drop (b + l)
      ++ (if b + l == toks.length then [[]] else []) := by
  -- head
  have hhead : ((toks.take b ++ [[]] ++ toks.drop (b + l)).head? == some []) = (b == 0) := by
    cases b with
    | zero => simp
    | succ b =>
      cases toks with
      | nil => simp at hbl
      | cons t0 r =>
        have : t0 ≠ [] := hne t0 (by simp)
        simp [this]
  -- last
  have hlast : ∀ pre : List (List Char),
      ((pre ++ [[]] ++ toks.drop (b + l)).getLast? == some []) = (b + l == toks.length) := by
    intro pre
    rcases List.eq_nil_or_concat (toks.drop (b + l)) with h | ⟨L, t, h⟩
    · have : b + l = toks.length := by
        have := congrArg List.length h
        simp at this; omega
      simp [h, this]
    · rw [List.concat_eq_append] at h
      have hmem : t ∈ toks := List.mem_of_mem_drop (by rw [h]; simp)
      have ht : t ≠ [] := hne t hmem
      have hlt : ¬ (b + l = toks.length) := by
        intro e
        have := congrArg List.length h
        simp [e] at this
      rw [h, ← List.append_assoc, List.getLast?_concat]
      have e1 : (some t == some ([] : List Char)) = false := by
        cases t with
        | nil => exact absurd rfl ht
        | cons _ _ => rfl
      have e2 : (b + l == toks.length) = false := beq_eq_false_iff_ne.mpr hlt
      rw [e1, e2]
  dsimp only
  rw [hhead]
  cases hb : (b == 0) with
  | true =>
    simp only [if_true]
    have := hlast ([] :: toks.take b)
    simp only [List.cons_append] at this ⊢
    rw [this]
    cases (b + l == toks.length) <;> simp
  | false =>
    simp only [Bool.false_eq_true, if_false, List.nil_append]
    rw [hlast]
    cases (b + l == toks.length) <;> simp

/-- `_compact_ipv6_tokens` given what its run search finds -/
theorem compactTokens_eq (toks : List (List Char)) (hne : ∀ t ∈ toks, t ≠ []) (best : Option (Nat × Nat))
    (hbest : FbSocket.bestPosition (FbSocket.zeroRuns (toks.map (· == ['0'])) 0 none 0 []) = best.map (fun p => (p.2, p.1)))
    (hrun : ∀ b l, best = some (b, l) → b + l ≤ toks.length) :
    FbSocket.compactTokens toks =
      match best with
      | none => toks
      | some (b, l) => (if b == 0 then [[]] else []) ++ toks.take b ++ [[]] ++ toks.drop (b + l)
          ++ (if b + l == toks.length then [[]] else []) := by
  unfold FbSocket.compactTokens
  simp only [hbest]
  cases best with
  | none => rfl
  | some bl =>
    obtain ⟨b, l⟩ := bl
    simp only [Option.map_some]
    exact assemble_eq toks hne b l (hrun b l rfl)

theorem flags_hex (ws : List Nat) : (ws.map hex).map (· == ['0']) = ws.map (· == 0) := by
  rw [List.map_map]
  apply List.map_congr_left
  intro w _
  exact hex_eq_zero_iff w

theorem ntoa_ne_nil (x : Nat) : ntoa x ≠ [] := by rw [ntoa_eq]; simp [List.intercalate]
theorem ntoa_ne_zero (x : Nat) : (ntoa x == ['0']) = false := by
  apply beq_eq_false_iff_ne.mpr
  intro e
  have : '.' ∈ ntoa x := by rw [ntoa_eq]; simp [List.intercalate]
  rw [e] at this
  simp at this

theorem hex0 : hex 0 = ['0'] := by decide
theorem hexffff_ne : (hex 65535 == ['0']) = false := by decide

/-- `fbsocket.inet_ntop(AF_INET6, ·)` = `socket.inet_ntop(AF_INET6, ·)` (models), all values -/
theorem fb_ntop6_eq (v : Nat) (hv : v < 2 ^ 128) : FbSocket.ntop6 v = Text6.ntop6 v := by
  have hA1 : (0xffff < v ∧ v ≤ 0xffffffff) ↔ ((v >>> 112) % 65536 = 0 ∧ (v >>> 96) % 65536 = 0 ∧
      (v >>> 80) % 65536 = 0 ∧ (v >>> 64) % 65536 = 0 ∧ (v >>> 48) % 65536 = 0 ∧ (v >>> 32) % 65536 = 0 ∧
      (v >>> 16) % 65536 ≠ 0) := by
    simp only [Nat.shiftRight_eq_div_pow]; omega
  have hA2 : (v >>> 32 = 0xffff) ↔ ((v >>> 112) % 65536 = 0 ∧ (v >>> 96) % 65536 = 0 ∧
      (v >>> 80) % 65536 = 0 ∧ (v >>> 64) % 65536 = 0 ∧ (v >>> 48) % 65536 = 0 ∧ (v >>> 32) % 65536 = 0xffff) := by
    simp only [Nat.shiftRight_eq_div_pow]; omega
  have hlow : (v >>> 16) % 65536 * 65536 + v % 65536 = v % 4294967296 := by
    simp only [Nat.shiftRight_eq_div_pow]; omega
  have hx : v % 4294967296 < 2 ^ 32 := Nat.mod_lt _ (by decide)
  have hsm := small_words v
  unfold FbSocket.ntop6 Text6.ntop6
  dsimp only
  congr 1
  have hw : FbSocket.words v = Text6.words v := rfl
  have hh : FbSocket.hex = Text6.hex := rfl
  rw [hw, hh]
  simp only [hA1, hA2]
  have hwords : words v = [(v >>> 112) % 65536, (v >>> 96) % 65536, (v >>> 80) % 65536, (v >>> 64) % 65536,
      (v >>> 48) % 65536, (v >>> 32) % 65536, (v >>> 16) % 65536, v % 65536] := rfl
  have hs6 : (v >>> 16) % 65536 < 65536 := Nat.mod_lt _ (by decide)
  have hs7 : v % 65536 < 65536 := Nat.mod_lt _ (by decide)
  rw [hwords] at hsm ⊢
  generalize (v >>> 112) % 65536 = w0 at *
  generalize (v >>> 96) % 65536 = w1 at *
  generalize (v >>> 80) % 65536 = w2 at *
  generalize (v >>> 64) % 65536 = w3 at *
  generalize (v >>> 48) % 65536 = w4 at *
  generalize (v >>> 32) % 65536 = w5 at *
  generalize (v >>> 16) % 65536 = w6 at *
  generalize v % 65536 = w7 at *
  have hne8 : ∀ t ∈ [w0, w1, w2, w3, w4, w5, w6, w7].map hex, t ≠ [] := by
    intro t ht; obtain ⟨n, _, rfl⟩ := List.mem_map.mp ht; exact hex_ne_nil n
  have hD1 := fbBest_eq (w0 == 0) (w1 == 0) (w2 == 0) (w3 == 0) (w4 == 0) (w5 == 0) (w6 == 0) (w7 == 0)
  have hD3 := run06_iff (w0 == 0) (w1 == 0) (w2 == 0) (w3 == 0) (w4 == 0) (w5 == 0) (w6 == 0) (w7 == 0)
  have hD4 := run05_iff (w0 == 0) (w1 == 0) (w2 == 0) (w3 == 0) (w4 == 0) (w5 == 0) (w6 == 0) (w7 == 0)
  have hflags : [w0, w1, w2, w3, w4, w5, w6, w7].map (· == 0) =
      [w0 == 0, w1 == 0, w2 == 0, w3 == 0, w4 == 0, w5 == 0, w6 == 0, w7 == 0] := rfl
  rw [hflags]
  by_cases hC6 : w0 = 0 ∧ w1 = 0 ∧ w2 = 0 ∧ w3 = 0 ∧ w4 = 0 ∧ w5 = 0 ∧ w6 ≠ 0
  · -- ::a.b.c.d
    obtain ⟨r0, r1, r2, r3, r4, r5, r6⟩ := hC6
    subst r0 r1 r2 r3 r4 r5
    have h6 : (w6 == 0) = false := beq_eq_false_iff_ne.mpr r6
    simp only [h6, beq_self_eq_true, Bool.and_self, Bool.not_false, beq_iff_eq] at hD3
    have hcond : (0 = 0 ∧ 0 = 0 ∧ 0 = 0 ∧ 0 = 0 ∧ 0 = 0 ∧ 0 = 0 ∧ w6 ≠ 0) ∨
        (0 = 0 ∧ 0 = 0 ∧ 0 = 0 ∧ 0 = 0 ∧ 0 = 0 ∧ (0 : Nat) = 65535) := Or.inl ⟨rfl, rfl, rfl, rfl, rfl, rfl, r6⟩
    rw [if_pos hcond]
    simp only [beq_self_eq_true, h6]
    rw [hD3]
    have hq : FbSocket.ntoa (ofBase 16 (([0, 0, 0, 0, 0, 0, w6, w7].map hex).getD 6 []) * 65536 +
        ofBase 16 (([0, 0, 0, 0, 0, 0, w6, w7].map hex).getD 7 [])) = ntoa (v % 4294967296) := by
      simp only [List.map_cons, List.map_nil, List.getD_cons_succ, List.getD_cons_zero]
      rw [show hex w6 = Nat.toDigits 16 w6 from rfl, show hex w7 = Nat.toDigits 16 w7 from rfl,
        ofBase16_toDigits, ofBase16_toDigits, hlow, fb_ntoa_eq _ hx]
    rw [hq]
    have hne7 : ∀ t ∈ ([0, 0, 0, 0, 0, 0, w6, w7].map hex).take 6 ++ [ntoa (v % 4294967296)], t ≠ [] := by
      intro t ht
      rcases List.mem_append.mp ht with h | h
      · exact hne8 t (List.mem_of_mem_take h)
      · simp only [List.mem_singleton] at h; subst h; exact ntoa_ne_nil _
    rw [compactTokens_eq _ hne7 (some (0, 6))]
    · simp [ntop6Toks, v4Tail]
    · simp [hex0, ntoa_ne_zero]; decide
    · intro b l h; cases h; simp
  · by_cases hC5 : w0 = 0 ∧ w1 = 0 ∧ w2 = 0 ∧ w3 = 0 ∧ w4 = 0 ∧ w5 = 65535
    · -- ::ffff:a.b.c.d
      obtain ⟨r0, r1, r2, r3, r4, r5⟩ := hC5
      subst r0 r1 r2 r3 r4 r5
      have h5 : ((65535 : Nat) == 0) = false := by decide
      simp only [h5, beq_self_eq_true, Bool.and_self, Bool.not_false, beq_iff_eq] at hD4
      have hcond : (0 = 0 ∧ 0 = 0 ∧ 0 = 0 ∧ 0 = 0 ∧ 0 = 0 ∧ (65535 : Nat) = 0 ∧ w6 ≠ 0) ∨
          (0 = 0 ∧ 0 = 0 ∧ 0 = 0 ∧ 0 = 0 ∧ 0 = 0 ∧ (65535 : Nat) = 65535) := Or.inr ⟨rfl, rfl, rfl, rfl, rfl, rfl⟩
      rw [if_pos hcond]
      simp only [beq_self_eq_true, h5]
      rw [hD4]
      have hq : FbSocket.ntoa (ofBase 16 (([0, 0, 0, 0, 0, 65535, w6, w7].map hex).getD 6 []) * 65536 +
          ofBase 16 (([0, 0, 0, 0, 0, 65535, w6, w7].map hex).getD 7 [])) = ntoa (v % 4294967296) := by
        simp only [List.map_cons, List.map_nil, List.getD_cons_succ, List.getD_cons_zero]
        rw [show hex w6 = Nat.toDigits 16 w6 from rfl, show hex w7 = Nat.toDigits 16 w7 from rfl,
          ofBase16_toDigits, ofBase16_toDigits, hlow, fb_ntoa_eq _ hx]
      rw [hq]
      have hne7 : ∀ t ∈ ([0, 0, 0, 0, 0, 65535, w6, w7].map hex).take 6 ++ [ntoa (v % 4294967296)], t ≠ [] := by
        intro t ht
        rcases List.mem_append.mp ht with h | h
        · exact hne8 t (List.mem_of_mem_take h)
        · simp only [List.mem_singleton] at h; subst h; exact ntoa_ne_nil _
      rw [compactTokens_eq _ hne7 (some (0, 5))]
      · simp [ntop6Toks, v4Tail]
      · simp [hex0, ntoa_ne_zero, hexffff_ne]; decide
      · intro b l h; cases h; simp
    · -- all groups in hex
      have hcond : ¬ ((w0 = 0 ∧ w1 = 0 ∧ w2 = 0 ∧ w3 = 0 ∧ w4 = 0 ∧ w5 = 0 ∧ w6 ≠ 0) ∨
          (w0 = 0 ∧ w1 = 0 ∧ w2 = 0 ∧ w3 = 0 ∧ w4 = 0 ∧ w5 = 65535)) := by
        intro h; rcases h with h | h
        · exact hC6 h
        · exact hC5 h
      rw [if_neg hcond]
      generalize hbest : longestRun [w0 == 0, w1 == 0, w2 == 0, w3 == 0, w4 == 0, w5 == 0, w6 == 0, w7 == 0] = best at *
      have htail : v4Tail [w0, w1, w2, w3, w4, w5, w6, w7] best = false := by
        cases hh : v4Tail [w0, w1, w2, w3, w4, w5, w6, w7] best with
        | false => rfl
        | true =>
          exfalso
          cases best with
          | none => simp [v4Tail] at hh
          | some bl =>
            obtain ⟨b, l⟩ := bl
            cases b with
            | succ b => simp [v4Tail] at hh
            | zero =>
              simp only [v4Tail, Bool.or_eq_true, Bool.and_eq_true, beq_iff_eq, List.getD_cons_succ,
                List.getD_cons_zero] at hh
              rcases hh with h | ⟨h, hf⟩
              · subst h
                simp only [beq_self_eq_true] at hD3
                have := hD3.symm
                simp only [Bool.and_eq_true, beq_iff_eq, Bool.not_eq_true', beq_eq_false_iff_ne] at this
                exact hC6 ⟨this.1.1.1.1.1.1, this.1.1.1.1.1.2, this.1.1.1.1.2, this.1.1.1.2, this.1.1.2, this.1.2, this.2⟩
              · subst h
                simp only [beq_self_eq_true] at hD4
                have := hD4.symm
                simp only [Bool.and_eq_true, beq_iff_eq, Bool.not_eq_true', beq_eq_false_iff_ne] at this
                exact hC5 ⟨this.1.1.1.1.1, this.1.1.1.1.2, this.1.1.1.2, this.1.1.2, this.1.2, hf⟩
      have hrun : ∀ b l, best = some (b, l) → b + l ≤ ([w0, w1, w2, w3, w4, w5, w6, w7].map hex).length := by
        intro b l hb
        have := run_facts [w0, w1, w2, w3, w4, w5, w6, w7] rfl b l (by rw [hflags, hbest, hb])
        simpa using this.2.1
      rw [compactTokens_eq _ hne8 best (by rw [flags_hex, hflags]; exact hD1) hrun]
      unfold ntop6Toks
      simp only [htail, Bool.false_eq_true, if_false]
      cases best with
      | none => rfl
      | some bl => obtain ⟨b, l⟩ := bl; simp

end NV.C01L
